(** Scanner proofs, part 5a (C16 2b/2c): two-text simulation at the end of a line.
    [x] is a line body without newline.  Run 1 scans [T1 = x ++ "\n"], run 2 scans
    [T2 = x ++ w ++ tl] where [w] is a run of spaces/tabs and [tl] is either "\n" or ";" c "\n".
    While run 1 stays inside [x] both runs are in lock step; where a lexer looks at the character
    after [x] (newline in run 1, a blank or ";" in run 2) it takes the same decision, except that
    a run of spaces ([ignore_run " "]) may carry run 2 some way into [w] (offset [k]).
    This file: the setting, the primitives and the lexers that never skip blanks. *)
From A816 Require Import Model.Scanner Proofs.ScannerSpec Proofs.ScannerFuel Proofs.ScannerPos
  Proofs.ScannerMono Proofs.ScannerShift Proofs.ScannerPrefix Proofs.ScannerLayout
  Proofs.ScannerComments Proofs.ScannerColumns.
From Coq Require Import Arith Lia.
Open Scope nat_scope.

(* ------------------------------------------------------------------------------------------ *)
(** * Generic facts *)

Lemma str_eqb_false_at (l p : str) j : j < length p -> nth j l 0%Z <> nth j p 0%Z -> str_eqb l p = false.
Proof.
  intros Hj Hn. destruct (str_eqb l p) eqn:E; [|reflexivity]. exfalso.
  apply str_eqb_true in E. subst l. congruence.
Qed.

Lemma set_pos_same s : set_pos s (pos s) = s.
Proof. destruct s; reflexivity. Qed.

Lemma next_plain s : pos s < length (inp s) -> nth (pos s) (inp s) 0%Z <> 10%Z ->
  next s = (Some (nth (pos s) (inp s) 0%Z), set_pos s (S (pos s))).
Proof.
  intros Hlt Hne. unfold next. rewrite (nth_error_nth' _ 0%Z Hlt).
  destruct (Z.eqb_spec (nth (pos s) (inp s) 0%Z) 10); [contradiction|reflexivity].
Qed.

(** a run of accepts over a stretch free of newlines only moves [pos] *)
Lemma accept_run_stretch_nl c : forall F s q,
  pos s <= q -> q < length (inp s) ->
  (forall i, pos s <= i < q -> mem_z (nth i (inp s) 0%Z) c = true /\ nth i (inp s) 0%Z <> 10%Z) ->
  mem_z (nth q (inp s) 0%Z) c = false -> q - pos s < F ->
  accept_run F s c false = LOk (set_pos s q).
Proof.
  induction F as [|F IH]; intros s q Hle Hq Hin Hout HF; [lia|]. cbn [accept_run].
  destruct (Nat.eq_dec (pos s) q) as [E|Hne].
  - rewrite (accept_no s (nth q (inp s) 0%Z)) by (rewrite ?peek_nth, ?E; auto).
    rewrite <- E, set_pos_same. reflexivity.
  - destruct (Hin (pos s)) as [Hm H10]; [lia|].
    rewrite (accept_yes s (nth (pos s) (inp s) 0%Z)) by (rewrite ?peek_nth; auto).
    rewrite next_plain; [|lia|exact H10]. cbn [snd].
    rewrite (IH (set_pos s (S (pos s))) q); cbn [set_pos pos inp]; try lia; auto.
    intros i Hi. apply Hin. lia.
Qed.

Lemma accept_run_stretch c : mem_z 10 c = false -> forall F s q,
  pos s <= q -> q < length (inp s) ->
  (forall i, pos s <= i < q -> mem_z (nth i (inp s) 0%Z) c = true) ->
  mem_z (nth q (inp s) 0%Z) c = false -> q - pos s < F ->
  accept_run F s c false = LOk (set_pos s q).
Proof.
  intros Hc F s q Hle Hq Hin Hout HF. apply accept_run_stretch_nl; auto.
  intros i Hi. split; [apply Hin; assumption|]. intros E. specialize (Hin i Hi). rewrite E, Hc in Hin. discriminate.
Qed.

Lemma exists_stop c (l : str) : forall d p,
  mem_z (nth (p + d) l 0%Z) c = false ->
  exists q, p <= q <= p + d /\ (forall i, p <= i < q -> mem_z (nth i l 0%Z) c = true) /\
            mem_z (nth q l 0%Z) c = false.
Proof.
  induction d as [|d IH]; intros p Hout.
  - exists p. rewrite Nat.add_0_r in Hout. repeat split; auto; lia.
  - destruct (mem_z (nth p l 0%Z) c) eqn:E.
    + destruct (IH (S p)) as (q & Hq & Hin & Ho); [replace (S p + d) with (p + S d) by lia; exact Hout|].
      exists q. split; [lia|]. split; [|exact Ho].
      intros i Hi. destruct (Nat.eq_dec i p) as [->|Hn]; [exact E|apply Hin; lia].
    + exists p. repeat split; auto; lia.
Qed.

(** all characters passed by a plain run are candidates *)
Lemma accept_run_between c : forall F s a, accept_run F s c false = LOk a ->
  forall i, pos s <= i < pos a -> mem_z (nth i (inp s) 0%Z) c = true.
Proof.
  induction F as [|F IH]; intros s a; cbn [accept_run]; [discriminate|].
  destruct (accept s c false) as [b y] eqn:A. destruct b.
  - intros H i Hi. unfold accept in A. rewrite xorb_false_r in A.
    destruct (mem_z (peek s) c) eqn:M; [|discriminate]. injection A as <-.
    pose proof (next_fields s) as (Ei & _ & _ & _ & P1 & P2).
    destruct (Nat.eq_dec i (pos s)) as [->|Hn]; [rewrite <- peek_nth; exact M|].
    rewrite <- Ei. apply (IH _ _ H). lia.
  - intros H i Hi. injection H as <-. apply accept_false in A. subst y. lia.
Qed.

(* ------------------------------------------------------------------------------------------ *)
(** * The setting *)

(** the characters run 2 can see where run 1 sees the final newline *)
Definition Kc (v : Z) : Prop := v = 10%Z \/ v = 32%Z \/ v = 9%Z \/ v = 59%Z.
(** a candidate set that contains none of them *)
Definition clsb (c : str) : bool :=
  negb (mem_z 10 c) && negb (mem_z 32 c) && negb (mem_z 9 c) && negb (mem_z 59 c).

Lemma cls_K c v : clsb c = true -> Kc v -> mem_z v c = false.
Proof.
  unfold clsb. intros H. repeat (apply andb_true_iff in H as [H ?]).
  intros [-> | [-> | [-> | ->]]]; apply negb_true_iff; assumption.
Qed.

(** steps that never accept a newline only move [pos] *)
Lemma next_setpos s : peek s <> 10%Z -> snd (next s) = set_pos s (pos (snd (next s))).
Proof.
  intros Hpk. unfold next. destruct (nth_error (inp s) (pos s)) as [c|] eqn:E; cbn [snd].
  - apply nth_error_nth0 in E. rewrite <- peek_nth in E. subst c.
    destruct (Z.eqb_spec (peek s) 10); [contradiction|reflexivity].
  - symmetry. apply set_pos_same.
Qed.

Lemma accept_setpos s c neg : xorb (mem_z 10 c) neg = false ->
  snd (accept s c neg) = set_pos s (pos (snd (accept s c neg))).
Proof.
  intros Hc. unfold accept. destruct (xorb (mem_z (peek s) c) neg) eqn:X; cbn [snd].
  - apply next_setpos. intros E. rewrite E, Hc in X. discriminate.
  - symmetry. apply set_pos_same.
Qed.

Lemma accept_run_setpos c neg : xorb (mem_z 10 c) neg = false ->
  forall G s a, accept_run G s c neg = LOk a -> a = set_pos s (pos a).
Proof.
  intros Hc. induction G as [|G IH]; intros s a; cbn [accept_run]; [discriminate|].
  pose proof (accept_setpos s c neg Hc) as E.
  destruct (accept s c neg) as [b y]. cbn [snd] in E. destruct b.
  - intros H. apply IH in H. rewrite H, E. reflexivity.
  - intros H. injection H as <-. exact E.
Qed.

(** the look-ahead of lex_opcode for a mnemonic without operand: blanks, then an optional ";"
    comment up to the end of the line *)
Definition look (G : nat) (s : sc) : lres sc :=
  dol s1 <- accept_run G s [32; 9]%Z false;
  let '(b, s2) := accept s1 [59%Z] false in
  if b then accept_run G s2 eol_or_eof true else LOk s2.

Definition at_eol (s : sc) : bool := (peek s =? 10)%Z || (peek s =? 0)%Z.
Definition is_end (v : Z) : bool := (v =? 10)%Z || (v =? 0)%Z || (v =? 59)%Z.

Lemma look_setpos G s s3 : look G s = LOk s3 -> s3 = set_pos s (pos s3).
Proof.
  unfold look. destruct (accept_run G s [32; 9]%Z false) as [s1| | |] eqn:R; cbn [lbind]; try discriminate.
  apply (accept_run_setpos [32; 9]%Z false eq_refl) in R.
  pose proof (accept_setpos s1 [59%Z] false eq_refl) as E.
  destruct (accept s1 [59%Z] false) as [b s2]. cbn [snd] in E. destruct b.
  - intros H. apply (accept_run_setpos eol_or_eof true eq_refl) in H. rewrite H, E, R. reflexivity.
  - intros H. injection H as <-. rewrite E, R. reflexivity.
Qed.

Lemma look_test G s q : length (inp s) < G ->
  pos s <= q -> q < length (inp s) ->
  (forall i, pos s <= i < q -> mem_z (nth i (inp s) 0%Z) [32; 9]%Z = true) ->
  mem_z (nth q (inp s) 0%Z) [32; 9]%Z = false ->
  exists s3, look G s = LOk s3 /\ at_eol s3 = is_end (nth q (inp s) 0%Z).
Proof.
  intros HG Hle Hq Hin Hout. unfold look.
  rewrite (accept_run_stretch [32; 9]%Z eq_refl G s q) by (auto; lia). cbn [lbind].
  assert (Hpk : peek (set_pos s q) = nth q (inp s) 0%Z) by (rewrite peek_nth; reflexivity).
  destruct (Z.eqb_spec (nth q (inp s) 0%Z) 59) as [E59|N59].
  - rewrite (accept_yes (set_pos s q) 59%Z) by (rewrite ?Hpk, ?E59; reflexivity).
    set (y := snd (next (set_pos s q))).
    pose proof (accept_run_post eol_or_eof true eq_refl G y (inp s) 0) as P.
    pose proof (accept_run_no_raise eol_or_eof true G y) as NR.
    assert (Hy : inp y = inp s) by (subst y; apply (next_fields (set_pos s q))).
    destruct (accept_run G y eol_or_eof true) as [a|m l c a| |] eqn:R.
    + exists a. split; [reflexivity|].
      pose proof (accept_run_fields _ _ _ _ _ R) as (_ & _ & _ & _ & _ & St).
      rewrite xorb_true_r in St. apply negb_false_iff in St. rewrite E59. unfold at_eol, is_end. cbn.
      unfold mem_z in St. cbn in St. rewrite orb_false_r in St. exact St.
    + exfalso. eapply NR. reflexivity.
    + exfalso. apply P; [lia|split; [assumption|lia]].
    + exfalso. apply P; [lia|split; [assumption|lia]].
  - rewrite (accept_no (set_pos s q) (nth q (inp s) 0%Z)) by (auto; unfold mem_z; cbn; apply Z.eqb_neq in N59; rewrite N59; reflexivity).
    exists (set_pos s q). split; [reflexivity|]. unfold at_eol, is_end. rewrite Hpk.
    apply Z.eqb_neq in N59. rewrite N59, orb_false_r. reflexivity.
Qed.

(** the mnemonics contain no newline, blank or ";" (they are letters) *)
Definition lexicon_tok (lx : lexicon) : bool := forallb clsb (lx_mnemonics lx).

(** the end of a line after its body: blanks, then newline or a ";" comment *)
Definition tail_ok (tl : str) : Prop :=
  tl = [10%Z] \/ exists c, tl = 59%Z :: c ++ [10%Z] /\ ~ In 10%Z c.

Section Trailing.
  Variable x w tl : str.
  Hypothesis Hx : ~ In 10%Z x.
  Hypothesis Hw : blank_nonl w.
  Hypothesis Htl : tail_ok tl.
  Local Notation n := (length x).
  Definition T1 : str := x ++ [10%Z].
  Definition T2 : str := x ++ w ++ tl.

  Lemma len_T1 : length T1 = S n.
  Proof. unfold T1. rewrite app_length. cbn. lia. Qed.
  Lemma len_tl : 1 <= length tl.
  Proof. destruct Htl as [-> | (c & -> & _)]; cbn; lia. Qed.
  Lemma len_T2 : length T2 = n + length w + length tl.
  Proof. unfold T2. rewrite !app_length. lia. Qed.

  Lemma T1_in i : i < n -> nth i T1 0%Z = nth i x 0%Z.
  Proof. intros. unfold T1. apply app_nth1. assumption. Qed.
  Lemma T2_in i : i < n -> nth i T2 0%Z = nth i x 0%Z.
  Proof. intros. unfold T2. apply app_nth1. assumption. Qed.
  Lemma T1_n : nth n T1 0%Z = 10%Z.
  Proof. unfold T1. apply nth_middle. Qed.
  Lemma x_nonl i : i < n -> nth i x 0%Z <> 10%Z.
  Proof. intros Hi E. apply Hx. rewrite <- E. apply nth_In. assumption. Qed.

  Lemma w_char j : j < length w -> nth j w 0%Z = 32%Z \/ nth j w 0%Z = 9%Z.
  Proof. intros Hj. unfold blank_nonl in Hw. rewrite Forall_forall in Hw. apply Hw, nth_In, Hj. Qed.
  Lemma tl_head : nth 0 tl 0%Z = 10%Z \/ nth 0 tl 0%Z = 59%Z.
  Proof. destruct Htl as [-> | (c & -> & _)]; cbn; auto. Qed.

  Lemma T2_w j : j < length w -> nth (n + j) T2 0%Z = nth j w 0%Z.
  Proof. intros Hj. unfold T2. rewrite app_nth2_plus. apply app_nth1. assumption. Qed.
  Lemma T2_tl j : nth (n + length w + j) T2 0%Z = nth j tl 0%Z.
  Proof. unfold T2. rewrite <- Nat.add_assoc, app_nth2_plus, app_nth2_plus. reflexivity. Qed.

  Lemma T2_K k : k <= length w -> Kc (nth (n + k) T2 0%Z).
  Proof.
    intros Hk. destruct (Nat.eq_dec k (length w)) as [->|Hne].
    - rewrite <- (Nat.add_0_r (n + length w)), T2_tl. destruct tl_head as [-> | ->]; unfold Kc; auto.
    - rewrite T2_w by lia. destruct (w_char k) as [-> | ->]; [lia| |]; unfold Kc; auto.
  Qed.

  Lemma slice_T1 a b : b <= n -> slice T1 a b = slice x a b.
  Proof. intros. unfold T1. apply slice_ext. assumption. Qed.
  Lemma slice_T2 a b : b <= n -> slice T2 a b = slice x a b.
  Proof. intros. unfold T2. apply slice_ext. assumption. Qed.

  (** run 2's state for run 1's state [t], [k] blanks of [w] further on *)
  Definition tw (k : nat) (t : sc) : sc :=
    mk_sc T2 (k + pos t) (k + start t) (loff t) (cline t) (lines_rev t) (toks_rev t) (fname t).

  (** lock step ([k = 0], at most at the end of [x]) or run 1 waiting at the end of [x] with an
      empty token while run 2 is [k] blanks into [w] *)
  Definition W (k : nat) (t : sc) : Prop :=
    inp t = T1 /\ ((k = 0 /\ pos t <= n) \/ (pos t = n /\ start t = n /\ k <= length w)).

  Lemma W_pos k t : W k t -> pos t <= n.
  Proof. intros [_ [[_ H]|[H _]]]; lia. Qed.
  Lemma W_k k t : W k t -> k <= length w.
  Proof. intros [_ [[-> _]|(_ & _ & H)]]; lia. Qed.
  Lemma W_in k t : W k t -> pos t < n -> k = 0.
  Proof. intros [_ [[H _]|[H _]]] Hp; [assumption|lia]. Qed.
  Lemma W0 t : inp t = T1 -> pos t <= n -> W 0 t.
  Proof. intros; split; auto. Qed.

  Lemma tw_ignore k t : ignore (tw k t) = tw k (ignore t).
  Proof. reflexivity. Qed.
  Lemma W_ignore k t : W k t -> W k (ignore t).
  Proof. intros [Hi [[-> H]|(H1 & H2 & H3)]]; split; cbn; auto. Qed.

  Lemma peek_in k t : W k t -> pos t < n -> peek (tw k t) = peek t /\ peek t <> 10%Z.
  Proof.
    intros HW Hp. pose proof (W_in k t HW Hp) as ->. destruct HW as [Hi _].
    rewrite !peek_nth. cbn [tw inp pos Nat.add]. rewrite Hi, T1_in, T2_in by assumption.
    split; [reflexivity|apply x_nonl; assumption].
  Qed.

  Lemma peek_bd k t : W k t -> pos t = n -> peek t = 10%Z /\ Kc (peek (tw k t)).
  Proof.
    intros HW Hp. pose proof (W_k k t HW) as Hk. destruct HW as [Hi _].
    rewrite !peek_nth. cbn [tw inp pos]. rewrite Hi, Hp, (Nat.add_comm k n). split; [apply T1_n|apply T2_K; assumption].
  Qed.

  Lemma peek_eqb k t v : W k t -> ~ Kc v -> (peek (tw k t) =? v)%Z = (peek t =? v)%Z.
  Proof.
    intros HW Hv. destruct (Nat.lt_ge_cases (pos t) n) as [Hlt|Hge].
    - destruct (peek_in k t HW Hlt) as [-> _]. reflexivity.
    - assert (Hp : pos t = n) by (pose proof (W_pos k t HW); lia).
      destruct (peek_bd k t HW Hp) as [E1 E2].
      assert (N1 : peek t <> v) by (rewrite E1; intros <-; apply Hv; unfold Kc; auto).
      assert (N2 : peek (tw k t) <> v) by (intros <-; contradiction).
      apply Z.eqb_neq in N1, N2. congruence.
  Qed.

  Lemma next_in k t : W k t -> pos t < n ->
    next t = (Some (peek t), set_pos t (S (pos t))) /\
    next (tw k t) = (Some (peek t), tw k (set_pos t (S (pos t)))) /\
    W k (set_pos t (S (pos t))).
  Proof.
    intros HW Hp. pose proof (W_in k t HW Hp) as ->. destruct (peek_in 0 t HW Hp) as [E1 E2].
    destruct HW as [Hi _]. split; [|split].
    - rewrite peek_nth. apply next_plain; [rewrite Hi, len_T1; lia|rewrite <- peek_nth; exact E2].
    - rewrite <- E1. rewrite peek_nth. rewrite next_plain.
      + unfold tw, set_pos. cbn. reflexivity.
      + cbn [tw inp pos]. rewrite len_T2. pose proof len_tl. lia.
      + rewrite <- peek_nth, E1. exact E2.
    - apply W0; cbn; [assumption|lia].
  Qed.

  (** a test on a set without newline, blanks and ";" is decided alike *)
  Lemma W_accept k t c : W k t -> clsb c = true ->
    accept (tw k t) c false = (fst (accept t c false), tw k (snd (accept t c false))) /\
    W k (snd (accept t c false)) /\ (fst (accept t c false) = true -> k = 0 /\ pos t < n).
  Proof.
    intros HW Hc. unfold accept. rewrite !xorb_false_r.
    destruct (Nat.lt_ge_cases (pos t) n) as [Hlt|Hge].
    - destruct (peek_in k t HW Hlt) as [-> _].
      destruct (next_in k t HW Hlt) as (N1 & N2 & N3).
      destruct (mem_z (peek t) c); cbn [fst snd].
      + rewrite N1, N2. cbn [snd]. split; [reflexivity|]. split; [assumption|].
        intros _. split; [exact (W_in k t HW Hlt)|assumption].
      + split; [reflexivity|]. split; [assumption|discriminate].
    - assert (Hp : pos t = n) by (pose proof (W_pos k t HW); lia).
      destruct (peek_bd k t HW Hp) as [E1 E2].
      rewrite (cls_K c _ Hc E2). rewrite E1, (cls_K c 10%Z Hc) by (unfold Kc; auto). cbn [fst snd].
      split; [reflexivity|]. split; [assumption|discriminate].
  Qed.

  (** strictly inside [x] every test is decided alike *)
  Lemma W_accept_in k t c neg : W k t -> pos t < n ->
    accept (tw k t) c neg = (fst (accept t c neg), tw k (snd (accept t c neg))) /\
    W k (snd (accept t c neg)).
  Proof.
    intros HW Hlt. unfold accept. destruct (peek_in k t HW Hlt) as [-> _].
    destruct (next_in k t HW Hlt) as (N1 & N2 & N3).
    destruct (xorb _ _); cbn [fst snd]; [rewrite N1, N2; cbn [snd]|]; auto.
  Qed.

  Lemma W_accept_prefix k t p : (forall ch, In ch p -> ~ Kc ch) -> p <> [] -> W k t ->
    accept_prefix (tw k t) p = (fst (accept_prefix t p), tw k (snd (accept_prefix t p))) /\
    W k (snd (accept_prefix t p)) /\ (fst (accept_prefix t p) = true -> k = 0).
  Proof.
    intros Hp Hne HW. pose proof (W_pos k t HW) as Hpos. pose proof (W_k k t HW) as Hk.
    unfold accept_prefix. cbn [tw inp pos]. destruct HW as [Hi Hc]. rewrite Hi.
    destruct (Nat.le_gt_cases (pos t + length p) n) as [Hle|Hgt].
    - assert (k = 0) as ->.
      { destruct Hc as [[-> _]|(E & _ & _)]; [reflexivity|]. destruct p; [congruence|cbn in Hle; lia]. }
      cbn [Nat.add]. rewrite slice_T1, slice_T2 by assumption.
      destruct (str_eqb (slice x (pos t) (pos t + length p)) p); cbn [fst snd].
      + split; [reflexivity|].
        split; [apply W0; cbn; auto|auto].
      + split; [reflexivity|]. split; [apply W0; auto|discriminate].
    - set (j := n - pos t). assert (Hj : j < length p) by (subst j; lia).
      assert (NK : ~ Kc (nth j p 0%Z)) by (apply Hp, nth_In, Hj).
      assert (E1 : str_eqb (slice T1 (pos t) (pos t + length p)) p = false).
      { apply (str_eqb_false_at _ _ j Hj). rewrite nth_slice by lia.
        replace (pos t + j) with n by (subst j; lia). rewrite T1_n. intros E. apply NK. rewrite <- E. unfold Kc; auto. }
      assert (E2 : str_eqb (slice T2 (k + pos t) (k + pos t + length p)) p = false).
      { apply (str_eqb_false_at _ _ j Hj). rewrite nth_slice by lia.
        replace (k + pos t + j) with (n + k)
          by (subst j; destruct Hc as [[-> _]|(E & _ & _)]; lia).
        intros E. apply NK. rewrite <- E. apply T2_K. assumption. }
      rewrite E1, E2. cbn [fst snd]. split; [reflexivity|]. split; [split; assumption|discriminate].
  Qed.

  Lemma W_emit t ty : W 0 t -> emit (tw 0 t) ty = tw 0 (emit t ty) /\ W 0 (emit t ty).
  Proof.
    intros HW. pose proof (W_pos 0 t HW) as Hp. destruct HW as [Hi _]. split; [|apply W0; cbn; auto].
    unfold emit, tw, get_token, current_token_text, get_position.
    cbn [inp pos start loff cline lines_rev toks_rev fname Nat.add]. rewrite Hi.
    rewrite slice_T1, slice_T2 by assumption. reflexivity.
  Qed.

  Lemma W_ctt t : W 0 t -> current_token_text (tw 0 t) = current_token_text t.
  Proof.
    intros HW. pose proof (W_pos 0 t HW) as Hp. destruct HW as [Hi _].
    unfold current_token_text. cbn [tw inp start pos Nat.add]. rewrite Hi, slice_T1, slice_T2 by assumption.
    reflexivity.
  Qed.

  (** ** OK outcomes of run 1 reproduced by run 2 *)
  Definition lsim (Q : nat -> sc -> Prop) (r r' : lres sc) : Prop :=
    match r with
    | LOk a => exists k, r' = LOk (tw k a) /\ Q k a
    | _ => True
    end.

  Lemma lsim_bind (Q Q' : nat -> sc -> Prop) r r' (h h' : sc -> lres sc) :
    lsim Q r r' -> (forall k a, Q k a -> lsim Q' (h a) (h' (tw k a))) -> lsim Q' (lbind r h) (lbind r' h').
  Proof.
    destruct r as [a|m l c a| |]; cbn [lsim lbind]; auto.
    intros (k & -> & Ha) H. apply H. assumption.
  Qed.

  Lemma lsim_weaken (Q Q' : nat -> sc -> Prop) r r' :
    lsim Q r r' -> (forall k a, Q k a -> Q' k a) -> lsim Q' r r'.
  Proof. destruct r; cbn; auto. intros (k & ? & ?) HH. eauto. Qed.

  Lemma lsim_ok (Q : nat -> sc -> Prop) k a : Q k a -> lsim Q (LOk a) (LOk (tw k a)).
  Proof. intros; exists k; auto. Qed.

  (** lock step, offset unchanged *)
  Definition Wk (k k' : nat) (a : sc) : Prop := k' = k /\ W k a.
  Definition W0k (k' : nat) (a : sc) : Prop := k' = 0 /\ W 0 a.

  Lemma Wk_W k k' a : Wk k k' a -> W k' a.
  Proof. intros [-> H]; exact H. Qed.
  Lemma W0k_W k' a : W0k k' a -> W k' a.
  Proof. intros [-> H]; exact H. Qed.

  Lemma W_accept_run c : clsb c = true -> forall F k t, W k t ->
    lsim (Wk k) (accept_run F t c false) (accept_run F (tw k t) c false).
  Proof.
    intros Hc. induction F as [|F IH]; intros k t HW; cbn [accept_run]; [exact I|].
    destruct (W_accept k t c HW Hc) as (E & HW' & _). rewrite E.
    destruct (accept t c false) as [b y]. cbn [fst snd] in *.
    destruct b; [apply IH; assumption|apply lsim_ok; split; auto].
  Qed.

  Lemma W0_accept_run c F t : clsb c = true -> W 0 t ->
    lsim W0k (accept_run F t c false) (accept_run F (tw 0 t) c false).
  Proof. intros. eapply lsim_weaken; [apply W_accept_run; assumption|]. intros k a H1; exact H1. Qed.

  (** ** a run of spaces: the only place where run 2 gets ahead *)
  Variable F : nat.
  Hypothesis HF : length T2 < F.

  Lemma W_ignore_run_sp k t : W k t -> lsim W (ignore_run F t [32%Z]) (ignore_run F (tw k t) [32%Z]).
  Proof.
    intros HW. pose proof (W_pos k t HW) as Hpos. pose proof (W_k k t HW) as Hk. pose proof HW as [Hi Hc].
    pose proof len_T2 as L2. pose proof len_tl as Ltl.
    unfold ignore_run.
    (* run 1 stops at q1 <= n *)
    destruct (exists_stop [32%Z] T1 (n - pos t) (pos t)) as (q1 & Hq1 & Hin1 & Hout1).
    { replace (pos t + (n - pos t)) with n by lia. rewrite T1_n. reflexivity. }
    assert (R1 : accept_run F t [32%Z] false = LOk (set_pos t q1)).
    { apply accept_run_stretch; rewrite ?Hi, ?len_T1; auto; lia. }
    rewrite R1. cbn [lbind lsim].
    destruct (Nat.lt_ge_cases q1 n) as [Hlt|Hge].
    - (* inside x *)
      assert (k = 0) as -> by (destruct Hc as [[-> _]|(E & _ & _)]; [reflexivity|lia]).
      assert (R2 : accept_run F (tw 0 t) [32%Z] false = LOk (set_pos (tw 0 t) q1)).
      { apply accept_run_stretch; cbn [tw inp pos Nat.add]; rewrite ?L2; auto; try lia.
        - intros i Hi'. rewrite T2_in by lia. rewrite <- T1_in by lia. apply Hin1. lia.
        - rewrite T2_in by lia. rewrite <- T1_in by lia. exact Hout1. }
      rewrite R2. cbn [lbind]. exists 0. split; [|apply W_ignore, W0; cbn; [assumption|lia]].
      reflexivity.
    - assert (q1 = n) as -> by lia.
      (* run 2 goes on over the spaces of w *)
      destruct (exists_stop [32%Z] T2 (length w - k) (n + k)) as (q2 & Hq2 & Hin2 & Hout2).
      { replace (n + k + (length w - k)) with (n + length w + 0) by lia. rewrite T2_tl.
        destruct tl_head as [-> | ->]; reflexivity. }
      assert (Hpk : k + pos t <= n + k) by lia.
      assert (R2 : accept_run F (tw k t) [32%Z] false = LOk (set_pos (tw k t) q2)).
      { apply accept_run_stretch; cbn [tw inp pos]; rewrite ?L2; auto; try lia.
        intros i Hi'. destruct (Nat.lt_ge_cases i n) as [Hin|Hout].
        - rewrite T2_in by lia. rewrite <- T1_in by lia. apply Hin1.
          destruct Hc as [[-> _]|(E & _ & _)]; lia.
        - apply Hin2. destruct Hc as [[-> _]|(E & _ & _)]; lia. }
      rewrite R2. cbn [lbind]. exists (q2 - n). split.
      + unfold tw, ignore, set_pos. cbn. f_equal. f_equal; lia.
      + split; [cbn; assumption|]. right. cbn. repeat split; lia.
  Qed.

  (* ---------------------------------------------------------------------------------------- *)
  (** ** lexers that do not skip blanks: results in lock step (offset 0) *)

  Ltac notK := unfold Kc; intuition discriminate.

  Lemma peek_hit k t v : W k t -> ~ Kc v -> (peek t =? v)%Z = true -> pos t < n.
  Proof.
    intros HW Hv E. destruct (Nat.lt_ge_cases (pos t) n) as [Hlt|Hge]; [assumption|].
    assert (Hp : pos t = n) by (pose proof (W_pos k t HW); lia).
    destruct (peek_bd k t HW Hp) as [E1 _]. apply Z.eqb_eq in E. exfalso. apply Hv. rewrite <- E, E1. unfold Kc; auto.
  Qed.

  Lemma peek_k1_eqb t v : W 0 t -> pos t < n -> ~ Kc v -> (peek_k (tw 0 t) 1 =? v)%Z = (peek_k t 1 =? v)%Z.
  Proof.
    intros [Hi _] Hp Hv. unfold peek_k. cbn [tw inp pos Nat.add]. rewrite Hi.
    destruct (Nat.eq_dec (pos t + 1) n) as [E|Hne].
    - rewrite E, T1_n. pose proof (T2_K 0 (Nat.le_0_l _)) as HK. rewrite Nat.add_0_r in HK.
      assert (N1 : 10%Z <> v) by (intros <-; apply Hv; unfold Kc; auto).
      assert (N2 : nth n T2 0%Z <> v) by (intros <-; contradiction).
      apply Z.eqb_neq in N1, N2. congruence.
    - rewrite T1_in, T2_in by lia. reflexivity.
  Qed.

  Lemma W_emit0 t ty : W 0 t -> lsim W0k (LOk (emit t ty)) (LOk (emit (tw 0 t) ty)).
  Proof. intros HW. destruct (W_emit t ty HW) as [-> H]. apply lsim_ok. split; auto. Qed.

  Lemma W_lex_identifier G t : W 0 t -> lsim W0k (lex_identifier G t) (lex_identifier G (tw 0 t)).
  Proof.
    intros HW. unfold lex_identifier.
    eapply lsim_bind; [apply W0_accept_run; [reflexivity|assumption]|]. intros k a [-> Ha].
    rewrite (peek_eqb 0 a 58%Z Ha) by notK. rewrite (peek_eqb 0 a 46%Z Ha) by notK.
    assert (ELSE : lsim W0k
      (dol s2 <- (if (peek a =? 46)%Z then accept_run G (snd (next a)) ident_chars false else LOk a); LOk (emit s2 T_IDENTIFIER))
      (dol s2 <- (if (peek a =? 46)%Z then accept_run G (snd (next (tw 0 a))) ident_chars false else LOk (tw 0 a)); LOk (emit s2 T_IDENTIFIER))).
    { eapply lsim_bind with (Q := W0k).
      - destruct (peek a =? 46)%Z eqn:P46; [|apply lsim_ok; split; auto].
        pose proof (peek_hit 0 a 46%Z Ha ltac:(notK) P46) as Hlt.
        destruct (next_in 0 a Ha Hlt) as (N1 & N2 & N3). rewrite N1, N2. cbn [snd].
        apply W0_accept_run; [reflexivity|assumption].
      - intros k b [-> Hb]. apply W_emit0. assumption. }
    destruct (peek a =? 58)%Z eqn:P58; [|exact ELSE].
    pose proof (peek_hit 0 a 58%Z Ha ltac:(notK) P58) as Hlt.
    rewrite (peek_k1_eqb a 61%Z Ha Hlt) by notK. cbn [andb].
    destruct (negb (peek_k a 1 =? 61)%Z); [|exact ELSE].
    destruct (W_emit a T_LABEL Ha) as [-> He].
    assert (Hlt' : pos (emit a T_LABEL) < n) by exact Hlt.
    destruct (next_in 0 (emit a T_LABEL) He Hlt') as (N1 & N2 & N3). rewrite N1, N2. cbn [snd].
    rewrite tw_ignore. apply lsim_ok. split; [reflexivity|apply W_ignore; assumption].
  Qed.

  (** lex_number: at the end of [x] run 1 returns early on the newline, run 2 goes the long way
      round to the same token *)
  Lemma W_lex_number G t q : 1 <= G -> W 0 t -> pos t = S q -> lsim W0k (lex_number G t) (lex_number G (tw 0 t)).
  Proof.
    intros HG HW Hq. pose proof (W_pos 0 t HW) as Hpos. pose proof HW as [Hi _].
    unfold lex_number, backup. change (pos (tw 0 t)) with (pos t). rewrite Hq. cbn [lbind].
    change (set_pos (tw 0 t) q) with (tw 0 (set_pos t q)).
    assert (Hu : W 0 (set_pos t q)) by (apply W0; cbn; [assumption|lia]).
    assert (Hlt : pos (set_pos t q) < n) by (cbn; lia).
    destruct (next_in 0 (set_pos t q) Hu Hlt) as (N1 & N2 & N3). rewrite N1, N2.
    set (ch := peek (set_pos t q)). set (s1 := set_pos (set_pos t q) (S (pos (set_pos t q)))) in *.
    destruct (Nat.lt_ge_cases (S q) n) as [Hin|Hbd].
    - (* the next character is still in x *)
      assert (Hlt1 : pos s1 < n) by (subst s1; cbn; lia).
      destruct (peek_in 0 s1 N3 Hlt1) as [E1 E2]. rewrite E1.
      destruct ((peek s1 =? 10)%Z || (peek s1 =? 0)%Z); [apply W_emit0; assumption|].
      eapply lsim_bind with (Q := W0k); [|intros k b [-> Hb]; apply W_emit0; assumption].
      destruct (oz_is (Some ch) 48); [|apply W0_accept_run; [reflexivity|assumption]].
      destruct (next_in 0 s1 N3 Hlt1) as (M1 & M2 & M3). rewrite M1, M2.
      destruct (oz_is (Some (peek s1)) 98); [apply W0_accept_run; [reflexivity|assumption]|].
      destruct (oz_is (Some (peek s1)) 111); [apply W0_accept_run; [reflexivity|assumption]|].
      destruct (oz_is (Some (peek s1)) 120); [apply W0_accept_run; [reflexivity|assumption]|].
      unfold backup. cbn [tw set_pos pos Nat.add]. cbn [lsim].
      exists 0. split; [reflexivity|]. split; [reflexivity|]. apply W0; cbn; [assumption|lia].
    - (* the digit was the last character of x *)
      assert (Hp1 : pos s1 = n) by (subst s1; cbn; lia).
      destruct (peek_bd 0 s1 N3 Hp1) as [E1 E2]. rewrite E1. cbn [Z.eqb orb].
      assert (NK : (peek (tw 0 s1) =? 10)%Z || (peek (tw 0 s1) =? 0)%Z = false \/ peek (tw 0 s1) = 10%Z).
      { destruct E2 as [E|[E|[E|E]]]; rewrite E; auto. }
      destruct NK as [NK|NK].
      2:{ rewrite NK. cbn [Z.eqb orb]. apply W_emit0. assumption. }
      rewrite NK.
      (* run 2: nothing more is consumed *)
      assert (R : forall c, clsb c = true -> accept_run G (tw 0 s1) c false = LOk (tw 0 s1)).
      { intros c Hc. destruct G as [|G']; [lia|]. cbn [accept_run].
        destruct (W_accept 0 s1 c N3 Hc) as (E & _ & Hk). rewrite E.
        destruct (accept s1 c false) as [b y] eqn:A. cbn [fst snd] in *.
        destruct b; [destruct (Hk eq_refl); lia|]. apply accept_false in A. subst y. reflexivity. }
      assert (Kn : Kc (peek (tw 0 s1))) by exact E2.
      assert (NX : next (tw 0 s1) = (Some (peek (tw 0 s1)), set_pos (tw 0 s1) (S n))).
      { rewrite peek_nth. replace (S n) with (S (pos (tw 0 s1))) by (cbn; lia). apply next_plain.
        - cbn [tw inp pos Nat.add]. rewrite len_T2, Hp1. pose proof len_tl. lia.
        - rewrite <- peek_nth. intros E. rewrite E in NK. discriminate. }
      destruct (oz_is (Some ch) 48).
      + rewrite NX.
        assert (B1 : oz_is (Some (peek (tw 0 s1))) 98 = false) by (unfold oz_is; destruct Kn as [E|[E|[E|E]]]; rewrite E; reflexivity).
        assert (B2 : oz_is (Some (peek (tw 0 s1))) 111 = false) by (unfold oz_is; destruct Kn as [E|[E|[E|E]]]; rewrite E; reflexivity).
        assert (B3 : oz_is (Some (peek (tw 0 s1))) 120 = false) by (unfold oz_is; destruct Kn as [E|[E|[E|E]]]; rewrite E; reflexivity).
        rewrite B1, B2, B3.
        assert (EQ : set_pos (set_pos (tw 0 s1) (S n)) n = tw 0 s1).
        { unfold tw, set_pos. cbn [inp pos start loff cline lines_rev toks_rev fname Nat.add]. rewrite Hp1. reflexivity. }
        unfold backup. change (pos (set_pos (tw 0 s1) (S n))) with (S n). cbn [lbind]. rewrite EQ.
        apply W_emit0. assumption.
      + rewrite (R digits eq_refl). cbn [lbind]. apply W_emit0. assumption.
  Qed.

  (** quoted strings: an OK string of run 1 closes inside [x] *)
  Lemma next_bd t : W 0 t -> pos t = n -> fst (next t) = Some 10%Z.
  Proof.
    intros [Hi _] Hp. unfold next. rewrite Hi, Hp.
    assert (E : nth_error T1 n = Some 10%Z) by (unfold T1; rewrite nth_error_app2, Nat.sub_diag by lia; reflexivity).
    rewrite E. reflexivity.
  Qed.

  Lemma quoted_nl (Q : nat -> sc -> Prop) G p u r' : lsim Q (quoted_loop G p (Some 10%Z) u) r'.
  Proof. destruct G; cbn; exact I. Qed.

  Lemma W_quoted_step G p t (IH : forall c u, W 0 u -> lsim W0k (quoted_loop G p c u) (quoted_loop G p c (tw 0 u))) :
    W 0 t ->
    lsim W0k (let '(c', s2) := next t in quoted_loop G p c' s2) (let '(c', s2) := next (tw 0 t) in quoted_loop G p c' s2).
  Proof.
    intros HW. destruct (Nat.lt_ge_cases (pos t) n) as [Hlt|Hge].
    - destruct (next_in 0 t HW Hlt) as (N1 & N2 & N3). rewrite N1, N2. apply IH. assumption.
    - assert (Hp : pos t = n) by (pose proof (W_pos 0 t HW); lia).
      pose proof (next_bd t HW Hp) as E. destruct (next t) as [c' s2]. cbn [fst] in E. subst c'. apply quoted_nl.
  Qed.

  Lemma W_quoted_loop p : forall G c t, W 0 t -> lsim W0k (quoted_loop G p c t) (quoted_loop G p c (tw 0 t)).
  Proof.
    induction G as [|G IH]; intros c t HW; cbn [quoted_loop]; [exact I|].
    destruct (oz_is c 39); [apply W_emit0; assumption|].
    destruct (oz_is c 10 || match c with None => true | Some _ => false end); [exact I|].
    rewrite (peek_eqb 0 t 39%Z HW) by notK.
    destruct (oz_is c 92 && (peek t =? 39)%Z) eqn:B.
    - apply andb_true_iff in B as [_ B]. pose proof (peek_hit 0 t 39%Z HW ltac:(notK) B) as Hlt.
      destruct (next_in 0 t HW Hlt) as (N1 & N2 & N3). rewrite N1, N2. cbn [snd].
      apply W_quoted_step; assumption.
    - apply W_quoted_step; assumption.
  Qed.

  Lemma W_lex_quoted_string G t : W 0 t -> lsim W0k (lex_quoted_string G t) (lex_quoted_string G (tw 0 t)).
  Proof.
    intros HW. unfold lex_quoted_string. change (get_position (tw 0 t)) with (get_position t).
    apply W_quoted_step; [intros; apply W_quoted_loop; assumption|assumption].
  Qed.

  (** block comments: an OK comment of run 1 closes inside [x] *)
  Lemma block_not_ok (Q : nat -> sc -> Prop) p : forall G t r', inp t = T1 -> n <= pos t ->
    lsim Q (block_comment_loop G p t) r'.
  Proof.
    induction G as [|G IH]; intros t r' Hi Hp; cbn [block_comment_loop]; [exact I|].
    assert (Hpk : peek t = 10%Z \/ peek t = 0%Z).
    { destruct (Nat.eq_dec (pos t) n) as [E|Hne].
      - left. rewrite peek_nth, Hi, E. apply T1_n.
      - right. apply peek_eof. rewrite Hi, len_T1. lia. }
    rewrite (accept_prefix_no t 42%Z [47%Z] (peek t) eq_refl) by (destruct Hpk as [-> | ->]; discriminate).
    pose proof (next_fields t) as (Ei & _ & _ & _ & P1 & _).
    destruct (next t) as [[c|] u] eqn:N; cbn [snd] in *; [|exact I].
    apply IH; [congruence|lia].
  Qed.

  Lemma W_block_comment_loop p : forall G t, W 0 t ->
    lsim W0k (block_comment_loop G p t) (block_comment_loop G p (tw 0 t)).
  Proof.
    induction G as [|G IH]; intros t HW; cbn [block_comment_loop]; [exact I|].
    destruct (W_accept_prefix 0 t [42%Z; 47%Z]) as (E & HW' & _);
      [intros ch [<- | [<- | []]]; notK|discriminate|assumption|].
    rewrite E. destruct (accept_prefix t [42%Z; 47%Z]) as [b y] eqn:A. cbn [fst snd] in *.
    destruct b; [apply lsim_ok; split; auto|].
    apply accept_prefix_false in A. subst y.
    destruct (Nat.lt_ge_cases (pos t) n) as [Hlt|Hge].
    - destruct (next_in 0 t HW Hlt) as (N1 & N2 & N3). rewrite N1, N2. apply IH. assumption.
    - pose proof (next_fields t) as (Ei & _ & _ & _ & P1 & _). destruct HW as [Hi _].
      destruct (next t) as [[c|] u] eqn:N; cbn [snd] in *; [|exact I].
      apply block_not_ok; [congruence|lia].
  Qed.

  Lemma W_lex_keyword G lx t : W 0 t -> lsim W0k (lex_keyword G lx t) (lex_keyword G lx (tw 0 t)).
  Proof.
    intros HW. unfold lex_keyword. cbv zeta. rewrite tw_ignore.
    eapply lsim_bind; [apply W0_accept_run; [reflexivity|apply W_ignore; assumption]|]. intros k a [-> Ha].
    rewrite (W_ctt a Ha). destruct (mem_str _ _); [apply W_emit0; assumption|exact I].
  Qed.

  (* ---------------------------------------------------------------------------------------- *)
  (** ** the operand lexers: run 2 may get ahead over spaces *)

  Lemma len_lt_T1 k t : W k t -> (pos t <? length (inp t)) = true.
  Proof. intros HW. pose proof (W_pos k t HW). destruct HW as [-> _]. apply Nat.ltb_lt. rewrite len_T1. lia. Qed.
  Lemma len_lt_T2 k t : W k t -> (pos (tw k t) <? length (inp (tw k t))) = true.
  Proof.
    intros HW. pose proof (W_pos k t HW). pose proof (W_k k t HW). apply Nat.ltb_lt.
    cbn [tw pos inp]. rewrite len_T2. pose proof len_tl. lia.
  Qed.

  Lemma W_or_prefix k (r : bool * sc) p : (forall ch, In ch p -> ~ Kc ch) -> p <> [] ->
    W k (snd r) -> (fst r = true -> k = 0) ->
    accept_or (fst r, tw k (snd r)) (fun s => accept_prefix s p) =
      (fst (accept_or r (fun s => accept_prefix s p)), tw k (snd (accept_or r (fun s => accept_prefix s p)))) /\
    W k (snd (accept_or r (fun s => accept_prefix s p))) /\
    (fst (accept_or r (fun s => accept_prefix s p)) = true -> k = 0).
  Proof.
    intros Hp Hne HW Hk. unfold accept_or. destruct r as [b y]. cbn [fst snd] in *.
    destruct b; [auto|]. apply W_accept_prefix; assumption.
  Qed.

  Lemma accept_or_false3 a (f g : sc -> bool * sc) c :
    (forall s y, f s = (false, y) -> y = s) -> (forall s y, g s = (false, y) -> y = s) ->
    fst (accept_or (accept_or (accept a c false) f) g) = false ->
    snd (accept_or (accept_or (accept a c false) f) g) = a.
  Proof.
    intros Hf Hg. unfold accept_or.
    destruct (accept a c false) as [b1 t1] eqn:B1. cbn [fst snd].
    destruct b1; cbn [fst snd]; [discriminate|]. apply accept_false in B1. subst t1.
    destruct (f a) as [b2 t2] eqn:B2. cbn [fst snd]. destruct b2; cbn [fst snd]; [discriminate|].
    apply Hf in B2. subst t2.
    destruct (g a) as [b3 t3] eqn:B3. cbn [fst snd]. destruct b3; [discriminate|]. intros _. apply Hg in B3. exact B3.
  Qed.

  Lemma W_lex_expression_loop : forall fuel k t, W k t ->
    lsim W (lex_expression_loop fuel F t) (lex_expression_loop fuel F (tw k t)).
  Proof.
    assert (HF1 : 1 <= F) by (pose proof len_T2; pose proof len_tl; lia).
    induction fuel as [|fuel IH]; intros k t HW; cbn [lex_expression_loop]; [exact I|].
    rewrite (len_lt_T1 k t HW), (len_lt_T2 k t HW).
    eapply lsim_bind; [apply W_ignore_run_sp; assumption|]. clear k t HW. intros k a Ha.
    destruct (W_accept k a digits Ha eq_refl) as (E1 & H1 & K1). rewrite E1.
    destruct (accept a digits false) as [b y] eqn:A1. cbn [fst snd] in *. destruct b.
    { destruct (K1 eq_refl) as [-> Hlt].
      pose proof (accept_true _ _ _ _ A1 eq_refl eq_refl) as (_ & Hp1 & _).
      eapply lsim_bind; [eapply W_lex_number; eauto|]. intros k' z [-> Hz]. apply IH, Hz. }
    apply accept_false in A1. subst y. clear E1 H1 K1.
    destruct (W_accept k a ident_start Ha eq_refl) as (E1 & H1 & K1). rewrite E1.
    destruct (accept a ident_start false) as [b y] eqn:A2. cbn [fst snd] in *. destruct b.
    { destruct (K1 eq_refl) as [-> Hlt].
      eapply lsim_bind; [apply W_lex_identifier; assumption|]. intros k' z [-> Hz]. apply IH, Hz. }
    apply accept_false in A2. subst y. clear E1 H1 K1.
    destruct (W_accept k a expr_ops Ha eq_refl) as (E1 & H1 & K1). rewrite E1.
    destruct (W_or_prefix k (accept a expr_ops false) [60%Z;60%Z]) as (E3 & H3 & K3);
      [intros ch [<- | [<- | []]]; notK|discriminate|assumption|intros Hb; apply K1, Hb|].
    rewrite E3.
    destruct (W_or_prefix k (accept_or (accept a expr_ops false) (fun s => accept_prefix s [60%Z;60%Z])) [62%Z;62%Z])
      as (E4 & H4 & K4); [intros ch [<- | [<- | []]]; notK|discriminate|assumption|assumption|].
    rewrite E4.
    pose proof (accept_or_false3 a (fun s => accept_prefix s [60%Z;60%Z]) (fun s => accept_prefix s [62%Z;62%Z]) expr_ops
                  (fun s y => accept_prefix_false s _ y) (fun s y => accept_prefix_false s _ y)) as Hr.
    destruct (accept_or (accept_or (accept a expr_ops false) (fun s => accept_prefix s [60%Z;60%Z]))
                        (fun s => accept_prefix s [62%Z;62%Z])) as [b3 x3]. cbn [fst snd] in *. destruct b3.
    { rewrite (K4 eq_refl) in *. destruct (W_emit x3 T_OPERATOR H4) as [-> He]. apply IH, He. }
    specialize (Hr eq_refl). subst x3. clear E1 H1 K1 E3 H3 K3 E4 H4 K4.
    destruct (W_accept k a [40%Z] Ha eq_refl) as (E1 & H1 & K1). rewrite E1.
    destruct (accept a [40%Z] false) as [b y] eqn:A4. cbn [fst snd] in *. destruct b.
    { destruct (K1 eq_refl) as [-> Hlt]. destruct (W_emit y T_LPAREN H1) as [-> He]. apply IH, He. }
    apply accept_false in A4. subst y. clear E1 H1 K1.
    destruct (W_accept k a [41%Z] Ha eq_refl) as (E1 & H1 & K1). rewrite E1.
    destruct (accept a [41%Z] false) as [b y] eqn:A5. cbn [fst snd] in *. destruct b.
    { destruct (K1 eq_refl) as [-> Hlt]. destruct (W_emit y T_RPAREN H1) as [-> He]. apply IH, He. }
    apply lsim_ok. assumption.
  Qed.

  Lemma W_lex_expression k t : W k t -> lsim W (lex_expression F t) (lex_expression F (tw k t)).
  Proof. apply W_lex_expression_loop. Qed.

  Lemma W_lex_opcode_index k t : W k t -> lsim W0k (lex_opcode_index F t) (lex_opcode_index F (tw k t)).
  Proof.
    intros HW. unfold lex_opcode_index. cbv zeta. rewrite tw_ignore.
    eapply lsim_bind; [apply W_ignore_run_sp, W_ignore; assumption|]. intros k1 a Ha.
    destruct (W_accept k1 a index_chars Ha eq_refl) as (E1 & H1 & K1). rewrite E1.
    destruct (accept a index_chars false) as [b y]. cbn [fst snd] in *.
    destruct b; [|exact I]. destruct (K1 eq_refl) as [-> _]. apply W_emit0. assumption.
  Qed.

  Lemma W_bracket k t v ty : W k t -> ~ Kc v -> (peek t =? v)%Z = true ->
    emit (snd (next (tw k t))) ty = tw 0 (emit (snd (next t)) ty) /\ W 0 (emit (snd (next t)) ty).
  Proof.
    intros HW Hv E. pose proof (peek_hit k t v HW Hv E) as Hlt. pose proof (W_in k t HW Hlt) as ->.
    destruct (next_in 0 t HW Hlt) as (N1 & N2 & N3). rewrite N1, N2. cbn [snd]. apply W_emit. assumption.
  Qed.

  Lemma W_lex_operand k t : W k t -> lsim W (lex_operand F t) (lex_operand F (tw k t)).
  Proof.
    intros HW. unfold lex_operand. cbv zeta.
    rewrite (peek_eqb k t 35%Z HW), (peek_eqb k t 40%Z HW), (peek_eqb k t 91%Z HW) by notK.
    assert (G1 : exists k1 y, W k1 y /\
       (if (peek t =? 35)%Z then emit (snd (next t)) T_SHARP
        else if (peek t =? 40)%Z then emit (snd (next t)) T_LPAREN
        else if (peek t =? 91)%Z then emit (snd (next t)) T_LBRAKET else t) = y /\
       (if (peek t =? 35)%Z then emit (snd (next (tw k t))) T_SHARP
        else if (peek t =? 40)%Z then emit (snd (next (tw k t))) T_LPAREN
        else if (peek t =? 91)%Z then emit (snd (next (tw k t))) T_LBRAKET else tw k t) = tw k1 y).
    { destruct (peek t =? 35)%Z eqn:P1.
      { destruct (W_bracket k t 35%Z T_SHARP HW ltac:(notK) P1) as [E H]. eauto. }
      destruct (peek t =? 40)%Z eqn:P2.
      { destruct (W_bracket k t 40%Z T_LPAREN HW ltac:(notK) P2) as [E H]. eauto. }
      destruct (peek t =? 91)%Z eqn:P3.
      { destruct (W_bracket k t 91%Z T_LBRAKET HW ltac:(notK) P3) as [E H]. eauto. }
      eauto. }
    destruct G1 as (k1 & y1 & H1 & -> & ->).
    eapply lsim_bind; [apply W_ignore_run_sp; assumption|]. intros k2 y2 H2.
    eapply lsim_bind; [apply W_lex_expression; assumption|]. intros k3 y3 H3.
    eapply lsim_bind; [apply W_ignore_run_sp; assumption|]. intros k4 y4 H4.
    destruct (W_accept k4 y4 [44%Z] H4 eq_refl) as (E5 & H5 & _). rewrite E5.
    destruct (accept y4 [44%Z] false) as [b y5]. cbn [fst snd] in *.
    eapply lsim_bind with (Q := W).
    { destruct b; [eapply lsim_weaken; [apply W_lex_opcode_index; assumption|apply W0k_W]|apply lsim_ok; assumption]. }
    intros k6 y6 H6.
    rewrite (peek_eqb k6 y6 41%Z H6), (peek_eqb k6 y6 93%Z H6) by notK.
    assert (G7 : exists k7 y, W k7 y /\
       (if (peek y6 =? 41)%Z then emit (snd (next y6)) T_RPAREN
        else if (peek y6 =? 93)%Z then emit (snd (next y6)) T_RBRAKET else y6) = y /\
       (if (peek y6 =? 41)%Z then emit (snd (next (tw k6 y6))) T_RPAREN
        else if (peek y6 =? 93)%Z then emit (snd (next (tw k6 y6))) T_RBRAKET else tw k6 y6) = tw k7 y).
    { destruct (peek y6 =? 41)%Z eqn:P1.
      { destruct (W_bracket k6 y6 41%Z T_RPAREN H6 ltac:(notK) P1) as [E H]. eauto. }
      destruct (peek y6 =? 93)%Z eqn:P2.
      { destruct (W_bracket k6 y6 93%Z T_RBRAKET H6 ltac:(notK) P2) as [E H]. eauto. }
      eauto. }
    destruct G7 as (k7 & y7 & H7 & -> & ->).
    eapply lsim_bind; [apply W_ignore_run_sp; assumption|]. intros k8 y8 H8.
    destruct (W_accept k8 y8 [44%Z] H8 eq_refl) as (E9 & H9 & _). rewrite E9.
    destruct (accept y8 [44%Z] false) as [b' y9]. cbn [fst snd] in *.
    destruct b'; [eapply lsim_weaken; [apply W_lex_opcode_index; assumption|apply W0k_W]|apply lsim_ok; assumption].
  Qed.

  Lemma W_lex_opcode_size k t : W k t -> lsim W (lex_opcode_size F t) (lex_opcode_size F (tw k t)).
  Proof.
    intros HW. unfold lex_opcode_size. cbv zeta. rewrite tw_ignore.
    destruct (W_accept k (ignore t) size_chars (W_ignore k t HW) eq_refl) as (E1 & H1 & K1). rewrite E1.
    destruct (accept (ignore t) size_chars false) as [b y]. cbn [fst snd] in *.
    destruct b; [|exact I]. destruct (K1 eq_refl) as [-> _].
    destruct (W_emit y T_OPCODE_SIZE H1) as [-> He].
    eapply lsim_bind; [apply W_ignore_run_sp; assumption|]. intros k2 y2 H2.
    apply W_lex_operand. assumption.
  Qed.

  Lemma W_lex_opcode_tail k t : W k t -> lsim W (lex_opcode_tail F t) (lex_opcode_tail F (tw k t)).
  Proof.
    intros HW. unfold lex_opcode_tail.
    destruct (W_accept k t [46%Z] HW eq_refl) as (E1 & H1 & K1). rewrite E1.
    destruct (accept t [46%Z] false) as [b y]. cbn [fst snd] in *.
    eapply lsim_bind with (Q := W).
    { destruct b; [apply W_lex_opcode_size; assumption|apply lsim_ok; assumption]. }
    intros k2 y2 H2. eapply lsim_bind; [apply W_ignore_run_sp; assumption|]. intros k3 y3 H3.
    apply W_lex_operand. assumption.
  Qed.

  (* ---------------------------------------------------------------------------------------- *)
  (** ** mnemonics *)
  Variable lx : lexicon.
  Hypothesis Hlx : lexicon_tok lx = true.
  (** ";" directly after the body ([w] empty) must not follow a bare mnemonic: accept_opcode wants a
      blank, a newline or "." after the three letters ("nop;c" is the IDENTIFIER nop) *)
  Hypothesis Hsemi : w <> [] \/ tl = [10%Z] \/
                     mem_str (map lower (slice x (n - 3) n)) (lx_mnemonics lx) = false.

  Lemma NLK cand v : Kc v -> In v cand -> mem_str cand (lx_mnemonics lx) = false.
  Proof.
    intros Hv Hin. destruct (mem_str cand (lx_mnemonics lx)) eqn:M; [|reflexivity]. exfalso.
    unfold mem_str in M. apply existsb_exists in M as (m & Hm & E). apply str_eqb_true in E. subst m.
    unfold lexicon_tok in Hlx. rewrite forallb_forall in Hlx. specialize (Hlx cand Hm).
    pose proof (cls_K cand v Hlx Hv) as Hf. apply mem_z_In in Hin. congruence.
  Qed.

  Lemma lower_K v : Kc v -> lower v = v.
  Proof. intros [-> | [-> | [-> | ->]]]; reflexivity. Qed.

  Lemma T2_n_cases : nth n T2 0%Z = 32%Z \/ nth n T2 0%Z = 9%Z \/ nth n T2 0%Z = 10%Z \/
                     (nth n T2 0%Z = 59%Z /\ w = [] /\ tl <> [10%Z]).
  Proof.
    destruct (Nat.eq_dec (length w) 0) as [E0|Hne].
    - pose proof (T2_tl 0) as E. rewrite E0, !Nat.add_0_r in E. rewrite E. apply length_zero_iff_nil in E0.
      destruct Htl as [-> | (c & -> & _)]; cbn; [auto|]. right; right; right. repeat split; [assumption|discriminate].
    - pose proof (T2_w 0 ltac:(lia)) as E. rewrite Nat.add_0_r in E. rewrite E.
      destruct (w_char 0) as [H|H]; [lia| |]; rewrite H; auto.
  Qed.

  Lemma W_accept_opcode t : W 0 t -> start t = pos t -> pos t < n ->
    accept_opcode lx (tw 0 t) = (fst (accept_opcode lx t), tw 0 (snd (accept_opcode lx t))) /\
    W 0 (snd (accept_opcode lx t)).
  Proof.
    intros [Hi _] Hst Hp. unfold accept_opcode, peek_k. cbn [tw inp start pos Nat.add]. rewrite Hi, Hst.
    destruct (Nat.lt_ge_cases (pos t + 3) n) as [Hlt|Hge].
    - rewrite slice_T1, slice_T2 by lia. rewrite T1_in, T2_in by lia.
      destruct (_ && _); cbn [fst snd]; (split; [reflexivity|apply W0; cbn; auto; lia]).
    - destruct (Nat.eq_dec (pos t + 3) n) as [En|Hne].
      + rewrite slice_T1, slice_T2 by lia. rewrite En, T1_n.
        destruct (mem_str (map lower (slice x (pos t) n)) (lx_mnemonics lx)) eqn:M; cbn [andb].
        * assert (E2 : mem_z (nth n T2 0%Z) [32; 10; 9; 46; 0]%Z = true).
          { destruct T2_n_cases as [E|[E|[E|(E & Ew & Et)]]]; try (rewrite E; reflexivity). exfalso.
            destruct Hsemi as [H|[H|H]]; [contradiction|contradiction|].
            replace (n - 3) with (pos t) in H by lia. congruence. }
          rewrite E2. cbn [mem_z existsb Z.eqb orb fst snd]. split; [reflexivity|apply W0; cbn; auto; lia].
        * cbn [fst snd]. split; [reflexivity|apply W0; auto; lia].
      + assert (J : n - pos t < 3) by lia.
        rewrite (NLK (map lower (slice T1 (pos t) (pos t + 3))) 10%Z); [|unfold Kc; auto|].
        2:{ change 10%Z with (lower 10). apply in_map. rewrite <- T1_n.
            replace n with (pos t + (n - pos t)) at 1 by lia.
            rewrite <- (nth_slice T1 (pos t) (pos t + 3)) by lia. apply nth_In.
            unfold slice. rewrite firstn_length, skipn_length, len_T1. lia. }
        rewrite (NLK (map lower (slice T2 (pos t) (pos t + 3))) (nth n T2 0%Z)).
        2:{ pose proof (T2_K 0 (Nat.le_0_l _)) as HK. rewrite Nat.add_0_r in HK. exact HK. }
        2:{ pose proof (T2_K 0 (Nat.le_0_l _)) as HK. rewrite Nat.add_0_r in HK.
            rewrite <- (lower_K _ HK) at 1. apply in_map.
            replace n with (pos t + (n - pos t)) at 1 by lia.
            rewrite <- (nth_slice T2 (pos t) (pos t + 3)) by lia. apply nth_In.
            unfold slice. rewrite firstn_length, skipn_length, len_T2. pose proof len_tl. lia. }
        cbn [andb fst snd]. split; [reflexivity|apply W0; auto; lia].
  Qed.

  Lemma lex_opcode_look t :
    lex_opcode F lx t =
    if mem_str (map lower (slice (inp t) (start t) (pos t))) (lx_naked lx) && negb (peek t =? 46)%Z then
      dol s3 <- look F t;
      if at_eol s3 then LOk (emit (set_pos s3 (pos t)) T_OPCODE_NAKED)
      else lex_opcode_tail F (emit (set_pos s3 (pos t)) T_OPCODE)
    else lex_opcode_tail F (emit t T_OPCODE).
  Proof.
    unfold lex_opcode, look, at_eol. destruct (_ && _); [|reflexivity].
    destruct (accept_run F t [32; 9]%Z false) as [s1| | |]; cbn [lbind]; try reflexivity.
    destruct (accept s1 [59%Z] false) as [b s2]. destruct b; reflexivity.
  Qed.

  Lemma look_W t s3 : W 0 t -> look F t = LOk s3 ->
    exists s3', look F (tw 0 t) = LOk s3' /\ at_eol s3' = at_eol s3.
  Proof.
    intros HW L. pose proof (W_pos 0 t HW) as Hpos. pose proof HW as [Hi _].
    pose proof len_T2 as L2. pose proof len_tl as Ltl.
    destruct (exists_stop [32; 9]%Z T1 (n - pos t) (pos t)) as (q1 & Hq1 & Hin1 & Hout1).
    { replace (pos t + (n - pos t)) with n by lia. rewrite T1_n. reflexivity. }
    destruct (look_test F t q1) as (r1 & R1 & Tt1); rewrite ?Hi, ?len_T1; auto; try lia.
    rewrite R1 in L. injection L as <-.
    destruct (Nat.lt_ge_cases q1 n) as [Hlt|Hge].
    - destruct (look_test F (tw 0 t) q1) as (r2 & R2 & Tt2); cbn [tw inp pos Nat.add]; rewrite ?L2; auto; try lia.
      + intros i Hi'. rewrite T2_in by lia. rewrite <- T1_in by lia. apply Hin1. lia.
      + rewrite T2_in by lia. rewrite <- T1_in by lia. exact Hout1.
      + exists r2. split; [assumption|]. rewrite Tt1, Tt2, Hi. cbn [tw inp]. rewrite T1_in, T2_in by lia. reflexivity.
    - assert (q1 = n) as -> by lia.
      destruct (look_test F (tw 0 t) (n + length w)) as (r2 & R2 & Tt2); cbn [tw inp pos Nat.add]; rewrite ?L2; auto; try lia.
      + intros i Hi'. destruct (Nat.lt_ge_cases i n) as [Hin|Hout].
        * rewrite T2_in by lia. rewrite <- T1_in by lia. apply Hin1. lia.
        * replace i with (n + (i - n)) by lia. rewrite T2_w by lia.
          destruct (w_char (i - n)) as [-> | ->]; [lia| |]; reflexivity.
      + rewrite <- (Nat.add_0_r (n + length w)), T2_tl. destruct tl_head as [-> | ->]; reflexivity.
      + exists r2. split; [assumption|]. rewrite Tt1, Tt2, Hi. cbn [tw inp]. rewrite T1_n.
        rewrite <- (Nat.add_0_r (n + length w)), T2_tl. destruct tl_head as [-> | ->]; reflexivity.
  Qed.

  Lemma W_lex_opcode t : W 0 t -> lsim W (lex_opcode F lx t) (lex_opcode F lx (tw 0 t)).
  Proof.
    intros HW. rewrite !lex_opcode_look.
    assert (EC : slice (inp (tw 0 t)) (start (tw 0 t)) (pos (tw 0 t)) = slice (inp t) (start t) (pos t))
      by (apply (W_ctt t HW)).
    rewrite EC. rewrite (peek_eqb 0 t 46%Z HW) by notK.
    assert (TAIL : lsim W (lex_opcode_tail F (emit t T_OPCODE)) (lex_opcode_tail F (emit (tw 0 t) T_OPCODE))).
    { destruct (W_emit t T_OPCODE HW) as [-> He]. apply W_lex_opcode_tail. assumption. }
    destruct (_ && _); [|exact TAIL].
    destruct (look F t) as [s3| | |] eqn:L; cbn [lbind]; try exact I.
    destruct (look_W t s3 HW L) as (s3' & L' & Et). rewrite L'. cbn [lbind]. rewrite Et.
    pose proof (look_setpos _ _ _ L) as E1. pose proof (look_setpos _ _ _ L') as E2.
    change (pos (tw 0 t)) with (pos t).
    assert (S1 : set_pos s3 (pos t) = t) by (transitivity (set_pos t (pos t)); [rewrite E1; reflexivity|apply set_pos_same]).
    assert (S2 : set_pos s3' (pos t) = tw 0 t)
      by (transitivity (set_pos (tw 0 t) (pos (tw 0 t))); [rewrite E2; reflexivity|apply set_pos_same]).
    rewrite S1, S2. destruct (at_eol s3); [|exact TAIL].
    eapply lsim_weaken; [apply W_emit0; assumption|apply W0k_W].
  Qed.

  (* ---------------------------------------------------------------------------------------- *)
  (** ** lex_initial: lock step, or the last call of run 1 (which consumes the final newline) *)

  (** both runs have consumed their whole text; the tokens differ at most by COMMENT tokens *)
  Definition Fin (a a2 : sc) : Prop :=
    inp a = T1 /\ pos a = S n /\ start a = pos a /\
    inp a2 = T2 /\ pos a2 = length T2 /\ start a2 = pos a2 /\
    sig (rev (toks_rev a2)) = sig (rev (toks_rev a)).

  Definition lsimF (r r' : lres sc) : Prop :=
    match r with
    | LOk a => (exists k, r' = LOk (tw k a) /\ W k a) \/ (exists a2, r' = LOk a2 /\ Fin a a2)
    | _ => True
    end.

  Lemma lsim_F (Q : nat -> sc -> Prop) r r' : lsim Q r r' -> (forall k a, Q k a -> W k a) -> lsimF r r'.
  Proof. destruct r; cbn; auto. intros (k & ? & ?) HQ. left. eauto. Qed.

  Lemma tl_nl_len : nth 0 tl 0%Z = 10%Z -> length tl = 1.
  Proof. destruct Htl as [-> | (c & -> & _)]; cbn; [reflexivity|discriminate]. Qed.

  Lemma tl_semi_len : nth 0 tl 0%Z = 59%Z -> 2 <= length tl.
  Proof. destruct Htl as [-> | (c & -> & _)]; cbn; [discriminate|]. rewrite app_length. cbn. lia. Qed.

  Lemma T2_last : nth (length T2 - 1) T2 0%Z = 10%Z.
  Proof.
    rewrite len_T2. pose proof len_tl.
    replace (n + length w + length tl - 1) with (n + length w + (length tl - 1)) by lia. rewrite T2_tl.
    destruct Htl as [-> | (c & -> & _)]; [reflexivity|].
    cbn [length]. rewrite app_length. cbn [length]. replace (S (length c + 1) - 1) with (S (length c)) by lia.
    cbn [nth]. apply nth_middle.
  Qed.

  Lemma T2_nonl i : i < length T2 - 1 -> nth i T2 0%Z <> 10%Z.
  Proof.
    rewrite len_T2. intros Hi. destruct (Nat.lt_ge_cases i n) as [H1|H1].
    - rewrite T2_in by assumption. apply x_nonl. assumption.
    - destruct (Nat.lt_ge_cases i (n + length w)) as [H2|H2].
      + replace i with (n + (i - n)) by lia. rewrite T2_w by lia.
        destruct (w_char (i - n)) as [-> | ->]; [lia| |]; discriminate.
      + replace i with (n + length w + (i - n - length w)) by lia. rewrite T2_tl.
        destruct Htl as [-> | (c & -> & Hc)]; [cbn [length] in Hi; lia|].
        cbn [length] in Hi. rewrite app_length in Hi. cbn [length] in Hi.
        destruct (i - n - length w) as [|j] eqn:Ej; [discriminate|]. cbn [nth].
        rewrite app_nth1 by lia. intros E. apply Hc. rewrite <- E. apply nth_In. lia.
  Qed.

  Lemma sig_rev_comment tc l : t_type tc = T_COMMENT -> sig (rev (tc :: l)) = sig (rev l).
  Proof. intros H. cbn [rev]. rewrite sig_app, (sig_single_comment tc H). apply app_nil_r. Qed.

  (** the ";" comment that ends the line: run 1 stops after the newline, run 2 after its own *)
  Lemma W_final_comment y : W 0 y ->
    lsimF (dol s2 <- line_comment_loop F y; LOk (emit s2 T_COMMENT))
          (dol s2 <- line_comment_loop F (tw 0 y); LOk (emit s2 T_COMMENT)).
  Proof.
    intros HW. pose proof (W_pos 0 y HW) as Hp. pose proof HW as [Hi _].
    pose proof len_T2 as L2. pose proof len_tl as Ltl.
    destruct (line_comment_loop_span F y n) as (a & Ea & Pa & Sa); rewrite ?Hi, ?len_T1; try lia.
    { intros i Hi'. rewrite T1_in by lia. apply x_nonl. lia. }
    { apply T1_n. }
    destruct (line_comment_loop_span F (tw 0 y) (length T2 - 1)) as (a2 & Ea2 & Pa2 & Sa2);
      cbn [tw inp pos Nat.add]; try lia.
    { intros i Hi'. apply T2_nonl. lia. }
    { apply T2_last. }
    rewrite Ea, Ea2. cbn [lbind lsimF]. right. exists (emit a2 T_COMMENT). split; [reflexivity|].
    destruct Sa as (Sa1 & Sa2' & _). destruct Sa2 as (Sb1 & Sb2 & _). cbn [tw inp toks_rev] in Sb1, Sb2.
    unfold Fin. cbn [emit inp pos start toks_rev].
    repeat split; try congruence; try lia.
    rewrite !sig_rev_comment by reflexivity. congruence.
  Qed.

  Ltac prefK := let ch := fresh "ch" in let H := fresh "H" in
    intros ch H; cbn [In] in H; repeat (destruct H as [<- | H]; [notK|]); contradiction.

  Ltac chainW HW Hlt A y HX :=
    match goal with
    | |- lsimF (let '(b, s1) := accept ?s ?c false in _) _ =>
        let E := fresh "E" in
        destruct (W_accept_in 0 s c false HW Hlt) as [E HX]; rewrite E; clear E;
        destruct (accept s c false) as [[|] y] eqn:A; cbn [fst snd] in HX |- *;
        [ | apply accept_false in A; subst y; clear HX ]
    | |- lsimF (let '(b, s1) := accept_prefix ?s ?c in _) _ =>
        let E := fresh "E" in
        destruct (W_accept_prefix 0 s c ltac:(prefK) ltac:(discriminate) HW) as (E & HX & _); rewrite E; clear E;
        destruct (accept_prefix s c) as [[|] y] eqn:A; cbn [fst snd] in HX |- *;
        [ | apply accept_prefix_false in A; subst y; clear HX ]
    end.
  Ltac okF HX := apply lsim_F with (Q := W0k); [apply W_emit0; exact HX|apply W0k_W].

  Lemma W_two t c ty1 ty2 : W 0 t -> clsb c = true ->
    lsimF (let '(b, s2) := accept t c false in if b then LOk (emit s2 ty1) else LOk (emit s2 ty2))
          (let '(b, s2) := accept (tw 0 t) c false in if b then LOk (emit s2 ty1) else LOk (emit s2 ty2)).
  Proof.
    intros HW Hc. destruct (W_accept 0 t c HW Hc) as (E & HY & _). rewrite E.
    destruct (accept t c false) as [[|] z]; cbn [fst snd] in *; okF HY.
  Qed.

  Lemma W_lex_initial_rest t : W 0 t -> pos t < n -> start t = pos t ->
    lsimF (lex_initial_rest lx F t) (lex_initial_rest lx F (tw 0 t)).
  Proof.
    assert (HF1 : 1 <= F) by (pose proof len_T2; pose proof len_tl; lia).
    intros HW Hlt Hst. unfold lex_initial_rest.
    chainW HW Hlt A y HX; [apply W_final_comment; exact HX|].
    chainW HW Hlt A y HX.
    { pose proof (accept_true _ _ _ _ A eq_refl eq_refl) as (_ & Hp1 & _).
      eapply lsim_F; [eapply W_lex_number; eauto|apply W0k_W]. }
    chainW HW Hlt A y HX; [okF HX|].
    chainW HW Hlt A y HX; [okF HX|].
    chainW HW Hlt A y HX; [okF HX|].
    chainW HW Hlt A y HX; [okF HX|].
    chainW HW Hlt A y HX; [okF HX|].
    (* the comparison operators *)
    destruct (W_accept_prefix 0 t [62%Z] ltac:(prefK) ltac:(discriminate) HW) as (E0 & H0 & K0). rewrite E0. clear E0.
    destruct (W_or_prefix 0 (accept_prefix t [62%Z]) [60%Z]) as (E1 & H1 & K1); [prefK|discriminate|assumption|auto|].
    rewrite E1. clear E1.
    destruct (W_or_prefix 0 (accept_or (accept_prefix t [62%Z]) (fun s => accept_prefix s [60%Z])) [62%Z;61%Z])
      as (E2 & H2 & K2); [prefK|discriminate|assumption|auto|].
    rewrite E2. clear E2.
    destruct (W_or_prefix 0 (accept_or (accept_or (accept_prefix t [62%Z]) (fun s => accept_prefix s [60%Z]))
                                       (fun s => accept_prefix s [62%Z;61%Z])) [60%Z;61%Z])
      as (E3 & H3 & K3); [prefK|discriminate|assumption|auto|].
    rewrite E3. clear E3.
    set (r := accept_or (accept_or (accept_or (accept_prefix t [62%Z]) (fun s => accept_prefix s [60%Z]))
                                   (fun s => accept_prefix s [62%Z;61%Z])) (fun s => accept_prefix s [60%Z;61%Z])) in *.
    assert (Hr : fst r = false -> snd r = t).
    { subst r. unfold accept_or.
      destruct (accept_prefix t [62%Z]) as [b1 t1] eqn:B1. cbn [fst snd].
      destruct b1; cbn [fst snd]; [discriminate|]. apply accept_prefix_false in B1; subst t1.
      destruct (accept_prefix t [60%Z]) as [b1 t1] eqn:B1. cbn [fst snd].
      destruct b1; cbn [fst snd]; [discriminate|]. apply accept_prefix_false in B1; subst t1.
      destruct (accept_prefix t [62%Z;61%Z]) as [b1 t1] eqn:B1. cbn [fst snd].
      destruct b1; cbn [fst snd]; [discriminate|]. apply accept_prefix_false in B1; subst t1.
      destruct (accept_prefix t [60%Z;61%Z]) as [b1 t1] eqn:B1. cbn [fst snd].
      destruct b1; cbn [fst snd]; [discriminate|]. apply accept_prefix_false in B1; subst t1. reflexivity. }
    clear H0 H1 H2 K0 K1 K2 K3. destruct r as [b8 x8]. cbn [fst snd] in *. destruct b8; [okF H3|].
    specialize (Hr eq_refl). subst x8. clear H3.
    chainW HW Hlt A y HX.
    { (* a letter *)
      pose proof (accept_true _ _ _ _ A eq_refl eq_refl) as (Hi1 & Hp1 & _ & _ & Hs1 & _).
      unfold backup. change (pos (tw 0 y)) with (pos y). rewrite Hp1. cbn [lbind].
      change (set_pos (tw 0 y) (pos t)) with (tw 0 (set_pos y (pos t))).
      assert (Hu : W 0 (set_pos y (pos t))) by (destruct HW; apply W0; cbn; [congruence|lia]).
      destruct (W_accept_opcode (set_pos y (pos t)) Hu) as [E Hv]; [cbn; congruence|cbn; assumption|].
      rewrite E. destruct (accept_opcode lx (set_pos y (pos t))) as [b v]. cbn [fst snd] in *.
      destruct b; [eapply lsim_F; [apply W_lex_opcode; assumption|auto]
                  |eapply lsim_F; [apply W_lex_identifier; assumption|apply W0k_W]]. }
    chainW HW Hlt A y HX; [eapply lsim_F; [apply W_lex_keyword; assumption|apply W0k_W]|].
    chainW HW Hlt A y HX; [okF HX|].
    chainW HW Hlt A y HX; [okF HX|].
    chainW HW Hlt A y HX; [okF HX|].
    chainW HW Hlt A y HX; [apply W_two; [exact HX|reflexivity]|].
    chainW HW Hlt A y HX; [eapply lsim_F; [apply W_lex_quoted_string; assumption|apply W0k_W]|].
    chainW HW Hlt A y HX; [okF HX|].
    chainW HW Hlt A y HX; [okF HX|].
    chainW HW Hlt A y HX; [okF HX|].
    chainW HW Hlt A y HX; [okF HX|].
    chainW HW Hlt A y HX; [apply W_two; [exact HX|reflexivity]|].
    chainW HW Hlt A y HX; [apply W_two; [exact HX|reflexivity]|].
    chainW HW Hlt A y HX; [okF HX|].
    chainW HW Hlt A y HX.
    { cbv zeta. change (get_position (tw 0 y)) with (get_position y).
      apply lsim_F with (Q := W0k); [|apply W0k_W].
      eapply lsim_bind; [apply W_block_comment_loop; exact HX|]. intros k a [-> Ha]. apply W_emit0. exact Ha. }
    destruct (next_in 0 t HW Hlt) as (N1 & _ & _). rewrite N1. exact I.
  Qed.

  Lemma blanks_of_sp v : mem_z v [32; 9]%Z = true -> mem_z v blanks = true /\ v <> 10%Z.
  Proof.
    intros H. apply mem_z_In in H. cbn in H. destruct H as [<- | [<- | []]]; split; (reflexivity || discriminate).
  Qed.

  Lemma W_lex_initial k t u : W k t -> lex_initial lx F t = LOk u ->
    (k = 0 /\ exists k', lex_initial lx F (tw k t) = LOk (tw k' u) /\ W k' u) \/
    (exists u2, lex_initial lx F (tw k t) = LOk u2 /\ Fin u u2).
  Proof.
    intros HW H. pose proof (W_pos k t HW) as Hpos. pose proof (W_k k t HW) as Hk. pose proof HW as [Hi Hc].
    pose proof len_T2 as L2. pose proof len_tl as Ltl.
    rewrite lex_initial_split in H. rewrite (lex_initial_split lx F (tw k t)). unfold ignore_run in *.
    destruct (exists_stop [32; 9]%Z T1 (n - pos t) (pos t)) as (q1 & Hq1 & Hin1 & Hout1).
    { replace (pos t + (n - pos t)) with n by lia. rewrite T1_n. reflexivity. }
    destruct (Nat.lt_ge_cases q1 n) as [Hlt|Hge].
    - (* the blank run stops inside x *)
      assert (k = 0) as -> by (destruct Hc as [[-> _]|(E & _ & _)]; [reflexivity|lia]).
      assert (Nb : mem_z (nth q1 x 0%Z) blanks = false).
      { rewrite T1_in in Hout1 by lia. pose proof (x_nonl q1 Hlt) as N10.
        unfold mem_z in *. cbn in *. apply Z.eqb_neq in N10. rewrite N10.
        destruct (nth q1 x 0 =? 32)%Z, (nth q1 x 0 =? 9)%Z; cbn in *; congruence. }
      assert (R1 : accept_run F t blanks false = LOk (set_pos t q1)).
      { apply accept_run_stretch_nl; rewrite ?Hi, ?len_T1; try lia.
        - intros i Hi'. apply blanks_of_sp, Hin1. lia.
        - rewrite T1_in by lia. exact Nb. }
      assert (R2 : accept_run F (tw 0 t) blanks false = LOk (set_pos (tw 0 t) q1)).
      { apply accept_run_stretch_nl; cbn [tw inp pos Nat.add]; rewrite ?L2; try lia.
        - intros i Hi'. rewrite T2_in by lia. rewrite <- T1_in by lia. apply blanks_of_sp, Hin1. lia.
        - rewrite T2_in by lia. exact Nb. }
      rewrite R1 in H. rewrite R2. cbn [lbind] in *.
      change (ignore (set_pos (tw 0 t) q1)) with (tw 0 (ignore (set_pos t q1))).
      assert (Ha : W 0 (ignore (set_pos t q1))) by (apply W0; cbn; [assumption|lia]).
      pose proof (W_lex_initial_rest (ignore (set_pos t q1)) Ha ltac:(cbn; lia) eq_refl) as P.
      rewrite H in P. cbn [lsimF] in P. destruct P as [(k' & E & HW')|(u2 & E & HF')].
      + left. split; [reflexivity|]. eauto.
      + right. eauto.
    - (* only blanks up to the end of x: this is the last call of run 1 *)
      assert (q1 = n) as -> by lia. right.
      destruct (accept_run_to_eof blanks eq_refl F t) as (a & Ea & Pa); rewrite ?Hi, ?len_T1; try lia.
      { intros i Hi'. destruct (Nat.eq_dec i n) as [->|Hne]; [rewrite T1_n; reflexivity|].
        apply blanks_of_sp, Hin1. lia. }
      rewrite Ea in H. cbn [lbind] in H. rewrite Hi, len_T1 in Pa.
      pose proof (accept_run_fields _ _ _ _ _ Ea) as (Hia & _ & Hta & _).
      rewrite lex_initial_rest_eof in H by (cbn [ignore inp pos]; rewrite Hia, Hi, Pa, len_T1; lia).
      injection H as <-.
      assert (Hbl : forall i, k + pos t <= i < n + length w -> mem_z (nth i T2 0%Z) blanks = true).
      { intros i Hi'. destruct (Nat.lt_ge_cases i n) as [Hin|Hout].
        - rewrite T2_in by lia. rewrite <- T1_in by lia. apply blanks_of_sp, Hin1.
          destruct Hc as [[-> _]|(E & _ & _)]; lia.
        - replace i with (n + (i - n)) by lia. rewrite T2_w by lia.
          destruct (w_char (i - n)) as [-> | ->]; [lia| |]; reflexivity. }
      destruct tl_head as [Hh|Hh].
      + (* newline: run 2 also reaches the end *)
        pose proof (tl_nl_len Hh) as Ltl1.
        destruct (accept_run_to_eof blanks eq_refl F (tw k t)) as (a2 & Ea2 & Pa2); cbn [tw inp pos]; rewrite ?L2; try lia.
        { intros i Hi'. destruct (Nat.lt_ge_cases i (n + length w)) as [H1|H1]; [apply Hbl; lia|].
          assert (i = n + length w + 0) as -> by lia. rewrite T2_tl, Hh. reflexivity. }
        rewrite Ea2. cbn [lbind].
        pose proof (accept_run_fields _ _ _ _ _ Ea2) as (Hia2 & _ & Hta2 & _). cbn [tw inp toks_rev] in Hia2, Hta2, Pa2.
        rewrite lex_initial_rest_eof by (cbn [ignore inp pos]; rewrite Hia2, Pa2; lia).
        exists (ignore a2). split; [reflexivity|]. unfold Fin. cbn [ignore inp pos start toks_rev].
        rewrite Pa. repeat split; try congruence.
      + (* ";": run 2 stops there and lexes the comment *)
        pose proof (tl_semi_len Hh) as Ltl2.
        destruct (accept_run_span blanks F (tw k t) (n + length w)) as (a2 & Ea2 & Pa2); cbn [tw inp pos]; rewrite ?L2; try lia.
        { exact Hbl. }
        { rewrite <- (Nat.add_0_r (n + length w)), T2_tl, Hh. reflexivity. }
        rewrite Ea2. cbn [lbind].
        pose proof (accept_run_fields _ _ _ _ _ Ea2) as (Hia2 & _ & Hta2 & _). cbn [tw inp toks_rev] in Hia2, Hta2.
        unfold lex_initial_rest.
        assert (Hpk : peek (ignore a2) = 59%Z).
        { rewrite peek_nth. cbn [ignore inp pos]. rewrite Hia2, Pa2.
          rewrite <- (Nat.add_0_r (n + length w)), T2_tl. exact Hh. }
        rewrite (accept_yes (ignore a2) 59%Z [59%Z] Hpk eq_refl).
        pose proof (next_same (ignore a2)) as Sx.
        destruct (next (ignore a2)) as [[c0|] y2] eqn:Ny; cbn [snd] in *.
        2:{ apply next_none in Ny as [_ Ny]. cbn [ignore inp pos] in Ny. rewrite Hia2, Pa2, L2 in Ny. lia. }
        apply next_some in Ny as (_ & _ & Hiy & Hpy & _). cbn [ignore inp pos] in Hiy, Hpy. rewrite Hia2 in Hiy. rewrite Pa2 in Hpy.
        destruct (line_comment_loop_span F y2 (length T2 - 1)) as (a3 & Ea3 & Pa3 & Sa3); rewrite ?Hiy, ?Hpy; try lia.
        { intros i Hi'. apply T2_nonl. lia. }
        { apply T2_last. }
        rewrite Ea3. cbn [lbind]. exists (emit a3 T_COMMENT). split; [reflexivity|].
        destruct Sa3 as (Sb1 & Sb2 & _). destruct Sx as (_ & Sx2 & _). cbn [ignore toks_rev] in Sx2.
        unfold Fin. cbn [emit ignore inp pos start toks_rev]. rewrite Pa.
        repeat split; try congruence; try lia.
        rewrite sig_rev_comment by reflexivity. congruence.
  Qed.

  (** ** the driver *)
  Lemma W_scan_loop : forall j k t toks1 l1, W k t ->
    scan_loop j F (lex_initial lx) t = ScanOk toks1 l1 ->
    exists a1 e1 a2 e2 l2, toks1 = a1 ++ [e1] /\
      scan_loop j F (lex_initial lx) (tw k t) = ScanOk (a2 ++ [e2]) l2 /\ sig a2 = sig a1.
  Proof.
    pose proof len_T2 as L2. pose proof len_tl as Ltl.
    induction j as [|j IH]; intros k t toks1 l1 HW H; [discriminate|].
    cbn [scan_loop] in H |- *. rewrite (len_lt_T1 k t HW) in H. rewrite (len_lt_T2 k t HW).
    pose proof (W_pos k t HW) as Hpos. pose proof (W_k k t HW) as Hk. pose proof HW as [Hi _].
    destruct (lex_initial lx F t) as [u|m l c u| |] eqn:R;
      try (exfalso; eapply scan_handler_not_ok; eassumption); try discriminate.
    assert (Hprog : pos t < pos u).
    { eapply lex_initial_progress; [|rewrite Hi, len_T1; lia|exact R]. rewrite Hi, len_T1. lia. }
    destruct (pos u =? pos t) eqn:Ep; [apply Nat.eqb_eq in Ep; lia|].
    destruct (W_lex_initial k t u HW R) as [[-> (k' & E & HW')]|(u2 & E & HFin)].
    - rewrite E.
      assert (E2 : (pos (tw k' u) =? pos (tw 0 t)) = false) by (apply Nat.eqb_neq; cbn; lia).
      rewrite E2. eapply IH; eassumption.
    - rewrite E. destruct HFin as (F1 & F2 & F3 & F4 & F5 & F6 & F7).
      assert (E2 : (pos u2 =? pos (tw k t)) = false) by (apply Nat.eqb_neq; cbn [tw pos]; lia).
      rewrite E2.
      destruct j as [|j]; [discriminate|].
      rewrite scan_loop_finish in H by (apply Nat.ltb_ge; rewrite F1, F2, len_T1; lia).
      rewrite scan_loop_finish by (apply Nat.ltb_ge; rewrite F4, F5; lia).
      injection H as <- <-. rewrite !handle_line_toks. cbn [emit toks_rev rev].
      do 5 eexists. split; [reflexivity|]. split; [reflexivity|]. exact F7.
  Qed.
End Trailing.
