(** Scanner proofs, part 5b (C16 2b/2c): trailing blanks and end-of-line comments.
    Single-line facts (from the two-text simulation of ScannerTrailing1.v) and, with
    [scan_line_compositional], the insertion-anywhere corollaries. *)
From A816 Require Import Model.Scanner Proofs.ScannerSpec Proofs.ScannerFuel Proofs.ScannerPos
  Proofs.ScannerMono Proofs.ScannerShift Proofs.ScannerPrefix Proofs.ScannerLayout
  Proofs.ScannerComments Proofs.ScannerColumns Proofs.ScannerTrailing1.
From Coq Require Import Arith Lia.
Open Scope nat_scope.

(** ";" directly after the line body must not follow a bare mnemonic (sufficient form: the last
    three characters of the body, lower-cased, are not a mnemonic).  "nop;c" scans to the
    IDENTIFIER nop because accept_opcode wants a blank, a newline, "." or the end of input after
    the three letters. *)
Definition semi_ok (lx : lexicon) (x w tl : str) : Prop :=
  w <> [] \/ tl = [10%Z] \/
  mem_str (map lower (slice x (length x - 3) (length x))) (lx_mnemonics lx) = false.

(** The single-line fact: if the line [x] + newline scans, so does [x ++ w ++ tl] — [w] spaces/tabs,
    [tl] a newline or a ";" comment up to a newline — with the same significant tokens. *)
Theorem line_tail_sig : forall lx file x w tl t1 e1 l1,
  lexicon_tok lx = true ->
  ~ In 10%Z x -> blank_nonl w -> tail_ok tl -> semi_ok lx x w tl ->
  scan lx file (x ++ [10%Z]) = ScanOk (t1 ++ [e1]) l1 ->
  exists t2 e2 l2, scan lx file (x ++ w ++ tl) = ScanOk (t2 ++ [e2]) l2 /\ sig t2 = sig t1.
Proof.
  intros lx file x w tl t1 e1 l1 Hlx Hx Hw Htl Hsemi H.
  pose proof (len_T2 x w tl) as L2. pose proof (len_tl tl Htl) as Ltl. pose proof (len_T1 x) as L1.
  fold (T1 x) in H. fold (T2 x w tl).
  set (F := length (T2 x w tl) + 2).
  assert (HF : length (T2 x w tl) < F) by (subst F; lia).
  assert (H1 : scan_loop F F (lex_initial lx) (init_sc file (T1 x)) = ScanOk (t1 ++ [e1]) l1).
  { rewrite <- H. apply (scan_fuel_irrelevant lx file (T1 x)). unfold scan_fuel. subst F. lia. }
  assert (HW : W x w 0 (init_sc file (T1 x))) by (apply W0; cbn; [reflexivity|lia]).
  destruct (W_scan_loop x w tl Hx Hw Htl F HF lx Hlx Hsemi F 0 (init_sc file (T1 x)) _ _ HW H1)
    as (a1 & e1' & a2 & e2 & l2 & E1 & E2 & Es).
  apply app_inj_tail in E1 as [-> _].
  exists a2, e2, l2. split; [|exact Es].
  unfold scan, scan_with_fuel, scan_gen, scan_fuel. exact E2.
Qed.

(** T1: trailing blanks *)
Corollary trailing_blanks_sig : forall lx file x w t1 e1 l1,
  lexicon_tok lx = true -> ~ In 10%Z x -> blank_nonl w ->
  scan lx file (x ++ [10%Z]) = ScanOk (t1 ++ [e1]) l1 ->
  exists t2 e2 l2, scan lx file (x ++ w ++ [10%Z]) = ScanOk (t2 ++ [e2]) l2 /\ sig t2 = sig t1.
Proof.
  intros lx file x w t1 e1 l1 Hlx Hx Hw H.
  apply (line_tail_sig lx file x w [10%Z] t1 e1 l1); auto.
  - left. reflexivity.
  - right. left. reflexivity.
Qed.

(** T2: end-of-line comment, after at least one blank — or directly after a body that does not end
    in a mnemonic *)
Corollary eol_comment_sig : forall lx file x w c t1 e1 l1,
  lexicon_tok lx = true -> ~ In 10%Z x -> blank_nonl w -> ~ In 10%Z c ->
  (w <> [] \/ mem_str (map lower (slice x (length x - 3) (length x))) (lx_mnemonics lx) = false) ->
  scan lx file (x ++ [10%Z]) = ScanOk (t1 ++ [e1]) l1 ->
  exists t2 e2 l2, scan lx file (x ++ w ++ 59%Z :: c ++ [10%Z]) = ScanOk (t2 ++ [e2]) l2 /\ sig t2 = sig t1.
Proof.
  intros lx file x w c t1 e1 l1 Hlx Hx Hw Hc Hs H.
  apply (line_tail_sig lx file x w (59%Z :: c ++ [10%Z]) t1 e1 l1); auto.
  - right. exists c. auto.
  - destruct Hs as [Hs|Hs]; [left; exact Hs|right; right; exact Hs].
Qed.

(* ------------------------------------------------------------------------------------------ *)
(** * Anywhere in a text *)

Lemma ends_nl_tail x w tl : tail_ok tl -> ends_nl (x ++ w ++ tl).
Proof.
  intros [-> | (c & -> & _)].
  - exists (x ++ w). rewrite <- app_assoc. reflexivity.
  - exists (x ++ w ++ 59%Z :: c). rewrite <- !app_assoc. reflexivity.
Qed.

(** the line [x] between the complete lines [a] (which scan by themselves) and the rest [b] may get
    trailing blanks and/or an end-of-line comment: same significant tokens, same error if any *)
Theorem line_tail_invisible : forall lx file a x w tl b ta ea la t1 e1 l1,
  lexicon_ok lx = true -> lexicon_tok lx = true ->
  ends_nl a -> scan lx file a = ScanOk (ta ++ [ea]) la ->
  ~ In 10%Z x -> blank_nonl w -> tail_ok tl -> semi_ok lx x w tl ->
  scan lx file (x ++ [10%Z]) = ScanOk (t1 ++ [e1]) l1 ->
  view_of (scan lx file (a ++ (x ++ w ++ tl) ++ b)) = view_of (scan lx file (a ++ (x ++ [10%Z]) ++ b)).
Proof.
  intros lx file a x w tl b ta ea la t1 e1 l1 Hok Hlx Ha Sa Hx Hw Htl Hsemi S1.
  destruct (line_tail_sig lx file x w tl t1 e1 l1 Hlx Hx Hw Htl Hsemi S1) as (t2 & e2 & l2 & S2 & Es).
  symmetry.
  eapply (line_replacement lx file a (x ++ [10%Z]) (x ++ w ++ tl) b); eauto.
  - exists x. reflexivity.
  - apply ends_nl_tail. assumption.
Qed.

Theorem trailing_blanks_invisible : forall lx file a x w b ta ea la t1 e1 l1,
  lexicon_ok lx = true -> lexicon_tok lx = true ->
  ends_nl a -> scan lx file a = ScanOk (ta ++ [ea]) la ->
  ~ In 10%Z x -> blank_nonl w ->
  scan lx file (x ++ [10%Z]) = ScanOk (t1 ++ [e1]) l1 ->
  view_of (scan lx file (a ++ (x ++ w ++ [10%Z]) ++ b)) = view_of (scan lx file (a ++ (x ++ [10%Z]) ++ b)).
Proof.
  intros. eapply line_tail_invisible; eauto.
  - left. reflexivity.
  - right. left. reflexivity.
Qed.

Theorem eol_comment_invisible : forall lx file a x w c b ta ea la t1 e1 l1,
  lexicon_ok lx = true -> lexicon_tok lx = true ->
  ends_nl a -> scan lx file a = ScanOk (ta ++ [ea]) la ->
  ~ In 10%Z x -> blank_nonl w -> ~ In 10%Z c ->
  (w <> [] \/ mem_str (map lower (slice x (length x - 3) (length x))) (lx_mnemonics lx) = false) ->
  scan lx file (x ++ [10%Z]) = ScanOk (t1 ++ [e1]) l1 ->
  view_of (scan lx file (a ++ (x ++ w ++ 59%Z :: c ++ [10%Z]) ++ b)) =
  view_of (scan lx file (a ++ (x ++ [10%Z]) ++ b)).
Proof.
  intros lx file a x w c b ta ea la t1 e1 l1 Hok Hlx Ha Sa Hx Hw Hc Hs S1.
  eapply (line_tail_invisible lx file a x w (59%Z :: c ++ [10%Z])); eauto.
  - right. exists c. auto.
  - destruct Hs as [Hs|Hs]; [left; exact Hs|right; right; exact Hs].
Qed.

(** the same on the first line of a text *)
Theorem line_tail_invisible_at_top : forall lx file x w tl b t1 e1 l1,
  lexicon_ok lx = true -> lexicon_tok lx = true ->
  ~ In 10%Z x -> blank_nonl w -> tail_ok tl -> semi_ok lx x w tl ->
  scan lx file (x ++ [10%Z]) = ScanOk (t1 ++ [e1]) l1 ->
  view_of (scan lx file ((x ++ w ++ tl) ++ b)) = view_of (scan lx file ((x ++ [10%Z]) ++ b)).
Proof.
  intros lx file x w tl b t1 e1 l1 Hok Hlx Hx Hw Htl Hsemi S1.
  destruct (line_tail_sig lx file x w tl t1 e1 l1 Hlx Hx Hw Htl Hsemi S1) as (t2 & e2 & l2 & S2 & Es).
  rewrite (scan_line_compositional lx file (x ++ [10%Z]) b t1 e1 l1 Hok (ex_intro _ x eq_refl) S1).
  rewrite (scan_line_compositional lx file (x ++ w ++ tl) b t2 e2 l2 Hok (ends_nl_tail x w tl Htl) S2).
  rewrite !view_shift, Es. reflexivity.
Qed.

(** Non-vacuity and the documented exception, on a small lexicon: "nop" + newline is the naked
    opcode, "nop;c" is an identifier (so [semi_ok] cannot be dropped), "nop ;c" is the opcode. *)
Definition first_sig (lx : lexicon) (l : str) : option (list (ttype * str)) :=
  match scan lx [102%Z] l with
  | ScanOk toks _ => Some (sig toks)
  | _ => None
  end.

Example semi_after_mnemonic_differs :
  first_sig demo_lexicon [110;111;112;10]%Z = Some [(T_OPCODE_NAKED, [110;111;112]%Z); (T_EOF, [])] /\
  first_sig demo_lexicon [110;111;112;59;99;10]%Z = Some [(T_IDENTIFIER, [110;111;112]%Z); (T_EOF, [])] /\
  first_sig demo_lexicon [110;111;112;32;59;99;10]%Z = Some [(T_OPCODE_NAKED, [110;111;112]%Z); (T_EOF, [])] /\
  lexicon_tok demo_lexicon = true.
Proof. repeat split; vm_compute; reflexivity. Qed.

Print Assumptions line_tail_sig.
Print Assumptions trailing_blanks_invisible.
Print Assumptions eol_comment_invisible.
Print Assumptions line_tail_invisible_at_top.
