(** C18: decoding inverts encoding for tables with unique, non-empty, prefix-free codes. *)
From Coq Require Import ZArith List Bool Lia Arith ZifyBool.
From A816 Require Import Spec.TableSpec Proofs.BusProofs Proofs.TableProofs Proofs.TableEncode.
Open Scope Z_scope.

Lemma inv_get es k :
  dict_get (inv_of es) k =
  match last_with e_code k es with Some e => Some (e_text e, e_ignore e) | None => None end.
Proof. unfold inv_of. rewrite build_get. reflexivity. Qed.

Lemma inv_key es k v : dict_get (inv_of es) k = Some v -> exists e, In e es /\ e_code e = k.
Proof.
  rewrite inv_get. destruct (last_with e_code k es) as [e|] eqn:E; [|discriminate]. intros _.
  apply last_with_some in E as (pre & post & -> & Hk & _). exists e. split; [|assumption].
  apply in_or_app. right. left. reflexivity.
Qed.

Lemma inv_assigned es x c : rt_table es -> assigns es x c -> dict_get (inv_of es) c = Some (x, None).
Proof.
  intros (Hu & _ & _ & Hi) Ha. destruct (assigns_in _ _ _ Ha) as [ig Hin].
  rewrite inv_get. destruct (last_with e_code c es) as [e|] eqn:E.
  - apply last_with_some in E as (pre & post & Hes & Hk & _).
    assert (Hin' : In e es) by (rewrite Hes; apply in_or_app; right; left; reflexivity).
    rewrite (Hi _ Hin'). rewrite (Hu e (x, c, ig) Hin' Hin Hk). reflexivity.
  - exfalso. exact (last_with_none _ _ _ E _ Hin eq_refl).
Qed.

Section Decode.
  Context (es : list entry) (t : table) (Ht : table_of_entries es = Ok t) (Hrt : rt_table es).

  Lemma L_inv : t_inv t = inv_of es.
  Proof. exact (proj1 (proj2 (table_of_entries_spec _ _ Ht))). Qed.

  Lemma decode_step x c rest : assigns es x c ->
    try_lookup (t_inv t) (c ++ rest) (Nat.min (length (c ++ rest)) (t_max_bytes t)) = Some ((x, None), length c).
  Proof.
    intros Ha. rewrite L_inv.
    destruct (assigns_in _ _ _ Ha) as [ig Hin].
    destruct Hrt as (Hu & Hne & Hpf & Hi).
    assert (Hc : c <> []) by exact (Hne _ Hin).
    assert (Hcb := code_bounded _ _ Ht _ _ Ha).
    assert (Hg := inv_assigned _ _ _ Hrt Ha).
    set (rem := c ++ rest). set (bound := Nat.min (length rem) (t_max_bytes t)).
    assert (Hlc : (1 <= length c <= bound)%nat).
    { unfold bound, rem. rewrite app_length. destruct c; [contradiction|cbn [length] in *; lia]. }
    destruct (try_lookup (inv_of es) rem bound) as [[v j]|] eqn:E.
    - apply try_lookup_some in E as (Hj & Hgj & Hmax).
      destruct (inv_key _ _ _ Hgj) as (e' & Hin' & Hk).
      assert (Hjl : length (firstn j rem) = j) by (rewrite firstn_length; unfold bound in Hj; lia).
      assert (Heq : e_code e' = c).
      { destruct (Nat.le_gt_cases j (length c)) as [Hle|Hgt].
        - (* the found key is a prefix of c *)
          apply (Hpf e' (x, c, ig) Hin' Hin). rewrite Hk. exists (skipn j c). cbn [e_code fst snd].
          unfold rem. rewrite firstn_app. replace (j - length c)%nat with 0%nat by lia.
          cbn [firstn]. rewrite app_nil_r. symmetry. apply firstn_skipn.
        - (* c is a prefix of the found key *)
          symmetry. apply (Hpf (x, c, ig) e' Hin Hin'). rewrite Hk. cbn [e_code fst snd].
          exists (firstn (j - length c) rest). unfold rem. rewrite firstn_app.
          rewrite firstn_all2 by lia. reflexivity. }
      assert (j = length c) by (rewrite <- Heq, Hk; symmetry; exact Hjl). subst j.
      unfold rem in Hgj. rewrite firstn_app_len in Hgj. rewrite Hg in Hgj. injection Hgj as <-. reflexivity.
    - exfalso. assert (Hn := try_lookup_none _ _ _ E (length c) Hlc).
      unfold rem in Hn. rewrite firstn_app_len in Hn. congruence.
  Qed.

  Lemma decode_items s its : Toks es s its -> Forall not_joker its ->
    forall fuel acc, (length (bytes_of its) < fuel)%nat ->
    to_text_loop fuel t (bytes_of its) acc = Ok (acc ++ texts_of its).
  Proof.
    induction 1 as [|s v rest its J Hv HT IH|s x c rest its Hnj Hb HT IH|ch rest its Hnj Hnm HT IH];
      intros HF fuel acc Hf.
    - destruct fuel; [lia|]. cbn. rewrite app_nil_r. reflexivity.
    - inversion HF as [|? ? Hj _]. contradiction.
    - inversion HF as [|? ? _ HF']; subst.
      destruct Hb as (Hx & Hs & Ha & _).
      destruct (assigns_in _ _ _ Ha) as [ig Hin].
      assert (Hc : c <> []) by exact (proj1 (proj2 Hrt) _ Hin).
      cbn [bytes_of flat_map item_bytes texts_of item_text] in *. fold (bytes_of its) in *. fold (texts_of its).
      destruct fuel as [|f]; [lia|]. cbn [to_text_loop].
      destruct (c ++ bytes_of its) as [|b r] eqn:Ecb; [destruct c; [contradiction|discriminate]|].
      rewrite <- Ecb in *. rewrite (decode_step _ _ _ Ha). rewrite skipn_app_len0.
      rewrite IH; [rewrite app_assoc; reflexivity|assumption|].
      rewrite app_length in Hf. destruct c; [contradiction|cbn [length] in Hf; lia].
    - inversion HF as [|? ? _ HF']; subst. cbn [bytes_of flat_map item_bytes texts_of item_text app] in *.
      apply IH; assumption.
  Qed.

  Theorem roundtrip_items s its : Toks es s its -> Forall not_joker its ->
    to_bytes t s = Ok (bytes_of its) /\ to_text t (bytes_of its) = Ok (texts_of its).
  Proof.
    intros HT HF. split.
    - apply (to_bytes_items _ _ Ht). exists its. split; [assumption|reflexivity].
    - unfold to_text. rewrite (decode_items _ _ HT HF) by lia. reflexivity.
  Qed.
End Decode.

(** strings without escapes *)
Lemma joker_free_suffix pre suf : joker_free (pre ++ suf) -> joker_free suf.
Proof. intros H p q Hq. apply (H (pre ++ p) q). rewrite Hq. apply app_assoc. Qed.

Lemma joker_free_no_joker s : joker_free s -> no_joker s.
Proof. intros H. apply (H [] s). reflexivity. Qed.

Lemma Toks_joker_free es s its : Toks es s its -> joker_free s -> Forall not_joker its.
Proof.
  induction 1 as [|s v rest its J Hv HT IH|s x c rest its Hnj Hb HT IH|ch rest its Hnj Hnm HT IH]; intros HJ.
  - constructor.
  - exfalso. exact (joker_free_no_joker _ HJ _ _ J).
  - constructor; [exact I|]. apply IH. destruct Hb as (_ & -> & _). exact (joker_free_suffix _ _ HJ).
  - constructor; [exact I|]. apply IH. exact (joker_free_suffix [ch] rest HJ).
Qed.

Lemma joker_free_tokenises es t s : table_of_entries es = Ok t -> joker_free s ->
  exists its, Toks es s its /\ Forall not_joker its /\ to_bytes t s = Ok (bytes_of its).
Proof.
  intros Ht HJ. destruct (to_bytes_total t s) as [[bs Hok]|(_ & pre & suf & v & rest & Hs & J & _)].
  - destruct (proj1 (to_bytes_items _ _ Ht s bs) Hok) as (its & HT & ->).
    exists its. split; [assumption|]. split; [exact (Toks_joker_free _ _ _ HT HJ)|assumption].
  - exfalso. exact (HJ pre suf Hs _ _ J).
Qed.

Theorem roundtrip es t s : table_of_entries es = Ok t -> rt_table es -> joker_free s ->
  exists its, Toks es s its /\ to_bytes t s = Ok (bytes_of its) /\ to_text t (bytes_of its) = Ok (texts_of its).
Proof.
  intros Ht Hrt HJ. destruct (joker_free_tokenises _ _ _ Ht HJ) as (its & HT & HF & Hb).
  exists its. split; [assumption|]. exact (roundtrip_items _ _ Ht Hrt _ _ HT HF).
Qed.

(** single-character tables: the matched texts are the string itself *)
Lemma single_texts es s its : single_char_texts es -> over_alphabet es s -> Toks es s its ->
  Forall not_joker its -> texts_of its = s.
Proof.
  intros Hs Ho HT. revert Ho.
  induction HT as [|s v rest its J Hv HT IH|s x c rest its Hnj Hb HT IH|ch rest its Hnj Hnm HT IH]; intros Ho HF.
  - reflexivity.
  - inversion HF as [|? ? Hj _]. contradiction.
  - inversion HF as [|? ? _ HF']; subst. destruct Hb as (Hx & -> & Ha & _).
    cbn [texts_of flat_map item_text]. fold (texts_of its). f_equal.
    apply IH; [|assumption]. intros ch Hin. apply Ho. apply in_or_app. right. assumption.
  - exfalso. assert (Hh : has_text es [ch]) by (apply Ho; left; reflexivity).
    apply (Hnm [ch] rest); [discriminate|assumption|reflexivity].
Qed.

Theorem roundtrip_single es t s : table_of_entries es = Ok t -> rt_table es ->
  single_char_texts es -> over_alphabet es s -> joker_free s ->
  exists bs, to_bytes t s = Ok bs /\ to_text t bs = Ok s.
Proof.
  intros Ht Hrt Hs Ho HJ. destruct (joker_free_tokenises _ _ _ Ht HJ) as (its & HT & HF & Hb).
  exists (bytes_of its). split; [assumption|].
  rewrite <- (single_texts _ _ _ Hs Ho HT HF).
  exact (proj2 (roundtrip_items _ _ Ht Hrt _ _ HT HF)).
Qed.

(** a string without '[' has no escape *)
Lemma no_bracket_joker_free s : ~ In 91 s -> joker_free s.
Proof.
  intros H pre suf Hs v rest J. apply joker_at_cons in J as (ds & _ & _ & -> & _).
  apply H. rewrite Hs. apply in_or_app. right. left. reflexivity.
Qed.

(** to_text never runs out of fuel *)
Lemma ignore_bytes_shorter k : forall rem acc rem' acc', ignore_bytes k rem acc = Ok (rem', acc') ->
  (length rem' <= length rem)%nat.
Proof.
  induction k as [|k IH]; intros rem acc rem' acc' H; cbn [ignore_bytes] in H.
  - injection H as <- <-. lia.
  - destruct rem as [|b r]; [discriminate|]. apply IH in H. cbn [length]. lia.
Qed.

Lemma to_text_loop_total t : forall fuel rem acc, (length rem < fuel)%nat ->
  to_text_loop fuel t rem acc <> OutOfFuel.
Proof.
  induction fuel as [|f IH]; intros rem acc Hf; [lia|]. cbn [to_text_loop].
  destruct rem as [|b r] eqn:Erem; [discriminate|]. rewrite <- Erem in *.
  assert (Hne : rem <> []) by (rewrite Erem; discriminate).
  destruct (try_lookup (t_inv t) rem (Nat.min (length rem) (t_max_bytes t))) as [[[x [k|]] i]|] eqn:E.
  - apply try_lookup_some in E as (Hi & _). assert (HS := skipn_shorter rem i (proj1 Hi) Hne).
    destruct (ignore_bytes (Z.to_nat k) (skipn i rem) (acc ++ x)) as [[rem' acc']| |] eqn:Ei; cbn [bind fst snd].
    + apply ignore_bytes_shorter in Ei. apply IH. lia.
    + discriminate.
    + exfalso. clear -Ei. revert Ei. generalize (skipn i rem) (acc ++ x).
      induction (Z.to_nat k) as [|n IHn]; intros l a; cbn [ignore_bytes]; [discriminate|].
      destruct l; [discriminate|apply IHn].
  - apply try_lookup_some in E as (Hi & _). assert (HS := skipn_shorter rem i (proj1 Hi) Hne).
    apply IH. lia.
  - apply IH. rewrite Erem in Hf. cbn [length] in Hf. lia.
Qed.

Theorem to_text_total t bs : to_text t bs <> OutOfFuel.
Proof. unfold to_text. apply to_text_loop_total. lia. Qed.

Lemma text_length_agrees b tbl s pc :
  text_pc_after b tbl s pc = (do bs <- text_emit tbl s; addr_add b pc (Z.of_nat (length bs))).
Proof. reflexivity. Qed.
