(** C18: Model [to_bytes] is exactly the greedy tokenisation of Spec/TableSpec.v. *)
From Coq Require Import ZArith List Bool Lia Arith ZifyBool.
From A816 Require Import Spec.TableSpec Proofs.BusProofs Proofs.TableProofs.
Open Scope Z_scope.

Lemma prefix_firstn (x r rem : str) : rem = x ++ r -> firstn (length x) rem = x.
Proof. intros ->. apply firstn_app_len. Qed.

Lemma Tok_Toks es s bs : Tok es s bs <-> exists its, Toks es s its /\ bs = bytes_of its.
Proof.
  split.
  - induction 1 as [|s v rest bs J Hv _ (its & HT & ->)|s x c rest bs Hnj Hb _ (its & HT & ->)
                    |ch rest bs Hnj Hnm _ (its & HT & ->)].
    + exists []. split; [constructor|reflexivity].
    + exists (IJoker v :: its). split; [econstructor; eassumption|reflexivity].
    + exists (IMatch x c :: its). split; [econstructor; eassumption|reflexivity].
    + exists (ISkip ch :: its). split; [econstructor; eassumption|reflexivity].
  - intros (its & HT & ->). induction HT; cbn [bytes_of flat_map item_bytes app].
    + constructor.
    + eapply Tok_joker; eassumption.
    + eapply Tok_match; eassumption.
    + eapply Tok_skip; eassumption.
Qed.

Section Encode.
  Context (es : list entry) (t : table) (Ht : table_of_entries es = Ok t).

  Lemma L_lookup : t_lookup t = lookup_of es.
  Proof. exact (proj1 (table_of_entries_spec _ _ Ht)). Qed.

  Lemma text_bounded x : has_text es x -> (length x <= t_max_text t)%nat.
  Proof.
    intros H. destruct (has_text_assigns _ _ H) as [c Hc]. apply lookup_assigns in Hc.
    apply dict_get_in in Hc as [Hk _].
    exact (proj1 (proj2 (proj2 (table_of_entries_spec _ _ Ht))) _ Hk).
  Qed.

  Lemma code_bounded x c : assigns es x c -> (length c <= t_max_bytes t)%nat.
  Proof.
    intros Hc. apply lookup_assigns in Hc. apply dict_get_in in Hc as [_ Hv].
    exact (proj2 (proj2 (proj2 (table_of_entries_spec _ _ Ht))) _ Hv).
  Qed.

  Lemma step_match rem total c i : rem <> [] -> (length rem <= total)%nat ->
    try_lookup (t_lookup t) rem (Nat.min total (t_max_text t)) = Some (c, i) ->
    best_match es rem (firstn i rem) c (skipn i rem).
  Proof.
    intros Hne Hlen H. rewrite L_lookup in H. apply try_lookup_some in H as (Hi & Hg & Hmax).
    split; [apply firstn_nonempty; [lia|assumption]|].
    split; [symmetry; apply firstn_skipn|].
    split; [apply lookup_assigns; assumption|].
    intros x r Hx Hh Hr. rewrite firstn_length.
    assert (Hxl : (length x <= length rem)%nat) by (rewrite Hr, app_length; lia).
    assert (Hb := text_bounded _ Hh).
    destruct (Nat.le_gt_cases (length x) i) as [Hle|Hgt]; [lia|].
    exfalso. assert (Hn : dict_get (lookup_of es) (firstn (length x) rem) = None) by (apply Hmax; lia).
    rewrite (prefix_firstn _ _ _ Hr) in Hn. apply lookup_none in Hn. contradiction.
  Qed.

  Lemma step_nomatch rem total : (length rem <= total)%nat ->
    try_lookup (t_lookup t) rem (Nat.min total (t_max_text t)) = None -> no_match es rem.
  Proof.
    intros Hlen H x r Hx Hh Hr. rewrite L_lookup in H.
    assert (Hxl : (length x <= length rem)%nat) by (rewrite Hr, app_length; lia).
    assert (Hb := text_bounded _ Hh).
    assert (Hn : dict_get (lookup_of es) (firstn (length x) rem) = None).
    { apply (try_lookup_none _ _ _ H). destruct x; [contradiction|]. cbn [length] in *. lia. }
    rewrite (prefix_firstn _ _ _ Hr) in Hn. apply lookup_none in Hn. contradiction.
  Qed.

  Lemma best_match_unique rem x c r x' c' r' :
    best_match es rem x c r -> best_match es rem x' c' r' -> x = x' /\ c = c' /\ r = r'.
  Proof.
    intros (Hx & Hr & Ha & Hm) (Hx' & Hr' & Ha' & Hm').
    assert (L1 := Hm _ _ Hx' (assigns_has_text _ _ _ Ha') Hr').
    assert (L2 := Hm' _ _ Hx (assigns_has_text _ _ _ Ha) Hr).
    assert (HL : length x = length x') by lia.
    rewrite Hr in Hr'. destruct (app_same_length _ _ _ _ Hr' HL) as [-> ->].
    repeat split. exact (assigns_functional _ _ _ _ Ha Ha').
  Qed.

  (** model -> specification *)
  Lemma loop_sound total : forall fuel rem acc bs, (length rem <= total)%nat ->
    to_bytes_loop fuel t total rem acc = Ok bs ->
    exists its, Toks es rem its /\ bs = acc ++ bytes_of its.
  Proof.
    induction fuel as [|f IH]; intros rem acc bs Hlen H; cbn [to_bytes_loop] in H; [discriminate|].
    destruct rem as [|ch rem'] eqn:Erem.
    - injection H as <-. exists []. split; [constructor|]. cbn. rewrite app_nil_r. reflexivity.
    - rewrite <- Erem in *. assert (Hne : rem <> []) by (rewrite Erem; discriminate).
      destruct (joker_match rem) as [[ds n]|] eqn:Ej.
      + destruct (int16 ds <=? 255) eqn:Ev; [|discriminate].
        apply joker_match_sound in Ej as [J Hn].
        assert (Hl : (length (skipn n rem) <= total)%nat) by (rewrite skipn_length; lia).
        destruct (IH _ _ _ Hl H) as (its & HT & ->).
        exists (IJoker (int16 ds) :: its). split.
        * eapply Toks_joker; [exact J|lia|exact HT].
        * cbn [bytes_of flat_map item_bytes]. rewrite <- app_assoc. reflexivity.
      + apply joker_match_none in Ej.
        destruct (try_lookup (t_lookup t) rem (Nat.min total (t_max_text t))) as [[c i]|] eqn:El.
        * assert (Hl : (length (skipn i rem) <= total)%nat) by (rewrite skipn_length; lia).
          destruct (IH _ _ _ Hl H) as (its & HT & ->).
          exists (IMatch (firstn i rem) c :: its). split.
          -- eapply Toks_match; [exact Ej|exact (step_match _ _ _ _ Hne Hlen El)|exact HT].
          -- cbn [bytes_of flat_map item_bytes]. rewrite <- app_assoc. reflexivity.
        * assert (Hnm := step_nomatch _ _ Hlen El).
          rewrite Erem in H, Hlen, Ej, Hnm |- *. cbn [skipn] in H. cbn [length] in Hlen.
          assert (Hl : (length rem' <= total)%nat) by lia.
          destruct (IH _ _ _ Hl H) as (its & HT & ->).
          exists (ISkip ch :: its). split; [apply Toks_skip; assumption|reflexivity].
  Qed.

  (** specification -> model, with enough fuel *)
  Lemma loop_complete total rem its : Toks es rem its ->
    forall fuel acc, (length rem < fuel)%nat -> (length rem <= total)%nat ->
    to_bytes_loop fuel t total rem acc = Ok (acc ++ bytes_of its).
  Proof.
    induction 1 as [|s v rest its J Hv HT IH|s x c rest its Hnj Hb HT IH|ch rest its Hnj Hnm HT IH];
      intros fuel acc Hf Hlen.
    - destruct fuel; [lia|]. cbn. rewrite app_nil_r. reflexivity.
    - destruct fuel as [|f]; [lia|]. cbn [to_bytes_loop].
      assert (HL := joker_at_longer _ _ _ J).
      destruct (joker_match_complete _ _ _ J) as (ds & n & Ej & Ev & Er).
      destruct s as [|ch s'] eqn:Es; [cbn in HL; lia|]. rewrite <- Es in *. rewrite Ej, Ev.
      replace (v <=? 255) with true by lia. rewrite Er.
      rewrite IH by lia.
      cbn [bytes_of flat_map item_bytes]. rewrite <- app_assoc. reflexivity.
    - destruct fuel as [|f]; [lia|]. cbn [to_bytes_loop].
      assert (Hne : s <> []).
      { destruct Hb as (Hx & -> & _). destruct x; [contradiction|discriminate]. }
      assert (HL : (length rest < length s)%nat).
      { destruct Hb as (Hx & -> & _). apply app_nonempty_longer. assumption. }
      destruct s as [|ch s'] eqn:Es; [contradiction|]. rewrite <- Es in *.
      rewrite (no_joker_match _ Hnj).
      destruct (try_lookup (t_lookup t) s (Nat.min total (t_max_text t))) as [[c' i]|] eqn:El.
      + apply (step_match _ _ _ _ Hne Hlen) in El.
        destruct (best_match_unique _ _ _ _ _ _ _ Hb El) as (_ & <- & <-).
        rewrite IH by lia. cbn [bytes_of flat_map item_bytes]. rewrite <- app_assoc. reflexivity.
      + apply (step_nomatch _ _ Hlen) in El. exfalso.
        destruct Hb as (Hx & Hr & Ha & _). exact (El _ _ Hx (assigns_has_text _ _ _ Ha) Hr).
    - destruct fuel as [|f]; [lia|]. cbn [to_bytes_loop].
      rewrite (no_joker_match _ Hnj).
      destruct (try_lookup (t_lookup t) (ch :: rest) (Nat.min total (t_max_text t))) as [[c' i]|] eqn:El.
      + apply step_match in El; [|discriminate|assumption]. exfalso.
        destruct El as (Hx & Hr & Ha & _). exact (Hnm _ _ Hx (assigns_has_text _ _ _ Ha) Hr).
      + cbn [skipn]. rewrite IH by (cbn [length] in *; lia). reflexivity.
  Qed.

  (** fuel sufficiency and the only possible error *)
  Lemma loop_total total : forall fuel rem acc, (length rem < fuel)%nat ->
    (exists bs, to_bytes_loop fuel t total rem acc = Ok bs) \/
    (to_bytes_loop fuel t total rem acc = Err EValue /\
     exists pre suf v rest, rem = pre ++ suf /\ joker_at suf v rest /\ 255 < v).
  Proof.
    induction fuel as [|f IH]; intros rem acc Hf; [lia|]. cbn [to_bytes_loop].
    destruct rem as [|ch rem'] eqn:Erem; [left; eexists; reflexivity|].
    rewrite <- Erem in *. assert (Hne : rem <> []) by (rewrite Erem; discriminate).
    assert (Hsuf : forall n acc', (1 <= n)%nat ->
      (exists bs, to_bytes_loop f t total (skipn n rem) acc' = Ok bs) \/
      (to_bytes_loop f t total (skipn n rem) acc' = Err EValue /\
       exists pre suf v rest, rem = pre ++ suf /\ joker_at suf v rest /\ 255 < v)).
    { intros n acc' Hn. assert (HS := skipn_shorter rem n Hn Hne).
      destruct (IH (skipn n rem) acc') as [Hok|(He & pre & suf & v & rest & Hp & J & Hv)]; [lia|left; exact Hok|].
      right. split; [exact He|]. exists (firstn n rem ++ pre), suf, v, rest.
      split; [|split; assumption]. rewrite <- app_assoc, <- Hp. symmetry. apply firstn_skipn. }
    destruct (joker_match rem) as [[ds n]|] eqn:Ej.
    - apply joker_match_sound in Ej as [J Hn].
      destruct (int16 ds <=? 255) eqn:Ev; [apply Hsuf; assumption|].
      right. split; [reflexivity|]. exists [], rem, (int16 ds), (skipn n rem).
      split; [reflexivity|split; [assumption|lia]].
    - destruct (try_lookup (t_lookup t) rem (Nat.min total (t_max_text t))) as [[c i]|] eqn:El.
      + apply try_lookup_some in El as (Hi & _). apply Hsuf. lia.
      + apply Hsuf. lia.
  Qed.

  Theorem to_bytes_items s bs : to_bytes t s = Ok bs <-> exists its, Toks es s its /\ bs = bytes_of its.
  Proof.
    unfold to_bytes. split.
    - intros H. apply loop_sound in H; [|lia]. exact H.
    - intros (its & HT & ->). rewrite (loop_complete _ _ _ HT) by lia. reflexivity.
  Qed.

  Theorem to_bytes_spec s bs : to_bytes t s = Ok bs <-> Tok es s bs.
  Proof. rewrite to_bytes_items. symmetry. apply Tok_Toks. Qed.

  Theorem to_bytes_total s :
    (exists bs, to_bytes t s = Ok bs) \/
    (to_bytes t s = Err EValue /\ exists pre suf v rest, s = pre ++ suf /\ joker_at suf v rest /\ 255 < v).
  Proof. unfold to_bytes. apply loop_total. lia. Qed.
End Encode.

(** The loop bound [min(len(text), max_text_length)] uses the length of the WHOLE text; any bound
    that is at least the length of the remainder gives the same result, so the quirk is harmless. *)
Theorem to_bytes_bound_irrelevant es t s total : table_of_entries es = Ok t -> (length s <= total)%nat ->
  to_bytes_loop (S (length s)) t total s [] = to_bytes t s.
Proof.
  intros Ht Hlen. unfold to_bytes.
  destruct (loop_total t total (S (length s)) s []) as [[bs H1]|[H1 _]]; [lia| |];
  destruct (loop_total t (length s) (S (length s)) s []) as [[bs' H2]|[H2 _]]; try lia.
  - rewrite H1, H2. apply (loop_sound _ _ Ht) in H1 as (its & HT & ->); [|lia].
    rewrite (loop_complete _ _ Ht _ _ _ HT) in H2 by lia. congruence.
  - exfalso. apply (loop_sound _ _ Ht) in H1 as (its & HT & ->); [|lia].
    rewrite (loop_complete _ _ Ht _ _ _ HT) in H2 by lia. discriminate.
  - exfalso. apply (loop_sound _ _ Ht) in H2 as (its & HT & ->); [|lia].
    rewrite (loop_complete _ _ Ht _ _ _ HT) in H1 by lia. discriminate.
  - congruence.
Qed.
