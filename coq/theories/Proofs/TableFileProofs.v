(** Proofs about Model/TableFile.v (loading a table file from its text).

    1. The regular expression: a small backtracking matcher (greedy, leftmost alternative first,
       as CPython's [re]) run on [table_line_regex] computes exactly [match_table_line]; and every
       declarative match of the expression has the same [byte] / [ignore] groups: the search order
       does not matter.
    2. Round trip: a well-formed rendered line parses to its entry; a file of such lines loads to
       [table_of_entries] of the entries.
    3. Rejections.  4. No fuel anywhere: everything is structurally recursive; the only error is
       ValueError. *)
From Coq Require Import ZArith List Bool Lia Arith ZifyBool.
From A816 Require Import Model.TableFile.
Open Scope Z_scope.

(** * Maximal runs *)

Fixpoint takew (p : Z -> bool) (s : str) : str :=
  match s with c :: r => if p c then c :: takew p r else [] | [] => [] end.
Fixpoint dropw (p : Z -> bool) (s : str) : str :=
  match s with c :: r => if p c then dropw p r else s | [] => [] end.

Definition head_fails (p : Z -> bool) (s : str) : Prop :=
  match s with c :: _ => p c = false | [] => True end.

Lemma takew_dropw p s : takew p s ++ dropw p s = s.
Proof. induction s as [|c r IH]; cbn; [reflexivity|]. destruct (p c); cbn; [rewrite IH|]; reflexivity. Qed.

Lemma takew_all p s : forallb p (takew p s) = true.
Proof. induction s as [|c r IH]; cbn; [reflexivity|]. destruct (p c) eqn:E; cbn; [rewrite E, IH|]; reflexivity. Qed.

Lemma dropw_head p s : head_fails p (dropw p s).
Proof. induction s as [|c r IH]; cbn; [exact I|]. destruct (p c) eqn:E; [exact IH|exact E]. Qed.

Lemma tw_app p a b : forallb p a = true -> head_fails p b -> takew p (a ++ b) = a /\ dropw p (a ++ b) = b.
Proof.
  intros Ha Hb. induction a as [|c a IH]; cbn [app].
  - destruct b as [|d b]; cbn in *; [split; reflexivity|]. rewrite Hb. split; reflexivity.
  - cbn [forallb] in Ha. apply andb_prop in Ha as [Hc Ha]. cbn [takew dropw]. rewrite Hc.
    destruct (IH Ha) as [-> ->]. split; reflexivity.
Qed.

Lemma span_hex_tw s : span_hex s = (takew is_hex_digit s, dropw is_hex_digit s).
Proof.
  induction s as [|c r IH]; cbn [span_hex takew dropw]; [reflexivity|].
  destruct (is_hex_digit c); [rewrite IH|]; reflexivity.
Qed.

Lemma skip_space_dw s : skip_space s = dropw is_space s.
Proof. induction s as [|c r IH]; cbn; [reflexivity|]. destruct (is_space c); [exact IH|reflexivity]. Qed.

Definition not_nl (c : Z) : bool := negb (c =? 10).
Lemma take_line_tw s : take_line s = takew not_nl s.
Proof.
  induction s as [|c r IH]; cbn [take_line takew]; [reflexivity|]. unfold not_nl.
  destruct (c =? 10); cbn [negb]; [|rewrite IH]; reflexivity.
Qed.

Lemma firstn_app_sub {A} (a b : list A) : firstn (length (a ++ b) - length b) (a ++ b) = a.
Proof.
  rewrite app_length. replace (length a + length b - length b)%nat with (length a + 0)%nat by lia.
  rewrite firstn_app_2. cbn. apply app_nil_r.
Qed.

Lemma firstn_run p c r : firstn (length (c :: r) - length (dropw p r)) (c :: r) = c :: takew p r.
Proof.
  rewrite <- (takew_dropw p r) at 1 3.
  change (c :: takew p r ++ dropw p r) with ((c :: takew p r) ++ dropw p r). apply firstn_app_sub.
Qed.

(** character facts *)
Lemma hex_not_space c : is_hex_digit c = true -> is_space c = false.
Proof. unfold is_hex_digit, is_space. lia. Qed.
Lemma hex_not_colon c : is_hex_digit c = true -> (c =? 58) = false.
Proof. unfold is_hex_digit. lia. Qed.
Lemma hex_not_eq c : is_hex_digit c = true -> (c =? 61) = false.
Proof. unfold is_hex_digit. lia. Qed.
Lemma space_not_eq c : is_space c = true -> (c =? 61) = false.
Proof. unfold is_space. lia. Qed.
Lemma space_not_colon c : is_space c = true -> (c =? 58) = false.
Proof. unfold is_space. lia. Qed.
Lemma space_not_hex c : is_space c = true -> is_hex_digit c = false.
Proof. unfold is_hex_digit, is_space. lia. Qed.
Lemma dec_is_hex c : is_dec_digit c = true -> is_hex_digit c = true.
Proof. unfold is_hex_digit, is_dec_digit. lia. Qed.

(** * 1. A backtracking matcher for the fragment of [re] the table line uses *)

Inductive rx :=
| RChar (p : Z -> bool)          (* one character of a class *)
| RStar (p : Z -> bool)          (* class*, greedy *)
| RSeq (a b : rx)
| ROpt (a : rx)                  (* (?:a)?, greedy *)
| RGroup (n : nat) (a : rx).     (* capturing group number n *)

Definition env := list (nat * str).
Fixpoint group (e : env) (n : nat) : option str :=
  match e with
  | [] => None
  | (m, v) :: r => if Nat.eqb m n then Some v else group r n
  end.

(** greedy star: as many as possible first, then one less, ... *)
Fixpoint star_bt {A} (p : Z -> bool) (s : str) (k : str -> option A) : option A :=
  match s with
  | c :: r => if p c then match star_bt p r k with Some x => Some x | None => k s end else k s
  | [] => k s
  end.

(** continuation-passing backtracking: [k] is the rest of the expression; the first success in
    priority order wins; a group is recorded when its body has matched, and forgotten again when
    the continuation fails (the environment is passed, not mutated). *)
Fixpoint bt {A} (r : rx) (s : str) (e : env) (k : str -> env -> option A) : option A :=
  match r with
  | RChar p => match s with c :: s' => if p c then k s' e else None | [] => None end
  | RStar p => star_bt p s (fun s' => k s' e)
  | RSeq a b => bt a s e (fun s1 e1 => bt b s1 e1 k)
  | ROpt a => match bt a s e k with Some x => Some x | None => k s e end
  | RGroup n a => bt a s e (fun s1 e1 => k s1 ((n, firstn (length s - length s1) s) :: e1))
  end.

(** [re.match]: anchored at the start, not at the end *)
Definition re_match (r : rx) (s : str) : option env := bt r s [] (fun _ e => Some e).

Definition is_c (x c : Z) : bool := c =? x.
Definition hexplus : rx := RSeq (RChar is_hex_digit) (RStar is_hex_digit).
Definition rx_text : rx := RGroup 2 (RSeq (RChar not_nl) (RStar not_nl)).
Definition rx_tail : rx := RSeq (RStar is_space) (RSeq (RChar (is_c 61)) rx_text).
Definition rx_ignore : rx := RSeq (RChar (is_c 58)) (RGroup 1 hexplus).
Definition rx_rest : rx := RSeq (ROpt rx_ignore) rx_tail.
(** (?P<byte>[0-9a-fA-F]+)(?::(?P<ignore>[0-9a-fA-F]+))?\s*=(?P<text>[^\n]+)  with groups 0, 1, 2 *)
Definition table_line_rx : rx := RSeq (RGroup 0 hexplus) rx_rest.

Definition groups_of (o : option env) : option (str * option str * str) :=
  match o with
  | None => None
  | Some e => match group e 0, group e 2 with
              | Some b, Some t => Some (b, group e 1, t)
              | _, _ => None
              end
  end.

(** the greedy star returns what its continuation says at the maximal run, when that succeeds *)
Lemma star_bt_max_some {A} p s (k : str -> option A) x : k (dropw p s) = Some x -> star_bt p s k = Some x.
Proof.
  induction s as [|c r IH]; cbn [star_bt dropw]; [auto|].
  destruct (p c); [|auto]. intros H. rewrite (IH H). reflexivity.
Qed.
(** ... and also when it fails, provided it fails after every shorter run as well *)
Lemma star_bt_max {A} p s (k : str -> option A) :
  (forall c r, p c = true -> k (c :: r) = None) -> star_bt p s k = k (dropw p s).
Proof.
  intros Hk. induction s as [|c r IH]; cbn [star_bt dropw]; [reflexivity|].
  destruct (p c) eqn:E; [|reflexivity]. rewrite IH.
  destruct (k (dropw p r)) eqn:Ek; [reflexivity|]. apply Hk. exact E.
Qed.

Definition K0 : str -> env -> option env := fun _ e => Some e.

Lemma bt_text s e :
  bt rx_text s e K0 = match takew not_nl s with [] => None | t => Some ((2%nat, t) :: e) end.
Proof.
  unfold rx_text. cbn [bt]. destruct s as [|c r]; [reflexivity|]. cbn [takew].
  destruct (not_nl c); [|reflexivity].
  erewrite star_bt_max_some; [|unfold K0; reflexivity]. rewrite firstn_run. reflexivity.
Qed.

Lemma bt_tail s e :
  bt rx_tail s e K0 =
  match dropw is_space s with
  | c :: r => if c =? 61 then match takew not_nl r with [] => None | t => Some ((2%nat, t) :: e) end else None
  | [] => None
  end.
Proof.
  unfold rx_tail. cbn [bt]. rewrite star_bt_max.
  - destruct (dropw is_space s) as [|c r]; [reflexivity|]. unfold is_c.
    destruct (c =? 61); [|reflexivity]. apply bt_text.
  - intros c r Hc. unfold is_c. rewrite (space_not_eq _ Hc). reflexivity.
Qed.

Lemma tail_groups b ig s e : group e 0 = Some b -> group e 1 = ig ->
  groups_of (bt rx_tail s e K0) = match_tail b ig s.
Proof.
  intros H0 H1. rewrite bt_tail. unfold match_tail. rewrite skip_space_dw.
  destruct (dropw is_space s) as [|c r]; [reflexivity|].
  destruct (c =? 61); [|reflexivity]. rewrite take_line_tw.
  destruct (takew not_nl r) as [|t0 t]; [reflexivity|].
  cbn [groups_of group Nat.eqb]. rewrite H0, H1. reflexivity.
Qed.

Lemma tail_fails_hex c r e : is_hex_digit c = true -> bt rx_tail (c :: r) e K0 = None.
Proof.
  intros H. rewrite bt_tail. cbn [dropw]. rewrite (hex_not_space _ H), (hex_not_eq _ H). reflexivity.
Qed.
Lemma tail_fails_colon c r e : (c =? 58) = true -> bt rx_tail (c :: r) e K0 = None.
Proof.
  intros H. rewrite bt_tail. cbn [dropw].
  destruct (is_space c) eqn:Es; [rewrite (space_not_colon _ Es) in H; discriminate|].
  replace (c =? 61) with false by lia. reflexivity.
Qed.

Lemma rest_fails_hex c r e : is_hex_digit c = true -> bt rx_rest (c :: r) e K0 = None.
Proof.
  intros H. unfold rx_rest, rx_ignore. cbn [bt]. unfold is_c at 1. rewrite (hex_not_colon _ H).
  apply tail_fails_hex. exact H.
Qed.

Lemma bt_hexplus_group {A} n s e (k : str -> env -> option A) :
  (forall c r e', is_hex_digit c = true -> k (c :: r) e' = None) ->
  bt (RGroup n hexplus) s e k =
  match takew is_hex_digit s with [] => None | h => k (dropw is_hex_digit s) ((n, h) :: e) end.
Proof.
  intros Hk. unfold hexplus. cbn [bt]. destruct s as [|c r]; [reflexivity|]. cbn [takew dropw].
  destruct (is_hex_digit c); [|reflexivity].
  rewrite star_bt_max; [rewrite firstn_run; reflexivity|].
  intros d r' Hd. apply Hk. exact Hd.
Qed.

(** The backtracking matcher on the table line expression computes [match_table_line]. *)
Theorem match_deterministic line :
  groups_of (re_match table_line_rx line) = match_table_line line.
Proof.
  unfold re_match, table_line_rx, match_table_line. rewrite span_hex_tw.
  change (bt (RSeq (RGroup 0 hexplus) rx_rest) line [] (fun _ e => Some e))
    with (bt (RGroup 0 hexplus) line [] (fun s1 e1 => bt rx_rest s1 e1 K0)).
  rewrite bt_hexplus_group by (intros; apply rest_fails_hex; assumption).
  destruct (takew is_hex_digit line) as [|b0 b]; [reflexivity|].
  set (bb := b0 :: b). set (rest := dropw is_hex_digit line).
  unfold rx_rest. cbn [bt].
  change (fun (s1 : str) (e1 : env) => bt rx_tail s1 e1 (fun (_ : str) (e0 : env) => Some e0))
    with (fun (s1 : str) (e1 : env) => bt rx_tail s1 e1 K0).
  destruct rest as [|c r2].
  - unfold rx_ignore. cbn [bt]. apply (tail_groups bb None); reflexivity.
  - destruct (c =? 58) eqn:Ec.
    + unfold rx_ignore.
      change (bt (RSeq (RChar (is_c 58)) (RGroup 1 hexplus)) (c :: r2) [(0%nat, bb)] (fun s1 e1 => bt rx_tail s1 e1 K0))
        with (if is_c 58 c then bt (RGroup 1 hexplus) r2 [(0%nat, bb)] (fun s1 e1 => bt rx_tail s1 e1 K0) else None).
      unfold is_c. rewrite Ec.
      rewrite bt_hexplus_group by (intros; apply tail_fails_hex; assumption).
      rewrite span_hex_tw.
      destruct (takew is_hex_digit r2) as [|g0 g].
      * rewrite (tail_fails_colon _ _ _ Ec). reflexivity.
      * destruct (bt rx_tail (dropw is_hex_digit r2) [(1%nat, g0 :: g); (0%nat, bb)] K0) eqn:Et.
        -- rewrite <- Et. apply tail_groups; reflexivity.
        -- rewrite (tail_fails_colon _ _ _ Ec). rewrite <- Et. apply tail_groups; reflexivity.
    + unfold rx_ignore.
      change (bt (RSeq (RChar (is_c 58)) (RGroup 1 hexplus)) (c :: r2) [(0%nat, bb)] (fun s1 e1 => bt rx_tail s1 e1 K0))
        with (if is_c 58 c then bt (RGroup 1 hexplus) r2 [(0%nat, bb)] (fun s1 e1 => bt rx_tail s1 e1 K0) else None).
      unfold is_c. rewrite Ec. apply tail_groups; reflexivity.
Qed.

(** * Declarative matching: every way the expression can match a prefix *)

Inductive rm : rx -> str -> env -> str -> env -> Prop :=
| rm_char p c s e : p c = true -> rm (RChar p) (c :: s) e s e
| rm_star0 p s e : rm (RStar p) s e s e
| rm_starS p c s s' e : p c = true -> rm (RStar p) s e s' e -> rm (RStar p) (c :: s) e s' e
| rm_seq a b s e s1 e1 s2 e2 : rm a s e s1 e1 -> rm b s1 e1 s2 e2 -> rm (RSeq a b) s e s2 e2
| rm_opt_yes a s e s' e' : rm a s e s' e' -> rm (ROpt a) s e s' e'
| rm_opt_no a s e : rm (ROpt a) s e s e
| rm_group n a s e s' e' : rm a s e s' e' ->
    rm (RGroup n a) s e s' ((n, firstn (length s - length s') s) :: e').

Lemma star_bt_sound {A} p s e (k : str -> option A) x :
  star_bt p s k = Some x -> exists s', rm (RStar p) s e s' e /\ k s' = Some x.
Proof.
  induction s as [|c r IH]; cbn [star_bt]; intros H.
  - exists []. split; [constructor|exact H].
  - destruct (p c) eqn:E.
    + destruct (star_bt p r k) as [y|] eqn:Er.
      * injection H as ->. destruct (IH eq_refl) as (s' & Hm & Hk). exists s'. split; [constructor; assumption|exact Hk].
      * exists (c :: r). split; [constructor|exact H].
    + exists (c :: r). split; [constructor|exact H].
Qed.

(** the search only finds declarative matches ... *)
Lemma bt_sound {A} r : forall s e (k : str -> env -> option A) x,
  bt r s e k = Some x -> exists s' e', rm r s e s' e' /\ k s' e' = Some x.
Proof.
  induction r as [p|p|a IHa b IHb|a IHa|n a IHa]; intros s e k x H; cbn [bt] in H.
  - destruct s as [|c s']; [discriminate|]. destruct (p c) eqn:E; [|discriminate].
    exists s', e. split; [constructor; exact E|exact H].
  - destruct (star_bt_sound p s e _ x H) as (s' & Hm & Hk). exists s', e. split; assumption.
  - destruct (IHa _ _ _ _ H) as (s1 & e1 & Hm1 & H1). destruct (IHb _ _ _ _ H1) as (s2 & e2 & Hm2 & H2).
    exists s2, e2. split; [econstructor; eassumption|exact H2].
  - destruct (bt a s e k) as [y|] eqn:Ea.
    + injection H as ->. destruct (IHa _ _ _ _ Ea) as (s' & e' & Hm & Hk).
      exists s', e'. split; [apply rm_opt_yes; exact Hm|exact Hk].
    + exists s, e. split; [apply rm_opt_no|exact H].
  - destruct (IHa _ _ _ _ H) as (s' & e' & Hm & Hk).
    eexists s', _. split; [apply rm_group; exact Hm|exact Hk].
Qed.

Lemma star_bt_ge {A} p s (k : str -> option A) : k s <> None -> star_bt p s k <> None.
Proof.
  intros H. destruct s as [|c r]; cbn [star_bt]; [exact H|].
  destruct (p c); [|exact H]. destruct (star_bt p r k); [discriminate|exact H].
Qed.

(** ... and finds one whenever one exists whose continuation succeeds *)
Lemma bt_complete r s e s' e' : rm r s e s' e' ->
  forall A (k : str -> env -> option A), k s' e' <> None -> bt r s e k <> None.
Proof.
  induction 1 as [p c s e Hp|p s e|p c s s' e Hp Hm IH|a b s e s1 e1 s2 e2 H1 IH1 H2 IH2
                 |a s e s' e' Hm IH|a s e|n a s e s' e' Hm IH]; intros A k Hk; cbn [bt].
  - rewrite Hp. exact Hk.
  - apply star_bt_ge. exact Hk.
  - cbn [star_bt]. rewrite Hp. specialize (IH A k Hk). cbn [bt] in IH.
    destruct (star_bt p s (fun s'0 => k s'0 e)); [discriminate|contradiction].
  - apply IH1. apply IH2. exact Hk.
  - specialize (IH A k Hk). destruct (bt a s e k); [discriminate|contradiction].
  - destruct (bt a s e k); [discriminate|exact Hk].
  - apply IH. exact Hk.
Qed.

Lemma re_match_some r s e' : re_match r s = Some e' -> exists s', rm r s [] s' e'.
Proof.
  unfold re_match. intros H. destruct (bt_sound _ _ _ _ _ H) as (s' & e1 & Hm & Hk).
  injection Hk as ->. exists s'. exact Hm.
Qed.
Lemma re_match_none r s : re_match r s = None -> forall s' e', ~ rm r s [] s' e'.
Proof.
  unfold re_match. intros H s' e' Hm.
  apply (bt_complete _ _ _ _ _ Hm env (fun _ e => Some e)); [discriminate|exact H].
Qed.

(** inversion *)
Lemma rm_char_inv p s e s' e' : rm (RChar p) s e s' e' -> exists c, s = c :: s' /\ p c = true /\ e' = e.
Proof. inversion 1; subst. eexists; repeat split; assumption. Qed.
Lemma rm_seq_inv a b s e s2 e2 : rm (RSeq a b) s e s2 e2 ->
  exists s1 e1, rm a s e s1 e1 /\ rm b s1 e1 s2 e2.
Proof. inversion 1; subst. eexists _, _. split; eassumption. Qed.
Lemma rm_opt_inv a s e s' e' : rm (ROpt a) s e s' e' -> rm a s e s' e' \/ (s' = s /\ e' = e).
Proof. inversion 1; subst; [left; assumption|right; split; reflexivity]. Qed.
Lemma rm_group_inv n a s e s' e' : rm (RGroup n a) s e s' e' ->
  exists e1, rm a s e s' e1 /\ e' = (n, firstn (length s - length s') s) :: e1.
Proof. inversion 1; subst. eexists. split; [eassumption|reflexivity]. Qed.
Lemma rm_star_inv p s e s' e' : rm (RStar p) s e s' e' ->
  e' = e /\ exists ds, s = ds ++ s' /\ forallb p ds = true.
Proof.
  intros H. remember (RStar p) as r eqn:Er. induction H; try discriminate; injection Er as ->.
  - split; [reflexivity|]. exists []. split; reflexivity.
  - destruct (IHrm eq_refl) as (_ & ds & -> & Hds). split; [reflexivity|].
    exists (c :: ds). split; [reflexivity|]. cbn [forallb]. rewrite H, Hds. reflexivity.
Qed.

Lemma rm_plus_inv p s e s' e' : rm (RSeq (RChar p) (RStar p)) s e s' e' ->
  e' = e /\ exists d ds, s = (d :: ds) ++ s' /\ forallb p (d :: ds) = true.
Proof.
  intros H. apply rm_seq_inv in H as (s1 & e1 & H1 & H2).
  apply rm_char_inv in H1 as (c & -> & Hc & ->). apply rm_star_inv in H2 as (-> & ds & -> & Hds).
  split; [reflexivity|]. exists c, ds. split; [reflexivity|]. cbn [forallb]. rewrite Hc, Hds. reflexivity.
Qed.

Lemma takew_app_all p a b : forallb p a = true -> takew p (a ++ b) = a ++ takew p b.
Proof.
  induction a as [|c a IH]; cbn [app forallb takew]; [reflexivity|]. intros H.
  apply andb_prop in H as [Hc Ha]. rewrite Hc, (IH Ha). reflexivity.
Qed.

(** what a match of the tail looks like: blanks, '=', a non-empty text without newline *)
Lemma rm_tail_inv s e s' e' : rm rx_tail s e s' e' ->
  exists sp t, s = sp ++ 61 :: t ++ s' /\ forallb is_space sp = true /\ t <> [] /\
               forallb not_nl t = true /\ e' = (2%nat, t) :: e.
Proof.
  unfold rx_tail, rx_text. intros H.
  apply rm_seq_inv in H as (s1 & e1 & H1 & H2). apply rm_star_inv in H1 as (-> & sp & -> & Hsp).
  apply rm_seq_inv in H2 as (s2 & e2 & H2 & H3). apply rm_char_inv in H2 as (c & -> & Hc & ->).
  unfold is_c in Hc. apply Z.eqb_eq in Hc. subst c.
  apply rm_group_inv in H3 as (e3 & H3 & ->). apply rm_plus_inv in H3 as (-> & d & ds & -> & Hd).
  exists sp, (d :: ds). rewrite firstn_app_sub. repeat split; try assumption. discriminate.
Qed.

Lemma tail_head_not_hex s e s' e' : rm rx_tail s e s' e' -> head_fails is_hex_digit s.
Proof.
  intros H. apply rm_tail_inv in H as (sp & t & -> & Hsp & _).
  destruct sp as [|c sp]; cbn [app head_fails]; [reflexivity|].
  cbn [forallb] in Hsp. apply andb_prop in Hsp as [Hc _]. apply space_not_hex. exact Hc.
Qed.

Lemma match_tail_of_rm b ig s e s' e' : rm rx_tail s e s' e' ->
  exists t u, e' = (2%nat, t) :: e /\ t <> [] /\ match_tail b ig s = Some (b, ig, t ++ u).
Proof.
  intros H. apply rm_tail_inv in H as (sp & t & -> & Hsp & Hne & Ht & ->).
  exists t, (takew not_nl s'). repeat split; [assumption|].
  unfold match_tail. rewrite skip_space_dw.
  destruct (tw_app is_space sp (61 :: t ++ s') Hsp eq_refl) as [_ ->].
  cbn [Z.eqb Pos.eqb]. rewrite take_line_tw, (takew_app_all _ _ _ Ht).
  destruct t as [|t0 t]; [contradiction|reflexivity].
Qed.

(** Every declarative match of the line expression — however the alternatives are explored — has
    the [byte] and [ignore] groups of [match_table_line]; its [text] is a non-empty prefix of the
    model's (greedy = the whole rest of the line). *)
Theorem match_unique_groups line s' e' : rm table_line_rx line [] s' e' ->
  exists b ig t, match_table_line line = Some (b, ig, t) /\
    group e' 0 = Some b /\ group e' 1 = ig /\
    exists t' u, group e' 2 = Some t' /\ t' <> [] /\ t = t' ++ u.
Proof.
  unfold table_line_rx, rx_rest. intros H.
  apply rm_seq_inv in H as (s1 & e1 & H1 & H2).
  apply rm_group_inv in H1 as (e0 & H1 & ->). apply rm_plus_inv in H1 as (-> & d & ds & -> & Hh).
  rewrite firstn_app_sub in H2.
  apply rm_seq_inv in H2 as (s2 & e2 & H2 & H3).
  unfold match_table_line. rewrite span_hex_tw.
  apply rm_opt_inv in H2 as [H2|[-> ->]].
  - unfold rx_ignore in H2. apply rm_seq_inv in H2 as (s3 & e3 & H2 & H4).
    apply rm_char_inv in H2 as (c & -> & Hc & ->). unfold is_c in Hc.
    apply rm_group_inv in H4 as (e4 & H4 & ->). apply rm_plus_inv in H4 as (-> & g0 & g & -> & Hg).
    rewrite firstn_app_sub in H3.
    assert (Hc' : is_hex_digit c = false) by (unfold is_hex_digit; lia).
    destruct (tw_app is_hex_digit (d :: ds) (c :: (g0 :: g) ++ s2) Hh Hc') as [-> ->].
    rewrite Hc, span_hex_tw.
    destruct (tw_app is_hex_digit (g0 :: g) s2 Hg (tail_head_not_hex _ _ _ _ H3)) as [-> ->].
    cbv beta iota.
    destruct (match_tail_of_rm (d :: ds) (Some (g0 :: g)) _ _ _ _ H3) as (t & u & -> & Hne & Hmt).
    exists (d :: ds), (Some (g0 :: g)), (t ++ u). split; [exact Hmt|].
    repeat split. exists t, u. repeat split. exact Hne.
  - pose proof (tail_head_not_hex _ _ _ _ H3) as Hhd.
    destruct (tw_app is_hex_digit (d :: ds) s1 Hh Hhd) as [-> ->].
    destruct (match_tail_of_rm (d :: ds) None _ _ _ _ H3) as (t & u & -> & Hne & Hmt).
    exists (d :: ds), None, (t ++ u). split.
    + destruct s1 as [|c r2]; [discriminate Hmt|].
      destruct (c =? 58) eqn:Ec; [|exact Hmt].
      exfalso. apply rm_tail_inv in H3 as (sp & t1 & Hs & Hsp & _).
      destruct sp as [|c1 sp]; cbn [app] in Hs; injection Hs as -> _; [lia|].
      cbn [forallb] in Hsp. apply andb_prop in Hsp as [Hc1 _]. rewrite (space_not_colon _ Hc1) in Ec. discriminate.
    + repeat split. exists t, u. repeat split. exact Hne.
Qed.

(** so: a declarative match exists iff the model matches, and the backtracking search finds it *)
Theorem match_exists_iff line :
  (exists s' e', rm table_line_rx line [] s' e') <-> match_table_line line <> None.
Proof.
  split.
  - intros (s' & e' & H). destruct (match_unique_groups _ _ _ H) as (b & ig & t & -> & _). discriminate.
  - intros H. rewrite <- match_deterministic in H.
    destruct (re_match table_line_rx line) as [e'|] eqn:E; [|contradiction H; reflexivity].
    destruct (re_match_some _ _ _ E) as (s' & Hm). exists s', e'. exact Hm.
Qed.

(** * 2. Round trip *)

Ltac Zify.zify_post_hook ::= Z.to_euclidean_division_equations.

Lemma forallb_impl {A} (p q : A -> bool) l :
  (forall x, p x = true -> q x = true) -> forallb p l = true -> forallb q l = true.
Proof.
  intros H. induction l as [|x l IH]; cbn [forallb]; [reflexivity|]. intros Hl.
  apply andb_prop in Hl as [Hx Hl]. rewrite (H _ Hx), (IH Hl). reflexivity.
Qed.

Lemma mem_z_forallb c l : negb (mem_z c l) = forallb (fun x => negb (x =? c)) l.
Proof.
  unfold mem_z. induction l as [|x l IH]; cbn [existsb forallb]; [reflexivity|].
  rewrite negb_orb, IH, (Z.eqb_sym c x). reflexivity.
Qed.

(** ** hex digits *)
Lemma hex_digit_char_hex up d : 0 <= d < 16 -> is_hex_digit (hex_digit_char up d) = true.
Proof. unfold hex_digit_char, is_hex_digit. intros H. destruct (d <? 10) eqn:E; [lia|]. destruct up; lia. Qed.

Lemma hex_digit_char_value up d : 0 <= d < 16 -> hex_digit_value (hex_digit_char up d) = d.
Proof.
  unfold hex_digit_char, hex_digit_value. intros H.
  destruct (d <? 10) eqn:E.
  - destruct (48 + d <=? 57) eqn:E1; lia.
  - destruct up.
    + destruct (55 + d <=? 57) eqn:E1; [lia|]. destruct (55 + d <=? 70) eqn:E2; lia.
    + destruct (87 + d <=? 57) eqn:E1; [lia|]. destruct (87 + d <=? 70) eqn:E2; lia.
Qed.

Lemma byte_nibbles b : byte_ok b = true -> 0 <= b / 16 < 16 /\ 0 <= b mod 16 < 16 /\ b / 16 * 16 + b mod 16 = b.
Proof. unfold byte_ok. lia. Qed.

Lemma render_hex_all code : forall ups, forallb byte_ok code = true ->
  forallb is_hex_digit (render_hex ups code) = true.
Proof.
  induction code as [|b r IH]; intros ups H; cbn [render_hex forallb]; [reflexivity|].
  cbn [forallb] in H. apply andb_prop in H as [Hb Hr]. destruct (byte_nibbles _ Hb) as (H1 & H2 & _).
  rewrite !hex_digit_char_hex by assumption. rewrite (IH _ Hr). reflexivity.
Qed.

Lemma hex_pairs_render code : forall ups, forallb byte_ok code = true ->
  hex_pairs (render_hex ups code) = Ok code.
Proof.
  induction code as [|b r IH]; intros ups H; cbn [render_hex hex_pairs]; [reflexivity|].
  cbn [forallb] in H. apply andb_prop in H as [Hb Hr]. destruct (byte_nibbles _ Hb) as (H1 & H2 & H3).
  rewrite (IH _ Hr). cbn [bind]. rewrite !hex_digit_char_value by assumption. rewrite H3. reflexivity.
Qed.

Lemma render_hex_nonempty ups code : code <> [] -> render_hex ups code <> [].
Proof. destruct code; [contradiction|]. cbn [render_hex]. discriminate. Qed.

(** ** escape / unescape *)
Lemma escape_no_nl t : forallb not_nl (escape t) = true.
Proof.
  induction t as [|c r IH]; cbn [escape]; [reflexivity|]. destruct (c =? 10) eqn:E; cbn [forallb].
  - rewrite IH. reflexivity.
  - unfold not_nl at 1. rewrite E, IH. reflexivity.
Qed.

Lemma escape_nonempty t : t <> [] -> escape t <> [].
Proof. destruct t as [|c r]; [contradiction|]. cbn [escape]. destruct (c =? 10); discriminate. Qed.

Lemma no_bs_n_tail a r : no_bs_n (a :: r) = true -> no_bs_n r = true.
Proof. cbn [no_bs_n]. destruct r as [|b r']; [reflexivity|]. intros H. apply andb_prop in H as [_ H]. exact H. Qed.

Lemma unescape_escape t : no_bs_n t = true -> unescape (escape t) = t.
Proof.
  induction t as [|a r IH]; intros H; [reflexivity|].
  pose proof (IH (no_bs_n_tail _ _ H)) as IH'. cbn [escape].
  destruct (a =? 10) eqn:Ea.
  - apply Z.eqb_eq in Ea. subst a. cbn [unescape Z.eqb Pos.eqb andb]. rewrite IH'. reflexivity.
  - cbn [unescape]. destruct r as [|c r1].
    + reflexivity.
    + cbn [no_bs_n] in H. apply andb_prop in H as [Hac _].
      cbn [escape] in *. destruct (c =? 10) eqn:Ec.
      * replace ((a =? 92) && (92 =? 110)) with false by (rewrite andb_false_r; reflexivity).
        rewrite IH'. reflexivity.
      * apply negb_true_iff in Hac. rewrite Hac, IH'. reflexivity.
Qed.

Lemma list_ind2 {A} (P : list A -> Prop) :
  P [] -> (forall a, P [a]) -> (forall a b r, P r -> P (a :: b :: r)) -> forall l, P l.
Proof.
  intros H0 H1 H2 l. enough (P l /\ forall a, P (a :: l)) by tauto.
  induction l as [|x l [IH1 IH2]]; [split; [exact H0|exact H1]|].
  split; [apply IH2|]. intros a. apply H2. exact IH1.
Qed.

Lemma unescape_head b r : exists h rest, unescape (b :: r) = h :: rest /\ (h = b \/ (h = 10 /\ b = 92)).
Proof.
  cbn [unescape]. destruct r as [|c r']; [eexists _, _; split; [reflexivity|left; reflexivity]|].
  destruct ((b =? 92) && (c =? 110)) eqn:E.
  - eexists _, _. split; [reflexivity|]. right. split; [reflexivity|lia].
  - eexists _, _. split; [reflexivity|]. left. reflexivity.
Qed.

Lemma no_bs_n_cons2 a b r : no_bs_n (a :: b :: r) = negb ((a =? 92) && (b =? 110)) && no_bs_n (b :: r).
Proof. reflexivity. Qed.

(** [str.replace] leaves no backslash-n behind *)
Lemma unescape_no_bs_n_len n : forall s, (length s <= n)%nat -> no_bs_n (unescape s) = true.
Proof.
  induction n as [|n IH]; intros s Hl.
  - destruct s; [reflexivity|cbn [length] in Hl; lia].
  - destruct s as [|a [|b r]]; [reflexivity|reflexivity|].
    change (unescape (a :: b :: r)) with (if (a =? 92) && (b =? 110) then 10 :: unescape r else a :: unescape (b :: r)).
    cbn [length] in Hl.
    destruct ((a =? 92) && (b =? 110)) eqn:E.
    + assert (Hr : no_bs_n (unescape r) = true) by (apply IH; lia).
      cbn [no_bs_n]. destruct (unescape r) as [|h rest]; [reflexivity|]. rewrite Hr. reflexivity.
    + assert (Hr : no_bs_n (unescape (b :: r)) = true) by (apply IH; cbn [length]; lia).
      destruct (unescape_head b r) as (h & rest & Hu & Hh). rewrite Hu in *.
      rewrite no_bs_n_cons2, Hr, andb_true_r.
      destruct Hh as [->|[-> _]]; [rewrite E; reflexivity|].
      rewrite andb_false_r. reflexivity.
Qed.
Lemma unescape_no_bs_n s : no_bs_n (unescape s) = true.
Proof. apply (unescape_no_bs_n_len (length s)). lia. Qed.

(** the exact condition for a text to survive being written and read back *)
Theorem unescape_escape_iff t : unescape (escape t) = t <-> no_bs_n t = true.
Proof. split; [intros <-; apply unescape_no_bs_n|apply unescape_escape]. Qed.

(** ** one line *)

Lemma match_tail_shape b ig bl txt tail :
  forallb is_space bl = true -> txt <> [] -> forallb not_nl txt = true -> head_fails not_nl tail ->
  match_tail b ig (bl ++ 61 :: txt ++ tail) = Some (b, ig, txt).
Proof.
  intros Hbl Hne Htxt Htail. unfold match_tail. rewrite skip_space_dw.
  destruct (tw_app is_space bl (61 :: txt ++ tail) Hbl eq_refl) as [_ ->].
  cbn [Z.eqb Pos.eqb]. rewrite take_line_tw.
  destruct (tw_app not_nl txt tail Htxt Htail) as [-> _].
  destruct txt; [contradiction|reflexivity].
Qed.

Definition ignore_chars (ig : option str) : str := match ig with Some ds => 58 :: ds | None => [] end.
Definition ignore_shape (ig : option str) : Prop :=
  match ig with Some ds => ds <> [] /\ forallb is_hex_digit ds = true | None => True end.

(** every line of the shape  hex+ [: hex+] blanks = text  matches, with exactly these groups *)
Lemma match_shape h ig bl txt tail :
  h <> [] -> forallb is_hex_digit h = true -> ignore_shape ig ->
  forallb is_space bl = true -> txt <> [] -> forallb not_nl txt = true -> head_fails not_nl tail ->
  match_table_line (h ++ ignore_chars ig ++ bl ++ 61 :: txt ++ tail) = Some (h, ig, txt).
Proof.
  intros Hne Hh Hig Hbl Htne Htxt Htail. unfold match_table_line. rewrite span_hex_tw.
  assert (Hbhead : head_fails is_hex_digit (bl ++ 61 :: txt ++ tail)).
  { destruct bl as [|c bl]; cbn [app head_fails]; [reflexivity|].
    cbn [forallb] in Hbl. apply andb_prop in Hbl as [Hc _]. apply space_not_hex. exact Hc. }
  destruct ig as [ds|]; cbn [ignore_chars app].
  - destruct Hig as [Hdne Hds].
    destruct (tw_app is_hex_digit h (58 :: ds ++ bl ++ 61 :: txt ++ tail) Hh eq_refl) as [-> ->].
    destruct h as [|h0 h]; [contradiction|]. cbn [Z.eqb Pos.eqb]. rewrite span_hex_tw.
    destruct (tw_app is_hex_digit ds _ Hds Hbhead) as [-> ->].
    destruct ds as [|g0 g]; [contradiction|]. apply match_tail_shape; assumption.
  - destruct (tw_app is_hex_digit h _ Hh Hbhead) as [-> ->].
    destruct h as [|h0 h]; [contradiction|].
    destruct (bl ++ 61 :: txt ++ tail) as [|c r2] eqn:Er.
    + destruct bl; discriminate.
    + assert (Hc : (c =? 58) = false).
      { destruct bl as [|c1 bl]; cbn [app] in Er; injection Er as <- _; [reflexivity|].
        cbn [forallb] in Hbl. apply andb_prop in Hbl as [Hc1 _]. apply space_not_colon. exact Hc1. }
      rewrite Hc, <- Er. apply match_tail_shape; assumption.
Qed.

Lemma wf_line_parts w : wf_line w = true ->
  w_code w <> [] /\ forallb byte_ok (w_code w) = true /\ wf_ignore (w_ignore w) = true /\
  forallb is_space (w_blanks w) = true /\ w_text w <> [] /\ no_bs_n (w_text w) = true.
Proof.
  unfold wf_line. intros H. repeat (apply andb_prop in H as [H ?]).
  repeat split; try assumption.
  - destruct (w_code w); [discriminate|discriminate].
  - destruct (w_text w); [discriminate|discriminate].
Qed.

Lemma wf_ignore_shape ig : wf_ignore ig = true -> ignore_shape ig.
Proof.
  destruct ig as [ds|]; cbn [wf_ignore ignore_shape]; [|trivial]. intros H.
  apply andb_prop in H as [H _]. apply andb_prop in H as [Hne Hd]. split.
  - destruct ds; [discriminate|discriminate].
  - apply (forallb_impl _ _ _ dec_is_hex Hd).
Qed.

Lemma render_line_eq w tail :
  render_line w ++ tail =
  render_hex (w_upper w) (w_code w) ++ ignore_chars (w_ignore w) ++ w_blanks w ++ 61 :: escape (w_text w) ++ tail.
Proof. unfold render_line, ignore_chars. rewrite <- !app_assoc. reflexivity. Qed.

(** Theorem 1a: the groups of a rendered well-formed line ([tail] = nothing, or the line end and
    whatever follows) *)
Theorem render_line_match w tail : wf_line w = true -> head_fails not_nl tail ->
  match_table_line (render_line w ++ tail) =
  Some (render_hex (w_upper w) (w_code w), w_ignore w, escape (w_text w)).
Proof.
  intros Hwf Htail. destruct (wf_line_parts _ Hwf) as (Hc & Hb & Hi & Hbl & Ht & _).
  rewrite render_line_eq. apply match_shape; try assumption.
  - apply render_hex_nonempty. exact Hc.
  - apply render_hex_all. exact Hb.
  - apply wf_ignore_shape. exact Hi.
  - apply escape_nonempty. exact Ht.
  - apply escape_no_nl.
Qed.

Lemma int_dec_wf ds : wf_ignore (Some ds) = true -> int_dec ds = Ok (int10 ds).
Proof.
  cbn [wf_ignore]. intros H. apply andb_prop in H as [H Hl]. apply andb_prop in H as [_ Hd].
  unfold int_dec. rewrite Hd, Hl. reflexivity.
Qed.

Theorem render_line_parse w tail : wf_line w = true -> head_fails not_nl tail ->
  parse_line (render_line w ++ tail) = Ok (Some (entry_of w)).
Proof.
  intros Hwf Htail. unfold parse_line. rewrite (render_line_match _ _ Hwf Htail).
  destruct (wf_line_parts _ Hwf) as (_ & Hb & Hi & _ & _ & Hn).
  rewrite (hex_pairs_render _ _ Hb). cbn [bind]. rewrite (unescape_escape _ Hn). unfold entry_of.
  destruct (w_ignore w) as [ds|]; cbn [option_map]; [|reflexivity].
  rewrite (int_dec_wf _ Hi). reflexivity.
Qed.

(** Theorem 1b: [Table.parse_table_line] on a rendered line = the table update by its entry *)
Theorem render_line_roundtrip t w : wf_line w = true ->
  parse_table_line_text t (render_line w ++ [10]) = Ok (parse_table_line t (entry_of w)).
Proof.
  intros Hwf. unfold parse_table_line_text. rewrite (render_line_parse _ _ Hwf); reflexivity.
Qed.
Theorem render_line_roundtrip_no_newline t w : wf_line w = true ->
  parse_table_line_text t (render_line w) = Ok (parse_table_line t (entry_of w)).
Proof.
  intros Hwf. unfold parse_table_line_text. rewrite <- (app_nil_r (render_line w)).
  rewrite (render_line_parse _ _ Hwf); [reflexivity|exact I].
Qed.

(** ** whole files *)

Lemma not_nl_false c : not_nl c = true -> (c =? 10) = false.
Proof. unfold not_nl. destruct (c =? 10); [discriminate|reflexivity]. Qed.

Lemma split_lines_line l r : forallb not_nl l = true ->
  split_lines (l ++ 10 :: r) = (l ++ [10]) :: split_lines r.
Proof.
  induction l as [|c l IH]; intros H; cbn [app split_lines].
  - reflexivity.
  - cbn [forallb] in H. apply andb_prop in H as [Hc Hl]. rewrite (not_nl_false _ Hc), (IH Hl). reflexivity.
Qed.

Lemma split_lines_last l : l <> [] -> forallb not_nl l = true -> split_lines l = [l].
Proof.
  induction l as [|c l IH]; intros Hne H; [contradiction|].
  cbn [forallb] in H. apply andb_prop in H as [Hc Hl]. cbn [split_lines]. rewrite (not_nl_false _ Hc).
  destruct l as [|c' l']; [reflexivity|]. rewrite IH; [reflexivity|discriminate|exact Hl].
Qed.

(** [readlines] undoes the joining of newline-free lines *)
Theorem split_lines_concat ls rest : Forall (fun l => forallb not_nl l = true) ls ->
  split_lines (concat (map (fun l => l ++ [10]) ls) ++ rest) = map (fun l => l ++ [10]) ls ++ split_lines rest.
Proof.
  induction 1 as [|l ls Hl _ IH]; cbn [map concat app]; [reflexivity|].
  rewrite <- !app_assoc. cbn [app]. rewrite (split_lines_line _ _ Hl), IH. reflexivity.
Qed.

Lemma hex_not_nl c : is_hex_digit c = true -> not_nl c = true.
Proof. unfold is_hex_digit, not_nl. lia. Qed.

Lemma render_line_no_nl w : wf_file_line w = true -> forallb not_nl (render_line w) = true.
Proof.
  unfold wf_file_line. intros H. apply andb_prop in H as [Hwf Hbl].
  destruct (wf_line_parts _ Hwf) as (_ & Hb & Hi & _ & _ & _).
  unfold render_line. rewrite !forallb_app.
  rewrite (forallb_impl _ _ _ hex_not_nl (render_hex_all _ (w_upper w) Hb)).
  rewrite mem_z_forallb in Hbl. fold not_nl in Hbl.
  change (fun x : Z => negb (x =? 10)) with not_nl in Hbl. rewrite Hbl, escape_no_nl.
  cbn [forallb]. rewrite !andb_true_r.
  destruct (w_ignore w) as [ds|]; [|reflexivity].
  cbn [forallb]. change (not_nl 58) with true. cbn [andb].
  destruct (wf_ignore_shape _ Hi) as [_ Hds]. apply (forallb_impl _ _ _ hex_not_nl Hds).
Qed.

Lemma render_file_lines ws rest : forallb wf_file_line ws = true ->
  split_lines (render_file ws ++ rest) = map (fun w => render_line w ++ [10]) ws ++ split_lines rest.
Proof.
  intros H. unfold render_file.
  rewrite <- (map_map render_line (fun l => l ++ [10])). rewrite split_lines_concat; [reflexivity|].
  apply Forall_forall. intros l Hin. apply in_map_iff in Hin as (w & <- & Hw).
  apply render_line_no_nl. rewrite forallb_forall in H. apply H. exact Hw.
Qed.

Lemma wf_file_line_wf w : wf_file_line w = true -> wf_line w = true.
Proof. unfold wf_file_line. intros H. apply andb_prop in H as [H _]. exact H. Qed.

Lemma parse_lines_app a b : forall t,
  parse_lines t (a ++ b) = do t1 <- parse_lines t a; parse_lines t1 b.
Proof.
  induction a as [|l a IH]; intros t; cbn [app parse_lines]; [reflexivity|].
  destruct (parse_table_line_text t l); cbn [bind]; [apply IH|reflexivity|reflexivity].
Qed.

Lemma parse_lines_render ws : forall t, forallb wf_file_line ws = true ->
  parse_lines t (map (fun w => render_line w ++ [10]) ws) = Ok (fold_left parse_table_line (map entry_of ws) t).
Proof.
  induction ws as [|w ws IH]; intros t H; cbn [map parse_lines fold_left]; [reflexivity|].
  cbn [forallb] in H. apply andb_prop in H as [Hw Hws].
  rewrite (render_line_roundtrip _ _ (wf_file_line_wf _ Hw)). cbn [bind]. apply IH. exact Hws.
Qed.

(** Theorem 2: a file of well-formed lines loads to the table of its entries *)
Theorem file_roundtrip_include t ws : forallb wf_file_line ws = true ->
  include_text t (render_file ws) = include t (map entry_of ws).
Proof.
  intros H. unfold include_text. rewrite <- (app_nil_r (render_file ws)), (render_file_lines _ _ H).
  cbn [split_lines]. rewrite app_nil_r, (parse_lines_render _ _ H). reflexivity.
Qed.
Theorem file_roundtrip ws : forallb wf_file_line ws = true ->
  table_of_text (render_file ws) = table_of_entries (map entry_of ws).
Proof. apply file_roundtrip_include. Qed.

(** ... also when the last line has no line end *)
Theorem file_roundtrip_no_final_newline ws w : forallb wf_file_line ws = true -> wf_file_line w = true ->
  table_of_text (render_file ws ++ render_line w) = table_of_entries (map entry_of (ws ++ [w])).
Proof.
  intros H Hw. unfold table_of_text, include_text. rewrite (render_file_lines _ _ H).
  rewrite split_lines_last; [|destruct (wf_line_parts _ (wf_file_line_wf _ Hw)) as (Hc & _);
    unfold render_line; pose proof (render_hex_nonempty (w_upper w) _ Hc); destruct (render_hex (w_upper w) (w_code w)); [contradiction|discriminate]
    |apply render_line_no_nl; exact Hw].
  rewrite parse_lines_app, (parse_lines_render _ _ H). cbn [bind parse_lines].
  rewrite (render_line_roundtrip_no_newline _ _ (wf_file_line_wf _ Hw)). cbn [bind].
  unfold table_of_entries, include. rewrite map_app, fold_left_app. reflexivity.
Qed.

(** ** the factorisation through entries *)
Lemma parse_lines_entries ls : forall t,
  parse_lines t ls = do es <- entries_of_lines ls; Ok (fold_left parse_table_line es t).
Proof.
  induction ls as [|l r IH]; intros t; cbn [parse_lines entries_of_lines]; [reflexivity|].
  unfold parse_table_line_text. destruct (parse_line l) as [oe|k|]; cbn [bind]; [|reflexivity|reflexivity].
  rewrite IH. destruct (entries_of_lines r) as [es|k|]; cbn [bind]; [|reflexivity|reflexivity].
  destruct oe; reflexivity.
Qed.

(** loading a text = parsing its lines to entries, then Model/Table.v's [include] *)
Theorem include_text_factors t s : include_text t s = do es <- entries_of_text s; include t es.
Proof.
  unfold include_text, entries_of_text. rewrite parse_lines_entries.
  destruct (entries_of_lines (split_lines s)); reflexivity.
Qed.

(** ** the file on disk: universal newlines *)
Definition not_cr (c : Z) : bool := negb (c =? 13).

Lemma universal_newlines_id s : forallb not_cr s = true -> universal_newlines s = s.
Proof.
  induction s as [|c r IH]; intros H; [reflexivity|].
  cbn [forallb] in H. apply andb_prop in H as [Hc Hr]. cbn [universal_newlines].
  unfold not_cr in Hc. destruct (c =? 13); [discriminate|]. rewrite (IH Hr). reflexivity.
Qed.

Lemma hex_not_cr c : is_hex_digit c = true -> not_cr c = true.
Proof. unfold is_hex_digit, not_cr. lia. Qed.

Lemma escape_not_cr t : forallb not_cr t = true -> forallb not_cr (escape t) = true.
Proof.
  induction t as [|c r IH]; intros H; [reflexivity|]. cbn [forallb] in H. apply andb_prop in H as [Hc Hr].
  cbn [escape]. destruct (c =? 10); cbn [forallb]; rewrite (IH Hr); [reflexivity|]. rewrite Hc. reflexivity.
Qed.

Lemma wf_disk_line_file w : wf_disk_line w = true -> wf_file_line w = true.
Proof. unfold wf_disk_line. intros H. apply andb_prop in H as [H _]. apply andb_prop in H as [H _]. exact H. Qed.

Lemma render_line_no_cr w : wf_disk_line w = true -> forallb not_cr (render_line w) = true.
Proof.
  intros H. pose proof (wf_disk_line_file _ H) as Hf. unfold wf_disk_line in H.
  apply andb_prop in H as [H Ht]. apply andb_prop in H as [_ Hbl].
  destruct (wf_line_parts _ (wf_file_line_wf _ Hf)) as (_ & Hb & Hi & _ & _ & _).
  rewrite mem_z_forallb in Hbl, Ht.
  change (fun x : Z => negb (x =? 13)) with not_cr in Hbl, Ht.
  unfold render_line. rewrite !forallb_app.
  rewrite (forallb_impl _ _ _ hex_not_cr (render_hex_all _ (w_upper w) Hb)).
  rewrite Hbl, (escape_not_cr _ Ht). cbn [forallb]. rewrite !andb_true_r.
  destruct (w_ignore w) as [ds|]; [|reflexivity].
  cbn [forallb]. change (not_cr 58) with true. cbn [andb].
  destruct (wf_ignore_shape _ Hi) as [_ Hds]. apply (forallb_impl _ _ _ hex_not_cr Hds).
Qed.

Lemma forallb_concat {A} (p : A -> bool) ls : forallb (forallb p) ls = true -> forallb p (concat ls) = true.
Proof.
  induction ls as [|l ls IH]; cbn [forallb concat]; [reflexivity|]. intros H.
  apply andb_prop in H as [Hl Hls]. rewrite forallb_app, Hl, (IH Hls). reflexivity.
Qed.

Lemma render_file_no_cr ws : forallb wf_disk_line ws = true -> forallb not_cr (render_file ws) = true.
Proof.
  intros H. unfold render_file. apply forallb_concat. rewrite forallb_forall. intros l Hin.
  apply in_map_iff in Hin as (w & <- & Hw). rewrite forallb_app, render_line_no_cr; [reflexivity|].
  rewrite forallb_forall in H. apply H. exact Hw.
Qed.

(** Theorem 2 for the characters on disk *)
Theorem disk_roundtrip ws : forallb wf_disk_line ws = true ->
  table_of_file (render_file ws) = table_of_entries (map entry_of ws).
Proof.
  intros H. unfold table_of_file, include_file. rewrite (universal_newlines_id _ (render_file_no_cr _ H)).
  apply file_roundtrip_include. apply (forallb_impl _ _ _ wf_disk_line_file H).
Qed.

(** ** every entry has a line: str(k) *)
Lemma int10_snoc ds d : int10 (ds ++ [d]) = int10 ds * 10 + (d - 48).
Proof. unfold int10. rewrite fold_left_app. reflexivity. Qed.

Lemma dec_digits_aux_spec f : forall k acc, 0 <= k < 2 ^ Z.of_nat (S f) ->
  exists ds, dec_digits_aux (S f) k acc = ds ++ acc /\ int10 ds = k /\
             forallb is_dec_digit ds = true /\ ds <> [].
Proof.
  induction f as [|f IH]; intros k acc Hk.
  - cbn [dec_digits_aux]. change (2 ^ Z.of_nat 1) with 2 in Hk.
    destruct (k <? 10) eqn:E; [|lia]. exists [48 + k]. repeat split.
    + unfold int10. cbn [fold_left]. lia.
    + cbn [forallb]. unfold is_dec_digit. lia.
    + discriminate.
  - cbn [dec_digits_aux]. destruct (k <? 10) eqn:E.
    + exists [48 + k]. repeat split.
      * unfold int10. cbn [fold_left]. lia.
      * cbn [forallb]. unfold is_dec_digit. lia.
      * discriminate.
    + rewrite Nat2Z.inj_succ, Z.pow_succ_r in Hk by lia.
      assert (HP : 0 < 2 ^ Z.of_nat (S f)) by (apply Z.pow_pos_nonneg; lia).
      destruct (IH (k / 10) ((48 + k mod 10) :: acc)) as (ds & Hd & Hv & Ha & _); [lia|].
      exists (ds ++ [48 + k mod 10]). repeat split.
      * change (dec_digits_aux (S f) (k / 10) ((48 + k mod 10) :: acc)) with
          (dec_digits_aux (S f) (k / 10) ((48 + k mod 10) :: acc)) in Hd.
        cbn [dec_digits_aux] in Hd. rewrite Hd, <- app_assoc. reflexivity.
      * rewrite int10_snoc, Hv. lia.
      * rewrite forallb_app, Ha. cbn [forallb]. unfold is_dec_digit. lia.
      * destruct ds; discriminate.
Qed.

Theorem dec_digits_spec k : 0 <= k ->
  int10 (dec_digits k) = k /\ forallb is_dec_digit (dec_digits k) = true /\ dec_digits k <> [].
Proof.
  intros Hk. unfold dec_digits.
  destruct (dec_digits_aux_spec (Z.to_nat (Z.log2 k)) k []) as (ds & Hd & Hv & Ha & Hne).
  - rewrite Nat2Z.inj_succ, Z2Nat.id by apply Z.log2_nonneg.
    destruct (Z.eq_dec k 0) as [->|Hnz]; [cbn; lia|].
    destruct (Z.log2_spec k) as [_ H]; lia.
  - rewrite Hd, app_nil_r. repeat split; assumption.
Qed.

Lemma canonical_line_ok e : wf_entry e = true ->
  wf_disk_line (canonical_line e) = true /\ entry_of (canonical_line e) = e.
Proof.
  destruct e as [[text code] ig]. unfold wf_entry, e_code, e_text, e_ignore. cbn [fst snd]. intros H.
  apply andb_prop in H as [H Hcr]. apply andb_prop in H as [H Hbs]. apply andb_prop in H as [H Htn].
  apply andb_prop in H as [H Hig]. apply andb_prop in H as [Hcn Hcb].
  assert (Hi : wf_ignore (option_map dec_digits ig) = true /\ option_map int10 (option_map dec_digits ig) = ig).
  { destruct ig as [k|]; cbn [option_map wf_ignore]; [|split; reflexivity].
    apply andb_prop in Hig as [Hk Hl]. apply Z.leb_le in Hk.
    destruct (dec_digits_spec k Hk) as (Hv & Ha & Hne). rewrite Ha, Hl, Hv.
    destruct (dec_digits k); [contradiction|]. split; reflexivity. }
  destruct Hi as [Hi1 Hi2].
  unfold wf_disk_line, wf_file_line, wf_line, canonical_line, entry_of, e_code, e_text, e_ignore.
  cbn [fst snd w_code w_upper w_ignore w_blanks w_text forallb].
  rewrite Hcn, Hcb, Htn, Hbs, Hcr, Hi1, Hi2. split; reflexivity.
Qed.

(** Theorem 2 for entries: writing the entries out canonically and loading the file gives
    [table_of_entries] — the C18 theorems about [table_of_entries] speak about table files. *)
Theorem entries_roundtrip es : forallb wf_entry es = true ->
  table_of_file (render_file (map canonical_line es)) = table_of_entries es.
Proof.
  intros H. rewrite disk_roundtrip.
  - f_equal. rewrite map_map. rewrite <- (map_id es) at 2. apply map_ext_in. intros e He.
    rewrite forallb_forall in H. apply (canonical_line_ok e (H _ He)).
  - rewrite forallb_forall. intros w Hin. apply in_map_iff in Hin as (e & <- & He).
    rewrite forallb_forall in H. apply (canonical_line_ok e (H _ He)).
Qed.

(** * 3. Rejections *)

(** a line that does not begin with a hex digit (empty, blank-led, comment ...) is ignored *)
Theorem reject_not_hex t line : head_fails is_hex_digit line ->
  match_table_line line = None /\ parse_table_line_text t line = Ok t.
Proof.
  intros H. assert (Hm : match_table_line line = None).
  { unfold match_table_line. destruct line as [|c r]; [reflexivity|]. cbn [head_fails] in H.
    cbn [span_hex]. rewrite H. reflexivity. }
  split; [exact Hm|]. unfold parse_table_line_text, parse_line. rewrite Hm. reflexivity.
Qed.

Theorem reject_blank t c r : is_space c = true -> parse_table_line_text t (c :: r) = Ok t.
Proof. intros H. apply reject_not_hex. cbn [head_fails]. apply space_not_hex. exact H. Qed.

(** transform_byte_matches_to_int: ValueError exactly for an odd number of digits *)
Lemma hex_pairs_parity b :
  (Nat.odd (length b) = true -> hex_pairs b = Err EValue) /\
  (Nat.odd (length b) = false -> exists code, hex_pairs b = Ok code /\ (2 * length code = length b)%nat).
Proof.
  induction b as [|a|a c r [IH1 IH2]] using list_ind2.
  - split; [discriminate|]. intros _. exists []. split; reflexivity.
  - split; [reflexivity|discriminate].
  - change (Nat.odd (length (a :: c :: r))) with (Nat.odd (length r)). cbn [hex_pairs]. split; intros H.
    + rewrite (IH1 H). reflexivity.
    + destruct (IH2 H) as (code & -> & Hl). cbn [bind]. eexists. split; [reflexivity|]. cbn [length]. lia.
Qed.

Lemma hex_pairs_result b : (exists code, hex_pairs b = Ok code) \/ hex_pairs b = Err EValue.
Proof.
  destruct (hex_pairs_parity b) as [H1 H2]. destruct (Nat.odd (length b)).
  - right. apply H1. reflexivity.
  - left. destruct (H2 eq_refl) as (code & H & _). exists code. exact H.
Qed.

Lemma parse_line_result l : (exists oe, parse_line l = Ok oe) \/ parse_line l = Err EValue.
Proof.
  unfold parse_line. destruct (match_table_line l) as [[[b ig] txt]|]; [|left; eexists; reflexivity].
  destruct (hex_pairs_result b) as [(code & ->)| ->]; cbn [bind]; [|right; reflexivity].
  destruct ig as [g|]; [|left; eexists; reflexivity].
  unfold int_dec. destruct (forallb is_dec_digit g && (length g <=? int_max_str_digits)%nat); cbn [bind].
  - left. eexists. reflexivity.
  - right. reflexivity.
Qed.

(** an odd number of digits in the byte field: ValueError (whatever the rest of the line is) *)
Theorem odd_hex_rejected t line b ig txt : match_table_line line = Some (b, ig, txt) ->
  Nat.odd (length b) = true -> parse_table_line_text t line = Err EValue.
Proof.
  intros Hm Ho. unfold parse_table_line_text, parse_line. rewrite Hm.
  destruct (hex_pairs_parity b) as [H _]. rewrite (H Ho). reflexivity.
Qed.
(** concretely: odd hex string, '=', text *)
Theorem odd_hex_line t h bl txt : forallb is_hex_digit h = true -> Nat.odd (length h) = true ->
  forallb is_space bl = true -> txt <> [] -> forallb not_nl txt = true ->
  parse_table_line_text t (h ++ bl ++ 61 :: txt ++ [10]) = Err EValue.
Proof.
  intros Hh Ho Hbl Hne Ht. apply (odd_hex_rejected t _ h None txt); [|exact Ho].
  apply (match_shape h None bl txt [10]); try assumption; try exact I; try reflexivity.
  destruct h; [discriminate|discriminate].
Qed.

(** the ignore field is read in base 10: a hex letter is ValueError *)
Theorem ignore_letter_rejected t line b g txt : match_table_line line = Some (b, Some g, txt) ->
  forallb is_dec_digit g = false -> parse_table_line_text t line = Err EValue.
Proof.
  intros Hm Hg. unfold parse_table_line_text, parse_line. rewrite Hm.
  destruct (hex_pairs_result b) as [(code & ->)| ->]; cbn [bind]; [|reflexivity].
  unfold int_dec. rewrite Hg. reflexivity.
Qed.
(** ... and so are more than 4300 digits (CPython's default limit for int(str)) *)
Theorem ignore_too_long_rejected t line b g txt : match_table_line line = Some (b, Some g, txt) ->
  (int_max_str_digits < length g)%nat -> parse_table_line_text t line = Err EValue.
Proof.
  intros Hm Hg. unfold parse_table_line_text, parse_line. rewrite Hm.
  destruct (hex_pairs_result b) as [(code & ->)| ->]; cbn [bind]; [|reflexivity].
  unfold int_dec. replace (length g <=? int_max_str_digits)%nat with false by (symmetry; apply Nat.leb_gt; exact Hg).
  rewrite andb_false_r. reflexivity.
Qed.

Lemma entries_of_lines_result ls : (exists es, entries_of_lines ls = Ok es) \/ entries_of_lines ls = Err EValue.
Proof.
  induction ls as [|l r IH]; cbn [entries_of_lines]; [left; eexists; reflexivity|].
  destruct (parse_line_result l) as [(oe & ->)| ->]; cbn [bind]; [|right; reflexivity].
  destruct IH as [(es & ->)| ->]; cbn [bind]; [left; eexists; reflexivity|right; reflexivity].
Qed.

Lemma entries_of_lines_err ls l k : In l ls -> parse_line l = Err k -> entries_of_lines ls = Err EValue.
Proof.
  induction ls as [|l0 r IH]; intros Hin Hk; [contradiction|]. cbn [entries_of_lines].
  destruct (parse_line_result l0) as [(oe & E)|E].
  - destruct Hin as [->|Hin]; [congruence|]. rewrite E. cbn [bind]. rewrite (IH Hin Hk). reflexivity.
  - rewrite E. reflexivity.
Qed.

(** one failing line anywhere in the file makes [Table(path)] raise ValueError *)
Theorem bad_line_rejects_file t s l k : In l (split_lines s) -> parse_line l = Err k ->
  include_text t s = Err EValue.
Proof.
  intros Hin Hk. rewrite include_text_factors. unfold entries_of_text.
  rewrite (entries_of_lines_err _ _ _ Hin Hk). reflexivity.
Qed.

(** the empty file, and any file without a table line: ValueError from max() *)
Theorem empty_file_rejected : table_of_text [] = Err EValue /\ table_of_file [] = Err EValue.
Proof. split; reflexivity. Qed.
Theorem no_entries_rejected s : entries_of_text s = Ok [] -> table_of_text s = Err EValue.
Proof. intros H. unfold table_of_text. rewrite include_text_factors, H. reflexivity. Qed.

(** * 4. No fuel: the load is structurally recursive and fails with ValueError only *)
Lemma max_len_result xs : (exists n, max_len xs = Ok n) \/ max_len xs = Err EValue.
Proof. destruct xs; [right; reflexivity|left; eexists; reflexivity]. Qed.

Theorem include_text_result t s : (exists t', include_text t s = Ok t') \/ include_text t s = Err EValue.
Proof.
  rewrite include_text_factors. unfold entries_of_text.
  destruct (entries_of_lines_result (split_lines s)) as [(es & ->)| ->]; cbn [bind]; [|right; reflexivity].
  unfold include.
  destruct (max_len_result (map snd (t_lookup (fold_left parse_table_line es t)))) as [(mb & ->)| ->];
    cbn [bind]; [|right; reflexivity].
  destruct (max_len_result (map fst (t_lookup (fold_left parse_table_line es t)))) as [(mt & ->)| ->];
    cbn [bind]; [left; eexists; reflexivity|right; reflexivity].
Qed.

Theorem include_text_no_fuel t s :
  include_text t s <> OutOfFuel /\ forall k, include_text t s = Err k -> k = EValue.
Proof.
  destruct (include_text_result t s) as [(t' & ->)| ->]; split; try discriminate.
  intros k H. injection H as <-. reflexivity.
Qed.

(** * Non-vacuity *)
(** "41:03 =a\\nb"  ->  text "a<newline>b", code [0x41], ignore 3 *)
Example line_example :
  let w := {| w_code := [65]; w_upper := []; w_ignore := Some [48; 51]; w_blanks := [32]; w_text := [97; 10; 98] |} in
  wf_disk_line w = true /\ render_line w = [52; 49; 58; 48; 51; 32; 61; 97; 92; 110; 98] /\
  entry_of w = ([97; 10; 98], [65], Some 3).
Proof. vm_compute. repeat split. Qed.

(** "4A=x" / "4b4C:2=yz" / "4a=w": last write wins on the duplicated code *)
Example file_example :
  table_of_file [52;65;61;120;10; 52;98;52;67;58;50;61;121;122;13;10; 52;97;61;119] =
  table_of_entries [([120], [74], None); ([121; 122], [75; 76], Some 2); ([119], [74], None)].
Proof. vm_compute. reflexivity. Qed.

(** backtracking really happens and is harmless: on "0a:1f" the search first takes the ignore group,
    fails for want of '=', retries without the group, fails on ':' — no match; on "01:2 =x" it
    succeeds on the first path *)
Example backtrack_example :
  re_match table_line_rx [48; 97; 58; 49; 102] = None /\ match_table_line [48; 97; 58; 49; 102] = None /\
  groups_of (re_match table_line_rx [48; 49; 58; 50; 32; 61; 120]) = Some ([48; 49], Some [50], [120]).
Proof. vm_compute. repeat split. Qed.

(** * The C18 theorems read on table files *)
From A816 Require Spec.TableSpec Proofs.TableEncode Proofs.TableDecode.

(** C18_to_bytes, with the table given as the characters of its file: the object loaded from the
    canonical file of well-formed entries encodes by greedy longest-match tokenisation. *)
Theorem file_to_bytes_spec es t : forallb wf_entry es = true ->
  table_of_file (render_file (map canonical_line es)) = Ok t ->
  forall s bs, to_bytes t s = Ok bs <-> TableSpec.Tok es s bs.
Proof. intros Hwf H. rewrite (entries_roundtrip _ Hwf) in H. exact (TableEncode.to_bytes_spec es t H). Qed.

(** ... and for any file of well-formed lines, through the entries they stand for *)
Theorem file_lines_to_bytes_spec ws t : forallb wf_disk_line ws = true ->
  table_of_file (render_file ws) = Ok t ->
  forall s bs, to_bytes t s = Ok bs <-> TableSpec.Tok (map entry_of ws) s bs.
Proof. intros Hwf H. rewrite (disk_roundtrip _ Hwf) in H. exact (TableEncode.to_bytes_spec _ t H). Qed.

(** C18_roundtrip on files *)
Theorem file_roundtrip_codec ws t s : forallb wf_disk_line ws = true ->
  table_of_file (render_file ws) = Ok t -> TableSpec.rt_table (map entry_of ws) -> TableSpec.joker_free s ->
  exists its, TableSpec.Toks (map entry_of ws) s its /\ to_bytes t s = Ok (TableSpec.bytes_of its) /\
              to_text t (TableSpec.bytes_of its) = Ok (TableSpec.texts_of its).
Proof. intros Hwf H. rewrite (disk_roundtrip _ Hwf) in H. exact (TableDecode.roundtrip _ t s H). Qed.
