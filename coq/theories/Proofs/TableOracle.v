(** C18: the executable specification used by the oracle ([tokenise], [rt_table_b]) is equivalent
    to the inductive specification ([Toks], [rt_table]). *)
From Coq Require Import ZArith List Bool Lia Arith ZifyBool.
From A816 Require Import Spec.TableSpec Proofs.BusProofs Proofs.TableProofs Proofs.TableEncode.
Open Scope Z_scope.

Lemma is_prefix_b_iff x s : is_prefix_b x s = true <-> exists r, s = x ++ r.
Proof.
  revert s; induction x as [|a x IH]; intros s; cbn [is_prefix_b].
  - split; [intros _; exists s; reflexivity|reflexivity].
  - destruct s as [|b s].
    + split; [discriminate|intros (r & H); discriminate].
    + rewrite andb_true_iff, IH, Z.eqb_eq. split.
      * intros (-> & r & ->). exists r. reflexivity.
      * intros (r & H). injection H as -> ->. split; [reflexivity|exists r; reflexivity].
Qed.

(** ** escapes *)
Lemma read_hex_sound : forall r acc n v m, read_hex r acc n = Some (v, m) ->
  exists ds rest, r = ds ++ 93 :: rest /\ Forall hex_digit ds /\ m = (n + length ds)%nat /\ m <> 0%nat /\
                  v = hex_acc ds acc.
Proof.
  induction r as [|c r IH]; intros acc n v m H; cbn [read_hex] in H; [discriminate|].
  destruct (hex_digit_b c) eqn:Eh.
  - destruct (IH _ _ _ _ H) as (ds & rest & -> & HF & -> & Hm & ->).
    exists (c :: ds), rest. repeat split.
    + constructor; [apply hex_digit_b_iff; assumption|assumption].
    + cbn [length]. lia.
    + assumption.
  - destruct ((c =? 93) && negb (Nat.eqb n 0)) eqn:Ec; [|discriminate]. injection H as <- <-.
    apply andb_true_iff in Ec as [Ec En]. apply Z.eqb_eq in Ec. subst c.
    exists [], r. repeat split; [constructor|cbn [length]; lia|].
    destruct n; [discriminate|lia].
Qed.

Lemma read_hex_complete ds rest : Forall hex_digit ds -> forall acc n, (n + length ds <> 0)%nat ->
  read_hex (ds ++ 93 :: rest) acc n = Some (hex_acc ds acc, (n + length ds)%nat).
Proof.
  induction 1 as [|d ds Hd HF IH]; intros acc n Hn; cbn [app read_hex].
  - replace (hex_digit_b 93) with false by reflexivity. replace (93 =? 93) with true by reflexivity.
    cbn [length] in *. destruct n; [lia|]. cbn. f_equal. f_equal. lia.
  - apply hex_digit_b_iff in Hd. rewrite Hd. rewrite IH by (cbn [length] in Hn; lia).
    cbn [length]. f_equal. f_equal. lia.
Qed.

Lemma joker_b_sound s v n : joker_b s = Some (v, n) -> joker_at s v (skipn (n + 4) s).
Proof.
  unfold joker_b. destruct s as [|a [|b [|c r]]]; try discriminate.
  destruct ((a =? 91) && (b =? 48) && (c =? 120)) eqn:E; [|discriminate].
  assert (a = 91 /\ b = 48 /\ c = 120) as (-> & -> & ->) by lia. intros H.
  destruct (read_hex_sound _ _ _ _ _ H) as (ds & rest & -> & HF & -> & Hm & ->).
  cbn [Nat.add] in *. rewrite Nat.add_comm, joker_skip.
  exists ds. repeat split; [destruct ds; [contradiction|discriminate]|assumption|apply hex_acc_hex_value].
Qed.

Lemma joker_b_complete s v rest : joker_at s v rest ->
  exists n, joker_b s = Some (v, n) /\ skipn (n + 4) s = rest.
Proof.
  intros H. apply joker_at_cons in H as (ds & Hne & HF & -> & ->).
  exists (length ds). unfold joker_b.
  replace ((91 =? 91) && (48 =? 48) && (120 =? 120)) with true by reflexivity.
  rewrite (read_hex_complete ds rest HF 0 0%nat) by (destruct ds; [contradiction|cbn [length]; lia]).
  cbn [Nat.add]. rewrite hex_acc_hex_value. split; [reflexivity|].
  rewrite Nat.add_comm. apply joker_skip.
Qed.

Lemma joker_b_none s : joker_b s = None -> no_joker s.
Proof. intros H v rest J. apply joker_b_complete in J as (n & E & _). congruence. Qed.

Lemma joker_at_unique s v rest v' rest' : joker_at s v rest -> joker_at s v' rest' -> v = v' /\ rest = rest'.
Proof.
  intros J J'. destruct (joker_b_complete _ _ _ J) as (n & E & <-).
  destruct (joker_b_complete _ _ _ J') as (n' & E' & <-). rewrite E in E'. injection E' as <- <-.
  split; reflexivity.
Qed.

(** ** longest match by one scan over the table *)
Lemma assigns_snoc_other pre e x c : assigns pre x c -> e_text e <> x -> assigns (pre ++ [e]) x c.
Proof.
  intros (p & ig & post & -> & Hp) Hne. exists p, ig, (post ++ [e]).
  split; [rewrite <- app_assoc; reflexivity|].
  intros e' Hin. apply in_app_or in Hin as [Hin|[<-|[]]]; [apply Hp; assumption|assumption].
Qed.

Lemma assigns_snoc_same pre y c ig : assigns (pre ++ [(y, c, ig)]) y c.
Proof. exists pre, ig, []. split; [reflexivity|intros e []]. Qed.

Lemma has_text_snoc pre e x : has_text (pre ++ [e]) x <-> has_text pre x \/ e_text e = x.
Proof.
  split.
  - intros (e' & Hin & Hx). apply in_app_or in Hin as [Hin|[<-|[]]]; [left; exists e'; split; assumption|right; assumption].
  - intros [(e' & Hin & Hx)|Hx].
    + exists e'. split; [apply in_or_app; left; assumption|assumption].
    + exists e. split; [apply in_or_app; right; left; reflexivity|assumption].
Qed.

Definition best_inv (es : list entry) (s : str) (acc : option (str * bytes)) : Prop :=
  match acc with
  | Some (x, c) => exists r, best_match es s x c r
  | None => no_match es s
  end.

Lemma best_b_inv s es : best_inv es s (best_b es s).
Proof.
  induction es as [|e pre IH] using rev_ind.
  - cbn. intros x r _ (e & [] & _).
  - unfold best_b in *. rewrite fold_left_app. cbn [fold_left].
    set (acc := fold_left (better s) pre None) in *. unfold better.
    destruct e as [[y cy] igy]. cbn [e_text e_code fst snd].
    destruct (nonempty_b y && is_prefix_b y s) eqn:Ec.
    + apply andb_true_iff in Ec as [Hy Hp]. apply is_prefix_b_iff in Hp as (ry & Hs).
      assert (Hyne : y <> []) by (destruct y; [discriminate|discriminate]).
      destruct acc as [[x c]|]; cbn [best_inv] in *.
      * destruct IH as (r & Hx & Hr & Ha & Hm).
        destruct (length x <=? length y)%nat eqn:El.
        -- apply Nat.leb_le in El. exists ry. split; [assumption|]. split; [assumption|].
           split; [apply assigns_snoc_same|].
           intros x' r' Hx' Hh Hr'. apply has_text_snoc in Hh as [Hh|Hh].
           ++ specialize (Hm _ _ Hx' Hh Hr'). lia.
           ++ cbn [e_text fst] in Hh. subst x'. lia.
        -- apply Nat.leb_gt in El. exists r. split; [assumption|]. split; [assumption|].
           split; [apply assigns_snoc_other; [assumption|cbn [e_text fst]; intros ->; lia]|].
           intros x' r' Hx' Hh Hr'. apply has_text_snoc in Hh as [Hh|Hh].
           ++ exact (Hm _ _ Hx' Hh Hr').
           ++ cbn [e_text fst] in Hh. subst x'. lia.
      * exists ry. split; [assumption|]. split; [assumption|]. split; [apply assigns_snoc_same|].
        intros x' r' Hx' Hh Hr'. apply has_text_snoc in Hh as [Hh|Hh].
        -- exfalso. exact (IH _ _ Hx' Hh Hr').
        -- cbn [e_text fst] in Hh. subst x'. lia.
    + assert (Hny : forall r', y <> [] -> s <> y ++ r').
      { intros r' Hy Hs. apply andb_false_iff in Ec as [Ec|Ec].
        - destruct y; [contradiction|discriminate].
        - assert (is_prefix_b y s = true) by (apply is_prefix_b_iff; exists r'; assumption). congruence. }
      destruct acc as [[x c]|]; cbn [best_inv] in *.
      * destruct IH as (r & Hx & Hr & Ha & Hm). exists r. split; [assumption|]. split; [assumption|].
        split; [apply assigns_snoc_other; [assumption|cbn [e_text fst]; intros ->; exact (Hny _ Hx Hr)]|].
        intros x' r' Hx' Hh Hr'. apply has_text_snoc in Hh as [Hh|Hh].
        -- exact (Hm _ _ Hx' Hh Hr').
        -- cbn [e_text fst] in Hh. subst x'. exfalso. exact (Hny _ Hx' Hr').
      * intros x' r' Hx' Hh Hr'. apply has_text_snoc in Hh as [Hh|Hh].
        -- exact (IH _ _ Hx' Hh Hr').
        -- cbn [e_text fst] in Hh. subst x'. exact (Hny _ Hx' Hr').
Qed.

Lemma best_b_some es s x c : best_b es s = Some (x, c) -> exists r, best_match es s x c r.
Proof. intros H. assert (HI := best_b_inv s es). rewrite H in HI. exact HI. Qed.

Lemma best_b_none es s : best_b es s = None -> no_match es s.
Proof. intros H. assert (HI := best_b_inv s es). rewrite H in HI. exact HI. Qed.

Lemma best_b_complete es s x c r : best_match es s x c r -> best_b es s = Some (x, c).
Proof.
  intros Hb. destruct (best_b es s) as [[x' c']|] eqn:E.
  - apply best_b_some in E as (r' & Hb'). destruct (best_match_unique _ _ _ _ _ _ _ _ Hb Hb') as (-> & -> & _).
    reflexivity.
  - apply best_b_none in E. exfalso. destruct Hb as (Hx & Hr & Ha & _).
    exact (E _ _ Hx (assigns_has_text _ _ _ Ha) Hr).
Qed.

Lemma no_match_best_b es s : no_match es s -> best_b es s = None.
Proof.
  intros Hn. destruct (best_b es s) as [[x c]|] eqn:E; [|reflexivity].
  apply best_b_some in E as (r & Hx & Hr & Ha & _). exfalso. exact (Hn _ _ Hx (assigns_has_text _ _ _ Ha) Hr).
Qed.

(** ** the tokeniser *)
Lemma tokb_skip es : forall s k, tokb es s k = tokb es (skipn k s) 0.
Proof.
  induction s as [|ch rest IH]; intros k.
  - rewrite skipn_nil. destruct k; reflexivity.
  - destruct k as [|k]; [reflexivity|]. cbn [tokb skipn]. apply IH.
Qed.

Lemma opt_cons_some {A} (x : A) o l : opt_cons x o = Some l -> exists l', o = Some l' /\ l = x :: l'.
Proof. destruct o as [l'|]; cbn; [|discriminate]. intros H. injection H as <-. exists l'. split; reflexivity. Qed.

Lemma tokb_sound es : forall n s its, (length s <= n)%nat -> tokb es s 0 = Some its -> Toks es s its.
Proof.
  induction n as [|n IH]; intros s its Hlen H.
  - destruct s; [|cbn in Hlen; lia]. cbn in H. injection H as <-. constructor.
  - destruct s as [|ch rest] eqn:Es; [cbn in H; injection H as <-; constructor|].
    rewrite <- Es in *. assert (Hne : s <> []) by (rewrite Es; discriminate).
    assert (Hk : forall k its', tokb es rest k = Some its' -> Toks es (skipn (S k) s) its').
    { intros k its' Hk. rewrite tokb_skip in Hk. rewrite Es. cbn [skipn]. apply IH; [|assumption].
      rewrite skipn_length. rewrite Es in Hlen. cbn [length] in Hlen. lia. }
    rewrite Es in H. cbn [tokb] in H. rewrite <- Es in H.
    destruct (joker_b s) as [[v m]|] eqn:Ej.
    + destruct (v <=? 255) eqn:Ev; [|discriminate].
      apply opt_cons_some in H as (its' & Ht & ->). apply Hk in Ht.
      apply joker_b_sound in Ej. replace (S (m + 3)) with (m + 4)%nat in Ht by lia.
      eapply Toks_joker; [exact Ej|lia|exact Ht].
    + apply joker_b_none in Ej. destruct (best_b es s) as [[x c]|] eqn:Eb.
      * apply opt_cons_some in H as (its' & Ht & ->). apply Hk in Ht.
        apply best_b_some in Eb as (r & Hb). assert (Hb' := Hb). destruct Hb' as (Hx & Hr & _).
        replace (S (length x - 1)) with (length x) in Ht by (destruct x; [contradiction|cbn [length]; lia]).
        rewrite Hr in Ht at 1. rewrite skipn_app_len0 in Ht.
        eapply Toks_match; eassumption.
      * apply opt_cons_some in H as (its' & Ht & ->). apply Hk in Ht.
        apply best_b_none in Eb. rewrite Es in *. cbn [skipn] in Ht. apply Toks_skip; assumption.
Qed.

Lemma tokb_complete es s its : Toks es s its -> tokb es s 0 = Some its.
Proof.
  induction 1 as [|s v rest its J Hv HT IH|s x c rest its Hnj Hb HT IH|ch rest its Hnj Hnm HT IH].
  - reflexivity.
  - destruct (joker_b_complete _ _ _ J) as (m & Ej & Er).
    destruct s as [|ch s'] eqn:Es; [cbn in Ej; discriminate|]. cbn [tokb]. rewrite <- Es in *.
    rewrite Ej. replace (v <=? 255) with true by lia.
    rewrite tokb_skip. replace (skipn (m + 3) s') with (skipn (m + 4) s)
      by (rewrite Es; replace (m + 4)%nat with (S (m + 3)) by lia; reflexivity).
    rewrite Er, IH. reflexivity.
  - assert (Hb' := Hb). destruct Hb' as (Hx & Hr & _).
    destruct s as [|ch s'] eqn:Es; [destruct x; [contradiction|discriminate]|]. cbn [tokb]. rewrite <- Es in *.
    destruct (joker_b s) as [[v m]|] eqn:Ej; [apply joker_b_sound in Ej; exfalso; exact (Hnj _ _ Ej)|].
    rewrite (best_b_complete _ _ _ _ _ Hb). rewrite tokb_skip.
    replace (skipn (length x - 1) s') with (skipn (length x) s).
    + rewrite Hr at 1. rewrite skipn_app_len0, IH. reflexivity.
    + rewrite Es. destruct x as [|a x]; [contradiction|]. cbn [length skipn]. f_equal. lia.
  - cbn [tokb].
    destruct (joker_b (ch :: rest)) as [[v m]|] eqn:Ej; [apply joker_b_sound in Ej; exfalso; exact (Hnj _ _ Ej)|].
    rewrite (no_match_best_b _ _ Hnm). rewrite IH. reflexivity.
Qed.

Theorem tokenise_iff es s its : tokenise es s = Some its <-> Toks es s its.
Proof.
  unfold tokenise. split; [apply (tokb_sound es (length s)); lia|apply tokb_complete].
Qed.

(** the specification is functional *)
Corollary Toks_functional es s its its' : Toks es s its -> Toks es s its' -> its = its'.
Proof. intros H H'. apply tokb_complete in H, H'. congruence. Qed.

Corollary Tok_functional es s bs bs' : Tok es s bs -> Tok es s bs' -> bs = bs'.
Proof.
  intros H H'. apply Tok_Toks in H as (its & HT & ->). apply Tok_Toks in H' as (its' & HT' & ->).
  rewrite (Toks_functional _ _ _ _ HT HT'). reflexivity.
Qed.

(** ** round-trip tables *)
Lemma list_eqb_Z_eq (a b : list Z) : list_eqb Z.eqb a b = true <-> a = b.
Proof. exact (str_eqb_eq a b). Qed.

Lemma rt_table_b_sound es : rt_table_b es = true -> rt_table es.
Proof.
  unfold rt_table_b. rewrite forallb_forall. intros H.
  assert (H1 : forall e1, In e1 es -> e_code e1 <> [] /\ e_ignore e1 = None /\
            forall e2, In e2 es -> is_prefix (e_code e1) (e_code e2) ->
                       e_code e1 = e_code e2 /\ e_text e1 = e_text e2).
  { intros e1 Hin. specialize (H _ Hin). apply andb_true_iff in H as [H Hall].
    apply andb_true_iff in H as [Hne Hig]. split; [destruct (e_code e1); [discriminate|discriminate]|].
    split; [destruct (e_ignore e1); [discriminate|reflexivity]|].
    rewrite forallb_forall in Hall. intros e2 Hin2 Hp. specialize (Hall _ Hin2).
    apply orb_true_iff in Hall as [Hn|He].
    - exfalso. apply negb_true_iff in Hn. destruct Hp as (r & Hr).
      assert (is_prefix_b (e_code e1) (e_code e2) = true) by (apply is_prefix_b_iff; exists r; assumption).
      congruence.
    - apply andb_true_iff in He as [Hc Hx]. apply list_eqb_Z_eq in Hc, Hx. split; assumption. }
  repeat split.
  - intros e1 e2 Hi1 Hi2 Hc. apply (H1 _ Hi1); [assumption|]. exists []. rewrite app_nil_r. symmetry. assumption.
  - intros e Hin. exact (proj1 (H1 _ Hin)).
  - intros e1 e2 Hi1 Hi2 Hp. exact (proj1 (proj2 (proj2 (H1 _ Hi1)) _ Hi2 Hp)).
  - intros e Hin. exact (proj1 (proj2 (H1 _ Hin))).
Qed.

Lemma rt_table_b_complete es : rt_table es -> rt_table_b es = true.
Proof.
  intros (Hu & Hne & Hpf & Hi). unfold rt_table_b. apply forallb_forall. intros e1 Hi1.
  apply andb_true_iff. split; [apply andb_true_iff; split|].
  - specialize (Hne _ Hi1). destruct (e_code e1); [contradiction|reflexivity].
  - rewrite (Hi _ Hi1). reflexivity.
  - apply forallb_forall. intros e2 Hi2. destruct (is_prefix_b (e_code e1) (e_code e2)) eqn:Ep; [|reflexivity].
    cbn [negb orb]. apply is_prefix_b_iff in Ep. assert (Hc := Hpf _ _ Hi1 Hi2 Ep).
    apply andb_true_iff. split; apply list_eqb_Z_eq; [assumption|exact (Hu _ _ Hi1 Hi2 Hc)].
Qed.

Theorem rt_table_b_iff es : rt_table_b es = true <-> rt_table es.
Proof. split; [apply rt_table_b_sound|apply rt_table_b_complete]. Qed.
