(** Proofs about Model/Table.v against Spec/TableSpec.v (C18). *)
From Coq Require Import ZArith List Bool Lia Arith ZifyBool.
From A816 Require Import Spec.TableSpec Proofs.BusProofs.
Open Scope Z_scope.

(** * List helpers *)

Lemma skipn_app_len {A} (a b : list A) n : skipn (length a + n) (a ++ b) = skipn n b.
Proof. induction a as [|x a IH]; cbn; [reflexivity|exact IH]. Qed.

Lemma firstn_app_len {A} (a b : list A) : firstn (length a) (a ++ b) = a.
Proof. induction a as [|x a IH]; cbn; [reflexivity|rewrite IH; reflexivity]. Qed.

Lemma skipn_app_len0 {A} (a b : list A) : skipn (length a) (a ++ b) = b.
Proof. rewrite <- (Nat.add_0_r (length a)). rewrite skipn_app_len. reflexivity. Qed.

Lemma app_same_length {A} (a a' b b' : list A) :
  a ++ b = a' ++ b' -> length a = length a' -> a = a' /\ b = b'.
Proof.
  revert a'; induction a as [|x a IH]; intros [|y a'] H L; cbn in *; try discriminate.
  - split; [reflexivity|assumption].
  - injection H as -> H. injection L as L. destruct (IH _ H L) as [-> ->]. split; reflexivity.
Qed.

Lemma skipn_shorter {A} (l : list A) n : (1 <= n)%nat -> l <> [] -> (length (skipn n l) < length l)%nat.
Proof. intros Hn Hl. rewrite skipn_length. destruct l; [contradiction|]. cbn [length]. lia. Qed.

Lemma firstn_nonempty {A} (l : list A) n : (1 <= n)%nat -> l <> [] -> firstn n l <> [].
Proof. intros Hn Hl. destruct n; [lia|]. destruct l; [contradiction|cbn; discriminate]. Qed.

Lemma app_nonempty_longer {A} (t rest : list A) : t <> [] -> (length rest < length (t ++ rest))%nat.
Proof. intros H. rewrite app_length. destruct t; [contradiction|]. cbn [length]. lia. Qed.

(** * Hexadecimal escapes *)

Lemma is_hex_digit_iff c : is_hex_digit c = true <-> hex_digit c.
Proof. unfold is_hex_digit, hex_digit. lia. Qed.
Lemma hex_digit_b_iff c : hex_digit_b c = true <-> hex_digit c.
Proof. unfold hex_digit_b, hex_digit. lia. Qed.
Lemma close_not_hex : ~ hex_digit 93.
Proof. unfold hex_digit. lia. Qed.

Lemma hex_digit_value_spec c : hex_digit c -> hex_digit_value c = digit_of c.
Proof.
  unfold hex_digit, hex_digit_value, digit_of. intros H.
  destruct (c <=? 57) eqn:E1; destruct (c <? 58) eqn:E2; try lia;
  destruct (c <=? 70) eqn:E3; destruct (c <? 71) eqn:E4; lia.
Qed.

Lemma hex_value_snoc ds d : hex_value (ds ++ [d]) = digit_of d + 16 * hex_value ds.
Proof. unfold hex_value. rewrite rev_app_distr. reflexivity. Qed.

Lemma int16_hex_value ds : Forall hex_digit ds -> int16 ds = hex_value ds.
Proof.
  induction ds as [|d ds IH] using rev_ind; intros H; [reflexivity|].
  apply Forall_app in H as [H1 H2]. inversion H2 as [|? ? Hd _]; subst.
  unfold int16 in *. rewrite fold_left_app. cbn [fold_left]. rewrite (IH H1), hex_value_snoc.
  rewrite (hex_digit_value_spec _ Hd). lia.
Qed.

Definition hex_acc (ds : list Z) (acc : Z) : Z := fold_left (fun a d => 16 * a + digit_of d) ds acc.
Lemma hex_acc_hex_value ds : hex_acc ds 0 = hex_value ds.
Proof.
  induction ds as [|d ds IH] using rev_ind; [reflexivity|].
  unfold hex_acc in *. rewrite fold_left_app. cbn [fold_left]. rewrite IH, hex_value_snoc. lia.
Qed.

(** the maximal run of hex digits *)
Lemma span_hex_spec s ds rest : span_hex s = (ds, rest) ->
  s = ds ++ rest /\ Forall hex_digit ds /\ (forall c r, rest = c :: r -> ~ hex_digit c).
Proof.
  revert ds rest; induction s as [|c s IH]; intros ds rest H; cbn in H.
  - injection H as <- <-. repeat split; [constructor|intros; discriminate].
  - destruct (is_hex_digit c) eqn:E.
    + destruct (span_hex s) as [ds' rest'] eqn:Es. injection H as <- <-.
      destruct (IH _ _ eq_refl) as (-> & HF & HR).
      repeat split; [constructor; [apply is_hex_digit_iff; assumption|assumption]|exact HR].
    + injection H as <- <-. repeat split; [constructor|].
      intros c' r Hc. injection Hc as <- <-. intros Hh. apply is_hex_digit_iff in Hh. congruence.
Qed.

Lemma span_hex_unique ds c rest : Forall hex_digit ds -> ~ hex_digit c ->
  span_hex (ds ++ c :: rest) = (ds, c :: rest).
Proof.
  intros HF Hc. induction HF as [|d ds Hd HF IH]; cbn [app span_hex].
  - destruct (is_hex_digit c) eqn:E; [apply is_hex_digit_iff in E; contradiction|reflexivity].
  - apply is_hex_digit_iff in Hd. rewrite Hd, IH. reflexivity.
Qed.

Lemma joker_at_cons s v rest : joker_at s v rest ->
  exists ds, ds <> [] /\ Forall hex_digit ds /\ s = 91 :: 48 :: 120 :: ds ++ 93 :: rest /\ v = hex_value ds.
Proof. intros (ds & H1 & H2 & H3 & H4). exists ds. repeat split; assumption. Qed.

Lemma joker_skip ds rest : skipn (4 + length ds) (91 :: 48 :: 120 :: ds ++ 93 :: rest) = rest.
Proof.
  change (skipn (S (length ds)) (ds ++ 93 :: rest) = rest). replace (S (length ds)) with (length ds + 1)%nat by lia.
  rewrite skipn_app_len. reflexivity.
Qed.

Lemma joker_match_sound s ds n : joker_match s = Some (ds, n) ->
  joker_at s (int16 ds) (skipn n s) /\ (1 <= n)%nat.
Proof.
  unfold joker_match. destruct s as [|a [|b [|c r]]]; try discriminate.
  destruct ((a =? 91) && (b =? 48) && (c =? 120)) eqn:E; [|discriminate].
  destruct (span_hex r) as [ds' rest'] eqn:Es.
  destruct ds' as [|d ds']; [discriminate|]. destruct rest' as [|close rest']; [discriminate|].
  destruct (close =? 93) eqn:Ec; [|discriminate]. intros H. injection H as <- <-.
  apply span_hex_spec in Es as (-> & HF & _).
  assert (a = 91 /\ b = 48 /\ c = 120 /\ close = 93) as (-> & -> & -> & ->) by lia.
  split; [|lia].
  exists (d :: ds'). change (S (S (S (S (S (length ds')))))) with (4 + length (d :: ds'))%nat. rewrite joker_skip.
  repeat split; [discriminate|assumption|apply int16_hex_value; assumption].
Qed.

Lemma joker_match_complete s v rest : joker_at s v rest ->
  exists ds n, joker_match s = Some (ds, n) /\ int16 ds = v /\ skipn n s = rest.
Proof.
  intros H. apply joker_at_cons in H as (ds & Hne & HF & -> & ->).
  exists ds, (4 + length ds)%nat. unfold joker_match.
  replace ((91 =? 91) && (48 =? 48) && (120 =? 120)) with true by reflexivity.
  rewrite (span_hex_unique ds 93 rest HF close_not_hex).
  destruct ds as [|d ds]; [contradiction|].
  replace (93 =? 93) with true by reflexivity.
  repeat split; [apply int16_hex_value; assumption|apply joker_skip].
Qed.

Lemma joker_match_none s : joker_match s = None -> no_joker s.
Proof.
  intros H v rest J. apply joker_match_complete in J as (ds & n & E & _). congruence.
Qed.

Lemma no_joker_match s : no_joker s -> joker_match s = None.
Proof.
  intros H. destruct (joker_match s) as [[ds n]|] eqn:E; [|reflexivity].
  apply joker_match_sound in E as [J _]. exfalso. exact (H _ _ J).
Qed.

Lemma joker_at_longer s v rest : joker_at s v rest -> (length rest < length s)%nat.
Proof.
  intros H. apply joker_at_cons in H as (ds & _ & _ & -> & _).
  cbn [length]. rewrite app_length. cbn [length]. lia.
Qed.

(** * Dictionaries built line by line *)

Section Build.
  Context {A V : Type} (kf : A -> str) (vf : A -> V).
  Definition build (es : list A) (d : dict V) : dict V :=
    fold_left (fun d e => dict_set d (kf e) (vf e)) es d.

  Fixpoint last_with (k : str) (es : list A) : option A :=
    match es with
    | [] => None
    | e :: r => match last_with k r with
                | Some x => Some x
                | None => if str_eqb k (kf e) then Some e else None
                end
    end.

  Lemma dict_get_set (d : dict V) k k' v :
    dict_get (dict_set d k v) k' = if str_eqb k' k then Some v else dict_get d k'.
  Proof.
    destruct (str_eqb k' k) eqn:E.
    - apply str_eqb_eq in E. subst. apply dict_get_set_same.
    - apply dict_get_set_other. assumption.
  Qed.

  Lemma build_get es : forall d k,
    dict_get (build es d) k = match last_with k es with Some e => Some (vf e) | None => dict_get d k end.
  Proof.
    induction es as [|e es IH]; intros d k; [reflexivity|].
    unfold build in *. cbn [fold_left last_with]. rewrite IH.
    destruct (last_with k es); [reflexivity|]. rewrite dict_get_set.
    destruct (str_eqb k (kf e)); reflexivity.
  Qed.

  Lemma last_with_some k es e : last_with k es = Some e ->
    exists pre post, es = pre ++ e :: post /\ kf e = k /\ forall e', In e' post -> kf e' <> k.
  Proof.
    revert e; induction es as [|x es IH]; intros e H; cbn in H; [discriminate|].
    destruct (last_with k es) as [y|] eqn:E.
    - injection H as ->. destruct (IH _ eq_refl) as (pre & post & -> & Hk & Hp).
      exists (x :: pre), post. repeat split; assumption.
    - destruct (str_eqb k (kf x)) eqn:Ek; [|discriminate]. injection H as ->.
      apply str_eqb_eq in Ek. exists [], es. repeat split; [congruence|].
      intros e' Hin Hk. clear IH. revert E Hin. clear -Hk. induction es as [|y es IH]; cbn; [contradiction|].
      destruct (last_with k es); [discriminate|]. destruct (str_eqb k (kf y)) eqn:E; [discriminate|].
      intros _ [->|Hin]; [|apply IH; [reflexivity|assumption]].
      rewrite <- Hk in E. rewrite str_eqb_refl in E. discriminate.
  Qed.

  Lemma last_with_none k es : last_with k es = None -> forall e, In e es -> kf e <> k.
  Proof.
    induction es as [|x es IH]; cbn; [contradiction|].
    destruct (last_with k es); [discriminate|]. destruct (str_eqb k (kf x)) eqn:E; [discriminate|].
    intros _ e [->|Hin]; [|apply IH; [reflexivity|assumption]].
    intros Hk. rewrite <- Hk in E. rewrite str_eqb_refl in E. discriminate.
  Qed.

  Lemma last_with_intro k pre e post : kf e = k -> (forall e', In e' post -> kf e' <> k) ->
    last_with k (pre ++ e :: post) = Some e.
  Proof.
    intros Hk Hp. induction pre as [|x pre IH]; cbn [app last_with].
    - destruct (last_with k post) as [y|] eqn:E.
      + apply last_with_some in E as (p & q & -> & Hy & _). exfalso. apply (Hp y); [|assumption].
        apply in_or_app. right. left. reflexivity.
      + rewrite <- Hk, str_eqb_refl. reflexivity.
    - rewrite IH. reflexivity.
  Qed.

  Lemma build_nonempty es d : es <> [] \/ d <> [] -> build es d <> [].
  Proof.
    revert d; induction es as [|e es IH]; intros d H; unfold build in *; cbn [fold_left].
    - destruct H; [contradiction|assumption].
    - apply IH. right. destruct d as [|[k v] d]; cbn; [discriminate|]. destruct (str_eqb (kf e) k); discriminate.
  Qed.
End Build.

Lemma dict_get_in {V} (d : dict V) k v : dict_get d k = Some v -> In k (map fst d) /\ In v (map snd d).
Proof.
  induction d as [|[k' v'] d IH]; cbn; [discriminate|].
  destruct (str_eqb k k') eqn:E.
  - intros H. injection H as ->. apply str_eqb_eq in E. subst. split; left; reflexivity.
  - intros H. destruct (IH H). split; right; assumption.
Qed.

(** * The table built by [Table(path)] *)

Definition lookup_of (es : list entry) : dict bytes := build e_text e_code es [].
Definition inv_of (es : list entry) : dict (str * option Z) :=
  build e_code (fun e => (e_text e, e_ignore e)) es [].

Lemma fold_parse es : forall t,
  t_lookup (fold_left parse_table_line es t) = build e_text e_code es (t_lookup t) /\
  t_inv (fold_left parse_table_line es t) = build e_code (fun e => (e_text e, e_ignore e)) es (t_inv t).
Proof.
  induction es as [|e es IH]; intros t; [split; reflexivity|].
  cbn [fold_left]. destruct (IH (parse_table_line t e)) as [H1 H2]. rewrite H1, H2. split; reflexivity.
Qed.

Lemma fold_max_ge l : forall a, (a <= fold_left Nat.max l a)%nat /\ forall x, In x l -> (x <= fold_left Nat.max l a)%nat.
Proof.
  induction l as [|y l IH]; intros a; cbn [fold_left]; [split; [lia|contradiction]|].
  destruct (IH (Nat.max a y)) as [H1 H2]. split; [lia|].
  intros x [->|Hin]; [lia|apply H2; assumption].
Qed.

Lemma max_len_ge xs m : max_len xs = Ok m -> forall x, In x xs -> (length x <= m)%nat.
Proof.
  unfold max_len. destruct xs as [|y ys]; [discriminate|]. intros H. injection H as <-.
  intros x Hin. destruct (fold_max_ge (map (@length Z) (y :: ys)) 0%nat) as [_ HH]. apply HH. apply in_map. assumption.
Qed.

Lemma table_of_entries_spec es t : table_of_entries es = Ok t ->
  t_lookup t = lookup_of es /\ t_inv t = inv_of es /\
  (forall x, In x (map fst (lookup_of es)) -> (length x <= t_max_text t)%nat) /\
  (forall x, In x (map snd (lookup_of es)) -> (length x <= t_max_bytes t)%nat).
Proof.
  unfold table_of_entries, include. destruct (fold_parse es empty_table) as [H1 H2].
  cbn [t_lookup t_inv empty_table] in H1, H2. rewrite H1. fold (lookup_of es).
  destruct (max_len (map snd (lookup_of es))) as [mb| |] eqn:Eb; cbn [bind]; try discriminate.
  destruct (max_len (map fst (lookup_of es))) as [mt| |] eqn:Et; cbn [bind]; try discriminate.
  intros H. injection H as <-. cbn [t_lookup t_inv t_max_text t_max_bytes].
  repeat split; [exact H2|exact (max_len_ge _ _ Et)|exact (max_len_ge _ _ Eb)].
Qed.

Lemma table_of_entries_ok es : es <> [] -> exists t, table_of_entries es = Ok t.
Proof.
  intros Hne. unfold table_of_entries, include. destruct (fold_parse es empty_table) as [H1 _].
  cbn [t_lookup empty_table] in H1. rewrite H1.
  assert (Hd : build e_text e_code es [] <> []) by (apply build_nonempty; left; assumption).
  destruct (build e_text e_code es []) as [|p d] eqn:E; [contradiction|].
  cbn [map max_len bind]. eexists. reflexivity.
Qed.

Lemma table_of_entries_empty : table_of_entries [] = Err EValue.
Proof. reflexivity. Qed.

(** the dictionary means "the last line with that text" *)
Lemma lookup_assigns es x c : dict_get (lookup_of es) x = Some c <-> assigns es x c.
Proof.
  unfold lookup_of. rewrite build_get. cbn [dict_get]. split.
  - destruct (last_with e_text x es) as [e|] eqn:E; [|discriminate]. intros H. injection H as <-.
    apply last_with_some in E as (pre & post & -> & Hk & Hp).
    destruct e as [[t c] ig]. cbn [e_text e_code fst snd] in *. subst t.
    exists pre, ig, post. split; [reflexivity|assumption].
  - intros (pre & ig & post & -> & Hp).
    match goal with |- context [last_with ?f ?k ?l] =>
      replace (last_with f k l) with (Some (x, c, ig))
        by (symmetry; apply last_with_intro; [reflexivity|assumption]) end.
    reflexivity.
Qed.

Lemma lookup_none es x : dict_get (lookup_of es) x = None <-> ~ has_text es x.
Proof.
  unfold lookup_of. rewrite build_get. cbn [dict_get]. split.
  - destruct (last_with e_text x es) as [e|] eqn:E; [discriminate|]. intros _ (e & Hin & Ht).
    exact (last_with_none _ _ _ E e Hin Ht).
  - intros H. destruct (last_with e_text x es) as [e|] eqn:E; [|reflexivity]. exfalso. apply H.
    apply last_with_some in E as (pre & post & -> & Hk & _). exists e. split; [|assumption].
    apply in_or_app. right. left. reflexivity.
Qed.

Lemma assigns_has_text es x c : assigns es x c -> has_text es x.
Proof.
  intros (pre & ig & post & -> & _). exists (x, c, ig). split; [|reflexivity].
  apply in_or_app. right. left. reflexivity.
Qed.

Lemma assigns_in es x c : assigns es x c -> exists ig, In (x, c, ig) es.
Proof.
  intros (pre & ig & post & -> & _). exists ig. apply in_or_app. right. left. reflexivity.
Qed.

Lemma assigns_functional es x c c' : assigns es x c -> assigns es x c' -> c = c'.
Proof. intros H1 H2. apply lookup_assigns in H1, H2. congruence. Qed.

Lemma has_text_assigns es x : has_text es x -> exists c, assigns es x c.
Proof.
  intros H. destruct (dict_get (lookup_of es) x) as [c|] eqn:E.
  - exists c. apply lookup_assigns. assumption.
  - apply lookup_none in E. contradiction.
Qed.

(** * The length loop *)

Lemma try_lookup_some {V} (d : dict V) rem i v j : try_lookup d rem i = Some (v, j) ->
  (1 <= j <= i)%nat /\ dict_get d (firstn j rem) = Some v /\
  forall k, (j < k <= i)%nat -> dict_get d (firstn k rem) = None.
Proof.
  induction i as [|i IH]; cbn [try_lookup]; [discriminate|].
  destruct (dict_get d (firstn (S i) rem)) as [w|] eqn:E.
  - intros H. injection H as <- <-. repeat split; [lia|lia|assumption|intros; lia].
  - intros H. destruct (IH H) as (Hj & Hg & Hk). repeat split; [lia|lia|assumption|].
    intros k Hr. destruct (Nat.eq_dec k (S i)) as [->|Hne]; [assumption|apply Hk; lia].
Qed.

Lemma try_lookup_none {V} (d : dict V) rem i : try_lookup d rem i = None ->
  forall k, (1 <= k <= i)%nat -> dict_get d (firstn k rem) = None.
Proof.
  induction i as [|i IH]; cbn [try_lookup]; [intros _ k Hk; lia|].
  destruct (dict_get d (firstn (S i) rem)) as [w|] eqn:E; [discriminate|].
  intros H k Hk. destruct (Nat.eq_dec k (S i)) as [->|Hne]; [assumption|apply IH; [assumption|lia]].
Qed.
