(** C18: [.text] uses the table of the innermost enclosing scope that loaded one before it. *)
From Coq Require Import ZArith List Bool Lia Arith.
From A816 Require Import Spec.TableSpec Proofs.TableProofs Proofs.TableEncode.
Open Scope Z_scope.

Section StmtInd.
  Variable P : stmt -> Prop.
  Hypothesis HT : forall es, P (STable es).
  Hypothesis HX : forall s, P (SText s).
  Hypothesis HB : forall body, Forall P body -> P (SBlock body).
  Fixpoint stmt_ind2 (st : stmt) : P st :=
    match st with
    | STable es => HT es
    | SText s => HX s
    | SBlock body =>
        HB body ((fix go (l : list stmt) : Forall P l :=
                    match l with
                    | [] => Forall_nil P
                    | x :: r => Forall_cons x (stmt_ind2 x) (go r)
                    end) body)
    end.
End StmtInd.

Lemma gen_block body chain :
  gen_stmt (SBlock body) chain = (do r <- gen_body body (None :: chain); Ok (tl (fst r), snd r)).
Proof.
  cbn [gen_stmt].
  match goal with |- bind (?F body (None :: chain)) _ = _ =>
    assert (HF : forall l ch, F l ch = gen_body l ch) end.
  { induction l as [|x l IH]; intros ch; [reflexivity|]. cbn [gen_body].
    destruct (gen_stmt x ch) as [r1| |]; cbn [bind]; [|reflexivity|reflexivity]. rewrite IH. reflexivity. }
  rewrite HF. reflexivity.
Qed.

Lemma spec_block cur body : spec_stmt cur (SBlock body) = (cur, spec_body body cur).
Proof. reflexivity. Qed.

Definition tbl_rel (ot : option table) (oes : option (list entry)) : Prop :=
  match ot, oes with
  | Some t, Some es => table_of_entries es = Ok t
  | None, None => True
  | _, _ => False
  end.
Definition node_rel (n : text_node) (sn : option (list entry) * str) : Prop :=
  snd n = snd sn /\ tbl_rel (fst n) (fst sn).
Definition cur_rel (cur : option (list entry)) (chain : list (option table)) : Prop :=
  tbl_rel (get_table chain) cur.

Definition stmt_ok (st : stmt) : Prop :=
  forall chain cur chain' nodes, chain <> [] -> cur_rel cur chain ->
    gen_stmt st chain = Ok (chain', nodes) ->
    Forall2 node_rel nodes (snd (spec_stmt cur st)) /\ cur_rel (fst (spec_stmt cur st)) chain' /\
    tl chain' = tl chain /\ chain' <> [].

Lemma body_ok l : Forall stmt_ok l ->
  forall chain cur chain' nodes, chain <> [] -> cur_rel cur chain ->
    gen_body l chain = Ok (chain', nodes) ->
    Forall2 node_rel nodes (spec_body l cur) /\ tl chain' = tl chain /\ chain' <> [].
Proof.
  induction 1 as [|x l Hx _ IH]; intros chain cur chain' nodes Hne Hc H; cbn [gen_body spec_body] in *.
  - injection H as <- <-. repeat split; [constructor|assumption].
  - destruct (gen_stmt x chain) as [[ch1 n1]| |] eqn:E1; cbn [bind fst snd] in H; try discriminate.
    destruct (gen_body l ch1) as [[ch2 n2]| |] eqn:E2; cbn [bind fst snd] in H; try discriminate.
    injection H as <- <-.
    destruct (Hx _ _ _ _ Hne Hc E1) as (F1 & C1 & T1 & N1).
    destruct (IH _ _ _ _ N1 C1 E2) as (F2 & T2 & N2).
    repeat split; [apply Forall2_app; assumption|congruence|assumption].
Qed.

Lemma all_stmt_ok : forall st, stmt_ok st.
Proof.
  apply stmt_ind2.
  - intros es chain cur chain' nodes Hne Hc H. cbn [gen_stmt spec_stmt fst snd] in *.
    destruct (table_of_entries es) as [t| |] eqn:Et; cbn [bind] in H; try discriminate.
    injection H as <- <-. destruct chain as [|o parents]; [contradiction|]. cbn [set_current_table tl].
    repeat split; [constructor|exact Et|discriminate].
  - intros s chain cur chain' nodes Hne Hc H. cbn [gen_stmt spec_stmt fst snd] in *.
    injection H as <- <-. repeat split; [|assumption|assumption].
    constructor; [|constructor]. split; [reflexivity|exact Hc].
  - intros body HF chain cur chain' nodes Hne Hc H. rewrite gen_block in H. rewrite spec_block. cbn [fst snd].
    destruct (gen_body body (None :: chain)) as [[ch n]| |] eqn:E; cbn [bind fst snd] in H; try discriminate.
    injection H as <- <-.
    destruct (body_ok _ HF (None :: chain) cur ch n) as (F & T & N); [discriminate|exact Hc|exact E|].
    cbn [tl] in T. rewrite T. repeat split; assumption.
Qed.

Theorem scope_nodes prog r : gen_body prog [None] = Ok r -> Forall2 node_rel (snd r) (spec_texts prog).
Proof.
  destruct r as [ch nodes]. intros H. unfold spec_texts.
  refine (proj1 (body_ok prog _ [None] None ch nodes _ _ H)).
  - apply Forall_forall. intros st _. apply all_stmt_ok.
  - discriminate.
  - exact I.
Qed.

Lemma emit_spec nodes snodes : Forall2 node_rel nodes snodes ->
  forall bs, emit_texts nodes = Ok bs <-> EmitSpec snodes bs.
Proof.
  induction 1 as [|[ot s] [oes s'] nodes snodes [Hs Ht] _ IH]; intros bs.
  - cbn. split; [intros H; injection H as <-; constructor|intros H; inversion H; reflexivity].
  - cbn [fst snd] in Hs, Ht. subst s'. cbn [emit_texts]. unfold text_emit, binary_text.
    destruct ot as [t|], oes as [es|]; cbn [tbl_rel] in Ht; try contradiction.
    + split.
      * destruct (to_bytes t s) as [b| |] eqn:Eb; cbn [bind]; try discriminate.
        destruct (emit_texts nodes) as [bs'| |] eqn:Ee; cbn [bind]; try discriminate.
        intros H. injection H as <-. constructor; [apply (to_bytes_spec _ _ Ht); assumption|apply IH; reflexivity].
      * intros H. inversion H as [|? ? ? b bs' Hb He]; subst.
        apply (to_bytes_spec _ _ Ht) in Hb. apply IH in He. rewrite Hb, He. reflexivity.
    + split; [cbn [bind]; discriminate|intros H; inversion H].
Qed.

(** emitted bytes = every text tokenised under its lexically visible table *)
Theorem scope_program prog r : gen_body prog [None] = Ok r ->
  forall bs, assemble_texts prog = Ok bs <-> EmitSpec (spec_texts prog) bs.
Proof.
  intros H bs. unfold assemble_texts. rewrite H. cbn [bind]. apply emit_spec. apply scope_nodes. assumption.
Qed.
