(** C18, scoping clause: the passes (resolve_labels, emit) on the node lists the embedded
    mini-language produces -- TextNode, TableNode, ScopeNode, PopScopeNode behind one
    CodePositionNode.  The scope nodes move the resolver as [replay] predicts, a TextNode advances
    the address by the length of its encoding and emits that encoding: the output is ONE block, the
    concatenation of the encodings, at the file offset of the origin; the first encoding that raises
    aborts the assembly with that exception (in the first pass). *)
From Coq Require Import ZArith List Bool Lia ZifyBool.
From A816 Require Import Spec.BusLaws Model.Assemble Proofs.BusProofs Proofs.NodeProofs Spec.EnvSem
  Proofs.ResolverProofs Proofs.ReplayProofs Proofs.DataTextGen Proofs.TableScopeRule Proofs.TableScopeLink.
Import ListNotations.
Open Scope Z_scope.

(** all encodings in order; the first failing one is the result *)
Fixpoint run_encs (encs : list (res bytes)) : res bytes :=
  match encs with
  | [] => Ok []
  | e :: r => do b <- e; do bs <- run_encs r; Ok (b ++ bs)
  end.
(** bytes in front of the first failing encoding *)
Fixpoint prefix_len (encs : list (res bytes)) : Z :=
  match encs with
  | Ok b :: r => Z.of_nat (length b) + prefix_len r
  | _ => 0
  end.

Lemma prefix_len_nonneg encs : 0 <= prefix_len encs.
Proof. induction encs as [|[b| |] r IH]; cbn [prefix_len]; lia. Qed.
Lemma run_encs_len encs bs : run_encs encs = Ok bs -> prefix_len encs = Z.of_nat (length bs).
Proof.
  revert bs. induction encs as [|[b| |] r IH]; intros bs H; cbn [run_encs bind prefix_len] in *; try discriminate.
  - injection H as <-. reflexivity.
  - destruct (run_encs r) as [bs'| |]; cbn [bind] in H; try discriminate. injection H as <-.
    rewrite (IH bs' eq_refl), app_length. lia.
Qed.

Definition nlen (n : node) : Z :=
  match n with NText (Ok b) _ => Z.of_nat (length b) | _ => 0 end.

(** what the scope nodes of [ns] do from resolver [r], whatever is appended to the scope list *)
Definition Rep (r : rstate) (ns : list node) (c' l' : nat) : Prop :=
  forall sc, ext (r_scopes r) sc -> replay sc ns (r_cur r) (r_last r) = Some (c', l').

Lemma Rep_skip r n ns c' l' : (match n with NScope | NPop => False | _ => True end) ->
  Rep r (n :: ns) c' l' -> Rep r ns c' l'.
Proof. intros Hn H sc E. specialize (H sc E). destruct n; try contradiction; exact H. Qed.

Lemma Rep_scope r ns c' l' : Rep r (NScope :: ns) c' l' ->
  use_next_scope r = Ok (set_cur_last r (S (r_last r)) (S (r_last r))) /\
  Rep (set_cur_last r (S (r_last r)) (S (r_last r))) ns c' l'.
Proof.
  intros H. pose proof (H _ (ext_refl _)) as H0. cbn [replay] in H0.
  destruct (Nat.ltb (S (r_last r)) (length (r_scopes r))) eqn:L; [|discriminate].
  apply Nat.ltb_lt in L. split.
  - unfold use_next_scope. destruct (nth_error (r_scopes r) (S (r_last r))) eqn:N; [reflexivity|].
    apply nth_error_None in N. lia.
  - intros sc E. cbn [set_cur_last r_scopes r_cur r_last] in *. specialize (H sc E). cbn [replay] in H.
    destruct E as [El _]. destruct (Nat.ltb (S (r_last r)) (length sc)) eqn:L'; [exact H|].
    apply Nat.ltb_ge in L'. lia.
Qed.

Lemma Rep_pop r ns c' l' e : Rep r (NPop :: ns) c' l' ->
  exists r1, restore_scope r e = Ok r1 /\ r_last r1 = r_last r /\ ext (r_scopes r) (r_scopes r1) /\
             same_regs r r1 /\ Rep r1 ns c' l'.
Proof.
  intros H. pose proof (H _ (ext_refl _)) as H0. cbn [replay] in H0. unfold restore_scope.
  destruct (nth_error (r_scopes r) (r_cur r)) as [s|] eqn:N; [|discriminate].
  destruct (s_parent s) as [p|] eqn:P; [|discriminate].
  eexists. split; [reflexivity|].
  set (r1 := match s_kind s with
             | SNamed name => if e then upd_scope r p (export_into name (s_symbols s)) else r
             | _ => r end).
  assert (E1 : ext (r_scopes r) (r_scopes r1) /\ r_last r1 = r_last r /\ same_regs r r1).
  { unfold r1. destruct (s_kind s); try (split; [apply ext_refl|split; [reflexivity|apply same_regs_refl]]).
    destruct e; [|split; [apply ext_refl|split; [reflexivity|apply same_regs_refl]]].
    split; [|split; [reflexivity|repeat split]]. unfold upd_scope. cbn [set_scopes r_scopes].
    apply ext_update. intros s0. apply export_into_parent. }
  destruct E1 as (E1 & L1 & S1). cbn [set_cur r_last r_scopes r_cur].
  split; [exact L1|]. split; [exact E1|]. split; [exact S1|].
  intros sc E. cbn [set_cur r_last r_scopes r_cur] in *. rewrite L1.
  specialize (H sc (ext_trans _ _ _ E1 E)). cbn [replay] in H.
  destruct (ext_trans _ _ _ E1 E) as [_ Ex]. destruct (Ex _ _ N) as (s1 & N1 & P1).
  rewrite N1, P1, P in H. exact H.
Qed.

Section Engine.
  Variable w : world.
  Variable low : bus.
  Variable m : mapping.
  Hypothesis Hcov : covers low m.
  Hypothesis Hmask : mask_ok m.
  Hypothesis Hrom : m_writable m = false.
  Local Notation A := (A m).
  Local Notation at_ := (at_ low).

  Fixpoint addrs_tn (q : Z) (ns : list node) : list Z :=
    match ns with [] => [] | n :: r => A q :: addrs_tn (q + nlen n) r end.

  (** ** first pass (label_pass) *)
  Lemma label_pass_tn : forall ns r q rest acc c' l', Forall tnode ns -> Rep r ns c' l' ->
    0 <= q -> q + prefix_len (text_encs ns) < rsize m ->
    match run_encs (text_encs ns) with
    | Ok bs => exists r', label_pass w r (ns ++ rest) (at_ (A q)) acc
                          = label_pass w r' rest (at_ (A (q + Z.of_nat (length bs)))) (acc ++ addrs_tn q ns) /\
                          r_cur r' = c' /\ r_last r' = l' /\ ext (r_scopes r) (r_scopes r') /\ same_regs r r' /\
                          (Forall (fun n => n <> NPop) ns -> r_scopes r' = r_scopes r)
    | Err k => label_pass w r (ns ++ rest) (at_ (A q)) acc = Err k
    | OutOfFuel => label_pass w r (ns ++ rest) (at_ (A q)) acc = OutOfFuel
    end.
  Proof.
    induction ns as [|n ns IH]; intros r q rest acc c' l' Ht Hrep Hq Hfit.
    - cbn. exists r. rewrite Z.add_0_r, app_nil_r. specialize (Hrep _ (ext_refl _)). cbn in Hrep.
      injection Hrep as <- <-. split; [reflexivity|]. split; [reflexivity|]. split; [reflexivity|]. split; [apply ext_refl|]. split; [apply same_regs_refl|reflexivity].
    - pose proof (Forall_inv Ht) as Hn. pose proof (Forall_inv_tail Ht) as Ht'.
      destruct n; try contradiction; cbn [app label_pass is_symbol_node pc_after].
      + (* NScope *)
        destruct (Rep_scope _ _ _ _ Hrep) as [E1 Hrep1]. rewrite E1. cbn [bind fst snd].
        specialize (IH _ q rest (acc ++ [a_val (at_ (A q))]) c' l' Ht' Hrep1 Hq Hfit).
        change (text_encs (NScope :: ns)) with (text_encs ns).
        destruct (run_encs (text_encs ns)) as [bs| |]; [|exact IH|exact IH].
        destruct IH as (r' & E & C & L & X & SR & NP). exists r'. rewrite E. cbn [addrs_tn nlen at_ DataTextGen.at_ a_val].
        rewrite Z.add_0_r, <- app_assoc. split; [reflexivity|]. split; [exact C|]. split; [exact L|]. split; [exact X|]. split; [exact SR|]. intros F; apply NP; exact (Forall_inv_tail F).
      + (* NPop *)
        destruct (Rep_pop _ _ _ _ true Hrep) as (r1 & E1 & L1 & X1 & SR1 & Hrep1). rewrite E1. cbn [bind fst snd].
        specialize (IH r1 q rest (acc ++ [a_val (at_ (A q))]) c' l' Ht' Hrep1 Hq Hfit).
        change (text_encs (NPop :: ns)) with (text_encs ns).
        destruct (run_encs (text_encs ns)) as [bs| |]; [|exact IH|exact IH].
        destruct IH as (r' & E & C & L & X & SR & NP). exists r'. rewrite E. cbn [addrs_tn nlen at_ DataTextGen.at_ a_val].
        rewrite Z.add_0_r, <- app_assoc. split; [reflexivity|]. split; [exact C|]. split; [exact L|].
        split; [eapply ext_trans; eauto|]. split; [eapply same_regs_trans; eauto|]. intros F; exfalso; exact (Forall_inv F eq_refl).
      + (* NTable *)
        cbn [bind fst snd]. pose proof (Rep_skip r NTable ns c' l' I Hrep) as Hrep1.
        specialize (IH r q rest (acc ++ [a_val (at_ (A q))]) c' l' Ht' Hrep1 Hq Hfit).
        change (text_encs (NTable :: ns)) with (text_encs ns).
        destruct (run_encs (text_encs ns)) as [bs| |]; [|exact IH|exact IH].
        destruct IH as (r' & E & C & L & X & SR & NP). exists r'. rewrite E. cbn [addrs_tn nlen at_ DataTextGen.at_ a_val].
        rewrite Z.add_0_r, <- app_assoc. split; [reflexivity|]. split; [exact C|]. split; [exact L|]. split; [exact X|]. split; [exact SR|]. intros F; apply NP; exact (Forall_inv_tail F).
      + (* NText *)
        pose proof (Rep_skip r (NText enc fi) ns c' l' I Hrep) as Hrep1.
        change (text_encs (NText enc fi :: ns)) with (enc :: text_encs ns) in *.
        cbn [run_encs]. destruct enc as [b| |]; cbn [bind]; [|reflexivity|reflexivity].
        cbn [prefix_len] in Hfit. pose proof (prefix_len_nonneg (text_encs ns)) as Hp.
        rewrite (adv low m Hcov Hmask Hrom q (Z.of_nat (length b))) by lia. cbn [bind fst snd].
        specialize (IH r (q + Z.of_nat (length b)) rest (acc ++ [a_val (at_ (A q))]) c' l' Ht' Hrep1 ltac:(lia) ltac:(lia)).
        destruct (run_encs (text_encs ns)) as [bs| |]; cbn [bind]; [|exact IH|exact IH].
        destruct IH as (r' & E & C & L & X & SR & NP). exists r'. rewrite E. cbn [addrs_tn nlen at_ DataTextGen.at_ a_val].
        rewrite app_length, Nat2Z.inj_add, Z.add_assoc, <- app_assoc. split; [reflexivity|]. split; [exact C|]. split; [exact L|]. split; [exact X|]. split; [exact SR|]. intros F; apply NP; exact (Forall_inv_tail F).
  Qed.

  (** ** second pass (symbol_pass) *)
  Lemma symbol_pass_tn : forall ns r q rest c' l' bs, Forall tnode ns -> Rep r ns c' l' ->
    run_encs (text_encs ns) = Ok bs -> 0 <= q -> q + Z.of_nat (length bs) < rsize m ->
    exists r', symbol_pass w r (ns ++ rest) (at_ (A q))
               = symbol_pass w r' rest (at_ (A (q + Z.of_nat (length bs)))) /\
               r_cur r' = c' /\ r_last r' = l' /\ ext (r_scopes r) (r_scopes r') /\ same_regs r r' /\
               (Forall (fun n => n <> NPop) ns -> r_scopes r' = r_scopes r).
  Proof.
    induction ns as [|n ns IH]; intros r q rest c' l' bs Ht Hrep Hrun Hq Hfit.
    - cbn in Hrun. injection Hrun as <-. cbn. exists r. rewrite Z.add_0_r. specialize (Hrep _ (ext_refl _)). cbn in Hrep.
      injection Hrep as <- <-. split; [reflexivity|]. split; [reflexivity|]. split; [reflexivity|]. split; [apply ext_refl|]. split; [apply same_regs_refl|reflexivity].
    - pose proof (Forall_inv Ht) as Hn. pose proof (Forall_inv_tail Ht) as Ht'.
      destruct n; try contradiction; cbn [app symbol_pass is_label_or_binary pc_after].
      + destruct (Rep_scope _ _ _ _ Hrep) as [E1 Hrep1]. rewrite E1. cbn [bind fst snd].
        destruct (IH _ q rest c' l' bs Ht' Hrep1 Hrun Hq Hfit) as (r' & E & C & L & X & SR & NP).
        exists r'. rewrite E. split; [reflexivity|]. split; [exact C|]. split; [exact L|]. split; [exact X|]. split; [exact SR|]. intros F; apply NP; exact (Forall_inv_tail F).
      + destruct (Rep_pop _ _ _ _ true Hrep) as (r1 & E1 & L1 & X1 & SR1 & Hrep1). rewrite E1. cbn [bind fst snd].
        destruct (IH r1 q rest c' l' bs Ht' Hrep1 Hrun Hq Hfit) as (r' & E & C & L & X & SR & NP).
        exists r'. rewrite E. split; [reflexivity|]. split; [exact C|]. split; [exact L|].
        split; [eapply ext_trans; eauto|]. split; [eapply same_regs_trans; eauto|]. intros F; exfalso; exact (Forall_inv F eq_refl).
      + cbn [bind fst snd]. pose proof (Rep_skip r NTable ns c' l' I Hrep) as Hrep1.
        destruct (IH r q rest c' l' bs Ht' Hrep1 Hrun Hq Hfit) as (r' & E & C & L & X & SR & NP).
        exists r'. rewrite E. split; [reflexivity|]. split; [exact C|]. split; [exact L|]. split; [exact X|]. split; [exact SR|]. intros F; apply NP; exact (Forall_inv_tail F).
      + pose proof (Rep_skip r (NText enc fi) ns c' l' I Hrep) as Hrep1.
        change (text_encs (NText enc fi :: ns)) with (enc :: text_encs ns) in Hrun. cbn [run_encs] in Hrun.
        destruct enc as [b| |]; cbn [bind] in Hrun; try discriminate.
        destruct (run_encs (text_encs ns)) as [bs'| |] eqn:Er; cbn [bind] in Hrun; try discriminate.
        injection Hrun as <-. rewrite app_length, Nat2Z.inj_add in *. cbn [bind].
        rewrite (adv low m Hcov Hmask Hrom q (Z.of_nat (length b))) by lia. cbn [bind fst snd].
        destruct (IH r (q + Z.of_nat (length b)) rest c' l' bs' Ht' Hrep1 eq_refl ltac:(lia) ltac:(lia))
          as (r' & E & C & L & X & SR & NP).
        exists r'. rewrite E, Z.add_assoc. split; [reflexivity|]. split; [exact C|]. split; [exact L|]. split; [exact X|]. split; [exact SR|]. intros F; apply NP; exact (Forall_inv_tail F).
  Qed.

  (** ** emission *)
  Lemma emit_loop_tn : forall ns r q blk baddr out rest raddrs c' l' bs, Forall tnode ns -> Rep r ns c' l' ->
    run_encs (text_encs ns) = Ok bs -> r_reloc r = at_ (A q) -> 0 <= q -> q + Z.of_nat (length bs) < rsize m ->
    exists r', emit_loop w {| e_r := r; e_block := blk; e_baddr := baddr; e_out := out |}
                         (ns ++ rest) (addrs_tn q ns ++ raddrs)
               = emit_loop w {| e_r := r'; e_block := blk ++ bs; e_baddr := baddr; e_out := out |} rest raddrs /\
               r_reloc r' = at_ (A (q + Z.of_nat (length bs))) /\
               r_cur r' = c' /\ r_last r' = l' /\ ext (r_scopes r) (r_scopes r') /\
               (Forall (fun n => n <> NPop) ns -> r_scopes r' = r_scopes r).
  Proof.
    induction ns as [|n ns IH]; intros r q blk baddr out rest raddrs c' l' bs Ht Hrep Hrun Hre Hq Hfit.
    - cbn in Hrun. injection Hrun as <-. cbn [app addrs_tn length]. exists r. rewrite Z.add_0_r, app_nil_r.
      specialize (Hrep _ (ext_refl _)). cbn in Hrep. injection Hrep as <- <-.
      split; [reflexivity|]. split; [exact Hre|]. split; [reflexivity|]. split; [reflexivity|]. split; [apply ext_refl|reflexivity].
    - pose proof (Forall_inv Ht) as Hn. pose proof (Forall_inv_tail Ht) as Ht'.
      destruct n; try contradiction; cbn [app addrs_tn emit_loop]; unfold emit_step at 1;
        cbn [e_r e_block e_baddr e_out]; rewrite Hre; cbn [at_ DataTextGen.at_ a_val]; rewrite Z.eqb_refl;
        cbn [negb node_emit].
      + destruct (Rep_scope _ _ _ _ Hrep) as [E1 Hrep1]. rewrite E1. cbn [bind is_codepos nlen]. rewrite app_nil_r, Z.add_0_r.
        destruct (IH _ q blk baddr out rest raddrs c' l' bs Ht' Hrep1 Hrun Hre Hq Hfit) as (r' & E & R' & C & L & X & NP).
        exists r'. rewrite E. split; [reflexivity|]. split; [exact R'|]. split; [exact C|]. split; [exact L|]. split; [exact X|]. intros F; apply NP; exact (Forall_inv_tail F).
      + destruct (Rep_pop _ _ _ _ false Hrep) as (r1 & E1 & L1 & X1 & SR1 & Hrep1). rewrite E1.
        cbn [bind is_codepos nlen]. rewrite app_nil_r, Z.add_0_r.
        assert (Hre1 : r_reloc r1 = at_ (A q)) by (destruct SR1 as (_ & S2 & _); rewrite S2; exact Hre).
        destruct (IH r1 q blk baddr out rest raddrs c' l' bs Ht' Hrep1 Hrun Hre1 Hq Hfit) as (r' & E & R' & C & L & X & NP).
        exists r'. rewrite E. split; [reflexivity|]. split; [exact R'|]. split; [exact C|]. split; [exact L|].
        split; [eapply ext_trans; eauto|]. intros F; exfalso; exact (Forall_inv F eq_refl).
      + cbn [bind is_codepos nlen]. rewrite app_nil_r, Z.add_0_r.
        pose proof (Rep_skip r NTable ns c' l' I Hrep) as Hrep1.
        destruct (IH r q blk baddr out rest raddrs c' l' bs Ht' Hrep1 Hrun Hre Hq Hfit) as (r' & E & R' & C & L & X & NP).
        exists r'. rewrite E. split; [reflexivity|]. split; [exact R'|]. split; [exact C|]. split; [exact L|]. split; [exact X|]. intros F; apply NP; exact (Forall_inv_tail F).
      + pose proof (Rep_skip r (NText enc fi) ns c' l' I Hrep) as Hrep1.
        change (text_encs (NText enc fi :: ns)) with (enc :: text_encs ns) in Hrun. cbn [run_encs] in Hrun.
        destruct enc as [b| |]; cbn [bind] in Hrun; try discriminate.
        destruct (run_encs (text_encs ns)) as [bs'| |] eqn:Er; cbn [bind] in Hrun; try discriminate.
        injection Hrun as <-. rewrite app_length, Nat2Z.inj_add in *. cbn [bind is_codepos nlen].
        assert (Hstep : exists r2,
                  (match b with
                   | [] => Ok r
                   | _ :: _ => do a' <- addr_plus (r_reloc r) (Z.of_nat (length b));
                               Ok (set_reloc (set_pc r (r_pc r + Z.of_nat (length b))) a')
                   end) = Ok r2 /\ r_reloc r2 = at_ (A (q + Z.of_nat (length b))) /\
                  r_scopes r2 = r_scopes r /\ r_cur r2 = r_cur r /\ r_last r2 = r_last r).
        { destruct b as [|z b'].
          - exists r. cbn [length Z.of_nat]. rewrite Z.add_0_r. auto.
          - rewrite Hre. rewrite (adv low m Hcov Hmask Hrom q (Z.of_nat (length (z :: b')))) by lia. cbn [bind].
            eexists. split; [reflexivity|]. cbn. auto. }
        destruct Hstep as (r2 & E2 & Hre2 & Hs2 & Hc2 & Hl2). rewrite E2. cbn [bind].
        assert (Hrep2 : Rep r2 ns c' l').
        { intros sc Hx. rewrite Hc2, Hl2. apply Hrep1. rewrite <- Hs2. exact Hx. }
        destruct (IH r2 (q + Z.of_nat (length b)) (blk ++ b) baddr out rest raddrs c' l' bs' Ht' Hrep2 eq_refl Hre2
                    ltac:(lia) ltac:(lia)) as (r' & E & R' & C & L & X & NP).
        exists r'. rewrite E, Z.add_assoc, <- app_assoc. split; [reflexivity|]. split; [exact R'|]. split; [exact C|].
        split; [exact L|]. split; [rewrite <- Hs2; exact X|]. intros F; rewrite <- Hs2; apply NP; exact (Forall_inv_tail F).
  Qed.
End Engine.

(** ** the whole run: resolve_labels, then emit *)
Section Run.
  Variable w : world.
  Variable low : bus.
  Variable m : mapping.
  Hypothesis Hcov : covers low m.
  Hypothesis Hmask : mask_ok m.
  Hypothesis Hrom : m_writable m = false.
  Local Notation A := (A m).
  Local Notation at_ := (at_ low).

  Variable rf : rstate.                       (* the resolver code generation leaves *)
  Hypothesis Hbus : r_bus rf = empty_bus.
  Hypothesis Hromt : w_builtin w (r_rom rf) = Ok low.
  Hypothesis Hcur : r_cur rf = 0%nat.
  Hypothesis Hre : r_reloc rf = at_ 0.
  Variable xo : expr.
  Variable fi : token.
  Variable org : Z.
  Hypothesis Horg_w : in_window m org.
  Hypothesis Horg_b : m_first m <= bank_of org <= m_last m.
  Hypothesis Hxo : forall r, eval_raw w r xo = Ok org.
  Local Notation p0 := (spec_offset m org).
  Variable ns : list node.
  Hypothesis Hns : Forall tnode ns.
  Variable l' : nat.
  Hypothesis Hrep : forall sc, ext (r_scopes rf) sc -> replay sc ns 0 0 = Some (0%nat, l').

  Let get_value_xo r : get_value w r xo = Ok org.
  Proof. unfold get_value. rewrite Hxo. reflexivity. Qed.
  Definition same_brr (r r' : rstate) : Prop :=
    r_reloc r' = r_reloc r /\ r_bus r' = r_bus r /\ r_rom r' = r_rom r.
  Let bus_of r : same_brr rf r -> get_bus w r = Ok low.
  Proof. intros (_ & B & Rm). unfold get_bus. rewrite B, Hbus, Rm. exact Hromt. Qed.
  Let p0_range : 0 <= p0.
  Proof.
    pose proof (spec_offset_range m org Hmask Horg_w) as [H _]. destruct Hmask as [E|E]; rewrite E in *; lia.
  Qed.

  Theorem tn_fail k : run_encs (text_encs ns) = Err k -> p0 + prefix_len (text_encs ns) < rsize m ->
    assemble_nodes w rf (NCodePos xo fi :: ns) = Err k.
  Proof.
    intros Hrun Hfit. pose proof (prefix_len_nonneg (text_encs ns)) as Hp.
    assert (Hp0r : 0 <= p0 < rsize m) by lia.
    unfold assemble_nodes, resolve_labels.
    set (r0 := set_cur_last rf (r_cur rf) 0).
    assert (S0 : same_brr rf r0) by (repeat split).
    change (r_reloc r0) with (r_reloc rf). rewrite Hre.
    cbn [label_pass is_symbol_node pc_after]. rewrite (get_value_xo r0), (bus_of r0 S0). cbn [bind].
    rewrite (mk_org low m Hcov Hmask org Horg_w Hp0r). cbn [bind fst snd app].
    rewrite (at_org low m Hmask org Horg_w).
    assert (Rep0 : Rep r0 ns 0 l') by (intros sc Hx; unfold r0; cbn [set_cur_last r_cur r_last]; rewrite Hcur; apply Hrep; exact Hx).
    pose proof (label_pass_tn w low m Hcov Hmask Hrom ns r0 p0 [] [a_val (at_ 0)] 0%nat l' Hns Rep0 p0_range Hfit) as L.
    rewrite Hrun in L. rewrite app_nil_r in L. rewrite L. reflexivity.
  Qed.

  Theorem tn_run bs : run_encs (text_encs ns) = Ok bs -> p0 + Z.of_nat (length bs) < rsize m ->
    exists o, assemble_nodes w rf (NCodePos xo fi :: ns) = Ok o /\
              o_blocks o = match bs with [] => [] | _ => [(bs, p0)] end.
  Proof.
    intros Hrun Hfit. pose proof (run_encs_len _ _ Hrun) as Hlen.
    assert (Hp0r : 0 <= p0 < rsize m) by lia.
    pose proof (at_org low m Hmask org Horg_w) as Eorg.
    unfold assemble_nodes, resolve_labels.
    set (r0 := set_cur_last rf (r_cur rf) 0).
    assert (S0 : same_brr rf r0) by (repeat split).
    change (r_reloc r0) with (r_reloc rf). rewrite Hre.
    (* first pass *)
    cbn [label_pass is_symbol_node pc_after]. rewrite (get_value_xo r0), (bus_of r0 S0). cbn [bind].
    rewrite (mk_org low m Hcov Hmask org Horg_w Hp0r). cbn [bind fst snd app]. rewrite Eorg.
    assert (Rep0 : Rep r0 ns 0 l') by (intros sc Hx; unfold r0; cbn [set_cur_last r_cur r_last]; rewrite Hcur; apply Hrep; exact Hx).
    pose proof (label_pass_tn w low m Hcov Hmask Hrom ns r0 p0 [] [a_val (at_ 0)] 0%nat l' Hns Rep0 p0_range
                  ltac:(rewrite Hlen; exact Hfit)) as L.
    rewrite Hrun in L. destruct L as (r1 & E1 & C1 & L1 & X1 & SR1 & _). rewrite app_nil_r in E1. rewrite E1. clear E1.
    cbn [label_pass bind].
    (* second pass *)
    set (r2 := resolver_reset r1).
    assert (S2 : same_brr rf r2).
    { destruct SR1 as (_ & B & C & D). repeat split; [exact B|exact C|exact D]. }
    assert (Hre2 : r_reloc r2 = at_ 0) by (destruct S2 as (B & _); rewrite B; exact Hre).
    rewrite Hre2.
    cbn [symbol_pass is_label_or_binary pc_after]. rewrite (get_value_xo r2), (bus_of r2 S2). cbn [bind].
    rewrite (mk_org low m Hcov Hmask org Horg_w Hp0r). cbn [bind fst snd]. rewrite Eorg.
    assert (Rep2 : Rep r2 ns 0 l') by (intros sc Hx; apply Hrep; exact (ext_trans _ _ _ X1 Hx)).
    destruct (symbol_pass_tn w low m Hcov Hmask Hrom ns r2 p0 [] 0%nat l' bs Hns Rep2 Hrun p0_range Hfit)
      as (r3 & E3 & C3 & L3 & X3 & SR3 & _).
    rewrite app_nil_r in E3. rewrite E3. clear E3. cbn [symbol_pass bind fst snd].
    (* emission *)
    set (r4 := resolver_reset r3).
    assert (S4 : same_brr rf r4).
    { destruct S2 as (B2 & C2 & D2). destruct SR3 as (_ & B & C & D).
      repeat split; [rewrite <- B2; exact B|rewrite <- C2; exact C|rewrite <- D2; exact D]. }
    assert (Hre4 : r_reloc r4 = at_ 0) by (destruct S4 as (B & _); rewrite B; exact Hre).
    unfold emit. cbn [emit_loop app].
    unfold emit_step at 1. cbn [e_r e_block e_baddr e_out]. rewrite Hre4. cbn [at_ DataTextGen.at_ a_val].
    change (0 =? 0) with true. cbn [negb node_emit].
    rewrite (get_value_xo r4). cbn [bind]. unfold set_position.
    rewrite (bus_of r4 S4). cbn [bind].
    rewrite (mk_org low m Hcov Hmask org Horg_w Hp0r). cbn [bind].
    rewrite (phys_org low m Hcov Hmask Hrom org Horg_w Hp0r). cbn [bind app is_codepos].
    set (r5 := set_reloc (set_pc r4 p0) (at_ org)).
    assert (Rep5 : Rep r5 ns 0 l') by (intros sc Hx; apply Hrep; exact (ext_trans _ _ _ (ext_trans _ _ _ X1 X3) Hx)).
    destruct (emit_loop_tn w low m Hcov Hmask Hrom ns r5 p0 [] (r_pc r5) [] [] [A (p0 + Z.of_nat (length bs))]
                0%nat l' bs Hns Rep5 Hrun Eorg p0_range Hfit) as (r6 & E6 & Hre6 & _).
    rewrite app_nil_r in E6. rewrite E6. clear E6.
    cbn [emit_loop e_r]. rewrite Hre6. cbn [at_ DataTextGen.at_ a_val]. rewrite Z.eqb_refl.
    cbn [negb bind e_r e_block e_baddr e_out app].
    eexists. split; [reflexivity|]. cbn [o_blocks fst snd]. destruct bs; reflexivity.
  Qed.
End Run.

Print Assumptions tn_run.
Print Assumptions tn_fail.
