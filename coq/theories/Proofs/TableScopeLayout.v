(** C18, layout clause at the level of the real node and of a whole assembly.

    - the address a TextNode hands on (pc_after) is the address it was given advanced by the length
      of EXACTLY the bytes its emit returns (both come from the one captured encoding);
    - composed: [*= org / .table path / .text 'abc' / end:] writes the encoding of the text under the
      loaded table at the offset of the origin and binds [end] to the address right after it. *)
From Coq Require Import ZArith List Bool Lia.
From A816 Require Import Model.Table Proofs.TableDecode Proofs.TableScope Spec.ExprSem Spec.BusLaws Model.Assemble Proofs.BusProofs
  Spec.EnvSem Proofs.ResolverProofs Proofs.ReplayProofs Proofs.DataTextGen Proofs.DataText Proofs.InsnText Proofs.LabelTextGen Proofs.LabelText
  Proofs.TableScopeRule Proofs.TableScopeLink Proofs.TableScopeEmit Proofs.TableScopeProgram.
Import ListNotations.
Open Scope Z_scope.

(** ** one node *)
Theorem text_node_layout w r enc fi a :
  pc_after w r (NText enc fi) a
  = (do rb <- node_emit w r (NText enc fi);
     do a' <- addr_plus a (Z.of_nat (length (snd rb))); Ok (r, a')).
Proof. cbn [pc_after node_emit]. destruct enc; reflexivity. Qed.

(** emission does not move the resolver, and returns the captured encoding *)
Theorem text_node_emit w r enc fi : node_emit w r (NText enc fi) = (do bs <- enc; Ok (r, bs)).
Proof. reflexivity. Qed.

(** the node [.text s] generates under the mini-language table [tbl]: Table.v's [text_pc_after] *)
Theorem text_node_layout_mini w r tbl s fi a :
  pc_after w r (NText (text_emit tbl s) fi) a
  = (do v <- text_pc_after (a_bus a) tbl s (a_val a); Ok (r, {| a_bus := a_bus a; a_val := v |})).
Proof.
  rewrite text_length_agrees. cbn [pc_after]. unfold addr_plus.
  destruct (text_emit tbl s) as [bs| |]; cbn [bind]; [|reflexivity|reflexivity].
  destruct (addr_add (a_bus a) (a_val a) (Z.of_nat (length bs))); reflexivity.
Qed.

(** on a covered ROM mapping: the next node is placed [length bs] further in the file *)
Theorem text_node_advance w low m r fi bs q : covers low m -> mask_ok m -> m_writable m = false ->
  0 <= q -> q + Z.of_nat (length bs) < rsize m ->
  pc_after w r (NText (Ok bs) fi) (at_ low (A m q)) = Ok (r, at_ low (A m (q + Z.of_nat (length bs)))) /\
  node_emit w r (NText (Ok bs) fi) = Ok (r, bs).
Proof.
  intros Hcov Hmask Hrom Hq Hfit. split; [|reflexivity]. cbn [pc_after bind].
  rewrite (adv low m Hcov Hmask Hrom q (Z.of_nat (length bs))) by lia. reflexivity.
Qed.

(** ** [*= org / .table path / .text text / name:] *)
Section Layout.
  Variable w : world.
  Variable low : bus.
  Variable m : mapping.
  Hypothesis Hcov : covers low m.
  Hypothesis Hmask : mask_ok m.
  Hypothesis Hrom : m_writable m = false.
  Variable ri : rstate.
  Hypothesis Hri : start_root w low ri.
  Variable xo : expr.
  Variables f0 f1 f2 ft : token.
  Variable org : Z.
  Hypothesis Horg_w : in_window m org.
  Hypothesis Horg_b : m_first m <= bank_of org <= m_last m.
  Hypothesis Hxo : forall r, eval_raw w r xo = Ok org.
  Variable path : str.
  Variable tf : str -> res bytes.
  Hypothesis Htable : w_table w path = Ok tf.
  Variable text : str.
  Variable bs : bytes.
  Hypothesis Henc : tf text = Ok bs.
  Variable name : str.
  Local Notation p0 := (spec_offset m org).
  Hypothesis Hfit : p0 + Z.of_nat (length bs) < rsize m.
  Local Notation A := (A m).
  Local Notation at_ := (at_ low).
  Local Notation src := [AStarEq xo f0; ATable path f1; AText text f2; ALabel name ft].

  Let get_value_xo r : get_value w r xo = Ok org.
  Proof. unfold get_value. rewrite Hxo. reflexivity. Qed.

  Lemma layout_codegen :
    code_gen_fuel w cg_depth {| cg_r := ri; cg_macros := [] |} src
    = Ok (cg_set_r {| cg_r := ri; cg_macros := [] |} (upd_scope ri 0 (scope_set_table tf)),
          [NCodePos xo f0; NTable; NText (Ok bs) f2; NLabel name]).
  Proof.
    set (s := {| cg_r := ri; cg_macros := [] |}).
    destruct Hri as (_ & _ & Hc & Hl & _ & s0 & Hs & Hp & Ht & _).
    rewrite cg_depth_S, code_gen_S. generalize (code_gen_fuel w 299). intros gen.
    cbn [gen_list]. rewrite (simple_star_eq w xo f0 gen s). cbn [bind fst snd].
    cbn [gen_one]. rewrite Htable. cbn [bind fst snd]. cbn [s cg_r]. rewrite Hc.
    set (s1 := cg_set_r s (upd_scope ri 0 (scope_set_table tf))).
    assert (K1 : cg_ok (cg_r s1)).
    { unfold s1, upd_scope. cbn [cg_set_r cg_r]. constructor; cbn [set_scopes r_scopes r_last r_cur]; rewrite Hs.
      - rewrite Hl. reflexivity.
      - rewrite Hc. cbn. lia.
      - intros i sc p Hn Hpp. destruct i as [|[|i]]; cbn in Hn; try discriminate. injection Hn as <-.
        cbn in Hpp. congruence. }
    assert (V1 : visible (cg_r s1) = Some tf).
    { unfold visible, chain_of, s1, upd_scope. cbn [cg_set_r cg_r set_scopes r_scopes r_cur]. rewrite Hs, Hc.
      reflexivity. }
    pose proof (gen_text w gen s1 text f2 K1) as G. rewrite V1, Henc in G.
    change (gen_one w gen s1 (AText text f2)) with
      (do t <- Resolver.get_table (cg_r s1);
       Ok (s1, [NText (match t with Some f => f text | None => Err ENode end) f2])) in G.
    rewrite G. cbn [bind fst snd app]. reflexivity.
  Qed.

  Theorem layout_program :
    exists o, assemble_ast w ri src = Ok o /\
              o_blocks o = match bs with [] => [] | _ => [(bs, p0)] end /\
              o_labels o = [(name, A (p0 + Z.of_nat (length bs)))].
  Proof.
    unfold assemble_ast. rewrite layout_codegen. cbn [bind fst snd cg_set_r cg_r].
    destruct Hri as (Hb & Hrt & Hc & Hl & Hre & s0 & Hs & Hp & Ht & Hlb & Hk).
    set (rf := upd_scope ri 0 (scope_set_table tf)).
    assert (Hp0 : 0 <= p0).
    { pose proof (spec_offset_range m org Hmask Horg_w) as [H _]. destruct Hmask as [E|E]; rewrite E in *; lia. }
    assert (Hp0r : 0 <= p0 < rsize m) by lia.
    pose proof (at_org low m Hmask org Horg_w) as Eorg.
    assert (Hbus : forall r, r_bus r = r_bus ri -> r_rom r = r_rom ri -> get_bus w r = Ok low).
    { intros r B Rm. unfold get_bus. rewrite B, Hb, Rm. exact Hrt. }
    remember [NTable; NText (Ok bs) f2] as ns eqn:Ens.
    assert (Hns : Forall tnode ns) by (rewrite Ens; repeat constructor).
    assert (Hnp : Forall (fun n => n <> NPop) ns) by (rewrite Ens; repeat constructor; discriminate).
    assert (Hrun : run_encs (text_encs ns) = Ok bs) by (rewrite Ens; cbn; rewrite app_nil_r; reflexivity).
    assert (Hrep : forall r, Rep r ns (r_cur r) (r_last r)) by (rewrite Ens; intros r sc _; reflexivity).
    assert (Hadd : forall q, addrs_tn m q ns = [A q; A (q + 0)]) by (rewrite Ens; reflexivity).
    pose proof (run_encs_len _ _ Hrun) as Hlen.
    replace [NCodePos xo f0; NTable; NText (Ok bs) f2; NLabel name] with (NCodePos xo f0 :: ns ++ [NLabel name])
      by (rewrite Ens; reflexivity).
    unfold assemble_nodes, resolve_labels.
    set (r0 := set_cur_last rf (r_cur rf) 0).
    change (r_reloc r0) with (r_reloc ri). rewrite Hre.
    (* first pass *)
    cbn [label_pass is_symbol_node pc_after]. rewrite (get_value_xo r0), (Hbus r0 eq_refl eq_refl). cbn [bind].
    rewrite (mk_org low m Hcov Hmask org Horg_w Hp0r). cbn [bind fst snd app]. rewrite Eorg.
    pose proof (label_pass_tn w low m Hcov Hmask Hrom ns r0 p0 [NLabel name] [a_val (at_ 0)] _ _ Hns (Hrep r0) Hp0
                  ltac:(rewrite Hlen; exact Hfit)) as L.
    rewrite Hrun in L. destruct L as (r1 & E1 & C1 & L1 & _ & (_ & SR1b & SR1c & SR1d) & NP1).
    specialize (NP1 Hnp). rewrite E1. clear E1.
    cbn [label_pass is_symbol_node pc_after bind fst snd at_ DataTextGen.at_ a_val].
    set (qe := p0 + Z.of_nat (length bs)) in *.
    set (rL := add_label r1 name (A qe)).
    (* second pass *)
    set (r2 := resolver_reset rL).
    change (r_reloc r2) with (r_reloc r1). rewrite SR1b. change (r_reloc r0) with (r_reloc ri). rewrite Hre.
    cbn [symbol_pass is_label_or_binary pc_after]. rewrite (get_value_xo r2), (Hbus r2 SR1c SR1d). cbn [bind].
    rewrite (mk_org low m Hcov Hmask org Horg_w Hp0r). cbn [bind fst snd]. rewrite Eorg.
    destruct (symbol_pass_tn w low m Hcov Hmask Hrom ns r2 p0 [NLabel name] _ _ bs Hns (Hrep r2) Hrun Hp0 Hfit)
      as (r3 & E3 & C3 & L3 & _ & (_ & SR3b & SR3c & SR3d) & NP3).
    specialize (NP3 Hnp). rewrite E3. clear E3. cbn [symbol_pass is_label_or_binary bind fst snd].
    (* emission *)
    set (r4 := resolver_reset r3).
    assert (Hre4 : r_reloc r4 = at_ 0).
    { change (r_reloc r4) with (r_reloc r3). rewrite SR3b. change (r_reloc r2) with (r_reloc r1). rewrite SR1b. exact Hre. }
    assert (Hb4 : r_bus r4 = r_bus ri) by (change (r_bus r4) with (r_bus r3); rewrite SR3c; exact SR1c).
    assert (Hr4 : r_rom r4 = r_rom ri) by (change (r_rom r4) with (r_rom r3); rewrite SR3d; exact SR1d).
    unfold emit. cbn [emit_loop app].
    unfold emit_step at 1. cbn [e_r e_block e_baddr e_out]. rewrite Hre4. cbn [at_ DataTextGen.at_ a_val].
    change (0 =? 0) with true. cbn [negb node_emit].
    rewrite (get_value_xo r4). cbn [bind]. unfold set_position.
    rewrite (Hbus r4 Hb4 Hr4). cbn [bind].
    rewrite (mk_org low m Hcov Hmask org Horg_w Hp0r). cbn [bind].
    rewrite (phys_org low m Hcov Hmask Hrom org Horg_w Hp0r). cbn [bind app is_codepos].
    set (r5 := set_reloc (set_pc r4 p0) (at_ org)).
    destruct (emit_loop_tn w low m Hcov Hmask Hrom ns r5 p0 [] (r_pc r5) [] [NLabel name] [A qe; A qe]
                _ _ bs Hns (Hrep r5) Hrun Eorg Hp0 Hfit) as (r6 & E6 & Hre6 & _ & _ & _ & NP6).
    specialize (NP6 Hnp).
    rewrite <- (app_assoc (addrs_tn m p0 ns) [A qe] [A qe]). cbn [app] in E6 |- *. rewrite E6. clear E6.
    cbn [emit_loop]. unfold emit_step at 1. cbn [e_r e_block e_baddr e_out]. rewrite Hre6.
    cbn [at_ DataTextGen.at_ a_val]. fold qe. rewrite Z.eqb_refl. cbn [negb node_emit bind is_codepos]. rewrite app_nil_r.
    cbn [e_r]. rewrite Hre6. cbn [at_ DataTextGen.at_ a_val]. fold qe. rewrite Z.eqb_refl.
    cbn [negb bind e_r e_block e_baddr e_out app].
    eexists. split; [reflexivity|]. cbn [o_blocks o_labels o_final fst snd]. split.
    - destruct bs; reflexivity.
    - unfold get_all_labels. rewrite NP6. change (r_scopes r5) with (r_scopes r3). rewrite NP3.
      change (r_scopes r2) with (r_scopes rL). unfold rL, add_label, upd_scope. cbn [r_scopes set_scopes].
      rewrite NP1, C1. change (r_scopes r0) with (r_scopes rf). change (r_cur r0) with (r_cur ri). rewrite Hc.
      unfold rf, upd_scope. cbn [r_scopes set_scopes]. rewrite Hs.
      cbn [list_update flat_map scope_add_label scope_set_table s_kind s_labels]. rewrite Hk, Hlb. reflexivity.
  Qed.

  (** in the bank of the origin the label is simply [org + length bs] *)
  Corollary layout_program_bank : org mod 65536 + Z.of_nat (length bs) < 65536 ->
    exists o, assemble_ast w ri src = Ok o /\
              o_blocks o = match bs with [] => [] | _ => [(bs, p0)] end /\
              o_labels o = [(name, org + Z.of_nat (length bs))].
  Proof.
    intros Hb. destruct layout_program as (o & E & B & L). exists o. split; [exact E|]. split; [exact B|].
    rewrite L. rewrite (A_same_bank m org (Z.of_nat (length bs)) Hmask Horg_w ltac:(lia) Hb). reflexivity.
  Qed.
End Layout.

Print Assumptions text_node_layout_mini.
Print Assumptions layout_program_bank.

(* ------------------------------------------------------------------------------------------ *)
(** * On the built-in LoROM bus, with the table files of a file system *)

Lemma world_of_tables t fs pth tabs :
  Forall (fun es => assoc_str (sf_tbl fs) (pth es) = Some es) tabs -> world_tables (world_of t fs) pth tabs.
Proof.
  intros H. unfold world_tables. eapply Forall_impl; [|exact H]. intros es E. cbn beta in E.
  cbn [world_of w_table]. rewrite E. reflexivity.
Qed.

Theorem embed_assemble_lorom t fs c xo fi0 org pth fi prog bs :
  bus_agree_b (lv_low t) lorom = true -> low_rom_config t c ->
  (0 <= bank_of org <= 111 \/ 128 <= bank_of org <= 207) -> 32768 <= org mod 65536 ->
  (forall r, eval_raw (world_of t fs) r xo = Ok org) ->
  (ldepth prog < cg_depth)%nat ->
  Forall (fun es => assoc_str (sf_tbl fs) (pth es) = Some es) (prog_tables prog) ->
  assemble_texts prog = Ok bs ->
  lorom_offset org + Z.of_nat (length bs) < (if bank_of org <? 128 then 112 else 80) * 32768 ->
  exists ri o, initial_resolver (world_of t fs) c = Ok ri /\
    assemble_ast (world_of t fs) ri (AStarEq xo fi0 :: embed pth fi prog) = Ok o /\
    o_blocks o = match bs with [] => [] | _ => [(bs, lorom_offset org)] end.
Proof.
  intros Hag Hcfg Hbank Hwin Hxo Hd Hfs Hasm Hfit.
  destruct (lorom_range t c org Hag Hcfg Hbank Hwin)
    as (m & Hlow & Hphys & Hrt & Hcov & Hmask & Hrom & Hw & Hb & Eoff & Ers & _).
  destruct (initial_resolver_start (world_of t fs) c (lv_low t) (Some 0) Hlow Hphys Hrt) as (ri & Ei & Hri).
  destruct (embed_assemble (world_of t fs) (lv_low t) m Hcov Hmask Hrom ri Hri xo fi0 org Hw Hb Hxo pth fi prog Hd
              (world_of_tables t fs pth _ Hfs) bs Hasm ltac:(rewrite Eoff, Ers; exact Hfit)) as (o & E & B).
  exists ri, o. split; [exact Ei|]. split; [exact E|]. rewrite B, Eoff. reflexivity.
Qed.

Theorem embed_assemble_err_lorom t fs c xo fi0 org pth fi prog k :
  bus_agree_b (lv_low t) lorom = true -> low_rom_config t c ->
  (0 <= bank_of org <= 111 \/ 128 <= bank_of org <= 207) -> 32768 <= org mod 65536 ->
  (forall r, eval_raw (world_of t fs) r xo = Ok org) ->
  (ldepth prog < cg_depth)%nat ->
  Forall (fun es => assoc_str (sf_tbl fs) (pth es) = Some es) (prog_tables prog) ->
  assemble_texts prog = Err k ->
  (forall ch tn, gen_body prog [None] = Ok (ch, tn) ->
     lorom_offset org + prefix_len (map enc_of tn) < (if bank_of org <? 128 then 112 else 80) * 32768) ->
  exists ri, initial_resolver (world_of t fs) c = Ok ri /\
    assemble_ast (world_of t fs) ri (AStarEq xo fi0 :: embed pth fi prog) = Err k.
Proof.
  intros Hag Hcfg Hbank Hwin Hxo Hd Hfs Hasm Hfit.
  destruct (lorom_range t c org Hag Hcfg Hbank Hwin)
    as (m & Hlow & Hphys & Hrt & Hcov & Hmask & Hrom & Hw & Hb & Eoff & Ers & _).
  destruct (initial_resolver_start (world_of t fs) c (lv_low t) (Some 0) Hlow Hphys Hrt) as (ri & Ei & Hri).
  exists ri. split; [exact Ei|].
  apply (embed_assemble_err (world_of t fs) (lv_low t) m Hcov Hmask Hrom ri Hri xo fi0 org Hw Hb Hxo pth fi prog Hd
           (world_of_tables t fs pth _ Hfs) k Hasm).
  intros ch tn G. rewrite Eoff, Ers. exact (Hfit ch tn G).
Qed.

(** [*= org / .table path / .text text / name:] with the table file [es] of the file system *)
Theorem layout_lorom t fs c xo f0 f1 f2 ft org path es tb text bs name :
  bus_agree_b (lv_low t) lorom = true -> low_rom_config t c ->
  (0 <= bank_of org <= 111 \/ 128 <= bank_of org <= 207) -> 32768 <= org mod 65536 ->
  (forall r, eval_raw (world_of t fs) r xo = Ok org) ->
  assoc_str (sf_tbl fs) path = Some es -> table_of_entries es = Ok tb -> to_bytes tb text = Ok bs ->
  org mod 65536 + Z.of_nat (length bs) < 65536 ->
  exists ri o, initial_resolver (world_of t fs) c = Ok ri /\
    assemble_ast (world_of t fs) ri [AStarEq xo f0; ATable path f1; AText text f2; ALabel name ft] = Ok o /\
    o_blocks o = match bs with [] => [] | _ => [(bs, lorom_offset org)] end /\
    o_labels o = [(name, org + Z.of_nat (length bs))].
Proof.
  intros Hag Hcfg Hbank Hwin Hxo Hfs Htb Henc Hfit.
  destruct (lorom_range t c org Hag Hcfg Hbank Hwin)
    as (m & Hlow & Hphys & Hrt & Hcov & Hmask & Hrom & Hw & Hb & Eoff & Ers & Hlt).
  destruct (initial_resolver_start (world_of t fs) c (lv_low t) (Some 0) Hlow Hphys Hrt) as (ri & Ei & Hri).
  assert (Htable : w_table (world_of t fs) path = Ok (to_bytes tb)).
  { cbn [world_of w_table]. rewrite Hfs, Htb. reflexivity. }
  assert (Hroom : spec_offset m org + Z.of_nat (length bs) < rsize m).
  { (* the text stays in the bank of the origin, hence in the ROM *)
    pose proof (Z.mod_pos_bound org 65536 ltac:(lia)) as Hr.
    rewrite Eoff, Ers. unfold lorom_offset.
    destruct (bank_of org <? 128) eqn:Eb; [apply Z.ltb_lt in Eb|apply Z.ltb_ge in Eb].
    - rewrite (Z.mod_small (bank_of org) 128) by lia. lia.
    - replace (bank_of org mod 128) with (bank_of org - 128) by (apply (Z.mod_unique _ _ 1); lia). lia. }
  destruct (layout_program_bank (world_of t fs) (lv_low t) m Hcov Hmask Hrom ri Hri xo f0 f1 f2 ft org Hw Hb Hxo
              path (to_bytes tb) Htable text bs Henc name Hroom Hfit) as (o & E & B & L).
  exists ri, o. split; [exact Ei|]. split; [exact E|]. split; [rewrite B, Eoff; reflexivity|exact L].
Qed.

(* ------------------------------------------------------------------------------------------ *)
(** * Non-vacuity *)

(** t1.tbl: "41=a"; t2.tbl: "42=a" / "43=b" *)
Definition demo_t1 : list entry := [([97], [65], None)].
Definition demo_t2 : list entry := [([97], [66], None); ([98], [67], None)].
Definition demo_pth (es : list entry) : str := [116; 48 + Z.of_nat (length es)].     (* "t1", "t2" *)
Definition demo_fs : srcfiles :=
  {| sf_text := []; sf_bin := []; sf_tbl := [(demo_pth demo_t1, demo_t1); (demo_pth demo_t2, demo_t2)] |}.
(** .table t1 / .text 'a' / { .text 'a' / .table t2 / .text 'ab' / { .text 'b' } } / .text 'a' *)
Definition demo_prog : list Table.stmt :=
  [STable demo_t1; SText [97];
   SBlock [SText [97]; STable demo_t2; SText [97; 98]; SBlock [SText [98]]];
   SText [97]].
Definition demo_xo : expr := flat org8000.
Definition demo_tok : token := mk_token T_EOF [].

Lemma demo_xo_eval r : eval_raw (world_of demo_live3 demo_fs) r demo_xo = Ok 32768.
Proof.
  apply (eval_raw_tree demo_live3 demo_fs r demo_xo org8000 32768); reflexivity.
Qed.

Example demo_scope_mini : assemble_texts demo_prog = Ok [65; 65; 66; 67; 67; 65].
Proof. vm_compute. reflexivity. Qed.

(** by the theorem ... *)
Example demo_scope_proved : exists ri o,
  initial_resolver (world_of demo_live3 demo_fs) demo_cfg = Ok ri /\
  assemble_ast (world_of demo_live3 demo_fs) ri (AStarEq demo_xo demo_tok :: embed demo_pth demo_tok demo_prog) = Ok o /\
  o_blocks o = [([65; 65; 66; 67; 67; 65], 0)].
Proof.
  destruct demo3_tables as (Hag & Hcfg & _).
  apply (embed_assemble_lorom demo_live3 demo_fs demo_cfg demo_xo demo_tok 32768 demo_pth demo_tok demo_prog
           [65; 65; 66; 67; 67; 65] Hag Hcfg).
  - left. vm_compute. split; discriminate.
  - vm_compute. discriminate.
  - exact demo_xo_eval.
  - vm_compute. lia.
  - repeat constructor.
  - exact demo_scope_mini.
  - vm_compute. reflexivity.
Qed.

(** ... and by running the model (the real assembler writes the same block: 41 41 42 43 43 41 at 0) *)
Example demo_scope_computed :
  match initial_resolver (world_of demo_live3 demo_fs) demo_cfg with
  | Ok ri => match assemble_ast (world_of demo_live3 demo_fs) ri
                     (AStarEq demo_xo demo_tok :: embed demo_pth demo_tok demo_prog) with
             | Ok o => Some (o_blocks o)
             | _ => None
             end
  | _ => None
  end = Some [([65; 65; 66; 67; 67; 65], 0)].
Proof. vm_compute. reflexivity. Qed.

(** a [.text] without any visible table: NodeError, by the theorem *)
Example demo_no_table : exists ri,
  initial_resolver (world_of demo_live3 demo_fs) demo_cfg = Ok ri /\
  assemble_ast (world_of demo_live3 demo_fs) ri
    (AStarEq demo_xo demo_tok :: embed demo_pth demo_tok [SBlock [STable demo_t1]; SText [97]]) = Err ENode.
Proof.
  destruct demo3_tables as (Hag & Hcfg & _).
  apply (embed_assemble_err_lorom demo_live3 demo_fs demo_cfg demo_xo demo_tok 32768 demo_pth demo_tok
           [SBlock [STable demo_t1]; SText [97]] ENode Hag Hcfg).
  - left. vm_compute. split; discriminate.
  - vm_compute. discriminate.
  - exact demo_xo_eval.
  - vm_compute. lia.
  - repeat constructor.
  - vm_compute. reflexivity.
  - intros ch tn G. vm_compute in G. injection G as <- <-. vm_compute. reflexivity.
Qed.

(** [*=0x8000 / .table t2 / .text 'ab' / end:] : bytes 42 43 at offset 0, end = 0x8002 *)
Example demo_layout : exists ri o,
  initial_resolver (world_of demo_live3 demo_fs) demo_cfg = Ok ri /\
  assemble_ast (world_of demo_live3 demo_fs) ri
    [AStarEq demo_xo demo_tok; ATable (demo_pth demo_t2) demo_tok; AText [97; 98] demo_tok; ALabel [101; 110; 100] demo_tok] = Ok o /\
  o_blocks o = [([66; 67], 0)] /\ o_labels o = [([101; 110; 100], 32770)].
Proof.
  destruct demo3_tables as (Hag & Hcfg & _).
  destruct (table_of_entries demo_t2) as [tb| |] eqn:Et; try (vm_compute in Et; discriminate).
  assert (Eb : to_bytes tb [97; 98] = Ok [66; 67]).
  { vm_compute in Et. injection Et as <-. vm_compute. reflexivity. }
  apply (layout_lorom demo_live3 demo_fs demo_cfg demo_xo demo_tok demo_tok demo_tok demo_tok 32768
           (demo_pth demo_t2) demo_t2 tb [97; 98] [66; 67] [101; 110; 100] Hag Hcfg).
  - left. vm_compute. split; discriminate.
  - vm_compute. discriminate.
  - exact demo_xo_eval.
  - reflexivity.
  - exact Et.
  - exact Eb.
  - vm_compute. reflexivity.
Qed.

Print Assumptions embed_assemble_lorom.
Print Assumptions embed_assemble_err_lorom.
Print Assumptions layout_lorom.
Print Assumptions demo_scope_proved.
Print Assumptions demo_no_table.
Print Assumptions demo_layout.
