(** C18, scoping clause: the mini-language of Model/Table.v ([stmt], [gen_body], [assemble_texts],
    the subject of C18_scope / C18_program) is LINKED to the real code-generation model.

    [embed] translates a mini-language program into the real AST (SBlock -> ACompound, STable ->
    ATable, SText -> AText); under a world whose [w_table] returns the tables of the program,
    [code_gen_fuel] on [embed prog] produces TextNodes carrying exactly the encodings
    [text_emit tbl s] of the (table, text) pairs [gen_body] computes, in the same order, and fails
    with the same exception when a table file cannot be loaded. *)
From Coq Require Import ZArith List Lia Bool Arith.
From A816 Require Import Model.Table Proofs.TableScope Model.Codegen Spec.EnvSem Proofs.ResolverProofs
  Proofs.ReplayProofs Proofs.TableScopeRule.
Import ListNotations.
Open Scope Z_scope.

(** ** the translation *)
Section Embed.
  Variable pth : list entry -> str.     (* the path under which a table file is known to the world *)
  Variable fi : token.

  Fixpoint embed_stmt (st : stmt) : ast :=
    match st with
    | STable es => ATable (pth es) fi
    | SText s => AText s fi
    | SBlock body => ACompound (map embed_stmt body) fi
    end.
  Definition embed (l : list stmt) : list ast := map embed_stmt l.
End Embed.

(** the table files a program loads *)
Fixpoint stmt_tables (st : stmt) : list (list entry) :=
  match st with
  | STable es => [es]
  | SText _ => []
  | SBlock body => flat_map stmt_tables body
  end.
Definition prog_tables (l : list stmt) : list (list entry) := flat_map stmt_tables l.

(** nesting depth of braces *)
Fixpoint sdepth (st : stmt) : nat :=
  match st with
  | SBlock body => S (fold_right Nat.max 0%nat (map sdepth body))
  | _ => 0%nat
  end.
Definition ldepth (l : list stmt) : nat := fold_right Nat.max 0%nat (map sdepth l).

(** the world knows the table files of the program: Table(path).to_bytes *)
Definition world_tables (w : world) (pth : list entry -> str) (tabs : list (list entry)) : Prop :=
  Forall (fun es => w_table w (pth es) = (do tb <- table_of_entries es; Ok (to_bytes tb))) tabs.

(** ** real scope chain vs. mini-language chain *)
Definition chain_rel (r : rstate) (chain : list (option table)) : Prop :=
  chain_of r = map (option_map to_bytes) chain.

Lemma first_some_map (l : list (option table)) :
  first_some (map (option_map to_bytes) l) = option_map to_bytes (Table.get_table l).
Proof. induction l as [|[t|] l IH]; cbn; auto. Qed.

(** the encoding a mini-language text node stands for; the encodings carried by real nodes *)
Definition enc_of (n : text_node) : res bytes := text_emit (fst n) (snd n).
Definition text_encs (ns : list node) : list (res bytes) :=
  flat_map (fun n => match n with NText enc _ => [enc] | _ => [] end) ns.
Definition tnode (n : node) : Prop :=
  match n with NText _ _ | NTable | NScope | NPop => True | _ => False end.
Definition same_regs (r r' : rstate) : Prop :=
  r_pc r' = r_pc r /\ r_reloc r' = r_reloc r /\ r_bus r' = r_bus r /\ r_rom r' = r_rom r.

Lemma same_regs_refl r : same_regs r r. Proof. repeat split. Qed.
Lemma same_regs_trans a b c : same_regs a b -> same_regs b c -> same_regs a c.
Proof. intros (A1 & A2 & A3 & A4) (B1 & B2 & B3 & B4). repeat split; congruence. Qed.

Lemma text_encs_app a b : text_encs (a ++ b) = text_encs a ++ text_encs b.
Proof. unfold text_encs. apply flat_map_app. Qed.

(** ** the mini-language keeps the tail of the chain (a block restores its parent's chain) *)
Lemma gen_stmt_tl : forall st chain chain' tn, gen_stmt st chain = Ok (chain', tn) ->
  tl chain' = tl chain /\ (chain <> [] -> chain' <> []).
Proof.
  apply (stmt_ind2 (fun st => forall chain chain' tn, gen_stmt st chain = Ok (chain', tn) ->
                                tl chain' = tl chain /\ (chain <> [] -> chain' <> []))).
  - intros es chain chain' tn H. cbn [gen_stmt] in H.
    destruct (table_of_entries es) as [t| |]; cbn [bind] in H; try discriminate.
    injection H as <- <-. destruct chain; cbn; split; auto; discriminate.
  - intros s chain chain' tn H. cbn [gen_stmt] in H. injection H as <- <-. auto.
  - intros body HF chain chain' tn H. rewrite gen_block in H.
    destruct (gen_body body (None :: chain)) as [[ch n]| |] eqn:E; cbn [bind fst snd] in H; try discriminate.
    injection H as <- <-.
    assert (G : forall l c c' n', Forall (fun st => forall chain chain' tn, gen_stmt st chain = Ok (chain', tn) ->
                                tl chain' = tl chain /\ (chain <> [] -> chain' <> [])) l ->
                gen_body l c = Ok (c', n') -> tl c' = tl c /\ (c <> [] -> c' <> [])).
    { clear. induction l as [|x l IH]; intros c c' n' HF H; cbn [gen_body] in H.
      - injection H as <- <-. auto.
      - destruct (gen_stmt x c) as [[c1 n1]| |] eqn:E1; cbn [bind fst snd] in H; try discriminate.
        destruct (gen_body l c1) as [[c2 n2]| |] eqn:E2; cbn [bind fst snd] in H; try discriminate.
        injection H as <- <-. destruct (Forall_inv HF _ _ _ E1) as [A1 A2].
        destruct (IH _ _ _ (Forall_inv_tail HF) E2) as [B1 B2]. split; [congruence|auto]. }
    destruct (G _ _ _ _ HF E) as [T N]. cbn [tl] in T. rewrite T. split; [reflexivity|auto].
Qed.

Lemma gen_body_tl : forall l c c' n', gen_body l c = Ok (c', n') -> tl c' = tl c /\ (c <> [] -> c' <> []).
Proof.
  induction l as [|x l IH]; intros c c' n' H; cbn [gen_body] in H.
  - injection H as <- <-. auto.
  - destruct (gen_stmt x c) as [[c1 n1]| |] eqn:E1; cbn [bind fst snd] in H; try discriminate.
    destruct (gen_body l c1) as [[c2 n2]| |] eqn:E2; cbn [bind fst snd] in H; try discriminate.
    injection H as <- <-. destruct (gen_stmt_tl _ _ _ _ E1) as [A1 A2].
    destruct (IH _ _ _ E2) as [B1 B2]. split; [congruence|auto].
Qed.

(** ** entering a scope keeps the invariant and the registers *)
Lemma enter_scope_ok r k r1 : cg_ok r -> enter_scope r k = Ok r1 -> cg_ok r1 /\ same_regs r r1.
Proof.
  intros [K1 K2 K3]. unfold enter_scope, use_next_scope, append_scope.
  cbn [set_scopes r_scopes r_last r_cur]. rewrite nth_error_app2 by lia. rewrite <- K1, Nat.sub_diag.
  cbn [nth_error]. intros H. injection H as <-. split; [|repeat split].
  constructor; cbn [set_cur_last set_scopes r_cur r_scopes r_last].
  - rewrite app_length. cbn [length]. lia.
  - rewrite app_length. cbn [length]. lia.
  - apply wf_append; assumption.
Qed.

(** ** the link at code generation *)
Definition link_res (s : cgstate) (mini : res (list (option table) * list text_node))
                    (real : res (cgstate * list node)) : Prop :=
  match mini with
  | Ok (chain', tn) =>
      exists s' ns, real = Ok (s', ns) /\ chain_rel (cg_r s') chain' /\
                    text_encs ns = map enc_of tn /\ Forall tnode ns /\
                    same_regs (cg_r s) (cg_r s') /\ cg_macros s' = cg_macros s
  | Err k => real = Err k
  | OutOfFuel => real = OutOfFuel
  end.

Section Link.
  Variable w : world.
  Variable pth : list entry -> str.
  Variable fi : token.
  Local Notation embed := (embed pth fi).
  Local Notation embed_stmt := (embed_stmt pth fi).

  Definition link_at (gen : cgstate -> list ast -> res (cgstate * list node)) (body : list stmt) : Prop :=
    forall s chain, cg_ok (cg_r s) -> chain_rel (cg_r s) chain -> world_tables w pth (prog_tables body) ->
      link_res s (gen_body body chain) (gen s (embed body)).

  Lemma chain_rel_ne r chain : cg_ok r -> chain_rel r chain -> chain <> [].
  Proof.
    intros [_ K2 _] H. unfold chain_rel, chain_of in H. rewrite chain_tables_S in H.
    destruct (nth_error (r_scopes r) (r_cur r)) eqn:E; [|apply nth_error_None in E; lia].
    intros ->. discriminate H.
  Qed.

  (** one statement, given the link for the bodies of blocks at the generator used for them *)
  Lemma link_stmt f (IHf : forall body, (ldepth body < f)%nat -> link_at (code_gen_fuel w f) body) :
    forall st s chain, (sdepth st <= f)%nat -> cg_ok (cg_r s) -> chain_rel (cg_r s) chain ->
      world_tables w pth (stmt_tables st) ->
      link_res s (gen_stmt st chain) (gen_one w (code_gen_fuel w f) s (embed_stmt st)).
  Proof.
    intros [es|text|body] s chain Hd K Hc Hw.
    - (* .table *)
      cbn [gen_stmt Link.embed_stmt]. pose proof (Forall_inv Hw) as Hwt. cbv beta in Hwt.
      pose proof (chain_rel_ne _ _ K Hc) as Hne.
      destruct (table_of_entries es) as [t| |] eqn:Et; cbn [bind link_res] in *.
      + destruct (gen_one w (code_gen_fuel w f) s (ATable (pth es) fi)) as [[s' ns]| |] eqn:G.
        2,3: cbn [gen_one] in G; rewrite Hwt in G; discriminate G.
        destruct (gen_table_visible _ _ _ _ _ _ _ K G) as (t' & Ht' & -> & Hcur & Hch & _).
        destruct (gen_table _ _ _ _ _ _ _ G) as (t'' & Ht'' & _ & Er & Em).
        rewrite Hwt in Ht'. injection Ht' as <-.
        exists s', [NTable]. split; [reflexivity|]. split.
        * unfold chain_rel in *. rewrite Hch, Hc. destruct chain as [|o ch]; [congruence|]. reflexivity.
        * split; [reflexivity|]. split; [repeat constructor|]. split; [|exact Em].
          rewrite Er. repeat split.
      + cbn [gen_one]. rewrite Hwt. reflexivity.
      + cbn [gen_one]. rewrite Hwt. reflexivity.
    - (* .text *)
      cbn [gen_stmt Link.embed_stmt link_res]. rewrite (gen_text w _ s text fi K).
      exists s, [NText (match visible (cg_r s) with Some g => g text | None => Err ENode end) fi].
      split; [reflexivity|]. split; [exact Hc|]. split.
      + cbn. unfold enc_of, text_emit, binary_text, visible. cbn [fst snd]. rewrite Hc, first_some_map.
        destruct (Table.get_table chain); reflexivity.
      + split; [repeat constructor|]. split; [apply same_regs_refl|reflexivity].
    - (* { ... } *)
      rewrite gen_block. cbn [Link.embed_stmt]. fold (embed body).
      rewrite compound_opens.
      destruct (scoped_body (code_gen_fuel w f) SPlain s (fun r => (r, [])) (embed body) K)
        as (r1 & Een & Ech & _ & Esc).
      destruct (enter_scope_ok _ _ _ K Een) as [K1 SR1].
      cbn [sdepth] in Hd. fold (ldepth body) in Hd.
      assert (Hc1 : chain_rel r1 (None :: chain)) by (unfold chain_rel in *; rewrite Ech, Hc; reflexivity).
      pose proof (IHf body ltac:(lia) (cg_set_r s r1) (None :: chain) K1 Hc1 Hw) as L.
      destruct (gen_body body (None :: chain)) as [[ch tn]| |] eqn:Eb; cbn [bind fst snd link_res] in *.
      + destruct L as (s3 & ns3 & G3 & Hc3 & He3 & Ht3 & SR3 & Em3).
        pose proof (code_gen_replay w f (cg_set_r s r1) _ _ _ K1 G3) as (K3 & C3 & E3 & _). cbn [cg_set_r cg_r] in C3, E3.
        destruct (enter_scope_chain (cg_r s) SPlain K) as (r1' & Een' & Hcur1 & Hsc1 & _).
        rewrite Een in Een'. injection Een' as <-.
        (* the restore *)
        assert (Hres : restore_scope (cg_r s3) false = Ok (set_cur (cg_r s3) (r_cur (cg_r s)))).
        { unfold restore_scope. rewrite C3, Hcur1.
          destruct E3 as [_ E3]. destruct (E3 (length (r_scopes (cg_r s))) (new_scope (Some (r_cur (cg_r s))) SPlain))
            as (s1 & N1 & P1).
          { rewrite Hsc1. rewrite nth_error_app2 by lia. rewrite Nat.sub_diag. reflexivity. }
          rewrite N1, P1. cbn [new_scope s_parent]. destruct (s_kind s1); reflexivity. }
        assert (Hsc : scoped (code_gen_fuel w f) SPlain s (fun r => (r, [])) (embed body)
                      = Ok (cg_set_r s3 (set_cur (cg_r s3) (r_cur (cg_r s))), NScope :: [] ++ ns3 ++ [NPop])).
        { rewrite Esc. cbv beta iota. rewrite G3. cbn [bind fst snd]. rewrite Hres. reflexivity. }
        exists (cg_set_r s3 (set_cur (cg_r s3) (r_cur (cg_r s)))), (NScope :: [] ++ ns3 ++ [NPop]).
        split; [exact Hsc|].
        destruct (scoped_invisible (code_gen_fuel w f) (code_gen_replay w f) (code_gen_ts w f)
                    SPlain s (fun r => (r, [])) (embed body) _ _
                    ltac:(intros r r' pns Hp; inversion Hp; subst; split; [apply benign_refl|]; split; [reflexivity|apply TSall_refl])
                    K Hsc) as (_ & Hinv & _).
        split.
        * unfold chain_rel. rewrite Hinv, Hc.
          destruct (gen_body_tl _ _ _ _ Eb) as [T _]. cbn [tl] in T. rewrite T. reflexivity.
        * split; [|split; [|split]].
          -- cbn [app]. change (NScope :: ns3 ++ [NPop]) with ([NScope] ++ ns3 ++ [NPop]).
             rewrite !text_encs_app. cbn. rewrite app_nil_r. exact He3.
          -- cbn [app]. constructor; [exact I|]. apply Forall_app. split; [exact Ht3|repeat constructor].
          -- cbn [cg_set_r cg_r]. apply (same_regs_trans _ r1); [exact SR1|].
             apply (same_regs_trans _ (cg_r s3)); [exact SR3|repeat split].
          -- cbn [cg_set_r cg_macros]. exact Em3.
      + rewrite Esc. cbv beta iota. rewrite L. reflexivity.
      + rewrite Esc. cbv beta iota. rewrite L. reflexivity.
  Qed.

  Lemma link_list f (IHf : forall body, (ldepth body < f)%nat -> link_at (code_gen_fuel w f) body) :
    forall prog s chain, Forall (fun st => (sdepth st <= f)%nat) prog -> cg_ok (cg_r s) ->
      chain_rel (cg_r s) chain -> world_tables w pth (prog_tables prog) ->
      link_res s (gen_body prog chain) (gen_list w (code_gen_fuel w f) s (embed prog)).
  Proof.
    induction prog as [|st prog IH]; intros s chain Hd K Hc Hw.
    - cbn. exists s, []. split; [reflexivity|]. split; [exact Hc|]. split; [reflexivity|].
      split; [constructor|]. split; [apply same_regs_refl|reflexivity].
    - unfold world_tables, prog_tables in Hw. cbn [flat_map] in Hw. apply Forall_app in Hw. destruct Hw as [Hw1 Hw2].
      pose proof (link_stmt f IHf st s chain (Forall_inv Hd) K Hc Hw1) as L1.
      cbn [gen_body Link.embed map gen_list]. fold (embed prog).
      destruct (gen_stmt st chain) as [[c1 t1]| |] eqn:E1; cbn [bind fst snd link_res] in *.
      + destruct L1 as (s1 & n1 & G1 & Hc1 & He1 & Ht1 & SR1 & Em1). rewrite G1. cbn [bind fst snd].
        pose proof (gen_one_R w _ (code_gen_replay w f) _ _ _ _ K G1) as (K1 & _).
        pose proof (IH s1 c1 (Forall_inv_tail Hd) K1 Hc1 Hw2) as L2.
        destruct (gen_body prog c1) as [[c2 t2]| |] eqn:E2; cbn [bind fst snd link_res] in *.
        * destruct L2 as (s2 & n2 & G2 & Hc2 & He2 & Ht2 & SR2 & Em2). rewrite G2. cbn [bind fst snd].
          exists s2, (n1 ++ n2). split; [reflexivity|]. split; [exact Hc2|]. split.
          -- rewrite text_encs_app, map_app, He1, He2. reflexivity.
          -- split; [apply Forall_app; auto|]. split; [eapply same_regs_trans; eauto|congruence].
        * rewrite L2. reflexivity.
        * rewrite L2. reflexivity.
      + rewrite L1. reflexivity.
      + rewrite L1. reflexivity.
  Qed.

  Lemma ldepth_forall l n : (ldepth l <= n)%nat -> Forall (fun st => (sdepth st <= n)%nat) l.
  Proof.
    induction l as [|x l IH]; intros H; constructor; unfold ldepth in *; cbn [map fold_right] in H.
    - lia.
    - apply IH. lia.
  Qed.

  (** The generator on the embedded program computes what [gen_body] computes. *)
  Theorem link_codegen : forall fuel body, (ldepth body < fuel)%nat -> link_at (code_gen_fuel w fuel) body.
  Proof.
    induction fuel as [|f IH]; intros body Hd; [lia|].
    intros s chain K Hc Hw. cbn [code_gen_fuel].
    apply (link_list f IH); [apply ldepth_forall; lia|assumption..].
  Qed.
End Link.
