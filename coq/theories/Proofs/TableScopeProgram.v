(** C18, scoping clause: the mini-language program of Model/Table.v, ASSEMBLED by the real model.

    [assemble_ast] on [*= org] followed by the embedded program writes ONE block -- the bytes
    [assemble_texts prog] computes -- at the file offset of the origin, and raises what
    [assemble_texts prog] raises.  So C18_scope / C18_program (Properties/C18.v) speak about the
    real code generator, resolver and passes. *)
From Coq Require Import ZArith List Bool Lia.
From A816 Require Import Model.Table Proofs.TableScope Spec.BusLaws Model.Assemble Proofs.BusProofs Spec.EnvSem
  Proofs.ResolverProofs Proofs.ReplayProofs Proofs.DataTextGen Proofs.LabelTextGen
  Proofs.TableScopeRule Proofs.TableScopeLink Proofs.TableScopeEmit.
Import ListNotations.
Open Scope Z_scope.

Lemma emit_texts_run tn : emit_texts tn = run_encs (map enc_of tn).
Proof.
  induction tn as [|[t s] tn IH]; cbn [emit_texts map run_encs]; [reflexivity|].
  unfold enc_of at 1. cbn [fst snd]. rewrite IH. reflexivity.
Qed.

(** the resolver an assembly starts from: one root scope without a table *)
Definition start_root (w : world) (low : bus) (ri : rstate) : Prop :=
  r_bus ri = empty_bus /\ w_builtin w (r_rom ri) = Ok low /\ r_cur ri = 0%nat /\ r_last ri = 0%nat /\
  r_reloc ri = at_ low 0 /\
  exists s0, r_scopes ri = [s0] /\ s_parent s0 = None /\ s_table s0 = None /\ s_labels s0 = [] /\ s_kind s0 = SPlain.

Lemma initial_resolver_start w c low p :
  w_builtin w LowRom = Ok low -> addr_physical low 0 = Ok p ->
  match cf_rom c with Some rt => w_builtin w rt = Ok low | None => True end ->
  exists ri, initial_resolver w c = Ok ri /\ start_root w low ri.
Proof.
  intros Hlow Hphys Hrt. unfold initial_resolver, resolver_init. rewrite Hlow.
  unfold set_position, get_bus. cbn [r_bus empty_bus bus_has_mappings b_maps r_rom]. rewrite Hlow.
  cbn [bind]. unfold mk_addr, get_address, addr_phys. cbn [a_bus a_val].
  pose proof Hphys as Hm. unfold addr_physical in Hm.
  destruct (bus_mapping_for_bank low (Z.shiftr 0 16)) as [m0| |]; try discriminate Hm. cbn [bind].
  cbn [a_bus a_val]. rewrite Hphys. cbn [bind].
  match goal with |- context [fold_left ?f ?l ?r] => set (r1 := r); set (fo := f) end.
  set (P := fun r : rstate => r_bus r = empty_bus /\ r_rom r = LowRom /\ r_cur r = 0%nat /\ r_last r = 0%nat /\
              r_reloc r = at_ low 0 /\
              exists s0, r_scopes r = [s0] /\ s_parent s0 = None /\ s_table s0 = None /\ s_labels s0 = [] /\
                         s_kind s0 = SPlain).
  assert (Inv : forall defs r, P r -> P (fold_left fo defs r)).
  { induction defs as [|[n v] defs IH]; intros r H; cbn [fold_left]; [exact H|]. apply IH.
    destruct H as (H1 & H2 & H3 & H4 & H5 & s0 & Hs & P1 & P2 & P3 & P4). unfold fo, P. cbn [fst snd].
    split; [exact H1|]. split; [exact H2|]. split; [exact H3|]. split; [exact H4|]. split; [exact H5|].
    unfold add_symbol, upd_scope. cbn [r_scopes set_scopes]. rewrite Hs, H3.
    cbn [list_update]. eexists. split; [reflexivity|]. cbn [scope_add_symbol s_parent s_table s_labels s_kind]. auto. }
  assert (S1 : P r1).
  { unfold r1, P. destruct p; cbn; repeat split; eexists; repeat split. }
  destruct (Inv (cf_defines c) r1 S1) as (H1 & H2 & H3 & H4 & H5 & Hs).
  destruct (cf_rom c) as [rt|].
  - eexists. split; [reflexivity|]. unfold start_root. cbn [set_rom r_bus r_rom r_cur r_last r_reloc r_scopes].
    repeat (split; [assumption|]). exact Hs.
  - eexists. split; [reflexivity|]. unfold start_root. rewrite H2. repeat (split; [assumption|]). exact Hs.
Qed.

Lemma start_cg_ok w low ri : start_root w low ri -> cg_ok ri.
Proof.
  intros (_ & _ & Hc & Hl & _ & s0 & Hs & Hp & _). constructor; rewrite ?Hs, ?Hc, ?Hl; cbn [length]; try lia.
  intros i s p Hn Hpp. destruct i as [|[|i]]; cbn in Hn; try discriminate. injection Hn as <-. congruence.
Qed.

Lemma start_chain w low ri : start_root w low ri -> chain_rel ri [None].
Proof.
  intros (_ & _ & Hc & _ & _ & s0 & Hs & Hp & Ht & _). unfold chain_rel, chain_of. rewrite chain_tables_S, Hs, Hc.
  cbn [nth_error]. rewrite Ht, Hp. reflexivity.
Qed.

Section Program.
  Variable w : world.
  Variable low : bus.
  Variable m : mapping.
  Hypothesis Hcov : covers low m.
  Hypothesis Hmask : mask_ok m.
  Hypothesis Hrom : m_writable m = false.
  Variable ri : rstate.
  Hypothesis Hri : start_root w low ri.
  Variable xo : expr.
  Variable fi0 : token.
  Variable org : Z.
  Hypothesis Horg_w : in_window m org.
  Hypothesis Horg_b : m_first m <= bank_of org <= m_last m.
  Hypothesis Hxo : forall r, eval_raw w r xo = Ok org.
  Variable pth : list entry -> str.
  Variable fi : token.
  Variable prog : list stmt.
  Hypothesis Hdepth : (ldepth prog < cg_depth)%nat.
  Hypothesis Hworld : world_tables w pth (prog_tables prog).
  Local Notation p0 := (spec_offset m org).
  Local Notation src := (AStarEq xo fi0 :: embed pth fi prog).

  (** code generation of the whole source, in terms of [gen_body] *)
  Lemma program_codegen :
    match gen_body prog [None] with
    | Ok (ch, tn) =>
        exists s' ns, code_gen_fuel w cg_depth {| cg_r := ri; cg_macros := [] |} src = Ok (s', NCodePos xo fi0 :: ns) /\
                      text_encs ns = map enc_of tn /\ Forall tnode ns /\ same_regs ri (cg_r s') /\
                      r_cur (cg_r s') = 0%nat /\
                      exists l', forall sc, ext (r_scopes (cg_r s')) sc -> replay sc ns 0 0 = Some (0%nat, l')
    | Err k => code_gen_fuel w cg_depth {| cg_r := ri; cg_macros := [] |} src = Err k
    | OutOfFuel => code_gen_fuel w cg_depth {| cg_r := ri; cg_macros := [] |} src = OutOfFuel
    end.
  Proof.
    set (s := {| cg_r := ri; cg_macros := [] |}).
    pose proof (start_cg_ok _ _ _ Hri) as K. pose proof (start_chain _ _ _ Hri) as Hc.
    pose proof (link_codegen w pth fi cg_depth prog Hdepth s [None] K Hc Hworld) as L.
    assert (E : code_gen_fuel w cg_depth s src
                = (do y <- code_gen_fuel w cg_depth s (embed pth fi prog); Ok (fst y, NCodePos xo fi0 :: snd y))).
    { rewrite cg_depth_S, !code_gen_S. cbn [gen_list]. rewrite (simple_star_eq w xo fi0 _ s). reflexivity. }
    rewrite E. clear E.
    destruct (gen_body prog [None]) as [[ch tn]| |]; cbn [link_res] in L.
    - destruct L as (s' & ns & G & _ & He & Ht & SR & _). rewrite G. cbn [bind fst snd].
      pose proof (code_gen_replay w cg_depth s _ _ _ K G) as (_ & C & _ & Rp).
      destruct Hri as (_ & _ & Hcur & Hlast & _). cbn [s cg_r] in C, Rp. rewrite Hcur in C. rewrite Hcur, Hlast in Rp.
      exists s', ns. split; [reflexivity|]. split; [exact He|]. split; [exact Ht|]. split; [exact SR|].
      split; [exact C|]. exists (r_last (cg_r s')). exact Rp.
    - rewrite L. reflexivity.
    - rewrite L. reflexivity.
  Qed.

  (** The real model emits [assemble_texts prog]: one block at the offset of the origin. *)
  Theorem embed_assemble bs : assemble_texts prog = Ok bs -> p0 + Z.of_nat (length bs) < rsize m ->
    exists o, assemble_ast w ri src = Ok o /\
              o_blocks o = match bs with [] => [] | _ => [(bs, p0)] end.
  Proof.
    intros Hasm Hfit. unfold assemble_texts in Hasm. pose proof program_codegen as G.
    destruct (gen_body prog [None]) as [[ch tn]| |]; cbn [bind fst snd] in Hasm; try discriminate.
    destruct G as (s' & ns & G & He & Ht & (_ & S2 & S3 & S4) & C & l' & Rp).
    unfold assemble_ast. rewrite G. cbn [bind fst snd].
    destruct Hri as (H1 & H2 & _ & _ & H5 & _).
    apply (tn_run w low m Hcov Hmask Hrom (cg_r s') ltac:(congruence) ltac:(rewrite S4; exact H2) C ltac:(congruence)
             xo fi0 org Horg_w Horg_b Hxo ns Ht l' Rp bs); [|exact Hfit].
    rewrite He, <- emit_texts_run. exact Hasm.
  Qed.

  (** ... and raises what [assemble_texts prog] raises: a table file that does not load (during code
      generation), a [.text] without a visible table or with an escape above 0xFF (first pass). *)
  Theorem embed_assemble_err k : assemble_texts prog = Err k ->
    (forall ch tn, gen_body prog [None] = Ok (ch, tn) -> p0 + prefix_len (map enc_of tn) < rsize m) ->
    assemble_ast w ri src = Err k.
  Proof.
    intros Hasm Hfit. unfold assemble_texts in Hasm. pose proof program_codegen as G.
    destruct (gen_body prog [None]) as [[ch tn]| |]; cbn [bind fst snd] in Hasm; try discriminate.
    - destruct G as (s' & ns & G & He & Ht & (_ & S2 & S3 & S4) & C & l' & Rp).
      unfold assemble_ast. rewrite G. cbn [bind fst snd].
      destruct Hri as (H1 & H2 & _ & _ & H5 & _).
      apply (tn_fail w low m Hcov Hmask Hrom (cg_r s') ltac:(congruence) ltac:(rewrite S4; exact H2) C ltac:(congruence)
               xo fi0 org Horg_w Horg_b Hxo ns Ht l' Rp k).
      + rewrite He, <- emit_texts_run. exact Hasm.
      + rewrite He. exact (Hfit ch tn eq_refl).
    - injection Hasm as <-. unfold assemble_ast. rewrite G. reflexivity.
  Qed.
End Program.

Print Assumptions embed_assemble.
Print Assumptions embed_assemble_err.
