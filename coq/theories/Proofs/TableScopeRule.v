(** C18, scoping clause on the REAL code-generation model (Model/Codegen.v, Model/Resolver.v):

    - [get_table r] (Scope.get_table) = the table of the nearest scope, following parent pointers
      from the current scope, that has one ([chain_tables] / [first_some]);
    - [.table] ([ATable]) changes the table of the CURRENT scope only: invisible from every scope the
      current one does not enclose (in particular after the block it was loaded in);
    - [.text] ([AText]) captures that table at generation time: a table loaded later does not affect
      an earlier text node;
    - which constructs open a scope: a body in braces, [.scope name], a macro application (parent = the
      scope of the CALL SITE), every [.for] iteration; which do not: [.if] branches, an included file,
      a code-block argument spliced with {{name}} (it is generated in the scope where it is spliced,
      i.e. inside the macro's application scope). *)
From Coq Require Import ZArith List Lia Bool Arith.
From A816 Require Import Model.Codegen Spec.EnvSem Proofs.ResolverProofs Proofs.ReplayProofs.
Import ListNotations.
Open Scope Z_scope.

Definition tfun := (str -> res bytes)%type.

(** the [table] fields along the parent chain, current scope first *)
Fixpoint chain_tables (scopes : list scope) (fuel : nat) (i : nat) : list (option tfun) :=
  match fuel with
  | O => []
  | S f =>
      match nth_error scopes i with
      | None => []
      | Some s => s_table s :: match s_parent s with Some p => chain_tables scopes f p | None => [] end
      end
  end.

Fixpoint first_some {A} (l : list (option A)) : option A :=
  match l with [] => None | Some x :: _ => Some x | None :: r => first_some r end.

(** the chain visible from the current scope of a resolver *)
Definition chain_of (r : rstate) : list (option tfun) := chain_tables (r_scopes r) (S (r_cur r)) (r_cur r).
(** the table a [.text] generated now would capture *)
Definition visible (r : rstate) : option tfun := first_some (chain_of r).

(** more fuel does not change the chain (parents have smaller indices) *)
Lemma chain_tables_fuel scopes : wf_scopes scopes -> forall f f' i, (i < f)%nat -> (i < f')%nat ->
  chain_tables scopes f i = chain_tables scopes f' i.
Proof.
  intros Hwf. induction f as [|f IH]; intros f' i Hf Hf'; [lia|]. destruct f' as [|f']; [lia|].
  cbn [chain_tables]. destruct (nth_error scopes i) as [s|] eqn:Hn; [|reflexivity].
  destruct (s_parent s) as [p|] eqn:Hp; [|reflexivity].
  pose proof (Hwf _ _ _ Hn Hp). f_equal. apply IH; lia.
Qed.

(** ** the rule: get_table = first table along the chain *)
Theorem get_table_fuel_rule scopes : wf_scopes scopes -> forall fuel i, (i < fuel)%nat -> (i < length scopes)%nat ->
  get_table_fuel scopes fuel i = Ok (first_some (chain_tables scopes fuel i)).
Proof.
  intros Hwf. induction fuel as [|fuel IH]; intros i Hf Hi; [lia|]. cbn [get_table_fuel chain_tables].
  destruct (nth_error scopes i) as [s|] eqn:Hn; [|apply nth_error_None in Hn; lia].
  cbn [first_some]. destruct (s_table s) as [t|]; [reflexivity|].
  destruct (s_parent s) as [p|] eqn:Hp; [|reflexivity].
  pose proof (Hwf _ _ _ Hn Hp) as Hlt. apply IH; lia.
Qed.

Theorem get_table_rule r : cg_ok r -> get_table r = Ok (visible r).
Proof.
  intros [_ Hc Hwf]. unfold get_table, visible, chain_of. apply get_table_fuel_rule; [exact Hwf|lia|exact Hc].
Qed.

(** the same rule as a relation: nearest enclosing scope with a table *)
Inductive TableOf (scopes : list scope) : nat -> option tfun -> Prop :=
| T_here i s t : nth_error scopes i = Some s -> s_table s = Some t -> TableOf scopes i (Some t)
| T_up i s p v : nth_error scopes i = Some s -> s_table s = None -> s_parent s = Some p ->
                 TableOf scopes p v -> TableOf scopes i v
| T_none i s : nth_error scopes i = Some s -> s_table s = None -> s_parent s = None -> TableOf scopes i None.

Lemma TableOf_chain scopes : wf_scopes scopes -> forall fuel i, (i < fuel)%nat -> (i < length scopes)%nat ->
  TableOf scopes i (first_some (chain_tables scopes fuel i)).
Proof.
  intros Hwf. induction fuel as [|fuel IH]; intros i Hf Hi; [lia|]. cbn [chain_tables].
  destruct (nth_error scopes i) as [s|] eqn:Hn; [|apply nth_error_None in Hn; lia].
  cbn [first_some]. destruct (s_table s) as [t|] eqn:Ht; [eapply T_here; eauto|].
  destruct (s_parent s) as [p|] eqn:Hp; [|eapply T_none; eauto].
  pose proof (Hwf _ _ _ Hn Hp) as Hlt. eapply T_up; eauto. apply IH; [lia|].
  destruct (nth_error scopes p) eqn:Np; [apply nth_error_Some; congruence|].
  apply nth_error_None in Np. lia.
Qed.

(** a captured table belongs to an enclosing scope, and no nearer scope has one *)
Lemma TableOf_encloses scopes i t : TableOf scopes i (Some t) ->
  exists j s, encloses scopes j i /\ nth_error scopes j = Some s /\ s_table s = Some t.
Proof.
  intros H. remember (Some t) as v eqn:E. induction H as [i s t' Hn Ht|i s p v Hn Ht Hp H IH|i s Hn Ht Hp].
  - injection E as ->. exists i, s. split; [constructor|auto].
  - destruct (IH E) as (j & sj & He & Hj & Hjt). exists j, sj. split; [eapply E_parent; eauto|auto].
  - discriminate.
Qed.

(** the table a [.text] captures is the one of the nearest enclosing scope that has one *)
Theorem visible_nearest r : cg_ok r -> TableOf (r_scopes r) (r_cur r) (visible r).
Proof. intros [_ Hc Hwf]. unfold visible, chain_of. apply TableOf_chain; [exact Hwf|lia|exact Hc]. Qed.


(* ------------------------------------------------------------------------------------------ *)
(** * .table touches the current scope only *)

Lemma set_table_parent t s : s_parent (scope_set_table t s) = s_parent s. Proof. reflexivity. Qed.

(** generate_table *)
Theorem gen_table w gen s path fi s' ns :
  gen_one w gen s (ATable path fi) = Ok (s', ns) ->
  exists t, w_table w path = Ok t /\ ns = [NTable] /\
            cg_r s' = upd_scope (cg_r s) (r_cur (cg_r s)) (scope_set_table t) /\ cg_macros s' = cg_macros s.
Proof.
  cbn [gen_one]. destruct (w_table w path) as [t| |]; cbn [bind]; try discriminate.
  intros H. injection H as <- <-. exists t. auto.
Qed.

(** scopes below the updated one do not see the update *)
Lemma chain_below scopes c g : wf_scopes scopes -> forall f p, (p < c)%nat ->
  chain_tables (list_update scopes c g) f p = chain_tables scopes f p.
Proof.
  intros Hwf. induction f as [|f IH]; intros p Hlt; [reflexivity|].
  cbn [chain_tables]. rewrite nth_list_update_other by lia.
  destruct (nth_error scopes p) as [sp|] eqn:Hn; [|reflexivity].
  destruct (s_parent sp) as [pp|] eqn:Hp; [|reflexivity].
  pose proof (Hwf _ _ _ Hn Hp). f_equal. apply IH. lia.
Qed.

(** ... so the current scope's chain now starts with the new table, the rest is unchanged *)
Lemma chain_after_set scopes : wf_scopes scopes -> forall c t, (c < length scopes)%nat ->
  chain_tables (list_update scopes c (scope_set_table t)) (S c) c = Some t :: tl (chain_tables scopes (S c) c).
Proof.
  intros Hwf c t Hc. cbn [chain_tables].
  destruct (nth_error scopes c) as [s|] eqn:Hn; [|apply nth_error_None in Hn; lia].
  rewrite (nth_list_update_same _ _ _ _ Hn).
  cbn [scope_set_table s_table s_parent tl]. f_equal.
  destruct (s_parent s) as [p|] eqn:Hp; [|reflexivity].
  pose proof (Hwf _ _ _ Hn Hp) as Hlt. apply chain_below; assumption.
Qed.

(** every scope the current one does not enclose keeps its chain (its visible table) *)
Theorem table_invisible scopes c g : (forall s, s_parent (g s) = s_parent s) ->
  forall f i, ~ encloses scopes c i ->
  chain_tables (list_update scopes c g) f i = chain_tables scopes f i.
Proof.
  intros Hg. induction f as [|f IH]; intros i Hne; [reflexivity|]. cbn [chain_tables].
  assert (Hci : c <> i) by (intros ->; apply Hne; constructor).
  rewrite nth_list_update_other by assumption.
  destruct (nth_error scopes i) as [s|] eqn:Hn; [|reflexivity].
  destruct (s_parent s) as [p|] eqn:Hp; [|reflexivity].
  f_equal. apply IH. intros He. apply Hne. eapply E_parent; eauto.
Qed.

Theorem gen_table_visible w gen s path fi s' ns : cg_ok (cg_r s) ->
  gen_one w gen s (ATable path fi) = Ok (s', ns) ->
  exists t, w_table w path = Ok t /\ ns = [NTable] /\ r_cur (cg_r s') = r_cur (cg_r s) /\
            chain_of (cg_r s') = Some t :: tl (chain_of (cg_r s)) /\ visible (cg_r s') = Some t /\
            (forall i f, ~ encloses (r_scopes (cg_r s)) (r_cur (cg_r s)) i ->
                         chain_tables (r_scopes (cg_r s')) f i = chain_tables (r_scopes (cg_r s)) f i).
Proof.
  intros [_ Hc Hwf] H. destruct (gen_table _ _ _ _ _ _ _ H) as (t & Hw & -> & Er & _).
  exists t. split; [exact Hw|]. split; [reflexivity|]. rewrite Er. unfold upd_scope.
  cbn [r_cur r_scopes set_scopes]. split; [reflexivity|].
  assert (E : chain_of (set_scopes (cg_r s) (list_update (r_scopes (cg_r s)) (r_cur (cg_r s)) (scope_set_table t)))
              = Some t :: tl (chain_of (cg_r s))).
  { unfold chain_of. cbn [r_cur r_scopes set_scopes]. apply chain_after_set; assumption. }
  split; [exact E|]. split; [unfold visible; rewrite E; reflexivity|].
  intros i f Hne. apply table_invisible; [reflexivity|exact Hne].
Qed.

(* ------------------------------------------------------------------------------------------ *)
(** * .text captures the visible table when it is generated *)

Theorem gen_text w gen s text fi : cg_ok (cg_r s) ->
  gen_one w gen s (AText text fi)
  = Ok (s, [NText (match visible (cg_r s) with Some f => f text | None => Err ENode end) fi]).
Proof. intros K. cbn [gen_one]. rewrite (get_table_rule _ K). reflexivity. Qed.

(** a table loaded afterwards in the same scope does not reach the earlier text node *)
Theorem text_then_table w gen s text fi path fi' : cg_ok (cg_r s) ->
  gen_list w gen s [AText text fi; ATable path fi'] =
  (do t <- w_table w path;
   Ok (cg_set_r s (upd_scope (cg_r s) (r_cur (cg_r s)) (scope_set_table t)),
       [NText (match visible (cg_r s) with Some f => f text | None => Err ENode end) fi; NTable])).
Proof.
  intros K. cbn [gen_list]. rewrite (gen_text w gen s text fi K). cbn [bind fst snd gen_one].
  destruct (w_table w path) as [t| |]; reflexivity.
Qed.

(* ------------------------------------------------------------------------------------------ *)
(** * Which constructs open a scope: the chain seen by their bodies *)

Lemma chain_tables_S scopes f i :
  chain_tables scopes (S f) i =
  match nth_error scopes i with
  | None => []
  | Some s => s_table s :: match s_parent s with Some p => chain_tables scopes f p | None => [] end
  end.
Proof. reflexivity. Qed.

Lemma chain_app scopes x : wf_scopes scopes -> forall f i, (i < length scopes)%nat ->
  chain_tables (scopes ++ x) f i = chain_tables scopes f i.
Proof.
  intros Hwf. induction f as [|f IH]; intros i Hi; [reflexivity|]. cbn [chain_tables].
  rewrite nth_error_app1 by exact Hi.
  destruct (nth_error scopes i) as [s|] eqn:Hn; [|reflexivity].
  destruct (s_parent s) as [p|] eqn:Hp; [|reflexivity].
  pose proof (Hwf _ _ _ Hn Hp). f_equal. apply IH. lia.
Qed.

(** entering a fresh scope (braces, .scope, macro application, .for iteration): its chain is [None]
    in front of the chain of the scope it was entered from *)
Lemma enter_scope_chain r k : cg_ok r ->
  exists r1, enter_scope r k = Ok r1 /\ r_cur r1 = length (r_scopes r) /\
             r_scopes r1 = r_scopes r ++ [new_scope (Some (r_cur r)) k] /\
             chain_of r1 = None :: chain_of r /\ visible r1 = visible r.
Proof.
  intros [K1 K2 K3]. unfold enter_scope, use_next_scope, append_scope.
  cbn [set_scopes r_scopes r_last r_cur]. rewrite nth_error_app2 by lia. rewrite <- K1, Nat.sub_diag.
  cbn [nth_error]. eexists. split; [reflexivity|]. cbn [set_cur_last set_scopes r_cur r_scopes].
  split; [reflexivity|]. split; [reflexivity|].
  assert (E : chain_tables (r_scopes r ++ [new_scope (Some (r_cur r)) k]) (S (S (r_last r))) (S (r_last r))
              = None :: chain_of r).
  { rewrite chain_tables_S. rewrite nth_error_app2 by lia. rewrite <- K1, Nat.sub_diag. cbn [nth_error new_scope s_table s_parent].
    f_equal. rewrite chain_app by assumption. unfold chain_of. apply chain_tables_fuel; [exact K3|lia|lia]. }
  assert (E' : chain_of (set_cur_last (set_scopes r (r_scopes r ++ [new_scope (Some (r_cur r)) k]))
                                        (S (r_last r)) (S (r_last r))) = None :: chain_of r) by exact E.
  split; [exact E'|]. unfold visible. rewrite E'. reflexivity.
Qed.

Section Constructs.
  Variable w : world.
  Variable gen : cgstate -> list ast -> res (cgstate * list node).

  (** a body in braces / a named scope: generated in a fresh scope whose parent is the current one *)
  Theorem compound_opens s b fi : gen_one w gen s (ACompound b fi) = scoped gen SPlain s (fun r => (r, [])) b.
  Proof. reflexivity. Qed.
  Theorem scope_opens s name b fi fi' :
    gen_one w gen s (AScope name b fi fi') = scoped gen (SNamed name) s (fun r => (r, [])) b.
  Proof. reflexivity. Qed.
  (** a macro application: a fresh scope whose parent is the scope of the CALL SITE *)
  Theorem macro_opens s name args fi md : dict_get (cg_macros s) name = Some md ->
    gen_one w gen s (AMacroApply name args fi)
    = (do bound <- eval_macro_args w (cg_r s) (md_params md) args;
       scoped gen SPlain s (fun r => bind_macro_args r bound) (md_body md)).
  Proof. intros H. cbn [gen_one]. rewrite H. reflexivity. Qed.
  (** every .for iteration: a fresh (internal) scope *)
  Theorem for_opens n k v b s :
    for_loop gen (S n) k v b s
    = (do x <- scoped gen SInternal s (fun r => (r, [NSymConst v k])) b;
       do y <- for_loop gen n (k + 1) v b (fst x); Ok (fst y, snd x ++ snd y)).
  Proof. reflexivity. Qed.
  (** no scope of their own: .if branches, an included file, a spliced code-block argument -- their
      statements are generated in the very state [s] (current scope included) *)
  Theorem if_no_scope s c th fi el fi' :
    gen_one w gen s (AIf c th fi el fi')
    = (do cond <- if_condition w (cg_r s) c;
       if cond then gen s th else match el with Some (eb, _) => gen s eb | None => Ok (s, []) end).
  Proof. reflexivity. Qed.
  Theorem include_no_scope s b fi : gen_one w gen s (ABlock b fi) = gen s b.
  Proof. reflexivity. Qed.
  Theorem code_splice_no_scope s name fi b fi' : value_for (cg_r s) name = Ok (VCode b fi') ->
    gen_one w gen s (ACodeLookup name fi) = gen s b.
  Proof. intros H. cbn [gen_one]. rewrite H. reflexivity. Qed.

  (** the state in which the body of a scope-opening construct is generated *)
  Theorem scoped_body k s pre b : cg_ok (cg_r s) ->
    exists r1, enter_scope (cg_r s) k = Ok r1 /\
               chain_of r1 = None :: chain_of (cg_r s) /\ visible r1 = visible (cg_r s) /\
               scoped gen k s pre b
               = (let '(r2, prens) := pre r1 in
                  do x <- gen (cg_set_r s r2) b;
                  do r3 <- restore_scope (cg_r (fst x)) false;
                  Ok (cg_set_r (fst x) r3, NScope :: prens ++ snd x ++ [NPop])).
  Proof.
    intros K. destruct (enter_scope_chain (cg_r s) k K) as (r1 & E & _ & _ & Ec & Ev).
    exists r1. split; [exact E|]. split; [exact Ec|]. split; [exact Ev|].
    unfold scoped. rewrite E. reflexivity.
  Qed.
End Constructs.

(** binding macro arguments does not touch any table *)
Lemma chain_update_same scopes j f : (forall s, s_table (f s) = s_table s /\ s_parent (f s) = s_parent s) ->
  forall fu i, chain_tables (list_update scopes j f) fu i = chain_tables scopes fu i.
Proof.
  intros Hf. induction fu as [|fu IH]; intros i; [reflexivity|]. cbn [chain_tables].
  rewrite nth_list_update. destruct (Nat.eqb j i).
  - destruct (nth_error scopes i) as [s|]; cbn [option_map]; [|reflexivity].
    destruct (Hf s) as [-> ->]. destruct (s_parent s); [rewrite IH|]; reflexivity.
  - destruct (nth_error scopes i) as [s|]; [|reflexivity]. destruct (s_parent s); [rewrite IH|]; reflexivity.
Qed.

Lemma bind_macro_args_chain bound : forall r, 
  chain_of (fst (bind_macro_args r bound)) = chain_of r /\ r_cur (fst (bind_macro_args r bound)) = r_cur r.
Proof.
  induction bound as [|[p v] bound IH]; intros r; cbn [bind_macro_args]; [auto|].
  destruct v as [x|body fi|e].
  - destruct (IH (add_symbol r p x)) as [E1 E2]. rewrite E1, E2. split; [|reflexivity].
    unfold chain_of, add_symbol, upd_scope. cbn [r_cur r_scopes set_scopes]. apply chain_update_same.
    intros s. split; reflexivity.
  - destruct (IH (add_code r p (body, fi))) as [E1 E2]. rewrite E1, E2. split; [|reflexivity].
    unfold chain_of, add_code, upd_scope. cbn [r_cur r_scopes set_scopes]. apply chain_update_same.
    intros s. split; reflexivity.
  - destruct (bind_macro_args r bound) as [r0 ns0] eqn:E. cbn [fst]. specialize (IH r). rewrite E in IH. exact IH.
Qed.

(** hence: the text of a macro body sees the table visible at the CALL SITE (unless the body loads
    its own), and so does a code-block argument spliced in that body *)
Theorem macro_body_visible w gen s name args fi md bound : cg_ok (cg_r s) ->
  dict_get (cg_macros s) name = Some md ->
  eval_macro_args w (cg_r s) (md_params md) args = Ok bound ->
  exists r2 prens,
    visible r2 = visible (cg_r s) /\
    gen_one w gen s (AMacroApply name args fi)
    = (do x <- gen (cg_set_r s r2) (md_body md);
       do r3 <- restore_scope (cg_r (fst x)) false;
       Ok (cg_set_r (fst x) r3, NScope :: prens ++ snd x ++ [NPop])).
Proof.
  intros K Hd He. rewrite (macro_opens w gen s name args fi md Hd), He. cbn [bind].
  destruct (scoped_body gen SPlain s (fun r => bind_macro_args r bound) (md_body md) K)
    as (r1 & E & Ec & Ev & Es).
  destruct (bind_macro_args r1 bound) as [r2 prens] eqn:Eb.
  exists r2, prens. split.
  - destruct (bind_macro_args_chain bound r1) as [E1 _]. rewrite Eb in E1. cbn [fst] in E1.
    unfold visible. rewrite E1. exact Ev.
  - rewrite Es. reflexivity.
Qed.

(* ------------------------------------------------------------------------------------------ *)
(** * Code generation changes tables only in the current scope and in scopes it creates *)

(** tables of the already existing scopes other than the current one are kept *)
Definition TS (s s' : cgstate) : Prop :=
  forall i si, nth_error (r_scopes (cg_r s)) i = Some si -> i <> r_cur (cg_r s) ->
    exists si', nth_error (r_scopes (cg_r s')) i = Some si' /\ s_table si' = s_table si.
(** tables of ALL already existing scopes are kept *)
Definition TSall (r r' : rstate) : Prop :=
  forall i si, nth_error (r_scopes r) i = Some si ->
    exists si', nth_error (r_scopes r') i = Some si' /\ s_table si' = s_table si.
Definition ts_ok (gen : cgstate -> list ast -> res (cgstate * list node)) : Prop :=
  forall s b s' ns, cg_ok (cg_r s) -> gen s b = Ok (s', ns) -> TS s s'.

Lemma TSall_refl r : TSall r r. Proof. intros i si H. eauto. Qed.
Lemma TSall_TS s s' : TSall (cg_r s) (cg_r s') -> TS s s'. Proof. intros H i si Hn _. eauto. Qed.
Lemma TS_trans s s1 s2 : r_cur (cg_r s1) = r_cur (cg_r s) -> TS s s1 -> TS s1 s2 -> TS s s2.
Proof.
  intros C H1 H2 i si Hn Hi. destruct (H1 _ _ Hn Hi) as (s1i & A & B).
  destruct (H2 _ _ A ltac:(rewrite C; exact Hi)) as (s2i & A2 & B2). exists s2i. split; [exact A2|congruence].
Qed.
Lemma TSall_upd r j f : (forall s, s_table (f s) = s_table s) -> TSall r (upd_scope r j f).
Proof.
  intros Hf i si Hn. unfold upd_scope. cbn [r_scopes set_scopes]. rewrite nth_list_update.
  destruct (Nat.eqb j i); rewrite Hn; cbn [option_map]; eauto.
Qed.
Lemma TS_upd_cur s f : TS s (cg_set_r s (upd_scope (cg_r s) (r_cur (cg_r s)) f)).
Proof.
  intros i si Hn Hi. cbn [cg_set_r cg_r]. unfold upd_scope. cbn [r_scopes set_scopes].
  rewrite nth_list_update_other by congruence. eauto.
Qed.

Lemma bind_macro_args_TSall bound : forall r, TSall r (fst (bind_macro_args r bound)).
Proof.
  induction bound as [|[p v] bound IH]; intros r; cbn [bind_macro_args]; [apply TSall_refl|].
  destruct v as [x|body fi|e].
  - intros i si Hn. destruct (TSall_upd r (r_cur r) (scope_add_symbol p x) (fun _ => eq_refl) i si Hn) as (s1 & A & B).
    destruct (IH (add_symbol r p x) i s1 A) as (s2 & A2 & B2). exists s2. split; [exact A2|congruence].
  - intros i si Hn. destruct (TSall_upd r (r_cur r) (scope_add_code p (body, fi)) (fun _ => eq_refl) i si Hn) as (s1 & A & B).
    destruct (IH (add_code r p (body, fi)) i s1 A) as (s2 & A2 & B2). exists s2. split; [exact A2|congruence].
  - destruct (bind_macro_args r bound) as [r0 ns0] eqn:E. cbn [fst]. specialize (IH r). rewrite E in IH. exact IH.
Qed.

Lemma generate_map_scopes r args r' : generate_map r args = Ok r' -> r_scopes r' = r_scopes r.
Proof.
  unfold generate_map.
  repeat match goal with
         | |- context [match ?x with _ => _ end] => destruct x; cbn [bind]
         | |- context [bind ?x _] => destruct x; cbn [bind]
         end; try discriminate; intros H; inversion H; subst; reflexivity.
Qed.

Section Step2.
  Variable w : world.
  Variable gen : cgstate -> list ast -> res (cgstate * list node).
  Hypothesis Hgen : gen_ok gen.
  Hypothesis Hts : ts_ok gen.

  (** a scope-opening construct leaves EVERY existing table as it was *)
  Lemma scoped_TSall k s pre b s' ns :
    (forall r r' pns, pre r = (r', pns) ->
       benign r r' /\ forallb (fun n => negb (scope_node n)) pns = true /\ TSall r r') ->
    cg_ok (cg_r s) -> scoped gen k s pre b = Ok (s', ns) -> TSall (cg_r s) (cg_r s').
  Proof.
    intros Hpre K H. pose proof K as [K1 K2 K3].
    destruct (enter_scope_chain (cg_r s) k K) as (r1 & E1 & C1 & S1 & _ & _).
    unfold scoped in H. rewrite E1 in H. cbn [bind] in H.
    destruct (pre r1) as [r2 prens] eqn:Epre.
    destruct (Hpre _ _ _ Epre) as ((B1 & B2 & B3 & B4 & B5) & Fpre & T12).
    destruct (gen (cg_set_r s r2) b) as [[s3 n3]| |] eqn:Eg; cbn [bind fst snd] in H; try discriminate.
    assert (L1 : r_last r1 = length (r_scopes (cg_r s))).
    { unfold enter_scope, use_next_scope, append_scope in E1. cbn [set_scopes r_scopes r_last] in E1.
      destruct (nth_error _ _); [|discriminate]. injection E1 as <-. cbn. exact K1. }
    assert (Hk2 : cg_ok r2).
    { constructor.
      - rewrite B2, B3, L1, S1, app_length. cbn. lia.
      - rewrite B1, B3, C1, S1, app_length. cbn. lia.
      - apply B5. rewrite S1. apply wf_append; auto. }
    pose proof (Hts (cg_set_r s r2) b s3 n3 Hk2 Eg) as T23. cbn [cg_set_r cg_r] in T23.
    destruct (restore_scope (cg_r s3) false) as [r3| |] eqn:Er; cbn [bind] in H; try discriminate.
    injection H as <- _. cbn [cg_set_r cg_r].
    assert (Sc3 : r_scopes r3 = r_scopes (cg_r s3)).
    { unfold restore_scope in Er. destruct (nth_error _ _) as [sx|]; [|discriminate].
      destruct (s_parent sx); [|discriminate]. injection Er as <-.
      destruct (s_kind sx); reflexivity. }
    intros i si Hn. rewrite Sc3.
    assert (Hi : (i < length (r_scopes (cg_r s)))%nat) by (apply nth_error_Some; congruence).
    assert (N1 : nth_error (r_scopes r1) i = Some si) by (rewrite S1, nth_error_app1 by exact Hi; exact Hn).
    destruct (T12 _ _ N1) as (s2i & A2 & B2').
    destruct (T23 _ _ A2 ltac:(cbn [cg_set_r cg_r]; rewrite B1, C1; lia)) as (s3i & A3 & B3').
    exists s3i. split; [exact A3|congruence].
  Qed.

  Lemma for_loop_TSall n : forall k v b s s' ns,
    cg_ok (cg_r s) -> for_loop gen n k v b s = Ok (s', ns) -> TSall (cg_r s) (cg_r s').
  Proof.
    induction n as [|n IH]; intros k v b s s' ns K; cbn [for_loop].
    - intros H; inversion H; subst. apply TSall_refl.
    - destruct (scoped gen SInternal s _ b) as [[s1 n1]| |] eqn:E1; cbn [bind fst snd]; try discriminate.
      destruct (for_loop gen n (k + 1) v b s1) as [[s2 n2]| |] eqn:E2; cbn [bind fst snd]; try discriminate.
      intros H; inversion H; subst.
      assert (Hp : forall r r' pns, (fun r0 : rstate => (r0, [NSymConst v k])) r = (r', pns) ->
                     benign r r' /\ forallb (fun n0 => negb (scope_node n0)) pns = true /\ TSall r r').
      { intros r r' pns Hp. inversion Hp; subst. split; [apply benign_refl|]. split; [reflexivity|apply TSall_refl]. }
      pose proof (scoped_TSall _ _ _ _ _ _ Hp K E1) as T1.
      assert (R1 : R s s1 n1).
      { eapply (scoped_R gen Hgen); [|exact K|exact E1]. intros r r' pns Hq. destruct (Hp _ _ _ Hq) as (A & B & _). auto. }
      pose proof (IH _ _ _ _ _ _ (proj1 R1) E2) as T2.
      intros i si Hn. destruct (T1 _ _ Hn) as (x & A & B). destruct (T2 _ _ A) as (y & A' & B').
      exists y. split; [exact A'|congruence].
  Qed.

  Lemma gen_one_TS s a s' ns : cg_ok (cg_r s) -> gen_one w gen s a = Ok (s', ns) -> TS s s'.
  Proof.
    intros K.
    assert (Same : forall x, Ok (s, x) = Ok (s', ns) -> TS s s').
    { intros x H. injection H as <- _. apply TSall_TS, TSall_refl. }
    assert (Pid : forall r r' pns, (fun r0 : rstate => (r0, @nil node)) r = (r', pns) ->
                    benign r r' /\ forallb (fun n0 => negb (scope_node n0)) pns = true /\ TSall r r').
    { intros r r' pns Hp. inversion Hp; subst. split; [apply benign_refl|]. split; [reflexivity|apply TSall_refl]. }
    destruct a; cbn [gen_one].
    - (* ABlock *) apply Hts; auto.
    - (* ACompound *) intros H. apply TSall_TS. eapply scoped_TSall; [exact Pid|exact K|exact H].
    - (* ALabel *) apply Same.
    - (* AText *) destruct (get_table (cg_r s)); cbn [bind]; try discriminate. apply Same.
    - (* AAscii *) apply Same.
    - (* AScope *) intros H. apply TSall_TS. eapply scoped_TSall; [exact Pid|exact K|exact H].
    - (* AStarEq *) apply Same.
    - (* AAtEq *) apply Same.
    - (* AMap *) destruct (generate_map (cg_r s) args) as [r'| |] eqn:E; cbn [bind]; try discriminate.
      intros H; injection H as <- _. apply TSall_TS. cbn [cg_set_r cg_r].
      intros i si Hn. rewrite (generate_map_scopes _ _ _ E). eauto.
    - (* AIf *) destruct (if_condition w (cg_r s) c) as [[|]| |]; cbn [bind]; try discriminate.
      + apply Hts; auto.
      + destruct el as [[eb ebfi]|]; [apply Hts; auto|apply Same].
    - (* AMacro *) intros H; injection H as <- _. apply TSall_TS, TSall_refl.
    - (* AMacroApply *) destruct (dict_get (cg_macros s) name) as [md|]; [|discriminate].
      destruct (eval_macro_args w (cg_r s) (md_params md) args) as [bound| |]; cbn [bind]; try discriminate.
      intros H. apply TSall_TS. eapply scoped_TSall; [|exact K|exact H].
      intros r r' pns Hp. cbv beta in Hp. destruct (bind_macro_args_benign _ _ _ _ Hp) as [A B].
      split; [exact A|]. split; [exact B|]. pose proof (bind_macro_args_TSall bound r) as T. rewrite Hp in T. exact T.
    - (* AData *) apply Same.
    - (* ATable *) destruct (w_table w path); cbn [bind]; try discriminate.
      intros H; injection H as <- _. apply TS_upd_cur.
    - (* AIncludeIps *) destruct (eval_raw w (cg_r s) e); cbn [bind]; try discriminate.
      destruct (w_ips w path _); cbn [bind]; try discriminate. apply Same.
    - (* AIncbin *) destruct (w_incbin w path); cbn [bind]; try discriminate. apply Same.
    - (* ASymbol *) apply Same.
    - (* AAssign *) destruct (eval_raw w (cg_r s) e); cbn [bind]; try discriminate.
      intros H; injection H as <- _. apply TS_upd_cur.
    - (* ACodeLookup *) destruct (value_for (cg_r s) name) as [[v|body fi']| |]; try discriminate. apply Hts; auto.
    - (* AStruct *) discriminate.
    - (* AFor *) destruct (eval_raw w (cg_r s) lo); cbn [bind]; try discriminate.
      destruct (eval_raw w (cg_r s) hi); cbn [bind]; try discriminate.
      intros H. apply TSall_TS. eapply for_loop_TSall; eauto.
    - (* AOpcode *) destruct mode; try (destruct operand; try discriminate); apply Same.
  Qed.

  Lemma gen_list_TS body : forall s s' ns, cg_ok (cg_r s) -> gen_list w gen s body = Ok (s', ns) -> TS s s'.
  Proof.
    induction body as [|a rest IH]; intros s s' ns K; cbn [gen_list].
    - intros H; injection H as <- _. apply TSall_TS, TSall_refl.
    - destruct (gen_one w gen s a) as [[s1 n1]| |] eqn:E1; cbn [bind fst snd]; try discriminate.
      destruct (gen_list w gen s1 rest) as [[s2 n2]| |] eqn:E2; cbn [bind fst snd]; try discriminate.
      intros H; injection H as <- _.
      pose proof (gen_one_R w gen Hgen _ _ _ _ K E1) as R1.
      eapply TS_trans; [exact (proj1 (proj2 R1))|eapply gen_one_TS; eauto|apply (IH _ _ _ (proj1 R1) E2)].
  Qed.
End Step2.

Theorem code_gen_ts w fuel : ts_ok (code_gen_fuel w fuel).
Proof.
  induction fuel as [|f IH]; intros s b s' ns K; cbn [code_gen_fuel]; [discriminate|].
  apply (gen_list_TS w _ (code_gen_replay w f) IH); assumption.
Qed.

(* ------------------------------------------------------------------------------------------ *)
(** * A table loaded inside a scope-opening construct is invisible after it *)

Lemma chain_same old new : wf_scopes old -> ext old new ->
  (forall i si, nth_error old i = Some si -> exists si', nth_error new i = Some si' /\ s_table si' = s_table si) ->
  forall f i, (i < length old)%nat -> chain_tables new f i = chain_tables old f i.
Proof.
  intros Hwf [_ Hp] Ht. induction f as [|f IH]; intros i Hi; [reflexivity|]. cbn [chain_tables].
  destruct (nth_error old i) as [si|] eqn:Hn; [|apply nth_error_None in Hn; lia].
  destruct (Ht _ _ Hn) as (a & A1 & A2). destruct (Hp _ _ Hn) as (b & B1 & B2).
  rewrite A1 in B1. injection B1 as <-. rewrite A1, A2, B2.
  destruct (s_parent si) as [p|] eqn:Ep; [|reflexivity]. f_equal.
  pose proof (Hwf _ _ _ Hn Ep). apply IH. lia.
Qed.

Section Invisible.
  Variable w : world.
  Variable gen : cgstate -> list ast -> res (cgstate * list node).
  Hypothesis Hgen : gen_ok gen.
  Hypothesis Hts : ts_ok gen.

  (** after a scope-opening construct the chain of the current scope -- hence the table a later
      [.text] captures -- is what it was before, whatever the body loaded *)
  Theorem scoped_invisible k s pre b s' ns :
    (forall r r' pns, pre r = (r', pns) ->
       benign r r' /\ forallb (fun n => negb (scope_node n)) pns = true /\ TSall r r') ->
    cg_ok (cg_r s) -> scoped gen k s pre b = Ok (s', ns) ->
    r_cur (cg_r s') = r_cur (cg_r s) /\ chain_of (cg_r s') = chain_of (cg_r s) /\
    visible (cg_r s') = visible (cg_r s).
  Proof.
    intros Hpre K H.
    assert (Rr : R s s' ns).
    { eapply (scoped_R gen Hgen); [|exact K|exact H]. intros r r' pns Hq. destruct (Hpre _ _ _ Hq) as (A & B & _). auto. }
    destruct Rr as (K' & C & E & _).
    pose proof (scoped_TSall gen Hts k s pre b s' ns Hpre K H) as T.
    assert (Ec : chain_of (cg_r s') = chain_of (cg_r s)).
    { unfold chain_of. rewrite C. destruct K as [_ K2 K3]. apply chain_same; assumption. }
    split; [exact C|]. split; [exact Ec|]. unfold visible. rewrite Ec. reflexivity.
  Qed.

  Theorem compound_invisible s b fi s' ns : cg_ok (cg_r s) ->
    gen_one w gen s (ACompound b fi) = Ok (s', ns) -> visible (cg_r s') = visible (cg_r s).
  Proof.
    intros K H. refine (proj2 (proj2 (scoped_invisible SPlain s (fun r => (r, [])) b s' ns _ K H))).
    intros r r' pns Hp. inversion Hp; subst. split; [apply benign_refl|]. split; [reflexivity|apply TSall_refl].
  Qed.
  Theorem scope_invisible s name b fi fi' s' ns : cg_ok (cg_r s) ->
    gen_one w gen s (AScope name b fi fi') = Ok (s', ns) -> visible (cg_r s') = visible (cg_r s).
  Proof.
    intros K H. refine (proj2 (proj2 (scoped_invisible (SNamed name) s (fun r => (r, [])) b s' ns _ K H))).
    intros r r' pns Hp. inversion Hp; subst. split; [apply benign_refl|]. split; [reflexivity|apply TSall_refl].
  Qed.
  Theorem macro_invisible s name args fi s' ns : cg_ok (cg_r s) ->
    gen_one w gen s (AMacroApply name args fi) = Ok (s', ns) -> visible (cg_r s') = visible (cg_r s).
  Proof.
    intros K. cbn [gen_one]. destruct (dict_get (cg_macros s) name) as [md|]; [|discriminate].
    destruct (eval_macro_args w (cg_r s) (md_params md) args) as [bound| |]; cbn [bind]; try discriminate.
    intros H. refine (proj2 (proj2 (scoped_invisible SPlain s (fun r => bind_macro_args r bound) (md_body md) s' ns _ K H))).
    intros r r' pns Hp. cbv beta in Hp. destruct (bind_macro_args_benign _ _ _ _ Hp) as [A B].
    split; [exact A|]. split; [exact B|]. pose proof (bind_macro_args_TSall bound r) as T. rewrite Hp in T. exact T.
  Qed.
  Theorem for_invisible s v lo hi b fi fi' s' ns : cg_ok (cg_r s) ->
    gen_one w gen s (AFor v lo hi b fi fi') = Ok (s', ns) -> visible (cg_r s') = visible (cg_r s).
  Proof.
    intros K. cbn [gen_one]. destruct (eval_raw w (cg_r s) lo); cbn [bind]; try discriminate.
    destruct (eval_raw w (cg_r s) hi); cbn [bind]; try discriminate. intros H.
    pose proof (for_loop_R gen Hgen _ _ _ _ _ _ _ K H) as (K' & C & E & _).
    pose proof (for_loop_TSall gen Hgen Hts _ _ _ _ _ _ _ K H) as T.
    unfold visible, chain_of. rewrite C. destruct K as [_ K2 K3].
    rewrite (chain_same (r_scopes (cg_r s)) (r_scopes (cg_r s')) K3 E T) by exact K2. reflexivity.
  Qed.
End Invisible.

(** instantiated on the real code generator *)
Corollary block_table_invisible w fuel s b fi s' ns : cg_ok (cg_r s) ->
  gen_one w (code_gen_fuel w fuel) s (ACompound b fi) = Ok (s', ns) -> visible (cg_r s') = visible (cg_r s).
Proof. apply compound_invisible; [apply code_gen_replay|apply code_gen_ts]. Qed.

Print Assumptions get_table_rule.
Print Assumptions gen_table_visible.
Print Assumptions code_gen_ts.
Print Assumptions block_table_invisible.
