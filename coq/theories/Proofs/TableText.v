(** C18 on SOURCE TEXT: [.table] / [.text] through the whole pipeline [assemble_source].

    The text of a program is [print_program] (Proofs/RoundTripProgram.v): one statement per line,
    the words of a line separated by single blanks —  .table 'path'  /  .text 'string'  /  "{" and
    "}" on lines of their own ([table_line], [text_line], [block_lines] in TableTextPrint.v).
    Strings: any characters except the quote, the backslash and the newline ([qstr_b]).

    - [mini_text] / [mini_text_err]: [*= org] followed by ANY program of [.table], [.text] and nested
      [{ }] blocks assembles, as text, to one block = [assemble_texts prog] (Model/Table.v: every
      [.text] encoded with [to_bytes] under the table of the innermost enclosing block that loaded
      one before it — C18_scope, C18_program), or raises its exception.
    - instances: no table in scope -> NodeError; a table loaded inside a block is gone after the
      block; a nested block inherits; an inner table shadows and the outer one is back afterwards.
    - [text5_text]: [*= org / .table p / .text s / name: / .dl name]: one block = the encoding of s
      followed by the three bytes of the label, the label = org + the encoded length; the encoding
      given by the specification [Tok] (greedy longest match, [0xNN] escapes, unknown characters
      skipped); [text5_text_file]: the table given as the TEXT of its file (Model/TableFile.v). *)
From Coq Require Import ZArith List Lia Bool Arith.
From A816 Require Import Model.Table Model.TableFile Spec.TableSpec Spec.BusLaws Model.Assemble
  Proofs.BusProofs Proofs.TableProofs Proofs.TableEncode Proofs.TableScope
  Proofs.DataTextGen Proofs.DataText Proofs.InsnText Proofs.LabelTextGen Proofs.LabelText
  Proofs.TableScopeLink Proofs.TableScopeEmit Proofs.TableScopeProgram Proofs.TableScopeLayout Proofs.TableFileProofs
  Proofs.ExprLex Proofs.ExprLexParse Proofs.RoundTripExpr Proofs.RoundTripScan Proofs.RoundTripParse Proofs.RoundTripProgram
  Proofs.RoundTripAsm Proofs.TextLiftCommon Proofs.TextLiftFi
  Proofs.TableTextGen Proofs.TableTextPrint.
Import ListNotations.
Open Scope Z_scope.

Definition lorom_room (org : Z) : Z := (if bank_of org <? 128 then 112 else 80) * 32768.

(** from the AST-level result to the text *)
Lemma printed_ok t fs c fname prog o :
  lexicon_rt (lv_lex t) = true -> printable (lv_lex t) (canon_prog prog) = true ->
  assemble_program (world_of t fs) c prog = AOk o (o_final o) ->
  exists o' fin', assemble_source t fs c fname (print_program prog) = AOk o' fin' /\
                  o_blocks o' = o_blocks o /\ o_labels o' = o_labels o.
Proof.
  intros Hrt HP E. pose proof (assemble_printed_canon t fs c fname prog Hrt HP) as H. rewrite E in H.
  destruct (assemble_source t fs c fname (print_program prog)) as [o' fin'| | | |]; cbn [text_rel] in H; try contradiction.
  destruct H as [A B]. exists o', fin'. split; [reflexivity|]. split; congruence.
Qed.
Lemma printed_err t fs c fname prog k site :
  lexicon_rt (lv_lex t) = true -> printable (lv_lex t) (canon_prog prog) = true ->
  assemble_program (world_of t fs) c prog = AExc k site ->
  exists site', assemble_source t fs c fname (print_program prog) = AExc k site'.
Proof.
  intros Hrt HP E. pose proof (assemble_printed_canon t fs c fname prog Hrt HP) as H. rewrite E in H.
  destruct (assemble_source t fs c fname (print_program prog)) as [| | |k' s'|]; cbn [text_rel] in H; try contradiction.
  subst k'. exists s'. reflexivity.
Qed.

(** unfolding the mini-language generator one statement at a time *)
Lemma gen_body_cons x l ch : gen_body (x :: l) ch =
  (do r1 <- gen_stmt x ch; do r2 <- gen_body l (fst r1); Ok (fst r2, snd r1 ++ snd r2)).
Proof. reflexivity. Qed.
Lemma gen_body_nil ch : gen_body [] ch = Ok (ch, []).
Proof. reflexivity. Qed.
Lemma gen_table_eq es ch : gen_stmt (STable es) ch = (do t <- table_of_entries es; Ok (set_current_table ch t, [])).
Proof. reflexivity. Qed.
Lemma gen_text_eq s ch : gen_stmt (SText s) ch = Ok (ch, [(Table.get_table ch, s)]).
Proof. reflexivity. Qed.
Ltac gstep :=
  first [rewrite gen_body_cons | rewrite gen_block | rewrite gen_table_eq | rewrite gen_text_eq | rewrite gen_body_nil];
  cbn [bind fst snd tl app set_current_table Table.get_table].

(* ------------------------------------------------------------------------------------------ *)
(** * Any program of tables, texts and blocks *)

Section Mini.
  Variable t : live.
  Variable fs : srcfiles.
  Variable c : config.
  Variable fname : str.
  Variable pth : list entry -> str.
  Variables f0 fi : token.
  Hypothesis Hrt : lexicon_rt (lv_lex t) = true.
  Hypothesis Ktable : kw_in (lv_lex t) k_table = true.
  Hypothesis Ktext : kw_in (lv_lex t) k_text = true.
  Hypothesis Hag : bus_agree_b (lv_low t) lorom = true.
  Hypothesis Hcfg : low_rom_config t c.
  Variable xo : expr.
  Variable org : Z.
  Hypothesis Hxop : printable_expr (lv_lex t) false xo = true.
  Hypothesis Hxo : forall r, eval_raw (world_of t fs) r xo = Ok org.
  Hypothesis Hbank : 0 <= bank_of org <= 111 \/ 128 <= bank_of org <= 207.
  Hypothesis Hwin : 32768 <= org mod 65536.

  Definition mini_src (prog : list Table.stmt) : str := print_program (AStarEq xo f0 :: embed pth fi prog).
  Definition files_ok (prog : list Table.stmt) : Prop :=
    Forall (fun es => assoc_str (sf_tbl fs) (pth es) = Some es) (prog_tables prog).

  Theorem mini_text prog bs :
    forallb (stmt_okb pth) prog = true -> (ldepth prog < cg_depth)%nat -> files_ok prog ->
    assemble_texts prog = Ok bs -> lorom_offset org + Z.of_nat (length bs) < lorom_room org ->
    exists o fin, assemble_source t fs c fname (mini_src prog) = AOk o fin /\
                  o_blocks o = match bs with [] => [] | _ => [(bs, lorom_offset org)] end.
  Proof.
    intros Hok Hd Hf Ht Hfit.
    destruct (embed_assemble_lorom t fs c xo f0 org pth fi prog bs Hag Hcfg Hbank Hwin Hxo Hd Hf Ht Hfit)
      as (ri & o & Ei & Ea & Bo).
    pose proof (assemble_program_ast (world_of t fs) c (AStarEq xo f0 :: embed pth fi prog)) as P.
    rewrite Ei, Ea in P.
    destruct (printed_ok t fs c fname _ o Hrt (mini_printable (lv_lex t) pth fi Ktable Ktext xo f0 prog Hxop Hok) P)
      as (o' & fin' & E & B & _).
    exists o', fin'. split; [exact E|]. rewrite B. exact Bo.
  Qed.

  Theorem mini_text_err prog k :
    forallb (stmt_okb pth) prog = true -> (ldepth prog < cg_depth)%nat -> files_ok prog ->
    assemble_texts prog = Err k ->
    (forall ch tn, gen_body prog [None] = Ok (ch, tn) -> lorom_offset org + prefix_len (map enc_of tn) < lorom_room org) ->
    exists site, assemble_source t fs c fname (mini_src prog) = AExc k site.
  Proof.
    intros Hok Hd Hf Ht Hfit.
    destruct (embed_assemble_err_lorom t fs c xo f0 org pth fi prog k Hag Hcfg Hbank Hwin Hxo Hd Hf Ht Hfit)
      as (ri & Ei & Ea).
    pose proof (assemble_program_ast (world_of t fs) c (AStarEq xo f0 :: embed pth fi prog)) as P.
    rewrite Ei, Ea in P. destruct P as (site & P).
    apply (printed_err t fs c fname _ k site Hrt (mini_printable (lv_lex t) pth fi Ktable Ktext xo f0 prog Hxop Hok) P).
  Qed.

  Lemma origin_room : lorom_offset org < lorom_room org.
  Proof.
    destruct (lorom_range t c org Hag Hcfg Hbank Hwin) as (m & _ & _ & _ & _ & _ & _ & _ & _ & Eoff & Ers & Hlt).
    unfold lorom_room. rewrite <- Eoff, <- Ers. exact Hlt.
  Qed.

  (** ** instances of the scope rule (each with its text written out in [mini_src]) *)

  (** [*= org / .text 's'] : no table in scope — NodeError *)
  Theorem text_without_table s : qstr_b s = true ->
    exists site, assemble_source t fs c fname (mini_src [SText s]) = AExc ENode site.
  Proof.
    intros Hs. apply mini_text_err.
    - cbn [forallb stmt_okb]. rewrite Hs. reflexivity.
    - cbv. lia.
    - constructor.
    - reflexivity.
    - intros ch tn H. cbn in H. injection H as <- <-. cbn. rewrite Z.add_0_r. apply origin_room.
  Qed.

  (** [*= org / { / .table 'p' / } / .text 's'] : the table loaded inside the block is gone — NodeError *)
  Theorem table_in_block_invisible es tb s :
    qstr_b (pth es) = true -> qstr_b s = true -> assoc_str (sf_tbl fs) (pth es) = Some es ->
    table_of_entries es = Ok tb ->
    exists site, assemble_source t fs c fname (mini_src [SBlock [STable es]; SText s]) = AExc ENode site.
  Proof.
    intros Hp Hs Hf Ht. apply mini_text_err.
    - cbn [forallb stmt_okb]. rewrite Hp, Hs. reflexivity.
    - cbv. lia.
    - unfold files_ok. cbn. constructor; [exact Hf|constructor].
    - unfold assemble_texts. gstep. gstep. gstep. gstep. rewrite Ht. cbn [bind fst snd tl app set_current_table].
      repeat gstep. reflexivity.
    - intros ch tn H. revert H. gstep. gstep. gstep. gstep. rewrite Ht. cbn [bind fst snd tl app set_current_table].
      repeat gstep. intros H. injection H as <- <-. cbn. rewrite Z.add_0_r. apply origin_room.
  Qed.

  (** [*= org / .table 'p' / { / { / .text 's' / } / }] : nested blocks inherit the table *)
  Theorem nested_blocks_inherit es tb s bs :
    qstr_b (pth es) = true -> qstr_b s = true -> assoc_str (sf_tbl fs) (pth es) = Some es ->
    table_of_entries es = Ok tb -> to_bytes tb s = Ok bs ->
    lorom_offset org + Z.of_nat (length bs) < lorom_room org ->
    exists o fin, assemble_source t fs c fname (mini_src [STable es; SBlock [SBlock [SText s]]]) = AOk o fin /\
                  o_blocks o = match bs with [] => [] | _ => [(bs, lorom_offset org)] end.
  Proof.
    intros Hp Hs Hf Ht He Hfit. apply mini_text; try assumption.
    - cbn [forallb stmt_okb]. rewrite Hp, Hs. reflexivity.
    - cbv. lia.
    - unfold files_ok. cbn. constructor; [exact Hf|constructor].
    - unfold assemble_texts. gstep. gstep. rewrite Ht. cbn [bind fst snd tl app set_current_table].
      repeat gstep. cbn [emit_texts text_emit binary_text]. rewrite He. cbn [bind app]. rewrite app_nil_r. reflexivity.
  Qed.

  (** [*= org / .table 'p1' / { / .table 'p2' / .text 's' / } / .text 's'] : the inner table shadows
      inside the block, the outer one is in force again after it *)
  Theorem inner_table_shadows es1 tb1 es2 tb2 s b2 b1 :
    qstr_b (pth es1) = true -> qstr_b (pth es2) = true -> qstr_b s = true ->
    assoc_str (sf_tbl fs) (pth es1) = Some es1 -> assoc_str (sf_tbl fs) (pth es2) = Some es2 ->
    table_of_entries es1 = Ok tb1 -> table_of_entries es2 = Ok tb2 ->
    to_bytes tb2 s = Ok b2 -> to_bytes tb1 s = Ok b1 ->
    lorom_offset org + Z.of_nat (length (b2 ++ b1)) < lorom_room org ->
    exists o fin,
      assemble_source t fs c fname (mini_src [STable es1; SBlock [STable es2; SText s]; SText s]) = AOk o fin /\
      o_blocks o = match b2 ++ b1 with [] => [] | _ => [(b2 ++ b1, lorom_offset org)] end.
  Proof.
    intros Hp1 Hp2 Hs Hf1 Hf2 Ht1 Ht2 He2 He1 Hfit. apply mini_text; try assumption.
    - cbn [forallb stmt_okb]. rewrite Hp1, Hp2, Hs. reflexivity.
    - cbv. lia.
    - unfold files_ok. cbn. constructor; [exact Hf1|]. constructor; [exact Hf2|constructor].
    - unfold assemble_texts. gstep. gstep. rewrite Ht1. cbn [bind fst snd tl app set_current_table].
      gstep. gstep. gstep. gstep. rewrite Ht2. cbn [bind fst snd tl app set_current_table].
      repeat gstep. cbn [emit_texts text_emit binary_text]. rewrite He2. cbn [bind]. rewrite He1. cbn [bind app].
      rewrite app_nil_r. reflexivity.
  Qed.
End Mini.

(* ------------------------------------------------------------------------------------------ *)
(** * [*= org / .table p / .text s / name: / .dl name] *)

Theorem text5_text t fs c fname xo f0 org path f1 es text f2 name ft it fk bs :
  lexicon_rt (lv_lex t) = true ->
  kw_in (lv_lex t) k_table = true -> kw_in (lv_lex t) k_text = true -> kw_in (lv_lex t) k_dl = true ->
  bus_agree_b (lv_low t) lorom = true -> low_rom_config t c ->
  printable_expr (lv_lex t) false xo = true -> (forall r, eval_raw (world_of t fs) r xo = Ok org) ->
  (0 <= bank_of org <= 111 \/ 128 <= bank_of org <= 207) -> 32768 <= org mod 65536 ->
  qstr_b path = true -> qstr_b text = true -> pident_b (lv_lex t) name = true -> tv it = (T_IDENTIFIER, name) ->
  assoc_str (sf_tbl fs) path = Some es -> es <> [] ->
  Tok es text bs -> bs <> [] ->
  org mod 65536 + Z.of_nat (length bs) < 65536 ->
  lorom_offset org + Z.of_nat (length bs) + 3 < lorom_room org ->
  let L := org + Z.of_nat (length bs) in
  exists o fin,
    assemble_source t fs c fname (print_program (text5 xo f0 path f1 text f2 name ft it fk)) = AOk o fin /\
    o_blocks o = [(bs ++ data_bytes D_dl L, lorom_offset org)] /\ o_labels o = [(name, L)].
Proof.
  intros Hrt K1 K2 K3 Hag Hcfg Hxop Hxo Hbank Hwin Hp Htx Hn Eit Hf Hne Htok Hbne Hsame Hfit L.
  destruct (table_of_entries_ok es Hne) as (tb & Htb).
  assert (Henc : to_bytes tb text = Ok bs) by (apply (to_bytes_spec es tb Htb); exact Htok).
  destruct (lorom_range t c org Hag Hcfg Hbank Hwin)
    as (m & Hlow & Hphys & Hrtc & Hcov & Hmask & Hrom & Hw & Hb & Eoff & Ers & _).
  destruct (initial_resolver_root (world_of t fs) c (lv_low t) (Some 0) Hlow Hphys Hrtc)
    as (ri & s0 & Einit & Gri & Hre & Hsc & Hs0).
  assert (Htable : w_table (world_of t fs) path = Ok (to_bytes tb)).
  { cbn [world_of w_table]. rewrite Hf, Htb. reflexivity. }
  destruct (text_program (world_of t fs) c (lv_low t) m ri s0 xo f0 path f1 (to_bytes tb) text f2 name ft it fk org bs
              Hcov Hmask Hrom Hw Hb Einit Gri Hre Hsc Hs0 Hxo Htable Henc Hbne (tv_type _ _ _ Eit) (tv_value _ _ _ Eit))
    as (o & E & B & Lb).
  { rewrite Eoff, Ers. exact Hfit. }
  assert (EL : A m (spec_offset m org + Z.of_nat (length bs)) = L).
  { unfold L. apply A_same_bank; try assumption; lia. }
  destruct (printed_ok t fs c fname _ o Hrt
              (text5_printable (lv_lex t) xo f0 path f1 text f2 name ft it fk K1 K2 K3 Hxop Hp Htx Hn Eit) E)
    as (o' & fin' & E' & B' & L').
  exists o', fin'. split; [exact E'|]. rewrite B', L', B, Lb, EL, Eoff. split; reflexivity.
Qed.

(** the table given as the text of its file: [sf_tbl] holds the entries of the lines of the file *)
Lemma table_of_text_entries s es : entries_of_text s = Ok es -> table_of_text s = table_of_entries es.
Proof. intros H. unfold table_of_text. rewrite include_text_factors, H. reflexivity. Qed.

Theorem text5_text_file t fs c fname xo f0 org path f1 raw es tb text f2 name ft it fk bs :
  lexicon_rt (lv_lex t) = true ->
  kw_in (lv_lex t) k_table = true -> kw_in (lv_lex t) k_text = true -> kw_in (lv_lex t) k_dl = true ->
  bus_agree_b (lv_low t) lorom = true -> low_rom_config t c ->
  printable_expr (lv_lex t) false xo = true -> (forall r, eval_raw (world_of t fs) r xo = Ok org) ->
  (0 <= bank_of org <= 111 \/ 128 <= bank_of org <= 207) -> 32768 <= org mod 65536 ->
  qstr_b path = true -> qstr_b text = true -> pident_b (lv_lex t) name = true -> tv it = (T_IDENTIFIER, name) ->
  entries_of_text (universal_newlines raw) = Ok es -> assoc_str (sf_tbl fs) path = Some es ->
  table_of_file raw = Ok tb -> to_bytes tb text = Ok bs -> bs <> [] ->
  org mod 65536 + Z.of_nat (length bs) < 65536 ->
  lorom_offset org + Z.of_nat (length bs) + 3 < lorom_room org ->
  let L := org + Z.of_nat (length bs) in
  exists o fin,
    assemble_source t fs c fname (print_program (text5 xo f0 path f1 text f2 name ft it fk)) = AOk o fin /\
    o_blocks o = [(bs ++ data_bytes D_dl L, lorom_offset org)] /\ o_labels o = [(name, L)] /\ Tok es text bs.
Proof.
  intros Hrt K1 K2 K3 Hag Hcfg Hxop Hxo Hbank Hwin Hp Htx Hn Eit Hent Hf Hfile Henc Hbne Hsame Hfit L.
  assert (Htb : table_of_entries es = Ok tb).
  { rewrite <- (table_of_text_entries _ _ Hent). exact Hfile. }
  assert (Htok : Tok es text bs) by (apply (to_bytes_spec es tb Htb); exact Henc).
  assert (Hne : es <> []) by (intros ->; discriminate Htb).
  destruct (text5_text t fs c fname xo f0 org path f1 es text f2 name ft it fk bs Hrt K1 K2 K3 Hag Hcfg Hxop Hxo
              Hbank Hwin Hp Htx Hn Eit Hf Hne Htok Hbne Hsame Hfit) as (o & fin & E & B & Lb).
  exists o, fin. repeat split; assumption.
Qed.

Print Assumptions mini_text.
Print Assumptions mini_text_err.
Print Assumptions text_without_table.
Print Assumptions table_in_block_invisible.
Print Assumptions nested_blocks_inherit.
Print Assumptions inner_table_shadows.
Print Assumptions text5_text.
Print Assumptions text5_text_file.

(* ------------------------------------------------------------------------------------------ *)
(** * Non-vacuity *)
From A816 Require Import Proofs.RoundTripDemo.

(** t.tbl:  10=a / 20=ab / 3031=abc  — overlapping entries *)
Definition tt_raw : str := [49;48;61;97;10; 50;48;61;97;98;10; 51;48;51;49;61;97;98;99;10].
Definition tt_es : list entry := [([97], [16], None); ([97; 98], [32], None); ([97; 98; 99], [48; 49], None)].
Definition tt_path : str := [116; 46; 116; 98; 108].                          (* "t.tbl" *)
Definition tt_fs : srcfiles := {| sf_text := []; sf_bin := []; sf_tbl := [(tt_path, tt_es)] |}.
Definition tt_text : str := [97;98;99;97;98;91;48;120;52;49;93;122;97].       (* "abcab[0x41]za" *)
Definition tt_name : str := [100; 111; 110; 101].                             (* "done" *)
Definition tt_xo : expr := nm n8000.
Definition tt_tok : token := mk_token T_COMMENT [].
Definition tt_it : token := mk_token T_IDENTIFIER tt_name.
Definition tt_prog : list ast := text5 tt_xo tt_tok tt_path tt_tok tt_text tt_tok tt_name tt_tok tt_it tt_tok.

Example tt_file_entries : entries_of_text (universal_newlines tt_raw) = Ok tt_es.
Proof. vm_compute. reflexivity. Qed.

(** "*= 0x8000 / .table 't.tbl' / .text 'abcab[0x41]za' / done: / .dl done" *)
Example tt_src : print_program tt_prog =
  [42;61;32;48;120;56;48;48;48;10; 46;116;97;98;108;101;32;39;116;46;116;98;108;39;10;
   46;116;101;120;116;32;39;97;98;99;97;98;91;48;120;52;49;93;122;97;39;10; 100;111;110;101;58;10;
   46;100;108;32;100;111;110;101;10].
Proof. vm_compute. reflexivity. Qed.

(** computed by the model: "abc" -> 30 31 (longest match), "ab" -> 20, [0x41] -> 41, 'z' skipped,
    "a" -> 10, then the label 0x8005 as three bytes *)
Example tt_computed :
  view (assemble_source demo_live4 tt_fs demo_cfg [109] (print_program tt_prog))
  = Some ([([48; 49; 32; 65; 16; 5; 128; 0], 0)], [(tt_name, 32773)]).
Proof. vm_compute. reflexivity. Qed.

Lemma tt_xo_closed fs : forall r, eval_raw (world_of demo_live4 fs) r tt_xo = Ok 32768.
Proof. intros r. reflexivity. Qed.

(** the same from the theorem, the table given as the text of its file *)
Example tt_proved : exists o fin,
  assemble_source demo_live4 tt_fs demo_cfg [109] (print_program tt_prog) = AOk o fin /\
  o_blocks o = [([48; 49; 32; 65; 16; 5; 128; 0], 0)] /\ o_labels o = [(tt_name, 32773)] /\
  Tok tt_es tt_text [48; 49; 32; 65; 16].
Proof.
  destruct (table_of_entries_ok tt_es ltac:(discriminate)) as (tb & Htb).
  assert (Hfile : table_of_file tt_raw = Ok tb).
  { unfold table_of_file, include_file. fold (table_of_text (universal_newlines tt_raw)).
    rewrite (table_of_text_entries _ _ tt_file_entries). exact Htb. }
  assert (Henc : to_bytes tb tt_text = Ok [48; 49; 32; 65; 16]).
  { assert (X : (do tb0 <- table_of_entries tt_es; to_bytes tb0 tt_text) = Ok [48; 49; 32; 65; 16]) by (vm_compute; reflexivity).
    rewrite Htb in X. exact X. }
  assert (Hag : bus_agree_b (lv_low demo_live4) lorom = true) by (vm_compute; reflexivity).
  assert (Hcfg : low_rom_config demo_live4 demo_cfg) by (split; [reflexivity|exact I]).
  assert (Hbank : 0 <= bank_of 32768 <= 111 \/ 128 <= bank_of 32768 <= 207) by (left; vm_compute; split; discriminate).
  assert (Hwin : 32768 <= 32768 mod 65536) by (vm_compute; discriminate).
  destruct (text5_text_file demo_live4 tt_fs demo_cfg [109] tt_xo tt_tok 32768 tt_path tt_tok tt_raw tt_es tb tt_text
              tt_tok tt_name tt_tok tt_it tt_tok [48; 49; 32; 65; 16]
              eq_refl eq_refl eq_refl eq_refl Hag Hcfg eq_refl (tt_xo_closed tt_fs) Hbank Hwin
              eq_refl eq_refl eq_refl eq_refl tt_file_entries eq_refl Hfile Henc ltac:(discriminate)
              ltac:(vm_compute; reflexivity) ltac:(vm_compute; reflexivity)) as (o & fin & E & B & L & T).
  exists o, fin. split; [exact E|]. split; [rewrite B; reflexivity|]. split; [exact L|exact T].
Qed.

(** scoping, computed on text:
      *= 0x8000 / .table 't.tbl' / .text 'ab' / { / .text 'a' / { / .text 'abc' / } / } / .text 'a'
    and a [.scope] block, a [.text] after a block that loaded the table, a [.text] with no table *)
Definition tt_pth (es : list entry) : str := tt_path.
Definition tt_mini (prog : list Table.stmt) : str := print_program (AStarEq tt_xo tt_tok :: embed tt_pth tt_tok prog).
Example tt_scope_computed :
  view (assemble_source demo_live4 tt_fs demo_cfg [109]
          (tt_mini [STable tt_es; SText [97; 98]; SBlock [SText [97]; SBlock [SText [97; 98; 99]]]; SText [97]]))
  = Some ([([32; 16; 48; 49; 16], 0)], []) /\
  view (assemble_source demo_live4 tt_fs demo_cfg [109]
          (print_program [AStarEq tt_xo tt_tok; ATable tt_path tt_tok;
                          AScope [115; 99] [AText [97; 98] tt_tok] tt_tok tt_tok; AText [97] tt_tok]))
  = Some ([([32; 16], 0)], []) /\
  (exists s, assemble_source demo_live4 tt_fs demo_cfg [109] (tt_mini [SBlock [STable tt_es]; SText [97]]) = AExc ENode s) /\
  (exists s, assemble_source demo_live4 tt_fs demo_cfg [109] (tt_mini [SText [97]]) = AExc ENode s).
Proof. vm_compute. repeat split; eexists; reflexivity. Qed.

(** ... and from the theorems *)
Example tt_scope_proved :
  (exists site, assemble_source demo_live4 tt_fs demo_cfg [109] (tt_mini [SText [97]]) = AExc ENode site) /\
  (exists site, assemble_source demo_live4 tt_fs demo_cfg [109] (tt_mini [SBlock [STable tt_es]; SText [97]]) = AExc ENode site) /\
  (exists o fin, assemble_source demo_live4 tt_fs demo_cfg [109] (tt_mini [STable tt_es; SBlock [SBlock [SText [97; 98; 99]]]]) = AOk o fin /\
                 o_blocks o = [([48; 49], 0)]).
Proof.
  destruct (table_of_entries_ok tt_es ltac:(discriminate)) as (tb & Htb).
  assert (Hag : bus_agree_b (lv_low demo_live4) lorom = true) by (vm_compute; reflexivity).
  assert (Hcfg : low_rom_config demo_live4 demo_cfg) by (split; [reflexivity|exact I]).
  assert (Hbank : 0 <= bank_of 32768 <= 111 \/ 128 <= bank_of 32768 <= 207) by (left; vm_compute; split; discriminate).
  assert (Hwin : 32768 <= 32768 mod 65536) by (vm_compute; discriminate).
  split; [|split].
  - apply (text_without_table demo_live4 tt_fs demo_cfg [109] tt_pth tt_tok tt_tok eq_refl eq_refl eq_refl Hag Hcfg
             tt_xo 32768 eq_refl (tt_xo_closed tt_fs) Hbank Hwin [97] eq_refl).
  - apply (table_in_block_invisible demo_live4 tt_fs demo_cfg [109] tt_pth tt_tok tt_tok eq_refl eq_refl eq_refl Hag Hcfg
             tt_xo 32768 eq_refl (tt_xo_closed tt_fs) Hbank Hwin tt_es tb [97]); try reflexivity. exact Htb.
  - assert (Henc : to_bytes tb [97; 98; 99] = Ok [48; 49]).
    { assert (X : (do tb0 <- table_of_entries tt_es; to_bytes tb0 [97; 98; 99]) = Ok [48; 49]) by (vm_compute; reflexivity).
      rewrite Htb in X. exact X. }
    apply (nested_blocks_inherit demo_live4 tt_fs demo_cfg [109] tt_pth tt_tok tt_tok eq_refl eq_refl eq_refl Hag Hcfg
             tt_xo 32768 eq_refl (tt_xo_closed tt_fs) Hbank Hwin tt_es tb [97; 98; 99] [48; 49]); try reflexivity; try assumption.
Qed.

Print Assumptions tt_computed.
Print Assumptions tt_proved.
Print Assumptions tt_scope_computed.
Print Assumptions tt_scope_proved.
