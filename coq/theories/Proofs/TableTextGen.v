(** C18 at the level of source TEXT, part 1 (AST level): the program
        *= org / .table path / .text string / name: / .dl name
    through code generation and the passes: ONE block = the encoding of the string under the loaded
    table followed by the three bytes of the label's value, the label = the address right after the
    encoded string.

    A TableNode is transparent for the passes ([ntable_insert]); the TextNode is an item of the
    engine of Proofs/LabelTextGen.v ([text_item]). *)
From Coq Require Import ZArith List Lia Bool Arith.
From A816 Require Import Spec.BusLaws Model.Program Model.Codegen Model.Assemble Proofs.BusProofs Proofs.ProgramProofs
  Proofs.DataTextGen Proofs.LabelTextGen Proofs.IpsTextGen.
Import ListNotations.
Open Scope Z_scope.

(* ------------------------------------------------------------------------------------------ *)
(** * A TableNode does nothing in the passes *)

Lemma label_run_table w r ns a : label_run w r (NTable :: ns) a =
  match label_run w r ns a with
  | Ok x => Ok (fst (fst x), snd (fst x), a_val a :: snd x)
  | Err k => Err k
  | OutOfFuel => OutOfFuel
  end.
Proof. cbn [label_run is_symbol_node pc_after bind fst snd]. destruct (label_run w r ns a); reflexivity. Qed.

Lemma symbol_pass_insert_table w post : forall pre r a,
  symbol_pass w r (pre ++ NTable :: post) a = symbol_pass w r (pre ++ post) a.
Proof.
  induction pre as [|n pre IH]; intros r a; cbn [app symbol_pass]; [reflexivity|].
  destruct (is_label_or_binary n); [apply IH|].
  destruct (pc_after w r n a) as [[r1 a1]| |]; cbn [bind fst snd]; [apply IH|reflexivity|reflexivity].
Qed.

Lemma resolve_labels_insert_table w r ns1 ns2 rr addrs :
  resolve_labels w r (ns1 ++ ns2) = Ok (rr, addrs) ->
  exists l1 l2 r1 a1 rl al,
    addrs = l1 ++ l2 ++ [a_val al] /\ length l1 = length ns1 /\
    label_run w r1 ns2 a1 = Ok (rl, al, l2) /\
    resolve_labels w r (ns1 ++ NTable :: ns2) = Ok (rr, l1 ++ a_val a1 :: l2 ++ [a_val al]).
Proof.
  unfold resolve_labels. set (r0 := set_cur_last r (r_cur r) 0). rewrite !label_pass_run.
  destruct (label_run w r0 (ns1 ++ ns2) (r_reloc r0)) as [[[rl al] l]| |] eqn:LR; cbn [bind fst snd]; try discriminate.
  destruct (label_run_app _ _ _ _ _ _ _ _ LR) as (r1 & a1 & l1 & l2 & LR1 & LR2 & ->).
  pose proof (label_run_length _ _ _ _ _ _ _ LR1) as Len1.
  assert (LR' : label_run w r0 (ns1 ++ NTable :: ns2) (r_reloc r0) = Ok (rl, al, l1 ++ a_val a1 :: l2)).
  { apply (label_run_app_fwd w ns1 _ _ _ _ _ _ _ _ _ LR1). rewrite label_run_table, LR2. reflexivity. }
  rewrite LR'. cbn [bind fst snd app]. rewrite symbol_pass_insert_table.
  destruct (symbol_pass w (resolver_reset rl) (ns1 ++ ns2) (r_reloc (resolver_reset rl))) as [y| |]; cbn [bind]; try discriminate.
  intros H. inversion H; subst; clear H.
  exists l1, l2, r1, a1, rl, al. split; [rewrite <- app_assoc; reflexivity|]. split; [exact Len1|].
  split; [exact LR2|]. rewrite <- app_assoc. reflexivity.
Qed.

Lemma emit_step_table w st x : a_val (r_reloc (e_r st)) = x -> emit_step w st NTable x = Ok st.
Proof.
  intros H. unfold emit_step. rewrite H, Z.eqb_refl. cbn. rewrite app_nil_r. destruct st; reflexivity.
Qed.

(** a TableNode anywhere in a node list changes nothing *)
Theorem ntable_insert w r ns1 ns2 o :
  assemble_nodes w r (ns1 ++ ns2) = Ok o -> assemble_nodes w r (ns1 ++ NTable :: ns2) = Ok o.
Proof.
  unfold assemble_nodes.
  destruct (resolve_labels w r (ns1 ++ ns2)) as [[rr addrs]| |] eqn:RL; cbn [bind fst snd]; try discriminate.
  destruct (resolve_labels_insert_table w r ns1 ns2 rr addrs RL) as (l1 & l2 & r1 & a1 & rl & al & -> & Len1 & LR2 & RL').
  rewrite RL'. cbn [bind fst snd]. unfold emit. fold (emit_state0 rr).
  rewrite (emit_loop_app w ns1 ns2 (emit_state0 rr) l1 (l2 ++ [a_val al]) Len1).
  rewrite (emit_loop_app w ns1 (NTable :: ns2) (emit_state0 rr) l1 (a_val a1 :: l2 ++ [a_val al]) Len1).
  destruct (emit_prefix w (emit_state0 rr) ns1 l1) as [st1| |] eqn:EP; cbn [bind]; try discriminate.
  destruct (emit_loop w st1 ns2 (l2 ++ [a_val al])) as [stF| |] eqn:EL; cbn [bind]; try discriminate.
  intros H. pose proof (rest_phase _ _ _ _ _ _ _ _ _ LR2 EL) as Ph.
  cbn [emit_loop]. rewrite (emit_step_table w st1 (a_val a1) Ph). cbn [bind]. rewrite EL. cbn [bind]. exact H.
Qed.

(* ------------------------------------------------------------------------------------------ *)
(** * The TextNode as an engine item *)

Section TextItem.
  Variable w : world.
  Variable low : bus.
  Variable m : mapping.
  Variable name : str.
  Variable L : Z.

  Definition text_item (bs : bytes) (fi : token) : item :=
    {| it_n := NText (Ok bs) fi; it_len := Z.of_nat (length bs); it_bs := bs |}.

  Lemma item_text bs fi q : bs <> [] -> item_ok w low m name L (text_item bs fi) q.
  Proof.
    intros Hne. unfold item_ok, text_item. cbn [it_n it_len it_bs].
    split; [|split; [reflexivity|split]].
    - unfold sized. split; [intros r a; reflexivity|]. repeat split; discriminate.
    - destruct bs; [contradiction|]. cbn [length]. lia.
    - intros r _ _ _ _. reflexivity.
  Qed.
End TextItem.

(* ------------------------------------------------------------------------------------------ *)
(** * Code generation of the five statements *)

Lemma get_table_root ri s0 tf : r_scopes ri = [s0] -> r_cur ri = 0%nat ->
  Resolver.get_table (upd_scope ri 0 (scope_set_table tf)) = Ok (Some tf).
Proof.
  intros Hs Hc. unfold Resolver.get_table, upd_scope. cbn [set_scopes r_scopes r_cur]. rewrite Hs, Hc.
  cbn [list_update get_table_fuel nth_error scope_set_table s_table]. reflexivity.
Qed.

Lemma text_codegen w ri s0 xo f0 path f1 tf text f2 name ft dk e fk :
  r_scopes ri = [s0] -> r_cur ri = 0%nat -> w_table w path = Ok tf ->
  code_gen_fuel w cg_depth {| cg_r := ri; cg_macros := [] |}
    [AStarEq xo f0; ATable path f1; AText text f2; ALabel name ft; AData dk [e] fk]
  = Ok ({| cg_r := upd_scope ri 0 (scope_set_table tf); cg_macros := [] |},
        [NCodePos xo f0; NTable; NText (tf text) f2; NLabel name; NData dk e fk]).
Proof.
  intros Hs Hc Ht. change (code_gen_fuel w cg_depth) with (gen_list w (code_gen_fuel w 299)).
  generalize (code_gen_fuel w 299). intros gen.
  cbn [gen_list gen_one bind fst snd cg_r]. rewrite Ht. cbn [bind fst snd cg_set_r cg_r cg_macros]. rewrite Hc.
  rewrite (get_table_root ri s0 tf Hs Hc). cbn [bind fst snd map app]. reflexivity.
Qed.

(** the same without the [.table] line: the TextNode carries the NodeError *)
Lemma text_codegen_no_table w ri s0 xo f0 text f2 rest :
  r_scopes ri = [s0] -> r_cur ri = 0%nat -> s_table s0 = None -> s_parent s0 = None ->
  gen_list w (code_gen_fuel w 299) {| cg_r := ri; cg_macros := [] |} (AStarEq xo f0 :: AText text f2 :: rest)
  = (do y <- gen_list w (code_gen_fuel w 299) {| cg_r := ri; cg_macros := [] |} rest;
     Ok (fst y, NCodePos xo f0 :: NText (Err ENode) f2 :: snd y)).
Proof.
  intros Hs Hc Ht Hp. cbn [gen_list gen_one bind fst snd cg_r].
  unfold Resolver.get_table. rewrite Hs, Hc. cbn [get_table_fuel nth_error]. rewrite Ht, Hp. cbn [bind fst snd app].
  destruct (gen_list w (code_gen_fuel w 299) {| cg_r := ri; cg_macros := [] |} rest) as [[s' ns']| |]; reflexivity.
Qed.

(* ------------------------------------------------------------------------------------------ *)
(** * The program *)

Theorem text_program w c low m ri s0 xo f0 path f1 tf text f2 name ft it fk org bs :
  covers low m -> mask_ok m -> m_writable m = false ->
  in_window m org -> m_first m <= bank_of org <= m_last m ->
  initial_resolver w c = Ok ri -> Good w low ri -> r_reloc ri = at_ low 0 -> r_scopes ri = [s0] ->
  s_parent s0 = None /\ s_code s0 = [] /\ s_labels s0 = [] /\ s_kind s0 = SPlain ->
  (forall r, eval_raw w r xo = Ok org) ->
  w_table w path = Ok tf -> tf text = Ok bs -> bs <> [] ->
  t_type it = T_IDENTIFIER -> t_value it = name ->
  spec_offset m org + Z.of_nat (length bs) + 3 < rsize m ->
  let L := A m (spec_offset m org + Z.of_nat (length bs)) in
  exists o,
    assemble_program w c [AStarEq xo f0; ATable path f1; AText text f2; ALabel name ft;
                          AData D_dl [[Parser.en EK_term it]] fk] = AOk o (o_final o) /\
    o_blocks o = [(bs ++ data_bytes D_dl L, spec_offset m org)] /\ o_labels o = [(name, L)].
Proof.
  intros Hcov Hmask Hrom Hw Hb Hi Gri Hre Hsc Hs0 Hxo Ht Henc Hne Ty Va Hfit L.
  set (rf := upd_scope ri 0 (scope_set_table tf)).
  set (s0' := scope_set_table tf s0).
  assert (Hsc' : r_scopes rf = [s0']) by (unfold rf, upd_scope; cbn [set_scopes r_scopes]; rewrite Hsc; reflexivity).
  assert (Gf : Good w low rf) by exact Gri.
  assert (Hs0' : s_parent s0' = None /\ s_code s0' = [] /\ s_labels s0' = [] /\ s_kind s0' = SPlain) by exact Hs0.
  assert (EL : L = A m (spec_offset m org + total [text_item bs f2])).
  { unfold L. cbn [total fold_right text_item it_len]. rewrite Z.add_0_r. reflexivity. }
  destruct (engine_run w low m Hcov Hmask Hrom name L rf s0' Gf Hre Hsc' Hs0' xo f0 org Hw Hb Hxo
              [text_item bs f2] [data_item L D_dl it fk] EL) as (o & E & B & Lb).
  { cbn [items_ok]. split; [apply item_text; exact Hne|exact I]. }
  { cbn [items_ok]. split; [apply item_data; assumption|exact I]. }
  { cbn [total fold_right text_item data_item it_len dkind_len]. lia. }
  { cbn [bytes_of flat_map text_item it_bs app]. destruct bs; [contradiction|discriminate]. }
  exists o. split; [|split].
  - unfold assemble_program. rewrite Hi.
    destruct Gri as (_ & _ & Hc).
    pose proof (text_codegen w ri s0 xo f0 path f1 tf text f2 name ft D_dl [Parser.en EK_term it] fk Hsc Hc Ht) as X.
    unfold expr in X. rewrite X. clear X.
    cbn [cg_r]. rewrite Henc. fold rf.
    pose proof (ntable_insert w rf [NCodePos xo f0] [NText (Ok bs) f2; NLabel name; NData D_dl [Parser.en EK_term it] fk] o E) as Y.
    cbn [app] in Y. rewrite Y. reflexivity.
  - rewrite B. cbn [bytes_of flat_map text_item data_item it_bs app]. rewrite !app_nil_r. reflexivity.
  - exact Lb.
Qed.

Print Assumptions ntable_insert.
Print Assumptions text_program.
