(** C18 at the level of source TEXT, part 2 (text <-> AST): the programs of table/text statements are
    in the printable class of Proofs/RoundTripParse.v once their file_info tokens are the canonical
    ones ([canon_prog], Proofs/TextLiftFi.v) — so their printed text ([print_program]: one statement
    per line, single blanks, "{" and "}" on lines of their own) scans and parses back to them and
    assembles like the AST ([assemble_printed_canon]).

    [mini_printable]: [*= org] followed by any mini-language program ([embed]: [.table], [.text],
    nested [{ }] blocks).  [text5_printable]: [*= org / .table p / .text s / name: / .dl name].
    Conditions: the keywords are in the lexicon, paths and strings contain no quote, backslash or
    newline ([qstr_b]), the origin is a printable expression, the name a printable identifier. *)
From Coq Require Import ZArith List Lia Bool Arith.
From A816 Require Import Model.Table Model.Assemble Proofs.TableScope Proofs.TableScopeLink
  Proofs.ExprLex Proofs.RoundTripExpr Proofs.RoundTripScan Proofs.RoundTripParse Proofs.RoundTripProgram Proofs.TextLiftFi.
Import ListNotations.
Open Scope Z_scope.

Lemma tk_eqb_refl t : tk_eqb t t = true.
Proof.
  destruct t as [ty v]. unfold tk_eqb. cbn [fst snd]. rewrite Proofs.BusProofs.str_eqb_refl.
  destruct ty; reflexivity.
Qed.
Lemma fi_is_tok t : fi_is (tok t) t = true.
Proof. unfold fi_is, tok, tv, mk_token. cbn [t_type t_value]. destruct t. apply tk_eqb_refl. Qed.

(** strings of a mini-language program *)
Fixpoint stmt_okb (pth : list entry -> str) (st : stmt) : bool :=
  match st with
  | STable es => qstr_b (pth es)
  | SText s => qstr_b s
  | SBlock b => forallb (stmt_okb pth) b
  end.

Section Mini.
  Variable lx : lexicon.
  Variable pth : list entry -> str.
  Variable fi : token.
  Hypothesis Ktable : kw_in lx k_table = true.
  Hypothesis Ktext : kw_in lx k_text = true.

  Lemma first_canon_embed st nx : first_tk (canon nx (embed_stmt pth fi st)) = first_tk (embed_stmt pth fi st).
  Proof. destruct st; reflexivity. Qed.

  Definition Pst (st : stmt) : Prop :=
    stmt_okb pth st = true -> forall nx, pstmt lx nx (canon nx (embed_stmt pth fi st)) = true.

  Lemma body_printable : forall b, Forall Pst b -> forallb (stmt_okb pth) b = true -> forall next,
    ctx_all (pstmt lx) first_tk next (ctx_map canon next (embed pth fi b)) = true.
  Proof.
    induction b as [|x r IH]; intros HF Hok next; [reflexivity|].
    inversion HF as [|? ? Hx Hr]; subst. cbn [forallb] in Hok. apply andb_prop in Hok as [Ox Or].
    unfold embed in *. cbn [map ctx_map ctx_all].
    rewrite (IH Hr Or next), andb_true_r.
    destruct r as [|y r']; cbn [map ctx_map].
    - apply Hx. exact Ox.
    - rewrite first_canon_embed. apply Hx. exact Ox.
  Qed.

  Lemma stmt_printable : forall st, Pst st.
  Proof.
    apply stmt_ind2; unfold Pst; cbn [stmt_okb embed_stmt canon pstmt].
    - intros es H nx. rewrite Ktable, fi_is_tok, H. reflexivity.
    - intros s H nx. rewrite Ktext, fi_is_tok, H. reflexivity.
    - intros body HF H nx. rewrite fi_is_tok. cbn [andb].
      apply (body_printable body HF H tRB).
  Qed.

  Lemma embed_printable prog next : forallb (stmt_okb pth) prog = true ->
    ctx_all (pstmt lx) first_tk next (ctx_map canon next (embed pth fi prog)) = true.
  Proof.
    intros H. apply body_printable; [|exact H]. apply Forall_forall. intros st _. apply stmt_printable.
  Qed.

  (** [*= org] + a mini-language program *)
  Theorem mini_printable xo f0 prog :
    printable_expr lx false xo = true -> forallb (stmt_okb pth) prog = true ->
    printable lx (canon_prog (AStarEq xo f0 :: embed pth fi prog)) = true.
  Proof.
    intros Hxo Hok. unfold printable, pstmts, canon_prog. cbn [ctx_map ctx_all].
    rewrite (embed_printable prog tEOF Hok), andb_true_r.
    cbn [canon pstmt]. rewrite Hxo, fi_is_tok. reflexivity.
  Qed.
End Mini.

Lemma ident_printable lx it name : tv it = (T_IDENTIFIER, name) -> pident_b lx name = true ->
  printable_expr lx false [Parser.en EK_term it] = true.
Proof.
  destruct it as [ty v p]. unfold tv. cbn [t_type t_value]. intros E Hn. injection E as -> ->.
  unfold printable_expr, etv, tv, etok_b. cbn. rewrite Hn. reflexivity.
Qed.

(** [*= org / .table p / .text s / name: / .dl name] *)
Definition text5 (xo : expr) (f0 : token) (path : str) (f1 : token) (text : str) (f2 : token)
                 (name : str) (ft it fk : token) : list ast :=
  [AStarEq xo f0; ATable path f1; AText text f2; ALabel name ft; AData D_dl [[Parser.en EK_term it]] fk].

Theorem text5_printable lx xo f0 path f1 text f2 name ft it fk :
  kw_in lx k_table = true -> kw_in lx k_text = true -> kw_in lx k_dl = true ->
  printable_expr lx false xo = true -> qstr_b path = true -> qstr_b text = true ->
  pident_b lx name = true -> tv it = (T_IDENTIFIER, name) ->
  printable lx (canon_prog (text5 xo f0 path f1 text f2 name ft it fk)) = true.
Proof.
  intros K1 K2 K3 Hxo Hp Ht Hn Eit. unfold printable, pstmts, canon_prog, text5.
  cbn [ctx_map ctx_all canon pstmt first_tk stmt_tks hd dk_name].
  rewrite Hxo, K1, K2, K3, Hp, Ht, Hn, !fi_is_tok. cbn [andb forallb].
  rewrite (ident_printable lx it name Eit Hn). reflexivity.
Qed.

(** how these statements are written *)
Lemma table_line path fi : print_stmt (ATable path fi) = [[46] ++ k_table ++ [32; 39] ++ path ++ [39]].
Proof. unfold print_stmt. cbn. rewrite <- ?app_assoc. reflexivity. Qed.
Lemma text_line s fi : print_stmt (AText s fi) = [[46] ++ k_text ++ [32; 39] ++ s ++ [39]].
Proof. unfold print_stmt. cbn. rewrite <- ?app_assoc. reflexivity. Qed.
Lemma block_lines b fi : print_stmt (ACompound b fi) = [[123]] ++ flat_map print_stmt b ++ [[125]].
Proof.
  assert (X : map LabelTextScan.l_body (flat_map stmt_lines b) = flat_map print_stmt b).
  { induction b as [|x b IH]; [reflexivity|]. cbn [flat_map]. rewrite map_app, IH. reflexivity. }
  unfold print_stmt at 1. cbn [stmt_lines map]. rewrite map_app, X. reflexivity.
Qed.

Print Assumptions mini_printable.
Print Assumptions text5_printable.
