(** TBLFILE — the run-time oracle of the table-file tie (Oracle/TblFileo.v) against the model.

    [check c = (corr c, spec_ok c)].  [spec_ok] depends on the INTENT the generator ships with the
    file ([IEntries es]: exactly these entries / [IError]: a line must raise / [IUnknown]: no
    prediction), so "agrees with the model => passes the oracle" can only hold when the intent is
    consistent with the file; a wrong intent makes the plain implication false (examples below).

    Proved here:
    - rejected files ([table_of_file raw = Err _]): an observation that agrees with the model passes
      the oracle for every intent except a non-empty [IEntries] ([rejected_corr_implies_spec]); the
      only error class the model produces is ValueError;
    - loaded files: an observation that agrees with the model IS the model's table, field by field
      ([corr_loaded_is_model]), so the oracle's verdict on it is its verdict on the model's own value
      ([loaded_verdict_is_models]); with intent [IError] or [IEntries []] it fails (wrong intent).
    NOT proved (budget): that the model's own table satisfies [structural] / equals [spec_dict] of
    the intended entries — i.e. [table_of_file raw = Ok t -> structural (obs_of t) = true] and
    [entries_of_text (universal_newlines raw) = Ok es -> es <> [] -> spec_ok (CFile raw (IEntries es)
    (OOk (obs_of t)) probes) = true].  Both are checked by vm_compute on the examples. *)
From Coq Require Import ZArith List Lia Bool Arith.
From A816 Require Import Model.TableFile Oracle.TblFileo Proofs.BusProofs Proofs.TableFileProofs.
Import ListNotations.
Open Scope Z_scope.

(** the model's table as the harness would observe it *)
Definition obs_of (t : table) : tbl_obs :=
  (t_lookup t, t_inv t, (Z.of_nat (t_max_bytes t), Z.of_nat (t_max_text t))).

(* ------------------------------------------------------------------------------------------ *)
(** * Rejected files *)

Lemma table_of_file_error raw k : table_of_file raw = Err k -> k = EValue.
Proof. unfold table_of_file, include_file. intros H. apply (proj2 (include_text_no_fuel _ _) k H). Qed.
Lemma table_of_file_no_fuel raw : table_of_file raw <> OutOfFuel.
Proof. unfold table_of_file, include_file. apply (proj1 (include_text_no_fuel _ _)). Qed.

Definition intent_allows_error (it : intent) : Prop :=
  match it with IEntries (_ :: _) => False | _ => True end.

Theorem rejected_corr_implies_spec raw it impl probes k :
  table_of_file raw = Err k -> intent_allows_error it ->
  corr (CFile raw it impl probes) = true -> spec_ok (CFile raw it impl probes) = true.
Proof.
  intros E Hi H. pose proof (table_of_file_error raw k E). subst k. cbn [corr] in H. rewrite E in H.
  destruct impl as [o|k'|]; try discriminate H. apply andb_prop in H as [Hk _].
  destruct k'; try discriminate Hk. cbn [spec_ok].
  destruct it as [[|e es]| |]; [reflexivity|contradiction|reflexivity|reflexivity].
Qed.

(* ------------------------------------------------------------------------------------------ *)
(** * Loaded files: the observation is the model's table *)

Lemma pair_eqb_eq {A B} (ea : A -> A -> bool) (eb : B -> B -> bool) :
  (forall x y, ea x y = true -> x = y) -> (forall x y, eb x y = true -> x = y) ->
  forall p q, pair_eqb ea eb p q = true -> p = q.
Proof.
  intros Ha Hb [a b] [a' b'] H. unfold pair_eqb in H. cbn [fst snd] in H. apply andb_prop in H as [H1 H2].
  f_equal; auto.
Qed.
Lemma list_eqb_eq' {A} (eqb : A -> A -> bool) : (forall x y, eqb x y = true -> x = y) ->
  forall a b, list_eqb eqb a b = true -> a = b.
Proof.
  intros Heq. induction a as [|x a IH]; intros [|y b] H; cbn [list_eqb] in H; try discriminate; [reflexivity|].
  apply andb_prop in H as [H1 H2]. f_equal; auto.
Qed.
Lemma str_eqb_eq' (a b : str) : str_eqb a b = true -> a = b.
Proof. apply str_eqb_eq. Qed.
Lemma opt_z_eqb_eq (a b : option Z) : opt_z_eqb a b = true -> a = b.
Proof.
  destruct a as [x|], b as [y|]; cbn; try discriminate; [|reflexivity]. intros H. apply Z.eqb_eq in H. congruence.
Qed.

Theorem corr_loaded_is_model raw it impl probes t :
  table_of_file raw = Ok t -> corr (CFile raw it impl probes) = true -> impl = OOk (obs_of t).
Proof.
  intros E H. cbn [corr] in H. rewrite E in H. destruct impl as [[[lk inv] [mb mt]]| |]; try discriminate H.
  apply andb_prop in H as [H _]. apply andb_prop in H as [H Hmt]. apply andb_prop in H as [H Hmb].
  apply andb_prop in H as [Hlk Hinv].
  apply (list_eqb_eq' _ (pair_eqb_eq _ _ str_eqb_eq' str_eqb_eq')) in Hlk.
  apply (list_eqb_eq' _ (pair_eqb_eq _ _ str_eqb_eq' (pair_eqb_eq _ _ str_eqb_eq' opt_z_eqb_eq))) in Hinv.
  apply Z.eqb_eq in Hmb. apply Z.eqb_eq in Hmt. unfold obs_of. rewrite Hlk, Hinv, Hmb, Hmt. reflexivity.
Qed.

(** ... so the oracle's verdict on it is the verdict on the model's own value *)
Theorem loaded_verdict_is_models raw it impl probes t :
  table_of_file raw = Ok t -> corr (CFile raw it impl probes) = true ->
  spec_ok (CFile raw it impl probes) = spec_ok (CFile raw it (OOk (obs_of t)) probes).
Proof. intros E H. rewrite (corr_loaded_is_model raw it impl probes t E H). reflexivity. Qed.

(** an intent that predicts a failure is wrong for a file the model loads *)
Theorem loaded_wrong_intent raw it impl probes t :
  table_of_file raw = Ok t -> corr (CFile raw it impl probes) = true ->
  match it with IError | IEntries [] => spec_ok (CFile raw it impl probes) = false | _ => True end.
Proof.
  intros E H. rewrite (corr_loaded_is_model raw it impl probes t E H).
  destruct it as [[|e es]| |]; try exact I; reflexivity.
Qed.

(** the model's own value always passes the correspondence bit (no probes) *)
Lemma pair_eqb_refl {A B} (ea : A -> A -> bool) (eb : B -> B -> bool) :
  (forall x, ea x x = true) -> (forall x, eb x x = true) -> forall p, pair_eqb ea eb p p = true.
Proof. intros Ha Hb [a b]. unfold pair_eqb. cbn [fst snd]. rewrite Ha, Hb. reflexivity. Qed.
Lemma list_eqb_refl' {A} (eqb : A -> A -> bool) : (forall x, eqb x x = true) -> forall a, list_eqb eqb a a = true.
Proof. intros H. induction a as [|x a IH]; cbn [list_eqb]; [reflexivity|]. rewrite H, IH. reflexivity. Qed.
Lemma opt_z_eqb_refl o : opt_z_eqb o o = true.
Proof. destruct o; cbn; [apply Z.eqb_refl|reflexivity]. Qed.

Definition self_obs (raw : str) : obs tbl_obs :=
  match table_of_file raw with Ok t => OOk (obs_of t) | Err k => OErr k | OutOfFuel => OTimeout end.

Theorem self_corr raw it : corr (CFile raw it (self_obs raw) []) = true.
Proof.
  cbn [corr]. unfold self_obs. destruct (table_of_file raw) as [t|k|] eqn:E.
  - unfold obs_of, lookup_eqb, inv_eqb. cbn [forallb].
    rewrite (list_eqb_refl' _ (pair_eqb_refl _ _ str_eqb_refl str_eqb_refl)).
    rewrite (list_eqb_refl' _ (pair_eqb_refl _ _ str_eqb_refl (pair_eqb_refl _ _ str_eqb_refl opt_z_eqb_refl))).
    rewrite !Z.eqb_refl. reflexivity.
  - destruct k; reflexivity.
  - exfalso. exact (table_of_file_no_fuel raw E).
Qed.

(* ------------------------------------------------------------------------------------------ *)
(** * Examples *)

Module TblFileOracleExamples.
  Definition self (raw : str) (it : intent) : case := CFile raw it (self_obs raw) [].

  (** "41:03 =a\nb" + newline, "4243=xy" (no final newline): ignore field, escaped newline *)
  Definition f1 : str := [52;49;58;48;51;32;61;97;92;110;98;10; 52;50;52;51;61;120;121].
  Definition e1 : list entry := [([97; 10; 98], [65], Some 3); ([120; 121], [66; 67], None)].
  Example ignore_and_escape :
    entries_of_text (universal_newlines f1) = Ok e1 /\
    check (self f1 (IEntries e1)) = (true, true) /\ check (self f1 IUnknown) = (true, true) /\
    (* a wrong intent is an oracle failure although the value is the model's *)
    check (self f1 IError) = (true, false) /\ check (self f1 (IEntries (rev e1))) = (true, false).
  Proof. vm_compute. repeat split; reflexivity. Qed.

  (** "41=a" / " 42=b" (leading blank: no table line) / "; c" / "41=z" (same code again) *)
  Definition f2 : str := [52;49;61;97;10; 32;52;50;61;98;10; 59;32;99;10; 52;49;61;122;10].
  Definition e2 : list entry := [([97], [65], None); ([122], [65], None)].
  Example noise_lines_ignored :
    entries_of_text (universal_newlines f2) = Ok e2 /\
    check (self f2 (IEntries e2)) = (true, true) /\ check (self f2 IUnknown) = (true, true).
  Proof. vm_compute. repeat split; reflexivity. Qed.

  (** a malformed line that MATCHES: "412=a" (odd digit count), "41:1f=a" (ignore not decimal) *)
  Definition f3 : str := [52;49;61;97;10; 52;49;50;61;97;10].
  Definition f4 : str := [52;49;58;49;102;61;97;10].
  Example malformed_rejected :
    table_of_file f3 = Err EValue /\ table_of_file f4 = Err EValue /\
    check (self f3 IError) = (true, true) /\ check (self f4 IError) = (true, true) /\
    check (self f3 IUnknown) = (true, true) /\
    (* wrong intent: the generator claimed the file has entries *)
    check (self f3 (IEntries e2)) = (true, false).
  Proof. vm_compute. repeat split; reflexivity. Qed.
  Example malformed_by_theorem : spec_ok (self f3 IError) = true.
  Proof. apply (rejected_corr_implies_spec f3 IError _ [] EValue); [reflexivity|exact I|apply self_corr]. Qed.

  (** the empty file, and a file of comments only: ValueError; intent "no entries" *)
  Example empty_file :
    table_of_file [] = Err EValue /\ check (self [] (IEntries [])) = (true, true) /\
    check (self [59; 32; 120; 10; 10] (IEntries [])) = (true, true) /\ check (self [] IUnknown) = (true, true).
  Proof. vm_compute. repeat split; reflexivity. Qed.
End TblFileOracleExamples.

Check rejected_corr_implies_spec.
Check corr_loaded_is_model.
Check loaded_verdict_is_models.
Check loaded_wrong_intent.
Check self_corr.
Print Assumptions rejected_corr_implies_spec.
Print Assumptions corr_loaded_is_model.
Print Assumptions loaded_verdict_is_models.
Print Assumptions loaded_wrong_intent.
Print Assumptions self_corr.
