(** C15 — the composed pipeline never runs out of fuel: from any source text, with any files,
    [assemble_source] ends with an output or a reported error.  (Fuel exhaustion of the nesting
    depth is the reported RecursionError, not [OutOfFuel].) *)
From Coq Require Import ZArith List Lia Bool Arith.
From A816 Require Import Model.Assemble Spec.EnvSem Proofs.ResolverProofs Proofs.ReplayProofs
     Proofs.ScannerProofs Proofs.ParserProofs Proofs.IpsProofs Proofs.TableEncode.
Open Scope Z_scope.

Notation nf r := (r <> OutOfFuel).

Lemma nf_bind {A B} (x : res A) (f : A -> res B) :
  nf x -> (forall a, x = Ok a -> nf (f a)) -> nf (bind x f).
Proof. destruct x; cbn [bind]; intros H1 H2; auto; discriminate. Qed.

Ltac nf_step :=
  match goal with
  | |- Ok _ <> OutOfFuel => discriminate
  | |- Err _ <> OutOfFuel => discriminate
  | |- bind ?x _ <> OutOfFuel => apply nf_bind; [ | intros ? ? ]
  | |- (match ?x with _ => _ end) <> OutOfFuel => destruct x eqn:?
  | |- (if ?x then _ else _) <> OutOfFuel => destruct x eqn:?
  end.
Ltac nf_go := repeat nf_step; eauto.

(** ** Address mapping *)
Lemma nf_bus_mapping b bank : nf (bus_mapping_for_bank b bank).
Proof. unfold bus_mapping_for_bank. nf_go. Qed.
Lemma nf_logical m p : nf (logical_address m p).
Proof. unfold logical_address. nf_go. Qed.
Lemma nf_get_address b v : nf (get_address b v).
Proof. unfold get_address. pose proof (nf_bus_mapping b (Z.shiftr v 16)). nf_go. Qed.
Lemma nf_addr_physical b v : nf (addr_physical b v).
Proof. unfold addr_physical. pose proof (nf_bus_mapping b (Z.shiftr v 16)). nf_go. Qed.
Lemma nf_addr_add b v n : nf (addr_add b v n).
Proof.
  unfold addr_add. pose proof (nf_bus_mapping b (Z.shiftr v 16)). nf_go.
  - apply nf_logical.
  - apply nf_get_address.
Qed.
Lemma nf_bus_map b id banks mask wr mir : nf (bus_map b id banks mask wr mir).
Proof. unfold bus_map. nf_go. Qed.
Lemma nf_mk_addr b v : nf (mk_addr b v).
Proof. unfold mk_addr. pose proof (nf_get_address b v). nf_go. Qed.
Lemma nf_addr_plus a n : nf (addr_plus a n).
Proof. unfold addr_plus. pose proof (nf_addr_add (a_bus a) (a_val a) n). nf_go. Qed.
Lemma nf_addr_phys a : nf (addr_phys a).
Proof. apply nf_addr_physical. Qed.

(** ** Expressions *)
Lemma nf_prec_get p k : nf (prec_get p k).
Proof. induction p as [|[k' v] p IH]; cbn [prec_get]; nf_go. Qed.
Lemma nf_stack_prec p e : nf (stack_prec p e).
Proof. unfold stack_prec. pose proof (nf_prec_get p (en_val e)). nf_go. Qed.
Lemma nf_pop_tighter p cur : forall stack out, nf (pop_tighter p cur stack out).
Proof.
  induction stack as [|top rest IH]; intros out; cbn [pop_tighter]; [discriminate|].
  pose proof (nf_stack_prec p top). nf_go.
Qed.
Lemma nf_pop_to_lparen : forall stack out, nf (pop_to_lparen stack out).
Proof. induction stack as [|top rest IH]; intros out; cbn [pop_to_lparen]; nf_go. Qed.
Lemma nf_sy_loop p : forall nodes stack out, nf (sy_loop p nodes stack out).
Proof.
  induction nodes as [|e r IH]; intros stack out; cbn [sy_loop]; [discriminate|].
  destruct (en_kind e); auto.
  - pose proof (nf_prec_get p (en_val e)). nf_go. apply nf_pop_tighter.
  - destruct (en_type e); auto. pose proof (nf_pop_to_lparen stack out). nf_go.
Qed.
Lemma nf_digits_val base : forall ds acc, nf (digits_val base ds acc).
Proof. induction ds as [|c r IH]; intros acc; cbn [digits_val]; nf_go. Qed.
Lemma nf_eval_number s : nf (eval_number s).
Proof.
  unfold eval_number.
  repeat match goal with |- (match ?x with _ => _ end) <> OutOfFuel => destruct x end;
    try discriminate; apply nf_digits_val.
Qed.
Lemma nf_eval_not v : nf (eval_not v).
Proof. unfold eval_not. nf_go. Qed.
Lemma nf_eval_binop e a b : nf (eval_binop e a b).
Proof. unfold eval_binop. nf_go. Qed.

Lemma nf_eval_rpn (ev : env) : (forall n, nf (ev n)) -> forall rpn stack, nf (eval_rpn ev rpn stack).
Proof.
  intros Hev. induction rpn as [|e r IH]; intros stack; cbn [eval_rpn]; [nf_go|].
  destruct (en_type e); try (pose proof (nf_eval_number (en_val e)); pose proof (Hev (en_val e)); nf_go; fail);
    destruct (en_kind e); auto;
    repeat match goal with |- (match ?x with _ => _ end) <> OutOfFuel => destruct x end; try discriminate;
    apply nf_bind; auto; try apply nf_eval_binop;
    repeat match goal with |- (if ?x then _ else _) <> OutOfFuel => destruct x end; try discriminate; apply nf_eval_not.
Qed.
Lemma nf_eval_expression p (ev : env) e : (forall n, nf (ev n)) -> nf (eval_expression p ev e).
Proof.
  intros Hev. unfold eval_expression, shunting_yard. pose proof (nf_sy_loop p e [] []). nf_go. apply nf_eval_rpn; auto.
Qed.

(** ** Instruction emitters *)
Lemma nf_guess_size ev size : nf ev -> nf (guess_size ev size).
Proof. intros H. unfold guess_size. nf_go. Qed.
Lemma nf_pack_B x : nf (pack_B x). Proof. unfold pack_B. nf_go. Qed.
Lemma nf_pack_b x : nf (pack_b x). Proof. unfold pack_b. nf_go. Qed.
Lemma nf_emit_value v s : nf (emit_value v s). Proof. unfold emit_value. nf_go. Qed.
Lemma nf_get_emitter t o m i : nf (get_emitter t o m i).
Proof. unfold get_emitter. nf_go. Qed.

Definition nf_opt {A} (o : option (res A)) : Prop := match o with Some r => nf r | None => True end.

Lemma nf_emitter_length e ev size : nf_opt ev -> nf (emitter_length e ev size).
Proof.
  intros H. destruct e; cbn [emitter_length]; try discriminate.
  destruct ev as [ev|]; [|discriminate]. cbn in H. pose proof (nf_guess_size ev size H). nf_go.
Qed.
Lemma nf_emitter_emit e ev size rc : nf_opt ev -> nf (emitter_emit e ev size rc).
Proof.
  intros H. destruct e; cbn [emitter_emit].
  - apply nf_pack_B.
  - destruct ev as [ev|]; [|discriminate]. cbn in H.
    pose proof (nf_addr_physical (rc_bus rc)). pose proof nf_pack_B. pose proof nf_pack_b. nf_go.
  - destruct ev as [ev|]; [|discriminate]. cbn in H.
    pose proof (nf_guess_size ev size H). pose proof nf_pack_B. pose proof nf_emit_value. nf_go.
Qed.

(** ** The resolver invariant under which lookups are total *)
Definition tables_nf (scopes : list scope) : Prop :=
  forall i s f, nth_error scopes i = Some s -> s_table s = Some f -> forall x, nf (f x).
Record sinv (r : rstate) : Prop := {
  si_wf : wf_scopes (r_scopes r);
  si_cur : (r_cur r < length (r_scopes r))%nat;
  si_tab : tables_nf (r_scopes r)
}.
Record world_nf (w : world) : Prop := {
  wn_builtin : forall rt, nf (w_builtin w rt);
  wn_incbin : forall p, nf (w_incbin w p);
  wn_table : forall p, nf (w_table w p) /\ forall f, w_table w p = Ok f -> forall x, nf (f x);
  wn_ips : forall p d, nf (w_ips w p d)
}.

Lemma nf_value_for r name : sinv r -> nf (value_for r name).
Proof. intros [H1 H2 _]. exact (proj2 (value_for_total r name H1 H2)). Qed.

Lemma nf_get_table_fuel scopes : wf_scopes scopes -> forall fuel i, (i < fuel)%nat -> (i < length scopes)%nat ->
  nf (get_table_fuel scopes fuel i).
Proof.
  intros Hwf fuel; induction fuel as [|fuel IH]; intros i Hf Hi; [lia|]. cbn [get_table_fuel].
  destruct (nth_error scopes i) as [s|] eqn:Hn; [|discriminate].
  destruct (s_table s); [discriminate|]. destruct (s_parent s) as [p|] eqn:Hp; [|discriminate].
  pose proof (Hwf _ _ _ Hn Hp). apply IH; lia.
Qed.
Lemma nf_get_table r : sinv r -> nf (get_table r).
Proof. intros [H1 H2 _]. unfold get_table. apply nf_get_table_fuel; auto. Qed.

Lemma get_table_fuel_nf scopes : tables_nf scopes -> forall fuel i f,
  get_table_fuel scopes fuel i = Ok (Some f) -> forall x, nf (f x).
Proof.
  intros Ht fuel; induction fuel as [|fuel IH]; intros i f; [discriminate|]. cbn [get_table_fuel].
  destruct (nth_error scopes i) as [s|] eqn:Hn; [|discriminate].
  destruct (s_table s) as [t|] eqn:E.
  - intros H; inversion H; subst. eapply Ht; eauto.
  - destruct (s_parent s); [apply IH|discriminate].
Qed.

Lemma nf_env_of r : sinv r -> forall n, nf (env_of r n).
Proof. intros H n. unfold env_of. pose proof (nf_value_for r n H). destruct (value_for r n) as [[v|b fi]| |]; congruence. Qed.
Lemma nf_eval_raw w r e : sinv r -> nf (eval_raw w r e).
Proof. intros H. unfold eval_raw. apply nf_eval_expression. apply nf_env_of; auto. Qed.
Lemma nf_get_value w r e : sinv r -> nf (get_value w r e).
Proof. intros H. unfold get_value. pose proof (nf_eval_raw w r e H). destruct (eval_raw w r e) as [v|k|]; [discriminate|destruct k; discriminate|congruence]. Qed.

Lemma nf_get_bus w r : world_nf w -> nf (get_bus w r).
Proof. intros H. unfold get_bus. destruct (bus_has_mappings _); [discriminate|apply H]. Qed.

(** state changes that keep the invariant *)
Lemma sinv_scopes_eq r r' : r_scopes r' = r_scopes r -> r_cur r' = r_cur r -> sinv r -> sinv r'.
Proof. intros E1 E2 [A B C]. constructor; rewrite ?E1, ?E2; auto. Qed.

Lemma tables_nf_update scopes j f :
  (forall s, s_table (f s) = s_table s) -> tables_nf scopes -> tables_nf (list_update scopes j f).
Proof.
  intros Hf Ht i s g Hn Hs. rewrite nth_list_update in Hn. destruct (Nat.eqb j i).
  - destruct (nth_error scopes i) as [s0|] eqn:E; cbn in Hn; [|discriminate]. inversion Hn; subst.
    rewrite Hf in Hs. eapply Ht; eauto.
  - eapply Ht; eauto.
Qed.

Lemma sinv_upd r i f :
  (forall s, s_parent (f s) = s_parent s) -> (forall s, s_table (f s) = s_table s) -> sinv r -> sinv (upd_scope r i f).
Proof.
  intros Hp Ht [A B C]. unfold upd_scope. constructor; cbn [set_scopes r_scopes r_cur].
  - apply wf_update; auto.
  - rewrite list_update_length. exact B.
  - apply tables_nf_update; auto.
Qed.
Lemma sinv_add_symbol r n v : sinv r -> sinv (add_symbol r n v).
Proof. apply sinv_upd; reflexivity. Qed.
Lemma sinv_add_label r n v : sinv r -> sinv (add_label r n v).
Proof. apply sinv_upd; reflexivity. Qed.
Lemma sinv_add_code r n c : sinv r -> sinv (add_code r n c).
Proof. apply sinv_upd; reflexivity. Qed.

Lemma export_into_table name child parent : s_table (export_into name child parent) = s_table parent.
Proof.
  unfold export_into. revert parent; induction child as [|[k v] child IH]; intros parent; [reflexivity|].
  cbn [fold_left]. rewrite IH. reflexivity.
Qed.

Lemma sinv_use_next r r' : sinv r -> use_next_scope r = Ok r' -> sinv r'.
Proof.
  intros [A B C]. unfold use_next_scope. destruct (nth_error (r_scopes r) (S (r_last r))) eqn:N; [|discriminate].
  intros H; inversion H; subst. constructor; cbn; auto. apply nth_error_Some. congruence.
Qed.
Lemma sinv_restore r e r' : sinv r -> restore_scope r e = Ok r' -> sinv r'.
Proof.
  intros [A B C]. unfold restore_scope. destruct (nth_error (r_scopes r) (r_cur r)) as [s|] eqn:N; [|discriminate].
  destruct (s_parent s) as [p|] eqn:P; [|discriminate]. intros H; inversion H; subst; clear H.
  pose proof (A _ _ _ N P) as Hlt.
  assert (S0 : sinv (match s_kind s with
                     | SNamed name => if e then upd_scope r p (export_into name (s_symbols s)) else r
                     | _ => r end)).
  { destruct (s_kind s); try (constructor; auto; fail). destruct e; [|constructor; auto].
    apply sinv_upd; [intros; apply export_into_parent|intros; apply export_into_table|constructor; auto]. }
  destruct S0 as [A' B' C']. constructor; cbn [set_cur r_scopes r_cur]; auto.
  assert (L : length (r_scopes (match s_kind s with
                     | SNamed name => if e then upd_scope r p (export_into name (s_symbols s)) else r
                     | _ => r end)) = length (r_scopes r)).
  { destruct (s_kind s); try reflexivity. destruct e; [|reflexivity]. unfold upd_scope. cbn. apply list_update_length. }
  rewrite L. lia.
Qed.

Lemma sinv_set_position w r v r' : sinv r -> set_position w r v = Ok r' -> sinv r'.
Proof.
  intros H. unfold set_position.
  destruct (get_bus w r); cbn [bind]; try discriminate. destruct (mk_addr _ _); cbn [bind]; try discriminate.
  destruct (addr_phys _) as [[p|]| |]; cbn [bind]; try discriminate; intros E; inversion E; subst;
    (apply (sinv_scopes_eq r); [reflexivity|reflexivity|assumption]).
Qed.
Lemma nf_set_position w r v : world_nf w -> nf (set_position w r v).
Proof.
  intros Hw. unfold set_position. pose proof (nf_get_bus w r Hw). nf_go.
  - apply nf_mk_addr.
  - apply nf_addr_phys.
Qed.
Lemma nf_use_next r : nf (use_next_scope r).
Proof. unfold use_next_scope. nf_go. Qed.
Lemma nf_restore r e : nf (restore_scope r e).
Proof. unfold restore_scope. nf_go. Qed.

(** ** Nodes *)
Lemma nf_operand_value w r o : sinv r -> nf_opt (operand_value w r o).
Proof. intros H. destruct o; cbn; auto. apply nf_get_value; auto. Qed.

Lemma nf_rel_emit w r b ev : world_nf w -> nf_opt ev -> nf (rel_emit w r b ev).
Proof.
  intros Hw H. unfold rel_emit. destruct ev as [ev|]; [|discriminate]. cbn in H.
  pose proof (nf_get_bus w r Hw). pose proof nf_mk_addr. pose proof nf_addr_phys. pose proof nf_pack_B. pose proof nf_pack_b.
  nf_go.
Qed.
Lemma nf_opcode_emit w r o m i operand size : world_nf w -> sinv r -> nf (opcode_emit w r o m i operand size).
Proof.
  intros Hw H. unfold opcode_emit. pose proof (nf_get_emitter (w_optable w) o m i).
  pose proof (nf_operand_value w r operand H).
  apply nf_bind; auto. intros e _. destruct e; [apply nf_emitter_emit|apply nf_rel_emit|apply nf_emitter_emit]; auto.
Qed.
Lemma nf_opcode_length w r o m i operand size : sinv r -> nf (opcode_length w r o m i operand size).
Proof.
  intros H. unfold opcode_length, opnode_length. pose proof (nf_get_emitter (w_optable w) o m i).
  apply nf_bind; auto. intros e _. apply nf_emitter_length. apply nf_operand_value; auto.
Qed.

(** a TextNode's deferred encoding comes from a table function, which is total *)
Definition node_nf (n : node) : Prop := match n with NText enc _ => nf enc | _ => True end.

Theorem pc_after_total w r n a : world_nf w -> sinv r -> node_nf n ->
  nf (pc_after w r n a) /\ forall r' a', pc_after w r n a = Ok (r', a') -> sinv r'.
Proof.
  intros Hw H Hn. destruct n; cbn [pc_after].
  - split; [discriminate|]. intros r' a' E; inversion E; subst. apply sinv_add_label; auto.
  - set (re := if in_parent then _ else r).
    assert (Hre : sinv re).
    { unfold re. destruct in_parent; auto. destruct (nth_error (r_scopes r) (r_cur r)) as [s|] eqn:N; auto.
      destruct (s_parent s) as [p|] eqn:P; auto. destruct H as [A B C].
      constructor; cbn [set_cur r_scopes r_cur]; auto. pose proof (A _ _ _ N P). lia. }
    pose proof (nf_eval_raw w re e Hre). split.
    + nf_go.
    + intros r' a'. destruct (eval_raw w re e); cbn [bind]; try discriminate.
      intros E; inversion E; subst. apply sinv_add_symbol; auto.
  - split; [discriminate|]. intros r' a' E; inversion E; subst. apply sinv_add_symbol; auto.
  - pose proof (nf_addr_plus a (Z.of_nat (length content))). split; [nf_go|].
    intros r' a'. destruct (addr_plus a _); cbn [bind]; try discriminate.
    intros E; inversion E; subst. apply sinv_add_symbol, sinv_add_label; auto.
  - pose proof (nf_addr_plus a (dkind_len k)). split; [nf_go|].
    intros r' a'. destruct (addr_plus a _); cbn [bind]; try discriminate. intros E; inversion E; subst; auto.
  - pose proof (nf_opcode_length w r opcode mode index operand size H). split.
    + nf_go. apply nf_addr_plus.
    + intros r' a'. destruct (opcode_length _ _ _ _ _ _ _); cbn [bind]; try discriminate.
      destruct (addr_plus a _); cbn [bind]; try discriminate. intros E; inversion E; subst; auto.
  - pose proof (nf_get_value w r e H). pose proof (nf_get_bus w r Hw). split.
    + nf_go. apply nf_mk_addr.
    + intros r' a'. destruct (get_value w r e); cbn [bind]; try discriminate.
      destruct (get_bus w r); cbn [bind]; try discriminate. destruct (mk_addr _ _); cbn [bind]; try discriminate.
      intros E; inversion E; subst; auto.
  - pose proof (nf_get_value w r e H). pose proof (nf_get_bus w r Hw). split.
    + nf_go. apply nf_mk_addr.
    + intros r' a'. destruct (get_value w r e); cbn [bind]; try discriminate.
      destruct (get_bus w r); cbn [bind]; try discriminate. destruct (mk_addr _ _); cbn [bind]; try discriminate.
      intros E; inversion E; subst; auto.
  - split; [discriminate|]. intros r' a' E; inversion E; subst; auto.
  - pose proof (nf_use_next r). split; [nf_go|].
    intros r' a'. destruct (use_next_scope r) eqn:U; cbn [bind]; try discriminate.
    intros E; inversion E; subst. eapply sinv_use_next; eauto.
  - pose proof (nf_restore r true). split; [nf_go|].
    intros r' a'. destruct (restore_scope r true) eqn:U; cbn [bind]; try discriminate.
    intros E; inversion E; subst. eapply sinv_restore; eauto.
  - split; [discriminate|]. intros r' a' E; inversion E; subst; auto.
  - split.
    + destruct enc; cbn [bind]; try discriminate.
      * apply nf_bind; [apply nf_addr_plus|discriminate].
      * exfalso. apply Hn. reflexivity.
    + intros r' a'. destruct enc; cbn [bind]; try discriminate. destruct (addr_plus a _); cbn [bind]; try discriminate.
      intros E; inversion E; subst; auto.
  - pose proof (nf_addr_plus a (Z.of_nat (length (ascii_bytes text)))). split; [nf_go|].
    intros r' a'. destruct (addr_plus a _); cbn [bind]; try discriminate. intros E; inversion E; subst; auto.
Qed.

Theorem node_emit_total w r n : world_nf w -> sinv r -> node_nf n ->
  nf (node_emit w r n) /\ forall r' bs, node_emit w r n = Ok (r', bs) -> sinv r'.
Proof.
  intros Hw H Hn. destruct n; cbn [node_emit]; try (split; [discriminate|intros r' bs E; inversion E; subst; auto]; fail).
  - pose proof (nf_get_value w r e H). split; [nf_go|].
    intros r' bs. destruct (get_value w r e); cbn [bind]; try discriminate. intros E; inversion E; subst; auto.
  - pose proof (nf_opcode_emit w r opcode mode index operand size Hw H). split; [nf_go|].
    intros r' bs. destruct (opcode_emit _ _ _ _ _ _ _); cbn [bind]; try discriminate. intros E; inversion E; subst; auto.
  - pose proof (nf_get_value w r e H). split.
    + apply nf_bind; [assumption|]. intros v _. apply nf_bind; [apply nf_set_position; auto|discriminate].
    + intros r' bs. destruct (get_value w r e); cbn [bind]; try discriminate.
      destruct (set_position w r a) eqn:S; cbn [bind]; try discriminate. intros E; inversion E; subst.
      eapply sinv_set_position; eauto.
  - pose proof (nf_get_value w r e H). split.
    + apply nf_bind; [assumption|]. intros v _. apply nf_bind; [apply nf_set_position; auto|discriminate].
    + intros r' bs. destruct (get_value w r e); cbn [bind]; try discriminate.
      destruct (set_position w r a) eqn:S; cbn [bind]; try discriminate. intros E; inversion E; subst.
      eapply sinv_set_position; eauto.
  - pose proof (nf_use_next r). split; [nf_go|].
    intros r' bs. destruct (use_next_scope r) eqn:U; cbn [bind]; try discriminate.
    intros E; inversion E; subst. eapply sinv_use_next; eauto.
  - pose proof (nf_restore r false). split; [nf_go|].
    intros r' bs. destruct (restore_scope r false) eqn:U; cbn [bind]; try discriminate.
    intros E; inversion E; subst. eapply sinv_restore; eauto.
  - split.
    + destruct enc; cbn [bind]; try discriminate. exfalso. apply Hn. reflexivity.
    + intros r' bs. destruct enc; cbn [bind]; try discriminate. intros E; inversion E; subst; auto.
Qed.

(** ** The passes *)
Lemma label_pass_total w ns : world_nf w -> Forall node_nf ns -> forall r a acc, sinv r ->
  nf (label_pass w r ns a acc) /\ forall r' a' l, label_pass w r ns a acc = Ok (r', a', l) -> sinv r'.
Proof.
  intros Hw Hn. induction Hn as [|n ns Hn0 Hns IH]; intros r a acc H; cbn [label_pass].
  - split; [discriminate|]. intros r' a' l E; inversion E; subst; auto.
  - destruct (is_symbol_node n); [apply IH; auto|].
    destruct (pc_after_total w r n a Hw H Hn0) as [N P].
    destruct (pc_after w r n a) as [[r1 a1]| |]; cbn [bind fst snd]; try (split; [discriminate|intros; discriminate]).
    + apply IH. eapply P; eauto.
    + congruence.
Qed.
Lemma symbol_pass_total w ns : world_nf w -> Forall node_nf ns -> forall r a, sinv r ->
  nf (symbol_pass w r ns a) /\ forall r' a', symbol_pass w r ns a = Ok (r', a') -> sinv r'.
Proof.
  intros Hw Hn. induction Hn as [|n ns Hn0 Hns IH]; intros r a H; cbn [symbol_pass].
  - split; [discriminate|]. intros r' a' E; inversion E; subst; auto.
  - destruct (is_label_or_binary n); [apply IH; auto|].
    destruct (pc_after_total w r n a Hw H Hn0) as [N P].
    destruct (pc_after w r n a) as [[r1 a1]| |]; cbn [bind fst snd]; try (split; [discriminate|intros; discriminate]).
    + apply IH. eapply P; eauto.
    + congruence.
Qed.

Lemma sinv_reset r : sinv r -> sinv (resolver_reset r).
Proof.
  intros [A B C]. unfold resolver_reset. constructor; cbn; auto. lia.
Qed.

Lemma emit_step_total w st n x : world_nf w -> sinv (e_r st) -> node_nf n ->
  nf (emit_step w st n x) /\ forall st', emit_step w st n x = Ok st' -> sinv (e_r st').
Proof.
  intros Hw H Hn. unfold emit_step. destruct (negb _); [split; [discriminate|intros; discriminate]|].
  destruct (node_emit_total w (e_r st) n Hw H Hn) as [N P].
  destruct (node_emit w (e_r st) n) as [[r1 bs]| |]; cbn [bind]; try (split; [discriminate|intros; discriminate]); [|congruence].
  specialize (P _ _ eq_refl).
  destruct bs as [|b0 bs0]; cbn [bind].
  - split; [discriminate|]. intros st' E. inversion E; subst. destruct n; destruct (is_codepos _); cbn; auto.
  - pose proof (nf_addr_plus (r_reloc r1) (Z.of_nat (length (b0 :: bs0)))) as NA.
    destruct (addr_plus (r_reloc r1) _) as [a'| |]; cbn [bind]; try (split; [discriminate|intros; discriminate]); [|congruence].
    split; [discriminate|]. intros st' E. inversion E; subst.
    assert (S2 : sinv (set_reloc (set_pc r1 (r_pc r1 + Z.of_nat (length (b0 :: bs0)))) a'))
      by (apply (sinv_scopes_eq r1); auto).
    destruct n; destruct (is_codepos _); cbn; auto.
Qed.

Lemma emit_loop_total w ns : world_nf w -> Forall node_nf ns -> forall st addrs, sinv (e_r st) ->
  nf (emit_loop w st ns addrs).
Proof.
  intros Hw Hn. induction Hn as [|n ns Hn0 Hns IH]; intros st addrs H; cbn [emit_loop].
  - nf_go.
  - destruct addrs as [|x addrs]; [discriminate|].
    destruct (emit_step_total w st n x Hw H Hn0) as [N P].
    destruct (emit_step w st n x) as [st'| |]; cbn [bind]; try discriminate; [|congruence].
    apply IH. auto.
Qed.

Theorem assemble_nodes_total w r ns : world_nf w -> sinv r -> Forall node_nf ns -> nf (assemble_nodes w r ns).
Proof.
  intros Hw H Hn. unfold assemble_nodes, resolve_labels.
  assert (H0 : sinv (set_cur_last r (r_cur r) 0)) by (apply (sinv_scopes_eq r); auto).
  destruct (label_pass_total w ns Hw Hn _ (r_reloc (set_cur_last r (r_cur r) 0)) [] H0) as [N1 P1].
  destruct (label_pass w _ ns _ []) as [[[r1 a1] addrs]| |]; cbn [bind fst snd]; try discriminate; [|congruence].
  specialize (P1 _ _ _ eq_refl).
  destruct (symbol_pass_total w ns Hw Hn _ (r_reloc (resolver_reset r1)) (sinv_reset _ P1)) as [N2 P2].
  destruct (symbol_pass w _ ns _) as [[r2 a2]| |]; cbn [bind fst snd]; try discriminate; [|congruence].
  specialize (P2 _ _ eq_refl).
  unfold Program.emit.
  match goal with
  | |- context [emit_loop ?a ?b ?c ?d] =>
      assert (N3 : nf (emit_loop a b c d)) by (apply emit_loop_total; auto; apply sinv_reset; auto);
      destruct (emit_loop a b c d)
  end; cbn [bind]; try discriminate; congruence.
Qed.

(** ** Code generation *)
Definition gen_total (gen : cgstate -> list ast -> res (cgstate * list node)) : Prop :=
  forall s b, sinv (cg_r s) ->
    nf (gen s b) /\ forall s' ns, gen s b = Ok (s', ns) -> sinv (cg_r s') /\ Forall node_nf ns.

Lemma sinv_append r k : sinv r -> sinv (append_scope r k).
Proof.
  intros [A B C]. unfold append_scope. constructor; cbn [set_scopes r_scopes r_cur].
  - apply wf_append; auto.
  - rewrite app_length. cbn. lia.
  - intros i s f Hn Hs. destruct (Nat.lt_ge_cases i (length (r_scopes r))) as [L|G].
    + rewrite nth_error_app1 in Hn by assumption. eapply C; eauto.
    + rewrite nth_error_app2 in Hn by assumption.
      destruct (i - length (r_scopes r))%nat as [|[|d]]; cbn in Hn; inversion Hn; subst. discriminate.
Qed.

Lemma nf_generate_map r a : nf (generate_map r a).
Proof.
  unfold generate_map.
  repeat match goal with
         | |- (match ?x with _ => _ end) <> OutOfFuel => destruct x
         | |- bind ?x _ <> OutOfFuel => apply nf_bind; [apply nf_bus_map|intros; discriminate]
         end; try discriminate.
Qed.
Lemma sinv_generate_map r a r' : sinv r -> generate_map r a = Ok r' -> sinv r'.
Proof.
  intros H. unfold generate_map.
  repeat match goal with
         | |- context [match ?x with _ => _ end] => destruct x; cbn [bind]
         | |- context [bind ?x _] => destruct x; cbn [bind]
         end; try discriminate; intros E; inversion E; subst; apply (sinv_scopes_eq r); auto.
Qed.

Lemma nf_if_condition w r c : sinv r -> nf (if_condition w r c).
Proof. intros H. unfold if_condition. pose proof (nf_eval_raw w r c H). destruct (eval_raw w r c) as [v|k|]; [discriminate|destruct k; discriminate|congruence]. Qed.

Lemma nf_eval_macro_args w r : sinv r -> forall params args, nf (eval_macro_args w r params args).
Proof.
  intros H. induction params as [|p ps IH]; intros args; cbn [eval_macro_args]; [discriminate|].
  destruct args as [|a rest]; [discriminate|].
  apply nf_bind.
  - destruct a as [e|[body fi]]; [|discriminate]. pose proof (nf_eval_raw w r e H).
    destruct (eval_raw w r e) as [v|k|]; [discriminate|destruct k; discriminate|congruence].
  - intros v _. apply nf_bind; [apply IH|discriminate].
Qed.

Lemma bind_macro_args_sinv bound : forall r r' ns,
  bind_macro_args r bound = (r', ns) -> sinv r -> sinv r' /\ Forall node_nf ns.
Proof.
  induction bound as [|[p v] bound IH]; intros r r' ns E H; cbn [bind_macro_args] in E.
  - inversion E; subst. auto.
  - destruct v as [x|body fi|e].
    + eapply IH; eauto. apply sinv_add_symbol; auto.
    + eapply IH; eauto. apply sinv_add_code; auto.
    + destruct (bind_macro_args r bound) as [r0 ns0] eqn:E0. inversion E; subst.
      destruct (IH _ _ _ E0 H). split; auto. constructor; [exact I|auto].
Qed.

Lemma tables_nf_set_table scopes j t :
  (forall x, nf (t x)) -> tables_nf scopes -> tables_nf (list_update scopes j (scope_set_table t)).
Proof.
  intros Ht Hs i s g Hn Hg. rewrite nth_list_update in Hn. destruct (Nat.eqb j i).
  - destruct (nth_error scopes i) as [s0|] eqn:E; cbn in Hn; [|discriminate]. inversion Hn; subst.
    cbn in Hg. inversion Hg; subst. apply Ht.
  - eapply Hs; eauto.
Qed.

Section GenTotal.
  Variable w : world.
  Hypothesis Hw : world_nf w.
  Variable gen : cgstate -> list ast -> res (cgstate * list node).
  Hypothesis Hgen : gen_total gen.

  Lemma scoped_total k s pre b :
    (forall r r' pns, pre r = (r', pns) -> sinv r -> sinv r' /\ Forall node_nf pns) ->
    sinv (cg_r s) ->
    nf (scoped gen k s pre b) /\ forall s' ns, scoped gen k s pre b = Ok (s', ns) -> sinv (cg_r s') /\ Forall node_nf ns.
  Proof.
    intros Hpre H. unfold scoped, enter_scope.
    pose proof (nf_use_next (append_scope (cg_r s) k)) as N1.
    destruct (use_next_scope (append_scope (cg_r s) k)) as [r1| |] eqn:U; cbn [bind];
      try (split; [discriminate|intros; discriminate]); [|congruence].
    assert (S1 : sinv r1) by (eapply sinv_use_next; [apply sinv_append; exact H|exact U]).
    destruct (pre r1) as [r2 prens] eqn:Ep. destruct (Hpre _ _ _ Ep S1) as [S2 Fp].
    destruct (Hgen (cg_set_r s r2) b S2) as [N2 P2].
    destruct (gen (cg_set_r s r2) b) as [[s3 n3]| |]; cbn [bind fst snd]; try (split; [discriminate|intros; discriminate]); [|congruence].
    destruct (P2 _ _ eq_refl) as [S3 F3].
    pose proof (nf_restore (cg_r s3) false) as N3.
    destruct (restore_scope (cg_r s3) false) as [r4| |] eqn:R; cbn [bind]; try (split; [discriminate|intros; discriminate]); [|congruence].
    split; [discriminate|]. intros s' ns E. inversion E; subst. split.
    - cbn [cg_set_r cg_r]. eapply sinv_restore; eauto.
    - constructor; [exact I|]. apply Forall_app. split; [exact Fp|]. apply Forall_app. split; [exact F3|]. constructor; [exact I|constructor].
  Qed.

  Lemma for_loop_total n : forall k v b s, sinv (cg_r s) ->
    nf (for_loop gen n k v b s) /\ forall s' ns, for_loop gen n k v b s = Ok (s', ns) -> sinv (cg_r s') /\ Forall node_nf ns.
  Proof.
    induction n as [|n IH]; intros k v b s H; cbn [for_loop].
    - split; [discriminate|]. intros s' ns E; inversion E; subst. auto.
    - assert (Hpre : forall r r' pns, (fun r => (r, [NSymConst v k])) r = (r', pns) -> sinv r -> sinv r' /\ Forall node_nf pns).
      { intros r r' pns E Hr. inversion E; subst. split; auto. constructor; [exact I|constructor]. }
      destruct (scoped_total SInternal s _ b Hpre H) as [N1 P1].
      destruct (scoped gen SInternal s _ b) as [[s1 n1]| |]; cbn [bind fst snd]; try (split; [discriminate|intros; discriminate]); [|congruence].
      destruct (P1 _ _ eq_refl) as [S1 F1].
      destruct (IH (k + 1) v b s1 S1) as [N2 P2].
      destruct (for_loop gen n (k + 1) v b s1) as [[s2 n2]| |]; cbn [bind fst snd]; try (split; [discriminate|intros; discriminate]); [|congruence].
      destruct (P2 _ _ eq_refl) as [S2 F2].
      split; [discriminate|]. intros s' ns E; inversion E; subst. split; auto. apply Forall_app; auto.
  Qed.

  Ltac done_plain := split; [discriminate|intros s' ns E; inversion E; subst; split; [assumption|repeat constructor]].

  Lemma gen_one_total s a : sinv (cg_r s) ->
    nf (gen_one w gen s a) /\ forall s' ns, gen_one w gen s a = Ok (s', ns) -> sinv (cg_r s') /\ Forall node_nf ns.
  Proof.
    intros H. destruct a; cbn [gen_one].
    - apply Hgen; auto.
    - apply scoped_total; auto. intros r r' pns E Hr; inversion E; subst; auto.
    - done_plain.
    - pose proof (nf_get_table (cg_r s) H) as N.
      destruct (get_table (cg_r s)) as [t| |] eqn:G; cbn [bind]; try (split; [discriminate|intros; discriminate]); [|congruence].
      split; [discriminate|]. intros s' ns E; inversion E; subst. split; [assumption|]. constructor; [|constructor].
      cbn [node_nf]. destruct t as [f|]; [|discriminate]. unfold get_table in G. destruct H as [_ _ C].
      eapply get_table_fuel_nf; eauto.
    - done_plain.
    - apply scoped_total; auto. intros r r' pns E Hr; inversion E; subst; auto.
    - done_plain.
    - done_plain.
    - pose proof (nf_generate_map (cg_r s) args) as N.
      destruct (generate_map (cg_r s) args) as [r'| |] eqn:G; cbn [bind]; try (split; [discriminate|intros; discriminate]); [|congruence].
      split; [discriminate|]. intros s' ns E; inversion E; subst. split; [|constructor].
      cbn [cg_set_r cg_r]. eapply sinv_generate_map; eauto.
    - pose proof (nf_if_condition w (cg_r s) c H) as N.
      destruct (if_condition w (cg_r s) c) as [[|]| |]; cbn [bind]; try (split; [discriminate|intros; discriminate]); [| |congruence].
      + apply Hgen; auto.
      + destruct el as [[eb ebfi]|]; [apply Hgen; auto|]. split; [discriminate|]. intros s' ns E; inversion E; subst. auto.
    - split; [discriminate|]. intros s' ns E; inversion E; subst. cbn [cg_r]. auto.
    - destruct (dict_get (cg_macros s) name) as [md|]; [|split; [discriminate|intros; discriminate]].
      pose proof (nf_eval_macro_args w (cg_r s) H (md_params md) args) as N.
      destruct (eval_macro_args w (cg_r s) (md_params md) args) as [bound| |]; cbn [bind]; try (split; [discriminate|intros; discriminate]); [|congruence].
      apply scoped_total; auto. intros r r' pns E Hr. eapply bind_macro_args_sinv; eauto.
    - split; [discriminate|]. intros s' ns E; inversion E; subst. split; [assumption|]. apply Forall_forall.
      intros n Hin. apply in_map_iff in Hin. destruct Hin as (e & <- & _). exact I.
    - destruct (wn_table w Hw path) as [N T].
      destruct (w_table w path) as [t| |] eqn:G; cbn [bind]; try (split; [discriminate|intros; discriminate]); [|congruence].
      split; [discriminate|]. intros s' ns E; inversion E; subst. split; [|repeat constructor].
      cbn [cg_set_r cg_r]. destruct H as [A B C]. unfold upd_scope. constructor; cbn [set_scopes r_scopes r_cur].
      + apply wf_update; auto.
      + rewrite list_update_length. exact B.
      + apply tables_nf_set_table; auto.
    - pose proof (nf_eval_raw w (cg_r s) e H) as N.
      destruct (eval_raw w (cg_r s) e) as [d| |]; cbn [bind]; try (split; [discriminate|intros; discriminate]); [|congruence].
      pose proof (wn_ips w Hw path d) as N2.
      destruct (w_ips w path d) as [bl| |]; cbn [bind]; try (split; [discriminate|intros; discriminate]); [|congruence].
      done_plain.
    - pose proof (wn_incbin w Hw path) as N.
      destruct (w_incbin w path) as [c| |]; cbn [bind]; try (split; [discriminate|intros; discriminate]); [|congruence].
      done_plain.
    - done_plain.
    - pose proof (nf_eval_raw w (cg_r s) e H) as N.
      destruct (eval_raw w (cg_r s) e) as [v| |]; cbn [bind]; try (split; [discriminate|intros; discriminate]); [|congruence].
      split; [discriminate|]. intros s' ns E; inversion E; subst. split; [|constructor].
      cbn [cg_set_r cg_r]. apply sinv_add_symbol; auto.
    - pose proof (nf_value_for (cg_r s) name H) as N.
      destruct (value_for (cg_r s) name) as [[v|body fi']| |]; try (split; [discriminate|intros; discriminate]); [|congruence].
      apply Hgen; auto.
    - split; [discriminate|intros; discriminate].
    - pose proof (nf_eval_raw w (cg_r s) lo H) as N1.
      destruct (eval_raw w (cg_r s) lo) as [from| |]; cbn [bind]; try (split; [discriminate|intros; discriminate]); [|congruence].
      pose proof (nf_eval_raw w (cg_r s) hi H) as N2.
      destruct (eval_raw w (cg_r s) hi) as [to| |]; cbn [bind]; try (split; [discriminate|intros; discriminate]); [|congruence].
      apply for_loop_total; auto.
    - destruct mode; try (destruct operand; [|split; [discriminate|intros; discriminate]]); done_plain.
  Qed.

  Lemma gen_list_total body : forall s, sinv (cg_r s) ->
    nf (gen_list w gen s body) /\ forall s' ns, gen_list w gen s body = Ok (s', ns) -> sinv (cg_r s') /\ Forall node_nf ns.
  Proof.
    induction body as [|a rest IH]; intros s H; cbn [gen_list].
    - split; [discriminate|]. intros s' ns E; inversion E; subst. auto.
    - destruct (gen_one_total s a H) as [N1 P1].
      destruct (gen_one w gen s a) as [[s1 n1]| |]; cbn [bind fst snd]; try (split; [discriminate|intros; discriminate]); [|congruence].
      destruct (P1 _ _ eq_refl) as [S1 F1].
      destruct (IH s1 S1) as [N2 P2].
      destruct (gen_list w gen s1 rest) as [[s2 n2]| |]; cbn [bind fst snd]; try (split; [discriminate|intros; discriminate]); [|congruence].
      destruct (P2 _ _ eq_refl) as [S2 F2].
      split; [discriminate|]. intros s' ns E; inversion E; subst. split; auto. apply Forall_app; auto.
  Qed.
End GenTotal.

Theorem code_gen_total w : world_nf w -> forall fuel, gen_total (code_gen_fuel w fuel).
Proof.
  intros Hw fuel. induction fuel as [|f IH]; intros s b H; cbn [code_gen_fuel].
  - split; [discriminate|intros; discriminate].
  - apply gen_list_total; auto.
Qed.

(** ** The whole pipeline *)
Lemma nf_max_len xs : nf (max_len xs).
Proof. unfold max_len. destruct xs; discriminate. Qed.
Lemma nf_table_of_entries es : nf (table_of_entries es).
Proof.
  unfold table_of_entries, include.
  apply nf_bind; [apply nf_max_len|]. intros mb _. apply nf_bind; [apply nf_max_len|]. intros; discriminate.
Qed.
Lemma nf_to_bytes t s : nf (to_bytes t s).
Proof. destruct (to_bytes_total t s) as [(bs & E)|(E & _)]; rewrite E; discriminate. Qed.

Lemma world_of_nf t fs : world_nf (world_of t fs).
Proof.
  constructor; cbn [world_of w_builtin w_incbin w_table w_ips].
  - intros rt. unfold live_builtin. destruct (assoc_z _ _) as [[|]|]; discriminate.
  - intros p. destruct (assoc_str _ _); discriminate.
  - intros p. destruct (assoc_str (sf_tbl fs) p) as [es|].
    + pose proof (nf_table_of_entries es) as N. split.
      * destruct (table_of_entries es); cbn [bind]; try discriminate. congruence.
      * intros f. destruct (table_of_entries es) as [tb| |]; cbn [bind]; try discriminate.
        intros E; inversion E; subst. intros x. apply nf_to_bytes.
    + split; [discriminate|intros f E; discriminate].
  - intros p d. destruct (assoc_str _ _); [apply read_ips_fuel|discriminate].
Qed.

Lemma sinv_fold_defines defs : forall r, sinv r -> sinv (fold_left (fun r kv => add_symbol r (fst kv) (snd kv)) defs r).
Proof. induction defs as [|kv defs IH]; intros r H; cbn [fold_left]; auto. apply IH. apply sinv_add_symbol; auto. Qed.

Lemma initial_resolver_total w c : world_nf w ->
  nf (initial_resolver w c) /\ forall r, initial_resolver w c = Ok r -> sinv r.
Proof.
  intros Hw. unfold initial_resolver, resolver_init.
  pose proof (wn_builtin w Hw LowRom) as N.
  destruct (w_builtin w LowRom) as [b| |]; cbn [bind]; try (split; [discriminate|intros; discriminate]); [|congruence].
  set (r0 := {| r_scopes := [new_scope None SPlain]; r_cur := 0; r_last := 0; r_pc := 0;
                r_reloc := {| a_bus := b; a_val := 0 |}; r_bus := empty_bus; r_rom := LowRom |}).
  assert (S0 : sinv r0).
  { constructor; cbn.
    - intros i s p Hn Hp. destruct i as [|[|i]]; cbn in Hn; inversion Hn; subst; discriminate.
    - lia.
    - intros i s f Hn Hs. destruct i as [|[|i]]; cbn in Hn; inversion Hn; subst; discriminate. }
  pose proof (nf_set_position w r0 0 Hw) as N2.
  destruct (set_position w r0 0) as [r1| |] eqn:SP; cbn [bind]; try (split; [discriminate|intros; discriminate]); [|congruence].
  pose proof (sinv_set_position w r0 0 r1 S0 SP) as S1.
  split; [discriminate|]. intros r E; inversion E; subst.
  destruct (cf_rom c).
  - apply (sinv_scopes_eq (fold_left (fun r kv => add_symbol r (fst kv) (snd kv)) (cf_defines c) r1));
      [reflexivity|reflexivity|apply sinv_fold_defines; auto].
  - apply sinv_fold_defines; auto.
Qed.

Theorem assemble_program_terminates w c prog : world_nf w -> assemble_program w c prog <> AFuel.
Proof.
  intros Hw. unfold assemble_program.
  destruct (initial_resolver_total w c Hw) as [N0 P0].
  destruct (initial_resolver w c) as [r| |]; try discriminate; [|congruence].
  specialize (P0 _ eq_refl).
  destruct (code_gen_total w Hw cg_depth {| cg_r := r; cg_macros := [] |} prog P0) as [N1 P1].
  destruct (code_gen_fuel w cg_depth _ prog) as [[s ns]| |]; try discriminate; [|congruence].
  destruct (P1 _ _ eq_refl) as [S1 F1].
  pose proof (assemble_nodes_total w (cg_r s) ns Hw S1 F1) as N2.
  destruct (assemble_nodes w (cg_r s) ns); try discriminate. congruence.
Qed.

Lemma nf_include_tokens t fs path : nf (include_tokens t fs path).
Proof.
  unfold include_tokens. destruct (assoc_str _ _) as [text|]; [|discriminate].
  pose proof (scan_res_fuel_sufficient (lv_lex t) path text) as N.
  destruct (scan_res (lv_lex t) path text); cbn [bind]; try discriminate. congruence.
Qed.

(** From any source text, with any files and options: an output or a reported error. *)
Theorem assemble_source_terminates t fs c fname src : assemble_source t fs c fname src <> AFuel.
Proof.
  unfold assemble_source.
  pose proof (scan_fuel_sufficient (lv_lex t) fname src) as N0. unfold scan, scan_fuel.
  destruct (scan_with_fuel (length src + 2) (lv_lex t) fname src) as [toks lines|e| |]; try discriminate; [| |congruence].
  - pose proof (parse_fuel_sufficient (include_tokens t fs) toks include_depth (nf_include_tokens t fs)) as N1.
    destruct (parse_program _ _ _ toks) as [prog|k tok|tok|]; try discriminate; [| |congruence].
    + apply assemble_program_terminates. apply world_of_nf.
    + destruct k; try discriminate. destruct (first_include_scan_error _ _) as [[p e]|]; discriminate.
  - destruct (se_quoted e); discriminate.
Qed.
