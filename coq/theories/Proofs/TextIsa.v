(** C01 — from source text to the ISA in one statement.

    [C01_text_plain] / [C01_text_implied] (Properties/C01Text.v) give the block of
    [assemble_source] on the text "*=origin / mnemonic operand" in terms of the live table row;
    [table_sound] (Proofs/OpcodeProofs.v) says a table that passes [table_ok] agrees with the
    independent 256-opcode matrix (Spec/Isa65816.v).  Composed: under [table_ok (lv_optable t)] the
    block is the encoding [isa_expected] / [isa_implied] computes from (mnemonic, operand syntax,
    width, value) — no table row in the conclusion. *)
From Coq Require Import ZArith NArith List Bool.
From A816 Require Import Spec.ExprSem Spec.BusLaws Model.Assemble Oracle.C01o Proofs.BusProofs Proofs.NodeProofs
  Proofs.PackLemmas Proofs.OpcodeProofs Proofs.ExprProofs Proofs.ExprLex Proofs.ExprLexParse
  Proofs.ParserShapeTokens Proofs.DataTextScan Proofs.DataTextGen Proofs.DataText
  Proofs.InsnTextScan Proofs.InsnTextParse Proofs.InsnTextGen Proofs.InsnText.
Import ListNotations.
Open Scope Z_scope.

(** a plain row of a checked table holds the matrix's byte for its (mnemonic, shape, width) *)
Lemma plain_row_is_isa t : table_ok t = true -> forall m md idx defs size v b,
  get_emitter t m md (cg_index md idx) = Ok (EmPlain defs) ->
  opcode_byte defs (resolved_width size v) = Some b ->
  exists sh, amode_shape md (cg_index md idx) = Some sh /\
    isa_expected (str_upper m) sh (resolved_width size v) v =
    Some (b :: le_bytes (vsize_n (resolved_width size v)) (v mod 256 ^ Z.of_nat (vsize_n (resolved_width size v)))).
Proof.
  intros Ht m md idx defs size v b Hg Hob. set (w := resolved_width size v) in *.
  destruct (get_emitter_entry t m md _ _ (PWidth w) b Hg Hob) as (idx' & Hin & Hidx).
  pose proof (table_sound t Ht _ Hin) as [Hbr Hs]. cbn [e_mn e_mode e_idx e_kind e_byte] in Hbr, Hs.
  destruct Hs as (imd & l & Hsm & Hisa & Hlen). unfold shape_mode in Hsm.
  destruct (amode_shape md idx') as [sh|] eqn:Hsh; [|discriminate].
  exists sh. split.
  - destruct Hidx as [-> | ->]; [|exact Hsh].
    unfold cg_index. rewrite (amode_shape_none_nonindexed _ _ Hsh). exact Hsh.
  - unfold isa_expected. rewrite Hsm.
    assert (Henc : isa_encoding (str_upper m) imd w = Some b).
    { apply isa_encoding_unique; [exact Hbr|]. unfold row_matches. rewrite Hisa.
      rewrite str_eqb_refl, Hlen. replace (isa_mode_eqb imd imd) with true
        by (symmetry; apply isa_mode_eqb_eq; reflexivity). reflexivity. }
    rewrite Henc. destruct (width_bytes_n w) as [-> ->]. reflexivity.
Qed.

Lemma implied_row_is_isa t : table_ok t = true -> forall m b,
  get_emitter t m M_none None = Ok (EmNoOperand b) -> byte_ok b = true ->
  isa_implied (str_upper m) = Some b.
Proof.
  intros Ht m b Hg Hk.
  destruct (get_emitter_entry t m M_none _ _ PNoOperand b Hg eq_refl) as (idx' & Hin & _).
  unfold table_ok in Ht. rewrite forallb_forall in Ht. specialize (Ht _ Hin).
  unfold entry_ok in Ht. cbn [e_mn e_mode e_idx e_kind e_byte] in Ht.
  apply andb_prop in Ht. destruct Ht as [Hb Ht]. apply andb_prop in Ht. destruct Ht as [Ht Hm].
  apply isa_implied_unique; [apply byte_ok_range; exact Hb|exact Hm].
Qed.

Lemma sh_index_cg sh i1 : sh_index sh i1 = cg_index (mode_of sh) (sh_index sh i1).
Proof. destruct sh; reflexivity. Qed.

(** C01, text to ISA, instruction with an operand: the single block written for the source text is
    the ISA encoding of (mnemonic, the shape denoted by the operand syntax, the resolved width,
    the value): the matrix's opcode byte followed by the little-endian truncated operand. *)
Theorem text_plain_is_isa (t : live) (fs : srcfiles) (c : config) (fname : str) (sp0 : spacing)
    (eorg : sexpr) (org : Z) (mn : str) (sz : option Z) (os : ospacing) (sh : shape) (e : sexpr)
    (i1 i2 v : Z) (defs : list (option Z)) (b : Z) :
  table_ok (lv_optable t) = true ->
  bus_agree_b (lv_low t) lorom = true -> low_rom_config t c ->
  prec_compatible (lv_prec t) = true ->
  (0 <= bank_of org <= 111 \/ 128 <= bank_of org <= 207) -> 32768 <= org mod 65536 ->
  dlex eorg -> wf eorg -> eval noenv eorg = Ok org ->
  sh <> ParserShapeTokens.ShImplied -> insn_ok (lv_lex t) mn sz os sh e i1 i2 -> eval noenv e = Ok v ->
  get_emitter (lv_optable t) (lower_ascii mn) (mode_of sh) (sh_index sh i1) = Ok (EmPlain defs) ->
  let w := resolved_width (sfx_vsize sz) v in
  opcode_byte defs w = Some b -> byte_ok b = true -> fits w v = true ->
  lorom_offset org + 1 + Z.of_nat (vsize_n w) < (if bank_of org <? 128 then 112 else 80) * 32768 ->
  exists o fin bs osh,
    assemble_source t fs c fname (insn_src sp0 eorg mn sz os sh e i1 i2) = AOk o fin /\
    o_blocks o = [(bs, lorom_offset org)] /\ o_labels o = [] /\
    amode_shape (mode_of sh) (sh_index sh i1) = Some osh /\
    isa_expected (str_upper (lower_ascii mn)) osh w v = Some bs.
Proof.
  intros Ht Hbus Hcfg Hprec Hbank Horg Hdl Hwf Hev Hsh Hok Hv Hg w Hob Hbk Hfit Hroom.
  destruct (insn_text_lorom_plain t fs c fname sp0 eorg org mn sz os sh e i1 i2 v defs b
              Hbus Hcfg Hprec Hbank Horg Hdl Hwf Hev Hsh Hok Hv Hg Hob Hbk Hfit Hroom) as (o & fin & A & B & C).
  rewrite (sh_index_cg sh i1) in Hg.
  destruct (plain_row_is_isa _ Ht _ _ _ _ (sfx_vsize sz) v b Hg Hob) as (osh & S1 & S2).
  rewrite <- (sh_index_cg sh i1) in S1.
  exists o, fin, (b :: le_bytes (vsize_n w) (v mod 256 ^ Z.of_nat (vsize_n w))), osh. auto.
Qed.

(** ... and without operand: the block is the matrix's single byte for the mnemonic *)
Theorem text_implied_is_isa (t : live) (fs : srcfiles) (c : config) (fname : str) (sp0 : spacing)
    (eorg : sexpr) (org : Z) (mn : str) (sz : option Z) (os : ospacing) (e : sexpr) (i1 i2 b : Z) :
  table_ok (lv_optable t) = true ->
  bus_agree_b (lv_low t) lorom = true -> low_rom_config t c ->
  prec_compatible (lv_prec t) = true ->
  (0 <= bank_of org <= 111 \/ 128 <= bank_of org <= 207) -> 32768 <= org mod 65536 ->
  dlex eorg -> wf eorg -> eval noenv eorg = Ok org ->
  insn_ok (lv_lex t) mn sz os ParserShapeTokens.ShImplied e i1 i2 ->
  get_emitter (lv_optable t) (lower_ascii mn) M_none None = Ok (EmNoOperand b) -> byte_ok b = true ->
  lorom_offset org + 1 < (if bank_of org <? 128 then 112 else 80) * 32768 ->
  exists o fin bi,
    assemble_source t fs c fname (insn_src sp0 eorg mn sz os ParserShapeTokens.ShImplied e i1 i2) = AOk o fin /\
    o_blocks o = [([bi], lorom_offset org)] /\ o_labels o = [] /\
    isa_implied (str_upper (lower_ascii mn)) = Some bi.
Proof.
  intros Ht Hbus Hcfg Hprec Hbank Horg Hdl Hwf Hev Hok Hg Hbk Hroom.
  destruct (insn_text_lorom_implied t fs c fname sp0 eorg org mn sz os e i1 i2 b
              Hbus Hcfg Hprec Hbank Horg Hdl Hwf Hev Hok Hg Hbk Hroom) as (o & fin & A & B & C).
  exists o, fin, b. repeat split; auto. apply (implied_row_is_isa _ Ht _ _ Hg Hbk).
Qed.

Print Assumptions text_plain_is_isa.
Print Assumptions text_implied_is_isa.
