(** C08 on SOURCE TEXT: consistent renaming of a name in the printed text leaves the blocks unchanged
    and renames the keys of the label listing -- C08_renaming_program (Proofs/CodeValuesRen.v,
    [renaming_ast_gen]) through the printer round trip.

    [rename_prog] renames names and expression tokens but leaves the [file_info] tokens alone, so the
    renamed AST does not carry the tokens a parser would store; its TEXT does not depend on them
    ([print_canon]) and neither does the assembly ([fi_independent]): the theorem is stated with
    [lift_pair_canon] (Proofs/TextLiftFi.v), i.e. printability is asked of the canonical forms.
    Printability of the renamed program is a hypothesis (a boolean, checked by computation); it holds
    when the new name is a printable identifier ([pident_b lx z' = true]) -- that implication is NOT
    proved here (it needs an induction over the printable class relating [rename_ast] with
    [stmt_tks]/[first_tk]; see the report). *)
From Coq Require Import ZArith List Lia Bool Arith.
From A816 Require Import Model.Assemble Proofs.BusProofs Proofs.NonInterference Proofs.RenamingExpr Proofs.Renaming
  Proofs.RenamingAst Proofs.CodeValues Proofs.CodeValuesNI Proofs.CodeValuesRen
  Proofs.RoundTripExpr Proofs.RoundTripParse Proofs.RoundTripProgram Proofs.RoundTripAsm
  Proofs.TextLiftCommon Proofs.TextLiftFi.
Import ListNotations.
Open Scope Z_scope.

Definition renamed_bl (z z' : str) : blq := fun b1 l1 b2 l2 => b2 = b1 /\ l2 = map_keys (ren z z') l1.

Theorem renaming_text t fs c f1 f2 z z' prog :
  lexicon_rt (lv_lex t) = true ->
  printable (lv_lex t) (canon_prog prog) = true ->
  printable (lv_lex t) (canon_prog (rename_prog (ren z z') prog)) = true ->
  nodot z = true -> nodot z' = true -> prog_okg (ren z z') (inD z') prog ->
  (forall ri, initial_resolver (world_of t fs) c = Ok ri ->
     state_untouched z z' ri = true /\ start_code_ok (ren z z') (inD z') ri) ->
  text_rel (renamed_bl z z')
    (assemble_source t fs c f1 (print_program prog))
    (assemble_source t fs c f2 (print_program (rename_prog (ren z z') prog))).
Proof.
  intros Hrt P1 P2 Hz Hz' Hok Hri. apply lift_pair_canon; try assumption.
  intros ri Ei. destruct (Hri ri Ei) as [Hu Hc].
  exact (renaming_ast_gen (world_of t fs) ri z z' prog Hz Hz' Hok Hu Hc).
Qed.

Print Assumptions renaming_text.
