(** C10 and C09 on SOURCE TEXT: the loop against the hand-unrolled text, the [.if] against the text
    with the selected branch written in its place, the macro application against the text with the
    literal-bound block.  Each is the AST-level theorem (Properties/C10.v, C09.v) carried through the
    printer round trip ([lift_pair], Proofs/TextLiftCommon.v): for printable programs of the shape
    the AST theorem talks about, the two printed texts assemble alike ([text_rel]). *)
From Coq Require Import ZArith List Lia Bool Arith.
From A816 Require Import Model.Assemble Proofs.BusProofs Proofs.CodegenProofs Proofs.NonInterference
  Proofs.UnrollSim Proofs.Unroll Proofs.IfInline Proofs.ReplayProofs Proofs.MacroInline
  Proofs.RoundTripExpr Proofs.RoundTripParse Proofs.RoundTripProgram Proofs.RoundTripAsm Proofs.TextLiftCommon.
Import ListNotations.
Open Scope Z_scope.

Lemma ast_rel_eq (r1 r2 : res output) : r1 = r2 -> ast_rel same_bl r1 r2.
Proof. intros <-. destruct r1; cbn [ast_rel]; unfold same_bl; auto. Qed.

Section Lift.
  Variable t : live.
  Variable fs : srcfiles.
  Variable c : config.
  Variables f1 f2 : str.
  Hypothesis Hrt : lexicon_rt (lv_lex t) = true.
  Local Notation w := (world_of t fs).
  Local Notation lx := (lv_lex t).

  (** ** A1. [.for v := lo, hi { body }] = the hand-unrolled text, one block [{ v = lit  body }]
      per iteration: same blocks; the labels of the loop text are those of the unrolled text minus
      the labels of the loop's own (internal) scopes. *)
  Theorem for_unrolled_text v lo hi b bfi fi0 fi fi' from to lits pre post :
    printable lx (pre ++ AFor v lo hi b bfi fi0 :: post) = true ->
    printable lx (pre ++ unrolled v lits b fi fi' ++ post) = true ->
    (forall ri s' ns', initial_resolver w c = Ok ri ->
       code_gen_fuel w cg_depth {| cg_r := ri; cg_macros := [] |} pre = Ok (s', ns') ->
       eval_raw w (cg_r s') lo = Ok from /\ eval_raw w (cg_r s') hi = Ok to) ->
    length lits = Z.to_nat (to - from) -> literals_for w from lits ->
    text_rel (fun b1 l1 b2 l2 => b1 = b2 /\ sublist l1 l2)
      (assemble_source t fs c f1 (print_program (pre ++ AFor v lo hi b bfi fi0 :: post)))
      (assemble_source t fs c f2 (print_program (pre ++ unrolled v lits b fi fi' ++ post))).
  Proof.
    intros P1 P2 Hev Hlen Hlit. apply lift_pair; try assumption; [reflexivity|].
    intros ri Ei. exact (for_equals_unrolled_blocks w ri v lo hi b bfi fi0 fi fi' from to lits pre post
                           (fun s' ns' => Hev ri s' ns' Ei) Hlen Hlit).
  Qed.

  (** ** A2. [.if]: the text with the [.if] = the text with the selected branch written in place *)
  Theorem if_selected_text pre post cnd th thfi el fi b :
    printable lx (pre ++ AIf cnd th thfi el fi :: post) = true ->
    printable lx (pre ++ selected b th el ++ post) = true ->
    (forall ri x, initial_resolver w c = Ok ri -> code_gen_fuel w cg_depth (cg0 ri) pre = Ok x ->
       if_condition w (cg_r (fst x)) cnd = Ok b) ->
    (forall ri, initial_resolver w c = Ok ri ->
       code_gen_fuel w cg_depth (cg0 ri) (pre ++ AIf cnd th thfi el fi :: post) <> Err ERecursion \/
       code_gen_fuel w (pred cg_depth) (cg0 ri) (pre ++ selected b th el ++ post) <> Err ERecursion) ->
    text_rel same_bl
      (assemble_source t fs c f1 (print_program (pre ++ AIf cnd th thfi el fi :: post)))
      (assemble_source t fs c f2 (print_program (pre ++ selected b th el ++ post))).
  Proof.
    intros P1 P2 Hc Hrec. apply lift_pair; try assumption; [reflexivity|].
    intros ri Ei. apply ast_rel_eq.
    apply (if_equals_selected w ri pre post cnd th thfi el fi b (fun x => Hc ri x Ei) (Hrec ri Ei)).
  Qed.

  (** condition with a non-zero value: the then-branch *)
  Theorem if_true_text pre post cnd th thfi el fi v :
    printable lx (pre ++ AIf cnd th thfi el fi :: post) = true ->
    printable lx (pre ++ th ++ post) = true ->
    (forall ri x, initial_resolver w c = Ok ri -> code_gen_fuel w cg_depth (cg0 ri) pre = Ok x ->
       eval_raw w (cg_r (fst x)) cnd = Ok v) -> v <> 0 ->
    (forall ri, initial_resolver w c = Ok ri ->
       code_gen_fuel w cg_depth (cg0 ri) (pre ++ AIf cnd th thfi el fi :: post) <> Err ERecursion) ->
    text_rel same_bl
      (assemble_source t fs c f1 (print_program (pre ++ AIf cnd th thfi el fi :: post)))
      (assemble_source t fs c f2 (print_program (pre ++ th ++ post))).
  Proof.
    intros P1 P2 Hc Hv Hrec. apply lift_pair; try assumption; [reflexivity|].
    intros ri Ei. apply ast_rel_eq.
    apply (if_true_equals_then w ri pre post cnd th thfi el fi v (fun x => Hc ri x Ei) Hv (Hrec ri Ei)).
  Qed.

  (** false condition, no else: the text without the statement *)
  Theorem if_false_text pre post cnd th thfi fi :
    printable lx (pre ++ AIf cnd th thfi None fi :: post) = true ->
    printable lx (pre ++ post) = true ->
    (forall ri x, initial_resolver w c = Ok ri -> code_gen_fuel w cg_depth (cg0 ri) pre = Ok x ->
       if_condition w (cg_r (fst x)) cnd = Ok false) ->
    text_rel same_bl
      (assemble_source t fs c f1 (print_program (pre ++ AIf cnd th thfi None fi :: post)))
      (assemble_source t fs c f2 (print_program (pre ++ post))).
  Proof.
    intros P1 P2 Hc. apply lift_pair; try assumption; [reflexivity|].
    intros ri Ei. apply ast_rel_eq.
    apply (if_false_equals_nothing w ri pre post cnd th thfi fi (fun x => Hc ri x Ei)).
  Qed.

  (** ** A3. A macro application = the block [{ p1 := lit1 ... pn := litn  body }] at the call site.
      The [:=] statements carry their own identifier tokens ([canon_assigns]; the AST theorem has one
      token for all of them, which no printer can produce for two different names). *)
  Lemma compound_assigns_fi f s pvs lits fi'' body fi' :
    gen_one w (code_gen_fuel w f) s (ACompound (canon_assigns pvs lits ++ body) fi') =
    gen_one w (code_gen_fuel w f) s (ACompound (assigns pvs lits fi'' ++ body) fi').
  Proof.
    cbn [gen_one]. unfold scoped. destruct (enter_scope (cg_r s) SPlain); cbn [bind]; try reflexivity.
    rewrite (code_gen_assigns_fi w fi''). reflexivity.
  Qed.

  Lemma assemble_assigns_fi ri before after pvs lits fi'' body fi' :
    assemble_ast w ri (before ++ [ACompound (canon_assigns pvs lits ++ body) fi'] ++ after) =
    assemble_ast w ri (before ++ [ACompound (assigns pvs lits fi'' ++ body) fi'] ++ after).
  Proof.
    apply assemble_ast_cg. change (code_gen_fuel w cg_depth) with (gen_list w (code_gen_fuel w 299)). rewrite !gen_list_app.
    destruct (gen_list w (code_gen_fuel w 299) (cg0 ri) before) as [x| |]; cbn [bind]; try reflexivity.
    cbn [app gen_list]. rewrite (compound_assigns_fi 299 (fst x) pvs lits fi'' body fi'). reflexivity.
  Qed.

  Theorem macro_inline_text before after name args fi fi' md bound pvs lits :
    printable lx (before ++ [AMacroApply name args fi] ++ after) = true ->
    printable lx (before ++ [ACompound (canon_assigns pvs lits ++ md_body md) fi'] ++ after) = true ->
    (forall ri s' ns', initial_resolver w c = Ok ri ->
       code_gen_fuel w cg_depth {| cg_r := ri; cg_macros := [] |} before = Ok (s', ns') ->
       dict_get (cg_macros s') name = Some md /\ eval_macro_args w (cg_r s') (md_params md) args = Ok bound) ->
    int_values bound = Some pvs -> closed_literals w pvs lits ->
    text_rel same_bl
      (assemble_source t fs c f1 (print_program (before ++ [AMacroApply name args fi] ++ after)))
      (assemble_source t fs c f2 (print_program (before ++ [ACompound (canon_assigns pvs lits ++ md_body md) fi'] ++ after))).
  Proof.
    intros P1 P2 Hdef Hint Hlits. apply lift_pair; try assumption; [reflexivity|].
    intros ri Ei. apply ast_rel_eq.
    rewrite (assemble_assigns_fi ri before after pvs lits fi (md_body md) fi').
    apply (macro_inline_eager_assembly w ri before after name args fi fi' fi md bound pvs lits
             (fun s' ns' => Hdef ri s' ns' Ei) Hint Hlits).
  Qed.
End Lift.

Print Assumptions for_unrolled_text.
Print Assumptions if_selected_text.
Print Assumptions if_true_text.
Print Assumptions if_false_text.
Print Assumptions macro_inline_text.
