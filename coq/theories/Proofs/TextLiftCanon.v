(** A1-A3 for programs with ARBITRARY [file_info] tokens ([lift_pair_canon], Proofs/TextLiftFi.v):
    the AST-level twins exactly as the AST theorems state them -- one token [fi''] for all the
    [p := lit] statements of the macro twin, the same [th] inside the [.if] and written in place
    (even when its last statement stores "the following token") -- printability being asked of the
    canonical forms, which have the same text. *)
From Coq Require Import ZArith List Lia Bool Arith.
From A816 Require Import Model.Assemble Proofs.BusProofs Proofs.CodegenProofs Proofs.NonInterference
  Proofs.UnrollSim Proofs.Unroll Proofs.IfInline Proofs.ReplayProofs Proofs.MacroInline
  Proofs.RoundTripExpr Proofs.RoundTripParse Proofs.RoundTripProgram Proofs.RoundTripAsm
  Proofs.TextLiftCommon Proofs.TextLiftC10 Proofs.TextLiftFi.
Import ListNotations.
Open Scope Z_scope.

Section LiftCanon.
  Variable t : live.
  Variable fs : srcfiles.
  Variable c : config.
  Variables f1 f2 : str.
  Hypothesis Hrt : lexicon_rt (lv_lex t) = true.
  Local Notation w := (world_of t fs).
  Local Notation lx := (lv_lex t).

  Theorem for_unrolled_text_canon v lo hi b bfi fi0 fi fi' from to lits pre post :
    printable lx (canon_prog (pre ++ AFor v lo hi b bfi fi0 :: post)) = true ->
    printable lx (canon_prog (pre ++ unrolled v lits b fi fi' ++ post)) = true ->
    (forall ri s' ns', initial_resolver w c = Ok ri ->
       code_gen_fuel w cg_depth {| cg_r := ri; cg_macros := [] |} pre = Ok (s', ns') ->
       eval_raw w (cg_r s') lo = Ok from /\ eval_raw w (cg_r s') hi = Ok to) ->
    length lits = Z.to_nat (to - from) -> literals_for w from lits ->
    text_rel (fun b1 l1 b2 l2 => b1 = b2 /\ sublist l1 l2)
      (assemble_source t fs c f1 (print_program (pre ++ AFor v lo hi b bfi fi0 :: post)))
      (assemble_source t fs c f2 (print_program (pre ++ unrolled v lits b fi fi' ++ post))).
  Proof.
    intros P1 P2 Hev Hlen Hlit. apply lift_pair_canon; try assumption.
    intros ri Ei. exact (for_equals_unrolled_blocks w ri v lo hi b bfi fi0 fi fi' from to lits pre post
                           (fun s' ns' => Hev ri s' ns' Ei) Hlen Hlit).
  Qed.

  Theorem if_selected_text_canon pre post cnd th thfi el fi b :
    printable lx (canon_prog (pre ++ AIf cnd th thfi el fi :: post)) = true ->
    printable lx (canon_prog (pre ++ selected b th el ++ post)) = true ->
    (forall ri x, initial_resolver w c = Ok ri -> code_gen_fuel w cg_depth (cg0 ri) pre = Ok x ->
       if_condition w (cg_r (fst x)) cnd = Ok b) ->
    (forall ri, initial_resolver w c = Ok ri ->
       code_gen_fuel w cg_depth (cg0 ri) (pre ++ AIf cnd th thfi el fi :: post) <> Err ERecursion \/
       code_gen_fuel w (pred cg_depth) (cg0 ri) (pre ++ selected b th el ++ post) <> Err ERecursion) ->
    text_rel same_bl
      (assemble_source t fs c f1 (print_program (pre ++ AIf cnd th thfi el fi :: post)))
      (assemble_source t fs c f2 (print_program (pre ++ selected b th el ++ post))).
  Proof.
    intros P1 P2 Hc Hrec. apply lift_pair_canon; try assumption.
    intros ri Ei. apply ast_rel_eq.
    apply (if_equals_selected w ri pre post cnd th thfi el fi b (fun x => Hc ri x Ei) (Hrec ri Ei)).
  Qed.

  Theorem macro_inline_text_canon before after name args fi fi' fi'' md bound pvs lits :
    printable lx (canon_prog (before ++ [AMacroApply name args fi] ++ after)) = true ->
    printable lx (canon_prog (before ++ [ACompound (assigns pvs lits fi'' ++ md_body md) fi'] ++ after)) = true ->
    (forall ri s' ns', initial_resolver w c = Ok ri ->
       code_gen_fuel w cg_depth {| cg_r := ri; cg_macros := [] |} before = Ok (s', ns') ->
       dict_get (cg_macros s') name = Some md /\ eval_macro_args w (cg_r s') (md_params md) args = Ok bound) ->
    int_values bound = Some pvs -> closed_literals w pvs lits ->
    text_rel same_bl
      (assemble_source t fs c f1 (print_program (before ++ [AMacroApply name args fi] ++ after)))
      (assemble_source t fs c f2 (print_program (before ++ [ACompound (assigns pvs lits fi'' ++ md_body md) fi'] ++ after))).
  Proof.
    intros P1 P2 Hdef Hint Hlits. apply lift_pair_canon; try assumption.
    intros ri Ei. apply ast_rel_eq.
    apply (macro_inline_eager_assembly w ri before after name args fi fi' fi'' md bound pvs lits
             (fun s' ns' => Hdef ri s' ns' Ei) Hint Hlits).
  Qed.
End LiftCanon.

Print Assumptions for_unrolled_text_canon.
Print Assumptions if_selected_text_canon.
Print Assumptions macro_inline_text_canon.
