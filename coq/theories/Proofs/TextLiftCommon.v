(** Lifting AST-level theorems about [assemble_ast] / [assemble_program] to SOURCE TEXT through the
    printer round trip (Proofs/RoundTripAsm.v, Properties/FrontEnd.v).

    [text_rel Q r1 r2]: what two runs of [assemble_source] have in common -- both succeed and their
    blocks and labels are related by [Q], or both raise the same exception class, or both run out of
    fuel.  [lift_pair]: a relation of that kind between the AST-level assemblies of two printable
    programs (from every start resolver the configuration yields) holds between the assemblies of
    their printed texts.

    [canon_assigns]: the statements [p := lit] with the canonical [file_info] (the identifier token)
    -- [assigns] of Proofs/CodegenProofs.v carries ONE token for all of them, which is printable only
    for a single name; code generation never looks at that token ([gen_assigns_fi]). *)
From Coq Require Import ZArith List Lia Bool Arith.
From A816 Require Import Model.Assemble Proofs.BusProofs Proofs.CodegenProofs Proofs.LocationTextParse
  Proofs.LayoutLink Proofs.RoundTripExpr Proofs.RoundTripParse Proofs.RoundTripProgram Proofs.RoundTripAsm.
Import ListNotations.
Open Scope Z_scope.

Definition blq := list wblock -> list (str * Z) -> list wblock -> list (str * Z) -> Prop.

Definition text_rel (Q : blq) (r1 r2 : aresult) : Prop :=
  match r1, r2 with
  | AOk o1 _, AOk o2 _ => Q (o_blocks o1) (o_labels o1) (o_blocks o2) (o_labels o2)
  | AExc j _, AExc k _ => j = k
  | AFuel, AFuel => True
  | _, _ => False
  end.

Definition ast_rel (Q : blq) (r1 r2 : res output) : Prop :=
  match r1, r2 with
  | Ok o1, Ok o2 => Q (o_blocks o1) (o_labels o1) (o_blocks o2) (o_labels o2)
  | Err j, Err k => j = k
  | OutOfFuel, OutOfFuel => True
  | _, _ => False
  end.

(** [assemble_program] is [initial_resolver] followed by [assemble_ast] *)
Lemma assemble_program_ast w c prog :
  match initial_resolver w c with
  | Ok ri =>
      match assemble_ast w ri prog with
      | Ok o => assemble_program w c prog = AOk o (o_final o)
      | Err k => exists s, assemble_program w c prog = AExc k s
      | OutOfFuel => assemble_program w c prog = AFuel
      end
  | Err k => assemble_program w c prog = AExc k None
  | OutOfFuel => assemble_program w c prog = AFuel
  end.
Proof.
  unfold assemble_program, assemble_ast. destruct (initial_resolver w c) as [ri| |]; try reflexivity.
  destruct (code_gen_fuel w cg_depth _ prog) as [[s ns]| |]; cbn [bind fst snd]; try reflexivity; [|eauto].
  destruct (assemble_nodes w (cg_r s) ns); try reflexivity. eauto.
Qed.

Lemma program_rel w c c' Q p1 p2 :
  initial_resolver w c' = initial_resolver w c ->
  (forall ri, initial_resolver w c = Ok ri -> ast_rel Q (assemble_ast w ri p1) (assemble_ast w ri p2)) ->
  text_rel Q (assemble_program w c p1) (assemble_program w c' p2).
Proof.
  intros Ei H. pose proof (assemble_program_ast w c p1) as A1. pose proof (assemble_program_ast w c' p2) as A2.
  rewrite Ei in A2. destruct (initial_resolver w c) as [ri| |].
  - specialize (H ri eq_refl).
    destruct (assemble_ast w ri p1) as [o1|k1|], (assemble_ast w ri p2) as [o2|k2|]; cbn [ast_rel] in H; try contradiction.
    + rewrite A1, A2. exact H.
    + destruct A1 as (s1 & ->). destruct A2 as (s2 & ->). exact H.
    + rewrite A1, A2. exact I.
  - rewrite A1, A2. reflexivity.
  - rewrite A1, A2. exact I.
Qed.

(** transport along "same result up to positions" *)
Lemma text_rel_positions Q a1 a2 s1 s2 :
  result_same_up_to_positions a1 s1 -> result_same_up_to_positions a2 s2 ->
  text_rel Q a1 a2 -> text_rel Q s1 s2.
Proof.
  intros H1 H2 H.
  destruct a1 as [o1 f1|? ?|?|k1 x1|], s1 as [o1' f1'|? ?|?|k1' x1'|]; cbn [result_same_up_to_positions] in H1; try contradiction;
  destruct a2 as [o2 f2|? ?|?|k2 x2|], s2 as [o2' f2'|? ?|?|k2' x2'|]; cbn [result_same_up_to_positions] in H2; try contradiction;
  cbn [text_rel] in *; try contradiction; try exact I.
  - destruct H1 as (A1 & B1 & _). destruct H2 as (A2 & B2 & _). rewrite <- A1, <- B1, <- A2, <- B2. exact H.
  - destruct H1 as [<- _]. destruct H2 as [<- _]. exact H.
Qed.

(** THE LIFT: two printable programs *)
Theorem lift_pair t fs c c' f1 f2 Q p1 p2 :
  lexicon_rt (lv_lex t) = true -> printable (lv_lex t) p1 = true -> printable (lv_lex t) p2 = true ->
  initial_resolver (world_of t fs) c' = initial_resolver (world_of t fs) c ->
  (forall ri, initial_resolver (world_of t fs) c = Ok ri ->
     ast_rel Q (assemble_ast (world_of t fs) ri p1) (assemble_ast (world_of t fs) ri p2)) ->
  text_rel Q (assemble_source t fs c f1 (print_program p1)) (assemble_source t fs c' f2 (print_program p2)).
Proof.
  intros Hrt P1 P2 Ei H.
  apply (text_rel_positions Q _ _ _ _ (assemble_printed t fs c f1 p1 Hrt P1) (assemble_printed t fs c' f2 p2 Hrt P2)).
  apply program_rel; assumption.
Qed.

(** the relations used below *)
Definition same_bl : blq := fun b1 l1 b2 l2 => b1 = b2 /\ l1 = l2.

(* ------------------------------------------------------------------------------------------ *)
(** * [p := literal] statements with their own identifier token *)

Fixpoint canon_assigns (pvs : list (str * Z)) (lits : list expr) : list ast :=
  match pvs, lits with
  | (p, _) :: pvs', e :: lits' => AAssign p e (mk_token T_IDENTIFIER p) :: canon_assigns pvs' lits'
  | _, _ => []
  end.

(** code generation does not look at the token of [:=] *)
Lemma gen_assigns_fi w gen fi : forall pvs lits s rest,
  gen_list w gen s (canon_assigns pvs lits ++ rest) = gen_list w gen s (assigns pvs lits fi ++ rest).
Proof.
  induction pvs as [|[p v] pvs IH]; intros lits s rest; [reflexivity|].
  destruct lits as [|e lits]; [reflexivity|]. cbn [canon_assigns assigns app gen_list gen_one].
  destruct (eval_raw w (cg_r s) e) as [x| |]; cbn [bind]; try reflexivity. rewrite IH. reflexivity.
Qed.

Lemma code_gen_assigns_fi w fi pvs lits rest : forall f s,
  code_gen_fuel w f s (canon_assigns pvs lits ++ rest) = code_gen_fuel w f s (assigns pvs lits fi ++ rest).
Proof. intros [|f] s; [reflexivity|]. cbn [code_gen_fuel]. apply gen_assigns_fi. Qed.

(** ... nor does the site of a code-lookup NodeError further on *)
Lemma gen_site_assigns_fi w gen gsite fi : forall pvs lits s rest,
  gen_list_site w gen gsite s (canon_assigns pvs lits ++ rest) = gen_list_site w gen gsite s (assigns pvs lits fi ++ rest).
Proof.
  induction pvs as [|[p v] pvs IH]; intros lits s rest; [reflexivity|].
  destruct lits as [|e lits]; [reflexivity|]. cbn [canon_assigns assigns app gen_list_site gen_one gen_one_site].
  destruct (eval_raw w (cg_r s) e) as [x| |]; cbn [bind fst]; try reflexivity. apply IH.
Qed.
Lemma code_gen_site_assigns_fi w fi pvs lits rest : forall f s,
  code_gen_site w f s (canon_assigns pvs lits ++ rest) = code_gen_site w f s (assigns pvs lits fi ++ rest).
Proof. intros [|f] s; [reflexivity|]. cbn [code_gen_site]. apply gen_site_assigns_fi. Qed.

Print Assumptions lift_pair.
