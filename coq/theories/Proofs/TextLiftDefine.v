(** C12 on SOURCE TEXT: "-D NAME=VALUE is the line NAME := VALUE in front of the program".

    [define_lines ds]: one statement [NAME := literal] per define, with the identifier token as
    file_info (printable) and the value written in decimal, a negative value as unary minus and the
    decimal of its absolute value ("x := - 5").  No restriction on the sign; the only condition is
    that the two programs are printable (a boolean: names that are plain identifiers and no mnemonics).

    [defines_text]: assembling the printed program with the defines in the configuration, and
    assembling the printed program preceded by the define lines with no defines, succeed together with
    the same blocks and labels, or raise the same exception class. *)
From Coq Require Import ZArith NArith List Lia Bool Arith.
From A816 Require Import Spec.ExprSem Model.Assemble Proofs.BusProofs Proofs.ExprProofs Proofs.CodegenProofs
  Proofs.NonInterference Proofs.UnrollSim Proofs.Unroll Proofs.DefineConst Proofs.LocationText Proofs.LayoutLink
  Proofs.RoundTripExpr Proofs.RoundTripParse Proofs.RoundTripProgram Proofs.RoundTripAsm Proofs.TextLiftCommon.
Import ListNotations.
Open Scope Z_scope.

Definition dec_text (v : Z) : str := render FDec (Z.to_N v).
Definition dec_lit (v : Z) : expr := if v <? 0 then neg_expr (dec_text (- v)) else num_expr (dec_text v).

Lemma dec_lit_closed w v : forall r, eval_raw w r (dec_lit v) = Ok v.
Proof.
  unfold dec_lit, dec_text. destruct (v <? 0) eqn:E.
  - apply Z.ltb_lt in E. intros r.
    pose proof (neg_expr_literal w (render FDec (Z.to_N (- v))) (- v) (eval_number_render_Z FDec (- v) ltac:(lia)) r) as H.
    rewrite Z.opp_involutive in H. exact H.
  - apply Z.ltb_ge in E. intros r. exact (num_expr_literal w _ v (eval_number_render_Z FDec v E) r).
Qed.

Definition dec_lits (ds : list (str * Z)) : list expr := map (fun kv => dec_lit (snd kv)) ds.
Lemma dec_lits_closed w ds : closed_literals w ds (dec_lits ds).
Proof. induction ds as [|[k v] ds IH]; cbn [dec_lits map closed_literals snd]; auto. split; [apply dec_lit_closed|exact IH]. Qed.

Definition define_lines (ds : list (str * Z)) : list ast := canon_assigns ds (dec_lits ds).

(** AST level, with the printable statements *)
Theorem defines_are_lines w rom ds prog :
  assemble_program w {| cf_rom := rom; cf_defines := ds |} prog =
  assemble_program w {| cf_rom := rom; cf_defines := [] |} (define_lines ds ++ prog).
Proof.
  rewrite (define_is_assign w rom ds (dec_lits ds) eof_token prog (dec_lits_closed w ds)).
  unfold assemble_program, define_lines. destruct (initial_resolver w _); try reflexivity.
  rewrite (code_gen_assigns_fi w eof_token ds (dec_lits ds) prog), (code_gen_site_assigns_fi w eof_token ds (dec_lits ds) prog). reflexivity.
Qed.

Lemma text_rel_same r : match r with AScanError _ _ | AParseError _ => False | _ => True end -> text_rel same_bl r r.
Proof. destruct r; cbn [text_rel]; unfold same_bl; intros H; auto. Qed.

(** B. the source-text form *)
Theorem defines_text t fs rom ds f1 f2 prog :
  lexicon_rt (lv_lex t) = true ->
  printable (lv_lex t) prog = true -> printable (lv_lex t) (define_lines ds ++ prog) = true ->
  text_rel same_bl
    (assemble_source t fs {| cf_rom := rom; cf_defines := ds |} f1 (print_program prog))
    (assemble_source t fs {| cf_rom := rom; cf_defines := [] |} f2 (print_program (define_lines ds ++ prog))).
Proof.
  intros Hrt P1 P2.
  apply (text_rel_positions same_bl _ _ _ _
           (assemble_printed t fs _ f1 prog Hrt P1) (assemble_printed t fs _ f2 _ Hrt P2)).
  rewrite (defines_are_lines (world_of t fs) rom ds prog). apply text_rel_same.
  apply assemble_program_shape.
Qed.

Print Assumptions defines_text.
