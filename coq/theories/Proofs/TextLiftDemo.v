(** Text-level lifts, non-vacuity on the demo tables (Proofs/RoundTripDemo.v: [demo_live4]). *)
From Coq Require Import ZArith List Bool Lia.
From A816 Require Import Spec.ExprSem Model.Assemble Proofs.BusProofs Proofs.ExprProofs Proofs.CodegenProofs
  Proofs.NonInterference Proofs.UnrollSim Proofs.Unroll Proofs.IfInline Proofs.DataText Proofs.InsnText
  Proofs.RenamingExpr Proofs.Renaming Proofs.RenamingAst Proofs.CodeValuesRen
  Proofs.RoundTripExpr Proofs.RoundTripParse Proofs.RoundTripProgram Proofs.RoundTripAsm Proofs.RoundTripDemo
  Proofs.TextLiftCommon Proofs.TextLiftC10 Proofs.TextLiftDefine Proofs.TextLiftFi Proofs.TextLiftC08 Proofs.TextLiftCanon.
Import ListNotations.
Open Scope Z_scope.

Definition s_yy : str := [121; 121].   (* yy *)
Definition s_n : str := [110].    (* n *)
Definition org : ast := AStarEq (nm n8000) (T T_NUMBER n8000).
Definition lb : token := T T_LBRACE [123].
Definition db1 (e : expr) : ast := AData D_db [e] db_kw.
Definition src (p : list ast) : aresult := assemble_source demo_live4 no_srcfiles demo_cfg [109] (print_program p).
Definition vw (r : aresult) : option (list wblock * list (str * Z)) :=
  match r with AOk o _ => Some (o_blocks o, o_labels o) | _ => None end.

Lemma nm_lit w s k : eval_number s = Ok k -> forall r, eval_raw w r (nm s) = Ok k.
Proof. exact (num_expr_literal w s k). Qed.

(** A1: .for k := 0, 2 { .db k }  /  { k = 0  .db k } { k = 1  .db k } *)
Definition for_prog : list ast := [org; AFor s_k (nm n0) (nm n2) [db1 (idn s_k)] (T T_EOF []) (T T_IDENTIFIER s_k)].
Definition for_twin : list ast := [org] ++ unrolled s_k [nm n0; nm n1] [db1 (idn s_k)] (T T_IDENTIFIER s_k) lb ++ [].

Ltac init_ri Ei := vm_compute in Ei; injection Ei as <-.

Example for_printable : printable demo_lx for_prog = true /\ printable demo_lx for_twin = true.
Proof. vm_compute. split; reflexivity. Qed.
Example for_computed : vw (src for_prog) = Some ([([0; 1], 0)], []) /\ vw (src for_twin) = Some ([([0; 1], 0)], []).
Proof. vm_compute. split; reflexivity. Qed.
Example for_proved :
  text_rel (fun b1 l1 b2 l2 => b1 = b2 /\ sublist l1 l2) (src for_prog) (src for_twin).
Proof.
  destruct for_printable as [P1 P2].
  apply (for_unrolled_text demo_live4 no_srcfiles demo_cfg [109] [109] demo_lexicon_ok
           s_k (nm n0) (nm n2) [db1 (idn s_k)] (T T_EOF []) (T T_IDENTIFIER s_k) (T T_IDENTIFIER s_k) lb 0 2
           [nm n0; nm n1] [org] [] P1 P2).
  - intros ri s' ns' _ _. split; apply nm_lit; reflexivity.
  - reflexivity.
  - cbn [literals_for]. repeat split; apply nm_lit; reflexivity.
Qed.

(** A2: .if 1 { nop } else { lda #1 } / nop   against   nop / nop *)
Definition lda1 : ast := AOpcode M_immediate s_lda None (Some (nm n1)) None (T T_OPCODE s_lda).
Definition if_prog : list ast :=
  [org] ++ AIf (nm n1) [nop_stmt] (T T_IDENTIFIER k_else) (Some ([lda1], T T_OPCODE_NAKED s_nop)) (T T_NUMBER n1) :: [nop_stmt].
Definition if_twin : list ast := [org] ++ [nop_stmt] ++ [nop_stmt].
Example if_printable : printable demo_lx if_prog = true /\ printable demo_lx if_twin = true.
Proof. vm_compute. split; reflexivity. Qed.
Example if_computed : vw (src if_prog) = Some ([([234; 234], 0)], []) /\ vw (src if_twin) = Some ([([234; 234], 0)], []).
Proof. vm_compute. split; reflexivity. Qed.
Example if_proved : text_rel same_bl (src if_prog) (src if_twin).
Proof.
  destruct if_printable as [P1 P2].
  apply (if_true_text demo_live4 no_srcfiles demo_cfg [109] [109] demo_lexicon_ok [org] [nop_stmt] (nm n1) [nop_stmt]
           (T T_IDENTIFIER k_else) (Some ([lda1], T T_OPCODE_NAKED s_nop)) (T T_NUMBER n1) 1 P1 P2).
  - intros ri x _ _. apply nm_lit. reflexivity.
  - discriminate.
  - intros ri Ei. init_ri Ei. vm_compute. discriminate.
Qed.

(** A3: .macro mm ( a ) { .db a } / mm ( 7 )   against   .macro ... / { a := 7 / .db a } *)
Definition mac_def : ast := AMacro s_mm [s_a] [db1 (idn s_a)] lb (T T_IDENTIFIER s_mm).
Definition mac_md : macrodef := {| md_params := [s_a]; md_body := [db1 (idn s_a)] |}.
Definition mac_prog : list ast := [org; mac_def] ++ [AMacroApply s_mm [inl (nm n7)] (T T_IDENTIFIER s_mm)] ++ [].
Definition mac_twin : list ast := [org; mac_def] ++ [ACompound (canon_assigns [(s_a, 7)] [nm n7] ++ md_body mac_md) lb] ++ [].
Example mac_printable : printable demo_lx mac_prog = true /\ printable demo_lx mac_twin = true.
Proof. vm_compute. split; reflexivity. Qed.
Example mac_computed : vw (src mac_prog) = Some ([([7], 0)], []) /\ vw (src mac_twin) = Some ([([7], 0)], []).
Proof. vm_compute. split; reflexivity. Qed.
Example mac_proved : text_rel same_bl (src mac_prog) (src mac_twin).
Proof.
  destruct mac_printable as [P1 P2].
  apply (macro_inline_text demo_live4 no_srcfiles demo_cfg [109] [109] demo_lexicon_ok [org; mac_def] []
           s_mm [inl (nm n7)] (T T_IDENTIFIER s_mm) lb mac_md [(s_a, AVInt 7)] [(s_a, 7)] [nm n7] P1 P2).
  - intros ri s' ns' Ei G. init_ri Ei. vm_compute in G. injection G as <- <-. split; reflexivity.
  - reflexivity.
  - cbn [closed_literals]. split; [apply nm_lit; reflexivity|exact I].
Qed.

(** A4: x = 5 / .db x   renamed  x -> yy  (the renamed AST keeps the old file_info tokens: its
    canonical form is what is printable; the text is the same) *)
Definition ren_prog : list ast := [org; ASymbol s_x (nm n5) (T T_IDENTIFIER s_x); db1 (idn s_x)].
Example ren_text :
  print_program (rename_prog (ren s_x s_yy) ren_prog)
  = [42; 61; 32; 48; 120; 56; 48; 48; 48; 10;  121; 121; 32; 61; 32; 53; 10;  46; 100; 98; 32; 121; 121; 10].
Proof. vm_compute. reflexivity. Qed.
Example ren_printable :
  printable demo_lx (canon_prog ren_prog) = true /\
  printable demo_lx (canon_prog (rename_prog (ren s_x s_yy) ren_prog)) = true /\
  printable demo_lx (rename_prog (ren s_x s_yy) ren_prog) = false.
Proof. vm_compute. repeat split; reflexivity. Qed.
Example ren_computed :
  vw (src ren_prog) = Some ([([5], 0)], []) /\ vw (src (rename_prog (ren s_x s_yy) ren_prog)) = Some ([([5], 0)], []).
Proof. vm_compute. split; reflexivity. Qed.
Example ren_proved : text_rel (renamed_bl s_x s_yy) (src ren_prog) (src (rename_prog (ren s_x s_yy) ren_prog)).
Proof.
  destruct ren_printable as (P1 & P2 & _).
  apply (renaming_text demo_live4 no_srcfiles demo_cfg [109] [109] s_x s_yy ren_prog demo_lexicon_ok P1 P2).
  - reflexivity.
  - reflexivity.
  - cbn. repeat split; try reflexivity; repeat constructor; intros; try reflexivity; try discriminate.
  - intros ri Ei. init_ri Ei. split; [vm_compute; reflexivity|]. repeat constructor.
Qed.

(** B: -D x=5 -D n=-3   against the lines  x := 5 / n := - 3  in front *)
Definition def_ds : list (str * Z) := [(s_x, 5); (s_n, -3)].
Definition def_prog : list ast :=
  [org; AData D_db [idn s_x; nm n0 ++ [en EK_bin (T T_OPERATOR [45])] ++ idn s_n] db_kw].
Example def_text :
  print_program (define_lines def_ds ++ def_prog)
  = [120; 32; 58; 61; 32; 53; 10;  110; 32; 58; 61; 32; 45; 32; 51; 10;
     42; 61; 32; 48; 120; 56; 48; 48; 48; 10;  46; 100; 98; 32; 120; 32; 44; 32; 48; 32; 45; 32; 110; 10].
Proof. vm_compute. reflexivity. Qed.
Example def_printable : printable demo_lx def_prog = true /\ printable demo_lx (define_lines def_ds ++ def_prog) = true.
Proof. vm_compute. split; reflexivity. Qed.
Definition cfg_ds : config := {| cf_rom := None; cf_defines := def_ds |}.
Example def_computed :
  vw (assemble_source demo_live4 no_srcfiles cfg_ds [109] (print_program def_prog)) = Some ([([5; 3], 0)], []) /\
  vw (assemble_source demo_live4 no_srcfiles demo_cfg [109] (print_program (define_lines def_ds ++ def_prog)))
  = Some ([([5; 3], 0)], []).
Proof. vm_compute. split; reflexivity. Qed.
Example def_proved :
  text_rel same_bl
    (assemble_source demo_live4 no_srcfiles cfg_ds [109] (print_program def_prog))
    (assemble_source demo_live4 no_srcfiles demo_cfg [109] (print_program (define_lines def_ds ++ def_prog))).
Proof.
  destruct def_printable as [P1 P2].
  exact (defines_text demo_live4 no_srcfiles None def_ds [109] [109] def_prog demo_lexicon_ok P1 P2).
Qed.

Print Assumptions for_proved.
Print Assumptions if_proved.
Print Assumptions mac_proved.
Print Assumptions ren_proved.
Print Assumptions def_proved.
