(** Token-independence of the assembly, and the canonical [file_info] tokens.

    [fi_independent]: two programs that differ only in their [file_info] tokens (expression tokens
    agree in type and value) assemble alike: same blocks, same labels, same exception class
    (Proofs/TextLiftFiRel.v, TextLiftFiSim.v, TextLiftFiGen.v: the simulation of
    Proofs/LocationText*.v with the file_info tokens left unrelated).

    [canon_prog prog]: the program with every file_info replaced by the token the parser stores
    there (the class [printable] asks for exactly these).  It has the same tokens, hence the same
    printed text ([print_canon]), and assembles like [prog] ([canon_same]).

    [lift_pair_canon]: the lift of Proofs/TextLiftCommon.v for programs with ARBITRARY file_info
    tokens: the AST-level relation between [p1] and [p2] holds between the assemblies of the texts
    [print_program p1], [print_program p2] as soon as [canon_prog p1], [canon_prog p2] are printable. *)
From Coq Require Import ZArith List Lia Bool Arith.
From A816 Require Import Model.Assemble Proofs.BusProofs Proofs.LocationText Proofs.LayoutLink
  Proofs.ExprLex Proofs.RoundTripExpr Proofs.RoundTripParse Proofs.RoundTripProgram Proofs.RoundTripAsm
  Proofs.TextLiftCommon.
From A816 Require Proofs.TextLiftFiRel Proofs.TextLiftFiSim Proofs.TextLiftFiGen.
Import ListNotations.
Open Scope Z_scope.

Definition Tall (_ _ : token) : Prop := True.
Definition same_shape : list ast -> list ast -> Prop := TextLiftFiRel.asrel Tall.

Lemma text_rel_of_positions r s :
  match r with AScanError _ _ | AParseError _ => False | _ => True end ->
  result_same_up_to_positions r s -> text_rel same_bl r s.
Proof.
  destruct r, s; cbn [result_same_up_to_positions text_rel]; unfold same_bl; intros Hs H; try contradiction; auto.
  - destruct H as (A & B & _). auto.
  - destruct H as [A _]. exact A.
Qed.

Theorem fi_independent w c p p' : same_shape p p' ->
  text_rel same_bl (assemble_program w c p) (assemble_program w c p').
Proof.
  intros H. pose proof (TextLiftFiGen.assemble_program_rel Tall w c p p' H) as HA.
  pose proof (assemble_program_shape w c p) as Sh.
  destruct (assemble_program w c p), (assemble_program w c p'); cbn [TextLiftFiGen.aresrel text_rel] in *;
    try contradiction; unfold same_bl; auto.
  - destruct HA as [(A & B & _) _]. auto.
  - destruct HA as [A _]. exact A.
Qed.

Lemma text_rel_trans2 Q a1 a2 s1 s2 :
  text_rel same_bl a1 s1 -> text_rel same_bl a2 s2 -> text_rel Q a1 a2 -> text_rel Q s1 s2.
Proof.
  intros H1 H2 H.
  destruct a1, s1; cbn [text_rel] in H1; try contradiction;
  destruct a2, s2; cbn [text_rel] in H2; try contradiction; cbn [text_rel] in *; try contradiction; try exact I.
  - destruct H1 as [A1 B1]. destruct H2 as [A2 B2]. rewrite <- A1, <- B1, <- A2, <- B2. exact H.
  - congruence.
Qed.

(* ------------------------------------------------------------------------------------------ *)
(** * Canonical file_info tokens *)

Definition tok (t : tk) : token := mk_token (fst t) (snd t).

Section CtxMap.
  Variable f : tk -> ast -> ast.
  Fixpoint ctx_map (next : tk) (l : list ast) : list ast :=
    match l with
    | [] => []
    | x :: r => f (match r with [] => next | y :: _ => first_tk y end) x :: ctx_map next r
    end.
End CtxMap.

Fixpoint canon (next : tk) (a : ast) : ast :=
  match a with
  | ALabel n _ => ALabel n (tok (T_LABEL, n))
  | AData k es _ => AData k es (tok (kwt (dk_name k)))
  | AAscii s _ => AAscii s (tok (kwt k_ascii))
  | AText s _ => AText s (tok (kwt k_text))
  | ATable p _ => ATable p (tok next)
  | AIncbin p _ => AIncbin p (tok next)
  | ASymbol n e _ => ASymbol n e (tok (idt n))
  | AAssign n e _ => AAssign n e (tok (idt n))
  | AStarEq e _ => AStarEq e (tok (hd tEOF (map etv e)))
  | AAtEq e _ => AAtEq e (tok (hd tEOF (map etv e)))
  | ACompound b _ => ACompound (ctx_map canon tRB b) (tok tLB)
  | AScope n b _ _ => AScope n (ctx_map canon tRB b) (tok tLB) (tok (idt n))
  | AMacro n ps b _ _ => AMacro n ps (ctx_map canon tRB b) (tok tLB) (tok (idt n))
  | AMacroApply n args _ => AMacroApply n args (tok (idt n))
  | AIf c th _ el _ =>
      AIf c (ctx_map canon tRB th)
          (match el with Some _ => tok (idt k_else) | None => tok next end)
          (match el with Some (eb, _) => Some (ctx_map canon tRB eb, tok next) | None => None end)
          (tok (hd tEOF (map etv c)))
  | AFor v lo hi b _ _ => AFor v lo hi (ctx_map canon tRB b) (tok next) (tok (idt v))
  | AOpcode m op sz o idx _ =>
      AOpcode m op sz o idx (tok (match o with None => (T_OPCODE_NAKED, op) | Some _ => (T_OPCODE, op) end))
  | _ => a
  end.

Definition canon_prog (prog : list ast) : list ast := ctx_map canon tEOF prog.

(** the relation is reflexive *)
Lemma erel_refl e : TextLiftFiRel.erel e e.
Proof. induction e; constructor; auto. repeat split. Qed.
Lemma oerel_refl o : TextLiftFiRel.oerel o o.
Proof. destruct o; cbn; [apply erel_refl|exact I]. Qed.
Lemma Forall2_refl_in {A} (R : A -> A -> Prop) l : Forall (fun x => R x x) l -> Forall2 R l l.
Proof. induction 1; constructor; auto. Qed.

Lemma arel_refl : forall a, TextLiftFiRel.arel Tall a a.
Proof.
  apply ast_ind'; intros; try (constructor; try exact I; try apply erel_refl; try apply oerel_refl;
                               try (apply Forall2_refl_in; assumption); fail).
  - (* AIf *) destruct el as [[eb ef]|].
    + apply TextLiftFiRel.R_If_some; try exact I; try apply erel_refl; apply Forall2_refl_in; assumption.
    + apply TextLiftFiRel.R_If_none; try exact I; try apply erel_refl; apply Forall2_refl_in; assumption.
  - (* AMacroApply *) constructor; [|exact I]. induction H as [|x l Hx _ IH]; constructor; [|exact IH].
    destruct x as [e|[b fi0]]; [apply TextLiftFiRel.M_expr; apply erel_refl|].
    apply TextLiftFiRel.M_code; [apply Forall2_refl_in; exact Hx|exact I].
  - (* AData *) constructor; [|exact I]. induction es; constructor; auto. apply erel_refl.
Qed.

Lemma ctx_map_rel (f : tk -> ast -> ast) l : Forall (fun x => forall nx, TextLiftFiRel.arel Tall x (f nx x)) l ->
  forall next, Forall2 (TextLiftFiRel.arel Tall) l (ctx_map f next l).
Proof. induction 1 as [|x r Hx _ IH]; intros next; cbn [ctx_map]; constructor; auto. Qed.

Lemma canon_rel : forall a next, TextLiftFiRel.arel Tall a (canon next a).
Proof.
  apply (ast_ind' (fun a => forall next, TextLiftFiRel.arel Tall a (canon next a))); intros; cbn [canon];
    try apply arel_refl;
    try (constructor; try exact I; try apply erel_refl; try apply oerel_refl;
         try (apply ctx_map_rel; assumption); fail).
  - (* AIf *) destruct el as [[eb ef]|].
    + apply TextLiftFiRel.R_If_some; try exact I; try apply erel_refl; apply ctx_map_rel; assumption.
    + apply TextLiftFiRel.R_If_none; try exact I; try apply erel_refl; apply ctx_map_rel; assumption.
  - (* AMacroApply *) constructor; [|exact I]. apply Forall2_refl_in. apply Forall_forall. intros x _.
    destruct x as [e|[b fi0]]; [apply TextLiftFiRel.M_expr; apply erel_refl|].
    apply TextLiftFiRel.M_code; [apply Forall2_refl_in; apply Forall_forall; intros y _; apply arel_refl|exact I].
  - (* AData *) constructor; [|exact I]. induction es; constructor; auto. apply erel_refl.
Qed.

Lemma canon_shape prog : same_shape prog (canon_prog prog).
Proof. apply ctx_map_rel. apply Forall_forall. intros a _. apply canon_rel. Qed.

Theorem canon_same w c prog : text_rel same_bl (assemble_program w c prog) (assemble_program w c (canon_prog prog)).
Proof. apply fi_independent. apply canon_shape. Qed.

(** same tokens, same lines, same text *)
Lemma ctx_map_flat {B} (g : ast -> list B) (f : tk -> ast -> ast) l :
  Forall (fun x => forall nx, g (f nx x) = g x) l -> forall next, flat_map g (ctx_map f next l) = flat_map g l.
Proof. induction 1 as [|x r Hx _ IH]; intros next; cbn [ctx_map flat_map]; [reflexivity|]. rewrite Hx, IH. reflexivity. Qed.

Lemma canon_lines : forall a next, stmt_lines (canon next a) = stmt_lines a.
Proof.
  apply (ast_ind' (fun a => forall next, stmt_lines (canon next a) = stmt_lines a)); intros;
    cbn [canon stmt_lines stmt_tks]; try reflexivity;
    try (rewrite (ctx_map_flat stmt_lines canon _ H); reflexivity).
  - (* AIf *) rewrite (ctx_map_flat stmt_lines canon _ H). destruct el as [[eb ef]|]; [|reflexivity].
    cbn [Pel] in H0. rewrite (ctx_map_flat stmt_lines canon _ H0). reflexivity.
Qed.

Theorem print_canon prog : print_program (canon_prog prog) = print_program prog.
Proof.
  unfold print_program, prog_lines, canon_prog. f_equal.
  apply ctx_map_flat. apply Forall_forall. intros a _. apply canon_lines.
Qed.

(* ------------------------------------------------------------------------------------------ *)
(** * The lift, for arbitrary file_info tokens *)

Theorem assemble_printed_canon t fs c fname prog :
  lexicon_rt (lv_lex t) = true -> printable (lv_lex t) (canon_prog prog) = true ->
  text_rel same_bl (assemble_program (world_of t fs) c prog) (assemble_source t fs c fname (print_program prog)).
Proof.
  intros Hrt HP. rewrite <- print_canon.
  pose proof (assemble_printed t fs c fname (canon_prog prog) Hrt HP) as H1.
  apply text_rel_of_positions in H1; [|apply assemble_program_shape].
  pose proof (canon_same (world_of t fs) c prog) as H2.
  pose proof (assemble_program_shape (world_of t fs) c prog) as Sh.
  destruct (assemble_program (world_of t fs) c prog), (assemble_program (world_of t fs) c (canon_prog prog)),
           (assemble_source t fs c fname (print_program (canon_prog prog)));
    cbn [text_rel] in *; unfold same_bl in *; try contradiction; try exact I.
  - destruct H1 as [A1 B1]. destruct H2 as [A2 B2]. split; congruence.
  - congruence.
Qed.

Theorem lift_pair_canon t fs c f1 f2 Q p1 p2 :
  lexicon_rt (lv_lex t) = true ->
  printable (lv_lex t) (canon_prog p1) = true -> printable (lv_lex t) (canon_prog p2) = true ->
  (forall ri, initial_resolver (world_of t fs) c = Ok ri ->
     ast_rel Q (assemble_ast (world_of t fs) ri p1) (assemble_ast (world_of t fs) ri p2)) ->
  text_rel Q (assemble_source t fs c f1 (print_program p1)) (assemble_source t fs c f2 (print_program p2)).
Proof.
  intros Hrt P1 P2 H.
  apply (text_rel_trans2 Q _ _ _ _ (assemble_printed_canon t fs c f1 p1 Hrt P1) (assemble_printed_canon t fs c f2 p2 Hrt P2)).
  apply program_rel; [reflexivity|exact H].
Qed.

Print Assumptions fi_independent.
Print Assumptions print_canon.
Print Assumptions lift_pair_canon.
