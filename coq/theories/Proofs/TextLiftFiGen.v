(** Token-independence of the assembly, part 3: a copy of Proofs/LocationTextGen.v for the relation
    of Proofs/TextLiftFiRel.v. *)
(** C17 (composition), part L3b — code generation never looks at token positions either:
    [code_gen_fuel] on [T]-related programs from related states gives related node lists, and
    [assemble_program] gives the same result with [T]-related site tokens. *)
From Coq Require Import ZArith List Lia Bool Arith.
From A816 Require Import Model.Assemble Proofs.BusProofs Proofs.NonInterference
     Proofs.TextLiftFiRel Proofs.TextLiftFiSim.
Open Scope Z_scope.

Section Gen.
  Variable T : token -> token -> Prop.
  Variable w : world.

  Notation arel := (arel T). Notation asrel := (asrel T). Notation oT := (oT T).
  Notation rrel := (rrel T). Notation ndrel := (ndrel T). Notation nsrel := (nsrel T). Notation mrel := (mrel T).

  (** ** States and results of code generation *)
  Definition macrel (kv kv' : str * macrodef) : Prop :=
    fst kv = fst kv' /\ md_params (snd kv) = md_params (snd kv') /\ asrel (md_body (snd kv)) (md_body (snd kv')).
  Definition cgrel (s1 s2 : cgstate) : Prop := rrel (cg_r s1) (cg_r s2) /\ Forall2 macrel (cg_macros s1) (cg_macros s2).
  Definition grel (x y : cgstate * list node) : Prop := cgrel (fst x) (fst y) /\ nsrel (snd x) (snd y).
  Definition gen_rel (gen : cgstate -> list ast -> res (cgstate * list node)) : Prop :=
    forall s1 s2 b b', cgrel s1 s2 -> asrel b b' -> res_rel grel (gen s1 b) (gen s2 b').

  Lemma cgrel_set_r s1 s2 r1 r2 : cgrel s1 s2 -> rrel r1 r2 -> cgrel (cg_set_r s1 r1) (cg_set_r s2 r2).
  Proof. intros [_ Hm] Hr. split; cbn [cg_set_r cg_r cg_macros]; auto. Qed.

  Lemma mac_get d d' q : Forall2 macrel d d' ->
    match dict_get d q, dict_get d' q with
    | Some m, Some m' => md_params m = md_params m' /\ asrel (md_body m) (md_body m')
    | None, None => True
    | _, _ => False
    end.
  Proof.
    induction 1 as [|[k c] [k' c'] l l' (Hk & Hb & Hf) _ IH]; cbn [dict_get]; [exact I|].
    cbn [fst snd] in *. subst k'. destruct (str_eqb q k); [split; assumption|exact IH].
  Qed.
  Lemma mac_set d d' k m m' : Forall2 macrel d d' -> md_params m = md_params m' -> asrel (md_body m) (md_body m') ->
    Forall2 macrel (dict_set d k m) (dict_set d' k m').
  Proof.
    intros H Hp Hb. induction H as [|[k1 c1] [k2 c2] l l' (Hk & Hp1 & Hb1) Hl IH]; cbn [dict_set].
    - constructor; [|constructor]. split; [reflexivity|split; assumption].
    - cbn [fst snd] in *. subst k2. destruct (str_eqb k k1).
      + constructor; [|assumption]. split; [reflexivity|split; assumption].
      + constructor; [|exact IH]. split; [reflexivity|split; assumption].
  Qed.

  Lemma seq_rel (A1 A2 : res (cgstate * list node)) (B1 B2 : cgstate -> res (cgstate * list node)) :
    res_rel grel A1 A2 -> (forall s1 s2, cgrel s1 s2 -> res_rel grel (B1 s1) (B2 s2)) ->
    res_rel grel (do x <- A1; do y <- B1 (fst x); Ok (fst y, snd x ++ snd y))
                 (do x <- A2; do y <- B2 (fst x); Ok (fst y, snd x ++ snd y)).
  Proof.
    intros HA HB. eapply res_rel_bind; [exact HA|].
    intros [sa na] [sb nb] [Hs Hn]. cbn [fst snd] in *.
    eapply res_rel_bind; [apply HB; exact Hs|].
    intros [sa' na'] [sb' nb'] [Hs' Hn']. cbn [fst snd] in *. cbn [res_rel].
    split; cbn [fst snd]; [exact Hs'|apply Forall2_app; assumption].
  Qed.

  Lemma grel_nodes s1 s2 ns ns' : cgrel s1 s2 -> nsrel ns ns' -> grel (s1, ns) (s2, ns').
  Proof. intros H Hn. split; assumption. Qed.

  (** ** Evaluations *)
  Lemma if_condition_rel r1 r2 c c' : rrel r1 r2 -> erel c c' -> if_condition w r1 c = if_condition w r2 c'.
  Proof. intros H Hc. unfold if_condition. rewrite (eval_raw_rel T w r1 r2 c c' H Hc). reflexivity. Qed.

  Definition avrel (x y : str * argval) : Prop :=
    fst x = fst y /\
    match snd x, snd y with
    | AVInt a, AVInt b => a = b
    | AVCode b fi, AVCode b' fi' => asrel b b' /\ T fi fi'
    | AVDeferred e, AVDeferred e' => erel e e'
    | _, _ => False
    end.

  Lemma eval_macro_args_rel r1 r2 : rrel r1 r2 -> forall ps args args', Forall2 mrel args args' ->
    res_rel (Forall2 avrel) (eval_macro_args w r1 ps args) (eval_macro_args w r2 ps args').
  Proof.
    intros H. induction ps as [|p ps IH]; intros args args' Ha; cbn [eval_macro_args]; [constructor|].
    destruct Ha as [|a a' rest rest' Ha Hrest]; [reflexivity|].
    eapply res_rel_bind with (R := fun v v' => avrel (p, v) (p, v')).
    - destruct Ha as [e e' He|b b' fi fi' Hb Hfi].
      + rewrite (eval_raw_rel T w r1 r2 e e' H He).
        destruct (eval_raw w r2 e') as [v|[]|]; try reflexivity; cbn [res_rel]; unfold avrel; cbn [fst snd]; auto.
      + cbn [res_rel]. unfold avrel. cbn [fst snd]. auto.
    - intros v v' Hv. eapply res_rel_bind; [apply IH; exact Hrest|].
      intros tl tl' Htl. cbn [res_rel]. constructor; assumption.
  Qed.

  Lemma bind_macro_args_rel bs bs' : Forall2 avrel bs bs' -> forall r1 r2, rrel r1 r2 ->
    rrel (fst (bind_macro_args r1 bs)) (fst (bind_macro_args r2 bs')) /\
    nsrel (snd (bind_macro_args r1 bs)) (snd (bind_macro_args r2 bs')).
  Proof.
    induction 1 as [|[p v] [p' v'] bs bs' [Hp Hv] Hbs IH]; intros r1 r2 H; cbn [bind_macro_args]; [split; [exact H|constructor]|].
    cbn [fst snd] in Hp, Hv. subst p'.
    destruct v as [x|body fi|e], v' as [x'|body' fi'|e']; try contradiction.
    - subst x'. apply IH. apply rrel_add_symbol. exact H.
    - destruct Hv as [Hb Hf]. apply IH. apply rrel_add_code; assumption.
    - destruct (IH r1 r2 H) as [Hr Hn].
      destruct (bind_macro_args r1 bs) as [ra na], (bind_macro_args r2 bs') as [rb nb].
      cbn [fst snd] in *. split; [exact Hr|]. constructor; [constructor; exact Hv|exact Hn].
  Qed.

  Section Step.
    Variable gen : cgstate -> list ast -> res (cgstate * list node).
    Hypothesis Hgen : gen_rel gen.

    Lemma scoped_rel k s1 s2 pre1 pre2 b b' :
      cgrel s1 s2 -> asrel b b' ->
      (forall r1 r2, rrel r1 r2 -> rrel (fst (pre1 r1)) (fst (pre2 r2)) /\ nsrel (snd (pre1 r1)) (snd (pre2 r2))) ->
      res_rel grel (scoped gen k s1 pre1 b) (scoped gen k s2 pre2 b').
    Proof.
      intros Hs Hb Hpre. pose proof Hs as [Hr Hm]. unfold scoped.
      eapply res_rel_bind; [apply enter_scope_rel; exact Hr|].
      intros ra rb Hab. destruct (Hpre ra rb Hab) as [Hp Hn].
      destruct (pre1 ra) as [ra2 pn1], (pre2 rb) as [rb2 pn2]. cbn [fst snd] in Hp, Hn.
      eapply res_rel_bind; [apply Hgen; [apply cgrel_set_r; eassumption|exact Hb]|].
      intros [sa na] [sb nb] [[Hs' Hsm] Hn']. cbn [fst snd] in *.
      eapply res_rel_bind; [apply restore_scope_rel; exact Hs'|].
      intros ra3 rb3 H3. cbn [res_rel]. split; cbn [fst snd].
      - split; cbn [cg_set_r cg_r cg_macros]; auto.
      - constructor; [constructor|]. apply Forall2_app; [exact Hn|]. apply Forall2_app; [exact Hn'|].
        constructor; [constructor|constructor].
    Qed.

    Lemma plain_pre r1 r2 : rrel r1 r2 ->
      rrel (fst ((fun r : rstate => (r, @nil node)) r1)) (fst ((fun r : rstate => (r, @nil node)) r2)) /\
      nsrel (snd ((fun r : rstate => (r, @nil node)) r1)) (snd ((fun r : rstate => (r, @nil node)) r2)).
    Proof. intros H. cbn [fst snd]. split; [exact H|constructor]. Qed.

    Lemma for_loop_rel v b b' : asrel b b' -> forall n k s1 s2, cgrel s1 s2 ->
      res_rel grel (for_loop gen n k v b s1) (for_loop gen n k v b' s2).
    Proof.
      intros Hb. induction n as [|n IH]; intros k s1 s2 H; cbn [for_loop].
      - apply grel_nodes; [exact H|constructor].
      - apply seq_rel; [|intros sa sb Hab; apply IH; exact Hab].
        apply scoped_rel; auto. intros r1 r2 Hr. cbn [fst snd]. split; [exact Hr|].
        constructor; [constructor|constructor].
    Qed.

    Lemma data_nodes_rel k fi fi' es es' : Forall2 erel es es' -> T fi fi' ->
      nsrel (map (fun e => NData k e fi) es) (map (fun e => NData k e fi') es').
    Proof. intros H Hf. induction H; cbn [map]; constructor; auto. constructor; assumption. Qed.

    Lemma gen_one_rel s1 s2 a a' : cgrel s1 s2 -> arel a a' -> res_rel grel (gen_one w gen s1 a) (gen_one w gen s2 a').
    Proof.
      intros H Ha. pose proof H as [Hr Hm]. destruct Ha; cbn [gen_one].
      - (* ABlock *) apply Hgen; assumption.
      - (* ACompound *) apply scoped_rel; auto using plain_pre.
      - (* ALabel *) apply grel_nodes; [exact H|]. constructor; [constructor|constructor].
      - (* AText *) rewrite (get_table_rel T _ _ Hr). apply res_rel_bind_same; intros t _.
        apply grel_nodes; [exact H|]. constructor; [constructor; assumption|constructor].
      - (* AAscii *) apply grel_nodes; [exact H|]. constructor; [constructor|constructor].
      - (* AScope *) apply scoped_rel; auto using plain_pre.
      - (* AStarEq *) apply grel_nodes; [exact H|]. constructor; [constructor; assumption|constructor].
      - (* AAtEq *) apply grel_nodes; [exact H|]. constructor; [constructor; assumption|constructor].
      - (* AMap *) eapply res_rel_bind; [apply generate_map_rel; exact Hr|].
        intros ra rb Hab. apply grel_nodes; [apply cgrel_set_r; auto|constructor].
      - (* AIf none *) rewrite (if_condition_rel _ _ c c' Hr) by assumption. apply res_rel_bind_same; intros cond _.
        destruct cond; [apply Hgen; assumption|apply grel_nodes; [exact H|constructor]].
      - (* AIf some *) rewrite (if_condition_rel _ _ c c' Hr) by assumption. apply res_rel_bind_same; intros cond _.
        destruct cond; apply Hgen; assumption.
      - (* AMacro *) cbn [res_rel]. split; cbn [fst snd]; [|constructor].
        split; cbn [cg_r cg_macros]; [exact Hr|]. apply mac_set; cbn [md_params md_body]; auto.
      - (* AMacroApply *) pose proof (mac_get _ _ n Hm) as G.
        destruct (dict_get (cg_macros s1) n) as [md|], (dict_get (cg_macros s2) n) as [md'|]; try contradiction; [|reflexivity].
        destruct G as [Gp Gb]. rewrite Gp.
        eapply res_rel_bind; [apply eval_macro_args_rel; eassumption|]. intros bound bound' Hbound.
        apply scoped_rel; auto. intros r1 r2 Hr'. apply bind_macro_args_rel; assumption.
      - (* AData *) apply grel_nodes; [exact H|]. apply data_nodes_rel; assumption.
      - (* ATable *) apply res_rel_bind_same; intros t _. apply grel_nodes; [|constructor; [constructor|constructor]].
        apply cgrel_set_r; auto. apply rrel_set_table. exact Hr.
      - (* AIncludeIps *) rewrite (eval_raw_rel T w _ _ e e' Hr) by assumption.
        apply res_rel_bind_same; intros delta _. apply res_rel_bind_same; intros blocks _.
        apply grel_nodes; [exact H|]. constructor; [constructor|constructor].
      - (* AIncbin *) apply res_rel_bind_same; intros c _. apply grel_nodes; [exact H|]. constructor; [constructor|constructor].
      - (* ASymbol *) apply grel_nodes; [exact H|]. constructor; [constructor; assumption|constructor].
      - (* AAssign *) rewrite (eval_raw_rel T w _ _ e e' Hr) by assumption.
        apply res_rel_bind_same; intros v _. apply grel_nodes; [|constructor].
        apply cgrel_set_r; auto. apply rrel_add_symbol. exact Hr.
      - (* ACodeLookup *) pose proof (value_for_rel T _ _ n Hr) as G.
        destruct (value_for (cg_r s1) n) as [[x|body bfi]|k|], (value_for (cg_r s2) n) as [[x'|body' bfi']|k'|];
          cbn [res_rel svrel] in G; try contradiction; try reflexivity; try (subst; reflexivity).
        destruct G as [Gb _]. apply Hgen; assumption.
      - (* AStruct *) reflexivity.
      - (* AFor *) rewrite (eval_raw_rel T w _ _ lo lo' Hr), (eval_raw_rel T w _ _ hi hi' Hr) by assumption.
        apply res_rel_bind_same; intros from _. apply res_rel_bind_same; intros to _.
        apply for_loop_rel; assumption.
      - (* AOpcode *) destruct m; try (apply grel_nodes; [exact H|]; constructor; [constructor; [exact I|assumption]|constructor]);
          (destruct o as [e|], o' as [e'|]; cbn [TextLiftFiRel.oerel] in *; try contradiction; [|reflexivity];
           apply grel_nodes; [exact H|]; constructor; [constructor; assumption|constructor]).
    Qed.

    Lemma gen_list_rel body body' : asrel body body' -> forall s1 s2, cgrel s1 s2 ->
      res_rel grel (gen_list w gen s1 body) (gen_list w gen s2 body').
    Proof.
      induction 1 as [|a a' rest rest' Ha Hrest IH]; intros s1 s2 H; cbn [gen_list].
      - apply grel_nodes; [exact H|constructor].
      - apply (seq_rel _ _ (fun s => gen_list w gen s rest) (fun s => gen_list w gen s rest'));
          [apply gen_one_rel; assumption|]. intros sa sb Hab. apply IH. exact Hab.
    Qed.
    (** where code generation stops with the code-lookup NodeError ([code_gen_site]) *)
    Variables gsite gsite' : cgstate -> list ast -> option token.
    Hypothesis Hgsite : forall s1 s2 b b', cgrel s1 s2 -> asrel b b' -> oT (gsite s1 b) (gsite' s2 b').

    Lemma scoped_site_rel k s1 s2 pre1 pre2 b b' :
      cgrel s1 s2 -> asrel b b' ->
      (forall r1 r2, rrel r1 r2 -> rrel (fst (pre1 r1)) (fst (pre2 r2)) /\ nsrel (snd (pre1 r1)) (snd (pre2 r2))) ->
      oT (scoped_site gsite k s1 pre1 b) (scoped_site gsite' k s2 pre2 b').
    Proof.
      intros Hs Hb Hpre. pose proof Hs as [Hr Hm]. unfold scoped_site.
      pose proof (enter_scope_rel T (cg_r s1) (cg_r s2) k Hr) as HE.
      destruct (enter_scope (cg_r s1) k) as [ra| |], (enter_scope (cg_r s2) k) as [rb| |]; cbn [res_rel] in HE;
        try contradiction; try exact I.
      apply Hgsite; [|exact Hb]. apply cgrel_set_r; [exact Hs|]. apply (Hpre ra rb HE).
    Qed.

    Lemma for_site_rel v b b' : asrel b b' -> forall n k s1 s2, cgrel s1 s2 ->
      oT (for_site gen gsite n k v b s1) (for_site gen gsite' n k v b' s2).
    Proof.
      intros Hb. induction n as [|n IH]; intros k s1 s2 H; cbn [for_site]; [exact I|].
      assert (Hpre : forall r1 r2 : rstate, rrel r1 r2 ->
                rrel (fst ((fun r : rstate => (r, [NSymConst v k])) r1)) (fst ((fun r : rstate => (r, [NSymConst v k])) r2)) /\
                nsrel (snd ((fun r : rstate => (r, [NSymConst v k])) r1)) (snd ((fun r : rstate => (r, [NSymConst v k])) r2))).
      { intros r1 r2 Hr. cbn [fst snd]. split; [exact Hr|]. constructor; [constructor|constructor]. }
      pose proof (scoped_rel SInternal s1 s2 _ _ b b' H Hb Hpre) as HS.
      destruct (scoped gen SInternal s1 _ b) as [[sa na]| |], (scoped gen SInternal s2 _ b') as [[sb nb]| |];
        cbn [res_rel] in HS; try contradiction; try exact I.
      - apply IH. apply HS.
      - apply scoped_site_rel; assumption.
    Qed.

    Lemma gen_one_site_rel s1 s2 a a' : cgrel s1 s2 -> arel a a' ->
      oT (gen_one_site w gen gsite s1 a) (gen_one_site w gen gsite' s2 a').
    Proof.
      intros H Ha. pose proof H as [Hr Hm]. destruct Ha; cbn [gen_one_site]; try exact I.
      - apply Hgsite; assumption.
      - apply scoped_site_rel; auto using plain_pre.
      - apply scoped_site_rel; auto using plain_pre.
      - rewrite (if_condition_rel _ _ c c' Hr) by assumption.
        destruct (if_condition w (cg_r s2) c') as [[|]| |]; try exact I. apply Hgsite; assumption.
      - rewrite (if_condition_rel _ _ c c' Hr) by assumption.
        destruct (if_condition w (cg_r s2) c') as [[|]| |]; try exact I; apply Hgsite; assumption.
      - pose proof (mac_get _ _ n Hm) as G.
        destruct (dict_get (cg_macros s1) n) as [md|], (dict_get (cg_macros s2) n) as [md'|]; try contradiction; [|exact I].
        destruct G as [Gp Gb]. rewrite Gp.
        match goal with Hargs : Forall2 mrel _ _ |- _ => pose proof (eval_macro_args_rel _ _ Hr (md_params md') _ _ Hargs) as HA end.
        destruct (eval_macro_args w (cg_r s1) (md_params md') args) as [bound| |],
                 (eval_macro_args w (cg_r s2) (md_params md') args') as [bound'| |]; cbn [res_rel] in HA; try contradiction; try exact I.
        apply scoped_site_rel; auto. intros r1 r2 Hr'. apply bind_macro_args_rel; assumption.
      - pose proof (value_for_rel T _ _ n Hr) as G.
        destruct (value_for (cg_r s1) n) as [[x|body bfi]|k|], (value_for (cg_r s2) n) as [[x'|body' bfi']|k'|];
          cbn [res_rel svrel] in G; try contradiction; try exact I.
        + cbn [TextLiftFiRel.oT]. assumption.
        + apply Hgsite; [assumption|apply G].
      - rewrite (eval_raw_rel T w _ _ lo lo' Hr), (eval_raw_rel T w _ _ hi hi' Hr) by assumption.
        destruct (eval_raw w (cg_r s2) lo') as [from| |]; try exact I.
        destruct (eval_raw w (cg_r s2) hi') as [to| |]; try exact I.
        apply for_site_rel; assumption.
    Qed.

    Lemma gen_list_site_rel body body' : asrel body body' -> forall s1 s2, cgrel s1 s2 ->
      oT (gen_list_site w gen gsite s1 body) (gen_list_site w gen gsite' s2 body').
    Proof.
      induction 1 as [|a a' rest rest' Ha Hrest IH]; intros s1 s2 H; cbn [gen_list_site]; [exact I|].
      pose proof (gen_one_rel s1 s2 a a' H Ha) as HG.
      destruct (gen_one w gen s1 a) as [[sa na]| |], (gen_one w gen s2 a') as [[sb nb]| |]; cbn [res_rel] in HG;
        try contradiction; try exact I.
      - apply IH. apply HG.
      - apply gen_one_site_rel; assumption.
    Qed.
  End Step.

  Theorem code_gen_rel fuel : gen_rel (code_gen_fuel w fuel).
  Proof.
    induction fuel as [|f IH]; intros s1 s2 b b' H Hb; cbn [code_gen_fuel]; [reflexivity|].
    apply gen_list_rel; auto.
  Qed.

  Theorem code_gen_site_rel fuel : forall s1 s2 b b', cgrel s1 s2 -> asrel b b' ->
    oT (code_gen_site w fuel s1 b) (code_gen_site w fuel s2 b').
  Proof.
    induction fuel as [|f IH]; intros s1 s2 b b' H Hb; cbn [code_gen_site]; [exact I|].
    apply gen_list_site_rel; auto using code_gen_rel.
  Qed.

  (** ** assemble_program *)
  Definition aresrel (r r' : aresult) : Prop :=
    match r, r' with
    | AOk o fin, AOk o' fin' => outrel T o o' /\ rrel fin fin'
    | AScanError f e, AScanError f' e' => f = f' /\ e = e'
    | AParseError t, AParseError t' => oT t t'
    | AExc k s, AExc k' s' => k = k' /\ oT s s'
    | AFuel, AFuel => True
    | _, _ => False
    end.

  (** a state without stored code blocks is related to itself *)
  Lemma rrel_nocode r : Forall (fun s => s_code s = []) (r_scopes r) -> rrel r r.
  Proof.
    intros H. constructor; auto. induction H as [|s l Hs _ IH]; constructor; auto.
    constructor; auto. rewrite Hs. constructor.
  Qed.

  Lemma nocode_update l i f : (forall s, s_code s = [] -> s_code (f s) = []) ->
    Forall (fun s => s_code s = []) l -> Forall (fun s => s_code s = []) (list_update l i f).
  Proof. intros Hf H. revert i. induction H; intros [|i]; cbn [list_update]; constructor; auto. Qed.

  Lemma initial_resolver_nocode c r : initial_resolver w c = Ok r -> Forall (fun s => s_code s = []) (r_scopes r).
  Proof.
    unfold initial_resolver. destruct (resolver_init w) as [r0| |] eqn:E; cbn [bind]; try discriminate.
    assert (H0 : Forall (fun s => s_code s = []) (r_scopes r0)).
    { unfold resolver_init in E. destruct (w_builtin w LowRom); try discriminate.
      unfold set_position in E. destruct (get_bus w _); cbn [bind] in E; try discriminate.
      destruct (mk_addr _ _); cbn [bind] in E; try discriminate.
      destruct (addr_phys _) as [[p|]| |]; cbn [bind] in E; try discriminate; inversion E; subst;
        cbn [set_reloc set_pc r_scopes]; constructor; auto. }
    intros H. inversion H; subst; clear H.
    assert (H1 : forall defs r1, Forall (fun s => s_code s = []) (r_scopes r1) ->
              Forall (fun s => s_code s = []) (r_scopes (fold_left (fun r kv => add_symbol r (fst kv) (snd kv)) defs r1))).
    { induction defs as [|kv defs IH]; intros r1 H1; cbn [fold_left]; [exact H1|]. apply IH.
      unfold add_symbol, upd_scope. cbn [set_scopes r_scopes]. apply nocode_update; [|exact H1]. intros s Hs. exact Hs. }
    destruct (cf_rom c); cbn [set_rom r_scopes]; apply H1; exact H0.
  Qed.

  Theorem assemble_program_rel c prog prog' : asrel prog prog' ->
    aresrel (assemble_program w c prog) (assemble_program w c prog').
  Proof.
    intros Hp. unfold assemble_program.
    destruct (initial_resolver w c) as [r| |] eqn:E; [|cbn; auto|exact I].
    pose proof (rrel_nocode r (initial_resolver_nocode c r E)) as Hr.
    assert (Hs : cgrel {| cg_r := r; cg_macros := [] |} {| cg_r := r; cg_macros := [] |}) by (split; [exact Hr|constructor]).
    pose proof (code_gen_rel cg_depth _ _ prog prog' Hs Hp) as HG.
    destruct (code_gen_fuel w cg_depth _ prog) as [[s ns]| |], (code_gen_fuel w cg_depth _ prog') as [[s' ns']| |];
      cbn [res_rel] in HG; try contradiction;
      [|subst; cbn [aresrel]; split; [reflexivity|apply code_gen_site_rel; assumption]|exact I].
    destruct HG as [[Hcr _] Hns]. cbn [fst snd] in *.
    pose proof (assemble_nodes_rel T w ns ns' (cg_r s) (cg_r s') Hns Hcr) as HA.
    pose proof (nodes_site_rel T w ns ns' (cg_r s) (cg_r s') Hns Hcr) as HS.
    destruct (assemble_nodes w (cg_r s) ns) as [o| |], (assemble_nodes w (cg_r s') ns') as [o'| |];
      cbn [res_rel] in HA; try contradiction; [| |exact I].
    - cbn [aresrel]. split; [exact HA|apply HA].
    - subst. cbn [aresrel]. split; [reflexivity|].
      destruct (nodes_site w (cg_r s) ns) as [[k1 s1]|], (nodes_site w (cg_r s') ns') as [[k2 s2]|]; cbn [siterel] in HS;
        try contradiction; cbn; auto. apply HS.
  Qed.
End Gen.

Print Assumptions assemble_program_rel.
