(** Token-independence of the assembly, part 1: the relation.  A copy of the relation of
    Proofs/LocationTextParse.v with the two roles of tokens separated: EXPRESSION tokens must agree
    in type and value, [file_info] tokens are related by an arbitrary [T] (e.g. the full relation). *)
From Coq Require Import Arith Lia List Bool ZArith.
From A816 Require Import Model.Parser.
Open Scope nat_scope.

Section Rel.
  Variable T : token -> token -> Prop.

  Definition oT (o o' : option token) : Prop :=
    match o, o' with Some x, Some x' => T x x' | None, None => True | _, _ => False end.

  (** ** ASTs equal up to their tokens *)
  Definition enrel (e e' : enode) : Prop :=
    en_kind e = en_kind e' /\ t_type (en_tok e') = t_type (en_tok e) /\ t_value (en_tok e') = t_value (en_tok e).
  Definition erel : expr -> expr -> Prop := Forall2 enrel.
  Definition oerel (o o' : option expr) : Prop :=
    match o, o' with Some x, Some x' => erel x x' | None, None => True | _, _ => False end.

  Inductive arel : ast -> ast -> Prop :=
  | R_Block b b' fi fi' : Forall2 arel b b' -> T fi fi' -> arel (ABlock b fi) (ABlock b' fi')
  | R_Compound b b' fi fi' : Forall2 arel b b' -> T fi fi' -> arel (ACompound b fi) (ACompound b' fi')
  | R_Label n fi fi' : T fi fi' -> arel (ALabel n fi) (ALabel n fi')
  | R_Text s fi fi' : T fi fi' -> arel (AText s fi) (AText s fi')
  | R_Ascii s fi fi' : T fi fi' -> arel (AAscii s fi) (AAscii s fi')
  | R_Scope n b b' bf bf' fi fi' : Forall2 arel b b' -> T bf bf' -> T fi fi' ->
      arel (AScope n b bf fi) (AScope n b' bf' fi')
  | R_StarEq e e' fi fi' : erel e e' -> T fi fi' -> arel (AStarEq e fi) (AStarEq e' fi')
  | R_AtEq e e' fi fi' : erel e e' -> T fi fi' -> arel (AAtEq e fi) (AAtEq e' fi')
  | R_Map a fi fi' : T fi fi' -> arel (AMap a fi) (AMap a fi')
  | R_If_none c c' th th' tf tf' fi fi' : erel c c' -> Forall2 arel th th' -> T tf tf' -> T fi fi' ->
      arel (AIf c th tf None fi) (AIf c' th' tf' None fi')
  | R_If_some c c' th th' tf tf' eb eb' ef ef' fi fi' :
      erel c c' -> Forall2 arel th th' -> T tf tf' -> Forall2 arel eb eb' -> T ef ef' -> T fi fi' ->
      arel (AIf c th tf (Some (eb, ef)) fi) (AIf c' th' tf' (Some (eb', ef')) fi')
  | R_Macro n ps b b' bf bf' fi fi' : Forall2 arel b b' -> T bf bf' -> T fi fi' ->
      arel (AMacro n ps b bf fi) (AMacro n ps b' bf' fi')
  | R_MacroApply n args args' fi fi' : Forall2 mrel args args' -> T fi fi' ->
      arel (AMacroApply n args fi) (AMacroApply n args' fi')
  | R_Data k es es' fi fi' : Forall2 erel es es' -> T fi fi' -> arel (AData k es fi) (AData k es' fi')
  | R_Table p fi fi' : T fi fi' -> arel (ATable p fi) (ATable p fi')
  | R_IncludeIps p e e' fi fi' : erel e e' -> T fi fi' -> arel (AIncludeIps p e fi) (AIncludeIps p e' fi')
  | R_Incbin p fi fi' : T fi fi' -> arel (AIncbin p fi) (AIncbin p fi')
  | R_Symbol n e e' fi fi' : erel e e' -> T fi fi' -> arel (ASymbol n e fi) (ASymbol n e' fi')
  | R_Assign n e e' fi fi' : erel e e' -> T fi fi' -> arel (AAssign n e fi) (AAssign n e' fi')
  | R_CodeLookup n fi fi' : T fi fi' -> arel (ACodeLookup n fi) (ACodeLookup n fi')
  | R_Struct n fs fi fi' : T fi fi' -> arel (AStruct n fs fi) (AStruct n fs fi')
  | R_For v lo lo' hi hi' b b' bf bf' fi fi' :
      erel lo lo' -> erel hi hi' -> Forall2 arel b b' -> T bf bf' -> T fi fi' ->
      arel (AFor v lo hi b bf fi) (AFor v lo' hi' b' bf' fi')
  | R_Opcode m op sz o o' idx fi fi' : oerel o o' -> T fi fi' ->
      arel (AOpcode m op sz o idx fi) (AOpcode m op sz o' idx fi')
  with mrel : (expr + (list ast * token)) -> (expr + (list ast * token)) -> Prop :=
  | M_expr e e' : erel e e' -> mrel (inl e) (inl e')
  | M_code b b' fi fi' : Forall2 arel b b' -> T fi fi' -> mrel (inr (b, fi)) (inr (b', fi')).

  Definition asrel : list ast -> list ast -> Prop := Forall2 arel.
  Definition msrel : margs -> margs -> Prop := Forall2 mrel.
End Rel.
