(** Token-independence of the assembly, part 2: a copy of Proofs/LocationTextSim.v for the relation
    of Proofs/TextLiftFiRel.v (expression tokens agree in type and value, file_info tokens arbitrary). *)
(** C17 (composition), part L3a — the resolver, the nodes and the passes never look at token
    positions: a simulation for "same program, its tokens replaced by [T]-related tokens" ([T]
    preserves type and value).  Tokens live in expressions, in the file_info of nodes, and in the
    code blocks stored in scopes. *)
From Coq Require Import ZArith List Lia Bool Arith.
From A816 Require Import Model.Assemble Proofs.BusProofs Proofs.EvalCongr Proofs.NonInterference
     Proofs.TextLiftFiRel.
Open Scope Z_scope.

Section Sim.
  Variable T : token -> token -> Prop.

  
  Notation arel := (arel T). Notation asrel := (asrel T). Notation oT := (oT T).

  (** ** Expressions *)
  Lemma enrel_kind e e' : enrel e e' -> en_kind e' = en_kind e.
  Proof. intros [H _]. symmetry. exact H. Qed.
  Lemma enrel_val e e' : enrel e e' -> en_val e' = en_val e.
  Proof. intros [_ [_ H]]. exact H. Qed.
  Lemma enrel_type e e' : enrel e e' -> en_type e' = en_type e.
  Proof. intros [_ [H _]]. exact H. Qed.

  Definition prel2 (x y : list enode * list enode) : Prop := erel (fst x) (fst y) /\ erel (snd x) (snd y).

  Lemma stack_prec_rel p e e' : enrel e e' -> stack_prec p e' = stack_prec p e.
  Proof. intros H. unfold stack_prec, is_un. rewrite (enrel_kind _ _ H), (enrel_val _ _ H). reflexivity. Qed.

  Lemma pop_tighter_rel p cur : forall stack stack' out out', erel stack stack' -> erel out out' ->
    res_rel prel2 (pop_tighter p cur stack out) (pop_tighter p cur stack' out').
  Proof.
    induction stack as [|top rest IH]; intros stack' out out' Hs Ho; inversion Hs; subst; cbn [pop_tighter].
    - split; cbn [fst snd]; [constructor|exact Ho].
    - match goal with H : enrel top ?y |- _ => rewrite (stack_prec_rel p _ _ H), (enrel_val _ _ H); rename H into Htop end.
      apply res_rel_bind_same; intros tp _.
      destruct ((tp <=? cur) && negb (str_eqb (en_val top) s_lparen)).
      + apply IH; [assumption|]. apply Forall2_app; [exact Ho|]. constructor; [exact Htop|constructor].
      + split; cbn [fst snd]; [constructor; assumption|exact Ho].
  Qed.

  Lemma pop_to_lparen_rel : forall stack stack' out out', erel stack stack' -> erel out out' ->
    res_rel prel2 (pop_to_lparen stack out) (pop_to_lparen stack' out').
  Proof.
    induction stack as [|top rest IH]; intros stack' out out' Hs Ho; inversion Hs; subst; cbn [pop_to_lparen]; [reflexivity|].
    match goal with H : enrel top ?y |- _ => rewrite (enrel_val _ _ H); rename H into Htop end.
    destruct (str_eqb (en_val top) s_lparen).
    - split; cbn [fst snd]; assumption.
    - apply IH; [assumption|]. apply Forall2_app; [exact Ho|]. constructor; [exact Htop|constructor].
  Qed.

  Lemma sy_loop_rel p : forall nodes nodes' stack stack' out out',
    erel nodes nodes' -> erel stack stack' -> erel out out' ->
    res_rel erel (sy_loop p nodes stack out) (sy_loop p nodes' stack' out').
  Proof.
    induction nodes as [|e r IH]; intros nodes' stack stack' out out' Hn Hs Ho; inversion Hn; subst; cbn [sy_loop].
    - apply Forall2_app; assumption.
    - match goal with H : enrel e ?y |- _ =>
        rewrite (enrel_kind _ _ H), (enrel_val _ _ H), (enrel_type _ _ H); rename H into He end.
      destruct (en_kind e).
      + apply IH; auto. apply Forall2_app; [exact Ho|]. constructor; [exact He|constructor].
      + apply res_rel_bind_same; intros cur _.
        eapply res_rel_bind; [apply pop_tighter_rel; eassumption|].
        intros so so' [H1 H2]. apply IH; auto. constructor; assumption.
      + apply IH; auto. constructor; assumption.
      + destruct (en_type e); try (apply IH; auto; fail).
        * apply IH; auto. constructor; assumption.
        * eapply res_rel_bind; [apply pop_to_lparen_rel; eassumption|].
          intros so so' [H1 H2]. apply IH; auto.
  Qed.

  Lemma eval_rpn_rel ev : forall rpn rpn' st, erel rpn rpn' -> eval_rpn ev rpn st = eval_rpn ev rpn' st.
  Proof.
    induction rpn as [|e r IH]; intros rpn' st H; inversion H; subst; cbn [eval_rpn]; [reflexivity|].
    match goal with H : enrel e ?y |- _ => rename H into He end.
    unfold eval_binop, op_is. rewrite (enrel_kind _ _ He), (enrel_val _ _ He), (enrel_type _ _ He).
    destruct (en_type e); try (destruct (en_kind e); try (destruct st as [|v1 [|v2 st']]); try apply bind_ext; auto; fail);
      apply bind_ext; auto.
  Qed.

  Lemma eval_expression_rel p ev e e' : erel e e' -> eval_expression p ev e = eval_expression p ev e'.
  Proof.
    intros H. unfold eval_expression, shunting_yard.
    pose proof (sy_loop_rel p e e' [] [] [] [] H (Forall2_nil _) (Forall2_nil _)) as HS.
    destruct (sy_loop p e [] []) as [rpn| |], (sy_loop p e' [] []) as [rpn'| |]; cbn [res_rel bind] in *;
      try contradiction; try congruence. apply eval_rpn_rel. exact HS.
  Qed.

  (** ** States: equal except for the tokens inside stored code blocks *)
  Definition coderel (kv kv' : str * (list ast * token)) : Prop :=
    fst kv = fst kv' /\ asrel (fst (snd kv)) (fst (snd kv')) /\ T (snd (snd kv)) (snd (snd kv')).

  Record screl (s1 s2 : scope) : Prop := {
    sr_parent : s_parent s1 = s_parent s2;
    sr_kind : s_kind s1 = s_kind s2;
    sr_sym : s_symbols s1 = s_symbols s2;
    sr_code : Forall2 coderel (s_code s1) (s_code s2);
    sr_lab : s_labels s1 = s_labels s2;
    sr_table : s_table s1 = s_table s2
  }.

  Record rrel (r1 r2 : rstate) : Prop := {
    rr_scopes : Forall2 screl (r_scopes r1) (r_scopes r2);
    rr_cur : r_cur r1 = r_cur r2;
    rr_last : r_last r1 = r_last r2;
    rr_pc : r_pc r1 = r_pc r2;
    rr_reloc : r_reloc r1 = r_reloc r2;
    rr_bus : r_bus r1 = r_bus r2;
    rr_rom : r_rom r1 = r_rom r2
  }.

  Definition svrel (v v' : sval) : Prop :=
    match v, v' with
    | VInt a, VInt b => a = b
    | VCode b fi, VCode b' fi' => asrel b b' /\ T fi fi'
    | _, _ => False
    end.

  (** dictionaries of code blocks *)
  Lemma code_get d d' q : Forall2 coderel d d' ->
    match dict_get d q, dict_get d' q with
    | Some c, Some c' => asrel (fst c) (fst c') /\ T (snd c) (snd c')
    | None, None => True
    | _, _ => False
    end.
  Proof.
    induction 1 as [|[k c] [k' c'] l l' (Hk & Hb & Hf) _ IH]; cbn [dict_get]; [exact I|].
    cbn [fst snd] in *. subst k'. destruct (str_eqb q k); [split; assumption|exact IH].
  Qed.
  Lemma code_mem d d' q : Forall2 coderel d d' -> dict_mem d q = dict_mem d' q.
  Proof.
    intros H. unfold dict_mem. pose proof (code_get d d' q H) as G.
    destruct (dict_get d q), (dict_get d' q); try contradiction; reflexivity.
  Qed.
  Lemma code_set d d' k c c' : Forall2 coderel d d' -> asrel (fst c) (fst c') -> T (snd c) (snd c') ->
    Forall2 coderel (dict_set d k c) (dict_set d' k c').
  Proof.
    intros H Hb Hf. induction H as [|[k1 c1] [k2 c2] l l' (Hk & Hb1 & Hf1) Hl IH]; cbn [dict_set].
    - constructor; [|constructor]. split; [reflexivity|split; assumption].
    - cbn [fst snd] in *. subst k2. destruct (str_eqb k k1).
      + constructor; [|assumption]. split; [reflexivity|split; assumption].
      + constructor; [|exact IH]. split; [reflexivity|split; assumption].
  Qed.

  Lemma rrel_set_cur r1 r2 c : rrel r1 r2 -> rrel (set_cur r1 c) (set_cur r2 c).
  Proof. intros []; constructor; auto. Qed.
  Lemma rrel_set_cur_last r1 r2 c l : rrel r1 r2 -> rrel (set_cur_last r1 c l) (set_cur_last r2 c l).
  Proof. intros []; constructor; auto. Qed.
  Lemma rrel_set_pc r1 r2 p : rrel r1 r2 -> rrel (set_pc r1 p) (set_pc r2 p).
  Proof. intros []; constructor; auto. Qed.
  Lemma rrel_set_reloc r1 r2 a : rrel r1 r2 -> rrel (set_reloc r1 a) (set_reloc r2 a).
  Proof. intros []; constructor; auto. Qed.
  Lemma rrel_set_bus r1 r2 b : rrel r1 r2 -> rrel (set_bus r1 b) (set_bus r2 b).
  Proof. intros []; constructor; auto. Qed.
  Lemma rrel_set_rom r1 r2 b : rrel r1 r2 -> rrel (set_rom r1 b) (set_rom r2 b).
  Proof. intros []; constructor; auto. Qed.
  Lemma rrel_reset r1 r2 : rrel r1 r2 -> rrel (resolver_reset r1) (resolver_reset r2).
  Proof. intros H. unfold resolver_reset. apply rrel_set_pc, rrel_set_cur_last, H. Qed.

  Lemma rrel_upd r1 r2 i f g :
    (forall a b, screl a b -> screl (f a) (g b)) -> rrel r1 r2 -> rrel (upd_scope r1 i f) (upd_scope r2 i g).
  Proof.
    intros Hfg []; constructor; auto. cbn [upd_scope set_scopes r_scopes]. apply Forall2_list_update; auto.
  Qed.

  Lemma screl_add_symbol n v a b : screl a b -> screl (scope_add_symbol n v a) (scope_add_symbol n v b).
  Proof. intros []; constructor; cbn [scope_add_symbol s_parent s_kind s_code s_table s_symbols s_labels]; congruence || auto. Qed.
  Lemma screl_add_label n v a b : screl a b -> screl (scope_add_label n v a) (scope_add_label n v b).
  Proof. intros []; constructor; cbn [scope_add_label s_parent s_kind s_code s_table s_symbols s_labels]; congruence || auto. Qed.
  Lemma screl_add_code n c c' a b : asrel (fst c) (fst c') -> T (snd c) (snd c') -> screl a b ->
    screl (scope_add_code n c a) (scope_add_code n c' b).
  Proof.
    intros Hb Hf []; constructor; cbn [scope_add_code s_parent s_kind s_code s_table s_symbols s_labels]; auto.
    apply code_set; assumption.
  Qed.
  Lemma screl_set_table t a b : screl a b -> screl (scope_set_table t a) (scope_set_table t b).
  Proof. intros []; constructor; cbn [scope_set_table s_parent s_kind s_code s_table s_symbols s_labels]; congruence || auto. Qed.

  Lemma rrel_add_symbol r1 r2 n v : rrel r1 r2 -> rrel (add_symbol r1 n v) (add_symbol r2 n v).
  Proof. intros H. unfold add_symbol. rewrite (rr_cur _ _ H). apply rrel_upd; auto using screl_add_symbol. Qed.
  Lemma rrel_add_label r1 r2 n v : rrel r1 r2 -> rrel (add_label r1 n v) (add_label r2 n v).
  Proof. intros H. unfold add_label. rewrite (rr_cur _ _ H). apply rrel_upd; auto using screl_add_label. Qed.
  Lemma rrel_add_code r1 r2 n c c' : asrel (fst c) (fst c') -> T (snd c) (snd c') -> rrel r1 r2 ->
    rrel (add_code r1 n c) (add_code r2 n c').
  Proof. intros Hb Hf H. unfold add_code. rewrite (rr_cur _ _ H). apply rrel_upd; auto using screl_add_code. Qed.
  Lemma rrel_set_table r1 r2 t :
    rrel r1 r2 -> rrel (upd_scope r1 (r_cur r1) (scope_set_table t)) (upd_scope r2 (r_cur r2) (scope_set_table t)).
  Proof. intros H. rewrite (rr_cur _ _ H). apply rrel_upd; auto using screl_set_table. Qed.

  (** ** Lookups *)
  Lemma scope_getitem_rel s1 s2 q : screl s1 s2 -> res_rel svrel (scope_getitem s1 q) (scope_getitem s2 q).
  Proof.
    intros H. unfold scope_getitem. pose proof (code_get _ _ q (sr_code _ _ H)) as G. rewrite (sr_sym _ _ H).
    destruct (dict_get (s_code s1) q) as [[b fi]|], (dict_get (s_code s2) q) as [[b' fi']|]; try contradiction.
    - exact G.
    - destruct (dict_get (s_symbols s2) q); cbn; auto.
  Qed.

  Lemma value_for_fuel_rel sc1 sc2 q : Forall2 screl sc1 sc2 -> forall fuel i,
    res_rel svrel (value_for_fuel sc1 fuel i q) (value_for_fuel sc2 fuel i q).
  Proof.
    intros H fuel; induction fuel as [|fuel IH]; intros i; [exact I|]. cbn [value_for_fuel].
    pose proof (Forall2_nth_error _ _ _ H i) as Hi.
    destruct (nth_error sc1 i) as [s1|], (nth_error sc2 i) as [s2|]; try contradiction; [|reflexivity].
    rewrite (sr_parent _ _ Hi), (sr_sym _ _ Hi), (code_mem _ _ q (sr_code _ _ Hi)).
    destruct (s_parent s2); [|apply scope_getitem_rel; exact Hi].
    destruct (dict_mem (s_symbols s2) q || dict_mem (s_code s2) q); [apply scope_getitem_rel; exact Hi|apply IH].
  Qed.

  Lemma value_for_rel r1 r2 q : rrel r1 r2 -> res_rel svrel (value_for r1 q) (value_for r2 q).
  Proof. intros H. unfold value_for. rewrite (rr_cur _ _ H). apply value_for_fuel_rel. apply (rr_scopes _ _ H). Qed.

  Lemma env_of_rel r1 r2 q : rrel r1 r2 -> env_of r1 q = env_of r2 q.
  Proof.
    intros H. unfold env_of. pose proof (value_for_rel r1 r2 q H) as G.
    destruct (value_for r1 q) as [[v|b fi]|k|], (value_for r2 q) as [[v'|b' fi']|k'|]; cbn [res_rel svrel] in G;
      try contradiction; congruence.
  Qed.

  Lemma eval_raw_rel w r1 r2 e e' : rrel r1 r2 -> erel e e' -> eval_raw w r1 e = eval_raw w r2 e'.
  Proof.
    intros H He. unfold eval_raw. rewrite <- (eval_expression_rel _ _ e e' He).
    apply eval_expression_congr. apply Forall_forall. intros t _ _. apply env_of_rel. exact H.
  Qed.
  Lemma get_value_rel w r1 r2 e e' : rrel r1 r2 -> erel e e' -> get_value w r1 e = get_value w r2 e'.
  Proof. intros H He. unfold get_value. rewrite (eval_raw_rel w r1 r2 e e' H He). reflexivity. Qed.

  Lemma get_bus_rel w r1 r2 : rrel r1 r2 -> get_bus w r1 = get_bus w r2.
  Proof. intros H. unfold get_bus. rewrite (rr_bus _ _ H), (rr_rom _ _ H). reflexivity. Qed.

  Lemma get_table_fuel_rel sc1 sc2 : Forall2 screl sc1 sc2 -> forall fuel i,
    get_table_fuel sc1 fuel i = get_table_fuel sc2 fuel i.
  Proof.
    intros H fuel; induction fuel as [|fuel IH]; intros i; [reflexivity|]. cbn [get_table_fuel].
    pose proof (Forall2_nth_error _ _ _ H i) as Hi.
    destruct (nth_error sc1 i) as [s1|], (nth_error sc2 i) as [s2|]; try contradiction; [|reflexivity].
    rewrite (sr_parent _ _ Hi), (sr_table _ _ Hi).
    destruct (s_table s2); [reflexivity|]. destruct (s_parent s2); [|reflexivity]. apply IH.
  Qed.
  Lemma get_table_rel r1 r2 : rrel r1 r2 -> Resolver.get_table r1 = Resolver.get_table r2.
  Proof. intros H. unfold Resolver.get_table. rewrite (rr_cur _ _ H). apply get_table_fuel_rel. apply (rr_scopes _ _ H). Qed.

  (** ** Scope moves *)
  Lemma use_next_scope_rel r1 r2 : rrel r1 r2 -> res_rel rrel (use_next_scope r1) (use_next_scope r2).
  Proof.
    intros H. unfold use_next_scope. rewrite (rr_last _ _ H).
    pose proof (Forall2_nth_error _ _ _ (rr_scopes _ _ H) (S (r_last r2))) as Hi.
    destruct (nth_error (r_scopes r1) _), (nth_error (r_scopes r2) _); try contradiction; cbn [res_rel]; auto.
    apply rrel_set_cur_last; auto.
  Qed.

  Lemma append_scope_rel r1 r2 k : rrel r1 r2 -> rrel (append_scope r1 k) (append_scope r2 k).
  Proof.
    intros H. pose proof H as [Hs Hc Hl Hp Hr Hb Hm]. constructor; auto.
    unfold append_scope. cbn [set_scopes r_scopes]. apply Forall2_app; [exact Hs|].
    constructor; [|constructor]. rewrite Hc. constructor; cbn [new_scope s_parent s_kind s_symbols s_code s_labels s_table]; auto.
  Qed.
  Lemma enter_scope_rel r1 r2 k : rrel r1 r2 -> res_rel rrel (enter_scope r1 k) (enter_scope r2 k).
  Proof. intros H. unfold enter_scope. apply use_next_scope_rel, append_scope_rel; auto. Qed.

  Lemma screl_export name c : forall a b, screl a b -> screl (export_into name c a) (export_into name c b).
  Proof.
    unfold export_into. induction c as [|kv c IH]; intros a b H; cbn [fold_left]; [exact H|].
    apply IH. apply screl_add_symbol. exact H.
  Qed.

  Lemma restore_scope_rel r1 r2 e : rrel r1 r2 -> res_rel rrel (restore_scope r1 e) (restore_scope r2 e).
  Proof.
    intros H. unfold restore_scope. rewrite (rr_cur _ _ H).
    pose proof (Forall2_nth_error _ _ _ (rr_scopes _ _ H) (r_cur r2)) as Hi.
    destruct (nth_error (r_scopes r1) _) as [s1|], (nth_error (r_scopes r2) _) as [s2|]; try contradiction;
      cbn [res_rel]; auto.
    rewrite (sr_parent _ _ Hi), (sr_kind _ _ Hi), (sr_sym _ _ Hi).
    destruct (s_parent s2) as [p|]; cbn [res_rel]; auto.
    apply rrel_set_cur. destruct (s_kind s2); auto. destruct e; auto.
    apply rrel_upd; auto. intros a b Hab. apply screl_export. exact Hab.
  Qed.

  Lemma set_position_rel w r1 r2 v : rrel r1 r2 -> res_rel rrel (set_position w r1 v) (set_position w r2 v).
  Proof.
    intros H. unfold set_position. rewrite (get_bus_rel w r1 r2 H).
    apply res_rel_bind_same; intros b _. apply res_rel_bind_same; intros a _. apply res_rel_bind_same; intros p _.
    cbn [res_rel]. apply rrel_set_reloc. destruct p; auto using rrel_set_pc.
  Qed.

  Lemma generate_map_rel r1 r2 a : rrel r1 r2 -> res_rel rrel (generate_map r1 a) (generate_map r2 a).
  Proof.
    intros H. unfold generate_map. rewrite (rr_bus _ _ H).
    destruct (ma_identifier a) as [id|]; [|reflexivity].
    destruct (ma_bank_range a) as [[lo [hi|]]|]; try reflexivity;
    destruct (ma_addr_range a) as [ar|]; try reflexivity;
    destruct (ma_mask a) as [[mask [mh|]]|]; try reflexivity.
    destruct (ma_mirror_bank_range a) as [[m0 [m1|]]|].
    - apply res_rel_bind_same; intros b _. cbn [res_rel]. apply rrel_set_bus, H.
    - destruct (m0 =? 0); [|reflexivity].
      apply res_rel_bind_same; intros b _. cbn [res_rel]. apply rrel_set_bus, H.
    - apply res_rel_bind_same; intros b _. cbn [res_rel]. apply rrel_set_bus, H.
  Qed.

  (** ** Nodes *)
  Inductive ndrel : node -> node -> Prop :=
  | N_Label n : ndrel (NLabel n) (NLabel n)
  | N_Symbol n e e' ip : erel e e' -> ndrel (NSymbol n e ip) (NSymbol n e' ip)
  | N_SymConst n k : ndrel (NSymConst n k) (NSymConst n k)
  | N_Binary p c : ndrel (NBinary p c) (NBinary p c)
  | N_Data k e e' fi fi' : erel e e' -> T fi fi' -> ndrel (NData k e fi) (NData k e' fi')
  | N_Opcode op m i o o' sz fi fi' : oerel o o' -> T fi fi' -> ndrel (NOpcode op m i o sz fi) (NOpcode op m i o' sz fi')
  | N_CodePos e e' fi fi' : erel e e' -> T fi fi' -> ndrel (NCodePos e fi) (NCodePos e' fi')
  | N_Reloc e e' fi fi' : erel e e' -> T fi fi' -> ndrel (NReloc e fi) (NReloc e' fi')
  | N_Ips b : ndrel (NIps b) (NIps b)
  | N_Scope : ndrel NScope NScope
  | N_Pop : ndrel NPop NPop
  | N_Table : ndrel NTable NTable
  | N_Text enc fi fi' : T fi fi' -> ndrel (NText enc fi) (NText enc fi')
  | N_Ascii s : ndrel (NAscii s) (NAscii s).

  Definition nsrel : list node -> list node -> Prop := Forall2 ndrel.

  Lemma ndrel_is_symbol n n' : ndrel n n' -> is_symbol_node n = is_symbol_node n'.
  Proof. intros []; reflexivity. Qed.
  Lemma ndrel_is_label n n' : ndrel n n' -> is_label_or_binary n = is_label_or_binary n'.
  Proof. intros []; reflexivity. Qed.
  Lemma ndrel_is_codepos n n' : ndrel n n' -> is_codepos n = is_codepos n'.
  Proof. intros []; reflexivity. Qed.
  Lemma ndrel_fi n n' : ndrel n n' -> oT (node_fi n) (node_fi n').
  Proof. intros []; cbn [node_fi TextLiftFiRel.oT]; auto. Qed.

  Definition pr {X} (x y : rstate * X) : Prop := rrel (fst x) (fst y) /\ snd x = snd y.

  Lemma operand_value_rel w r1 r2 o o' : rrel r1 r2 -> oerel o o' -> operand_value w r1 o = operand_value w r2 o'.
  Proof.
    intros H Ho. destruct o, o'; cbn [operand_value TextLiftFiRel.oerel] in *; try contradiction; [|reflexivity].
    rewrite (get_value_rel w r1 r2 _ _ H Ho). reflexivity.
  Qed.
  Lemma opcode_length_rel w r1 r2 op m i o o' sz : rrel r1 r2 -> oerel o o' ->
    opcode_length w r1 op m i o sz = opcode_length w r2 op m i o' sz.
  Proof. intros H Ho. unfold opcode_length. rewrite (operand_value_rel w r1 r2 o o' H Ho). reflexivity. Qed.
  Lemma opcode_emit_rel w r1 r2 op m i o o' sz : rrel r1 r2 -> oerel o o' ->
    opcode_emit w r1 op m i o sz = opcode_emit w r2 op m i o' sz.
  Proof.
    intros H Ho. unfold opcode_emit, rel_emit, dummy_rc.
    rewrite (operand_value_rel w r1 r2 o o' H Ho), (get_bus_rel w r1 r2 H), (rr_reloc _ _ H), (rr_pc _ _ H).
    reflexivity.
  Qed.

  Definition sym_scope (r : rstate) (in_parent : bool) : rstate :=
    if in_parent
    then match nth_error (r_scopes r) (r_cur r) with
         | Some s => match s_parent s with Some p => set_cur r p | None => r end
         | None => r
         end
    else r.
  Lemma sym_scope_rel r1 r2 ip : rrel r1 r2 -> rrel (sym_scope r1 ip) (sym_scope r2 ip).
  Proof.
    intros H. unfold sym_scope. destruct ip; auto. rewrite (rr_cur _ _ H).
    pose proof (Forall2_nth_error _ _ _ (rr_scopes _ _ H) (r_cur r2)) as Hi.
    destruct (nth_error (r_scopes r1) _) as [s1|], (nth_error (r_scopes r2) _) as [s2|]; try contradiction; auto.
    rewrite (sr_parent _ _ Hi). destruct (s_parent s2); auto using rrel_set_cur.
  Qed.
  Lemma pc_after_symbol w r name e ip a :
    pc_after w r (NSymbol name e ip) a = (do v <- eval_raw w (sym_scope r ip) e; Ok (add_symbol r name v, a)).
  Proof. reflexivity. Qed.

  Lemma pc_after_rel w r1 r2 n n' a : ndrel n n' -> rrel r1 r2 -> res_rel pr (pc_after w r1 n a) (pc_after w r2 n' a).
  Proof.
    intros Hn H. destruct Hn.
    - cbn [pc_after res_rel]. split; cbn [fst snd]; auto using rrel_add_label.
    - rewrite !pc_after_symbol. rewrite (eval_raw_rel w _ _ e e' (sym_scope_rel r1 r2 ip H)) by assumption.
      apply res_rel_bind_same; intros v _. split; cbn [fst snd]; auto using rrel_add_symbol.
    - cbn [pc_after res_rel]. split; cbn [fst snd]; auto using rrel_add_symbol.
    - cbn [pc_after]. apply res_rel_bind_same; intros a' _. split; cbn [fst snd]; auto using rrel_add_symbol, rrel_add_label.
    - cbn [pc_after]. apply res_rel_bind_same; intros a' _. split; cbn [fst snd]; auto.
    - cbn [pc_after]. rewrite (opcode_length_rel w r1 r2 op m i o o' sz H) by assumption.
      apply res_rel_bind_same; intros len _. apply res_rel_bind_same; intros a' _. split; cbn [fst snd]; auto.
    - cbn [pc_after]. rewrite (get_value_rel w r1 r2 e e' H) by assumption. rewrite (get_bus_rel w r1 r2 H).
      apply res_rel_bind_same; intros v _. apply res_rel_bind_same; intros b _. apply res_rel_bind_same; intros a' _.
      split; cbn [fst snd]; auto.
    - cbn [pc_after]. rewrite (get_value_rel w r1 r2 e e' H) by assumption. rewrite (get_bus_rel w r1 r2 H).
      apply res_rel_bind_same; intros v _. apply res_rel_bind_same; intros b _. apply res_rel_bind_same; intros a' _.
      split; cbn [fst snd]; auto.
    - cbn [pc_after res_rel]. split; cbn [fst snd]; auto.
    - cbn [pc_after]. eapply res_rel_bind; [apply use_next_scope_rel; exact H|]. intros ra rb Hab. split; cbn [fst snd]; auto.
    - cbn [pc_after]. eapply res_rel_bind; [apply restore_scope_rel; exact H|]. intros ra rb Hab. split; cbn [fst snd]; auto.
    - cbn [pc_after res_rel]. split; cbn [fst snd]; auto.
    - cbn [pc_after]. apply res_rel_bind_same; intros bs _. apply res_rel_bind_same; intros a' _. split; cbn [fst snd]; auto.
    - cbn [pc_after]. apply res_rel_bind_same; intros a' _. split; cbn [fst snd]; auto.
  Qed.

  Lemma node_emit_rel w r1 r2 n n' : ndrel n n' -> rrel r1 r2 -> res_rel pr (node_emit w r1 n) (node_emit w r2 n').
  Proof.
    intros Hn H. destruct Hn; cbn [node_emit];
      try (cbn [res_rel]; split; cbn [fst snd]; auto; fail).
    - rewrite (get_value_rel w r1 r2 e e' H) by assumption. apply res_rel_bind_same; intros v _. split; cbn [fst snd]; auto.
    - rewrite (opcode_emit_rel w r1 r2 op m i o o' sz H) by assumption.
      apply res_rel_bind_same; intros bs _. split; cbn [fst snd]; auto.
    - rewrite (get_value_rel w r1 r2 e e' H) by assumption. apply res_rel_bind_same; intros v _.
      eapply res_rel_bind; [apply set_position_rel; exact H|]. intros ra rb Hab. split; cbn [fst snd]; auto.
    - rewrite (get_value_rel w r1 r2 e e' H) by assumption. apply res_rel_bind_same; intros v _.
      eapply res_rel_bind; [apply set_position_rel; exact H|]. intros ra rb Hab. split; cbn [fst snd]; auto.
    - eapply res_rel_bind; [apply use_next_scope_rel; exact H|]. intros ra rb Hab. split; cbn [fst snd]; auto.
    - eapply res_rel_bind; [apply restore_scope_rel; exact H|]. intros ra rb Hab. split; cbn [fst snd]; auto.
    - apply res_rel_bind_same; intros bs _. split; cbn [fst snd]; auto.
  Qed.

  (** ** Emission and the passes *)
  Record esrel (s1 s2 : estate) : Prop := {
    er_r : rrel (e_r s1) (e_r s2);
    er_block : e_block s1 = e_block s2;
    er_baddr : e_baddr s1 = e_baddr s2;
    er_out : e_out s1 = e_out s2
  }.

  Lemma emit_step_rel w s1 s2 n n' x : ndrel n n' -> esrel s1 s2 -> res_rel esrel (emit_step w s1 n x) (emit_step w s2 n' x).
  Proof.
    intros Hn [Hr Hb Ha Ho]. unfold emit_step. rewrite (rr_reloc _ _ Hr).
    destruct (negb _); [reflexivity|].
    eapply res_rel_bind; [apply node_emit_rel; eauto|].
    intros [ra bs] [rb bs'] [Hs Hbs]. cbn [fst snd] in Hs, Hbs. subst bs'.
    eapply res_rel_bind with (R := rrel).
    - destruct bs as [|b0 bs0]; [exact Hs|]. rewrite (rr_reloc _ _ Hs), (rr_pc _ _ Hs).
      apply res_rel_bind_same; intros a' _. cbn [res_rel]. apply rrel_set_reloc, rrel_set_pc, Hs.
    - intros r2a r2b H2. cbn [res_rel]. rewrite Hb, Ha, Ho, (rr_pc _ _ H2), (ndrel_is_codepos _ _ Hn).
      destruct Hn; cbn [is_codepos]; constructor; cbn [e_r e_block e_baddr e_out]; auto.
  Qed.

  Definition lr (x y : rstate * addr * list Z) : Prop :=
    rrel (fst (fst x)) (fst (fst y)) /\ snd (fst x) = snd (fst y) /\ snd x = snd y.

  Lemma label_pass_rel w ns ns' : nsrel ns ns' -> forall r1 r2 a acc, rrel r1 r2 ->
    res_rel lr (label_pass w r1 ns a acc) (label_pass w r2 ns' a acc).
  Proof.
    induction 1 as [|n n' ns ns' Hn Hns IH]; intros r1 r2 a acc H; cbn [label_pass].
    - cbn [res_rel]. unfold lr. cbn [fst snd]. auto.
    - rewrite (ndrel_is_symbol n n' Hn). destruct (is_symbol_node n'); [apply IH; exact H|].
      eapply res_rel_bind; [apply pc_after_rel; eauto|].
      intros [ra a1] [rb a2] [Hs Ha]. cbn [fst snd] in *. subst a2. apply IH. exact Hs.
  Qed.

  Lemma symbol_pass_rel w ns ns' : nsrel ns ns' -> forall r1 r2 a, rrel r1 r2 ->
    res_rel pr (symbol_pass w r1 ns a) (symbol_pass w r2 ns' a).
  Proof.
    induction 1 as [|n n' ns ns' Hn Hns IH]; intros r1 r2 a H; cbn [symbol_pass].
    - split; auto.
    - rewrite (ndrel_is_label n n' Hn). destruct (is_label_or_binary n'); [apply IH; exact H|].
      eapply res_rel_bind; [apply pc_after_rel; eauto|].
      intros [ra a1] [rb a2] [Hs Ha]. cbn [fst snd] in *. subst a2. apply IH. exact Hs.
  Qed.

  Lemma emit_loop_rel w ns ns' : nsrel ns ns' -> forall s1 s2 addrs, esrel s1 s2 ->
    res_rel esrel (emit_loop w s1 ns addrs) (emit_loop w s2 ns' addrs).
  Proof.
    induction 1 as [|n n' ns ns' Hn Hns IH]; intros s1 s2 addrs H; cbn [emit_loop].
    - destruct addrs as [|x [|y l]]; try reflexivity.
      rewrite (rr_reloc _ _ (er_r _ _ H)). destruct (negb _); [reflexivity|exact H].
    - destruct addrs as [|x addrs]; [reflexivity|].
      eapply res_rel_bind; [apply emit_step_rel; eauto|]. intros sa sb Hab. apply IH. exact Hab.
  Qed.

  Definition rlr (x y : rstate * list Z) : Prop := rrel (fst x) (fst y) /\ snd x = snd y.

  Lemma resolve_labels_rel w ns ns' r1 r2 : nsrel ns ns' -> rrel r1 r2 ->
    res_rel rlr (resolve_labels w r1 ns) (resolve_labels w r2 ns').
  Proof.
    intros Hns H. unfold resolve_labels.
    assert (H0 : rrel (set_cur_last r1 (r_cur r1) 0) (set_cur_last r2 (r_cur r2) 0))
      by (rewrite (rr_cur _ _ H); apply rrel_set_cur_last; exact H).
    rewrite (rr_reloc _ _ H0).
    eapply res_rel_bind; [apply label_pass_rel; eauto|].
    intros [[ra a1] l1] [[rb a2] l2] (Hs & Ha & Hl). cbn [fst snd] in Hs, Ha, Hl. subst a2 l2.
    pose proof (rrel_reset _ _ Hs) as Hr. rewrite (rr_reloc _ _ Hr).
    eapply res_rel_bind; [apply symbol_pass_rel; eauto|].
    intros [ra' a1'] [rb' a2'] [Hs' _]. cbn [fst snd] in Hs'. cbn [res_rel].
    split; cbn [fst snd]; [apply rrel_reset; exact Hs'|reflexivity].
  Qed.

  Lemma emit_rel w ns ns' r1 r2 l : nsrel ns ns' -> rrel r1 r2 -> res_rel pr (emit w r1 ns l) (emit w r2 ns' l).
  Proof.
    intros Hns H. unfold emit.
    eapply res_rel_bind.
    - apply emit_loop_rel; eauto. constructor; cbn [e_r e_block e_baddr e_out]; auto. apply (rr_pc _ _ H).
    - intros sa sb [Hr Hb Ha Ho]. cbn [res_rel]. split; cbn [fst snd]; [exact Hr|].
      rewrite Hb, Ha, Ho. reflexivity.
  Qed.

  Lemma get_all_labels_rel r1 r2 : rrel r1 r2 -> get_all_labels r1 = get_all_labels r2.
  Proof.
    intros H. unfold get_all_labels.
    induction (rr_scopes _ _ H) as [|s1 s2 l1 l2 Hs _ IH]; cbn [flat_map]; [reflexivity|].
    rewrite IH, (sr_kind _ _ Hs), (sr_lab _ _ Hs). reflexivity.
  Qed.

  Definition outrel (o1 o2 : output) : Prop :=
    o_blocks o1 = o_blocks o2 /\ o_labels o1 = o_labels o2 /\ rrel (o_final o1) (o_final o2).

  Theorem assemble_nodes_rel w ns ns' r1 r2 : nsrel ns ns' -> rrel r1 r2 ->
    res_rel outrel (assemble_nodes w r1 ns) (assemble_nodes w r2 ns').
  Proof.
    intros Hns H. unfold assemble_nodes.
    eapply res_rel_bind; [apply resolve_labels_rel; eauto|].
    intros [ra l1] [rb l2] [Hs Hl]. cbn [fst snd] in Hs, Hl |- *. subst l2.
    eapply res_rel_bind; [apply emit_rel; eauto|].
    intros [ra' b1] [rb' b2] [Hs' Hb]. cbn [fst snd] in Hs', Hb |- *. subst b2. cbn [res_rel].
    unfold outrel. cbn [o_blocks o_labels o_final]. refine (conj eq_refl (conj _ Hs')). apply get_all_labels_rel. exact Hs'.
  Qed.

  (** ** Where a pass stops *)
  Definition siterel (x y : option (errk * option token)) : Prop :=
    match x, y with
    | Some (k, s), Some (k', s') => k = k' /\ oT s s'
    | None, None => True
    | _, _ => False
    end.

  Lemma label_site_rel w ns ns' : nsrel ns ns' -> forall r1 r2 a, rrel r1 r2 ->
    siterel (label_site w r1 ns a) (label_site w r2 ns' a).
  Proof.
    induction 1 as [|n n' ns ns' Hn Hns IH]; intros r1 r2 a H; cbn [label_site]; [exact I|].
    rewrite (ndrel_is_symbol n n' Hn). destruct (is_symbol_node n'); [apply IH; exact H|].
    pose proof (pc_after_rel w r1 r2 n n' a Hn H) as HP.
    destruct (pc_after w r1 n a) as [[ra a1]| |], (pc_after w r2 n' a) as [[rb a2]| |]; cbn [res_rel] in HP; try contradiction.
    - destruct HP as [Hs Ha]. cbn [fst snd] in *. subst a2. apply IH. exact Hs.
    - subst. cbn [siterel]. split; [reflexivity|apply ndrel_fi; exact Hn].
    - exact I.
  Qed.

  Lemma symbol_site_rel w ns ns' : nsrel ns ns' -> forall r1 r2 a, rrel r1 r2 ->
    siterel (symbol_site w r1 ns a) (symbol_site w r2 ns' a).
  Proof.
    induction 1 as [|n n' ns ns' Hn Hns IH]; intros r1 r2 a H; cbn [symbol_site]; [exact I|].
    rewrite (ndrel_is_label n n' Hn). destruct (is_label_or_binary n'); [apply IH; exact H|].
    pose proof (pc_after_rel w r1 r2 n n' a Hn H) as HP.
    destruct (pc_after w r1 n a) as [[ra a1]| |], (pc_after w r2 n' a) as [[rb a2]| |]; cbn [res_rel] in HP; try contradiction.
    - destruct HP as [Hs Ha]. cbn [fst snd] in *. subst a2. apply IH. exact Hs.
    - subst. cbn [siterel]. split; [reflexivity|apply ndrel_fi; exact Hn].
    - exact I.
  Qed.

  Lemma emit_site_rel w ns ns' : nsrel ns ns' -> forall s1 s2 addrs, esrel s1 s2 ->
    siterel (emit_site w s1 ns addrs) (emit_site w s2 ns' addrs).
  Proof.
    induction 1 as [|n n' ns ns' Hn Hns IH]; intros s1 s2 addrs H; cbn [emit_site]; [exact I|].
    destruct addrs as [|x addrs]; [exact I|].
    pose proof (emit_step_rel w s1 s2 n n' x Hn H) as HP.
    destruct (emit_step w s1 n x) as [sa| |], (emit_step w s2 n' x) as [sb| |]; cbn [res_rel] in HP; try contradiction.
    - apply IH. exact HP.
    - subst. rewrite (rr_reloc _ _ (er_r _ _ H)). cbn [siterel]. split; [reflexivity|].
      destruct (negb _); [exact I|apply ndrel_fi; exact Hn].
    - exact I.
  Qed.

  Lemma nodes_site_rel w ns ns' r1 r2 : nsrel ns ns' -> rrel r1 r2 -> siterel (nodes_site w r1 ns) (nodes_site w r2 ns').
  Proof.
    intros Hns H. unfold nodes_site.
    assert (H0 : rrel (set_cur_last r1 (r_cur r1) 0) (set_cur_last r2 (r_cur r2) 0))
      by (rewrite (rr_cur _ _ H); apply rrel_set_cur_last; exact H).
    cbv zeta. rewrite (rr_reloc _ _ H0).
    pose proof (label_site_rel w ns ns' Hns _ _ (r_reloc (set_cur_last r2 (r_cur r2) 0)) H0) as HL.
    destruct (label_site w (set_cur_last r1 (r_cur r1) 0) ns _) as [[k s]|],
             (label_site w (set_cur_last r2 (r_cur r2) 0) ns' _) as [[k' s']|]; cbn [siterel] in HL; try contradiction;
      [exact HL|].
    pose proof (label_pass_rel w ns ns' Hns _ _ (r_reloc (set_cur_last r2 (r_cur r2) 0)) [] H0) as HP.
    destruct (label_pass w (set_cur_last r1 (r_cur r1) 0) ns _ []) as [[[ra a1] l1]| |],
             (label_pass w (set_cur_last r2 (r_cur r2) 0) ns' _ []) as [[[rb a2] l2]| |]; cbn [res_rel] in HP; try contradiction;
      try exact I.
    destruct HP as (Hs & Ha & Hl). cbn [fst snd] in Hs, Ha, Hl. subst a2 l2.
    pose proof (rrel_reset _ _ Hs) as Hr. rewrite (rr_reloc _ _ Hr).
    pose proof (symbol_site_rel w ns ns' Hns _ _ (r_reloc (resolver_reset rb)) Hr) as HS.
    destruct (symbol_site w (resolver_reset ra) ns _) as [[k s]|],
             (symbol_site w (resolver_reset rb) ns' _) as [[k' s']|]; cbn [siterel] in HS; try contradiction;
      [exact HS|].
    pose proof (symbol_pass_rel w ns ns' Hns _ _ (r_reloc (resolver_reset rb)) Hr) as HY.
    destruct (symbol_pass w (resolver_reset ra) ns _) as [[ry ay]| |],
             (symbol_pass w (resolver_reset rb) ns' _) as [[ry' ay']| |]; cbn [res_rel] in HY; try contradiction;
      try exact I.
    destruct HY as [Hy _]. cbn [fst snd] in Hy |- *.
    pose proof (rrel_reset _ _ Hy) as Hr3.
    apply emit_site_rel; [exact Hns|]. constructor; cbn [e_r e_block e_baddr e_out]; auto; try apply (rr_pc _ _ Hr3).
  Qed.
End Sim.
