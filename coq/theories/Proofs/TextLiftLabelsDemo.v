(** Source-text theorems (Properties/TextLift.v, FrontEndExt.v) instantiated on programs WITH LABELS:
    a top-level label referenced before and after its definition, a label inside the loop body / the
    selected branch / the macro body referenced from inside it, and for the renaming theorems a name
    that is a label of an inner block shadowing an outer label of the same name. *)
From Coq Require Import ZArith List Bool Lia.
From A816 Require Proofs.RoundTripExtExpr Proofs.RoundTripExtScan Proofs.RoundTripExtParse Proofs.RoundTripExtProgram
  Proofs.RoundTripExtAsm.
From A816 Require Import Spec.ExprSem Model.Assemble Proofs.BusProofs Proofs.ExprProofs Proofs.CodegenProofs
  Proofs.NonInterference Proofs.UnrollSim Proofs.Unroll Proofs.IfInline Proofs.DataText Proofs.InsnText
  Proofs.LocationTextParse Proofs.LayoutLink Proofs.LabelTextScan
  Proofs.RenamingExpr Proofs.Renaming Proofs.RenamingAst Proofs.CodeValuesRen
  Proofs.RoundTripExpr Proofs.RoundTripParse Proofs.RoundTripProgram Proofs.RoundTripAsm Proofs.RoundTripDemo
  Proofs.TextLiftCommon Proofs.TextLiftC10 Proofs.TextLiftDefine Proofs.TextLiftFi Proofs.TextLiftC08 Proofs.TextLiftCanon
  Proofs.TextLiftRen Proofs.IncludeNest1.
Import ListNotations.
Open Scope Z_scope.

Definition s_top : str := [116; 111; 112].   (* top *)
Definition s_inner : str := [105; 110; 110; 101; 114].   (* inner *)
Definition s_sel : str := [115; 101; 108].   (* sel *)
Definition s_ml : str := [109; 108].   (* ml *)
Definition s_yy : str := [121; 121].   (* yy *)
Definition s_bra : str := [98; 114; 97].   (* bra *)
Definition s_kk : str := [107].   (* k *)
Definition s_aa : str := [97].   (* a *)
Definition s_xx : str := [120].   (* x *)
Definition s_mm2 : str := [109; 109].   (* mm *)

(** tables: the demo tables of the other demo files, plus a relative branch *)
Definition lab_lx : lexicon :=
  mk_lexicon [s_lda; s_nop; s_bra] [s_nop]
    [k_db; k_dw; k_dl; k_pointer; k_ascii; k_text; k_scope; k_macro; k_if; k_for; k_table; k_incbin;
     k_include; k_include_ips; k_map].
Definition lab_live : live :=
  {| lv_low := lorom; lv_high := hirom; lv_busmap := [(0, true); (1, true); (2, false)];
     lv_optable := demo_optable ++ [(s_bra, [(M_direct, Single (EmRel 128))])]; lv_prec := reference_prec;
     lv_lex := lab_lx |}.

Definition org : ast := AStarEq (nm n8000) (T T_NUMBER n8000).
Definition lb : token := T T_LBRACE [123].
Definition dw1 (e : expr) : ast := AData D_dw [e] (T T_KEYWORD k_dw).
Definition db1 (e : expr) : ast := AData D_db [e] (T T_KEYWORD k_db).
Definition lbl (n : str) : ast := ALabel n (T T_LABEL n).
Definition bra (n : str) : ast := AOpcode M_direct s_bra None (Some (idn n)) None (T T_OPCODE s_bra).
(** .dw top / top:   ...   .dw top *)
Definition head : list ast := [org; dw1 (idn s_top); lbl s_top].
Definition tail_ : list ast := [dw1 (idn s_top)].
Definition src (p : list ast) : aresult := assemble_source lab_live no_srcfiles demo_cfg [109] (print_program p).
Definition vw (r : aresult) : option (list wblock * list (str * Z)) :=
  match r with AOk o _ => Some (o_blocks o, o_labels o) | _ => None end.

(* A1 *)
Definition for_body : list ast := [lbl s_inner; db1 (idn s_kk); dw1 (idn s_inner)].
Definition for_prog : list ast := head ++ AFor s_kk (nm n0) (nm n2) for_body (T T_KEYWORD k_dw) (T T_IDENTIFIER s_kk) :: tail_.
Definition for_twin : list ast := head ++ unrolled s_kk [nm n0; nm n1] for_body (T T_IDENTIFIER s_kk) lb ++ tail_.
(* A2 *)
Definition if_th : list ast := [lbl s_sel; bra s_sel].
Definition if_prog : list ast :=
  head ++ AIf (nm n1) if_th (T T_IDENTIFIER k_else) (Some ([nop_stmt], T T_KEYWORD k_dw)) (T T_NUMBER n1) :: tail_.
Definition if_twin : list ast := head ++ selected true if_th (Some ([nop_stmt], T T_KEYWORD k_dw)) ++ tail_.
(* A3 *)
Definition mac_body : list ast := [lbl s_ml; db1 (idn s_aa); dw1 (idn s_ml)].
Definition mac_def : ast := AMacro s_mm2 [s_aa] mac_body lb (T T_IDENTIFIER s_mm2).
Definition mac_md : macrodef := {| md_params := [s_aa]; md_body := mac_body |}.
Definition mac_prog : list ast := (head ++ [mac_def]) ++ [AMacroApply s_mm2 [inl (nm n7)] (T T_IDENTIFIER s_mm2)] ++ tail_.
Definition mac_twin : list ast := (head ++ [mac_def]) ++ [ACompound (assigns [(s_aa, 7)] [nm n7] (T T_IDENTIFIER s_aa) ++ md_body mac_md) lb] ++ tail_.
(* A4 *)
Definition ren_prog : list ast :=
  head ++ [lbl s_xx; dw1 (idn s_xx); ACompound [lbl s_xx; dw1 (idn s_xx); bra s_xx] lb; dw1 (idn s_xx)] ++ tail_.
(* B *)
Definition def_ds : list (str * Z) := [(s_xx, 5)].
Definition def_prog : list ast := head ++ [db1 (idn s_xx)] ++ tail_.


Lemma nm_lit w s k : eval_number s = Ok k -> forall r, eval_raw w r (nm s) = Ok k.
Proof. exact (num_expr_literal w s k). Qed.
Ltac init_ri Ei := vm_compute in Ei; injection Ei as <-.
Example lab_lexicon_ok : lexicon_rt lab_lx = true. Proof. vm_compute. reflexivity. Qed.

(* ------------------------------------------------------------------------------------------ *)
(** * TextLift_for_unrolled: the loop body defines [inner] and refers to it; [top] before and after *)
Example for_hyps : printable lab_lx (canon_prog for_prog) = true /\ printable lab_lx (canon_prog for_twin) = true.
Proof. vm_compute. split; reflexivity. Qed.
Example for_labels_lifted :
  text_rel (fun b1 l1 b2 l2 => b1 = b2 /\ sublist l1 l2) (src for_prog) (src for_twin).
Proof.
  destruct for_hyps as [P1 P2].
  apply (for_unrolled_text_canon lab_live no_srcfiles demo_cfg [109] [109] lab_lexicon_ok
           s_kk (nm n0) (nm n2) for_body (T T_KEYWORD k_dw) (T T_IDENTIFIER s_kk) (T T_IDENTIFIER s_kk) lb 0 2
           [nm n0; nm n1] head tail_ P1 P2).
  - intros ri s' ns' _ _. split; apply nm_lit; reflexivity.
  - reflexivity.
  - cbn [literals_for]. repeat split; apply nm_lit; reflexivity.
Qed.
(** both texts assemble; the loop's own labels are the ones missing on the left *)
Example for_labels_values :
  vw (src for_prog) = Some ([([2; 128; 0; 2; 128; 1; 5; 128; 2; 128], 0)], [(s_top, 32770)]) /\
  vw (src for_twin) = Some ([([2; 128; 0; 2; 128; 1; 5; 128; 2; 128], 0)],
                            [(s_top, 32770); (s_inner, 32770); (s_inner, 32773)]).
Proof. vm_compute. split; reflexivity. Qed.

(* ------------------------------------------------------------------------------------------ *)
(** * TextLift_if_selected: the selected branch defines [sel] and branches to it *)
Example if_hyps : printable lab_lx (canon_prog if_prog) = true /\ printable lab_lx (canon_prog if_twin) = true.
Proof. vm_compute. split; reflexivity. Qed.
Example if_labels_lifted : text_rel same_bl (src if_prog) (src if_twin).
Proof.
  destruct if_hyps as [P1 P2].
  apply (if_selected_text_canon lab_live no_srcfiles demo_cfg [109] [109] lab_lexicon_ok head tail_ (nm n1) if_th
           (T T_IDENTIFIER k_else) (Some ([nop_stmt], T T_KEYWORD k_dw)) (T T_NUMBER n1) true P1 P2).
  - intros ri x _ _. rewrite if_condition_spec. rewrite (nm_lit _ n1 1 eq_refl). reflexivity.
  - intros ri Ei. init_ri Ei. left. vm_compute. discriminate.
Qed.
Example if_labels_values :
  vw (src if_prog) = Some ([([2; 128; 128; 254; 2; 128], 0)], [(s_top, 32770); (s_sel, 32770)]) /\
  vw (src if_twin) = Some ([([2; 128; 128; 254; 2; 128], 0)], [(s_top, 32770); (s_sel, 32770)]).
Proof. vm_compute. split; reflexivity. Qed.

(* ------------------------------------------------------------------------------------------ *)
(** * TextLift_macro_inline: the macro body defines [ml] and refers to it *)
Example mac_hyps : printable lab_lx (canon_prog mac_prog) = true /\ printable lab_lx (canon_prog mac_twin) = true.
Proof. vm_compute. split; reflexivity. Qed.
Example mac_labels_lifted : text_rel same_bl (src mac_prog) (src mac_twin).
Proof.
  destruct mac_hyps as [P1 P2].
  apply (macro_inline_text_canon lab_live no_srcfiles demo_cfg [109] [109] lab_lexicon_ok (head ++ [mac_def]) tail_
           s_mm2 [inl (nm n7)] (T T_IDENTIFIER s_mm2) lb (T T_IDENTIFIER s_aa) mac_md [(s_aa, AVInt 7)] [(s_aa, 7)] [nm n7] P1 P2).
  - intros ri s' ns' Ei G. init_ri Ei. vm_compute in G. injection G as <- <-. split; reflexivity.
  - reflexivity.
  - cbn [closed_literals]. split; [apply nm_lit; reflexivity|exact I].
Qed.
Example mac_labels_values :
  vw (src mac_prog) = Some ([([2; 128; 7; 2; 128; 2; 128], 0)], [(s_top, 32770); (s_ml, 32770)]) /\
  vw (src mac_twin) = Some ([([2; 128; 7; 2; 128; 2; 128], 0)], [(s_top, 32770); (s_ml, 32770)]).
Proof. vm_compute. split; reflexivity. Qed.

(* ------------------------------------------------------------------------------------------ *)
(** * TextLift_renaming / TextLift_renaming_ident: [x] is an outer label and a label of an inner block
      that shadows it ([.dw x] / [bra x] inside the block mean the inner one) *)
Example ren_hyps :
  printable lab_lx (canon_prog ren_prog) = true /\
  printable lab_lx (canon_prog (rename_prog (ren s_xx s_yy) ren_prog)) = true /\
  pident_b lab_lx s_yy = true.
Proof. vm_compute. repeat split; reflexivity. Qed.
Lemma ren_okg : prog_okg (ren s_xx s_yy) (inD s_yy) ren_prog.
Proof. cbn. repeat split; try reflexivity; repeat constructor; intros; try reflexivity; try discriminate. Qed.
Lemma ren_start : forall ri, initial_resolver (world_of lab_live no_srcfiles) demo_cfg = Ok ri ->
  state_untouched s_xx s_yy ri = true /\ start_code_ok (ren s_xx s_yy) (inD s_yy) ri.
Proof. intros ri Ei. init_ri Ei. split; [vm_compute; reflexivity|]. repeat constructor. Qed.
Example ren_labels_lifted :
  text_rel (renamed_bl s_xx s_yy) (src ren_prog) (src (rename_prog (ren s_xx s_yy) ren_prog)).
Proof.
  destruct ren_hyps as (P1 & P2 & _).
  exact (renaming_text lab_live no_srcfiles demo_cfg [109] [109] s_xx s_yy ren_prog lab_lexicon_ok P1 P2
           eq_refl eq_refl ren_okg ren_start).
Qed.
Example ren_ident_labels_lifted :
  text_rel (renamed_bl s_xx s_yy) (src ren_prog) (src (rename_prog (ren s_xx s_yy) ren_prog)).
Proof.
  destruct ren_hyps as (P1 & _ & P3).
  exact (renaming_text_ident lab_live no_srcfiles demo_cfg [109] [109] s_xx s_yy ren_prog lab_lexicon_ok P1 P3
           eq_refl eq_refl ren_okg ren_start).
Qed.
Example ren_labels_values :
  vw (src ren_prog)
  = Some ([([2; 128; 2; 128; 4; 128; 128; 252; 2; 128; 2; 128], 0)], [(s_top, 32770); (s_xx, 32770); (s_xx, 32772)]) /\
  vw (src (rename_prog (ren s_xx s_yy) ren_prog))
  = Some ([([2; 128; 2; 128; 4; 128; 128; 252; 2; 128; 2; 128], 0)], [(s_top, 32770); (s_yy, 32770); (s_yy, 32772)]).
Proof. vm_compute. split; reflexivity. Qed.

(* ------------------------------------------------------------------------------------------ *)
(** * TextLift_defines: -D x=5 against the line "x := 5", in a program with a label used on both sides *)
Definition cfg_ds : config := {| cf_rom := None; cf_defines := def_ds |}.
Example def_hyps : printable lab_lx def_prog = true /\ printable lab_lx (define_lines def_ds ++ def_prog) = true.
Proof. vm_compute. split; reflexivity. Qed.
Example def_labels_lifted :
  text_rel same_bl
    (assemble_source lab_live no_srcfiles cfg_ds [109] (print_program def_prog))
    (assemble_source lab_live no_srcfiles demo_cfg [109] (print_program (define_lines def_ds ++ def_prog))).
Proof.
  destruct def_hyps as [P1 P2].
  exact (defines_text lab_live no_srcfiles None def_ds [109] [109] def_prog lab_lexicon_ok P1 P2).
Qed.
Example def_labels_values :
  vw (assemble_source lab_live no_srcfiles cfg_ds [109] (print_program def_prog))
  = Some ([([2; 128; 5; 2; 128], 0)], [(s_top, 32770)]) /\
  vw (src (define_lines def_ds ++ def_prog)) = Some ([([2; 128; 5; 2; 128], 0)], [(s_top, 32770)]).
Proof. vm_compute. split; reflexivity. Qed.

(* ------------------------------------------------------------------------------------------ *)
(** * TextLift_pair_canon: a program whose file_info tokens are all junk (the synthetic EOF token)
      against its canonical form -- same text, same assembly *)
Definition junk_prog : list ast :=
  [ AStarEq (nm n8000) eof_token; AData D_dw [idn s_top] eof_token; ALabel s_top eof_token;
    ACompound [ALabel s_xx eof_token; AData D_dw [idn s_xx] eof_token] eof_token;
    AData D_dw [idn s_top] eof_token ].
Example junk_hyps :
  printable lab_lx junk_prog = false /\
  printable lab_lx (canon_prog junk_prog) = true /\ printable lab_lx (canon_prog (canon_prog junk_prog)) = true.
Proof. vm_compute. repeat split; reflexivity. Qed.
Example junk_labels_lifted : text_rel same_bl (src junk_prog) (src (canon_prog junk_prog)).
Proof.
  destruct junk_hyps as (_ & P1 & P2).
  apply (lift_pair_canon lab_live no_srcfiles demo_cfg [109] [109] same_bl junk_prog (canon_prog junk_prog) lab_lexicon_ok P1 P2).
  intros ri Ei. init_ri Ei. vm_compute. split; reflexivity.
Qed.
Example junk_labels_values :
  vw (src junk_prog) = Some ([([2; 128; 2; 128; 2; 128], 0)], [(s_top, 32770); (s_xx, 32770)]).
Proof. vm_compute. reflexivity. Qed.

(* ------------------------------------------------------------------------------------------ *)
(** * FrontExt_roundtrip / FrontExt_assemble_printed: an included file that defines a label, a named
      scope whose label is referenced (dotted name) before and after the scope, [top] before and after *)
Module X := RoundTripExtProgram.
Definition s_sc : str := [115; 99].   Definition s_lab : str := [108; 97; 98].   Definition s_sclab : str := [115; 99; 46; 108; 97; 98].
Definition s_inl : str := [105; 110; 108].  Definition s_incs : str := [105; 110; 99; 46; 115].
Definition inc_text : str := [105; 110; 108; 58; 10; 110; 111; 112; 10].   (* "inl:\nnop\n" *)
Definition lab_fs : srcfiles := {| sf_text := [(s_incs, inc_text)]; sf_bin := []; sf_tbl := [] |}.
Definition xpth (_ : list ast) : str := s_incs.
Definition xincd (b : list ast) : bool :=
  match b with
  | [ALabel n fi; AOpcode M_none op None None None fi2] =>
      str_eqb n s_inl && RoundTripExtParse.fi_is fi (T_LABEL, s_inl) &&
      str_eqb op s_nop && RoundTripExtParse.fi_is fi2 (T_OPCODE_NAKED, s_nop)
  | _ => false
  end.
Definition inc_body : list ast := [lbl s_inl; nop_stmt].
Definition ext_prog : list ast :=
  [ org; dw1 (idn s_top); dw1 (idn s_sclab); lbl s_top;
    ABlock inc_body (T T_KEYWORD k_include);
    AScope s_sc [lbl s_lab; dw1 (idn s_lab); bra s_lab] lb (T T_IDENTIFIER s_sc);
    dw1 (idn s_sclab); dw1 (idn s_top); dw1 (idn s_inl) ].
Example ext_hyps : X.printable xpth xincd lab_lx ext_prog = true.
Proof. vm_compute. reflexivity. Qed.

(** the included body is what the nested parse of inc.s returns, up to positions *)
Lemma ext_included : forall b, xincd b = true ->
  exists b', RoundTripExtParse.inc_sub include_depth (include_tokens lab_live lab_fs) (xpth b) = POk b' /\ asrel sameTV b b'.
Proof.
  intros b Hb. destruct b as [|a r]; [discriminate|]. destruct a; try discriminate.
  destruct r as [|a2 r]; [discriminate|]. destruct a2; try discriminate. destruct mode; try discriminate. destruct size; try discriminate.
  destruct operand; try discriminate. destruct index; try discriminate. destruct r; try discriminate.
  cbn [xincd] in Hb. apply andb_true_iff in Hb as [Hb H4]. apply andb_true_iff in Hb as [Hb H3].
  apply andb_true_iff in Hb as [H1 H2]. apply str_eqb_true'' in H1. apply str_eqb_true'' in H3. subst name opcode.
  eexists. split; [vm_compute; reflexivity|].
  constructor; [|constructor; [|constructor]].
  - apply R_Label. apply (RoundTripExtParse.fi_same _ _ _ H2). reflexivity.
  - apply R_Opcode; [exact I|]. apply (RoundTripExtParse.fi_same _ _ _ H4). reflexivity.
Qed.

Example ext_roundtrip_labels : exists toks lines prog',
  scan lab_lx [109] (X.print_program xpth ext_prog) = ScanOk toks lines /\
  parse_program (parse_fuel (length toks)) include_depth (include_tokens lab_live lab_fs) toks = POk prog' /\
  asrel sameTV ext_prog prog'.
Proof.
  exact (X.roundtrip_ext xpth xincd lab_lx [109] (include_tokens lab_live lab_fs) include_depth ext_prog
           lab_lexicon_ok (inc_no_fuel' lab_live lab_fs) ext_included ext_hyps).
Qed.

Example ext_assemble_labels :
  result_same_up_to_positions (assemble_program (world_of lab_live lab_fs) demo_cfg ext_prog)
                              (assemble_source lab_live lab_fs demo_cfg [109] (X.print_program xpth ext_prog)).
Proof.
  exact (RoundTripExtAsm.assemble_printed_ext xpth xincd lab_live lab_fs demo_cfg [109] ext_prog
           lab_lexicon_ok ext_included ext_hyps).
Qed.
(** [sc.lab] is 0x8005 before and after the scope, [top] 0x8004 before and after, [inl] from the file *)
Example ext_labels_values :
  vw (assemble_program (world_of lab_live lab_fs) demo_cfg ext_prog)
  = Some ([([4; 128; 5; 128; 234; 5; 128; 128; 252; 5; 128; 4; 128; 4; 128], 0)],
          [(s_top, 32772); (s_inl, 32772); (s_lab, 32773)]) /\
  vw (assemble_source lab_live lab_fs demo_cfg [109] (X.print_program xpth ext_prog))
  = vw (assemble_program (world_of lab_live lab_fs) demo_cfg ext_prog).
Proof. vm_compute. split; reflexivity. Qed.

(** * FrontExt_include_line: the line ".include 'inc.s'" (one statement; it has no place for a label:
      the labels are those of the included file, as in [ext_prog] above) *)
Example include_line_instance : IncludeMove4.include_line lab_lx [109] (include_text 1 s_incs) s_incs.
Proof.
  apply include_line_closed; [reflexivity|]. repeat constructor; discriminate.
Qed.

Print Assumptions for_labels_lifted.
Print Assumptions ren_ident_labels_lifted.
Print Assumptions ext_assemble_labels.
