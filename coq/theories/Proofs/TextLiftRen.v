(** Renaming keeps a program printable: [printable_ren].  With it the text-level renaming theorem
    ([renaming_text], Proofs/TextLiftC08.v) needs no computed hypothesis about the renamed program:
    [renaming_text_ident] asks that the new name be a printable identifier ([pident_b]).

    Structure: for canonical file_info tokens the class does not depend on the context token
    ([psh_next]), so [printable (canon_prog prog)] is [forallb psh prog] ([printable_canon]); [psh] is
    stable under [rename_ast] because a plain name is renamed to itself or to the new name ([ren_plain]),
    identifier tokens keep kind and type, and the shape test of expressions only reads kinds, types
    and operator values ([pe_rest_ren]). *)
From Coq Require Import ZArith List Lia Bool Arith.
From A816 Require Import Model.Assemble Proofs.BusProofs Proofs.NonInterference Proofs.RenamingExpr Proofs.Renaming
  Proofs.RenamingAst Proofs.CodeValues Proofs.CodeValuesNI Proofs.CodeValuesRen
  Proofs.ExprLex Proofs.LabelTextScan Proofs.RoundTripExpr Proofs.RoundTripScan Proofs.RoundTripParse
  Proofs.RoundTripProgram Proofs.RoundTripAsm Proofs.TextLiftCommon Proofs.TextLiftFi Proofs.TextLiftC08.
Import ListNotations.
Open Scope Z_scope.

(* ------------------------------------------------------------------------------------------ *)
(** * The class on canonical tokens *)

Lemma fi_tok t : fi_is (tok t) t = true.
Proof.
  destruct t as [ty v]. unfold fi_is, tok, tv, tk_eqb. cbn [mk_token t_type t_value fst snd].
  rewrite str_eqb_refl'. destruct ty; reflexivity.
Qed.

Definition psh (lx : lexicon) (a : ast) : bool := pstmt lx tEOF (canon tEOF a).

Lemma psh_next lx : forall a n, pstmt lx n (canon n a) = psh lx a.
Proof.
  unfold psh. intros a n. destruct a; cbn [canon pstmt]; rewrite ?fi_tok; try reflexivity.
  destruct el as [[eb ef]|]; rewrite ?fi_tok; reflexivity.
Qed.

Lemma canon_tks : forall a next, stmt_tks (canon next a) = stmt_tks a.
Proof.
  apply (ast_ind' (fun a => forall next, stmt_tks (canon next a) = stmt_tks a)); intros;
    cbn [canon stmt_tks]; try reflexivity;
    try (rewrite (ctx_map_flat stmt_tks canon _ H); reflexivity).
  rewrite (ctx_map_flat stmt_tks canon _ H). destruct el as [[eb ef]|]; [|reflexivity].
  cbn [Pel] in H0. rewrite (ctx_map_flat stmt_tks canon _ H0). reflexivity.
Qed.
Lemma canon_first a n : first_tk (canon n a) = first_tk a.
Proof. unfold first_tk. rewrite canon_tks. reflexivity. Qed.

Lemma ctx_all_canon lx : forall l nx, ctx_all (pstmt lx) first_tk nx (ctx_map canon nx l) = forallb (psh lx) l.
Proof.
  induction l as [|x r IH]; intros nx; [reflexivity|]. cbn [ctx_map ctx_all forallb]. rewrite IH. f_equal.
  destruct r as [|y r']; cbn [ctx_map]; [apply psh_next|]. rewrite canon_first. apply psh_next.
Qed.

Lemma printable_canon lx prog : printable lx (canon_prog prog) = forallb (psh lx) prog.
Proof. unfold printable, pstmts, canon_prog. apply ctx_all_canon. Qed.

(* ------------------------------------------------------------------------------------------ *)
(** * Renaming *)

Section Ren.
  Variable lx : lexicon.
  Variables z z' : str.
  Hypothesis Hz' : pident_b lx z' = true.
  Local Notation rho := (ren z z').
  Local Notation re := (rename_expr rho).

  Lemma name_no_dot v : name_b v = true -> ~ In 46 v.
  Proof.
    intros H. apply name_b_ok in H. pose proof (name_ok_all v H) as A. intros Hin.
    unfold all_in in A. rewrite Forall_forall in A. specialize (A 46 Hin). discriminate A.
  Qed.

  Lemma ren_plain v : name_b v = true -> rho v = if str_eqb v z then z' else v.
  Proof.
    intros H. unfold ren. destruct (str_eqb v z); [reflexivity|]. apply ren_suf_id.
    intros p E. apply (name_no_dot v H). rewrite E. apply in_or_app. right. left. reflexivity.
  Qed.

  Lemma pident_ren v : pident_b lx v = true -> pident_b lx (rho v) = true.
  Proof.
    intros H. assert (N : name_b v = true) by (unfold pident_b in H; apply and3 in H as (N & _ & _); exact N).
    rewrite (ren_plain v N). destruct (str_eqb v z); assumption.
  Qed.

  Lemma forallb_pident_ren ps : forallb (pident_b lx) ps = true -> forallb (pident_b lx) (map rho ps) = true.
  Proof.
    induction ps as [|p ps IH]; cbn [forallb map]; [reflexivity|]. intros H. apply and2 in H as [H1 H2].
    rewrite (pident_ren p H1), (IH H2). reflexivity.
  Qed.

  (** tokens *)
  Lemma rt_kind t : en_kind (rename_tok rho t) = en_kind t.
  Proof. apply rename_tok_kind. Qed.
  Lemma rt_ty t : en_ty (rename_tok rho t) = en_ty t.
  Proof. exact (rename_tok_type rho t). Qed.
  Lemma rt_v t : en_ty t <> T_IDENTIFIER -> en_v (rename_tok rho t) = en_v t.
  Proof. exact (rename_tok_val_other rho t). Qed.

  Lemma is_term_ren t : is_term (rename_tok rho t) = is_term t.
  Proof. unfold is_term. rewrite rt_kind, rt_ty. reflexivity. Qed.
  Lemma is_binop_ren t : is_binop (rename_tok rho t) = is_binop t.
  Proof. unfold is_binop. rewrite rt_kind, rt_ty. reflexivity. Qed.
  Lemma is_lp_ren t : is_lp (rename_tok rho t) = is_lp t.
  Proof. unfold is_lp. rewrite rt_kind, rt_ty. reflexivity. Qed.
  Lemma is_rp_ren t : is_rp (rename_tok rho t) = is_rp t.
  Proof. unfold is_rp. rewrite rt_kind, rt_ty. reflexivity. Qed.
  Lemma is_unop_ren t : is_unop (rename_tok rho t) = is_unop t.
  Proof.
    unfold is_unop. rewrite rt_kind, rt_ty.
    destruct (ttype_eqb (en_ty t) T_OPERATOR) eqn:E; [|rewrite !andb_false_r; reflexivity].
    rewrite rt_v; [reflexivity|]. apply ttype_eqb_true in E. rewrite E. discriminate.
  Qed.

  Lemma pe_rest_ren : forall f l, pe_rest f (re l) = option_map re (pe_rest f l).
  Proof.
    induction f as [|f IH]; intros l; [reflexivity|]. destruct l as [|n r]; [reflexivity|].
    cbn [rename_expr map pe_rest]. fold (re r). rewrite is_term_ren, is_lp_ren, is_unop_ren.
    assert (Tl : forall r0, pe_tail (pe_rest f) (re r0) = option_map re (pe_tail (pe_rest f) r0)).
    { intros [|o r2]; [reflexivity|]. cbn [rename_expr map pe_tail]. fold (re r2). rewrite is_binop_ren.
      destruct (is_binop o); [apply IH|reflexivity]. }
    destruct (is_term n); [apply Tl|]. destruct (is_lp n).
    - rewrite IH. destruct (pe_rest f r) as [[|m r']|]; cbn [option_map]; try reflexivity.
      cbn [rename_expr map]. fold (re r'). rewrite is_rp_ren. destruct (is_rp m); [apply Tl|reflexivity].
    - destruct (is_unop n); [apply IH|reflexivity].
  Qed.

  Lemma pe_b_ren l : pe_b (re l) = pe_b l.
  Proof.
    unfold pe_b. unfold rename_expr at 1. rewrite map_length. fold (re l). rewrite pe_rest_ren.
    destruct (pe_rest (S (length l)) l) as [[|? ?]|]; reflexivity.
  Qed.

  Lemma etok_ren x t : etok_b lx x (etv t) = true -> etok_b lx x (etv (rename_tok rho t)) = true.
  Proof.
    unfold rename_tok, en_type. unfold etok_b, etv, tv. cbn [fst snd].
    destruct (t_type (en_tok t)) eqn:E; cbn [en_tok t_type t_value]; rewrite ?E; try (intros H; exact H).
    unfold en_val. apply pident_ren.
  Qed.

  Lemma printable_expr_ren x e : printable_expr lx x e = true -> printable_expr lx x (re e) = true.
  Proof.
    unfold printable_expr. intros H. apply and2 in H as [H1 H2]. rewrite pe_b_ren, H2, andb_true_r.
    unfold rename_expr. rewrite map_map. rewrite forallb_forall in *. intros t Ht.
    apply in_map_iff in Ht as (n & <- & Hn). apply etok_ren. apply H1. apply in_map_iff. eauto.
  Qed.

  Lemma forallb_expr_ren x es : forallb (printable_expr lx x) es = true ->
    forallb (printable_expr lx x) (map re es) = true.
  Proof.
    induction es as [|e es IH]; cbn [forallb map]; [reflexivity|]. intros H. apply and2 in H as [H1 H2].
    rewrite (printable_expr_ren x e H1), (IH H2). reflexivity.
  Qed.

  Lemma head_not_lp_ren e : head_not_lp (re e) = head_not_lp e.
  Proof. destruct e as [|n e]; [reflexivity|]. cbn [rename_expr map head_not_lp]. rewrite rt_ty. reflexivity. Qed.

  Lemma opnd_b_ren m e idx : opnd_b m (re e) idx = opnd_b m e idx.
  Proof. unfold opnd_b. rewrite head_not_lp_ren. reflexivity. Qed.

  Lemma forallb_psh_ren (b : list ast) : Forall (fun a => psh lx a = true -> psh lx (rename_ast rho a) = true) b ->
    forallb (psh lx) b = true -> forallb (psh lx) (map (rename_ast rho) b) = true.
  Proof.
    induction 1 as [|a b Ha _ IH]; cbn [forallb map]; [reflexivity|]. intros H. apply and2 in H as [H1 H2].
    rewrite (Ha H1), (IH H2). reflexivity.
  Qed.

  (** the statements *)
  Theorem psh_ren : forall a, psh lx a = true -> psh lx (rename_ast rho a) = true.
  Proof.
    apply (ast_ind' (fun a => psh lx a = true -> psh lx (rename_ast rho a) = true)); intros;
      repeat match goal with Hp : psh _ _ = true |- _ => unfold psh in Hp end; unfold psh;
      cbn [rename_ast canon pstmt] in *; rewrite ?fi_tok in *;
      rewrite ?ctx_all_canon in *; try assumption; try discriminate.
    - (* ACompound *) cbn [andb] in *. apply forallb_psh_ren; assumption.
    - (* ALabel *) rewrite andb_true_r in *. apply pident_ren. assumption.
    - (* AScope *) apply and5 in H0 as (A1 & A2 & _ & _ & A5). rewrite A1, A2. cbn [andb].
      apply forallb_psh_ren; assumption.
    - (* AStarEq *) rewrite andb_true_r in *. apply printable_expr_ren. assumption.
    - (* AAtEq *) rewrite andb_true_r in *. apply printable_expr_ren. assumption.
    - (* AIf *) apply and5 in H1 as (A1 & A2 & _ & A4 & A5). rewrite A1, (printable_expr_ren _ _ A2).
      rewrite (forallb_psh_ren th H A4). cbn [andb].
      destruct el as [[eb ef]|]; rewrite ?fi_tok in *; rewrite ?ctx_all_canon in *; [|reflexivity].
      cbn [andb] in *. cbn [Pel] in H0. apply forallb_psh_ren; assumption.
    - (* AMacro *) apply and6 in H0 as (A1 & A2 & A3 & _ & _ & A6). rewrite A1, A2, (forallb_pident_ren _ A3).
      cbn [andb]. apply forallb_psh_ren; assumption.
    - (* AMacroApply *) apply and3 in H0 as (A1 & _ & A3). rewrite A1. cbn [andb].
      rewrite forallb_forall in *. intros x Hx. apply in_map_iff in Hx as (y & <- & Hy). specialize (A3 y Hy).
      destruct y as [e|[bb bf]]; [apply printable_expr_ren; exact A3|discriminate A3].
    - (* AData *) apply and3 in H as (A1 & _ & A3). rewrite A1. cbn [andb].
      destruct es as [|e es]; [discriminate|]. cbn [map]. change (re e :: map re es) with (map re (e :: es)).
      apply forallb_expr_ren. exact A3.
    - (* ASymbol *) apply and3 in H as (A1 & _ & A3). rewrite (pident_ren _ A1), (printable_expr_ren _ _ A3). reflexivity.
    - (* AAssign *) apply and3 in H as (A1 & _ & A3). rewrite (pident_ren _ A1), (printable_expr_ren _ _ A3). reflexivity.
    - (* AFor *) apply and7 in H0 as (A1 & A2 & A3 & A4 & _ & _ & A7).
      rewrite A1, (pident_ren _ A2), (printable_expr_ren _ _ A3), (printable_expr_ren _ _ A4). cbn [andb].
      apply forallb_psh_ren; assumption.
    - (* AOpcode *) apply and2 in H as [A1 A2]. rewrite A1. cbn [andb]. destruct o as [e|]; cbn [option_map].
      + apply and3 in A2 as (B1 & B2 & _). rewrite (printable_expr_ren _ _ B1), opnd_b_ren, B2, fi_tok. reflexivity.
      + exact A2.
  Qed.

  Theorem printable_ren prog :
    printable lx (canon_prog prog) = true -> printable lx (canon_prog (rename_prog rho prog)) = true.
  Proof.
    rewrite !printable_canon. unfold rename_prog. apply forallb_psh_ren.
    apply Forall_forall. intros a _. apply psh_ren.
  Qed.
End Ren.

(** A4 without a computed hypothesis on the renamed program *)
Theorem renaming_text_ident t fs c f1 f2 z z' prog :
  lexicon_rt (lv_lex t) = true ->
  printable (lv_lex t) (canon_prog prog) = true -> pident_b (lv_lex t) z' = true ->
  nodot z = true -> nodot z' = true -> prog_okg (ren z z') (inD z') prog ->
  (forall ri, initial_resolver (world_of t fs) c = Ok ri ->
     state_untouched z z' ri = true /\ start_code_ok (ren z z') (inD z') ri) ->
  text_rel (renamed_bl z z')
    (assemble_source t fs c f1 (print_program prog))
    (assemble_source t fs c f2 (print_program (rename_prog (ren z z') prog))).
Proof.
  intros Hrt P Hz'. apply (renaming_text t fs c f1 f2 z z' prog Hrt P).
  apply printable_ren; assumption.
Qed.

Print Assumptions printable_ren.
Print Assumptions renaming_text_ident.
