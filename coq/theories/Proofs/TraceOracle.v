(** C02 — the model satisfies the trace oracle ([Oracle/Coreo.v], [spec_ok (STrace labels pass1 em)])
    that the run-time check applies to the implementation's trace:
    - every node the first pass visits is emitted at the run address the first pass gave it;
    - the value bound to a label is the run address at which the next emitting node (before any
      position move) emits.

    The model's own [(labels, pass1, em)] are built exactly as harness/a816v/core.py builds them from
    the implementation's trace: [pass1] = (node index, address handed to [pc_after]) for every node
    the first pass visits (SymbolNodes are skipped), [labels] = those of LabelNode / BinaryNode,
    [em] = (node index, run address, number of bytes, kind) for every node of the emission. *)
From Coq Require Import ZArith List Lia Bool Arith.
From A816 Require Import Model.Program Oracle.Coreo Proofs.NodeProofs Proofs.ProgramProofs
     Proofs.WriterProtocol Proofs.WriterProtocolBus.
Open Scope Z_scope.

(** ** The model's observations *)

(** (index, address) of the nodes satisfying [P], for a node list and the address list of the
    first pass ([label_pass_addresses]) *)
Fixpoint indexed_from (P : node -> bool) (k : nat) (ns : list node) (l : list Z) : list (nat * Z) :=
  match ns, l with
  | n :: ns', a :: l' => (if P n then [(k, a)] else []) ++ indexed_from P (S k) ns' l'
  | _, _ => []
  end.
Definition visited (n : node) : bool := negb (is_symbol_node n).
Definition pass1_of (ns : list node) (addrs : list Z) : list (nat * Z) := indexed_from visited 0 ns addrs.
Definition labels_of (ns : list node) (addrs : list Z) : list (nat * Z) := indexed_from is_label_or_binary 0 ns addrs.

Fixpoint em_from (k : nat) (tr : list tnode) : list (nat * Z * nat * Z) :=
  match tr with
  | [] => []
  | t :: rest => (k, tn_addr t, length (tn_bytes t), tn_kind t) :: em_from (S k) rest
  end.
Definition em_of (tr : list tnode) := em_from 0 tr.

(** [pass1_of] really is the list of [pc_after] calls of the first pass: a ghost run of
    [label_pass] that records (index, address) at every call. *)
Fixpoint label_visits (w : world) (r : rstate) (ns : list node) (a : addr) (k : nat) : res (list (nat * Z)) :=
  match ns with
  | [] => Ok []
  | n :: rest =>
      if is_symbol_node n then label_visits w r rest a (S k)
      else do ra <- pc_after w r n a;
           do v <- label_visits w (fst ra) rest (snd ra) (S k);
           Ok ((k, a_val a) :: v)
  end.

Lemma label_pass_visits w ns : forall r a acc r' a' l k,
  label_pass w r ns a acc = Ok (r', a', l) ->
  exists l', l = acc ++ l' /\ length l' = S (length ns) /\
             label_visits w r ns a k = Ok (indexed_from visited k ns l').
Proof.
  unfold visited. induction ns as [|n ns IH]; intros r a acc r' a' l k; cbn [label_pass label_visits].
  - intros H; inversion H; subst. exists [a_val a']. auto.
  - destruct (is_symbol_node n) eqn:Hs.
    + intros H. destruct (IH _ _ _ _ _ _ (S k) H) as (l' & -> & Hlen & V).
      exists (a_val a :: l'). rewrite <- app_assoc. cbn [app length indexed_from]. rewrite Hs.
      cbn [negb app]. auto.
    + destruct (pc_after w r n a) as [[r1 a1]| |]; cbn [bind fst snd]; try discriminate.
      intros H. destruct (IH _ _ _ _ _ _ (S k) H) as (l' & -> & Hlen & V).
      exists (a_val a :: l'). rewrite <- app_assoc. cbn [app length indexed_from]. rewrite Hs.
      cbn [negb app]. rewrite V. cbn [bind]. auto.
Qed.

(** ** Facts about the emission trace *)

(** the expected addresses the loop was given are the run addresses of the trace, then the end *)
Lemma trace_addrs w ns : forall st addrs tr st',
  model_trace_st w st ns addrs = Ok (tr, st') ->
  addrs = map tn_addr tr ++ [a_val (r_reloc (e_r st'))] /\ length tr = length ns.
Proof.
  induction ns as [|n ns IH]; intros st addrs tr st' H; cbn [model_trace_st] in H.
  - destruct addrs as [|x [|y l]]; try discriminate.
    destruct (a_val (r_reloc (e_r st)) =? x) eqn:E; cbn [negb] in H; [|discriminate].
    inversion H; subst. apply Z.eqb_eq in E. subst. auto.
  - destruct addrs as [|x addrs]; [discriminate|].
    destruct (node_emit w (e_r st) n) as [rb| |]; cbn [bind] in H; try discriminate.
    destruct (emit_step w st n x) as [st1| |] eqn:ES; cbn [bind] in H; try discriminate.
    destruct (model_trace_st w st1 ns addrs) as [[tr1 st2]| |] eqn:T; cbn [bind fst snd] in H; try discriminate.
    inversion H; subst tr st2; clear H.
    destruct (IH _ _ _ _ T) as [-> Hlen]. cbn [map tnode_of tn_addr app length].
    rewrite (emit_step_phase _ _ _ _ _ ES), Hlen. auto.
Qed.

(** a node that is not a position move and emits nothing leaves the run address where it is *)
Fixpoint steady (tr : list tnode) : Prop :=
  match tr with
  | t1 :: rest =>
      match rest with
      | t2 :: _ => ((0 <? tn_kind t1) && (tn_kind t1 <? 3) = false -> tn_bytes t1 = [] -> tn_addr t2 = tn_addr t1)
      | [] => True
      end /\ steady rest
  | [] => True
  end.

Lemma trace_first_addr w ns st addrs t tr st' :
  model_trace_st w st ns addrs = Ok (t :: tr, st') -> tn_addr t = a_val (r_reloc (e_r st)).
Proof.
  destruct ns as [|n ns]; cbn [model_trace_st].
  - destruct addrs as [|x [|y l]]; try discriminate. destruct (negb _); discriminate.
  - destruct addrs as [|x addrs]; [discriminate|].
    destruct (node_emit w (e_r st) n) as [rb| |]; cbn [bind]; try discriminate.
    destruct (emit_step w st n x) as [st1| |]; cbn [bind]; try discriminate.
    destruct (model_trace_st w st1 ns addrs) as [[tr1 st2]| |]; cbn [bind fst snd]; try discriminate.
    intros H; inversion H; subst. reflexivity.
Qed.

Lemma trace_steady w ns : forall st addrs tr st',
  model_trace_st w st ns addrs = Ok (tr, st') -> steady tr.
Proof.
  induction ns as [|n ns IH]; intros st addrs tr st' H; cbn [model_trace_st] in H.
  - destruct addrs as [|x [|y l]]; try discriminate. destruct (negb _); [discriminate|].
    inversion H; subst. exact I.
  - destruct addrs as [|x addrs]; [discriminate|].
    destruct (node_emit w (e_r st) n) as [[r1 bs]| |] eqn:NE; cbn [bind] in H; try discriminate.
    destruct (emit_step w st n x) as [st1| |] eqn:ES; cbn [bind] in H; try discriminate.
    destruct (model_trace_st w st1 ns addrs) as [[tr1 st2]| |] eqn:T; cbn [bind fst snd] in H; try discriminate.
    inversion H; subst tr st2; clear H. cbn [steady snd]. split; [|eapply IH; eauto].
    destruct tr1 as [|t2 tr2]; [exact I|].
    cbn [tnode_of tn_kind tn_bytes tn_addr]. intros Hk Hbs. subst bs.
    rewrite (trace_first_addr _ _ _ _ _ _ _ T).
    assert (Hpos : is_position n = false) by (destruct n; try reflexivity; discriminate).
    destruct (emit_step_inv2 _ _ _ _ _ ES) as (r1' & bs' & NE' & _ & _ & Hshape).
    rewrite NE in NE'. inversion NE'; subst r1' bs'; clear NE'. rewrite Hshape.
    destruct (node_emit_keeps_position _ _ _ _ _ Hpos NE) as [Hrl _]. rewrite Hrl. reflexivity.
Qed.

Lemma steady_skipn tr : forall i, steady tr -> steady (skipn i tr).
Proof.
  induction tr as [|t tr IH]; intros [|i] H; cbn [skipn]; auto. apply IH. apply H.
Qed.

(** ** The oracle's two lookups on [em_from] *)
Lemma emit_addr_from tr : forall k i, (k <= i)%nat ->
  emit_addr (em_from k tr) i = match nth_error tr (i - k) with Some t => Some (tn_addr t) | None => None end.
Proof.
  unfold emit_addr. induction tr as [|t tr IH]; intros k i Hk; cbn [em_from filter fst].
  - destruct (i - k)%nat; reflexivity.
  - destruct (Nat.eqb_spec k i) as [->|Hne].
    + rewrite Nat.sub_diag. reflexivity.
    + rewrite (IH (S k) i) by lia. replace (i - k)%nat with (S (i - S k)) by lia. reflexivity.
Qed.

Lemma next_emitting_skip tr : forall k i, (k <= i)%nat ->
  next_emitting (em_from k tr) i = next_emitting (em_from i (skipn (i - k) tr)) i.
Proof.
  induction tr as [|t tr IH]; intros k i Hk.
  - destruct (i - k)%nat; reflexivity.
  - destruct (Nat.eq_dec k i) as [->|Hne].
    + rewrite Nat.sub_diag. reflexivity.
    + cbn [em_from next_emitting]. assert (L : Nat.ltb k i = true) by (apply Nat.ltb_lt; lia). rewrite L.
      rewrite (IH (S k) i) by lia. replace (i - k)%nat with (S (i - S k)) by lia. reflexivity.
Qed.

(** from a node onwards, the next emitting node before any position move sits at the node's own address *)
Lemma next_emitting_head tr : forall t rest k i b, tr = t :: rest -> (i <= k)%nat -> steady tr ->
  next_emitting (em_from k tr) i = Some b -> b = tn_addr t.
Proof.
  induction tr as [|t0 tr IH]; intros t rest k i b E Hk Hs; [discriminate|]. inversion E; subst t0 tr; clear E.
  cbn [em_from next_emitting].
  assert (L : Nat.ltb k i = false) by (apply Nat.ltb_ge; lia). rewrite L.
  destruct ((0 <? tn_kind t) && (tn_kind t <? 3)) eqn:Hkind; [discriminate|].
  destruct (Nat.ltb 0 (length (tn_bytes t))) eqn:Hn; [intros H; inversion H; reflexivity|].
  assert (Hbs : tn_bytes t = []) by (destruct (tn_bytes t); [reflexivity|discriminate]).
  destruct rest as [|t2 rest2]; [discriminate|].
  intros H. cbn [steady] in Hs. destruct Hs as [Hadj Hs'].
  rewrite <- (Hadj Hkind Hbs). eapply (IH t2 rest2 (S k) i); eauto.
Qed.

Lemma in_indexed_from P ns : forall k l i a, In (i, a) (indexed_from P k ns l) ->
  (k <= i)%nat /\ (i - k < length ns)%nat /\ nth_error l (i - k) = Some a.
Proof.
  induction ns as [|n ns IH]; intros k l i a H; cbn [indexed_from] in H; [contradiction|].
  destruct l as [|x l]; [contradiction|]. apply in_app_or in H as [H|H].
  - destruct (P n); [|contradiction]. destruct H as [H|[]]. inversion H; subst.
    rewrite Nat.sub_diag. cbn [length nth_error]. repeat split; auto; lia.
  - destruct (IH _ _ _ _ H) as (A & B & C). replace (i - k)%nat with (S (i - S k)) by lia.
    cbn [length nth_error]. repeat split; auto; lia.
Qed.

(** ** The oracle accepts the model's trace *)
Definition trace_spec (ns : list node) (addrs : list Z) (tr : list tnode) : spec :=
  STrace (labels_of ns addrs) (pass1_of ns addrs) (em_of tr).

Lemma trace_oracle_ok w ns st addrs tr st' impl :
  model_trace_st w st ns addrs = Ok (tr, st') -> spec_ok (trace_spec ns addrs tr) (OOk impl) = true.
Proof.
  intros T. destruct (trace_addrs _ _ _ _ _ _ T) as [Haddrs Hlen]. pose proof (trace_steady _ _ _ _ _ _ T) as Hst.
  assert (Hnth : forall P i a, In (i, a) (indexed_from P 0 ns addrs) ->
            exists t, nth_error tr i = Some t /\ tn_addr t = a).
  { intros P i a Hin. destruct (in_indexed_from _ _ _ _ _ _ Hin) as (_ & Hi & Hn). rewrite Nat.sub_0_r in *.
    rewrite Haddrs, nth_error_app1 in Hn by (rewrite map_length; lia).
    rewrite nth_error_map in Hn. destruct (nth_error tr i) as [t|]; [|discriminate].
    inversion Hn. eauto. }
  unfold trace_spec, spec_ok, labels_of, pass1_of, em_of. apply andb_true_intro. split.
  - apply forallb_forall. intros [i a] Hin. cbn [fst snd].
    destruct (Hnth _ _ _ Hin) as (t & Ht & Ha).
    rewrite (emit_addr_from tr 0 i) by lia. rewrite Nat.sub_0_r, Ht, Ha, Z.eqb_refl. cbn [andb].
    rewrite (next_emitting_skip tr 0 i) by lia. rewrite Nat.sub_0_r.
    destruct (next_emitting (em_from i (skipn i tr)) i) as [b|] eqn:NX; [|reflexivity].
    destruct (skipn i tr) as [|t' rest] eqn:Sk.
    { discriminate. }
    assert (t' = t).
    { pose proof (nth_error_split tr i Ht) as (l1 & l2 & -> & Hl1). rewrite <- Hl1 in Sk.
      rewrite skipn_app, skipn_all, Nat.sub_diag in Sk. cbn in Sk. inversion Sk. reflexivity. }
    subst t'. rewrite <- Sk in NX.
    rewrite (next_emitting_head (skipn i tr) t rest i i b Sk (le_n i) (steady_skipn tr i Hst) NX), Ha.
    apply Z.eqb_refl.
  - apply forallb_forall. intros [i a] Hin. cbn [fst snd].
    destruct (Hnth _ _ _ Hin) as (t & Ht & Ha).
    rewrite (emit_addr_from tr 0 i) by lia. rewrite Nat.sub_0_r, Ht, Ha. apply Z.eqb_refl.
Qed.

(** C02: for every node list and start state, when the model assembles, the trace oracle accepts the
    model's own trace — whatever the output it is shown (the oracle only looks at the trace once the
    assembly succeeded).  [pass1_of]/[labels_of] are the calls of the first pass ([first_pass_visits]). *)
Theorem assemble_trace_oracle w r ns o :
  assemble_nodes w r ns = Ok o ->
  exists r1 addrs tr,
    resolve_labels w r ns = Ok (r1, addrs) /\
    model_trace w (emit_start r1) ns addrs = Ok (tr, r_pc (o_final o)) /\
    spec_ok (trace_spec ns addrs tr) (OOk (o_blocks o, o_labels o)) = true.
Proof.
  intros H. destruct (assemble_writer_protocol _ _ _ _ H) as (r1 & addrs & tr & RL & T & _).
  exists r1, addrs, tr. refine (conj RL (conj T _)).
  unfold model_trace in T.
  destruct (model_trace_st w (emit_start r1) ns addrs) as [[tr' st']| |] eqn:TS; cbn [bind fst snd] in T; try discriminate.
  inversion T; subst tr'. eapply trace_oracle_ok; eauto.
Qed.

(** the address list [resolve_labels] returns is the list of addresses of the first pass:
    [pass1_of] is exactly the sequence of [pc_after] calls the first pass makes *)
Theorem first_pass_visits w r ns r1 addrs :
  resolve_labels w r ns = Ok (r1, addrs) ->
  length addrs = S (length ns) /\
  label_visits w (set_cur_last r (r_cur r) 0) ns (r_reloc r) 0 = Ok (pass1_of ns addrs).
Proof.
  unfold resolve_labels.
  destruct (label_pass w _ ns _ []) as [[[ra a1] l]| |] eqn:E1; cbn [bind]; try discriminate.
  destruct (symbol_pass w _ ns _) as [y| |]; cbn [bind]; try discriminate.
  intros H; inversion H; subst; clear H.
  destruct (label_pass_visits _ _ _ _ _ _ _ _ 0%nat E1) as (l' & -> & Hlen & V). cbn [app]. auto.
Qed.

(** labels are among the visited nodes (what the harness filters by class name) *)
Lemma labels_visited n : is_label_or_binary n = true -> visited n = true.
Proof. destruct n; cbn; intros H; try discriminate; reflexivity. Qed.

(** ** Examples (LoROM world of [NIExamples]) *)
From A816 Require Import Proofs.NonInterference Proofs.Unroll.
Module TraceExamples.
  Import NIExamples UnrollExamples WriterExamples.
  Notation l1 := [97]. Notation l2 := [98].
  (** [*=0x8000  a:  x = 1  {  .db 1  }  b:  *=0x18000  .db 2] : a label followed by non-emitting
      nodes, a label followed by a position move *)
  Definition prog : list node :=
    [NCodePos (hex [56;48;48;48]) fi; NLabel l1; NSymConst [120] 1; NScope; db [49]; NPop; NLabel l2;
     NCodePos (hex [49;56;48;48;48]) fi; db [50]].
  Definition r2 : rstate := {| r_scopes := r_scopes r0 ++ [new_scope (Some 0%nat) SPlain]; r_cur := 0; r_last := 0;
                               r_pc := r_pc r0; r_reloc := r_reloc r0; r_bus := r_bus r0; r_rom := r_rom r0 |}.
  Definition observed : res (list (nat * Z) * list (nat * Z) * list (nat * Z * nat * Z)) :=
    do ra <- resolve_labels ex_world r2 prog;
    do t <- model_trace ex_world (emit_start (fst ra)) prog (snd ra);
    Ok (labels_of prog (snd ra), pass1_of prog (snd ra), em_of (fst t)).
  Example observed_value : observed =
    Ok ([(1%nat, 32768); (6%nat, 32769)],
        [(0%nat, 0); (1%nat, 32768); (3%nat, 32768); (4%nat, 32768); (5%nat, 32769); (6%nat, 32769); (7%nat, 32769); (8%nat, 98304)],
        [(0%nat, 0, 0%nat, 1); (1%nat, 32768, 0%nat, 0); (2%nat, 32768, 0%nat, 0); (3%nat, 32768, 0%nat, 0);
         (4%nat, 32768, 1%nat, 0); (5%nat, 32769, 0%nat, 0); (6%nat, 32769, 0%nat, 0); (7%nat, 32769, 0%nat, 1);
         (8%nat, 98304, 1%nat, 0)]).
  Proof. vm_compute. reflexivity. Qed.
  Example oracle_accepts : match observed with
                           | Ok (ls, p1, em) => spec_ok (STrace ls p1 em) (OOk ([], [])) = true
                           | _ => False end.
  Proof. vm_compute. reflexivity. Qed.
  (** the oracle is not vacuous: a label bound one byte off is rejected *)
  Example oracle_rejects : match observed with
                           | Ok (ls, p1, em) => spec_ok (STrace [(1%nat, 32769)] p1 em) (OOk ([], [])) = false
                           | _ => False end.
  Proof. vm_compute. reflexivity. Qed.
End TraceExamples.

Print Assumptions assemble_trace_oracle.
Print Assumptions trace_oracle_ok.
Print Assumptions first_pass_visits.
