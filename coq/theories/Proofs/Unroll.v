(** C10 (loop half), part 2 — [.for v := lo, hi { body }] assembles to the same writer blocks as the
    program in which the loop is replaced by the hand-written blocks [{ v = k  body }] for
    k = from, ..., to-1.

    Code generation differs in two places only: each iteration lives in an *internal* scope where the
    hand-written block lives in a plain one, and the variable is bound by a [NSymConst v k] node
    where the hand-written block has the SymbolNode of [v = k].  [Proofs/UnrollSim.v] shows that the
    passes do not see either difference, except that the labels of internal scopes are not listed.
    Here: code generation ([code_gen_fuel], any nesting, macros, code splices) keeps related states
    related, and the loop statement against its unrolled twin produces related node lists. *)
From Coq Require Import ZArith List Lia Bool Arith.
From A816 Require Import Model.Codegen Proofs.BusProofs Proofs.CodegenProofs Proofs.NonInterference
     Proofs.UnrollSim.
Open Scope Z_scope.

(** ** The twin program *)

(** One hand-written iteration: [{ v = e  body }]. *)
Definition iteration_block (v : str) (e : expr) (b : list ast) (fi fi' : token) : ast :=
  ACompound (ASymbol v e fi :: b) fi'.

(** The hand-unrolled loop, one block per literal. *)
Definition unrolled (v : str) (lits : list expr) (b : list ast) (fi fi' : token) : list ast :=
  map (fun e => iteration_block v e b fi fi') lits.

(** [lits] are literals for k, k+1, ... *)
Fixpoint literals_for (w : world) (k : Z) (lits : list expr) : Prop :=
  match lits with
  | [] => True
  | e :: rest => is_literal w e k /\ literals_for w (k + 1) rest
  end.

(** A number token is a literal for its value; [- number] for the negated value. *)
Definition num_expr (s : str) : expr := [{| en_kind := EK_term; en_tok := mk_token T_NUMBER s |}].
Definition neg_expr (s : str) : expr :=
  [{| en_kind := EK_un; en_tok := mk_token T_OPERATOR [45] |}; {| en_kind := EK_term; en_tok := mk_token T_NUMBER s |}].

Lemma num_expr_literal w s k : eval_number s = Ok k -> is_literal w (num_expr s) k.
Proof.
  intros H r. unfold eval_raw, eval_expression, num_expr, shunting_yard.
  cbn [sy_loop en_kind app bind eval_rpn en_type en_tok mk_token t_type en_val t_value].
  rewrite H. reflexivity.
Qed.
Lemma neg_expr_literal w s k : eval_number s = Ok k -> is_literal w (neg_expr s) (- k).
Proof.
  intros H r. unfold eval_raw, eval_expression, neg_expr, shunting_yard.
  cbn [sy_loop en_kind app bind eval_rpn en_type en_tok mk_token t_type en_val t_value].
  rewrite H. reflexivity.
Qed.

Section CG.
  Variable w : world.

  (** ** Related code-generation states and results *)
  Definition cgsim (s1 s2 : cgstate) : Prop := ksim (cg_r s1) (cg_r s2) /\ cg_macros s1 = cg_macros s2.
  Definition grel (x y : cgstate * list node) : Prop :=
    cgsim (fst x) (fst y) /\ Forall2 (nrel w) (snd x) (snd y).

  (** a generator that respects the relation *)
  Definition gen_resp (gen : cgstate -> list ast -> res (cgstate * list node)) : Prop :=
    forall s1 s2 b, cgsim s1 s2 -> res_rel grel (gen s1 b) (gen s2 b).

  Lemma cgsim_refl s : cgsim s s.
  Proof. split; [apply ksim_refl|reflexivity]. Qed.
  Lemma cgsim_set_r s1 s2 r1 r2 : cgsim s1 s2 -> ksim r1 r2 -> cgsim (cg_set_r s1 r1) (cg_set_r s2 r2).
  Proof. intros [_ Hm] Hr. split; cbn [cg_set_r cg_r cg_macros]; auto. Qed.
  Lemma grel_same s1 s2 ns : cgsim s1 s2 -> grel (s1, ns) (s2, ns).
  Proof. intros H. split; cbn [fst snd]; [exact H|apply nrel_refl_list]. Qed.

  (** sequencing, as [gen_list] and [for_loop] do it *)
  Lemma seq_rel (A1 A2 : res (cgstate * list node)) (B1 B2 : cgstate -> res (cgstate * list node)) :
    res_rel grel A1 A2 -> (forall s1 s2, cgsim s1 s2 -> res_rel grel (B1 s1) (B2 s2)) ->
    res_rel grel (do x <- A1; do y <- B1 (fst x); Ok (fst y, snd x ++ snd y))
                 (do x <- A2; do y <- B2 (fst x); Ok (fst y, snd x ++ snd y)).
  Proof.
    intros HA HB. eapply res_rel_bind; [exact HA|].
    intros [sa na] [sb nb] [Hs Hn]. cbn [fst snd] in *.
    eapply res_rel_bind; [apply HB; exact Hs|].
    intros [sa' na'] [sb' nb'] [Hs' Hn']. cbn [fst snd] in *. cbn [res_rel].
    split; cbn [fst snd]; [exact Hs'|apply Forall2_app; assumption].
  Qed.

  (** ** The evaluations code generation performs *)
  Lemma if_condition_k r1 r2 c : ksim r1 r2 -> if_condition w r1 c = if_condition w r2 c.
  Proof. intros H. unfold if_condition. rewrite (eval_raw_k w r1 r2 c H). reflexivity. Qed.

  Lemma eval_macro_args_k r1 r2 : ksim r1 r2 -> forall ps args,
    eval_macro_args w r1 ps args = eval_macro_args w r2 ps args.
  Proof.
    intros H. induction ps as [|p ps IH]; intros args; cbn [eval_macro_args]; [reflexivity|].
    destruct args as [|a rest]; [reflexivity|].
    rewrite IH. destruct a as [e|[body fi]]; [|reflexivity].
    rewrite (eval_raw_k w r1 r2 e H). reflexivity.
  Qed.

  Lemma bind_macro_args_k bs : forall r1 r2, ksim r1 r2 ->
    ksim (fst (bind_macro_args r1 bs)) (fst (bind_macro_args r2 bs)) /\
    snd (bind_macro_args r1 bs) = snd (bind_macro_args r2 bs).
  Proof.
    induction bs as [|[p v] bs IH]; intros r1 r2 H; cbn [bind_macro_args]; [auto|].
    destruct v as [x|body fi|e].
    - apply IH. apply ksim_add_symbol. exact H.
    - apply IH. apply ksim_add_code. exact H.
    - destruct (IH r1 r2 H) as [Hr Hn].
      destruct (bind_macro_args r1 bs) as [ra na], (bind_macro_args r2 bs) as [rb nb].
      cbn [fst snd] in *. split; [exact Hr|congruence].
  Qed.

  (** ** A body in a fresh scope: the kinds may differ as [krel] allows, so may the bodies as long as
      what is generated for (binding nodes ++ body) is related *)
  Lemma scoped_rel gen k1 k2 s1 s2 pre1 pre2 b1 b2 :
    krel k1 k2 -> cgsim s1 s2 ->
    (forall r1 r2, ksim r1 r2 ->
       res_rel (fun x y => cgsim (fst x) (fst y) /\
                           Forall2 (nrel w) (snd (pre1 r1) ++ snd x) (snd (pre2 r2) ++ snd y))
               (gen (cg_set_r s1 (fst (pre1 r1))) b1) (gen (cg_set_r s2 (fst (pre2 r2))) b2)) ->
    res_rel grel (scoped gen k1 s1 pre1 b1) (scoped gen k2 s2 pre2 b2).
  Proof.
    intros Hk [Hr Hm] Hbody. unfold scoped.
    eapply res_rel_bind; [apply enter_scope_k; eauto|].
    intros ra rb Hab. specialize (Hbody ra rb Hab).
    destruct (pre1 ra) as [ra2 pn1], (pre2 rb) as [rb2 pn2]. cbn [fst snd] in Hbody.
    eapply res_rel_bind; [exact Hbody|].
    intros [sa na] [sb nb] [[Hs Hsm] Hn]. cbn [fst snd] in *.
    eapply res_rel_bind; [apply restore_scope_k; exact Hs|].
    intros ra3 rb3 H3. cbn [res_rel]. split; cbn [fst snd].
    - split; cbn [cg_set_r cg_r cg_macros]; auto.
    - constructor; [apply nrel_same|]. rewrite !app_assoc. apply Forall2_app; [exact Hn|].
      constructor; [apply nrel_same|constructor].
  Qed.

  (** the usual case: same body, related binding code *)
  Lemma scoped_k gen k1 k2 s1 s2 pre1 pre2 b :
    gen_resp gen -> krel k1 k2 -> cgsim s1 s2 ->
    (forall r1 r2, ksim r1 r2 -> ksim (fst (pre1 r1)) (fst (pre2 r2)) /\ Forall2 (nrel w) (snd (pre1 r1)) (snd (pre2 r2))) ->
    res_rel grel (scoped gen k1 s1 pre1 b) (scoped gen k2 s2 pre2 b).
  Proof.
    intros Hg Hk Hs Hpre. apply scoped_rel; auto.
    intros r1 r2 Hr. destruct (Hpre r1 r2 Hr) as [Hp Hn].
    eapply res_rel_impl; [|apply Hg; apply cgsim_set_r; eauto].
    intros [sa na] [sb nb] [Hs' Hn']. cbn [fst snd] in *. split; [exact Hs'|apply Forall2_app; assumption].
  Qed.

  Section Step.
    Variable gen : cgstate -> list ast -> res (cgstate * list node).
    Hypothesis Hgen : gen_resp gen.

    Lemma for_loop_k v b : forall n k s1 s2, cgsim s1 s2 ->
      res_rel grel (for_loop gen n k v b s1) (for_loop gen n k v b s2).
    Proof.
      induction n as [|n IH]; intros k s1 s2 H; cbn [for_loop].
      - apply grel_same. exact H.
      - apply seq_rel; [|intros sa sb Hab; apply IH; exact Hab].
        apply scoped_k; auto using krel_refl.
        intros r1 r2 Hr. cbn [fst snd]. split; [exact Hr|apply nrel_refl_list].
    Qed.

    Lemma gen_one_k s1 s2 a : cgsim s1 s2 -> res_rel grel (gen_one w gen s1 a) (gen_one w gen s2 a).
    Proof.
      intros H. pose proof H as [Hr Hm]. destruct a; cbn [gen_one].
      - (* ABlock *) apply Hgen. exact H.
      - (* ACompound *) apply scoped_k; auto using krel_refl.
        intros r1 r2 Hr'. cbn [fst snd]. split; [exact Hr'|constructor].
      - (* ALabel *) apply grel_same. exact H.
      - (* AText *) rewrite (get_table_k _ _ Hr). apply res_rel_bind_same; intros t _. apply grel_same. exact H.
      - (* AAscii *) apply grel_same. exact H.
      - (* AScope *) apply scoped_k; auto using krel_refl.
        intros r1 r2 Hr'. cbn [fst snd]. split; [exact Hr'|constructor].
      - (* AStarEq *) apply grel_same. exact H.
      - (* AAtEq *) apply grel_same. exact H.
      - (* AMap *) eapply res_rel_bind; [apply generate_map_k; exact Hr|].
        intros ra rb Hab. apply grel_same. apply cgsim_set_r; auto.
      - (* AIf *) rewrite (if_condition_k _ _ c Hr). apply res_rel_bind_same; intros cond _.
        destruct cond; [apply Hgen; exact H|].
        destruct el as [[eb ebfi]|]; [apply Hgen; exact H|apply grel_same; exact H].
      - (* AMacro *) cbn [res_rel]. split; cbn [fst snd]; [|constructor].
        split; cbn [cg_r cg_macros]; [exact Hr|rewrite Hm; reflexivity].
      - (* AMacroApply *) rewrite Hm. destruct (dict_get (cg_macros s2) name) as [md|]; [|reflexivity].
        rewrite (eval_macro_args_k _ _ Hr). apply res_rel_bind_same; intros bound _.
        apply scoped_k; auto using krel_refl.
        intros r1 r2 Hr'. destruct (bind_macro_args_k bound r1 r2 Hr') as [A B].
        split; [exact A|]. rewrite B. apply nrel_refl_list.
      - (* AData *) apply grel_same. exact H.
      - (* ATable *) apply res_rel_bind_same; intros t _. apply grel_same.
        apply cgsim_set_r; auto. apply ksim_set_table. exact Hr.
      - (* AIncludeIps *) rewrite (eval_raw_k w _ _ e Hr). apply res_rel_bind_same; intros delta _.
        apply res_rel_bind_same; intros blocks _. apply grel_same. exact H.
      - (* AIncbin *) apply res_rel_bind_same; intros c _. apply grel_same. exact H.
      - (* ASymbol *) apply grel_same. exact H.
      - (* AAssign *) rewrite (eval_raw_k w _ _ e Hr). apply res_rel_bind_same; intros v _.
        apply grel_same. apply cgsim_set_r; auto. apply ksim_add_symbol. exact Hr.
      - (* ACodeLookup *) rewrite (value_for_k _ _ name Hr).
        destruct (value_for (cg_r s2) name) as [[x|body bfi]|k|]; try reflexivity. apply Hgen. exact H.
      - (* AStruct *) reflexivity.
      - (* AFor *) rewrite (eval_raw_k w _ _ lo Hr), (eval_raw_k w _ _ hi Hr).
        apply res_rel_bind_same; intros from _. apply res_rel_bind_same; intros to _.
        apply for_loop_k. exact H.
      - (* AOpcode *) destruct mode; try (apply grel_same; exact H);
          (destruct operand as [e|]; [apply grel_same; exact H|reflexivity]).
    Qed.

    Lemma gen_list_k body : forall s1 s2, cgsim s1 s2 ->
      res_rel grel (gen_list w gen s1 body) (gen_list w gen s2 body).
    Proof.
      induction body as [|a rest IH]; intros s1 s2 H; cbn [gen_list].
      - apply grel_same. exact H.
      - apply (seq_rel _ _ (fun s => gen_list w gen s rest) (fun s => gen_list w gen s rest));
          [apply gen_one_k; exact H|]. intros sa sb Hab. apply IH. exact Hab.
    Qed.
  End Step.

  (** Code generation at any depth respects the relation. *)
  Theorem code_gen_resp fuel : gen_resp (code_gen_fuel w fuel).
  Proof.
    induction fuel as [|f IH]; intros s1 s2 b H; cbn [code_gen_fuel]; [reflexivity|].
    apply gen_list_k; auto.
  Qed.

  (** ** The loop against its unrolled twin *)

  (** what the generator does with a leading [v = e] statement (true of [code_gen_fuel] at any depth) *)
  Definition gen_sym_cons (gen : cgstate -> list ast -> res (cgstate * list node)) : Prop :=
    forall s v e fi b, gen s (ASymbol v e fi :: b) = (do y <- gen s b; Ok (fst y, NSymbol v e false :: snd y)).

  Lemma code_gen_sym_cons fuel : gen_sym_cons (code_gen_fuel w fuel).
  Proof.
    destruct fuel as [|f]; intros s v e fi b; cbn [code_gen_fuel]; [reflexivity|].
    cbn [gen_list gen_one bind fst snd app]. reflexivity.
  Qed.

  Section Loop.
    Variable gen : cgstate -> list ast -> res (cgstate * list node).
    Hypothesis Hgen : gen_resp gen.
    Hypothesis Hcons : gen_sym_cons gen.

    (** one iteration: internal scope + [NSymConst] against plain block + [v = literal] *)
    Lemma iteration_vs_block v k e b fi fi' s1 s2 :
      is_literal w e k -> cgsim s1 s2 ->
      res_rel grel (scoped gen SInternal s1 (fun r => (r, [NSymConst v k])) b)
                   (gen_one w gen s2 (iteration_block v e b fi fi')).
    Proof.
      intros He H. unfold iteration_block. cbn [gen_one].
      apply scoped_rel; [right; auto|exact H|].
      intros r1 r2 Hr. cbn [fst snd]. rewrite Hcons.
      pose proof (Hgen (cg_set_r s1 r1) (cg_set_r s2 r2) b (cgsim_set_r _ _ _ _ H Hr)) as HR.
      destruct (gen (cg_set_r s1 r1) b) as [[sa na]| |], (gen (cg_set_r s2 r2) b) as [[sb nb]| |];
        cbn [res_rel bind fst snd] in *; auto.
      destruct HR as [Hs Hn]. cbn [fst snd] in *. split; [exact Hs|].
      cbn [app]. constructor; [apply nrel_var; exact He|exact Hn].
    Qed.

    Lemma for_loop_vs_unrolled v b fi fi' : forall lits k s1 s2,
      cgsim s1 s2 -> literals_for w k lits ->
      res_rel grel (for_loop gen (length lits) k v b s1) (gen_list w gen s2 (unrolled v lits b fi fi')).
    Proof.
      induction lits as [|e lits IH]; intros k s1 s2 H Hl; cbn [length for_loop unrolled map gen_list].
      - apply grel_same. exact H.
      - destruct Hl as [He Hl].
        apply (seq_rel _ _ (fun s => for_loop gen (length lits) (k + 1) v b s)
                           (fun s => gen_list w gen s (unrolled v lits b fi fi'))).
        + apply iteration_vs_block; assumption.
        + intros sa sb Hab. apply IH; assumption.
    Qed.

    (** the [.for] statement against the unrolled statements *)
    Lemma for_vs_unrolled v lo hi b bfi fi0 fi fi' from to lits s1 s2 :
      cgsim s1 s2 ->
      eval_raw w (cg_r s1) lo = Ok from -> eval_raw w (cg_r s1) hi = Ok to ->
      length lits = Z.to_nat (to - from) -> literals_for w from lits ->
      res_rel grel (gen_one w gen s1 (AFor v lo hi b bfi fi0)) (gen_list w gen s2 (unrolled v lits b fi fi')).
    Proof.
      intros H Hlo Hhi Hlen Hl. cbn [gen_one]. rewrite Hlo, Hhi. cbn [bind]. rewrite <- Hlen.
      apply for_loop_vs_unrolled; assumption.
    Qed.

    (** inside a program: anything before, anything after *)
    Lemma program_vs_unrolled v lo hi b bfi fi0 fi fi' from to lits pre post s1 s2 :
      cgsim s1 s2 ->
      (forall s' ns', gen_list w gen s1 pre = Ok (s', ns') ->
                      eval_raw w (cg_r s') lo = Ok from /\ eval_raw w (cg_r s') hi = Ok to) ->
      length lits = Z.to_nat (to - from) -> literals_for w from lits ->
      res_rel grel (gen_list w gen s1 (pre ++ AFor v lo hi b bfi fi0 :: post))
                   (gen_list w gen s2 (pre ++ unrolled v lits b fi fi' ++ post)).
    Proof.
      intros H Hev Hlen Hl. rewrite !gen_list_app.
      pose proof (gen_list_k gen Hgen pre s1 s2 H) as HR.
      destruct (gen_list w gen s1 pre) as [[sa na]| |] eqn:E1, (gen_list w gen s2 pre) as [[sb nb]| |] eqn:E2;
        cbn [res_rel] in HR; try contradiction; cbn [bind res_rel fst snd]; auto.
      destruct HR as [Hs Hn]. cbn [fst snd] in Hs, Hn.
      destruct (Hev sa na eq_refl) as [Hlo Hhi].
      change (gen_list w gen sa (AFor v lo hi b bfi fi0 :: post))
        with (do x <- gen_one w gen sa (AFor v lo hi b bfi fi0); do y <- gen_list w gen (fst x) post; Ok (fst y, snd x ++ snd y)).
      rewrite gen_list_app.
      eapply res_rel_bind.
      - apply (seq_rel _ _ (fun s => gen_list w gen s post) (fun s => gen_list w gen s post)).
        + eapply for_vs_unrolled; eauto.
        + intros sa' sb' Hab. apply gen_list_k; assumption.
      - intros [sa' na'] [sb' nb'] [Hs' Hn']. cbn [fst snd] in *. cbn [res_rel].
        split; cbn [fst snd]; [exact Hs'|apply Forall2_app; assumption].
    Qed.
  End Loop.
End CG.

(** ** The statements *)

(** What the two assemblies have in common: the writer blocks; the final resolver states up to the
    kinds of the iteration scopes; the label listing of the loop program is the listing of the
    unrolled program without the labels of the scopes that are internal on the loop side (so it is a
    sub-list, and equal when those scopes hold no label). *)
Definition unroll_rel (o1 o2 : output) : Prop :=
  o_blocks o1 = o_blocks o2 /\
  ksim (o_final o1) (o_final o2) /\
  o_labels o1 = listed_with (r_scopes (o_final o1)) (r_scopes (o_final o2)) /\
  sublist (o_labels o1) (o_labels o2) /\
  (hidden_empty (r_scopes (o_final o1)) (r_scopes (o_final o2)) -> o_labels o1 = o_labels o2).

Lemma ok_unroll_rel o1 o2 : ok o1 o2 -> unroll_rel o1 o2.
Proof.
  intros (Hb & Hs & Hl1 & Hl2). refine (conj Hb (conj Hs (conj Hl1 (conj _ _)))).
  - rewrite Hl1, Hl2, <- (get_all_labels_k _ _ Hs). apply get_all_labels_k_sub. exact Hs.
  - intros He. rewrite Hl1, Hl2, <- (get_all_labels_k _ _ Hs). apply get_all_labels_k_eq; assumption.
Qed.

(** code generation at depth [fuel] followed by the passes *)
Definition assemble_fuel (w : world) (fuel : nat) (s : cgstate) (prog : list ast) : res output :=
  do x <- code_gen_fuel w fuel s prog; assemble_nodes w (cg_r (fst x)) (snd x).

Lemma assemble_ast_fuel w r prog :
  assemble_ast w r prog = assemble_fuel w cg_depth {| cg_r := r; cg_macros := [] |} prog.
Proof. reflexivity. Qed.

(** General form: related start states (e.g. the same state), any depth fuel. *)
Theorem for_equals_unrolled_from w fuel s1 s2 v lo hi b bfi fi0 fi fi' from to lits pre post :
  cgsim s1 s2 ->
  (forall s' ns', code_gen_fuel w fuel s1 pre = Ok (s', ns') ->
                  eval_raw w (cg_r s') lo = Ok from /\ eval_raw w (cg_r s') hi = Ok to) ->
  length lits = Z.to_nat (to - from) -> literals_for w from lits ->
  res_rel unroll_rel
    (assemble_fuel w fuel s1 (pre ++ AFor v lo hi b bfi fi0 :: post))
    (assemble_fuel w fuel s2 (pre ++ unrolled v lits b fi fi' ++ post)).
Proof.
  intros H Hev Hlen Hl. unfold assemble_fuel.
  destruct fuel as [|f]; [reflexivity|]. cbn [code_gen_fuel] in *.
  eapply res_rel_bind.
  - eapply program_vs_unrolled; eauto using code_gen_resp, code_gen_sym_cons.
  - intros [sa na] [sb nb] [[Hr Hm] Hn]. cbn [fst snd] in *.
    eapply res_rel_impl; [apply ok_unroll_rel|]. apply assemble_nodes_k; assumption.
Qed.

(** C10, loops: the assembly of a program containing [.for v := lo, hi { b }] and the assembly of the
    same program with the loop written out as [{ v = from  b } ... { v = to-1  b }] fail with the same
    kind of error, or both succeed with the same writer blocks (and the labels as [unroll_rel] says). *)
Theorem for_equals_unrolled w r v lo hi b bfi fi0 fi fi' from to lits pre post :
  (forall s' ns', code_gen_fuel w cg_depth {| cg_r := r; cg_macros := [] |} pre = Ok (s', ns') ->
                  eval_raw w (cg_r s') lo = Ok from /\ eval_raw w (cg_r s') hi = Ok to) ->
  length lits = Z.to_nat (to - from) -> literals_for w from lits ->
  res_rel unroll_rel
    (assemble_ast w r (pre ++ AFor v lo hi b bfi fi0 :: post))
    (assemble_ast w r (pre ++ unrolled v lits b fi fi' ++ post)).
Proof.
  intros Hev Hlen Hl. rewrite !assemble_ast_fuel.
  apply for_equals_unrolled_from with (from := from) (to := to); auto using cgsim_refl.
Qed.

(** The blocks alone, in match form. *)
Corollary for_equals_unrolled_blocks w r v lo hi b bfi fi0 fi fi' from to lits pre post :
  (forall s' ns', code_gen_fuel w cg_depth {| cg_r := r; cg_macros := [] |} pre = Ok (s', ns') ->
                  eval_raw w (cg_r s') lo = Ok from /\ eval_raw w (cg_r s') hi = Ok to) ->
  length lits = Z.to_nat (to - from) -> literals_for w from lits ->
  match assemble_ast w r (pre ++ AFor v lo hi b bfi fi0 :: post),
        assemble_ast w r (pre ++ unrolled v lits b fi fi' ++ post) with
  | Ok o1, Ok o2 => o_blocks o1 = o_blocks o2 /\ sublist (o_labels o1) (o_labels o2)
  | Err j, Err k => j = k
  | OutOfFuel, OutOfFuel => True
  | _, _ => False
  end.
Proof.
  intros Hev Hlen Hl.
  pose proof (for_equals_unrolled w r v lo hi b bfi fi0 fi fi' from to lits pre post Hev Hlen Hl) as H.
  destruct (assemble_ast w r (pre ++ AFor v lo hi b bfi fi0 :: post)),
           (assemble_ast w r (pre ++ unrolled v lits b fi fi' ++ post)); cbn [res_rel] in H; auto.
  destruct H as (A & _ & _ & B & _). auto.
Qed.

(** A decidable form of [hidden_empty], for concrete final states. *)
Definition kind_eqb (a b : skind) : bool :=
  match a, b with
  | SPlain, SPlain | SInternal, SInternal => true
  | SNamed x, SNamed y => str_eqb x y
  | _, _ => false
  end.
Lemma kind_eqb_eq a b : kind_eqb a b = true -> a = b.
Proof. destruct a, b; cbn [kind_eqb]; intros H; try discriminate; try reflexivity. apply str_eqb_eq in H. congruence. Qed.

Fixpoint hidden_emptyb (sc1 sc2 : list scope) : bool :=
  match sc1, sc2 with
  | [], [] => true
  | s1 :: r1, s2 :: r2 =>
      (kind_eqb (s_kind s1) (s_kind s2) || match s_labels s2 with [] => true | _ => false end) && hidden_emptyb r1 r2
  | _, _ => false
  end.
Lemma hidden_emptyb_sound sc1 : forall sc2, hidden_emptyb sc1 sc2 = true -> hidden_empty sc1 sc2.
Proof.
  induction sc1 as [|s1 r1 IH]; intros [|s2 r2] H; cbn [hidden_emptyb] in H; try discriminate; constructor.
  - apply andb_prop in H as [H _]. apply orb_prop in H as [H|H]; [left; apply kind_eqb_eq; exact H|right].
    destruct (s_labels s2); [reflexivity|discriminate].
  - apply IH. apply andb_prop in H as [_ H]. exact H.
Qed.

(** With the check on the two final states, the listings are equal. *)
Corollary for_equals_unrolled_labels w r v lo hi b bfi fi0 fi fi' from to lits pre post o1 o2 :
  (forall s' ns', code_gen_fuel w cg_depth {| cg_r := r; cg_macros := [] |} pre = Ok (s', ns') ->
                  eval_raw w (cg_r s') lo = Ok from /\ eval_raw w (cg_r s') hi = Ok to) ->
  length lits = Z.to_nat (to - from) -> literals_for w from lits ->
  assemble_ast w r (pre ++ AFor v lo hi b bfi fi0 :: post) = Ok o1 ->
  assemble_ast w r (pre ++ unrolled v lits b fi fi' ++ post) = Ok o2 ->
  hidden_emptyb (r_scopes (o_final o1)) (r_scopes (o_final o2)) = true ->
  o_blocks o1 = o_blocks o2 /\ o_labels o1 = o_labels o2.
Proof.
  intros Hev Hlen Hl E1 E2 Hh.
  pose proof (for_equals_unrolled w r v lo hi b bfi fi0 fi fi' from to lits pre post Hev Hlen Hl) as H.
  rewrite E1, E2 in H. cbn [res_rel] in H. destruct H as (A & _ & _ & _ & B).
  split; [exact A|]. apply B. apply hidden_emptyb_sound. exact Hh.
Qed.

(** ** Non-vacuity: a concrete world on the LoROM bus *)
Module UnrollExamples.
  Import NIExamples.
  Definition r0 : rstate := match resolver_init ex_world with Ok r => r | _ => ex_r end.
  Example r0_is_init : resolver_init ex_world = Ok r0. Proof. reflexivity. Qed.

  Notation v := [118]. Notation lab := [108].
  Definition n0 := num_expr [48]. Definition n1 := num_expr [49]. Definition n2 := num_expr [50].
  Definition neg1 := neg_expr [49].

  (** literals exist *)
  Example lits_0_1 : literals_for ex_world 0 [n0; n1].
  Proof. repeat split; apply num_expr_literal; reflexivity. Qed.
  Example lits_m1_0 : literals_for ex_world (-1) [neg1; n0].
  Proof. split; [apply (neg_expr_literal ex_world [49] 1); reflexivity|]. split; [apply num_expr_literal; reflexivity|exact I]. Qed.

  (** [*= 0x8000   .for v := 0, 2 { .db v }   .db 2] *)
  Definition pre := [AStarEq num8000 fi].
  Definition post := [AData D_db [n2] fi].
  Definition body := [AData D_db [ident v] fi].
  Definition loop_prog := pre ++ AFor v n0 n2 body fi fi :: post.
  Definition flat_prog := pre ++ unrolled v [n0; n1] body fi fi ++ post.

  Example bounds : forall s' ns', code_gen_fuel ex_world cg_depth {| cg_r := r0; cg_macros := [] |} pre = Ok (s', ns') ->
    eval_raw ex_world (cg_r s') n0 = Ok 0 /\ eval_raw ex_world (cg_r s') n2 = Ok 2.
  Proof. intros s' ns' _. split; apply num_expr_literal; reflexivity. Qed.

  Example loop_out : view (assemble_ast ex_world r0 loop_prog) = Ok ([([0; 1; 2], 0)], []).
  Proof. vm_compute. reflexivity. Qed.
  Example flat_out : view (assemble_ast ex_world r0 flat_prog) = Ok ([([0; 1; 2], 0)], []).
  Proof. vm_compute. reflexivity. Qed.

  (** the theorem applies to this pair *)
  Example loop_flat_related : res_rel unroll_rel (assemble_ast ex_world r0 loop_prog) (assemble_ast ex_world r0 flat_prog).
  Proof. exact (for_equals_unrolled ex_world r0 v n0 n2 body fi fi fi fi 0 2 [n0; n1] pre post bounds eq_refl lits_0_1). Qed.

  (** a label outside the loop and one in a nested block of the body: the listings are equal *)
  Definition nbody := [ACompound [ALabel lab fi] fi; AData D_db [ident v] fi].
  Definition post' := [ALabel [109] fi; AData D_db [n2] fi].
  Example nested_labels_equal : forall o1 o2,
    assemble_ast ex_world r0 (pre ++ AFor v n0 n2 nbody fi fi :: post') = Ok o1 ->
    assemble_ast ex_world r0 (pre ++ unrolled v [n0; n1] nbody fi fi ++ post') = Ok o2 ->
    o_blocks o1 = o_blocks o2 /\ o_labels o1 = o_labels o2.
  Proof.
    intros o1 o2 E1 E2.
    apply (for_equals_unrolled_labels ex_world r0 v n0 n2 nbody fi fi fi fi 0 2 [n0; n1] pre post' o1 o2 bounds eq_refl lits_0_1 E1 E2).
    vm_compute in E1, E2. inversion E1; inversion E2; subst. vm_compute. reflexivity.
  Qed.
  Example nested_labels_out : view (assemble_ast ex_world r0 (pre ++ AFor v n0 n2 nbody fi fi :: post'))
                              = Ok ([([0; 1; 2], 0)], [([109], 32770); (lab, 32768); (lab, 32769)]).
  Proof. vm_compute. reflexivity. Qed.

  (** a negative range: [.for v := -1, 1 { .db v }] against [{ v = -1 .db v } { v = 0 .db v }] *)
  Example loop_neg : view (assemble_ast ex_world r0 (pre ++ AFor v neg1 n1 body fi fi :: post)) = Ok ([([255; 0; 2], 0)], []).
  Proof. vm_compute. reflexivity. Qed.
  Example flat_neg : view (assemble_ast ex_world r0 (pre ++ unrolled v [neg1; n0] body fi fi ++ post)) = Ok ([([255; 0; 2], 0)], []).
  Proof. vm_compute. reflexivity. Qed.

  (** The label listing really differs when the body defines a label: the labels of the loop's
      (internal) scopes are not listed, those of the hand-written blocks are.  So the listing part of
      [unroll_rel] cannot be strengthened to equality without a hypothesis such as [hidden_empty]. *)
  Definition lbody := [ALabel lab fi; AData D_db [ident v] fi].
  Example loop_labels : view (assemble_ast ex_world r0 (pre ++ AFor v n0 n2 lbody fi fi :: post))
                        = Ok ([([0; 1; 2], 0)], []).
  Proof. vm_compute. reflexivity. Qed.
  Example flat_labels : view (assemble_ast ex_world r0 (pre ++ unrolled v [n0; n1] lbody fi fi ++ post))
                        = Ok ([([0; 1; 2], 0)], [(lab, 32768); (lab, 32769)]).
  Proof. vm_compute. reflexivity. Qed.

  (** both sides fail alike: the body refers to an undefined name *)
  Definition bad := [AData D_db [ident lab] fi].
  Example loop_fails : view (assemble_ast ex_world r0 (pre ++ AFor v n0 n2 bad fi fi :: post)) = Err ENode.
  Proof. vm_compute. reflexivity. Qed.
  Example flat_fails : view (assemble_ast ex_world r0 (pre ++ unrolled v [n0; n1] bad fi fi ++ post)) = Err ENode.
  Proof. vm_compute. reflexivity. Qed.
End UnrollExamples.

Print Assumptions for_equals_unrolled.
Print Assumptions for_equals_unrolled_from.
Print Assumptions for_equals_unrolled_blocks.
Print Assumptions for_equals_unrolled_labels.
Print Assumptions assemble_nodes_k.
Print Assumptions code_gen_resp.
