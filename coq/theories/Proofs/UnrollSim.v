(** C10 (loop half), part 1 — a simulation for "same program, but some scopes are plain blocks
    instead of internal (.for) scopes".

    [ksim r1 r2]: the two resolver states are equal field by field, except that a scope may be an
    [SInternal] scope on the left where it is an [SPlain] scope on the right.  The kind of a scope
    is consulted in two places only: [restore_scope] (exports of *named* scopes — neither related
    kind is named) and [get_all_labels] (labels of internal scopes are not listed).  Hence every
    resolver operation, both label passes and the emission give related results on related states,
    also when a [NSymConst v k] node (what [.for] generates for its variable) stands on the left
    where the right has [NSymbol v e false] with [e] a literal for [k] (what [v = k] generates). *)
From Coq Require Import ZArith List Lia Bool Arith.
From A816 Require Import Model.Codegen Proofs.BusProofs Proofs.ResolverProofs Proofs.EvalCongr
     Proofs.NonInterference.
Open Scope Z_scope.

(** ** The relation *)
Definition krel (k1 k2 : skind) : Prop := k1 = k2 \/ (k1 = SInternal /\ k2 = SPlain).

Record kscope (s1 s2 : scope) : Prop := {
  ks_parent : s_parent s1 = s_parent s2;
  ks_kind : krel (s_kind s1) (s_kind s2);
  ks_sym : s_symbols s1 = s_symbols s2;
  ks_code : s_code s1 = s_code s2;
  ks_lab : s_labels s1 = s_labels s2;
  ks_table : s_table s1 = s_table s2
}.

Record ksim (r1 r2 : rstate) : Prop := {
  km_scopes : Forall2 kscope (r_scopes r1) (r_scopes r2);
  km_cur : r_cur r1 = r_cur r2;
  km_last : r_last r1 = r_last r2;
  km_pc : r_pc r1 = r_pc r2;
  km_reloc : r_reloc r1 = r_reloc r2;
  km_bus : r_bus r1 = r_bus r2;
  km_rom : r_rom r1 = r_rom r2
}.

Lemma krel_refl k : krel k k.
Proof. left. reflexivity. Qed.
Lemma kscope_refl s : kscope s s.
Proof. constructor; auto using krel_refl. Qed.
Lemma kscopes_refl l : Forall2 kscope l l.
Proof. induction l; constructor; auto using kscope_refl. Qed.
Lemma ksim_refl r : ksim r r.
Proof. constructor; auto using kscopes_refl. Qed.

(** ** Field updates *)
Lemma ksim_set_cur r1 r2 c : ksim r1 r2 -> ksim (set_cur r1 c) (set_cur r2 c).
Proof. intros []; constructor; auto. Qed.
Lemma ksim_set_cur_last r1 r2 c l : ksim r1 r2 -> ksim (set_cur_last r1 c l) (set_cur_last r2 c l).
Proof. intros []; constructor; auto. Qed.
Lemma ksim_set_pc r1 r2 p : ksim r1 r2 -> ksim (set_pc r1 p) (set_pc r2 p).
Proof. intros []; constructor; auto. Qed.
Lemma ksim_set_reloc r1 r2 a : ksim r1 r2 -> ksim (set_reloc r1 a) (set_reloc r2 a).
Proof. intros []; constructor; auto. Qed.
Lemma ksim_set_bus r1 r2 b : ksim r1 r2 -> ksim (set_bus r1 b) (set_bus r2 b).
Proof. intros []; constructor; auto. Qed.
Lemma ksim_reset r1 r2 : ksim r1 r2 -> ksim (resolver_reset r1) (resolver_reset r2).
Proof. intros H. unfold resolver_reset. apply ksim_set_pc, ksim_set_cur_last, H. Qed.

Lemma ksim_upd r1 r2 i f g :
  (forall a b, kscope a b -> kscope (f a) (g b)) -> ksim r1 r2 -> ksim (upd_scope r1 i f) (upd_scope r2 i g).
Proof.
  intros Hfg []; constructor; auto. cbn [upd_scope set_scopes r_scopes].
  apply Forall2_list_update; auto.
Qed.

Lemma kscope_add_symbol n v a b : kscope a b -> kscope (scope_add_symbol n v a) (scope_add_symbol n v b).
Proof.
  intros []; constructor; cbn [scope_add_symbol s_parent s_kind s_code s_table s_symbols s_labels]; congruence.
Qed.
Lemma kscope_add_label n v a b : kscope a b -> kscope (scope_add_label n v a) (scope_add_label n v b).
Proof.
  intros []; constructor; cbn [scope_add_label s_parent s_kind s_code s_table s_symbols s_labels]; congruence.
Qed.
Lemma kscope_add_code n c a b : kscope a b -> kscope (scope_add_code n c a) (scope_add_code n c b).
Proof.
  intros []; constructor; cbn [scope_add_code s_parent s_kind s_code s_table s_symbols s_labels]; congruence.
Qed.
Lemma kscope_set_table t a b : kscope a b -> kscope (scope_set_table t a) (scope_set_table t b).
Proof.
  intros []; constructor; cbn [scope_set_table s_parent s_kind s_code s_table s_symbols s_labels]; congruence.
Qed.

Lemma ksim_add_symbol r1 r2 n v : ksim r1 r2 -> ksim (add_symbol r1 n v) (add_symbol r2 n v).
Proof. intros H. unfold add_symbol. rewrite (km_cur _ _ H). apply ksim_upd; auto using kscope_add_symbol. Qed.
Lemma ksim_add_label r1 r2 n v : ksim r1 r2 -> ksim (add_label r1 n v) (add_label r2 n v).
Proof. intros H. unfold add_label. rewrite (km_cur _ _ H). apply ksim_upd; auto using kscope_add_label. Qed.
Lemma ksim_add_code r1 r2 n c : ksim r1 r2 -> ksim (add_code r1 n c) (add_code r2 n c).
Proof. intros H. unfold add_code. rewrite (km_cur _ _ H). apply ksim_upd; auto using kscope_add_code. Qed.
Lemma ksim_set_table r1 r2 t :
  ksim r1 r2 -> ksim (upd_scope r1 (r_cur r1) (scope_set_table t)) (upd_scope r2 (r_cur r2) (scope_set_table t)).
Proof. intros H. rewrite (km_cur _ _ H). apply ksim_upd; auto using kscope_set_table. Qed.

(** ** Lookups do not see the kind *)
Lemma scope_getitem_k s1 s2 q : kscope s1 s2 -> scope_getitem s1 q = scope_getitem s2 q.
Proof. intros H. unfold scope_getitem. rewrite (ks_code _ _ H), (ks_sym _ _ H). reflexivity. Qed.

Lemma value_for_fuel_k sc1 sc2 q : Forall2 kscope sc1 sc2 -> forall fuel i,
  value_for_fuel sc1 fuel i q = value_for_fuel sc2 fuel i q.
Proof.
  intros H fuel; induction fuel as [|fuel IH]; intros i; [reflexivity|]. cbn [value_for_fuel].
  pose proof (Forall2_nth_error _ _ _ H i) as Hi.
  destruct (nth_error sc1 i) as [s1|], (nth_error sc2 i) as [s2|]; try contradiction; [|reflexivity].
  rewrite (ks_parent _ _ Hi), (ks_code _ _ Hi), (ks_sym _ _ Hi), (scope_getitem_k _ _ q Hi).
  destruct (s_parent s2); [|reflexivity]. rewrite IH. reflexivity.
Qed.

Lemma value_for_k r1 r2 q : ksim r1 r2 -> value_for r1 q = value_for r2 q.
Proof.
  intros H. unfold value_for. rewrite (km_cur _ _ H). apply value_for_fuel_k. apply (km_scopes _ _ H).
Qed.

Lemma env_of_k r1 r2 q : ksim r1 r2 -> env_of r1 q = env_of r2 q.
Proof. intros H. unfold env_of. rewrite (value_for_k r1 r2 q H). reflexivity. Qed.

Lemma eval_raw_k w r1 r2 e : ksim r1 r2 -> eval_raw w r1 e = eval_raw w r2 e.
Proof.
  intros H. unfold eval_raw. apply eval_expression_congr.
  apply Forall_forall. intros t _ _. apply env_of_k. exact H.
Qed.
Lemma get_value_k w r1 r2 e : ksim r1 r2 -> get_value w r1 e = get_value w r2 e.
Proof. intros H. unfold get_value. rewrite (eval_raw_k w r1 r2 e H). reflexivity. Qed.

Lemma get_bus_k w r1 r2 : ksim r1 r2 -> get_bus w r1 = get_bus w r2.
Proof. intros H. unfold get_bus. rewrite (km_bus _ _ H), (km_rom _ _ H). reflexivity. Qed.

Lemma get_table_fuel_k sc1 sc2 : Forall2 kscope sc1 sc2 -> forall fuel i,
  get_table_fuel sc1 fuel i = get_table_fuel sc2 fuel i.
Proof.
  intros H fuel; induction fuel as [|fuel IH]; intros i; [reflexivity|]. cbn [get_table_fuel].
  pose proof (Forall2_nth_error _ _ _ H i) as Hi.
  destruct (nth_error sc1 i) as [s1|], (nth_error sc2 i) as [s2|]; try contradiction; [|reflexivity].
  rewrite (ks_parent _ _ Hi), (ks_table _ _ Hi).
  destruct (s_table s2); [reflexivity|]. destruct (s_parent s2); [|reflexivity]. apply IH.
Qed.
Lemma get_table_k r1 r2 : ksim r1 r2 -> get_table r1 = get_table r2.
Proof.
  intros H. unfold get_table. rewrite (km_cur _ _ H). apply get_table_fuel_k. apply (km_scopes _ _ H).
Qed.

(** ** Scope moves *)
Lemma use_next_scope_k r1 r2 : ksim r1 r2 -> res_rel ksim (use_next_scope r1) (use_next_scope r2).
Proof.
  intros H. unfold use_next_scope. rewrite (km_last _ _ H).
  pose proof (Forall2_nth_error _ _ _ (km_scopes _ _ H) (S (r_last r2))) as Hi.
  destruct (nth_error (r_scopes r1) _), (nth_error (r_scopes r2) _); try contradiction; cbn [res_rel]; auto.
  apply ksim_set_cur_last; auto.
Qed.

Lemma append_scope_k r1 r2 k1 k2 : krel k1 k2 -> ksim r1 r2 -> ksim (append_scope r1 k1) (append_scope r2 k2).
Proof.
  intros Hk H. pose proof H as [Hs Hc Hl Hp Hr Hb Hm]. constructor; auto.
  unfold append_scope. cbn [set_scopes r_scopes]. apply Forall2_app; [exact Hs|].
  constructor; [|constructor]. rewrite Hc. constructor; cbn [new_scope s_parent s_kind s_symbols s_code s_labels s_table]; auto.
Qed.

Lemma enter_scope_k r1 r2 k1 k2 : krel k1 k2 -> ksim r1 r2 -> res_rel ksim (enter_scope r1 k1) (enter_scope r2 k2).
Proof. intros Hk H. unfold enter_scope. apply use_next_scope_k, append_scope_k; auto. Qed.

Lemma kscope_export name c : forall a b, kscope a b -> kscope (export_into name c a) (export_into name c b).
Proof.
  unfold export_into. induction c as [|kv c IH]; intros a b H; cbn [fold_left]; [exact H|].
  apply IH. apply kscope_add_symbol. exact H.
Qed.

(** [restore_scope]: the only kind that changes its behaviour is [SNamed], and a named scope is
    named on both sides. *)
Lemma restore_scope_k r1 r2 e : ksim r1 r2 -> res_rel ksim (restore_scope r1 e) (restore_scope r2 e).
Proof.
  intros H. unfold restore_scope. rewrite (km_cur _ _ H).
  pose proof (Forall2_nth_error _ _ _ (km_scopes _ _ H) (r_cur r2)) as Hi.
  destruct (nth_error (r_scopes r1) _) as [s1|], (nth_error (r_scopes r2) _) as [s2|]; try contradiction;
    cbn [res_rel]; auto.
  rewrite (ks_parent _ _ Hi).
  destruct (s_parent s2) as [p|]; cbn [res_rel]; auto.
  apply ksim_set_cur.
  destruct (ks_kind _ _ Hi) as [Hk|[Hk1 Hk2]].
  - rewrite Hk, (ks_sym _ _ Hi). destruct (s_kind s2); auto. destruct e; auto.
    apply ksim_upd; auto. intros a b Hab. apply kscope_export. exact Hab.
  - rewrite Hk1, Hk2. exact H.
Qed.

Lemma set_position_k w r1 r2 v : ksim r1 r2 -> res_rel ksim (set_position w r1 v) (set_position w r2 v).
Proof.
  intros H. unfold set_position. rewrite (get_bus_k w r1 r2 H).
  apply res_rel_bind_same; intros b _. apply res_rel_bind_same; intros a _. apply res_rel_bind_same; intros p _.
  cbn [res_rel]. apply ksim_set_reloc. destruct p; auto using ksim_set_pc.
Qed.

(** ** One node *)
Definition pk {T} (x y : rstate * T) : Prop := ksim (fst x) (fst y) /\ snd x = snd y.

Lemma operand_value_k w r1 r2 o : ksim r1 r2 -> operand_value w r1 o = operand_value w r2 o.
Proof. intros H. destruct o; cbn [operand_value]; [|reflexivity]. rewrite (get_value_k w r1 r2 e H). reflexivity. Qed.
Lemma opcode_length_k w r1 r2 op m i o sz : ksim r1 r2 ->
  opcode_length w r1 op m i o sz = opcode_length w r2 op m i o sz.
Proof. intros H. unfold opcode_length. rewrite (operand_value_k w r1 r2 o H). reflexivity. Qed.
Lemma opcode_emit_k w r1 r2 op m i o sz : ksim r1 r2 ->
  opcode_emit w r1 op m i o sz = opcode_emit w r2 op m i o sz.
Proof.
  intros H. unfold opcode_emit, rel_emit, dummy_rc.
  rewrite (operand_value_k w r1 r2 o H), (get_bus_k w r1 r2 H), (km_reloc _ _ H), (km_pc _ _ H).
  reflexivity.
Qed.

(** SymbolNode's evaluation scope *)
Definition sym_scope (r : rstate) (in_parent : bool) : rstate :=
  if in_parent
  then match nth_error (r_scopes r) (r_cur r) with
       | Some s => match s_parent s with Some p => set_cur r p | None => r end
       | None => r
       end
  else r.
Lemma sym_scope_k r1 r2 ip : ksim r1 r2 -> ksim (sym_scope r1 ip) (sym_scope r2 ip).
Proof.
  intros H. unfold sym_scope. destruct ip; auto. rewrite (km_cur _ _ H).
  pose proof (Forall2_nth_error _ _ _ (km_scopes _ _ H) (r_cur r2)) as Hi.
  destruct (nth_error (r_scopes r1) _) as [s1|], (nth_error (r_scopes r2) _) as [s2|]; try contradiction; auto.
  rewrite (ks_parent _ _ Hi). destruct (s_parent s2); auto using ksim_set_cur.
Qed.

Lemma pc_after_symbol w r name e ip a :
  pc_after w r (NSymbol name e ip) a = (do v <- eval_raw w (sym_scope r ip) e; Ok (add_symbol r name v, a)).
Proof. reflexivity. Qed.

Lemma pc_after_k w r1 r2 n a : ksim r1 r2 -> res_rel pk (pc_after w r1 n a) (pc_after w r2 n a).
Proof.
  intros H. destruct n.
  - cbn [pc_after res_rel]. split; cbn [fst snd]; auto using ksim_add_label.
  - rewrite !pc_after_symbol. rewrite (eval_raw_k w _ _ e (sym_scope_k r1 r2 in_parent H)).
    apply res_rel_bind_same; intros v _. split; cbn [fst snd]; auto using ksim_add_symbol.
  - cbn [pc_after res_rel]. split; cbn [fst snd]; auto using ksim_add_symbol.
  - cbn [pc_after]. apply res_rel_bind_same; intros a' _. split; cbn [fst snd]; auto using ksim_add_symbol, ksim_add_label.
  - cbn [pc_after]. apply res_rel_bind_same; intros a' _. split; cbn [fst snd]; auto.
  - cbn [pc_after]. rewrite (opcode_length_k w r1 r2 opcode mode index operand size H).
    apply res_rel_bind_same; intros len _. apply res_rel_bind_same; intros a' _. split; cbn [fst snd]; auto.
  - cbn [pc_after]. rewrite (get_value_k w r1 r2 e H), (get_bus_k w r1 r2 H).
    apply res_rel_bind_same; intros v _. apply res_rel_bind_same; intros b _. apply res_rel_bind_same; intros a' _.
    split; cbn [fst snd]; auto.
  - cbn [pc_after]. rewrite (get_value_k w r1 r2 e H), (get_bus_k w r1 r2 H).
    apply res_rel_bind_same; intros v _. apply res_rel_bind_same; intros b _. apply res_rel_bind_same; intros a' _.
    split; cbn [fst snd]; auto.
  - cbn [pc_after res_rel]. split; cbn [fst snd]; auto.
  - cbn [pc_after]. eapply res_rel_bind; [apply use_next_scope_k; exact H|]. intros ra rb Hab. split; cbn [fst snd]; auto.
  - cbn [pc_after]. eapply res_rel_bind; [apply restore_scope_k; exact H|]. intros ra rb Hab. split; cbn [fst snd]; auto.
  - cbn [pc_after res_rel]. split; cbn [fst snd]; auto.
  - cbn [pc_after]. apply res_rel_bind_same; intros bs _. apply res_rel_bind_same; intros a' _. split; cbn [fst snd]; auto.
  - cbn [pc_after]. apply res_rel_bind_same; intros a' _. split; cbn [fst snd]; auto.
Qed.

Lemma node_emit_k w r1 r2 n : ksim r1 r2 -> res_rel pk (node_emit w r1 n) (node_emit w r2 n).
Proof.
  intros H. destruct n; cbn [node_emit];
    try (cbn [res_rel]; split; cbn [fst snd]; auto; fail).
  - rewrite (get_value_k w r1 r2 e H). apply res_rel_bind_same; intros v _. split; cbn [fst snd]; auto.
  - rewrite (opcode_emit_k w r1 r2 opcode mode index operand size H).
    apply res_rel_bind_same; intros bs _. split; cbn [fst snd]; auto.
  - rewrite (get_value_k w r1 r2 e H). apply res_rel_bind_same; intros v _.
    eapply res_rel_bind; [apply set_position_k; exact H|]. intros ra rb Hab. split; cbn [fst snd]; auto.
  - rewrite (get_value_k w r1 r2 e H). apply res_rel_bind_same; intros v _.
    eapply res_rel_bind; [apply set_position_k; exact H|]. intros ra rb Hab. split; cbn [fst snd]; auto.
  - eapply res_rel_bind; [apply use_next_scope_k; exact H|]. intros ra rb Hab. split; cbn [fst snd]; auto.
  - eapply res_rel_bind; [apply restore_scope_k; exact H|]. intros ra rb Hab. split; cbn [fst snd]; auto.
  - apply res_rel_bind_same; intros bs _. split; cbn [fst snd]; auto.
Qed.

Record ek (s1 s2 : estate) : Prop := {
  ek_r : ksim (e_r s1) (e_r s2);
  ek_block : e_block s1 = e_block s2;
  ek_baddr : e_baddr s1 = e_baddr s2;
  ek_out : e_out s1 = e_out s2
}.

Lemma emit_step_k w s1 s2 n x : ek s1 s2 -> res_rel ek (emit_step w s1 n x) (emit_step w s2 n x).
Proof.
  intros [Hr Hb Ha Ho]. unfold emit_step. rewrite (km_reloc _ _ Hr).
  destruct (negb _); [reflexivity|].
  eapply res_rel_bind; [apply node_emit_k; eauto|].
  intros [ra bs] [rb bs'] [Hs Hbs]. cbn [fst snd] in Hs, Hbs. subst bs'.
  eapply res_rel_bind with (R := ksim).
  - destruct bs as [|b0 bs0]; [exact Hs|]. rewrite (km_reloc _ _ Hs), (km_pc _ _ Hs).
    apply res_rel_bind_same; intros a' _. cbn [res_rel]. apply ksim_set_reloc, ksim_set_pc, Hs.
  - intros r2a r2b H2. cbn [res_rel]. rewrite Hb, Ha, Ho, (km_pc _ _ H2).
    destruct n; cbn [is_codepos]; constructor; cbn [e_r e_block e_baddr e_out]; auto.
Qed.

(** ** The loop variable: [NSymConst v k] against [NSymbol v e false], [e] a literal for [k] *)

(** [e] evaluates to [k] whatever the resolver state. *)
Definition is_literal (w : world) (e : expr) (k : Z) : Prop := forall r, eval_raw w r e = Ok k.

Inductive nrel (w : world) : node -> node -> Prop :=
| nrel_same n : nrel w n n
| nrel_var v k e : is_literal w e k -> nrel w (NSymConst v k) (NSymbol v e false).

Lemma nrel_refl_list w ns : Forall2 (nrel w) ns ns.
Proof. induction ns; constructor; auto using nrel_same. Qed.

Lemma nrel_is_symbol w n1 n2 : nrel w n1 n2 -> is_symbol_node n1 = is_symbol_node n2.
Proof. intros []; reflexivity. Qed.
Lemma nrel_is_label w n1 n2 : nrel w n1 n2 -> is_label_or_binary n1 = is_label_or_binary n2.
Proof. intros []; reflexivity. Qed.

Lemma pc_after_nrel w r1 r2 n1 n2 a : nrel w n1 n2 -> ksim r1 r2 ->
  res_rel pk (pc_after w r1 n1 a) (pc_after w r2 n2 a).
Proof.
  intros [n|v k e He] H; [apply pc_after_k; exact H|].
  rewrite pc_after_symbol. cbn [sym_scope]. rewrite (He r2). cbn [pc_after bind res_rel].
  split; cbn [fst snd]; auto using ksim_add_symbol.
Qed.

(** emitting either form of the definition is only the phase check *)
Lemma emit_step_nrel_eq w st n1 n2 x : nrel w n1 n2 -> emit_step w st n1 x = emit_step w st n2 x.
Proof. intros []; reflexivity. Qed.

Lemma emit_step_nrel w s1 s2 n1 n2 x : nrel w n1 n2 -> ek s1 s2 ->
  res_rel ek (emit_step w s1 n1 x) (emit_step w s2 n2 x).
Proof. intros Hn H. rewrite (emit_step_nrel_eq w s1 n1 n2 x Hn). apply emit_step_k. exact H. Qed.

(** ** The passes on pointwise related node lists *)
Definition lk (x y : rstate * addr * list Z) : Prop :=
  ksim (fst (fst x)) (fst (fst y)) /\ snd (fst x) = snd (fst y) /\ snd x = snd y.

Lemma label_pass_k w ns1 ns2 : Forall2 (nrel w) ns1 ns2 -> forall r1 r2 a acc, ksim r1 r2 ->
  res_rel lk (label_pass w r1 ns1 a acc) (label_pass w r2 ns2 a acc).
Proof.
  induction 1 as [|n1 n2 ns1 ns2 Hn Hns IH]; intros r1 r2 a acc H; cbn [label_pass].
  - cbn [res_rel]. unfold lk. cbn [fst snd]. auto.
  - rewrite (nrel_is_symbol w n1 n2 Hn). destruct (is_symbol_node n2); [apply IH; exact H|].
    eapply res_rel_bind; [apply pc_after_nrel; eauto|].
    intros [ra a1] [rb a2] [Hs Ha]. cbn [fst snd] in *. subst a2. apply IH. exact Hs.
Qed.

Lemma symbol_pass_k w ns1 ns2 : Forall2 (nrel w) ns1 ns2 -> forall r1 r2 a, ksim r1 r2 ->
  res_rel pk (symbol_pass w r1 ns1 a) (symbol_pass w r2 ns2 a).
Proof.
  induction 1 as [|n1 n2 ns1 ns2 Hn Hns IH]; intros r1 r2 a H; cbn [symbol_pass].
  - split; auto.
  - rewrite (nrel_is_label w n1 n2 Hn). destruct (is_label_or_binary n2); [apply IH; exact H|].
    eapply res_rel_bind; [apply pc_after_nrel; eauto|].
    intros [ra a1] [rb a2] [Hs Ha]. cbn [fst snd] in *. subst a2. apply IH. exact Hs.
Qed.

Lemma emit_loop_k w ns1 ns2 : Forall2 (nrel w) ns1 ns2 -> forall s1 s2 addrs, ek s1 s2 ->
  res_rel ek (emit_loop w s1 ns1 addrs) (emit_loop w s2 ns2 addrs).
Proof.
  induction 1 as [|n1 n2 ns1 ns2 Hn Hns IH]; intros s1 s2 addrs H; cbn [emit_loop].
  - destruct addrs as [|x [|y l]]; try reflexivity.
    rewrite (km_reloc _ _ (ek_r _ _ H)). destruct (negb _); [reflexivity|exact H].
  - destruct addrs as [|x addrs]; [reflexivity|].
    eapply res_rel_bind; [apply emit_step_nrel; eauto|]. intros sa sb Hab. apply IH. exact Hab.
Qed.

Definition rlk (x y : rstate * list Z) : Prop := ksim (fst x) (fst y) /\ snd x = snd y.

Lemma resolve_labels_k w ns1 ns2 r1 r2 : Forall2 (nrel w) ns1 ns2 -> ksim r1 r2 ->
  res_rel rlk (resolve_labels w r1 ns1) (resolve_labels w r2 ns2).
Proof.
  intros Hns H. unfold resolve_labels.
  assert (H0 : ksim (set_cur_last r1 (r_cur r1) 0) (set_cur_last r2 (r_cur r2) 0))
    by (rewrite (km_cur _ _ H); apply ksim_set_cur_last; exact H).
  rewrite (km_reloc _ _ H0).
  eapply res_rel_bind; [apply label_pass_k; eauto|].
  intros [[ra a1] l1] [[rb a2] l2] (Hs & Ha & Hl). cbn [fst snd] in Hs, Ha, Hl. subst a2 l2.
  pose proof (ksim_reset _ _ Hs) as Hr. rewrite (km_reloc _ _ Hr).
  eapply res_rel_bind; [apply symbol_pass_k; eauto|].
  intros [ra' a1'] [rb' a2'] [Hs' _]. cbn [fst snd] in Hs'. cbn [res_rel].
  split; cbn [fst snd]; [apply ksim_reset; exact Hs'|reflexivity].
Qed.

Lemma emit_k w ns1 ns2 r1 r2 l : Forall2 (nrel w) ns1 ns2 -> ksim r1 r2 ->
  res_rel pk (emit w r1 ns1 l) (emit w r2 ns2 l).
Proof.
  intros Hns H. unfold emit.
  eapply res_rel_bind.
  - apply emit_loop_k; eauto. constructor; cbn [e_r e_block e_baddr e_out]; auto. apply (km_pc _ _ H).
  - intros sa sb [Hr Hb Ha Ho]. cbn [res_rel]. split; cbn [fst snd]; [exact Hr|].
    rewrite Hb, Ha, Ho. reflexivity.
Qed.

(** ** The label listing *)

(** The listing of [l] with the kinds (internal or not) taken from [kinds]. *)
Definition listed_with (kinds l : list scope) : list (str * Z) :=
  flat_map (fun p => match s_kind (fst p) with SInternal => [] | _ => s_labels (snd p) end) (combine kinds l).

Lemma listed_with_self l : listed_with l l = flat_map (fun s => match s_kind s with SInternal => [] | _ => s_labels s end) l.
Proof. unfold listed_with. induction l as [|s l IH]; cbn [combine flat_map fst snd]; [reflexivity|]. rewrite IH. reflexivity. Qed.

(** the left listing is the right one without the labels of the scopes that are internal on the left *)
Lemma get_all_labels_k r1 r2 : ksim r1 r2 ->
  get_all_labels r1 = listed_with (r_scopes r1) (r_scopes r2).
Proof.
  intros H. unfold get_all_labels, listed_with.
  induction (km_scopes _ _ H) as [|s1 s2 l1 l2 Hs _ IH]; cbn [combine flat_map fst snd]; [reflexivity|].
  rewrite IH, (ks_lab _ _ Hs). reflexivity.
Qed.

(** [hidden_empty]: every scope whose kind differs has no labels. *)
Definition hidden_empty (sc1 sc2 : list scope) : Prop :=
  Forall2 (fun s1 s2 => s_kind s1 = s_kind s2 \/ s_labels s2 = []) sc1 sc2.

Lemma get_all_labels_k_eq r1 r2 : ksim r1 r2 -> hidden_empty (r_scopes r1) (r_scopes r2) ->
  get_all_labels r1 = get_all_labels r2.
Proof.
  intros H He. rewrite (get_all_labels_k r1 r2 H). unfold get_all_labels, listed_with, hidden_empty in *.
  pose proof (km_scopes _ _ H) as Hs.
  induction He as [|s1 s2 l1 l2 Hk _ IH]; cbn [combine flat_map fst snd]; [reflexivity|].
  inversion Hs as [|? ? ? ? Hs1 Hsl]; subst. rewrite (IH Hsl). f_equal.
  destruct Hk as [Hk|Hk]; [rewrite Hk; reflexivity|].
  rewrite Hk. destruct (s_kind s1), (s_kind s2); reflexivity.
Qed.

(** in general the left listing is the right one with some entries removed (order kept) *)
Inductive sublist {A} : list A -> list A -> Prop :=
| sub_nil : sublist [] []
| sub_keep x l1 l2 : sublist l1 l2 -> sublist (x :: l1) (x :: l2)
| sub_drop x l1 l2 : sublist l1 l2 -> sublist l1 (x :: l2).

Lemma sublist_refl {A} (l : list A) : sublist l l.
Proof. induction l; constructor; auto. Qed.
Lemma sublist_nil_l {A} (l : list A) : sublist [] l.
Proof. induction l; constructor; auto. Qed.
Lemma sublist_app {A} (a1 a2 b1 b2 : list A) : sublist a1 a2 -> sublist b1 b2 -> sublist (a1 ++ b1) (a2 ++ b2).
Proof. induction 1; intros Hb; cbn [app]; auto; constructor; auto. Qed.

Lemma get_all_labels_k_sub r1 r2 : ksim r1 r2 -> sublist (get_all_labels r1) (get_all_labels r2).
Proof.
  intros H. unfold get_all_labels.
  induction (km_scopes _ _ H) as [|s1 s2 l1 l2 Hs _ IH]; cbn [flat_map]; [constructor|].
  apply sublist_app; [|exact IH]. rewrite (ks_lab _ _ Hs).
  destruct (ks_kind _ _ Hs) as [Hk|[Hk1 Hk2]].
  - rewrite Hk. apply sublist_refl.
  - rewrite Hk1, Hk2. apply sublist_nil_l.
Qed.

(** ** assemble_nodes *)
Definition ok (o1 o2 : output) : Prop :=
  o_blocks o1 = o_blocks o2 /\ ksim (o_final o1) (o_final o2) /\
  o_labels o1 = listed_with (r_scopes (o_final o1)) (r_scopes (o_final o2)) /\
  o_labels o2 = get_all_labels (o_final o2).

Theorem assemble_nodes_k w ns1 ns2 r1 r2 : Forall2 (nrel w) ns1 ns2 -> ksim r1 r2 ->
  res_rel ok (assemble_nodes w r1 ns1) (assemble_nodes w r2 ns2).
Proof.
  intros Hns H. unfold assemble_nodes.
  eapply res_rel_bind; [apply resolve_labels_k; eauto|].
  intros [ra l1] [rb l2] [Hs Hl]. cbn [fst snd] in Hs, Hl |- *. subst l2.
  eapply res_rel_bind; [apply emit_k; eauto|].
  intros [ra' b1] [rb' b2] [Hs' Hb]. cbn [fst snd] in Hs', Hb |- *. subst b2. cbn [res_rel].
  unfold ok. cbn [o_blocks o_labels o_final].
  refine (conj eq_refl (conj Hs' (conj _ eq_refl))). apply get_all_labels_k. exact Hs'.
Qed.

(** ** generate_map *)
Lemma generate_map_k r1 r2 a : ksim r1 r2 -> res_rel ksim (generate_map r1 a) (generate_map r2 a).
Proof.
  intros H. unfold generate_map. rewrite (km_bus _ _ H).
  destruct (ma_identifier a) as [id|]; [|reflexivity].
  destruct (ma_bank_range a) as [[lo [hi|]]|]; try reflexivity;
  destruct (ma_addr_range a) as [ar|]; try reflexivity;
  destruct (ma_mask a) as [[mask [mh|]]|]; try reflexivity.
  destruct (ma_mirror_bank_range a) as [[m0 [m1|]]|].
  - apply res_rel_bind_same; intros b _. cbn [res_rel]. apply ksim_set_bus, H.
  - destruct (m0 =? 0); [|reflexivity].
    apply res_rel_bind_same; intros b _. cbn [res_rel]. apply ksim_set_bus, H.
  - apply res_rel_bind_same; intros b _. cbn [res_rel]. apply ksim_set_bus, H.
Qed.
