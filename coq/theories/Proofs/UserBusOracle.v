(** C03/C04 with a user-declared bus, part 1 — from the [.map] declarations, as the model processes
    them ([bus_map], Model/Bus.v), to the range list the harness gives the run-time oracle
    ([user_range] / [user_offset], Oracle/Coreo.v): main range then mirror range per declaration, in
    declaration order; the LAST declared range holding a bank is the one in force.

    Side condition: the identifiers, including the derived ["<id>_mirror"] names, are pairwise
    distinct.  Without it the oracle's rule is wrong: [Bus.map] stores the mapping under its identifier
    ([self.mappings[identifier] = ...]) while [lookup[bank]] keeps the identifier, so re-using an
    identifier silently gives the banks of the EARLIER declaration the parameters of the LATER one
    ([reused_identifier] below). *)
From Coq Require Import ZArith List Lia Bool.
From A816 Require Import Model.Bus Spec.BusLaws Oracle.Coreo Proofs.BusProofs.
Open Scope Z_scope.

(** one [.map] line as [bus_map] receives it *)
Record decl := { d_id : str; d_lo : Z; d_hi : Z; d_mask : Z; d_w : bool; d_mirror : option (Z * Z) }.

Definition main_range (d : decl) : mapping :=
  {| m_first := d_lo d; m_last := d_hi d; m_mask := d_mask d; m_writable := d_w d |}.
Definition mirror_range (d : decl) (mb : Z * Z) : mapping :=
  {| m_first := fst mb; m_last := snd mb; m_mask := d_mask d; m_writable := d_w d |}.
(** what the harness writes for one declaration *)
Definition decl_ranges (d : decl) : list mapping :=
  main_range d :: match d_mirror d with Some mb => [mirror_range d mb] | None => [] end.
Definition decl_ids (d : decl) : list str :=
  d_id d :: match d_mirror d with Some _ => [d_id d ++ mirror_suffix] | None => [] end.
Definition ranges_of (ds : list decl) : list mapping := flat_map decl_ranges ds.
Definition ids_of (ds : list decl) : list str := flat_map decl_ids ds.

Definition map_decl (b : bus) (d : decl) : res bus :=
  bus_map b (d_id d) (d_lo d, d_hi d) (d_mask d) (d_w d) (d_mirror d).
(** the program's bus after its [.map] lines *)
Definition bus_of (ds : list decl) : res bus := fold_left (fun rb d => do b <- rb; map_decl b d) ds (Ok empty_bus).

(** ** The oracle's rule as a lookup *)
Definition look (ranges : list mapping) (bank : Z) : res mapping :=
  match user_range ranges bank None with Some m => Ok m | None => Err EKey end.

Definition holds (m : mapping) (bank : Z) : bool := (m_first m <=? bank) && (bank <=? m_last m).

Lemma user_range_app rs m bank : forall acc,
  user_range (rs ++ [m]) bank acc = if holds m bank then Some m else user_range rs bank acc.
Proof.
  induction rs as [|x rs IH]; intros acc; cbn [app user_range]; [reflexivity|]. apply IH.
Qed.
Lemma user_range_app2 rs rs2 bank : forall acc,
  user_range (rs ++ rs2) bank acc = user_range rs2 bank (user_range rs bank acc).
Proof. induction rs as [|x rs IH]; intros acc; cbn [app user_range]; [reflexivity|]. apply IH. Qed.

(** ** One range added to a bus under a fresh identifier *)
Definition add_range (b : bus) (id : str) (m : mapping) : bus :=
  {| b_ranges := (m_first m, m_last m, id) :: b_ranges b; b_maps := dict_set (b_maps b) id m; b_editable := true |}.

Record agrees (b : bus) (ranges : list mapping) (ids : list str) : Prop := {
  ag_look : forall bank, bus_mapping_for_bank b bank = look ranges bank;
  ag_ids : forall lo hi id, In (lo, hi, id) (b_ranges b) -> In id ids;
  ag_edit : b_editable b = true
}.

Lemma find_range_in rs bank id : find_range rs bank = Some id -> exists lo hi, In (lo, hi, id) rs.
Proof.
  induction rs as [|[[lo hi] i] rs IH]; cbn [find_range]; [discriminate|].
  destruct ((lo <=? bank) && (bank <=? hi)).
  - intros H; inversion H; subst. exists lo, hi. left. reflexivity.
  - intros H. destruct (IH H) as (l & h & Hin). exists l, h. right. exact Hin.
Qed.

Lemma str_eqb_neq a b : a <> b -> str_eqb a b = false.
Proof. intros H. destruct (str_eqb a b) eqn:E; [|reflexivity]. apply str_eqb_eq in E. contradiction. Qed.

Lemma add_range_agrees b ranges ids id m :
  agrees b ranges ids -> ~ In id ids -> agrees (add_range b id m) (ranges ++ [m]) (ids ++ [id]).
Proof.
  intros [Hl Hi He] Hfresh. constructor; [| |reflexivity].
  - intros bank. unfold look. rewrite user_range_app. unfold bus_mapping_for_bank, add_range. cbn [b_ranges b_maps find_range].
    unfold holds. destruct ((m_first m <=? bank) && (bank <=? m_last m)).
    + rewrite dict_get_set_same. reflexivity.
    + specialize (Hl bank). unfold bus_mapping_for_bank, look in Hl.
      destruct (find_range (b_ranges b) bank) as [id'|] eqn:F; [|exact Hl].
      destruct (find_range_in _ _ _ F) as (lo & hi & Hin).
      assert (Hne : id' <> id) by (intros ->; apply Hfresh; eapply Hi; eauto).
      rewrite dict_get_set_other by (apply str_eqb_neq; exact Hne). exact Hl.
  - intros lo hi i [H|H]; apply in_or_app.
    + inversion H; subst. right. left. reflexivity.
    + left. eapply Hi; eauto.
Qed.

Lemma empty_agrees : agrees empty_bus [] [].
Proof. constructor; [reflexivity|intros lo hi id []|reflexivity]. Qed.

(** ** A declaration, a list of declarations *)
Lemma map_decl_add b d : b_editable b = true ->
  map_decl b d = Ok (match d_mirror d with
                     | Some mb => add_range (add_range b (d_id d) (main_range d)) (d_id d ++ mirror_suffix) (mirror_range d mb)
                     | None => add_range b (d_id d) (main_range d)
                     end).
Proof.
  intros He. unfold map_decl, bus_map. rewrite He. cbn [negb fst snd].
  destruct (d_mirror d) as [[mlo mhi]|]; reflexivity.
Qed.

Lemma map_decl_agrees b ranges ids d b' :
  agrees b ranges ids -> NoDup (ids ++ decl_ids d) -> map_decl b d = Ok b' ->
  agrees b' (ranges ++ decl_ranges d) (ids ++ decl_ids d).
Proof.
  intros Hag Hnd. rewrite (map_decl_add b d (ag_edit _ _ _ Hag)). intros H; inversion H; subst b'; clear H.
  unfold decl_ranges, decl_ids in *. destruct (d_mirror d) as [mb|].
  - assert (F1 : ~ In (d_id d) ids).
    { intros Hin. apply NoDup_remove_2 in Hnd. apply Hnd. apply in_or_app. left. exact Hin. }
    assert (F2 : ~ In (d_id d ++ mirror_suffix) (ids ++ [d_id d])).
    { replace (ids ++ [d_id d; d_id d ++ mirror_suffix]) with ((ids ++ [d_id d]) ++ [d_id d ++ mirror_suffix]) in Hnd
        by (rewrite <- app_assoc; reflexivity).
      apply NoDup_remove_2 in Hnd. rewrite app_nil_r in Hnd. exact Hnd. }
    replace (ranges ++ [main_range d; mirror_range d mb]) with ((ranges ++ [main_range d]) ++ [mirror_range d mb])
      by (rewrite <- app_assoc; reflexivity).
    replace (ids ++ [d_id d; d_id d ++ mirror_suffix]) with ((ids ++ [d_id d]) ++ [d_id d ++ mirror_suffix])
      by (rewrite <- app_assoc; reflexivity).
    apply add_range_agrees; [apply add_range_agrees; assumption|exact F2].
  - apply add_range_agrees; [exact Hag|].
    intros Hin. apply NoDup_remove_2 in Hnd. rewrite app_nil_r in Hnd. contradiction.
Qed.

Lemma NoDup_app_l {A} (l l' : list A) : NoDup (l ++ l') -> NoDup l.
Proof.
  induction l as [|x l IH]; cbn [app]; intros H; [constructor|].
  inversion H as [|? ? Hx Hr]; subst. constructor; [|apply IH; exact Hr].
  intros Hin. apply Hx. apply in_or_app. left. exact Hin.
Qed.

Lemma fold_decls_agrees ds : forall b ranges ids b',
  agrees b ranges ids -> NoDup (ids ++ ids_of ds) ->
  fold_left (fun rb d => do x <- rb; map_decl x d) ds (Ok b) = Ok b' ->
  agrees b' (ranges ++ ranges_of ds) (ids ++ ids_of ds).
Proof.
  induction ds as [|d ds IH]; intros b ranges ids b' Hag Hnd H; cbn [fold_left ranges_of ids_of flat_map] in *.
  - inversion H; subst. rewrite !app_nil_r. exact Hag.
  - cbn [bind] in H. rewrite (map_decl_add b d (ag_edit _ _ _ Hag)) in H.
    rewrite !app_assoc. rewrite app_assoc in Hnd.
    eapply IH; [|exact Hnd|exact H].
    eapply map_decl_agrees; [exact Hag| |apply map_decl_add; apply (ag_edit _ _ _ Hag)].
    apply NoDup_app_l in Hnd. exact Hnd.
Qed.

(** (1) the bus the model builds looks banks up exactly as the oracle's rule says *)
Theorem bus_of_lookup ds b :
  NoDup (ids_of ds) -> bus_of ds = Ok b ->
  forall bank, bus_mapping_for_bank b bank = look (ranges_of ds) bank.
Proof.
  intros Hnd H. apply (ag_look _ _ _ (fold_decls_agrees ds empty_bus [] [] b empty_agrees Hnd H)).
Qed.

Lemma mask_ok_b_ok m : mask_ok_b m = true -> mask_ok m.
Proof. unfold mask_ok_b, mask_ok. intros H. apply orb_prop in H as [H|H]; apply Z.eqb_eq in H; auto. Qed.
Lemma in_window_b_ok m a : in_window_b m a = true -> in_window m a.
Proof. unfold in_window_b, in_window. intros H. apply Z.leb_le. exact H. Qed.

(** ... hence: where the oracle expects an offset, [Address.physical] on the model's bus is that offset *)
Theorem user_offset_physical ds b a p :
  NoDup (ids_of ds) -> bus_of ds = Ok b ->
  user_offset (ranges_of ds) a = Some p -> addr_physical b a = Ok (Some p).
Proof.
  intros Hnd Hb H. pose proof (bus_of_lookup ds b Hnd Hb (bank_of a)) as HL.
  unfold user_offset in H. unfold look in HL.
  destruct (user_range (ranges_of ds) (bank_of a) None) as [m|]; [|discriminate].
  destruct (m_writable m) eqn:W; [discriminate|].
  destruct (mask_ok_b m) eqn:Mk; [|discriminate]. destruct (in_window_b m a) eqn:Win; [|discriminate].
  cbn [andb] in H. inversion H; subst p.
  apply (bus_physical b a m HL (mask_ok_b_ok m Mk) W (in_window_b_ok m a Win)).
Qed.

(** ** The side condition is needed *)
(** [.map identifier=1 banks 0x00-0x3f 32K] then [.map identifier=1 banks 0x40-0x7f 64K]: the harness
    would write two ranges, and the oracle would expect offset 0 for 0x008000; the model (as the
    implementation: the second [Mapping] replaced the first under "1") gives bank 0 the 64K mapping
    that starts at bank 0x40. *)
Definition reuse : list decl :=
  [ {| d_id := [49]; d_lo := 0; d_hi := 63; d_mask := 32768; d_w := false; d_mirror := None |};
    {| d_id := [49]; d_lo := 64; d_hi := 127; d_mask := 65536; d_w := false; d_mirror := None |} ].
Example reused_identifier :
  user_offset (ranges_of reuse) 32768 = Some 0 /\
  (do b <- bus_of reuse; addr_physical b 32768) = Ok (Some (-4161536)).
Proof. split; vm_compute; reflexivity. Qed.

Print Assumptions bus_of_lookup.
Print Assumptions user_offset_physical.
