(** C03/C04 with a user-declared bus, part 2 — the model's emission trace satisfies the run-time oracle
    [user_offsets_ok] (Oracle/Coreo.v) on the bus built from the program's [.map] declarations.

    As for the built-in buses (WriterProtocolBus.v) the invariant is "in step": the run address is
    on the program's bus and its physical offset is [resolver.pc], or it is a RAM address.  A [*=]
    establishes it; an emitting node keeps it when (side condition [user_run], checkable on the trace)
    its address lies in a ROM range with a 32K/64K window and the address after it is still in the
    SAME declared range (it has not run out of the range, nor into banks a later declaration took
    over).  No bytes may be emitted at a RAM address while not relocated. *)
From Coq Require Import ZArith List Lia Bool ZifyBool Arith.
From A816 Require Import Model.Program Spec.BusLaws Oracle.Coreo Proofs.BitLemmas Proofs.BusProofs Proofs.NodeProofs
     Proofs.ProgramProofs Proofs.WriterProtocol Proofs.WriterProtocolBus Proofs.TraceOracle Proofs.UserBusOracle.
Open Scope Z_scope.

Lemma user_offsets_ok_cons ranges n rest rel :
  user_offsets_ok ranges (n :: rest) rel =
  (match tn_bytes n with
   | [] => true
   | _ => rel || match user_offset ranges (tn_addr n) with Some p => p =? tn_pc n | None => true end
   end) && user_offsets_ok ranges rest (next_rel rel (tn_kind n)).
Proof. reflexivity. Qed.

(** the range in force at an address *)
Definition range_at (ranges : list mapping) (a : Z) : option mapping := user_range ranges (bank_of a) None.

Definition same_range_b (o : option mapping) (m : mapping) : bool :=
  match o with Some m' => mapping_eqb m' m | None => false end.

(** Side condition on a trace: while not relocated, every emitting node sits in a ROM range with a
    32K/64K window, and the node after it is in the same range. *)
Fixpoint user_run (ranges : list mapping) (tr : list tnode) (rel : bool) : bool :=
  match tr with
  | [] => true
  | n :: rest =>
      (match tn_bytes n with
       | [] => true
       | _ => rel ||
              match range_at ranges (tn_addr n) with
              | Some m => negb (m_writable m) && mask_ok_b m &&
                          match rest with nx :: _ => same_range_b (range_at ranges (tn_addr nx)) m | [] => true end
              | None => false
              end
       end) && user_run ranges rest (next_rel rel (tn_kind n))
  end.

Section UserOffsets.
  Variable w : world.
  Variable B : bus.
  Variable ranges : list mapping.
  (** the bus looks banks up as the oracle's rule says ([bus_of_lookup]) *)
  Hypothesis Hlook : forall bank, bus_mapping_for_bank B bank = look ranges bank.

  Definition u_in_step (r : rstate) : Prop :=
    a_bus (r_reloc r) = B /\
    (addr_physical B (a_val (r_reloc r)) = Ok (Some (r_pc r)) \/ addr_physical B (a_val (r_reloc r)) = Ok None).
  Definition u_inv (rel : bool) (r : rstate) : Prop := get_bus w r = Ok B /\ (rel = false -> u_in_step r).

  Lemma lookup_at a m : range_at ranges a = Some m -> bus_mapping_for_bank B (bank_of a) = Ok m.
  Proof. intros H. rewrite Hlook. unfold look. unfold range_at in H. rewrite H. reflexivity. Qed.

  Lemma user_offset_phys a p : user_offset ranges a = Some p -> addr_physical B a = Ok (Some p).
  Proof.
    intros H. unfold user_offset in H. destruct (user_range ranges (bank_of a) None) as [m|] eqn:E; [|discriminate].
    destruct (m_writable m) eqn:W; [discriminate|].
    destruct (mask_ok_b m) eqn:Mk; [|discriminate]. destruct (in_window_b m a) eqn:Win; [|discriminate].
    cbn [andb] in H. inversion H; subst p.
    apply (bus_physical B a m (lookup_at a m E) (mask_ok_b_ok m Mk) W (in_window_b_ok m a Win)).
  Qed.

  Lemma u_head_ok r : u_in_step r ->
    match user_offset ranges (a_val (r_reloc r)) with Some p => p =? r_pc r | None => true end = true.
  Proof.
    intros [_ H]. destruct (user_offset ranges (a_val (r_reloc r))) as [p|] eqn:E; [|reflexivity].
    apply user_offset_phys in E. destruct H as [H|H]; rewrite H in E; inversion E. apply Z.eqb_refl.
  Qed.

  (** advancing inside one ROM range *)
  Lemma advance_same_range a p n a' m :
    range_at ranges a = Some m -> m_writable m = false -> mask_ok m ->
    addr_physical B a = Ok (Some p) -> addr_add B a n = Ok a' -> range_at ranges a' = Some m ->
    addr_physical B a' = Ok (Some (p + n)).
  Proof.
    intros Hr Hw Hm Hp Hadd Hr'. pose proof (lookup_at a m Hr) as L.
    unfold addr_physical in Hp. unfold addr_add in Hadd. rewrite bank_shiftr, L in Hp, Hadd. cbn [bind] in Hp, Hadd.
    inversion Hp as [Hp']. rewrite Hp' in Hadd. rewrite (logical_spec m (p + n) Hm) in Hadd. cbn [bind] in Hadd.
    destruct (get_address_ok _ _ _ Hadd) as (-> & _).
    destruct (spec_address_props m (p + n) Hm) as (_ & Hwin & Hoff).
    rewrite (bus_physical B _ m (lookup_at _ m Hr') Hm Hw Hwin), Hoff. reflexivity.
  Qed.

  Lemma same_range_eq o m : same_range_b o m = true -> o = Some m.
  Proof. destruct o as [m'|]; cbn [same_range_b]; [|discriminate]. intros H. apply mapping_eqb_eq in H. congruence. Qed.

  (** one step keeps the invariant; [nxt] is the run address of the following node *)
  Lemma u_step_inv st n x st1 bs rel :
    u_inv rel (e_r st) -> emit_step w st n x = Ok st1 ->
    (exists r1, node_emit w (e_r st) n = Ok (r1, bs)) ->
    (match bs with
     | [] => true
     | _ => rel || match range_at ranges (a_val (r_reloc (e_r st))) with
                   | Some m => negb (m_writable m) && mask_ok_b m && same_range_b (range_at ranges (a_val (r_reloc (e_r st1)))) m
                   | None => false
                   end
     end = true) ->
    u_inv (next_rel rel (node_kind n)) (e_r st1).
  Proof.
    intros [Hbus Hstep] ES (r1 & NE) Hg.
    destruct (emit_step_inv2 _ _ _ _ _ ES) as (r1' & bs' & NE' & Hb2 & Hr2 & Hshape).
    rewrite NE in NE'. inversion NE'; subst r1' bs'; clear NE'.
    destruct (node_emit_bus _ _ _ _ _ NE) as [Hb1 Hr1].
    assert (Hbus1 : get_bus w (e_r st1) = Ok B).
    { rewrite <- Hbus. unfold get_bus. rewrite Hb2, Hr2, Hb1, Hr1. reflexivity. }
    split; [exact Hbus1|].
    destruct (is_position n) eqn:Hpos.
    - destruct n; cbn [is_position] in Hpos; try discriminate Hpos;
        [change (next_rel rel (node_kind (NCodePos e fi))) with false
        |change (next_rel rel (node_kind (NReloc e fi))) with true; discriminate].
      intros _. cbn [node_emit] in NE.
      destruct (get_value w (e_r st) e) as [v| |]; cbn [bind] in NE; try discriminate.
      destruct (set_position w (e_r st) v) as [r'| |] eqn:SP; cbn [bind] in NE; try discriminate.
      inversion NE; subst r1 bs; clear NE. rewrite Hshape.
      destruct (set_position_inv _ _ _ _ SP) as (b & p & Gb & Ph & Rl & Pc & _ & _).
      rewrite Hbus in Gb. inversion Gb; subst b.
      unfold u_in_step. rewrite Rl, Pc. cbn [a_bus a_val]. split; [reflexivity|].
      destruct p; [left|right]; exact Ph.
    - assert (Hk : next_rel rel (node_kind n) = rel)
        by (destruct n; cbn [is_position] in Hpos; try discriminate Hpos; reflexivity).
      rewrite Hk. intros Hrel. specialize (Hstep Hrel). subst rel.
      destruct (node_emit_keeps_position _ _ _ _ _ Hpos NE) as [Hrl Hpc].
      destruct bs as [|b0 bs0].
      + rewrite Hshape. unfold u_in_step. rewrite Hrl, Hpc. exact Hstep.
      + destruct Hshape as (a' & Hplus & Hrl' & Hpc'). cbn [orb] in Hg.
        destruct (range_at ranges (a_val (r_reloc (e_r st)))) as [m|] eqn:Rm; [|discriminate].
        apply andb_prop in Hg as [Hg Hsame]. apply andb_prop in Hg as [Hw Hmk].
        apply negb_true_iff in Hw. apply mask_ok_b_ok in Hmk. apply same_range_eq in Hsame.
        destruct Hstep as [HB [Hgood|Hram]].
        2:{ unfold addr_physical in Hram. rewrite bank_shiftr, (lookup_at _ m Rm) in Hram. cbn [bind] in Hram.
            unfold physical_address in Hram. rewrite Hw in Hram. discriminate. }
        unfold addr_plus in Hplus. rewrite Hrl, HB in Hplus.
        destruct (addr_add B (a_val (r_reloc (e_r st))) _) as [v'| |] eqn:AD; cbn [bind] in Hplus; try discriminate.
        inversion Hplus as [Ha']; clear Hplus. rewrite <- Ha' in Hrl'.
        unfold u_in_step. rewrite Hrl', Hpc', Hpc. cbn [a_bus a_val]. split; [reflexivity|]. left.
        rewrite Hrl' in Hsame. cbn [a_val] in Hsame.
        apply (advance_same_range _ _ _ _ m Rm Hw Hmk Hgood AD Hsame).
  Qed.

  (** (2) the model's trace satisfies the oracle *)
  Theorem trace_user_offsets_ok ns : forall st addrs tr st' rel,
    u_inv rel (e_r st) -> model_trace_st w st ns addrs = Ok (tr, st') ->
    user_run ranges tr rel = true -> user_offsets_ok ranges tr rel = true.
  Proof.
    induction ns as [|n ns IH]; intros st addrs tr st' rel Hinv H Hg; cbn [model_trace_st] in H.
    - destruct addrs as [|x [|y l]]; try discriminate. destruct (negb _); [discriminate|].
      inversion H; subst. reflexivity.
    - destruct addrs as [|x addrs]; [discriminate|].
      destruct (node_emit w (e_r st) n) as [[r1 bs]| |] eqn:NE; cbn [bind] in H; try discriminate.
      destruct (emit_step w st n x) as [st1| |] eqn:ES; cbn [bind] in H; try discriminate.
      destruct (model_trace_st w st1 ns addrs) as [[tr1 st2]| |] eqn:T; cbn [bind fst snd] in H; try discriminate.
      inversion H; subst tr st2; clear H. cbn [snd] in *.
      cbn [user_run] in Hg. apply andb_prop in Hg as [Hg1 Hg2].
      rewrite user_offsets_ok_cons. apply andb_true_intro. split.
      + cbn [tnode_of tn_bytes tn_addr tn_pc]. destruct bs as [|b0 bs0]; [reflexivity|].
        destruct rel; [reflexivity|]. cbn [orb]. apply u_head_ok. apply Hinv. reflexivity.
      + cbn [tnode_of tn_kind] in *. destruct tr1 as [|nx tr2]; [reflexivity|].
        apply (IH st1 addrs (nx :: tr2) st' _); [|exact T|exact Hg2].
        eapply u_step_inv; eauto.
        cbn [tnode_of tn_bytes tn_addr] in Hg1. rewrite (trace_first_addr _ _ _ _ _ _ _ T) in Hg1. exact Hg1.
  Qed.

  (** from any state when the list starts with a [*=] *)
  Theorem trace_user_offsets_ok_codepos e fi ns st addrs tr st' :
    get_bus w (e_r st) = Ok B ->
    model_trace_st w st (NCodePos e fi :: ns) addrs = Ok (tr, st') ->
    user_run ranges tr false = true -> user_offsets_ok ranges tr false = true.
  Proof.
    intros Hbus H Hg. cbn [model_trace_st] in H.
    destruct addrs as [|x addrs]; [discriminate|].
    destruct (node_emit w (e_r st) (NCodePos e fi)) as [[r1 bs]| |] eqn:NE; cbn [bind] in H; try discriminate.
    destruct (emit_step w st (NCodePos e fi) x) as [st1| |] eqn:ES; cbn [bind] in H; try discriminate.
    destruct (model_trace_st w st1 ns addrs) as [[tr1 st2]| |] eqn:T; cbn [bind fst snd] in H; try discriminate.
    inversion H; subst tr st2; clear H. cbn [snd] in *.
    assert (Hbs : bs = []).
    { cbn [node_emit] in NE. destruct (get_value w (e_r st) e) as [v| |]; cbn [bind] in NE; try discriminate.
      destruct (set_position w (e_r st) v); cbn [bind] in NE; try discriminate. inversion NE; reflexivity. }
    subst bs. rewrite user_offsets_ok_cons. cbn [tnode_of tn_bytes tn_kind andb].
    cbn [user_run tnode_of tn_bytes tn_kind andb] in Hg.
    change (next_rel false (node_kind (NCodePos e fi))) with false in *.
    apply (trace_user_offsets_ok ns st1 addrs tr1 st' false); [|exact T|exact Hg].
    change false with (next_rel true (node_kind (NCodePos e fi))).
    apply (u_step_inv st (NCodePos e fi) x st1 [] true); [|exact ES|eauto|reflexivity].
    split; [exact Hbus|discriminate].
  Qed.
End UserOffsets.

(** ** With the bus built from the declarations *)
Theorem user_bus_offsets_ok w ds b st ns addrs tr st' :
  NoDup (ids_of ds) -> bus_of ds = Ok b ->
  get_bus w (e_r st) = Ok b -> u_in_step b (e_r st) ->
  model_trace_st w st ns addrs = Ok (tr, st') ->
  user_run (ranges_of ds) tr false = true -> user_offsets_ok (ranges_of ds) tr false = true.
Proof.
  intros Hnd Hb Hbus Hstep T Hg.
  apply (trace_user_offsets_ok w b (ranges_of ds) (bus_of_lookup ds b Hnd Hb) ns st addrs tr st' false); auto.
  split; auto.
Qed.

Theorem user_bus_offsets_ok_codepos w ds b e fi st ns addrs tr st' :
  NoDup (ids_of ds) -> bus_of ds = Ok b -> get_bus w (e_r st) = Ok b ->
  model_trace_st w st (NCodePos e fi :: ns) addrs = Ok (tr, st') ->
  user_run (ranges_of ds) tr false = true -> user_offsets_ok (ranges_of ds) tr false = true.
Proof.
  intros Hnd Hb. apply (trace_user_offsets_ok_codepos w b (ranges_of ds) (bus_of_lookup ds b Hnd Hb)).
Qed.

(** the whole assembly: a program (node list) that starts with a [*=], on the resolver whose own bus is
    the declared one *)
Theorem assemble_user_offsets_ok w ds b r e fi ns o :
  NoDup (ids_of ds) -> bus_of ds = Ok b -> get_bus w r = Ok b ->
  assemble_nodes w r (NCodePos e fi :: ns) = Ok o ->
  exists r1 addrs tr,
    resolve_labels w r (NCodePos e fi :: ns) = Ok (r1, addrs) /\
    model_trace w (emit_start r1) (NCodePos e fi :: ns) addrs = Ok (tr, r_pc (o_final o)) /\
    (user_run (ranges_of ds) tr false = true -> user_offsets_ok (ranges_of ds) tr false = true).
Proof.
  intros Hnd Hb Hbus H.
  destruct (assemble_writer_protocol _ _ _ _ H) as (r1 & addrs & tr & RL & T & _).
  exists r1, addrs, tr. refine (conj RL (conj T _)). intros Hg. unfold model_trace in T.
  destruct (model_trace_st w (emit_start r1) (NCodePos e fi :: ns) addrs) as [[tr' st']| |] eqn:TS; cbn [bind fst snd] in T; try discriminate.
  inversion T; subst tr'; clear T.
  destruct (resolve_labels_fixed _ _ _ _ _ RL) as (F1 & F2 & F3).
  apply (user_bus_offsets_ok_codepos w ds b e fi (emit_start r1) ns addrs tr st' Hnd Hb); auto.
  cbn [emit_start e_r]. unfold get_bus in *. rewrite F2, F3. exact Hbus.
Qed.

Print Assumptions trace_user_offsets_ok.
Print Assumptions user_bus_offsets_ok.
Print Assumptions assemble_user_offsets_ok.

(** ** (3) The four configurations of harness/a816v/props/c03.py [MAPS] *)
From A816 Require Import Proofs.NonInterference Proofs.Unroll.
Module UserBusExamples.
  Import NIExamples UnrollExamples WriterExamples.

  Fixpoint nodupb (l : list str) : bool :=
    match l with [] => true | h :: r => negb (existsb (str_eqb h) r) && nodupb r end.
  Lemma nodupb_sound l : nodupb l = true -> NoDup l.
  Proof.
    induction l as [|h r IH]; cbn [nodupb]; intros H; [constructor|].
    apply andb_prop in H as [H1 H2]. constructor; [|apply IH; exact H2].
    intros Hin. apply negb_true_iff in H1. assert (E : existsb (str_eqb h) r = true); [|congruence].
    apply existsb_exists. exists h. split; [exact Hin|apply str_eqb_refl].
  Qed.

  Definition D id lo hi mask wr mir : decl := {| d_id := id; d_lo := lo; d_hi := hi; d_mask := mask; d_w := wr; d_mirror := mir |}.
  Definition R lo hi mask wr : mapping := {| m_first := lo; m_last := hi; m_mask := mask; m_writable := wr |}.

  Definition ds1 := [D [49] 0 63 32768 false None; D [50] 126 127 65536 true None].
  Definition ds2 := [D [49] 64 111 65536 false (Some (192, 239)); D [51] 112 113 65536 true None].
  Definition ds3 := [D [55] 16 31 32768 false (Some (144, 159))].
  Definition ds4 := [D [49] 0 127 32768 false None; D [50] 32 47 65536 false None].

  (** the ranges are the ones the harness writes *)
  Example ranges1 : ranges_of ds1 = [R 0 63 32768 false; R 126 127 65536 true]. Proof. reflexivity. Qed.
  Example ranges2 : ranges_of ds2 = [R 64 111 65536 false; R 192 239 65536 false; R 112 113 65536 true]. Proof. reflexivity. Qed.
  Example ranges3 : ranges_of ds3 = [R 16 31 32768 false; R 144 159 32768 false]. Proof. reflexivity. Qed.
  Example ranges4 : ranges_of ds4 = [R 0 127 32768 false; R 32 47 65536 false]. Proof. reflexivity. Qed.
  Example ids_distinct : NoDup (ids_of ds1) /\ NoDup (ids_of ds2) /\ NoDup (ids_of ds3) /\ NoDup (ids_of ds4).
  Proof. repeat split; apply nodupb_sound; reflexivity. Qed.

  Definition the_bus (ds : list decl) : bus := match bus_of ds with Ok b => b | _ => empty_bus end.
  Example buses_built : bus_of ds1 = Ok (the_bus ds1) /\ bus_of ds2 = Ok (the_bus ds2) /\
                        bus_of ds3 = Ok (the_bus ds3) /\ bus_of ds4 = Ok (the_bus ds4).
  Proof. repeat split; reflexivity. Qed.

  (** [*=org  .db 1,2,3  l:  .dl l  @=other  .db 4  *=org+0x20  .db 5] on the declared bus *)
  Definition body (org other org2 : str) : list node :=
    [NCodePos (hex org) fi; db [49]; db [50]; db [51]; NLabel [108]; NData D_dl (ident [108]) fi;
     NReloc (hex other) fi; db [52]; NCodePos (hex org2) fi; db [53]].
  Definition start (ds : list decl) : rstate := set_bus r0 (the_bus ds).
  Definition verdict (ds : list decl) (ns : list node) : res (bool * bool) :=
    do ra <- resolve_labels ex_world (start ds) ns;
    do t <- model_trace ex_world (emit_start (fst ra)) ns (snd ra);
    Ok (user_run (ranges_of ds) (fst t) false, user_offsets_ok (ranges_of ds) (fst t) false).

  Definition p1 := body [49;56;48;48;48] [55;101;48;48;48;48] [49;56;48;50;48].
  Definition p2 := body [52;49;102;102;102;48] [55;48;48;48;48;48] [52;50;48;48;49;48].
  Definition p3 := body [57;48;102;102;102;56] [49;48;56;48;48;48] [57;49;48;48;49;56].
  Definition p4 := body [50;49;102;102;102;48] [51;48;56;48;48;48] [50;50;48;48;49;48].
  Example verdict1 : verdict ds1 p1 = Ok (true, true). Proof. vm_compute. reflexivity. Qed.
  Example verdict2 : verdict ds2 p2 = Ok (true, true). Proof. vm_compute. reflexivity. Qed.
  Example verdict3 : verdict ds3 p3 = Ok (true, true). Proof. vm_compute. reflexivity. Qed.
  Example verdict4 : verdict ds4 p4 = Ok (true, true). Proof. vm_compute. reflexivity. Qed.
  Example blocks1 : view (assemble_nodes ex_world (start ds1) p1) = Ok ([([1; 2; 3; 3; 128; 1; 4], 32768); ([5], 32800)], [([108], 98307)]).
  Proof. vm_compute. reflexivity. Qed.

  (** the theorem applies (configuration 4: a later declaration takes banks away from an earlier one) *)
  Example by_theorem4 : exists r1 addrs tr,
    resolve_labels ex_world (start ds4) p4 = Ok (r1, addrs) /\
    (exists e, model_trace ex_world (emit_start r1) p4 addrs = Ok (tr, e)) /\
    (user_run (ranges_of ds4) tr false = true -> user_offsets_ok (ranges_of ds4) tr false = true).
  Proof.
    destruct (assemble_nodes ex_world (start ds4) p4) as [o| |] eqn:E; try (vm_compute in E; discriminate).
    destruct ids_distinct as (_ & _ & _ & N4).
    destruct (assemble_user_offsets_ok ex_world ds4 (the_bus ds4) (start ds4) _ _ _ o N4 eq_refl eq_refl E)
      as (r1 & addrs & tr & A & B' & C).
    exists r1, addrs, tr. eauto.
  Qed.

  (** the side condition is needed: a run that leaves its range for banks a later declaration took
      over is out of step ([*=0x1ffffe] in the 32K range, four bytes: the third lands in bank 0x20,
      which the second declaration maps with a 64K window) *)
  Definition crossing : list node := [NCodePos (hex [49;102;102;102;102;101]) fi; db [49]; db [50]; db [51]; db [52]].
  Example crossing_verdict : verdict ds4 crossing = Ok (false, false).
  Proof. vm_compute. reflexivity. Qed.
End UserBusExamples.
