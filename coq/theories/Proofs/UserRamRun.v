(** C03 — a run-address clause for RAM regions, and its soundness against the model.

    [ram_runs_ok isram tr]: behind an ordinary trace node (kind 0: not [*=], not [@=], not
    [.include_ips]) whose run address lies in RAM, the next node's run address is the node's own plus
    the number of bytes it emitted.  (Python: [Address.__add__] on a writable mapping is plain
    [logical_value + n]; model: [addr_add] through [bus_add_ram].)  The file-offset clauses of
    Oracle/Coreo.v ([offsets_ok], [pcs_ok], [ram_org_ok]) do not speak about the run address.

    Soundness: the trace the MODEL produces satisfies the clause, for every node list,
    - on the built-in buses with [isram = is_ram high] ([assemble_ram_runs_ok]),
    - on a bus built from [.map] declarations with [isram = user_is_ram (ranges_of ds)]
      ([assemble_user_ram_runs_ok], same hypotheses as [assemble_user_offsets_ok]).

    The only thing the proof needs besides "the bus in force is B" is that the bus the CURRENT run
    address was created on ([a_bus (r_reloc r)]: the bus in force at the last position move, or the
    start resolver's) maps every bank the oracle calls RAM to a writable mapping ([ram_agrees]).
    Every [*=] / [@=] re-creates the address on the bus in force, every other node keeps its bus; so
    this is a condition on the START state only.  It holds when the start address lives on either
    built-in bus (RAM is banks 0x7E/0x7F on both: [builtin_ram_agrees]) — in particular for the
    initial resolver, also when the ROM type is switched to HiROM afterwards — and it is not needed
    at all for a program that begins with a [*=].  No guard had to be added to the clause itself:
    neither the stale-pc quirk (it concerns [resolver.pc], not the run address) nor the successor's
    region matters. *)
From Coq Require Import ZArith List Lia Bool ZifyBool Arith.
From A816 Require Import Model.Program Spec.BusLaws Oracle.Coreo Proofs.BusProofs Proofs.NodeProofs
     Proofs.ProgramProofs Proofs.WriterProtocol Proofs.WriterProtocolBus Proofs.TraceOracle
     Proofs.UserBusOracle Proofs.UserBusOracleTrace Proofs.RamOrg.
Open Scope Z_scope.

(* ------------------------------------------------------------------------------------------ *)
(** * The clause *)

(** (the clause itself, [ram_runs_ok], is defined in Oracle/Coreo.v, where [spec_ok] uses it) *)

Lemma ram_runs_ok_cons isram n rest :
  ram_runs_ok isram (n :: rest) =
  match rest with
  | m :: _ =>
      negb (tn_kind n =? 0) || negb (isram (tn_addr n)) ||
      (tn_addr m =? tn_addr n + Z.of_nat (length (tn_bytes n)))
  | [] => true
  end && ram_runs_ok isram rest.
Proof. reflexivity. Qed.

(* ------------------------------------------------------------------------------------------ *)
(** * One step *)

(** bus [b] maps every bank the oracle calls RAM to a writable mapping *)
Definition ram_agrees (isram : Z -> bool) (b : bus) : Prop :=
  forall a, isram a = true -> exists m, bus_mapping_for_bank b (bank_of a) = Ok m /\ m_writable m = true.

(** advancing a RAM address is plain addition *)
Lemma ram_add b a n a' m :
  bus_mapping_for_bank b (bank_of a) = Ok m -> m_writable m = true -> addr_add b a n = Ok a' -> a' = a + n.
Proof.
  intros Hl Hw H. rewrite (bus_add_ram b a n m Hl Hw) in H. apply (get_address_ok _ _ _ H).
Qed.

Lemma phys_none_writable b a : addr_physical b a = Ok None ->
  exists m, bus_mapping_for_bank b (bank_of a) = Ok m /\ m_writable m = true.
Proof.
  unfold addr_physical. rewrite bank_shiftr.
  destruct (bus_mapping_for_bank b (bank_of a)) as [m| |]; cbn [bind]; try discriminate.
  unfold physical_address. destruct (m_writable m) eqn:W; [|discriminate]. intros _. exists m. auto.
Qed.

Section Run.
  Variable w : world.
  Variable B : bus.                      (* the bus in force *)
  Variable isram : Z -> bool.
  Hypothesis HB : ram_agrees isram B.

  Definition rr_inv (r : rstate) : Prop := get_bus w r = Ok B /\ ram_agrees isram (a_bus (r_reloc r)).

  Lemma rr_step st n x st1 r1 bs :
    rr_inv (e_r st) -> emit_step w st n x = Ok st1 -> node_emit w (e_r st) n = Ok (r1, bs) ->
    rr_inv (e_r st1) /\
    (node_kind n = 0 -> isram (a_val (r_reloc (e_r st))) = true ->
     a_val (r_reloc (e_r st1)) = a_val (r_reloc (e_r st)) + Z.of_nat (length bs)).
  Proof.
    intros [Hbus Hag] ES NE.
    destruct (emit_step_inv2 _ _ _ _ _ ES) as (r1' & bs' & NE' & Hb2 & Hr2 & Hshape).
    rewrite NE in NE'. inversion NE'; subst r1' bs'; clear NE'.
    destruct (node_emit_bus _ _ _ _ _ NE) as [Hb1 Hr1].
    assert (Hbus1 : get_bus w (e_r st1) = Ok B).
    { rewrite <- Hbus. unfold get_bus. rewrite Hb2, Hr2, Hb1, Hr1. reflexivity. }
    destruct (is_position n) eqn:Hpos.
    - (* [*=] and [@=]: the address is re-created on the bus in force *)
      assert (Hk : node_kind n <> 0) by (destruct n; cbn [is_position] in Hpos; try discriminate Hpos; discriminate).
      assert (Hre : exists v, bs = [] /\ r_reloc r1 = {| a_bus := B; a_val := v |}).
      { destruct n; cbn [is_position] in Hpos; try discriminate Hpos; cbn [node_emit] in NE;
          (destruct (get_value w (e_r st) e) as [v| |]; cbn [bind] in NE; try discriminate);
          (destruct (set_position w (e_r st) v) as [r'| |] eqn:SP; cbn [bind] in NE; try discriminate);
          inversion NE; subst r1 bs; clear NE;
          destruct (set_position_inv _ _ _ _ SP) as (b & p & Gb & _ & Rl & _);
          rewrite Hbus in Gb; inversion Gb; subst b; exists v; auto. }
      destruct Hre as (v & -> & Rl). rewrite Hshape. split; [|intros K; contradiction].
      split; [rewrite <- Hshape; exact Hbus1|]. rewrite Rl. cbn [a_bus]. exact HB.
    - (* every other node keeps the address's bus *)
      destruct (node_emit_keeps_position _ _ _ _ _ Hpos NE) as [Hrl _].
      destruct bs as [|b0 bs0].
      + rewrite Hshape. split.
        * split; [rewrite <- Hshape; exact Hbus1|]. rewrite Hrl. exact Hag.
        * intros _ _. rewrite Hrl. cbn [length Z.of_nat]. lia.
      + destruct Hshape as (a' & Hplus & Hrl' & _).
        unfold addr_plus in Hplus. rewrite Hrl in Hplus.
        destruct (addr_add (a_bus (r_reloc (e_r st))) (a_val (r_reloc (e_r st))) _) as [v'| |] eqn:AD;
          cbn [bind] in Hplus; try discriminate.
        inversion Hplus as [Ha']; clear Hplus. rewrite <- Ha' in Hrl'. split.
        * split; [exact Hbus1|]. rewrite Hrl'. cbn [a_bus]. exact Hag.
        * intros _ Hram. rewrite Hrl'. cbn [a_val].
          destruct (Hag _ Hram) as (m & Hl & Hw). apply (ram_add _ _ _ _ m Hl Hw AD).
  Qed.

  Theorem trace_ram_runs_ok ns : forall st addrs tr st',
    rr_inv (e_r st) -> model_trace_st w st ns addrs = Ok (tr, st') -> ram_runs_ok isram tr = true.
  Proof.
    induction ns as [|n ns IH]; intros st addrs tr st' Hinv H; cbn [model_trace_st] in H.
    - destruct addrs as [|x [|y l]]; try discriminate. destruct (negb _); [discriminate|].
      inversion H; subst. reflexivity.
    - destruct addrs as [|x addrs]; [discriminate|].
      destruct (node_emit w (e_r st) n) as [[r1 bs]| |] eqn:NE; cbn [bind] in H; try discriminate.
      destruct (emit_step w st n x) as [st1| |] eqn:ES; cbn [bind] in H; try discriminate.
      destruct (model_trace_st w st1 ns addrs) as [[tr1 st2]| |] eqn:T; cbn [bind fst snd] in H; try discriminate.
      inversion H; subst tr st2; clear H. cbn [snd].
      destruct (rr_step st n x st1 r1 bs Hinv ES NE) as [Hinv1 Hrun].
      rewrite ram_runs_ok_cons, (IH _ _ _ _ Hinv1 T), andb_true_r.
      destruct tr1 as [|m tr2]; [reflexivity|].
      cbn [tnode_of tn_kind tn_addr tn_bytes].
      rewrite (trace_first_addr _ _ _ _ _ _ _ T).
      destruct (node_kind n =? 0) eqn:K; [|reflexivity]. apply Z.eqb_eq in K.
      destruct (isram (a_val (r_reloc (e_r st)))) eqn:R; [|reflexivity].
      cbn [negb orb]. rewrite (Hrun K eq_refl). apply Z.eqb_refl.
  Qed.

  (** a program that starts with a [*=]: nothing is asked of the start address *)
  Theorem trace_ram_runs_ok_codepos e fi ns st addrs tr st' :
    get_bus w (e_r st) = Ok B ->
    model_trace_st w st (NCodePos e fi :: ns) addrs = Ok (tr, st') -> ram_runs_ok isram tr = true.
  Proof.
    intros Hbus H. cbn [model_trace_st] in H.
    destruct addrs as [|x addrs]; [discriminate|].
    destruct (node_emit w (e_r st) (NCodePos e fi)) as [[r1 bs]| |] eqn:NE; cbn [bind] in H; try discriminate.
    destruct (emit_step w st (NCodePos e fi) x) as [st1| |] eqn:ES; cbn [bind] in H; try discriminate.
    destruct (model_trace_st w st1 ns addrs) as [[tr1 st2]| |] eqn:T; cbn [bind fst snd] in H; try discriminate.
    inversion H; subst tr st2; clear H. cbn [snd].
    assert (Hinv1 : rr_inv (e_r st1)).
    { destruct (emit_step_inv2 _ _ _ _ _ ES) as (r1' & bs' & NE' & Hb2 & Hr2 & Hshape).
      rewrite NE in NE'. inversion NE'; subst r1' bs'; clear NE'.
      destruct (node_emit_bus _ _ _ _ _ NE) as [Hb1 Hr1].
      cbn [node_emit] in NE. destruct (get_value w (e_r st) e) as [v| |]; cbn [bind] in NE; try discriminate.
      destruct (set_position w (e_r st) v) as [r'| |] eqn:SP; cbn [bind] in NE; try discriminate.
      inversion NE; subst r1 bs; clear NE. rewrite Hshape.
      destruct (set_position_inv _ _ _ _ SP) as (b & p & Gb & _ & Rl & _).
      rewrite Hbus in Gb. inversion Gb; subst b. split.
      - rewrite <- Hbus. unfold get_bus. rewrite Hb1, Hr1. reflexivity.
      - rewrite Rl. cbn [a_bus]. exact HB. }
    rewrite ram_runs_ok_cons, (trace_ram_runs_ok ns _ _ _ _ Hinv1 T), andb_true_r.
    destruct tr1; reflexivity.
  Qed.
End Run.

(* ------------------------------------------------------------------------------------------ *)
(** * The built-in buses *)

(** what the oracle calls RAM on a built-in bus: banks 0x7E and 0x7F, on LoROM and on HiROM *)
Lemma is_ram_banks high a : is_ram high a = true <-> 126 <= bank_of a <= 127.
Proof.
  unfold is_ram, lorom_spec, hirom_spec. cbv zeta. destruct high.
  - destruct ((126 <=? bank_of a) && (bank_of a <=? 127)) eqn:C1; [split; [lia|reflexivity]|].
    destruct ((64 <=? bank_of a) && (bank_of a <=? 125)) eqn:C2; [split; [discriminate|lia]|].
    destruct ((192 <=? bank_of a) && (bank_of a <=? 255)) eqn:C3; split; try discriminate; lia.
  - destruct ((0 <=? bank_of a) && (bank_of a <=? 111)) eqn:C1; [split; [discriminate|lia]|].
    destruct ((128 <=? bank_of a) && (bank_of a <=? 207)) eqn:C2; [split; [discriminate|lia]|].
    destruct ((126 <=? bank_of a) && (bank_of a <=? 127)) eqn:C3; split; try discriminate; try reflexivity; lia.
Qed.

(** a run address created on EITHER built-in bus advances by plain addition where the oracle (for
    either ROM type) says RAM *)
Lemma builtin_ram_agrees high high' : ram_agrees (is_ram high) (builtin high').
Proof.
  intros a H. apply is_ram_banks in H. apply (proj2 (is_ram_banks high' a)) in H.
  apply phys_none_writable. rewrite builtin_closed. unfold is_ram in H. unfold bspec.
  destruct high'.
  - destruct (hirom_spec a) as [[p|]| |]; try discriminate H. reflexivity.
  - destruct (lorom_spec a) as [[p|]| |]; try discriminate H. reflexivity.
Qed.

(** the trace of the whole assembly, built-in bus in force; [Hstart]: the start address is on a bus
    that agrees about RAM (e.g. on a built-in bus: [assemble_ram_runs_ok_builtin_start]) *)
Theorem assemble_ram_runs_ok w high r ns o :
  get_bus w r = Ok (builtin high) -> ram_agrees (is_ram high) (a_bus (r_reloc r)) ->
  assemble_nodes w r ns = Ok o ->
  exists r1 addrs tr,
    resolve_labels w r ns = Ok (r1, addrs) /\
    model_trace w (emit_start r1) ns addrs = Ok (tr, r_pc (o_final o)) /\
    ram_runs_ok (is_ram high) tr = true.
Proof.
  intros Hbus Hstart H.
  destruct (assemble_writer_protocol _ _ _ _ H) as (r1 & addrs & tr & RL & T & _).
  exists r1, addrs, tr. refine (conj RL (conj T _)).
  unfold model_trace in T.
  destruct (model_trace_st w (emit_start r1) ns addrs) as [[tr' st']| |] eqn:TS; cbn [bind fst snd] in T; try discriminate.
  inversion T; subst tr'; clear T.
  destruct (resolve_labels_fixed _ _ _ _ _ RL) as (F1 & F2 & F3).
  apply (trace_ram_runs_ok w (builtin high) (is_ram high) (builtin_ram_agrees high high) ns (emit_start r1) addrs tr st');
    [|exact TS].
  cbn [emit_start e_r]. split; [unfold get_bus in *; rewrite F2, F3; exact Hbus|]. rewrite F1. exact Hstart.
Qed.

(** ... in particular from a start address on a built-in bus (the initial resolver's is on LoROM,
    whatever ROM type is selected afterwards) *)
Corollary assemble_ram_runs_ok_builtin_start w high high' r ns o :
  get_bus w r = Ok (builtin high) -> a_bus (r_reloc r) = builtin high' ->
  assemble_nodes w r ns = Ok o ->
  exists r1 addrs tr,
    resolve_labels w r ns = Ok (r1, addrs) /\
    model_trace w (emit_start r1) ns addrs = Ok (tr, r_pc (o_final o)) /\
    ram_runs_ok (is_ram high) tr = true.
Proof.
  intros Hbus Hs. apply assemble_ram_runs_ok; [exact Hbus|]. rewrite Hs. apply builtin_ram_agrees.
Qed.

(** ... and for a program that starts with a [*=], from any start state *)
Theorem assemble_ram_runs_ok_codepos w high r e fi ns o :
  get_bus w r = Ok (builtin high) ->
  assemble_nodes w r (NCodePos e fi :: ns) = Ok o ->
  exists r1 addrs tr,
    resolve_labels w r (NCodePos e fi :: ns) = Ok (r1, addrs) /\
    model_trace w (emit_start r1) (NCodePos e fi :: ns) addrs = Ok (tr, r_pc (o_final o)) /\
    ram_runs_ok (is_ram high) tr = true.
Proof.
  intros Hbus H.
  destruct (assemble_writer_protocol _ _ _ _ H) as (r1 & addrs & tr & RL & T & _).
  exists r1, addrs, tr. refine (conj RL (conj T _)).
  unfold model_trace in T.
  destruct (model_trace_st w (emit_start r1) (NCodePos e fi :: ns) addrs) as [[tr' st']| |] eqn:TS;
    cbn [bind fst snd] in T; try discriminate.
  inversion T; subst tr'; clear T.
  destruct (resolve_labels_fixed _ _ _ _ _ RL) as (F1 & F2 & F3).
  apply (trace_ram_runs_ok_codepos w (builtin high) (is_ram high) (builtin_ram_agrees high high) e fi ns
           (emit_start r1) addrs tr st'); [|exact TS].
  cbn [emit_start e_r]. unfold get_bus in *. rewrite F2, F3. exact Hbus.
Qed.

(* ------------------------------------------------------------------------------------------ *)
(** * A bus built from [.map] declarations *)

Lemma user_ram_agrees B ranges :
  (forall bank, bus_mapping_for_bank B bank = look ranges bank) -> ram_agrees (user_is_ram ranges) B.
Proof.
  intros Hlook a H. unfold user_is_ram in H. rewrite Hlook. unfold look.
  destruct (user_range ranges (bank_of a) None) as [m|]; [|discriminate]. exists m. auto.
Qed.

(** same hypotheses as [assemble_user_offsets_ok] (Proofs/UserBusOracleTrace.v); no side condition
    on the trace *)
Theorem assemble_user_ram_runs_ok w ds b r e fi ns o :
  NoDup (ids_of ds) -> bus_of ds = Ok b -> get_bus w r = Ok b ->
  assemble_nodes w r (NCodePos e fi :: ns) = Ok o ->
  exists r1 addrs tr,
    resolve_labels w r (NCodePos e fi :: ns) = Ok (r1, addrs) /\
    model_trace w (emit_start r1) (NCodePos e fi :: ns) addrs = Ok (tr, r_pc (o_final o)) /\
    ram_runs_ok (user_is_ram (ranges_of ds)) tr = true.
Proof.
  intros Hnd Hb Hbus H.
  destruct (assemble_writer_protocol _ _ _ _ H) as (r1 & addrs & tr & RL & T & _).
  exists r1, addrs, tr. refine (conj RL (conj T _)).
  unfold model_trace in T.
  destruct (model_trace_st w (emit_start r1) (NCodePos e fi :: ns) addrs) as [[tr' st']| |] eqn:TS;
    cbn [bind fst snd] in T; try discriminate.
  inversion T; subst tr'; clear T.
  destruct (resolve_labels_fixed _ _ _ _ _ RL) as (F1 & F2 & F3).
  apply (trace_ram_runs_ok_codepos w b (user_is_ram (ranges_of ds))
           (user_ram_agrees b (ranges_of ds) (bus_of_lookup ds b Hnd Hb)) e fi ns (emit_start r1) addrs tr st');
    [|exact TS].
  cbn [emit_start e_r]. unfold get_bus in *. rewrite F2, F3. exact Hbus.
Qed.

(** the general form (any node list) from a start address that is on the declared bus *)
Theorem assemble_user_ram_runs_ok_from w ds b r ns o :
  NoDup (ids_of ds) -> bus_of ds = Ok b -> get_bus w r = Ok b -> a_bus (r_reloc r) = b ->
  assemble_nodes w r ns = Ok o ->
  exists r1 addrs tr,
    resolve_labels w r ns = Ok (r1, addrs) /\
    model_trace w (emit_start r1) ns addrs = Ok (tr, r_pc (o_final o)) /\
    ram_runs_ok (user_is_ram (ranges_of ds)) tr = true.
Proof.
  intros Hnd Hb Hbus Hs H.
  destruct (assemble_writer_protocol _ _ _ _ H) as (r1 & addrs & tr & RL & T & _).
  exists r1, addrs, tr. refine (conj RL (conj T _)).
  unfold model_trace in T.
  destruct (model_trace_st w (emit_start r1) ns addrs) as [[tr' st']| |] eqn:TS; cbn [bind fst snd] in T; try discriminate.
  inversion T; subst tr'; clear T.
  destruct (resolve_labels_fixed _ _ _ _ _ RL) as (F1 & F2 & F3).
  pose proof (user_ram_agrees b (ranges_of ds) (bus_of_lookup ds b Hnd Hb)) as HB.
  apply (trace_ram_runs_ok w b (user_is_ram (ranges_of ds)) HB ns (emit_start r1) addrs tr st'); [|exact TS].
  cbn [emit_start e_r]. split; [unfold get_bus in *; rewrite F2, F3; exact Hbus|]. rewrite F1, Hs. exact HB.
Qed.

(* ------------------------------------------------------------------------------------------ *)
(** * Examples *)

Module RamRunExamples.
  Definition T (k a pc : Z) (bs : bytes) : tnode := {| tn_kind := k; tn_addr := a; tn_pc := pc; tn_bytes := bs; tn_ips := [] |}.
  Definition R lo hi mask wr : mapping := {| m_first := lo; m_last := hi; m_mask := mask; m_writable := wr |}.
  (** ROM 0x00-0x3F (32K windows); RAM banks 0x70-0x71 declared with mask 0x8000 *)
  Definition ranges : list mapping := [R 0 63 32768 false; R 112 113 32768 true].

  (** [*=0x8000  .db 1  @=0x710010  .db 2,3  .db 4  end]: behind [@=0x710010] the run address goes
      0x710010 -> 0x710012 -> 0x710013 *)
  Definition good : list tnode :=
    [T 1 0 0 []; T 0 32768 0 [1]; T 2 32769 1 []; T 0 7405584 1 [2; 3]; T 0 7405586 3 [4]; T 0 7405587 4 []].
  Example good_ok : ram_runs_ok (user_is_ram ranges) good = true.
  Proof. vm_compute. reflexivity. Qed.

  (** the seeded fault: the RAM address advanced through [Mapping.logical_address] — 0x8000 too high *)
  Definition bad : list tnode :=
    [T 1 0 0 []; T 0 32768 0 [1]; T 2 32769 1 []; T 0 7405584 1 [2; 3]; T 0 7438354 3 [4]; T 0 7438355 4 []].
  Example bad_rejected : ram_runs_ok (user_is_ram ranges) bad = false.
  Proof. vm_compute. reflexivity. Qed.

  (** the same on the built-in LoROM bus, RAM bank 0x7E *)
  Example builtin_good : ram_runs_ok (is_ram false)
    [T 1 0 0 []; T 0 8257536 0 [1; 2]; T 0 8257538 2 [3]; T 0 8257539 3 []] = true.
  Proof. vm_compute. reflexivity. Qed.
  Example builtin_bad : ram_runs_ok (is_ram false)
    [T 1 0 0 []; T 0 8257536 0 [1; 2]; T 0 8290306 2 [3]; T 0 8290307 3 []] = false.
  Proof. vm_compute. reflexivity. Qed.
  (** ROM nodes and position moves are not constrained by this clause *)
  Example rom_unconstrained : ram_runs_ok (is_ram false) [T 0 32768 0 [1]; T 0 99 1 []; T 1 8257536 1 []; T 0 5 1 []] = true.
  Proof. vm_compute. reflexivity. Qed.

  (** model traces (programs of WriterExamples / UserBusExamples): the RAM-run program on LoROM, and
      [@=0x7e0000] into the declared RAM of configuration 1 *)
  Import NonInterference.NIExamples Unroll.UnrollExamples WriterExamples UserBusExamples.
  Example ramrun_ok : match trace_of ramrun with Ok (tr, _) => ram_runs_ok (is_ram false) tr | _ => false end = true.
  Proof. vm_compute. reflexivity. Qed.
  Example prog_ok : match trace_of prog with Ok (tr, _) => ram_runs_ok (is_ram false) tr | _ => false end = true.
  Proof. vm_compute. reflexivity. Qed.
  Definition user_verdict (ds : list decl) (ns : list node) : res bool :=
    do ra <- resolve_labels ex_world (start ds) ns;
    do t <- model_trace ex_world (emit_start (fst ra)) ns (snd ra);
    Ok (ram_runs_ok (user_is_ram (ranges_of ds)) (fst t)).
  Example user1_ok : user_verdict ds1 p1 = Ok true.
  Proof. vm_compute. reflexivity. Qed.
  Example user2_ok : user_verdict ds2 p2 = Ok true.
  Proof. vm_compute. reflexivity. Qed.
End RamRunExamples.

Check ram_runs_ok.
Check trace_ram_runs_ok.
Check assemble_ram_runs_ok.
Check assemble_ram_runs_ok_builtin_start.
Check assemble_ram_runs_ok_codepos.
Check assemble_user_ram_runs_ok.
Check assemble_user_ram_runs_ok_from.
Print Assumptions trace_ram_runs_ok.
Print Assumptions assemble_ram_runs_ok.
Print Assumptions assemble_ram_runs_ok_builtin_start.
Print Assumptions assemble_ram_runs_ok_codepos.
Print Assumptions assemble_user_ram_runs_ok.
Print Assumptions assemble_user_ram_runs_ok_from.
