(** C03 — the model's emission satisfies the writer-protocol specification that the run-time oracle
    ([Oracle/Coreo.v]: [cut_spec], [pcs_ok], [offsets_ok]) applies to the implementation's trace.

    [model_trace] is the trace the model itself goes through along [emit_loop]: per node its kind,
    the run address and [resolver.pc] before the node, the bytes [node_emit] produced and the patch
    records of an [NIps].  This file proves, for every node list and start state:
    (a) the writer blocks are exactly [cut_spec] of the trace;
    (b) the trace satisfies [pcs_ok] (contiguity of the file offset).
    Part (c) ([offsets_ok]) is in [Proofs/WriterProtocolBus.v]. *)
From Coq Require Import ZArith List Lia Bool Arith.
From A816 Require Import Model.Program Oracle.Coreo Proofs.NodeProofs Proofs.ProgramProofs.
Open Scope Z_scope.

(** ** The model's trace *)
Definition node_kind (n : node) : Z :=
  match n with NCodePos _ _ => 1 | NReloc _ _ => 2 | NIps _ => 3 | _ => 0 end.
Definition node_ips (n : node) : list (bytes * Z) :=
  match n with NIps blocks => map (fun ab => (snd ab, fst ab)) blocks | _ => [] end.
Definition tnode_of (st : estate) (n : node) (bs : bytes) : tnode :=
  {| tn_kind := node_kind n; tn_addr := a_val (r_reloc (e_r st)); tn_pc := r_pc (e_r st);
     tn_bytes := bs; tn_ips := node_ips n |}.

(** the trace together with the emission state at the end (same recursion as [emit_loop]) *)
Fixpoint model_trace_st (w : world) (st : estate) (ns : list node) (addrs : list Z) : res (list tnode * estate) :=
  match ns with
  | [] => match addrs with
          | [expected] => if negb (a_val (r_reloc (e_r st)) =? expected) then Err ERuntime else Ok ([], st)
          | _ => Err EIndex
          end
  | n :: rest =>
      match addrs with
      | x :: addrs' =>
          do rb <- node_emit w (e_r st) n;
          do st' <- emit_step w st n x;
          do t <- model_trace_st w st' rest addrs';
          Ok (tnode_of st n (snd rb) :: fst t, snd t)
      | [] => Err EIndex
      end
  end.

(** the trace and [resolver.pc] at the end *)
Definition model_trace (w : world) (st : estate) (ns : list node) (addrs : list Z) : res (list tnode * Z) :=
  do t <- model_trace_st w st ns addrs; Ok (fst t, r_pc (e_r (snd t))).

(** what [emit] starts from *)
Definition emit_start (r : rstate) : estate := {| e_r := r; e_block := []; e_baddr := r_pc r; e_out := [] |}.

(** ** One step, taken apart *)
Definition flush (block : bytes) (baddr : Z) : list wblock :=
  match block with [] => [] | _ => [(block, baddr)] end.

Lemma emit_step_inv w st n x st1 : emit_step w st n x = Ok st1 ->
  exists r1 bs, node_emit w (e_r st) n = Ok (r1, bs) /\
    r_pc (e_r st1) = r_pc r1 + Z.of_nat (length bs) /\
    e_block st1 = (if is_codepos n then [] else e_block st ++ bs) /\
    e_baddr st1 = (if is_codepos n then r_pc (e_r st1) else e_baddr st) /\
    e_out st1 = (if is_codepos n then e_out st ++ flush (e_block st ++ bs) (e_baddr st) else e_out st ++ node_ips n).
Proof.
  unfold emit_step. destruct (negb _); [discriminate|].
  destruct (node_emit w (e_r st) n) as [[r1 bs]| |]; cbn [bind]; try discriminate.
  intros H. exists r1, bs. split; [reflexivity|].
  assert (Hr2 : exists r2, r_pc r2 = r_pc r1 + Z.of_nat (length bs) /\
    Ok st1 = Ok match n with
       | NIps blocks =>
           {| e_r := r2; e_block := e_block st ++ bs; e_baddr := e_baddr st;
              e_out := e_out st ++ map (fun ab => (snd ab, fst ab)) blocks |}
       | _ => if is_codepos n
              then {| e_r := r2; e_block := []; e_baddr := r_pc r2;
                      e_out := match e_block st ++ bs with [] => e_out st | _ => e_out st ++ [(e_block st ++ bs, e_baddr st)] end |}
              else {| e_r := r2; e_block := e_block st ++ bs; e_baddr := e_baddr st; e_out := e_out st |}
       end).
  { destruct bs as [|b0 bs0]; cbn [bind] in H.
    - exists r1. split; [cbn [length]; lia|]. rewrite <- H. destruct n; reflexivity.
    - destruct (addr_plus (r_reloc r1) _) as [a'| |]; cbn [bind] in H; try discriminate.
      eexists. split; [|rewrite <- H; destruct n; reflexivity]. reflexivity. }
  destruct Hr2 as (r2 & Hpc & E). inversion E as [E']; clear E H.
  destruct n; cbn [is_codepos node_ips e_r e_block e_baddr e_out];
    rewrite ?app_nil_r; repeat split; auto.
  unfold flush. destruct (e_block st ++ bs); [rewrite app_nil_r|]; reflexivity.
Qed.

Lemma node_kind_position n : is_position n = false -> (0 <? node_kind n) && (node_kind n <? 3) = false.
Proof. destruct n; cbn; intros H; try reflexivity; discriminate. Qed.
Lemma node_kind_codepos n : (node_kind n =? 1) = is_codepos n.
Proof. destruct n; reflexivity. Qed.
Lemma node_ips_codepos n : is_codepos n = true -> node_ips n = [].
Proof. destruct n; cbn; intros H; try reflexivity; discriminate. Qed.

(** ** The trace runs exactly when the emission loop does, and ends in the same state *)
Lemma trace_of_loop w ns : forall st addrs st',
  emit_loop w st ns addrs = Ok st' -> exists tr, model_trace_st w st ns addrs = Ok (tr, st').
Proof.
  induction ns as [|n ns IH]; intros st addrs st' H; cbn [emit_loop model_trace_st] in *.
  - destruct addrs as [|x [|y l]]; try discriminate.
    destruct (negb _); [discriminate|]. inversion H; subst. exists []. reflexivity.
  - destruct addrs as [|x addrs]; [discriminate|].
    destruct (emit_step w st n x) as [st1| |] eqn:ES; cbn [bind] in H; try discriminate.
    destruct (emit_step_inv _ _ _ _ _ ES) as (r1 & bs & NE & _). rewrite NE. cbn [bind snd].
    destruct (IH _ _ _ H) as (tr & T). rewrite T. cbn [bind fst snd]. eexists. reflexivity.
Qed.

Lemma loop_of_trace w ns : forall st addrs tr st',
  model_trace_st w st ns addrs = Ok (tr, st') -> emit_loop w st ns addrs = Ok st'.
Proof.
  induction ns as [|n ns IH]; intros st addrs tr st' H; cbn [emit_loop model_trace_st] in *.
  - destruct addrs as [|x [|y l]]; try discriminate.
    destruct (negb _); [discriminate|]. inversion H; subst. reflexivity.
  - destruct addrs as [|x addrs]; [discriminate|].
    destruct (node_emit w (e_r st) n) as [rb| |]; cbn [bind] in H; try discriminate.
    destruct (emit_step w st n x) as [st1| |]; cbn [bind] in *; try discriminate.
    destruct (model_trace_st w st1 ns addrs) as [[tr1 st2]| |] eqn:T; cbn [bind fst snd] in H; try discriminate.
    inversion H; subst. eapply IH; eauto.
Qed.

Definition first_pc (tr : list tnode) (end_pc : Z) : Z := match tr with m :: _ => tn_pc m | [] => end_pc end.

Lemma trace_first_pc w ns st addrs tr st' :
  model_trace_st w st ns addrs = Ok (tr, st') -> first_pc tr (r_pc (e_r st')) = r_pc (e_r st).
Proof.
  destruct ns as [|n ns]; cbn [model_trace_st].
  - destruct addrs as [|x [|y l]]; try discriminate. destruct (negb _); [discriminate|].
    intros H; inversion H; subst. reflexivity.
  - destruct addrs as [|x addrs]; [discriminate|].
    destruct (node_emit w (e_r st) n) as [rb| |]; cbn [bind]; try discriminate.
    destruct (emit_step w st n x) as [st1| |]; cbn [bind]; try discriminate.
    destruct (model_trace_st w st1 ns addrs) as [[tr1 st2]| |]; cbn [bind fst snd]; try discriminate.
    intros H; inversion H; subst. reflexivity.
Qed.

(** ** (a) the writer calls are [cut_spec] of the trace *)
Lemma cut_spec_cons n rest end_pc block baddr :
  cut_spec (n :: rest) end_pc block baddr =
  if tn_kind n =? 1
  then flush (block ++ tn_bytes n) baddr ++ cut_spec rest end_pc [] (first_pc rest end_pc)
  else tn_ips n ++ cut_spec rest end_pc (block ++ tn_bytes n) baddr.
Proof. reflexivity. Qed.

Theorem trace_cut w ns : forall st addrs tr st',
  model_trace_st w st ns addrs = Ok (tr, st') ->
  e_out st' ++ flush (e_block st') (e_baddr st') =
  e_out st ++ cut_spec tr (r_pc (e_r st')) (e_block st) (e_baddr st).
Proof.
  induction ns as [|n ns IH]; intros st addrs tr st' H; cbn [model_trace_st] in H.
  - destruct addrs as [|x [|y l]]; try discriminate. destruct (negb _); [discriminate|].
    inversion H; subst. reflexivity.
  - destruct addrs as [|x addrs]; [discriminate|].
    destruct (node_emit w (e_r st) n) as [[r1 bs]| |] eqn:NE; cbn [bind] in H; try discriminate.
    destruct (emit_step w st n x) as [st1| |] eqn:ES; cbn [bind] in H; try discriminate.
    destruct (model_trace_st w st1 ns addrs) as [[tr1 st2]| |] eqn:T; cbn [bind fst snd] in H; try discriminate.
    inversion H; subst tr st2; clear H.
    destruct (emit_step_inv _ _ _ _ _ ES) as (r1' & bs' & NE' & _ & Hblock & Hbaddr & Hout).
    rewrite NE in NE'. inversion NE'; subst r1' bs'; clear NE'.
    rewrite (IH _ _ _ _ T), cut_spec_cons. cbn [tnode_of tn_kind tn_bytes tn_ips].
    rewrite node_kind_codepos, Hblock, Hbaddr, Hout, (trace_first_pc _ _ _ _ _ _ T).
    destruct (is_codepos n); rewrite <- app_assoc; reflexivity.
Qed.

(** ** (b) contiguity of the file offset *)
Lemma pcs_ok_cons n rest end_pc :
  pcs_ok (n :: rest) end_pc =
  ((0 <? tn_kind n) && (tn_kind n <? 3) || (first_pc rest end_pc =? tn_pc n + Z.of_nat (length (tn_bytes n))))
  && pcs_ok rest end_pc.
Proof. reflexivity. Qed.

Theorem trace_pcs_ok w ns : forall st addrs tr st',
  model_trace_st w st ns addrs = Ok (tr, st') -> pcs_ok tr (r_pc (e_r st')) = true.
Proof.
  induction ns as [|n ns IH]; intros st addrs tr st' H; cbn [model_trace_st] in H.
  - destruct addrs as [|x [|y l]]; try discriminate. destruct (negb _); [discriminate|].
    inversion H; subst. reflexivity.
  - destruct addrs as [|x addrs]; [discriminate|].
    destruct (node_emit w (e_r st) n) as [[r1 bs]| |] eqn:NE; cbn [bind] in H; try discriminate.
    destruct (emit_step w st n x) as [st1| |] eqn:ES; cbn [bind] in H; try discriminate.
    destruct (model_trace_st w st1 ns addrs) as [[tr1 st2]| |] eqn:T; cbn [bind fst snd] in H; try discriminate.
    inversion H; subst tr st2; clear H.
    rewrite pcs_ok_cons, (IH _ _ _ _ T), andb_true_r. cbn [tnode_of tn_kind tn_bytes tn_pc].
    rewrite (trace_first_pc _ _ _ _ _ _ T).
    destruct (is_position n) eqn:Hpos.
    + destruct n; try discriminate; reflexivity.
    + rewrite (node_kind_position n Hpos). cbn [orb].
      destruct (emit_step_inv _ _ _ _ _ ES) as (r1' & bs' & NE' & Hpc & _).
      rewrite NE in NE'. inversion NE'; subst r1' bs'; clear NE'.
      destruct (node_emit_keeps_position _ _ _ _ _ Hpos NE) as [_ Hpc1].
      rewrite Hpc, Hpc1. apply Z.eqb_refl.
Qed.

(** ** [emit] and [assemble_nodes] *)

(** C03, writer protocol (a)+(b) for [emit]: the blocks handed to the writer are the protocol
    specification applied to the model's own trace, and the trace is contiguous.  The block being
    accumulated at the start is empty and is opened at [r_pc r]. *)
Theorem emit_writer_protocol w r ns addrs r' blocks :
  emit w r ns addrs = Ok (r', blocks) ->
  exists tr, model_trace w (emit_start r) ns addrs = Ok (tr, r_pc r') /\
    blocks = cut_spec tr (r_pc r') [] (r_pc r) /\
    pcs_ok tr (r_pc r') = true.
Proof.
  unfold emit. fold (emit_start r).
  destruct (emit_loop w (emit_start r) ns addrs) as [st| |] eqn:E; cbn [bind]; try discriminate.
  intros H. inversion H; subst r' blocks; clear H.
  destruct (trace_of_loop _ _ _ _ _ E) as (tr & T). exists tr.
  unfold model_trace. rewrite T. cbn [bind fst snd]. split; [reflexivity|]. split.
  - pose proof (trace_cut _ _ _ _ _ _ T) as C. cbn [emit_start e_out e_block e_baddr app] in C.
    rewrite <- C. unfold flush. destruct (e_block st); [rewrite app_nil_r|]; reflexivity.
  - apply (trace_pcs_ok _ _ _ _ _ _ T).
Qed.

(** [resolve_labels] leaves [resolver.pc = 0]: the oracle's initial block address. *)
Lemma resolve_labels_pc w r ns r1 addrs : resolve_labels w r ns = Ok (r1, addrs) -> r_pc r1 = 0.
Proof.
  unfold resolve_labels.
  destruct (label_pass w _ ns _ []) as [[[ra a1] l]| |]; cbn [bind]; try discriminate.
  destruct (symbol_pass w _ ns _) as [y| |]; cbn [bind]; try discriminate.
  intros H; inversion H; subst. reflexivity.
Qed.

(** C03 for the whole assembly, in exactly the form the oracle checks ([spec_ok (SBlocks ...)]):
    [list_eqb wblock_eqb (cut_spec ns end_pc [] 0) blocks] and [pcs_ok ns end_pc]. *)
Theorem assemble_writer_protocol w r ns o :
  assemble_nodes w r ns = Ok o ->
  exists r1 addrs tr,
    resolve_labels w r ns = Ok (r1, addrs) /\
    model_trace w (emit_start r1) ns addrs = Ok (tr, r_pc (o_final o)) /\
    o_blocks o = cut_spec tr (r_pc (o_final o)) [] 0 /\
    pcs_ok tr (r_pc (o_final o)) = true.
Proof.
  unfold assemble_nodes.
  destruct (resolve_labels w r ns) as [[r1 addrs]| |] eqn:RL; cbn [bind fst snd]; try discriminate.
  destruct (emit w r1 ns addrs) as [[r' blocks]| |] eqn:EM; cbn [bind fst snd]; try discriminate.
  intros H; inversion H; subst o; clear H. cbn [o_blocks o_final].
  destruct (emit_writer_protocol _ _ _ _ _ _ EM) as (tr & T & C & P).
  exists r1, addrs, tr. rewrite <- (resolve_labels_pc _ _ _ _ _ RL). auto.
Qed.

(** the trace has one entry per node, in order, with the node's kind *)
Lemma trace_kinds w ns : forall st addrs tr st',
  model_trace_st w st ns addrs = Ok (tr, st') -> map tn_kind tr = map node_kind ns.
Proof.
  induction ns as [|n ns IH]; intros st addrs tr st' H; cbn [model_trace_st] in H.
  - destruct addrs as [|x [|y l]]; try discriminate. destruct (negb _); [discriminate|].
    inversion H; subst. reflexivity.
  - destruct addrs as [|x addrs]; [discriminate|].
    destruct (node_emit w (e_r st) n) as [rb| |]; cbn [bind] in H; try discriminate.
    destruct (emit_step w st n x) as [st1| |]; cbn [bind] in H; try discriminate.
    destruct (model_trace_st w st1 ns addrs) as [[tr1 st2]| |] eqn:T; cbn [bind fst snd] in H; try discriminate.
    inversion H; subst. cbn [map tnode_of tn_kind]. rewrite (IH _ _ _ _ T). reflexivity.
Qed.
