(** C03 (c) — on the two built-in buses the model's trace satisfies [offsets_ok]: while the code is
    not relocated, every emitting node sits at the file offset the mapping assigns to its run
    address.

    The invariant ("in step"): the run address lives on the built-in bus and its physical offset is
    [resolver.pc], or it is a RAM address.  A [*=] establishes it; every other node keeps it as long
    as (1) no bytes are emitted at a RAM address while not relocated and (2) the file offset stays
    below 4 MiB (the size of the smaller of the two ROM areas).  Both side conditions are needed —
    see the examples at the end: without (1) a run that starts in RAM walks into the ROM mirror and
    is then out of step. *)
From Coq Require Import ZArith List Lia Bool ZifyBool Arith.
From A816 Require Import Model.Program Oracle.Coreo Proofs.BitLemmas Proofs.BusProofs Proofs.NodeProofs
     Proofs.ProgramProofs Proofs.WriterProtocol.
Open Scope Z_scope.
Ltac Zify.zify_post_hook ::= Z.to_euclidean_division_equations.

(** ** Mappings with a 32K / 64K window, anywhere in the bank *)
Lemma phys_any m a : mask_ok m -> m_writable m = false ->
  physical_address m a = Some ((bank_of a - m_first m) * m_mask m + a mod m_mask m).
Proof.
  intros [Hm|Hm] Hw; unfold physical_address, bank_of; rewrite Hw, Hm, shiftr16.
  - rewrite low15. reflexivity.
  - rewrite low16. reflexivity.
Qed.

Lemma get_address_ok b v v' : get_address b v = Ok v' ->
  v' = v /\ exists x, addr_physical b v = Ok x.
Proof.
  unfold get_address, addr_physical. destruct (bus_mapping_for_bank b (Z.shiftr v 16)) as [m| |]; cbn [bind]; try discriminate.
  intros H; inversion H. split; [reflexivity|]. eexists. reflexivity.
Qed.

(** ** The bank tables of the built-in buses *)
Lemma lorom_bank bank m : bus_mapping_for_bank lorom bank = Ok m ->
  m_writable m = true \/
  (m_mask m = 32768 /\ m_writable m = false /\
   ((m_first m = 0 /\ 0 <= bank <= 111) \/ (m_first m = 128 /\ 128 <= bank <= 207))).
Proof.
  unfold bus_mapping_for_bank, lorom. cbn [b_ranges b_maps find_range].
  split_leb; cbn [andb]; try lia;
    cbn [dict_get str_eqb list_eqb Z.eqb andb bind Pos.eqb]; intros Hmap; inversion Hmap; subst; clear Hmap;
    cbn [m_writable m_mask m_first]; auto; right; repeat split; auto; lia.
Qed.

Lemma hirom_bank bank m : bus_mapping_for_bank hirom bank = Ok m ->
  m_writable m = true \/
  (m_mask m = 65536 /\ m_writable m = false /\
   ((m_first m = 64 /\ 64 <= bank <= 125) \/ (m_first m = 192 /\ 192 <= bank <= 255))).
Proof.
  unfold bus_mapping_for_bank, hirom. cbn [b_ranges b_maps find_range].
  split_leb; cbn [andb]; try lia;
    cbn [dict_get str_eqb list_eqb Z.eqb andb bind Pos.eqb]; intros Hmap; inversion Hmap; subst; clear Hmap;
    cbn [m_writable m_mask m_first]; auto; right; repeat split; auto; lia.
Qed.

(** ** Advancing a ROM address keeps it in step (or takes it into RAM) *)
Definition rom_limit : Z := 4194304.

Lemma lorom_add_good a p n a' :
  addr_physical lorom a = Ok (Some p) -> 0 <= n -> p + n < rom_limit -> addr_add lorom a n = Ok a' ->
  addr_physical lorom a' = Ok (Some (p + n)) \/ addr_physical lorom a' = Ok None.
Proof.
  unfold rom_limit. intros Hp Hn Hlim Hadd. unfold addr_physical in Hp. unfold addr_add in Hadd.
  destruct (bus_mapping_for_bank lorom (Z.shiftr a 16)) as [m| |] eqn:Em; cbn [bind] in Hp, Hadd; try discriminate.
  rewrite bank_shiftr in Em.
  destruct (lorom_bank _ _ Em) as [Hw|(Hmask & Hw & Hfirst)].
  { rewrite (physical_ram m a Hw) in Hp. discriminate. }
  assert (Hmo : mask_ok m) by (left; exact Hmask).
  rewrite (phys_any m a Hmo Hw) in Hp, Hadd. inversion Hp as [Hp']; clear Hp.
  rewrite Hp' in Hadd. rewrite (logical_spec m (p + n) Hmo) in Hadd. cbn [bind] in Hadd.
  destruct (get_address_ok _ _ _ Hadd) as (-> & x & Hx).
  destruct (spec_address_props m (p + n) Hmo) as (Hb' & _ & _).
  assert (Hr : spec_address m (p + n) mod 32768 = (p + n) mod 32768)
    by (unfold spec_address, window_start; rewrite Hmask; lia).
  rewrite lorom_closed_form in Hx |- *. unfold lorom_spec in *.
  set (a' := spec_address m (p + n)) in *. set (b' := bank_of a') in *. rewrite Hmask in *.
  destruct ((0 <=? b') && (b' <=? 111)) eqn:C1.
  - left. do 2 f_equal. rewrite Hr. destruct Hfirst as [[Hf Hbank]|[Hf Hbank]]; rewrite Hf in *; lia.
  - destruct ((128 <=? b') && (b' <=? 207)) eqn:C2.
    + left. do 2 f_equal. rewrite Hr. destruct Hfirst as [[Hf Hbank]|[Hf Hbank]]; rewrite Hf in *; lia.
    + destruct ((126 <=? b') && (b' <=? 127)); [right; reflexivity|discriminate].
Qed.

Lemma hirom_add_good a p n a' :
  addr_physical hirom a = Ok (Some p) -> 0 <= n -> p + n < rom_limit -> addr_add hirom a n = Ok a' ->
  addr_physical hirom a' = Ok (Some (p + n)) \/ addr_physical hirom a' = Ok None.
Proof.
  unfold rom_limit. intros Hp Hn Hlim Hadd. unfold addr_physical in Hp. unfold addr_add in Hadd.
  destruct (bus_mapping_for_bank hirom (Z.shiftr a 16)) as [m| |] eqn:Em; cbn [bind] in Hp, Hadd; try discriminate.
  rewrite bank_shiftr in Em.
  destruct (hirom_bank _ _ Em) as [Hw|(Hmask & Hw & Hfirst)].
  { rewrite (physical_ram m a Hw) in Hp. discriminate. }
  assert (Hmo : mask_ok m) by (right; exact Hmask).
  rewrite (phys_any m a Hmo Hw) in Hp, Hadd. inversion Hp as [Hp']; clear Hp.
  rewrite Hp' in Hadd. rewrite (logical_spec m (p + n) Hmo) in Hadd. cbn [bind] in Hadd.
  destruct (get_address_ok _ _ _ Hadd) as (-> & x & Hx).
  destruct (spec_address_props m (p + n) Hmo) as (Hb' & _ & _).
  assert (Hr : spec_address m (p + n) mod 65536 = (p + n) mod 65536)
    by (unfold spec_address, window_start; rewrite Hmask; lia).
  rewrite hirom_closed_form in Hx |- *. unfold hirom_spec in *.
  set (a' := spec_address m (p + n)) in *. set (b' := bank_of a') in *. rewrite Hmask in *.
  destruct ((126 <=? b') && (b' <=? 127)) eqn:C0; [right; reflexivity|].
  destruct ((64 <=? b') && (b' <=? 125)) eqn:C1.
  - left. do 2 f_equal. rewrite Hr. destruct Hfirst as [[Hf Hbank]|[Hf Hbank]]; rewrite Hf in *; lia.
  - destruct ((192 <=? b') && (b' <=? 255)) eqn:C2; [|discriminate].
    left. do 2 f_equal. rewrite Hr. destruct Hfirst as [[Hf Hbank]|[Hf Hbank]]; rewrite Hf in *; lia.
Qed.

(** ** What a step does to the resolver's position *)
Lemma set_position_inv w r v r' : set_position w r v = Ok r' ->
  exists b p, get_bus w r = Ok b /\ addr_physical b v = Ok p /\
    r_reloc r' = {| a_bus := b; a_val := v |} /\
    r_pc r' = match p with Some off => off | None => r_pc r end /\
    r_bus r' = r_bus r /\ r_rom r' = r_rom r.
Proof.
  unfold set_position. destruct (get_bus w r) as [b| |] eqn:Eb; cbn [bind]; try discriminate.
  unfold mk_addr. destruct (get_address b v) as [v'| |]; cbn [bind]; try discriminate.
  unfold addr_phys. cbn [a_bus a_val].
  destruct (addr_physical b v) as [p| |] eqn:Ep; cbn [bind]; try discriminate.
  intros H; inversion H; subst; clear H. exists b, p.
  destruct p; cbn [set_reloc set_pc r_reloc r_pc r_bus r_rom]; repeat split; auto.
Qed.

Lemma node_emit_bus w r n r1 bs : node_emit w r n = Ok (r1, bs) -> r_bus r1 = r_bus r /\ r_rom r1 = r_rom r.
Proof.
  destruct n; cbn [node_emit];
    repeat match goal with
           | |- bind ?x _ = Ok _ -> _ => let E := fresh "E" in destruct x eqn:E; cbn [bind]; try discriminate
           end;
    intros X; inversion X; subst; clear X; auto.
  - destruct (set_position_inv _ _ _ _ E0) as (b & p & _ & _ & _ & _ & A & C). auto.
  - destruct (set_position_inv _ _ _ _ E0) as (b & p & _ & _ & _ & _ & A & C). auto.
  - unfold use_next_scope in E. destruct (nth_error _ _); [|discriminate]. inversion E; subst. auto.
  - unfold restore_scope in E. destruct (nth_error _ _) as [s|]; [|discriminate].
    destruct (s_parent s); [|discriminate]. inversion E; subst.
    destruct (s_kind s); try destruct false; auto.
Qed.

Lemma emit_step_inv2 w st n x st1 : emit_step w st n x = Ok st1 ->
  exists r1 bs, node_emit w (e_r st) n = Ok (r1, bs) /\
    r_bus (e_r st1) = r_bus r1 /\ r_rom (e_r st1) = r_rom r1 /\
    match bs with
    | [] => e_r st1 = r1
    | _ => exists a', addr_plus (r_reloc r1) (Z.of_nat (length bs)) = Ok a' /\
                      r_reloc (e_r st1) = a' /\ r_pc (e_r st1) = r_pc r1 + Z.of_nat (length bs)
    end.
Proof.
  unfold emit_step. destruct (negb _); [discriminate|].
  destruct (node_emit w (e_r st) n) as [[r1 bs]| |]; cbn [bind]; try discriminate.
  intros H. exists r1, bs. split; [reflexivity|].
  destruct bs as [|b0 bs0]; cbn [bind] in H.
  - assert (E : e_r st1 = r1) by (destruct n; inversion H; reflexivity). rewrite E. auto.
  - destruct (addr_plus (r_reloc r1) _) as [a'| |]; cbn [bind] in H; try discriminate.
    assert (E : e_r st1 = set_reloc (set_pc r1 (r_pc r1 + Z.of_nat (length (b0 :: bs0)))) a')
      by (destruct n; inversion H; reflexivity).
    rewrite E. cbn [set_reloc set_pc r_bus r_rom r_reloc r_pc]. repeat split; auto. exists a'. auto.
Qed.

(** ** The invariant and the side condition *)
Definition next_rel (rel : bool) (kind : Z) : bool :=
  if kind =? 1 then false else if kind =? 2 then true else rel.

Lemma offsets_ok_cons high n rest rel :
  offsets_ok high (n :: rest) rel =
  (match tn_bytes n with
   | [] => true
   | _ => rel || match rom_offset high (tn_addr n) with Some p => p =? tn_pc n | None => true end
   end) && offsets_ok high rest (next_rel rel (tn_kind n)).
Proof. reflexivity. Qed.

(** Side condition on a trace: while not relocated, no bytes are emitted at a RAM address, and the
    file offset stays below 4 MiB. *)
Fixpoint rom_run (high : bool) (tr : list tnode) (rel : bool) : bool :=
  match tr with
  | [] => true
  | n :: rest =>
      (match tn_bytes n with
       | [] => true
       | _ => rel || (negb (is_ram high (tn_addr n)) && (tn_pc n + Z.of_nat (length (tn_bytes n)) <? rom_limit))
       end) && rom_run high rest (next_rel rel (tn_kind n))
  end.

Section Offsets.
  Variable w : world.
  Variable high : bool.
  Variable B : bus.
  Definition bspec (a : Z) : res (option Z) := if high then hirom_spec a else lorom_spec a.
  Hypothesis Hclosed : forall a, addr_physical B a = bspec a.
  Hypothesis Hadd : forall a p n a',
    addr_physical B a = Ok (Some p) -> 0 <= n -> p + n < rom_limit -> addr_add B a n = Ok a' ->
    addr_physical B a' = Ok (Some (p + n)) \/ addr_physical B a' = Ok None.

  (** the run address is on the built-in bus, and is a ROM address whose offset is [resolver.pc],
      or a RAM address *)
  Definition in_step (r : rstate) : Prop :=
    a_bus (r_reloc r) = B /\
    (addr_physical B (a_val (r_reloc r)) = Ok (Some (r_pc r)) \/ addr_physical B (a_val (r_reloc r)) = Ok None).

  Definition inv (rel : bool) (r : rstate) : Prop := get_bus w r = Ok B /\ (rel = false -> in_step r).

  Lemma head_ok r : in_step r ->
    match rom_offset high (a_val (r_reloc r)) with Some p => p =? r_pc r | None => true end = true.
  Proof.
    intros [_ [H|H]]; rewrite Hclosed in H; unfold rom_offset, bspec in *; destruct high.
    - rewrite H. apply Z.eqb_refl.
    - destruct (32768 <=? _); [|reflexivity]. rewrite H. apply Z.eqb_refl.
    - rewrite H. reflexivity.
    - destruct (32768 <=? _); [|reflexivity]. rewrite H. reflexivity.
  Qed.

  Lemma get_bus_same r r' : r_bus r' = r_bus r -> r_rom r' = r_rom r -> get_bus w r' = get_bus w r.
  Proof. intros H1 H2. unfold get_bus. rewrite H1, H2. reflexivity. Qed.

  Lemma step_inv st n x st1 bs rel :
    inv rel (e_r st) -> emit_step w st n x = Ok st1 ->
    rom_run high [tnode_of st n bs] rel = true ->
    (exists r1, node_emit w (e_r st) n = Ok (r1, bs)) ->
    inv (next_rel rel (node_kind n)) (e_r st1).
  Proof.
    intros [Hbus Hstep] ES Hg (r1 & NE).
    destruct (emit_step_inv2 _ _ _ _ _ ES) as (r1' & bs' & NE' & Hb2 & Hr2 & Hshape).
    rewrite NE in NE'. inversion NE'; subst r1' bs'; clear NE'.
    destruct (node_emit_bus _ _ _ _ _ NE) as [Hb1 Hr1].
    assert (Hbus1 : get_bus w (e_r st1) = Ok B).
    { rewrite <- Hbus. apply get_bus_same; congruence. }
    split; [exact Hbus1|].
    destruct (is_position n) eqn:Hpos.
    - (* position moves *)
      destruct n; cbn [is_position] in Hpos; try discriminate Hpos;
        [change (next_rel rel (node_kind (NCodePos e fi))) with false
        |change (next_rel rel (node_kind (NReloc e fi))) with true; discriminate].
      intros _. cbn [node_emit] in NE.
      destruct (get_value w (e_r st) e) as [v| |]; cbn [bind] in NE; try discriminate.
      destruct (set_position w (e_r st) v) as [r'| |] eqn:SP; cbn [bind] in NE; try discriminate.
      inversion NE; subst r1 bs; clear NE. rewrite Hshape.
      destruct (set_position_inv _ _ _ _ SP) as (b & p & Gb & Ph & Rl & Pc & _ & _).
      rewrite Hbus in Gb. inversion Gb; subst b.
      unfold in_step. rewrite Rl, Pc. cbn [a_bus a_val]. split; [reflexivity|].
      destruct p; [left|right]; exact Ph.
    - (* every other node *)
      assert (Hk : next_rel rel (node_kind n) = rel)
        by (destruct n; cbn [is_position] in Hpos; try discriminate Hpos; reflexivity).
      rewrite Hk. intros Hrel. specialize (Hstep Hrel). subst rel.
      destruct (node_emit_keeps_position _ _ _ _ _ Hpos NE) as [Hrl Hpc].
      destruct bs as [|b0 bs0].
      + rewrite Hshape. unfold in_step. rewrite Hrl, Hpc. exact Hstep.
      + destruct Hshape as (a' & Hplus & Hrl' & Hpc').
        cbn [rom_run tnode_of tn_bytes tn_addr tn_pc orb] in Hg. rewrite andb_true_r in Hg.
        apply andb_prop in Hg as [Hram Hlim]. apply Z.ltb_lt in Hlim.
        destruct Hstep as [HB [Hgood|Hramst]].
        2:{ unfold is_ram in Hram. fold (bspec (a_val (r_reloc (e_r st)))) in Hram.
            rewrite <- Hclosed, Hramst in Hram. discriminate. }
        unfold addr_plus in Hplus. rewrite Hrl, HB in Hplus.
        destruct (addr_add B (a_val (r_reloc (e_r st))) _) as [v'| |] eqn:AD; cbn [bind] in Hplus; try discriminate.
        inversion Hplus as [Ha']; clear Hplus. rewrite <- Ha' in Hrl'.
        unfold in_step. rewrite Hrl', Hpc', Hpc. cbn [a_bus a_val]. split; [reflexivity|].
        refine (Hadd _ _ _ _ Hgood _ Hlim AD). lia.
  Qed.

  (** (c), general form: from a state satisfying the invariant *)
  Theorem trace_offsets_ok ns : forall st addrs tr st' rel,
    inv rel (e_r st) -> model_trace_st w st ns addrs = Ok (tr, st') ->
    rom_run high tr rel = true -> offsets_ok high tr rel = true.
  Proof.
    induction ns as [|n ns IH]; intros st addrs tr st' rel Hinv H Hg; cbn [model_trace_st] in H.
    - destruct addrs as [|x [|y l]]; try discriminate. destruct (negb _); [discriminate|].
      inversion H; subst. reflexivity.
    - destruct addrs as [|x addrs]; [discriminate|].
      destruct (node_emit w (e_r st) n) as [[r1 bs]| |] eqn:NE; cbn [bind] in H; try discriminate.
      destruct (emit_step w st n x) as [st1| |] eqn:ES; cbn [bind] in H; try discriminate.
      destruct (model_trace_st w st1 ns addrs) as [[tr1 st2]| |] eqn:T; cbn [bind fst snd] in H; try discriminate.
      inversion H; subst tr st2; clear H. cbn [snd] in *.
      cbn [rom_run] in Hg. apply andb_prop in Hg as [Hg1 Hg2].
      rewrite offsets_ok_cons. apply andb_true_intro. split.
      + cbn [tnode_of tn_bytes tn_addr tn_pc]. destruct bs as [|b0 bs0]; [reflexivity|].
        destruct rel; [reflexivity|]. cbn [orb]. apply head_ok. apply Hinv. reflexivity.
      + cbn [tnode_of tn_kind] in *. apply (IH st1 addrs tr1 st' _); [|exact T|exact Hg2].
        eapply step_inv; eauto. cbn [rom_run]. rewrite Hg1. reflexivity.
  Qed.
End Offsets.

(** a node list that starts with a [*=] needs no assumption on the position it starts from *)
Section OffsetsCodepos.
  Variable w : world.
  Variable high : bool.
  Variable B : bus.
  Hypothesis Hclosed : forall a, addr_physical B a = bspec high a.
  Hypothesis Hadd : forall a p n a',
    addr_physical B a = Ok (Some p) -> 0 <= n -> p + n < rom_limit -> addr_add B a n = Ok a' ->
    addr_physical B a' = Ok (Some (p + n)) \/ addr_physical B a' = Ok None.

  Theorem trace_offsets_ok_codepos e fi ns st addrs tr st' :
    get_bus w (e_r st) = Ok B ->
    model_trace_st w st (NCodePos e fi :: ns) addrs = Ok (tr, st') ->
    rom_run high tr false = true -> offsets_ok high tr false = true.
  Proof.
    intros Hbus H Hg. cbn [model_trace_st] in H.
    destruct addrs as [|x addrs]; [discriminate|].
    destruct (node_emit w (e_r st) (NCodePos e fi)) as [[r1 bs]| |] eqn:NE; cbn [bind] in H; try discriminate.
    destruct (emit_step w st (NCodePos e fi) x) as [st1| |] eqn:ES; cbn [bind] in H; try discriminate.
    destruct (model_trace_st w st1 ns addrs) as [[tr1 st2]| |] eqn:T; cbn [bind fst snd] in H; try discriminate.
    inversion H; subst tr st2; clear H. cbn [snd] in *.
    assert (Hbs : bs = []).
    { cbn [node_emit] in NE. destruct (get_value w (e_r st) e) as [v| |]; cbn [bind] in NE; try discriminate.
      destruct (set_position w (e_r st) v); cbn [bind] in NE; try discriminate. inversion NE; reflexivity. }
    subst bs. rewrite offsets_ok_cons. cbn [tnode_of tn_bytes tn_kind andb].
    cbn [rom_run tnode_of tn_bytes tn_kind andb] in Hg.
    change (next_rel false (node_kind (NCodePos e fi))) with false in *.
    apply (trace_offsets_ok w high B Hclosed Hadd ns st1 addrs tr1 st' false); [|exact T|exact Hg].
    change false with (next_rel true (node_kind (NCodePos e fi))).
    apply (step_inv w high B Hclosed Hadd st (NCodePos e fi) x st1 [] true); [|exact ES|reflexivity|eauto].
    split; [exact Hbus|discriminate].
  Qed.
End OffsetsCodepos.

(** ** The two built-in buses *)
Lemma lorom_closed a : addr_physical lorom a = bspec false a.
Proof. apply lorom_closed_form. Qed.
Lemma hirom_closed a : addr_physical hirom a = bspec true a.
Proof. apply hirom_closed_form. Qed.

Definition builtin (high : bool) : bus := if high then hirom else lorom.

Lemma builtin_closed high a : addr_physical (builtin high) a = bspec high a.
Proof. destruct high; [apply hirom_closed|apply lorom_closed]. Qed.
Lemma builtin_add_good high a p n a' :
  addr_physical (builtin high) a = Ok (Some p) -> 0 <= n -> p + n < rom_limit -> addr_add (builtin high) a n = Ok a' ->
  addr_physical (builtin high) a' = Ok (Some (p + n)) \/ addr_physical (builtin high) a' = Ok None.
Proof. destruct high; [apply hirom_add_good|apply lorom_add_good]. Qed.

(** C03 (c) for a run of the emission loop on a built-in bus, from an in-step state. *)
Theorem builtin_offsets_ok w high st ns addrs tr st' :
  get_bus w (e_r st) = Ok (builtin high) -> in_step (builtin high) (e_r st) ->
  model_trace_st w st ns addrs = Ok (tr, st') ->
  rom_run high tr false = true -> offsets_ok high tr false = true.
Proof.
  intros Hbus Hstep T Hg.
  apply (trace_offsets_ok w high (builtin high) (builtin_closed high) (builtin_add_good high) ns st addrs tr st' false);
    auto. split; auto.
Qed.

(** ... and from any state when the list starts with a [*=]. *)
Theorem builtin_offsets_ok_codepos w high e fi ns st addrs tr st' :
  get_bus w (e_r st) = Ok (builtin high) ->
  model_trace_st w st (NCodePos e fi :: ns) addrs = Ok (tr, st') ->
  rom_run high tr false = true -> offsets_ok high tr false = true.
Proof.
  apply (trace_offsets_ok_codepos w high (builtin high) (builtin_closed high) (builtin_add_good high)).
Qed.

(** ** The passes before the emission leave the position and the bus alone *)
Definition fixed (r r' : rstate) : Prop :=
  r_reloc r' = r_reloc r /\ r_bus r' = r_bus r /\ r_rom r' = r_rom r.
Lemma fixed_refl r : fixed r r.
Proof. repeat split. Qed.
Lemma fixed_trans a b c : fixed a b -> fixed b c -> fixed a c.
Proof. intros (A1 & A2 & A3) (B1 & B2 & B3). repeat split; congruence. Qed.

Lemma pc_after_fixed w r n a r' a' : pc_after w r n a = Ok (r', a') -> fixed r r'.
Proof.
  destruct n; cbn [pc_after];
    repeat match goal with
           | |- bind ?x _ = Ok _ -> _ => let E := fresh "E" in destruct x eqn:E; cbn [bind]; try discriminate
           end;
    intros X; inversion X; subst; clear X; try apply fixed_refl; try (repeat split; fail).
  - unfold use_next_scope in E. destruct (nth_error _ _); [|discriminate]. inversion E; subst. repeat split.
  - unfold restore_scope in E. destruct (nth_error _ _) as [s|]; [|discriminate].
    destruct (s_parent s); [|discriminate]. inversion E; subst.
    destruct (s_kind s); repeat split.
Qed.

Lemma label_pass_fixed w ns : forall r a acc r' a' l, label_pass w r ns a acc = Ok (r', a', l) -> fixed r r'.
Proof.
  induction ns as [|n ns IH]; intros r a acc r' a' l; cbn [label_pass].
  - intros X; inversion X; subst. apply fixed_refl.
  - destruct (is_symbol_node n); [apply IH|].
    destruct (pc_after w r n a) as [[r1 a1]| |] eqn:E; cbn [bind fst snd]; try discriminate.
    intros X. eapply fixed_trans; [eapply pc_after_fixed; eauto|eapply IH; eauto].
Qed.
Lemma symbol_pass_fixed w ns : forall r a r' a', symbol_pass w r ns a = Ok (r', a') -> fixed r r'.
Proof.
  induction ns as [|n ns IH]; intros r a r' a'; cbn [symbol_pass].
  - intros X; inversion X; subst. apply fixed_refl.
  - destruct (is_label_or_binary n); [apply IH|].
    destruct (pc_after w r n a) as [[r1 a1]| |] eqn:E; cbn [bind fst snd]; try discriminate.
    intros X. eapply fixed_trans; [eapply pc_after_fixed; eauto|eapply IH; eauto].
Qed.
Lemma resolve_labels_fixed w r ns r1 addrs : resolve_labels w r ns = Ok (r1, addrs) -> fixed r r1.
Proof.
  unfold resolve_labels.
  destruct (label_pass w _ ns _ []) as [[[ra a1] l]| |] eqn:E1; cbn [bind]; try discriminate.
  destruct (symbol_pass w _ ns _) as [[rb a2]| |] eqn:E2; cbn [bind fst]; try discriminate.
  intros X; inversion X; subst; clear X.
  destruct (label_pass_fixed _ _ _ _ _ _ _ _ E1) as (A1 & A2 & A3).
  destruct (symbol_pass_fixed _ _ _ _ _ _ E2) as (B1 & B2 & B3).
  unfold fixed, resolver_reset in *. cbn [set_pc set_cur_last r_reloc r_bus r_rom] in *. repeat split; congruence.
Qed.

(** ** The whole assembly: (a) + (b) + (c), in the form of the oracle's [spec_ok (SBlocks ...)] *)

(** the oracle's three checks on a trace *)
Definition protocol_ok (high : bool) (tr : list tnode) (end_pc : Z) (blocks : list wblock) : Prop :=
  blocks = cut_spec tr end_pc [] 0 /\ pcs_ok tr end_pc = true /\
  (rom_run high tr false = true -> offsets_ok high tr false = true).

(** From a start position that is in step at file offset 0 (true of the initial resolver on LoROM,
    see [initial_in_step]). *)
Theorem assemble_writer_protocol_builtin w high r ns o :
  get_bus w r = Ok (builtin high) -> in_step (builtin high) (set_pc r 0) ->
  assemble_nodes w r ns = Ok o ->
  exists r1 addrs tr,
    resolve_labels w r ns = Ok (r1, addrs) /\
    model_trace w (emit_start r1) ns addrs = Ok (tr, r_pc (o_final o)) /\
    protocol_ok high tr (r_pc (o_final o)) (o_blocks o).
Proof.
  intros Hbus Hstep H.
  destruct (assemble_writer_protocol _ _ _ _ H) as (r1 & addrs & tr & RL & T & C & P).
  exists r1, addrs, tr. refine (conj RL (conj T (conj C (conj P _)))).
  intros Hg. unfold model_trace in T.
  destruct (model_trace_st w (emit_start r1) ns addrs) as [[tr' st']| |] eqn:TS; cbn [bind fst snd] in T; try discriminate.
  inversion T; subst tr'; clear T.
  destruct (resolve_labels_fixed _ _ _ _ _ RL) as (F1 & F2 & F3).
  apply (builtin_offsets_ok w high (emit_start r1) ns addrs tr st'); auto.
  - cbn [emit_start e_r]. unfold get_bus in *. rewrite F2, F3. exact Hbus.
  - cbn [emit_start e_r]. unfold in_step in *. cbn [set_pc r_reloc r_pc] in Hstep.
    rewrite F1, (resolve_labels_pc _ _ _ _ _ RL). exact Hstep.
Qed.

(** For a program that starts with a [*=] (needed on HiROM, where the initial position is not a
    HiROM address). *)
Theorem assemble_writer_protocol_codepos w high r e fi ns o :
  get_bus w r = Ok (builtin high) ->
  assemble_nodes w r (NCodePos e fi :: ns) = Ok o ->
  exists r1 addrs tr,
    resolve_labels w r (NCodePos e fi :: ns) = Ok (r1, addrs) /\
    model_trace w (emit_start r1) (NCodePos e fi :: ns) addrs = Ok (tr, r_pc (o_final o)) /\
    protocol_ok high tr (r_pc (o_final o)) (o_blocks o).
Proof.
  intros Hbus H.
  destruct (assemble_writer_protocol _ _ _ _ H) as (r1 & addrs & tr & RL & T & C & P).
  exists r1, addrs, tr. refine (conj RL (conj T (conj C (conj P _)))).
  intros Hg. unfold model_trace in T.
  destruct (model_trace_st w (emit_start r1) (NCodePos e fi :: ns) addrs) as [[tr' st']| |] eqn:TS; cbn [bind fst snd] in T; try discriminate.
  inversion T; subst tr'; clear T.
  destruct (resolve_labels_fixed _ _ _ _ _ RL) as (F1 & F2 & F3).
  apply (builtin_offsets_ok_codepos w high e fi ns (emit_start r1) addrs tr st'); auto.
  cbn [emit_start e_r]. unfold get_bus in *. rewrite F2, F3. exact Hbus.
Qed.

(** The initial resolver (LoROM world) is in step at offset 0. *)
Lemma initial_in_step w r : w_builtin w LowRom = Ok lorom -> resolver_init w = Ok r ->
  get_bus w r = Ok (builtin false) /\ in_step (builtin false) (set_pc r 0).
Proof.
  intros Hb. unfold resolver_init. rewrite Hb. unfold set_position, get_bus.
  cbn [r_bus empty_bus bus_has_mappings b_maps r_rom]. rewrite Hb. cbn [bind].
  intros H. vm_compute in H. inversion H; subst; clear H.
  cbn [r_bus empty_bus bus_has_mappings b_maps r_rom builtin]. split; [exact Hb|].
  split; [reflexivity|left; reflexivity].
Qed.

(** ** Examples (LoROM world of [NIExamples]) *)
From A816 Require Import Proofs.NonInterference Proofs.Unroll.
Module WriterExamples.
  Import NIExamples UnrollExamples.
  Definition hex (s : str) : expr := num_expr (48 :: 120 :: s).
  Definition db (s : str) : node := NData D_db (num_expr s) fi.

  Definition trace_of (ns : list node) : res (list tnode * Z) :=
    do ra <- resolve_labels ex_world r0 ns; model_trace ex_world (emit_start (fst ra)) ns (snd ra).
  (** the oracle's view of a trace: the blocks it predicts and its three verdicts *)
  Definition verdict (ns : list node) : res (list wblock * bool * bool * bool) :=
    do t <- trace_of ns;
    Ok (cut_spec (fst t) (snd t) [] 0, pcs_ok (fst t) (snd t), offsets_ok false (fst t) false, rom_run false (fst t) false).

  (** [*=0x8000  .db 1  <ips: 9 9 at 5>  .db 2  @=0x7e0000  .db 3  *=0x18000  .db 4]:
      two [*=], an [@=], a patch in the middle of a run *)
  Definition prog : list node :=
    [NCodePos (hex [56;48;48;48]) fi; db [49]; NIps [(5, [9; 9])]; db [50];
     NReloc (hex [55;101;48;48;48;48]) fi; db [51]; NCodePos (hex [49;56;48;48;48]) fi; db [52]].
  Example prog_out : view (assemble_nodes ex_world r0 prog) = Ok ([([9; 9], 5); ([1; 2; 3], 0); ([4], 32768)], []).
  Proof. vm_compute. reflexivity. Qed.
  Example prog_verdict : verdict prog = Ok ([([9; 9], 5); ([1; 2; 3], 0); ([4], 32768)], true, true, true).
  Proof. vm_compute. reflexivity. Qed.
  Example prog_trace_kinds : match trace_of prog with Ok (tr, e) => (map tn_kind tr, map tn_pc tr, e) | _ => ([], [], 0) end
                             = ([1; 0; 3; 0; 2; 0; 1; 0], [0; 0; 1; 1; 2; 2; 3; 32768], 32769).
  Proof. vm_compute. reflexivity. Qed.
  (** the theorem applies (initial resolver, LoROM) *)
  Example prog_protocol : exists r1 addrs tr,
    resolve_labels ex_world r0 prog = Ok (r1, addrs) /\
    model_trace ex_world (emit_start r1) prog addrs = Ok (tr, 32769) /\
    protocol_ok false tr 32769 [([9; 9], 5); ([1; 2; 3], 0); ([4], 32768)].
  Proof.
    destruct (initial_in_step ex_world r0 eq_refl r0_is_init) as [Hb Hs].
    destruct (assemble_nodes ex_world r0 prog) as [o| |] eqn:E; try (vm_compute in E; discriminate).
    destruct (assemble_writer_protocol_builtin ex_world false r0 prog o Hb Hs E) as (r1 & addrs & tr & A & B & C).
    assert (Ho : o_blocks o = [([9; 9], 5); ([1; 2; 3], 0); ([4], 32768)] /\ r_pc (o_final o) = 32769)
      by (vm_compute in E; inversion E; subst; split; reflexivity).
    destruct Ho as [Ho1 Ho2]. rewrite Ho1 in C. rewrite Ho2 in B, C. exists r1, addrs, tr. exact (conj A (conj B C)).
  Qed.

  (** The side condition [rom_run] is needed.  [*=0x7fffff  .db 1  .db 2  .db 3]: the run starts at a
      RAM address (so [resolver.pc] stays 0), walks into the LoROM mirror bank 0x80 below its window,
      from where [Address.__add__] jumps to 0x808001 — whose file offset is 1 while [resolver.pc] is 2. *)
  Definition ramrun : list node := [NCodePos (hex [55;102;102;102;102;102]) fi; db [49]; db [50]; db [51]].
  Example ramrun_out : view (assemble_nodes ex_world r0 ramrun) = Ok ([([1; 2; 3], 0)], []).
  Proof. vm_compute. reflexivity. Qed.
  Example ramrun_addrs : match trace_of ramrun with Ok (tr, e) => (map tn_addr tr, map tn_pc tr) | _ => ([], []) end
                         = ([0; 8388607; 8388608; 8421377], [0; 0; 1; 2]).
  Proof. vm_compute. reflexivity. Qed.
  Example ramrun_verdict : verdict ramrun = Ok ([([1; 2; 3], 0)], true, false, false).
  Proof. vm_compute. reflexivity. Qed.
End WriterExamples.

Print Assumptions assemble_writer_protocol.
Print Assumptions emit_writer_protocol.
Print Assumptions assemble_writer_protocol_builtin.
Print Assumptions assemble_writer_protocol_codepos.
Print Assumptions builtin_offsets_ok.
Print Assumptions trace_offsets_ok.
