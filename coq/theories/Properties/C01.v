(** C01 — accepted instructions encode exactly as the 65c816 ISA defines.
    Statements only; each is closed by [exact] of a lemma from Proofs/.

    Model: Model/Opcode.v (frozen; mirrors cpu_65c816.py and nodes.py).  Independent
    specification: Spec/Isa65816.v (256-opcode matrix, operand syntax + width -> mode) and
    Spec/SupportedSet.v (pinned snapshot).  The table theorems are generic in the table under a
    boolean side condition; bin/check instantiates them on the table regenerated from /repo
    ([Run.GenOpcodes.opcode_table]) by [vm_compute] on every run. *)
From Coq Require Import String ZArith List.
From A816 Require Import Oracle.C01o Proofs.PackLemmas Proofs.OpcodeProofs.
Open Scope Z_scope.

(** ------------------------------------------------------------------ the table *)

(** (1) Every (mnemonic, mode, index, width |-> byte) entry of a table that passes [table_ok] is
    the matrix's: the byte's row carries the (aliased) mnemonic, the addressing mode denoted by
    the operand syntax + width, and an operand length equal to the width.  So a byte can never sit
    under the wrong mnemonic, mode or width. *)
Theorem C01_table_sound_generic : forall t, table_ok t = true ->
  forall e, In e (entries t) -> entry_sound e.
Proof. exact table_sound. Qed.

(** (2) Every combination of the pinned supported set still has a byte, looked up the way
    OpcodeNode._get_emitter / Opcode.get_opcode_byte do. *)
Theorem C01_supported_kept_generic : forall t, supported_ok t = true ->
  forall m c, In (m, c) pinned_flat -> exists b, lookup_byte t m (p_mode c) (p_idx c) (p_kind c) = Some b.
Proof. exact supported_kept. Qed.

(** ... hence it keeps assembling, for every operand that has that width. *)
Theorem C01_supported_assembles : forall t, supported_ok t = true -> table_ok t = true ->
  forall m md idx w, In (m, P md idx (PWidth w)) pinned_flat ->
  forall v size rc, resolved_width size v = w -> fits w v = true ->
  exists b, 0 <= b < 256 /\
    opnode_emit t m md idx (Some (Ok v)) size rc = Ok (b :: le_bytes (vsize_n w) (v mod 256 ^ Z.of_nat (vsize_n w))) /\
    opnode_length t m md idx (Some (Ok v)) size = Ok (1 + Z.of_nat (vsize_n w)).
Proof. exact supported_assembles. Qed.

(** ------------------------------------------------------------------ widths, for all integers *)

(** Without a suffix the width is the smallest of 1, 2, 3 bytes that holds the non-negative
    value ([len(hex(v)) - 2] digits <= 2 / <= 4 / more). *)
Theorem C01_width_char : forall v, 0 <= v ->
  (operand_size v = SzB <-> v <= 255) /\
  (operand_size v = SzW <-> 256 <= v <= 65535) /\
  (operand_size v = SzL <-> 65536 <= v).
Proof. exact operand_size_iff. Qed.

(** Below zero the sign character counts as a digit (modelled behaviour, not specified). *)
Theorem C01_width_negative : forall v, v < 0 ->
  operand_size v = if -16 <? v then SzB else if -4096 <? v then SzW else SzL.
Proof. exact operand_size_neg. Qed.

(** Operand packing: truncation to the width, least significant byte first; only the 3-byte
    form is range-checked. *)
Theorem C01_emit_value : forall v s,
  emit_value v s =
  if fits s v then Ok (le_bytes (vsize_n s) (v mod 256 ^ Z.of_nat (vsize_n s))) else Err EStruct.
Proof. exact emit_value_spec. Qed.

Theorem C01_pack_decode : forall n x, le_decode (le_bytes n x) = x mod 256 ^ Z.of_nat n.
Proof. exact le_decode_le_bytes. Qed.
Theorem C01_pack_length : forall n x, length (le_bytes n x) = n.
Proof. exact le_bytes_length. Qed.

(** ------------------------------------------------------------------ emitters, for all integers *)

(** (3) Opcode.emit: table byte for the resolved width, then the truncated operand — and the
    exact rejection condition — for every integer, suffix and opcode_def. *)
Theorem C01_emit : forall defs v size rc,
  emitter_emit (EmPlain defs) (Some (Ok v)) size rc =
  let w := resolved_width size v in
  match opcode_byte defs w with
  | None => Err ENode
  | Some b =>
      if fits w v && byte_ok b
      then Ok (b :: le_bytes (vsize_n w) (v mod 256 ^ Z.of_nat (vsize_n w)))
      else Err EStruct
  end.
Proof. exact emitter_emit_plain. Qed.

Theorem C01_emit_accepts : forall defs v size rc,
  let w := resolved_width size v in
  is_ok (emitter_emit (EmPlain defs) (Some (Ok v)) size rc) = true <->
  exists b, opcode_byte defs w = Some b /\ byte_ok b = true /\ fits w v = true.
Proof. exact emitter_emit_plain_accepts. Qed.

Theorem C01_emit_reject : forall defs v size rc,
  let w := resolved_width size v in
  (opcode_byte defs w = None -> emitter_emit (EmPlain defs) (Some (Ok v)) size rc = Err ENode) /\
  (forall b, opcode_byte defs w = Some b -> fits w v = false ->
             emitter_emit (EmPlain defs) (Some (Ok v)) size rc = Err EStruct).
Proof. exact emitter_emit_plain_reject. Qed.

Theorem C01_emit_noperand : forall b ev size rc,
  byte_ok b = true -> emitter_emit (EmNoOperand b) ev size rc = Ok [b].
Proof. exact emitter_emit_noperand. Qed.

(** supposed_length = 1 + width, and it is the length of what emit produces (any emitter). *)
Theorem C01_length : forall defs v size,
  emitter_length (EmPlain defs) (Some (Ok v)) size = Ok (1 + Z.of_nat (vsize_n (resolved_width size v))).
Proof. exact emitter_length_plain. Qed.
Theorem C01_length_agree : forall e v size rc bs,
  emitter_emit e (Some (Ok v)) size rc = Ok bs ->
  emitter_length e (Some (Ok v)) size = Ok (Z.of_nat (length bs)).
Proof. exact emit_length_agree. Qed.

(** (4) _get_emitter: rejected when the mnemonic, the mode or the index is missing. *)
Theorem C01_get_emitter : forall t opcode mode index,
  (assoc_str t opcode = None -> get_emitter t opcode mode index = Err ENode) /\
  (forall bm, assoc_str t opcode = Some bm -> assoc_mode bm mode = None ->
              get_emitter t opcode mode index = Err ENode) /\
  (forall bm l, assoc_str t opcode = Some bm -> assoc_mode bm mode = Some (ByIndex l) ->
                match index with
                | None => get_emitter t opcode mode index = Err ENode
                | Some i => assoc_str l i = None -> get_emitter t opcode mode index = Err EKey
                end) /\
  get_emitter t opcode mode index <> OutOfFuel.
Proof. exact get_emitter_rejects. Qed.
Theorem C01_get_emitter_ok : forall t opcode mode index e,
  get_emitter t opcode mode index = Ok e <->
  exists bm, assoc_str t opcode = Some bm /\
    (assoc_mode bm mode = Some (Single e) \/
     exists l i, assoc_mode bm mode = Some (ByIndex l) /\ index = Some i /\ assoc_str l i = Some e).
Proof. exact get_emitter_ok. Qed.

(** ------------------------------------------------------------------ end to end on the model *)

(** Whenever OpcodeNode.emit accepts (under a table that passes the check), the bytes are what
    the independent specification computes from (mnemonic, operand shape, width, value): the
    ISA opcode followed by the little-endian truncated operand and nothing else. *)
Theorem C01_accepted_is_isa : forall t, table_ok t = true ->
  forall m md idx ev size rc bs,
  opnode_emit t m md (cg_index md idx) ev size rc = Ok bs ->
  isa_accepts m md (cg_index md idx) ev size bs.
Proof. exact accepted_is_isa. Qed.

(** A combination the matrix does not define is rejected, never assembled as something else. *)
Theorem C01_undefined_rejected : forall t, table_ok t = true ->
  forall m md idx v size rc,
  (md = M_none -> isa_implied (str_upper m) = None) ->
  (md = M_direct -> isa_rel8 (str_upper m) = None) ->
  (forall sh, amode_shape md (cg_index md idx) = Some sh ->
              isa_expected (str_upper m) sh (resolved_width size v) v = None) ->
  is_ok (opnode_emit t m md (cg_index md idx) (Some (Ok v)) size rc) = false.
Proof. exact undefined_rejected. Qed.

(** The specification matrix itself: total, injective on (mnemonic, mode), lengths consistent. *)
Theorem C01_isa_matrix_wf :
  (forall b, 0 <= b < 256 -> isa b <> None) /\
  (forall b1 b2 n m1 m2 l1 l2, 0 <= b1 < 256 -> 0 <= b2 < 256 ->
      isa b1 = Some (n, m1, l1) -> isa b2 = Some (n, m2, l2) -> mode_class m1 = mode_class m2 -> b1 = b2) /\
  (forall b n md l, 0 <= b < 256 -> isa b = Some (n, md, l) ->
      match mode_oplen md with Some l' => l = l' | None => l <> L0 end).
Proof. exact isa_matrix_wf. Qed.

(** ------------------------------------------------------------------ what the oracle bit means *)

(** A true oracle bit on an accepted operand statement: the single written block is, for a width
    the property allows (the suffix, else the smallest that holds the value), exactly the
    specification's encoding of (mnemonic, shape, width, value). *)
Theorem C01_oracle_accept_sound : forall m sh suffix v blocks,
  spec_plain m sh suffix v (OOk blocks) = true ->
  exists bs w, blocks = [(0, bs)] /\ In w (widths suffix v) /\ isa_expected m sh w v = Some bs.
Proof. exact spec_plain_accept_sound. Qed.

(** ... on a rejected one: it is not a representable member of the pinned supported set. *)
Theorem C01_oracle_reject_sound : forall m sh suffix v k w,
  spec_plain m sh suffix v (OErr k) = true -> widths suffix v = [w] ->
  pinned_desc m sh (PWidth w) = true -> representable w v = false.
Proof. exact spec_plain_reject_sound. Qed.

(** The oracle's supported-set key of a shape is the (mode, index) the specification reads as it. *)
Theorem C01_shape_key : forall sh md idx, shape_key sh = Some (md, idx) -> amode_shape md idx = Some sh.
Proof. exact shape_key_shape. Qed.

(** ------------------------------------------------------------------ non-vacuity / pinning *)

(** A fragment of the live table (lda, jmp, asl, bra rows as in cpu_65c816.py). *)
Definition sample_table : optable := [
  ([108;100;97], [(M_immediate, Single (EmPlain [Some 169; Some 169]));
                  (M_direct, Single (EmPlain [Some 165; Some 173; Some 175]));
                  (M_direct_indexed, ByIndex [([120], EmPlain [Some 181; Some 189; Some 191]);
                                              ([121], EmPlain [None; Some 185; None]);
                                              ([115], EmPlain [Some 163])]);
                  (M_stack_indexed_indirect_indexed, ByIndex [([121], EmPlain [Some 179])])]);
  ([106;109;112], [(M_direct, Single (EmPlain [None; Some 76; Some 92]));
                   (M_indirect_long, Single (EmPlain [None; Some 220; None]))]);
  ([97;115;108], [(M_none, Single (EmNoOperand 10)); (M_direct, Single (EmPlain [Some 6; Some 14]))]);
  ([98;114;97], [(M_direct, Single (EmRel 128))])
].

Example C01_nonvacuous_table : table_ok sample_table = true /\ length (entries sample_table) = 18%nat.
Proof. split; vm_compute; reflexivity. Qed.

(** The check is not vacuous: LDA's opcode under ORA's immediate (the defect of the pinned
    commit), and [(dp,x),y]-style entries, are refused. *)
Example C01_check_refuses_wrong_byte :
  table_ok [([111;114;97], [(M_immediate, Single (EmPlain [Some 9; Some 169]))])] = false /\
  table_ok [([108;100;97], [(M_stack_indexed_indirect_indexed, ByIndex [([120], EmPlain [Some 179])])])] = false.
Proof. split; vm_compute; reflexivity. Qed.

(** Encodings the repository's own tests assert, through the independent specification. *)
Example C01_spec_examples :
  isa_expected (mn "LDA") ShDirX SzW 4660 = Some [189; 52; 18] /\
  isa_expected (mn "LDA") ShImm SzW 4660 = Some [169; 52; 18] /\
  isa_expected (mn "JMP") ShDir SzL 1193046 = Some [92; 86; 52; 18] /\        (* jmp.l = JML *)
  isa_expected (mn "JSR") ShDir SzL 1193046 = Some [34; 86; 52; 18] /\        (* jsr.l = JSL *)
  isa_expected (mn "JMP") ShLng SzW 4660 = Some [220; 52; 18] /\              (* jmp [abs] = JML [abs] *)
  isa_expected (mn "PEA") ShDir SzW 4660 = Some [244; 52; 18] /\
  isa_expected (mn "LDA") ShSIndY SzB 16 = Some [179; 16] /\
  isa_expected (mn "ORA") ShImm SzW 4660 = Some [9; 52; 18] /\
  isa_expected (mn "LDA") ShBad SzB 16 = None /\
  isa_expected (mn "STX") ShDirY SzW 4660 = None /\
  isa_implied (mn "ASL") = Some 10 /\ isa_implied (mn "NOP") = Some 234 /\ isa_rel8 (mn "BRA") = Some 128.
Proof. repeat split; vm_compute; reflexivity. Qed.

(** The model on the sample table, end to end. *)
Example C01_model_examples :
  let rc := {| rc_bus := empty_bus; rc_pc := 0; rc_reloc := 0 |} in
  opnode_emit sample_table [108;100;97] M_direct_indexed (Some [120]) (Some (Ok 4660)) None rc = Ok [189; 52; 18] /\
  opnode_emit sample_table [108;100;97] M_direct None (Some (Ok 255)) None rc = Ok [165; 255] /\
  opnode_emit sample_table [108;100;97] M_direct None (Some (Ok 256)) None rc = Ok [173; 0; 1] /\
  opnode_emit sample_table [108;100;97] M_direct None (Some (Ok 65536)) None rc = Ok [175; 0; 0; 1] /\
  opnode_emit sample_table [108;100;97] M_direct None (Some (Ok 16777216)) None rc = Err EStruct /\
  opnode_emit sample_table [108;100;97] M_direct None (Some (Ok (-1))) (Some SzW) rc = Ok [173; 255; 255] /\
  opnode_emit sample_table [106;109;112] M_direct None (Some (Ok 16)) None rc = Err ENode /\
  opnode_emit sample_table [97;115;108] M_none None None None rc = Ok [10].
Proof. cbv zeta. repeat split; vm_compute; reflexivity. Qed.

(** Operand syntax -> addressing mode (parser model): for each of the ten statement shapes, built as
    a token list [opcode; optional size; opening punctuation; expression tokens E; closing punctuation
    and index tokens], the parser returns the instruction node with the mode, index, size suffix and
    operand expression the syntax denotes.  The malformed index combinations are rejected
    ((E,x),y and (E,y),y: syntax error; #E,x: KeyError) — see Proofs/ParserShapeProofs.v. *)
From A816 Require Import Model.Parser Proofs.ParserShapeProofs Proofs.ParserShapeTokens.
Theorem C01_shape : forall sub f pre rest E o sz pu sh,
  shape_hyps pre rest E o sz pu sh f ->
  pdecl (ts_of pre rest E o sz pu sh) sub (S f) (length pre) =
  POk (Some (AOpcode (mode_of sh) (t_value o) (vsize_of sz)
               match sh with
               | ShImplied => None
               | _ => Some match pexpression (ts_of pre rest E o sz pu sh) f (qE_of pre sz pu sh) with
                           | POk (e, _) => e
                           | _ => nil
                           end
               end (index_of pu sh) o),
       length pre + length (stmt_tokens o sz pu sh E)).
Proof. exact C01_shape_tokens. Qed.
