(** C01, source-text level — statements only (each closed by [exact]; lemmas in Proofs/InsnText*.v).

    "Every supported instruction statement assembles to the 65c816 encoding", for the SOURCE TEXT

        *=<origin>
        <mnemonic>[.<b|w|l>] <operand>

    = [insn_src sp0 eorg mn sz os sh e i1 i2] (Proofs/InsnTextParse.v), through the whole model
    pipeline [assemble_source], for EVERY operand syntax [sh] the parser knows:

      ShImplied (none)   ShImm #e   ShDirect e   ShDirectIdx e,i   ShInd (e)   ShIndIdx (e),i
      ShLong [e]   ShLongIdx [e],i   ShInner (e,i)   ShInnerOuter (e,s),y

    Text: mnemonic (3 characters, any letter case), optional ".b/.w/.l" (any case), [os_m] spaces
    (at least one when there is no suffix), the operand written by [operand_text]: spaces are allowed
    after '#' '(' '[' ([os_o]), anywhere inside / after the expression ([os_e], [text_of]), after each
    comma ([os_1], [os_2]), between ')' / ']' and the following comma ([os_c]) and at the end of the
    line ([os_end]); NOT between an index letter and a following ')' (that text still assembles, but
    through another lexer path, not covered here) and no tabs.  Index letters in any case.
    Operand expression: what lex_expression lexes (here '|' and '~' ARE allowed, unlike in a directive
    line) -- [closed] (no identifiers), [wf] (conventional precedence); for the bare [e] / [e,i]
    syntaxes the expression must not start with '(' ([shape_head_ok]: that is the (e) syntax).

    Result: ONE block = the bytes of the table's emitter for (lower-case mnemonic, mode of the syntax,
    lower-case index) at the file offset of the origin; explicit form for a plain row
    ([C01_text_plain]: opcode byte of the resolved width + little-endian operand, = C01_emit) and for
    an operand-less row; the exception of OpcodeNode._get_emitter when the table has no such row.

    Left out, explicitly: relative branches (bcc bcs beq bmi bne bpl bra bvc bvs brl per:
    RelativeJumpOpcode rows -- hypothesis [is_rel em = false]); mvn / mvp (not in the opcode table);
    identifiers in the operand; a row that exists but has no opcode byte for the resolved width or a
    3-byte operand out of range (emit-time NodeError / struct.error: [emitter_emit] = Err, covered at
    node level by C01_emit_reject, not lifted to the text level). *)
From Coq Require Import ZArith NArith List Bool.
From A816 Require Import Spec.ExprSem Spec.BusLaws Model.Assemble Proofs.BusProofs Proofs.NodeProofs
  Proofs.PackLemmas Proofs.OpcodeProofs Proofs.ExprProofs Proofs.ExprLex Proofs.ExprLexParse
  Proofs.ParserShapeTokens Proofs.DataTextScan Proofs.DataTextGen Proofs.DataText
  Proofs.InsnTextScan Proofs.InsnTextParse Proofs.InsnTextGen Proofs.InsnText.
Import ListNotations.
Open Scope Z_scope.

(** I1 -- scanner: STAR_EQ, origin tokens, OPCODE[_NAKED], [OPCODE_SIZE], operand tokens, EOF *)
Theorem C01_text_scan : forall (lx : lexicon) (file : str) (sp0 : spacing) (eorg : sexpr) (mn : str)
    (sz : option Z) (os : ospacing) (sh : shape) (e : sexpr) (i1 i2 : Z),
  dlex eorg -> lexable e -> mn3_ok lx mn -> suffix_ok lx mn sz os sh ->
  shape_ix_ok sh i1 i2 -> shape_head_ok sh e ->
  exists (toks : list token) (eof : token) (lines : list str),
    scan lx file (insn_src sp0 eorg mn sz os sh e i1 i2) = ScanOk (toks ++ [eof]) lines /\
    map tv toks = insn_toks eorg mn sz sh e i1 i2 /\ tv eof = (T_EOF, []).
Proof. exact scan_insn. Qed.

(** I2 -- parser: operand syntax -> (addressing mode, index), for arbitrary operand expressions *)
Theorem C01_operand_syntax_mode : forall (eorg : sexpr) (mn : str) (sz : option Z) (sh : shape) (e : sexpr)
    (i1 i2 : Z) (toks : list token) (eof : token) (incd : nat) (inc : str -> res (list token)),
  map tv toks = insn_toks eorg mn sz sh e i1 i2 -> t_type eof = T_EOF ->
  shape_head_ok sh e ->
  (sh = ShInnerOuter -> Parser.lower [i1] = k_s /\ Parser.lower [i2] = k_y) ->
  exists (rorg : expr) (fi o : token) (re : expr),
    parse_program (parse_fuel (length (toks ++ [eof]))) incd inc (toks ++ [eof])
      = POk [AStarEq rorg fi;
             AOpcode (mode_of sh) mn (match sh with ShImplied => None | _ => sfx_vsize sz end)
                     (match sh with ShImplied => None | _ => Some re end) (sh_index sh i1) o] /\
    map en_strip rorg = flat eorg /\ (sh <> ShImplied -> map en_strip re = flat e) /\
    t_value o = mn.
Proof. exact operand_syntax_mode. Qed.

(** I3 -- code generation and the passes *)
Theorem C01_text_passes : forall (w : world) (c : config) (low : bus) (m : mapping) (ri : rstate)
    (xo : expr) (fi : token) (org : Z) (mode : amode) (opcode : str) (size : option vsize)
    (operand : option expr) (index : option str) (fi' : token) (vopt : option Z)
    (em : emitter) (bs : bytes) (rc0 : relctx),
  covers low m -> mask_ok m -> m_writable m = false ->
  in_window m org -> m_first m <= bank_of org <= m_last m ->
  initial_resolver w c = Ok ri -> start_ok w low ri ->
  eval_raw w ri xo = Ok org ->
  (mode <> M_none -> operand <> None) ->
  operand_val w ri (nd_operand mode operand) vopt ->
  get_emitter (w_optable w) (lower_ascii opcode) mode (nd_index mode index) = Ok em ->
  is_rel em = false ->
  emitter_emit em (evv vopt) (nd_size mode size) rc0 = Ok bs ->
  spec_offset m org + Z.of_nat (length bs) < rsize m ->
  exists o, assemble_program w c [AStarEq xo fi; AOpcode mode opcode size operand index fi'] = AOk o (o_final o) /\
            o_blocks o = [(bs, spec_offset m org)] /\ o_labels o = [].
Proof. exact assemble_program_insn. Qed.

Theorem C01_text_passes_rejected : forall (w : world) (c : config) (low : bus) (m : mapping) (ri : rstate)
    (xo : expr) (fi : token) (org : Z) (mode : amode) (opcode : str) (size : option vsize)
    (operand : option expr) (index : option str) (fi' : token) (k : errk),
  covers low m -> mask_ok m -> m_writable m = false ->
  in_window m org -> m_first m <= bank_of org <= m_last m ->
  initial_resolver w c = Ok ri -> start_ok w low ri ->
  eval_raw w ri xo = Ok org ->
  (mode <> M_none -> operand <> None) ->
  spec_offset m org < rsize m ->
  get_emitter (w_optable w) (lower_ascii opcode) mode (nd_index mode index) = Err k ->
  exists site, assemble_program w c [AStarEq xo fi; AOpcode mode opcode size operand index fi'] = AExc k site.
Proof. exact assemble_program_insn_rejected. Qed.

(** I4 -- the whole pipeline on the built-in LoROM bus, in terms of the table's emitter *)
Theorem C01_text : forall (t : live) (fs : srcfiles) (c : config) (fname : str) (sp0 : spacing) (eorg : sexpr)
    (org : Z) (mn : str) (sz : option Z) (os : ospacing) (sh : shape) (e : sexpr) (i1 i2 v : Z)
    (em : emitter) (bs : bytes) (rc0 : relctx),
  bus_agree_b (lv_low t) lorom = true -> low_rom_config t c ->
  prec_compatible (lv_prec t) = true ->
  (0 <= bank_of org <= 111 \/ 128 <= bank_of org <= 207) -> 32768 <= org mod 65536 ->
  dlex eorg -> wf eorg -> eval noenv eorg = Ok org ->
  insn_ok (lv_lex t) mn sz os sh e i1 i2 -> (sh <> ShImplied -> eval noenv e = Ok v) ->
  get_emitter (lv_optable t) (lower_ascii mn) (mode_of sh) (sh_index sh i1) = Ok em ->
  is_rel em = false ->
  emitter_emit em (evv (sh_vopt sh v)) (sh_size sh sz) rc0 = Ok bs ->
  lorom_offset org + Z.of_nat (length bs) < (if bank_of org <? 128 then 112 else 80) * 32768 ->
  exists o fin,
    assemble_source t fs c fname (insn_src sp0 eorg mn sz os sh e i1 i2) = AOk o fin /\
    o_blocks o = [(bs, lorom_offset org)] /\ o_labels o = [].
Proof. exact insn_text_lorom. Qed.

(** ... explicitly, for a plain table row: opcode byte of the resolved width, little-endian operand *)
Theorem C01_text_plain : forall (t : live) (fs : srcfiles) (c : config) (fname : str) (sp0 : spacing)
    (eorg : sexpr) (org : Z) (mn : str) (sz : option Z) (os : ospacing) (sh : shape) (e : sexpr)
    (i1 i2 v : Z) (defs : list (option Z)) (b : Z),
  bus_agree_b (lv_low t) lorom = true -> low_rom_config t c ->
  prec_compatible (lv_prec t) = true ->
  (0 <= bank_of org <= 111 \/ 128 <= bank_of org <= 207) -> 32768 <= org mod 65536 ->
  dlex eorg -> wf eorg -> eval noenv eorg = Ok org ->
  sh <> ShImplied -> insn_ok (lv_lex t) mn sz os sh e i1 i2 -> eval noenv e = Ok v ->
  get_emitter (lv_optable t) (lower_ascii mn) (mode_of sh) (sh_index sh i1) = Ok (EmPlain defs) ->
  let w := resolved_width (sfx_vsize sz) v in
  opcode_byte defs w = Some b -> byte_ok b = true -> fits w v = true ->
  lorom_offset org + 1 + Z.of_nat (vsize_n w) < (if bank_of org <? 128 then 112 else 80) * 32768 ->
  exists o fin,
    assemble_source t fs c fname (insn_src sp0 eorg mn sz os sh e i1 i2) = AOk o fin /\
    o_blocks o = [(b :: le_bytes (vsize_n w) (v mod 256 ^ Z.of_nat (vsize_n w)), lorom_offset org)] /\
    o_labels o = [].
Proof. exact insn_text_lorom_plain. Qed.

(** ... and for the operand-less form *)
Theorem C01_text_implied : forall (t : live) (fs : srcfiles) (c : config) (fname : str) (sp0 : spacing)
    (eorg : sexpr) (org : Z) (mn : str) (sz : option Z) (os : ospacing) (e : sexpr) (i1 i2 b : Z),
  bus_agree_b (lv_low t) lorom = true -> low_rom_config t c ->
  prec_compatible (lv_prec t) = true ->
  (0 <= bank_of org <= 111 \/ 128 <= bank_of org <= 207) -> 32768 <= org mod 65536 ->
  dlex eorg -> wf eorg -> eval noenv eorg = Ok org ->
  insn_ok (lv_lex t) mn sz os ShImplied e i1 i2 ->
  get_emitter (lv_optable t) (lower_ascii mn) M_none None = Ok (EmNoOperand b) -> byte_ok b = true ->
  lorom_offset org + 1 < (if bank_of org <? 128 then 112 else 80) * 32768 ->
  exists o fin,
    assemble_source t fs c fname (insn_src sp0 eorg mn sz os ShImplied e i1 i2) = AOk o fin /\
    o_blocks o = [([b], lorom_offset org)] /\ o_labels o = [].
Proof. exact insn_text_lorom_implied. Qed.

(** rejection: the table has no row for (mnemonic, mode, index) *)
Theorem C01_text_rejected : forall (t : live) (fs : srcfiles) (c : config) (fname : str) (sp0 : spacing)
    (eorg : sexpr) (org : Z) (mn : str) (sz : option Z) (os : ospacing) (sh : shape) (e : sexpr)
    (i1 i2 v : Z) (k : errk),
  bus_agree_b (lv_low t) lorom = true -> low_rom_config t c ->
  prec_compatible (lv_prec t) = true ->
  (0 <= bank_of org <= 111 \/ 128 <= bank_of org <= 207) -> 32768 <= org mod 65536 ->
  dlex eorg -> wf eorg -> eval noenv eorg = Ok org ->
  insn_ok (lv_lex t) mn sz os sh e i1 i2 -> (sh <> ShImplied -> eval noenv e = Ok v) ->
  get_emitter (lv_optable t) (lower_ascii mn) (mode_of sh) (sh_index sh i1) = Err k ->
  exists site, assemble_source t fs c fname (insn_src sp0 eorg mn sz os sh e i1 i2) = AExc k site.
Proof. exact insn_text_lorom_rejected. Qed.

(** generic ROM range (any [.map]-style range of the bus the resolver consults) *)
Theorem C01_text_generic : forall (t : live) (fs : srcfiles) (c : config) (fname : str) (low : bus) (m : mapping)
    (p : option Z) (sp0 : spacing) (eorg : sexpr) (org : Z) (mn : str) (sz : option Z) (os : ospacing)
    (sh : shape) (e : sexpr) (i1 i2 v : Z) (em : emitter) (bs : bytes) (rc0 : relctx),
  live_builtin t LowRom = Ok low -> addr_physical low 0 = Ok p ->
  match cf_rom c with Some rt => live_builtin t rt = Ok low | None => True end ->
  prec_compatible (lv_prec t) = true ->
  covers low m -> mask_ok m -> m_writable m = false ->
  in_window m org -> m_first m <= bank_of org <= m_last m ->
  dlex eorg -> wf eorg -> eval noenv eorg = Ok org ->
  insn_ok (lv_lex t) mn sz os sh e i1 i2 -> (sh <> ShImplied -> eval noenv e = Ok v) ->
  get_emitter (lv_optable t) (lower_ascii mn) (mode_of sh) (sh_index sh i1) = Ok em ->
  is_rel em = false ->
  emitter_emit em (evv (sh_vopt sh v)) (sh_size sh sz) rc0 = Ok bs ->
  spec_offset m org + Z.of_nat (length bs) < rsize m ->
  exists o fin,
    assemble_source t fs c fname (insn_src sp0 eorg mn sz os sh e i1 i2) = AOk o fin /\
    o_blocks o = [(bs, spec_offset m org)] /\ o_labels o = [].
Proof. exact insn_text. Qed.

(** Non-vacuity (Proofs/InsnText.v): every syntax computed on a concrete table record
    ([demo_insn_computed]); "lda  ( 0x10 , X) " -> A1 10 and the rejection of a missing row obtained
    from the theorems; the real assembler writes the same blocks for the same lines. *)
Example C01_text_nonvacuous : exists o fin,
  assemble_source demo_live2 no_srcfiles demo_cfg [109] (insn_src sp00 org8000 s_lda None os1 ShInner n16 88 0)
    = AOk o fin /\ o_blocks o = [([161; 16], 0)] /\ o_labels o = [].
Proof. exact demo_insn_proved. Qed.
Example C01_text_rejected_nonvacuous : exists site,
  assemble_source demo_live2 no_srcfiles demo_cfg [109] (insn_src sp00 org8000 s_lda None os1 ShLongIdx n16 121 0)
    = AExc ENode site.
Proof. exact demo_insn_rejected. Qed.

Print Assumptions C01_text_scan.
Print Assumptions C01_operand_syntax_mode.
Print Assumptions C01_text_passes.
Print Assumptions C01_text_passes_rejected.
Print Assumptions C01_text.
Print Assumptions C01_text_plain.
Print Assumptions C01_text_implied.
Print Assumptions C01_text_rejected.
Print Assumptions C01_text_generic.
Print Assumptions C01_text_nonvacuous.
Print Assumptions C01_text_rejected_nonvacuous.

(** ONE statement from source text to the ISA: under [table_ok] of the live opcode table (checked per
    run), the block the instruction line assembles to is what the independent 256-opcode matrix
    (Spec/Isa65816.v) computes from the mnemonic, the operand shape denoted by the syntax, the
    resolved width and the value — the live table row appears in the hypotheses only. *)
From A816 Require Import Oracle.C01o Proofs.TextIsa.
Theorem C01_text_is_isa : forall (t : live) (fs : srcfiles) (c : config) (fname : str) (sp0 : spacing)
    (eorg : sexpr) (org : Z) (mn : str) (sz : option Z) (os : ospacing) (sh : shape) (e : sexpr)
    (i1 i2 v : Z) (defs : list (option Z)) (b : Z),
  table_ok (lv_optable t) = true ->
  bus_agree_b (lv_low t) lorom = true -> low_rom_config t c ->
  prec_compatible (lv_prec t) = true ->
  (0 <= bank_of org <= 111 \/ 128 <= bank_of org <= 207) -> 32768 <= org mod 65536 ->
  dlex eorg -> wf eorg -> eval noenv eorg = Ok org ->
  sh <> ParserShapeTokens.ShImplied -> insn_ok (lv_lex t) mn sz os sh e i1 i2 -> eval noenv e = Ok v ->
  get_emitter (lv_optable t) (lower_ascii mn) (mode_of sh) (sh_index sh i1) = Ok (EmPlain defs) ->
  let w := resolved_width (sfx_vsize sz) v in
  opcode_byte defs w = Some b -> byte_ok b = true -> fits w v = true ->
  lorom_offset org + 1 + Z.of_nat (vsize_n w) < (if bank_of org <? 128 then 112 else 80) * 32768 ->
  exists o fin bs osh,
    assemble_source t fs c fname (insn_src sp0 eorg mn sz os sh e i1 i2) = AOk o fin /\
    o_blocks o = [(bs, lorom_offset org)] /\ o_labels o = [] /\
    amode_shape (mode_of sh) (sh_index sh i1) = Some osh /\
    isa_expected (str_upper (lower_ascii mn)) osh w v = Some bs.
Proof. exact text_plain_is_isa. Qed.
