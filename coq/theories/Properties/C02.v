(** C02 — Every label equals the address where the next byte is really emitted. *)
From Coq Require Import ZArith List.
From A816 Require Import Model.Program Proofs.NodeProofs Proofs.ProgramProofs.
Open Scope Z_scope.

(** If the label pass and the emission both succeed, every node (labels included) is emitted at
    exactly the run address it had while labels were resolved, and so is the end of the program. *)
Theorem C02_phase_agreement : forall w r a ns r' a' l st st',
  label_run w r ns a = Ok (r', a', l) ->
  emit_loop w st ns (l ++ [a_val a']) = Ok st' ->
  (forall pre n post, ns = pre ++ n :: post ->
     exists r1 a1 l1 st1,
       label_run w r pre a = Ok (r1, a1, l1) /\
       emit_prefix w st pre l1 = Ok st1 /\
       a_val (r_reloc (e_r st1)) = a_val a1) /\
  a_val (r_reloc (e_r st')) = a_val a'.
Proof. exact phase_agreement. Qed.

(** [label_run] is the label pass of the model (same function, addresses returned per node). *)
Theorem C02_label_pass_is_run : forall w ns r a acc,
  label_pass w r ns a acc =
  match label_run w r ns a with
  | Ok x => Ok (fst (fst x), snd (fst x), acc ++ snd x ++ [a_val (snd (fst x))])
  | Err k => Err k
  | OutOfFuel => OutOfFuel
  end.
Proof. exact label_pass_run. Qed.

(** A label is bound to the address the label pass holds at its node. *)
Theorem C02_label_binding : forall w r name a s,
  nth_error (r_scopes r) (r_cur r) = Some s ->
  exists r1 s1,
    pc_after w r (NLabel name) a = Ok (r1, a) /\ r_cur r1 = r_cur r /\
    nth_error (r_scopes r1) (r_cur r) = Some s1 /\
    dict_get (s_labels s1) name = Some (a_val a) /\ dict_get (s_symbols s1) name = Some (a_val a).
Proof. exact label_binding. Qed.

(** The size given to a statement while labels are resolved equals the number of bytes it emits
    (same resolver state), for every statement kind, instructions with inferred width included. *)
Theorem C02_size_agree : forall w r n a r1 a1 r2 bs,
  is_position n = false ->
  pc_after w r n a = Ok (r1, a1) -> node_emit w r n = Ok (r2, bs) ->
  match bs with
  | [] => a1 = a \/ addr_plus a 0 = Ok a1
  | _ => addr_plus a (Z.of_nat (length bs)) = Ok a1
  end.
Proof. exact node_size_agree. Qed.
Theorem C02_opcode_size_agree : forall w r opcode mode index operand size bs len,
  opcode_emit w r opcode mode index operand size = Ok bs ->
  opcode_length w r opcode mode index operand size = Ok len ->
  Z.of_nat (length bs) = len.
Proof. exact opcode_size_agree. Qed.

(** When the two traversals cannot agree the assembly fails: an output exists only if every node
    passed the phase check (so it can never carry shifted addresses). *)
Theorem C02_fail_not_shift : forall w r ns out,
  assemble_nodes w r ns = Ok out ->
  exists r1 a1 l,
    label_run w (set_cur_last r (r_cur r) 0) ns (r_reloc r) = Ok (r1, a1, l) /\
    exists r2 st',
      emit_loop w {| e_r := r2; e_block := []; e_baddr := r_pc r2; e_out := [] |} ns (l ++ [a_val a1]) = Ok st'.
Proof. exact assemble_nodes_phase. Qed.
Theorem C02_phase_check : forall w st n x st',
  emit_step w st n x = Ok st' -> a_val (r_reloc (e_r st)) = x.
Proof. exact emit_step_phase. Qed.

(** From the binding to the final label table: a label name defined by exactly one node keeps, in
    the scope where it was defined, the address the label pass held at that node — the run address
    at which the node and the next emitted byte are emitted (C02_phase_agreement). *)
From A816 Require Import Proofs.LabelProofs.
Theorem C02_label_final_value : forall w r pre name post out,
  defines_none name pre -> defines_none name post ->
  assemble_nodes w r (pre ++ NLabel name :: post) = Ok out ->
  exists r1 a1 l1,
    label_run w (set_cur_last r (r_cur r) 0) pre (r_reloc r) = Ok (r1, a1, l1) /\
    forall s1, nth_error (r_scopes r1) (r_cur r1) = Some s1 ->
      exists s, nth_error (r_scopes (o_final out)) (r_cur r1) = Some s /\
                dict_get (s_labels s) name = Some (a_val a1).
Proof. exact label_final_value. Qed.

(** The model satisfies the very oracle the run-time check applies to the implementation's trace
    (Oracle/Coreo.v, [STrace]): for every node list and start state, every label (and .incbin
    start symbol) bound in the first pass has the value of the run address at which its node is
    emitted and at which the next emitting node before any position move emits; every node is
    emitted at its first-pass address.  No side condition. *)
From A816 Require Import Oracle.Coreo Proofs.WriterProtocol Proofs.TraceOracle.
Theorem C02_trace_oracle : forall w r ns o,
  assemble_nodes w r ns = Ok o ->
  exists r1 addrs tr, resolve_labels w r ns = Ok (r1, addrs) /\
    model_trace w (emit_start r1) ns addrs = Ok (tr, r_pc (o_final o)) /\
    spec_ok (trace_spec ns addrs tr) (OOk (o_blocks o, o_labels o)) = true.
Proof. exact assemble_trace_oracle. Qed.
Theorem C02_first_pass_visits : forall w r ns r1 addrs,
  resolve_labels w r ns = Ok (r1, addrs) ->
  length addrs = S (length ns) /\
  label_visits w (set_cur_last r (r_cur r) 0) ns (r_reloc r) 0 = Ok (pass1_of ns addrs).
Proof. exact first_pass_visits. Qed.

(** The final value of a label PER SCOPE: the value the scope's label table holds for [name] at the
    end is the run address of its LabelNode, provided no other LabelNode / .incbin of that name is
    passed LATER while the SAME scope is current (scope positions by the positional replay).  The
    name may be reused freely in any other scope — the property's own "programs that reuse a name in
    an inner scope". *)
From A816 Require Import Proofs.ReplayProofs Proofs.ForwardExport.
Theorem C02_label_final_value_scoped : forall w r pre name post out c l,
  replay (r_scopes r) pre (r_cur r) 0 = Some (c, l) ->
  qlab (r_scopes r) name c post c l ->
  assemble_nodes w r (pre ++ NLabel name :: post) = Ok out ->
  exists r1 a1 l1,
    label_run w (set_cur_last r (r_cur r) 0) pre (r_reloc r) = Ok (r1, a1, l1) /\ r_cur r1 = c /\
    forall s1, nth_error (r_scopes r1) c = Some s1 ->
      exists s, nth_error (r_scopes (o_final out)) c = Some s /\ dict_get (s_labels s) name = Some (a_val a1).
Proof. exact label_final_value_scoped. Qed.
