(** C02, source-text level — statements only (each closed by [exact]; lemmas in Proofs/LabelText*.v).

    "Every label equals the address where the next byte is really emitted", on SOURCE TEXT, through
    the whole model pipeline [assemble_source], for a label that is defined and used by a data
    directive:

        *=<org>            *=<org>
        name:              .dl  name        (forward reference)
        .dl  name          name:

    Programs are lists of statements ([stmt], Proofs/LabelText.v); [src_of] writes each statement on
    its own line (body + "\n"):  SOrg sp0 e = "*=" ++ text_of sp0 e;  SLabel name k = name ++ ":" ++ k
    spaces;  SDataId kw k1 name k2 = "." ++ kw ++ k1 spaces ++ name ++ k2 spaces;  SInsn = an
    instruction line of Properties/C01Text.v (operand expressions may now contain identifiers).

    Names ([label_name_ok]): a letter or '_' followed by letters / digits / '_' ([name_ok]), NOT a
    mnemonic in any letter case ([not_mnemonic]), on a lexicon whose mnemonics are made of
    letters/digits/'_' ([mn_chars_ok], a boolean).  Why: in statement context lex_initial tries
    accept_opcode first -- a word whose first three letters are a mnemonic and whose fourth character
    is a blank, newline, '.' or the end is an OPCODE: ".dl lda" is a parse error in the real
    assembler although "lda:" is a fine label and ".dl ldax" a fine use.  After the directive at
    least one space is needed (".dlname" would be the keyword "dlname"). *)
From Coq Require Import ZArith NArith List Bool.
From A816 Require Import Spec.ExprSem Spec.BusLaws Model.Assemble Proofs.ParserShapeTokens
  Proofs.BusProofs Proofs.NodeProofs Proofs.ExprProofs Proofs.ExprLex Proofs.ExprLexParse
  Proofs.DataTextScan Proofs.DataTextGen Proofs.DataText Proofs.InsnTextScan Proofs.InsnTextParse Proofs.InsnText
  Proofs.LabelTextScan Proofs.LabelTextParse Proofs.LabelTextGen Proofs.LabelText.
Import ListNotations.
Open Scope Z_scope.

(** scanner and parser for whole programs of such statements *)
Theorem C02_text_scan : forall (lx : lexicon) (file : str) (ss : list stmt), Forall (stmt_ok lx) ss ->
  exists (toks : list token) (eof : token) (lines : list str),
    scan lx file (src_of ss) = ScanOk (toks ++ [eof]) lines /\
    map tv toks = toks_of_prog ss /\ tv eof = (T_EOF, []).
Proof. exact scan_stmts. Qed.

Theorem C02_text_parse : forall (lx : lexicon) (ss : list stmt) (toks : list token) (eof : token)
    (incd : nat) (inc : str -> res (list token)),
  Forall (stmt_ok lx) ss -> map tv toks = toks_of_prog ss -> t_type eof = T_EOF ->
  exists asts,
    parse_program (parse_fuel (length (toks ++ [eof]))) incd inc (toks ++ [eof]) = POk asts /\
    Forall2 ast_ok ss asts.
Proof. exact parse_stmts. Qed.

(** the identifier test of statement context *)
Theorem C02_opcode_test : forall (lx : lexicon) (name : str) (c : Z) (r : str),
  mn_chars_ok lx = true -> not_mnemonic lx name -> name_ok name -> sepc c ->
  opcode_test lx (name ++ c :: r) = false.
Proof. exact opcode_test_name. Qed.

(** the node-level engine: CodePosition ; items ; Label ; items *)
Theorem C02_engine : forall (w : world) (low : bus) (m : mapping),
  covers low m -> mask_ok m -> m_writable m = false ->
  forall (name : str) (L : Z) (ri : rstate) (s0 : scope),
  Good w low ri -> r_reloc ri = at_ low 0 -> r_scopes ri = [s0] ->
  s_parent s0 = None /\ s_code s0 = [] /\ s_labels s0 = [] /\ s_kind s0 = SPlain ->
  forall (xo : expr) (fi : token) (org : Z),
  in_window m org -> m_first m <= bank_of org <= m_last m ->
  (forall r, eval_raw w r xo = Ok org) ->
  forall X1 X2 : list item,
  L = A m (spec_offset m org + total X1) ->
  items_ok w low m name L X1 (spec_offset m org) ->
  items_ok w low m name L X2 (spec_offset m org + total X1) ->
  spec_offset m org + total X1 + total X2 < rsize m ->
  bytes_of X1 ++ bytes_of X2 <> [] ->
  exists o, assemble_nodes w ri (NCodePos xo fi :: map it_n X1 ++ NLabel name :: map it_n X2) = Ok o /\
            o_blocks o = [(bytes_of X1 ++ bytes_of X2, spec_offset m org)] /\ o_labels o = [(name, L)].
Proof. exact engine_run. Qed.

(** T1: label, then its use *)
Theorem C02_label_then_data : forall (t : live) (fs : srcfiles) (c : config) (fname : str) (sp0 : spacing)
    (eorg : sexpr) (org : Z) (name : str) (k : nat) (kw : str) (dk : dkind) (k1 k2 : nat),
  tables_ok t c -> org_ok eorg org ->
  Forall (stmt_ok (lv_lex t)) [SOrg sp0 eorg; SLabel name k; SDataId kw k1 name k2] ->
  Parser.dkind_of kw = Some dk ->
  lorom_offset org + dkind_len dk < (if bank_of org <? 128 then 112 else 80) * 32768 ->
  exists o fin,
    assemble_source t fs c fname (src_of [SOrg sp0 eorg; SLabel name k; SDataId kw k1 name k2]) = AOk o fin /\
    o_blocks o = [(data_bytes dk org, lorom_offset org)] /\ o_labels o = [(name, org)].
Proof. exact label_then_data. Qed.

(** T1: forward reference *)
Theorem C02_data_then_label : forall (t : live) (fs : srcfiles) (c : config) (fname : str) (sp0 : spacing)
    (eorg : sexpr) (org : Z) (name : str) (k : nat) (kw : str) (dk : dkind) (k1 k2 : nat),
  tables_ok t c -> org_ok eorg org ->
  Forall (stmt_ok (lv_lex t)) [SOrg sp0 eorg; SDataId kw k1 name k2; SLabel name k] ->
  Parser.dkind_of kw = Some dk ->
  org mod 65536 + dkind_len dk < 65536 ->
  lorom_offset org + dkind_len dk < (if bank_of org <? 128 then 112 else 80) * 32768 ->
  exists o fin,
    assemble_source t fs c fname (src_of [SOrg sp0 eorg; SDataId kw k1 name k2; SLabel name k]) = AOk o fin /\
    o_blocks o = [(data_bytes dk (org + dkind_len dk), lorom_offset org)] /\
    o_labels o = [(name, org + dkind_len dk)].
Proof. exact data_then_label. Qed.

(** Non-vacuity: "*=0x8000 / loop: / .dl loop" on a concrete table record, from the theorem; the
    four demo programs computed by the model ([demo_label_computed]); the real assembler gives the
    same blocks and labels. *)
Example C02_text_nonvacuous : exists o fin,
  assemble_source demo_live3 no_srcfiles demo_cfg [109] (src_of p_t1a) = AOk o fin /\
  o_blocks o = [([0; 128; 0], 0)] /\ o_labels o = [(n_loop, 32768)].
Proof. exact demo_t1_proved. Qed.

Print Assumptions C02_text_scan.
Print Assumptions C02_text_parse.
Print Assumptions C02_opcode_test.
Print Assumptions C02_engine.
Print Assumptions C02_label_then_data.
Print Assumptions C02_data_then_label.
Print Assumptions C02_text_nonvacuous.
