(** C03 — Output holds exactly the emitted bytes at their mapped ROM offsets. *)
From Coq Require Import ZArith List.
From A816 Require Import Model.Program Spec.BusLaws Proofs.BusProofs Proofs.ProgramProofs Proofs.NodeProofs.
Open Scope Z_scope.

(** Bytes are conserved: each step appends exactly the node's bytes to "blocks written so far
    followed by the current block" — nothing lost, duplicated or reordered. *)
Theorem C03_conservation : forall w st n x st',
  is_ips n = false -> emit_step w st n x = Ok st' ->
  exists r1 bs, node_emit w (e_r st) n = Ok (r1, bs) /\
    concat (map fst (e_out st')) ++ e_block st' = concat (map fst (e_out st)) ++ e_block st ++ bs.
Proof. exact emit_step_conserves. Qed.

(** While the code is not relocated, every node's bytes go to consecutive file offsets that are
    the offsets the mapping assigns to the consecutive run addresses, across bank ends. *)
Theorem C03_offsets_step : forall w m st n x st',
  synced m st -> is_position n = false -> emit_step w st n x = Ok st' ->
  (spec_offset m (a_val (r_reloc (e_r st'))) < (m_last m - m_first m + 1) * m_mask m) ->
  synced m st' /\
  exists r1 bs, node_emit w (e_r st) n = Ok (r1, bs) /\
    spec_offset m (a_val (r_reloc (e_r st'))) = spec_offset m (a_val (r_reloc (e_r st))) + Z.of_nat (length bs) /\
    e_baddr st' = e_baddr st.
Proof. exact emit_step_synced. Qed.

(** [*=] moves both the logical address and the output offset, flushing the block. *)
Theorem C03_star_eq : forall w st e fi x st' v bus m,
  emit_step w st (NCodePos e fi) x = Ok st' ->
  get_value w (e_r st) e = Ok v -> get_bus w (e_r st) = Ok bus ->
  covers bus m -> mask_ok m -> m_writable m = false -> in_window m v ->
  m_first m <= bank_of v <= m_last m ->
  synced m st' /\ a_val (r_reloc (e_r st')) = v /\ e_block st' = [] /\
  e_baddr st' = spec_offset m v /\
  e_out st' = match e_block st with [] => e_out st | b => e_out st ++ [(b, e_baddr st)] end.
Proof. exact codepos_synced. Qed.

(** [@=] changes only the logical address: the block keeps growing contiguously (no flush). *)
Theorem C03_at_eq_no_flush : forall w st e fi x st',
  emit_step w st (NReloc e fi) x = Ok st' -> e_block st' = e_block st /\ e_baddr st' = e_baddr st /\ e_out st' = e_out st.
Proof.
  intros w st e fi x st'. unfold emit_step. destruct (negb _); [discriminate|].
  cbn [node_emit]. destruct (get_value _ _ _); cbn [bind]; try discriminate.
  destruct (set_position _ _ _); cbn [bind is_codepos]; try discriminate.
  intros H; inversion H; subst. cbn. rewrite app_nil_r. auto.
Qed.

(** Whole runs.  (i) Without included patches, what reached the writer plus the still open block is
    exactly the concatenation of every node's bytes in source order. *)
Theorem C03_run_conservation : forall w ns, forallb (fun n => negb (is_ips n)) ns = true -> forall st addrs st',
  emit_prefix w st ns addrs = Ok st' ->
  exists bss, emit_trace w st ns addrs = Ok bss /\
    concat (map fst (e_out st')) ++ e_block st' = concat (map fst (e_out st)) ++ e_block st ++ concat bss.
Proof. exact emit_prefix_conserves. Qed.
(** (ii) From an in-step state (e.g. right after [*=]) a run of non-position nodes whose bytes fit in
    the mapped range stays in step, across any number of bank ends: contiguous file offsets, each
    the offset the mapping assigns to the run address, no flush. *)
Theorem C03_run_offsets : forall w m ns, forallb (fun n => negb (is_position n)) ns = true -> forall st addrs st' bss,
  synced m st -> emit_prefix w st ns addrs = Ok st' -> emit_trace w st ns addrs = Ok bss ->
  spec_offset m (a_val (r_reloc (e_r st))) + Z.of_nat (length (concat bss)) < (m_last m - m_first m + 1) * m_mask m ->
  synced m st' /\ e_baddr st' = e_baddr st /\
  spec_offset m (a_val (r_reloc (e_r st'))) = spec_offset m (a_val (r_reloc (e_r st))) + Z.of_nat (length (concat bss)).
Proof. exact emit_prefix_synced. Qed.

(** The writer protocol as a whole, in exactly the form the run-time oracle checks on the
    implementation's trace (Oracle/Coreo.v: [cut_spec], [pcs_ok], [offsets_ok]).  For EVERY node
    list and start state: the blocks handed to the writer are the independent cutter's reading of
    the emission trace (bytes accumulate in source order; [*=] flushes at the offset where the run
    started; records of an included patch go out where the directive stands; nothing else), and a
    node that emits n bytes moves the file offset by n, nothing else moves it but [*=]/[@=]. *)
From A816 Require Import Oracle.Coreo Proofs.WriterProtocol Proofs.WriterProtocolBus.
Theorem C03_writer_protocol : forall w r ns o,
  assemble_nodes w r ns = Ok o ->
  exists r1 addrs tr,
    resolve_labels w r ns = Ok (r1, addrs) /\
    model_trace w (emit_start r1) ns addrs = Ok (tr, r_pc (o_final o)) /\
    o_blocks o = cut_spec tr (r_pc (o_final o)) [] 0 /\
    pcs_ok tr (r_pc (o_final o)) = true.
Proof. exact assemble_writer_protocol. Qed.
(** Offsets, on the built-in buses: every byte emitted while the code is not relocated ([@=]) lies
    at the file offset the mapping assigns to its run address — for programs that start with [*=]
    (or from the initial LoROM position), as long as unrelocated bytes are not emitted at RAM
    addresses and no single node carries the offset past 4 MiB ([rom_run]; both restrictions are
    needed: `*=` to a RAM address leaves the output offset where it was, and a run that walks from
    there into a ROM bank is stored contiguously — WriterProtocolBus.v, ramrun examples). *)
Theorem C03_writer_protocol_offsets : forall w high r e fi ns o,
  get_bus w r = Ok (builtin high) ->
  assemble_nodes w r (NCodePos e fi :: ns) = Ok o ->
  exists r1 addrs tr,
    resolve_labels w r (NCodePos e fi :: ns) = Ok (r1, addrs) /\
    model_trace w (emit_start r1) (NCodePos e fi :: ns) addrs = Ok (tr, r_pc (o_final o)) /\
    protocol_ok high tr (r_pc (o_final o)) (o_blocks o).
Proof. exact assemble_writer_protocol_codepos. Qed.
Theorem C03_writer_protocol_initial : forall w high r ns o,
  get_bus w r = Ok (builtin high) -> in_step (builtin high) (set_pc r 0) ->
  assemble_nodes w r ns = Ok o ->
  exists r1 addrs tr,
    resolve_labels w r ns = Ok (r1, addrs) /\
    model_trace w (emit_start r1) ns addrs = Ok (tr, r_pc (o_final o)) /\
    protocol_ok high tr (r_pc (o_final o)) (o_blocks o).
Proof. exact assemble_writer_protocol_builtin. Qed.

(** [*=] to a RAM address (no file offset to move to) leaves the output offset where it was — the
    last conjunct of the run-time oracle ([ram_org_ok]) — for every node list on the built-in buses. *)
From A816 Require Import Proofs.RamOrg.
Theorem C03_ram_org : forall w high r ns o,
  get_bus w r = Ok (builtin high) -> assemble_nodes w r ns = Ok o ->
  exists r1 addrs tr, resolve_labels w r ns = Ok (r1, addrs) /\
    model_trace w (emit_start r1) ns addrs = Ok (tr, r_pc (o_final o)) /\ ram_org_ok high tr = true.
Proof. exact assemble_ram_org_ok. Qed.

(** The step invariants under ownership of a bank sub-interval ([covers_sub], Proofs/CoversSub.v):
    the forms that are not vacuous on the built-in HiROM bus (its ROM mapping does not own all of
    its bank range), with the invariant established by a [*=] into HiROM banks 0x40-0x7D. *)
From A816 Require Import Proofs.CoversSub Proofs.CoversSubProgram.
Theorem C03_hirom_star_eq : forall w st e fi x st' v bus,
  bus_agree_b bus hirom = true -> emit_step w st (NCodePos e fi) x = Ok st' ->
  get_value w (e_r st) e = Ok v -> get_bus w (e_r st) = Ok bus -> 64 <= bank_of v <= 125 ->
  synced_sub m_hi 64 125 st' /\ a_val (r_reloc (e_r st')) = v /\ e_baddr st' = spec_offset m_hi v.
Proof. exact hirom_star_eq. Qed.
Theorem C03_offsets_step_sub : forall w m lo hi st n x st',
  synced_sub m lo hi st -> is_position n = false -> emit_step w st n x = Ok st' ->
  spec_offset m (a_val (r_reloc (e_r st'))) < (hi - m_first m + 1) * m_mask m ->
  synced_sub m lo hi st' /\ exists r1 bs, node_emit w (e_r st) n = Ok (r1, bs) /\
    spec_offset m (a_val (r_reloc (e_r st'))) = spec_offset m (a_val (r_reloc (e_r st))) + Z.of_nat (length bs) /\
    e_baddr st' = e_baddr st.
Proof. exact emit_step_synced_sub. Qed.

(** Programs that declare their own bus with [.map].  [ds] are the declarations as the model's
    [bus_map] receives them, [ranges_of ds] the bank ranges the run-time oracle [SUserOffsets] is
    given (main range, then mirror range, per declaration, in order).  With pairwise distinct
    identifiers (the derived "<id>_mirror" names included — a reused identifier re-parameterises the
    banks of the earlier declaration, in the model as in mapping.py) the bus answers every bank by
    the LAST declared range holding it, an address the oracle assigns an offset to has exactly that
    file offset on the bus, and the model's own emission trace satisfies the oracle as long as each
    run stays inside one declared range ([user_run]): the oracle cannot raise a false alarm on
    observations that agree with the model. *)
From A816 Require Import Proofs.UserBusOracle Proofs.UserBusOracleTrace.
Theorem C03_user_bus_lookup : forall ds b,
  NoDup (ids_of ds) -> bus_of ds = Ok b ->
  forall bank, bus_mapping_for_bank b bank = look (ranges_of ds) bank.
Proof. exact bus_of_lookup. Qed.
Theorem C03_user_offset_physical : forall ds b a p,
  NoDup (ids_of ds) -> bus_of ds = Ok b ->
  user_offset (ranges_of ds) a = Some p -> addr_physical b a = Ok (Some p).
Proof. exact user_offset_physical. Qed.
Theorem C03_user_offsets_oracle : forall w ds b r e fi ns o,
  NoDup (ids_of ds) -> bus_of ds = Ok b -> get_bus w r = Ok b ->
  assemble_nodes w r (NCodePos e fi :: ns) = Ok o ->
  exists r1 addrs tr,
    resolve_labels w r (NCodePos e fi :: ns) = Ok (r1, addrs) /\
    model_trace w (emit_start r1) (NCodePos e fi :: ns) addrs = Ok (tr, r_pc (o_final o)) /\
    (user_run (ranges_of ds) tr false = true -> user_offsets_ok (ranges_of ds) tr false = true).
Proof. exact assemble_user_offsets_ok. Qed.

Print Assumptions C03_user_bus_lookup.
Print Assumptions C03_user_offset_physical.
Print Assumptions C03_user_offsets_oracle.

(** Run addresses in RAM (the oracle's [ram_runs_ok], added after seed C03-16): behind an ordinary node whose run
    address lies in RAM the next node runs at that address plus the bytes emitted — the model's own trace satisfies
    the clause under either built-in mapping (start address on a built-in bus, as [resolver_init] makes it; or any
    program that begins with a [*=]) and under any bus built from [.map] declarations. *)
From A816 Require Import Proofs.UserRamRun.
Theorem C03_ram_runs_oracle : forall w high high' r ns o,
  get_bus w r = Ok (builtin high) -> a_bus (r_reloc r) = builtin high' ->
  assemble_nodes w r ns = Ok o ->
  exists r1 addrs tr,
    resolve_labels w r ns = Ok (r1, addrs) /\
    model_trace w (emit_start r1) ns addrs = Ok (tr, r_pc (o_final o)) /\
    ram_runs_ok (is_ram high) tr = true.
Proof. exact assemble_ram_runs_ok_builtin_start. Qed.
Theorem C03_ram_runs_oracle_codepos : forall w high r e fi ns o,
  get_bus w r = Ok (builtin high) -> assemble_nodes w r (NCodePos e fi :: ns) = Ok o ->
  exists r1 addrs tr,
    resolve_labels w r (NCodePos e fi :: ns) = Ok (r1, addrs) /\
    model_trace w (emit_start r1) (NCodePos e fi :: ns) addrs = Ok (tr, r_pc (o_final o)) /\
    ram_runs_ok (is_ram high) tr = true.
Proof. exact assemble_ram_runs_ok_codepos. Qed.
Theorem C03_user_ram_runs_oracle : forall w ds b r e fi ns o,
  NoDup (ids_of ds) -> bus_of ds = Ok b -> get_bus w r = Ok b ->
  assemble_nodes w r (NCodePos e fi :: ns) = Ok o ->
  exists r1 addrs tr,
    resolve_labels w r (NCodePos e fi :: ns) = Ok (r1, addrs) /\
    model_trace w (emit_start r1) (NCodePos e fi :: ns) addrs = Ok (tr, r_pc (o_final o)) /\
    ram_runs_ok (user_is_ram (ranges_of ds)) tr = true.
Proof. exact assemble_user_ram_runs_ok. Qed.

Print Assumptions C03_ram_runs_oracle.
Print Assumptions C03_ram_runs_oracle_codepos.
Print Assumptions C03_user_ram_runs_oracle.
