(** C04 — Address mapping: offsets, mirrors and address advance obey the bus laws.
    Statements only; each is closed by [exact] of a lemma from Proofs/. *)
From Coq Require Import ZArith List.
From A816 Require Import Spec.BusLaws Proofs.BusProofs.
Open Scope Z_scope.

(** ROM address -> (bank - first bank of its range) x bank size + position in the window. *)
Theorem C04_physical : forall b a m,
  bus_mapping_for_bank b (bank_of a) = Ok m -> mask_ok m -> m_writable m = false -> in_window m a ->
  addr_physical b a = Ok (Some (spec_offset m a)).
Proof. exact bus_physical. Qed.

(** A mirror bank translates to the same offset as its primary bank ([.map] with a mirror range). *)
Theorem C04_mirror : forall b id lo hi mask mlo mhi b' k off,
  bus_map b id (lo, hi) mask false (Some (mlo, mhi)) = Ok b' ->
  hi < mlo \/ mhi < lo ->
  0 <= k <= hi - lo -> k <= mhi - mlo -> 0 <= off < 65536 ->
  addr_physical b' ((lo + k) * 65536 + off) = addr_physical b' ((mlo + k) * 65536 + off).
Proof. exact bus_mirror. Qed.

(** RAM banks have no file offset; unmapped banks are rejected by every operation. *)
Theorem C04_ram : forall b a m,
  bus_mapping_for_bank b (bank_of a) = Ok m -> m_writable m = true -> addr_physical b a = Ok None.
Proof. exact bus_ram. Qed.
Theorem C04_unmapped : forall b a,
  bus_mapping_for_bank b (bank_of a) = Err EKey ->
  addr_physical b a = Err EKey /\ get_address b a = Err EKey /\ forall n, addr_add b a n = Err EKey.
Proof. exact bus_unmapped. Qed.

(** Advancing by n yields the address whose offset is n larger, in the same range, in-window. *)
Theorem C04_advance : forall b a n m,
  covers b m -> mask_ok m -> m_writable m = false -> in_window m a ->
  m_first m <= bank_of a <= m_last m ->
  0 <= spec_offset m a + n < (m_last m - m_first m + 1) * m_mask m ->
  let a' := spec_address m (spec_offset m a + n) in
  addr_add b a n = Ok a' /\
  addr_physical b a' = Ok (Some (spec_offset m a + n)) /\
  in_window m a' /\ m_first m <= bank_of a' <= m_last m.
Proof. exact bus_advance. Qed.
Theorem C04_advance_ram : forall b a n m,
  bus_mapping_for_bank b (bank_of a) = Ok m -> m_writable m = true ->
  addr_add b a n = get_address b (a + n).
Proof. exact bus_add_ram. Qed.

Theorem C04_add_0 : forall b a m,
  covers b m -> mask_ok m -> m_writable m = false -> in_window m a ->
  m_first m <= bank_of a <= m_last m -> addr_add b a 0 = Ok a.
Proof. exact bus_add_0. Qed.
Theorem C04_add_add : forall b a n1 n2 m a1,
  covers b m -> mask_ok m -> m_writable m = false -> in_window m a ->
  m_first m <= bank_of a <= m_last m ->
  0 <= spec_offset m a + n1 < (m_last m - m_first m + 1) * m_mask m ->
  0 <= spec_offset m a + (n1 + n2) < (m_last m - m_first m + 1) * m_mask m ->
  addr_add b a n1 = Ok a1 -> addr_add b a1 n2 = addr_add b a (n1 + n2).
Proof. exact bus_add_add. Qed.

(** The hypotheses are met by every range a [.map] directive creates. *)
Theorem C04_map_covers : forall b id lo hi mask w b',
  bus_map b id (lo, hi) mask w None = Ok b' ->
  covers b' {| m_first := lo; m_last := hi; m_mask := mask; m_writable := w |}.
Proof. exact bus_map_covers. Qed.

(** Built-in buses: closed forms over all of Z (not a sweep), and transfer to any bus that
    agrees with them bank by bank — instantiated each run on the regenerated live buses. *)
Theorem C04_lorom : forall a, addr_physical lorom a = lorom_spec a.
Proof. exact lorom_closed_form. Qed.
Theorem C04_hirom : forall a, addr_physical hirom a = hirom_spec a.
Proof. exact hirom_closed_form. Qed.
Theorem C04_live_lorom : forall b, bus_agree_b b lorom = true ->
  (forall a, addr_physical b a = lorom_spec a) /\ (forall a n, addr_add b a n = addr_add lorom a n).
Proof.
  intros b H. split; [intros a; rewrite (bus_agree_physical _ _ H); exact (lorom_closed_form a)
                     | exact (bus_agree_add _ _ H)].
Qed.
Theorem C04_live_hirom : forall b, bus_agree_b b hirom = true ->
  (forall a, addr_physical b a = hirom_spec a) /\ (forall a n, addr_add b a n = addr_add hirom a n).
Proof.
  intros b H. split; [intros a; rewrite (bus_agree_physical _ _ H); exact (hirom_closed_form a)
                     | exact (bus_agree_add _ _ H)].
Qed.

(** Non-vacuity: the hypotheses of the advance law hold on a concrete LoROM address. *)
Example C04_nonvacuous :
  let m := {| m_first := 0; m_last := 111; m_mask := 32768; m_writable := false |} in
  bus_mapping_for_bank lorom (bank_of 98304) = Ok m /\ mask_ok m /\ in_window m 98304 /\
  addr_add lorom 98304 40000 = Ok 171072.
Proof. cbv zeta. repeat split; try reflexivity. left; reflexivity. unfold in_window; cbn; discriminate. Qed.

(** The generic advance laws above assume [covers b m]: EVERY bank of the mapping's range is owned
    by it.  The built-in HiROM ROM mapping does not satisfy that (its banks 0x7E/0x7F are re-assigned
    to the RAM mapping: [C04_hirom_not_covers]), so here are the same laws under ownership of just
    the bank sub-interval the advance moves in — which HiROM 0x40-0x7D and its whole mirror satisfy,
    for the specification bus and, per run, for the live bus. *)
From A816 Require Import Proofs.CoversSub.
Theorem C04_advance_sub : forall b a n m lo hi,
  covers_sub b m lo hi -> mask_ok m -> m_writable m = false -> in_window m a ->
  lo <= bank_of a <= hi ->
  (lo - m_first m) * m_mask m <= spec_offset m a + n < (hi - m_first m + 1) * m_mask m ->
  let a' := spec_address m (spec_offset m a + n) in
  addr_add b a n = Ok a' /\ addr_physical b a' = Ok (Some (spec_offset m a + n)) /\
  in_window m a' /\ lo <= bank_of a' <= hi.
Proof. exact bus_advance_sub. Qed.
Theorem C04_add_0_sub : forall b a m lo hi,
  covers_sub b m lo hi -> mask_ok m -> m_writable m = false -> in_window m a ->
  lo <= bank_of a <= hi -> addr_add b a 0 = Ok a.
Proof. exact bus_add_0_sub. Qed.
Theorem C04_add_add_sub : forall b a n1 n2 m lo hi a1,
  covers_sub b m lo hi -> mask_ok m -> m_writable m = false -> in_window m a -> lo <= bank_of a <= hi ->
  (lo - m_first m) * m_mask m <= spec_offset m a + n1 < (hi - m_first m + 1) * m_mask m ->
  (lo - m_first m) * m_mask m <= spec_offset m a + (n1 + n2) < (hi - m_first m + 1) * m_mask m ->
  addr_add b a n1 = Ok a1 -> addr_add b a1 n2 = addr_add b a (n1 + n2).
Proof. exact bus_add_add_sub. Qed.
Theorem C04_hirom_not_covers : ~ covers hirom m_hi.
Proof. exact hirom_not_covers. Qed.
Theorem C04_hirom_covers_sub : covers_sub hirom m_hi 64 125 /\ covers hirom m_hi_mirror.
Proof. exact (conj hirom_covers_sub hirom_covers_mirror). Qed.
Theorem C04_hirom_advance : forall a n, 64 <= bank_of a <= 125 -> 0 <= spec_offset m_hi a + n < 62 * 65536 ->
  let a' := spec_address m_hi (spec_offset m_hi a + n) in
  addr_add hirom a n = Ok a' /\ addr_physical hirom a' = Ok (Some (spec_offset m_hi a + n)) /\ 64 <= bank_of a' <= 125.
Proof. exact hirom_advance. Qed.
(** What the code does when an advance leaves the owned banks: the arithmetic of the SOURCE mapping,
    accepted as soon as the resulting bank is mapped by anything (0x7DFFFF + 1 = 0x7E0000, RAM). *)
Theorem C04_advance_any : forall b a n m,
  bus_mapping_for_bank b (bank_of a) = Ok m -> mask_ok m -> m_writable m = false -> in_window m a ->
  addr_add b a n = get_address b (spec_address m (spec_offset m a + n)).
Proof. exact bus_advance_any. Qed.
