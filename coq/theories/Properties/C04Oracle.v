(** C04 — the run-time oracle of Oracle/C04o.v against the MODEL (PARTIAL: translation cases on the two built-in buses and the
    bank sweeps; NOT covered: [CAdd] (advance) cases in general and [CPhys] on user-declared buses): a translation value that
    agrees with the model passes the textbook clause for EVERY address (ROM, mirror, RAM, unmapped, below the window), given
    the per-run agreement of the live buses with the specification buses; the model's own sweep checksums pass, and
    [C04_oracle_sweep_needs_input] shows the sweep clause also constrains a second checksum the correspondence does not look at.
    Statements only; proofs in Proofs/C04OracleModel.v. *)
From Coq Require Import ZArith List Bool Arith.
From A816 Require Import Model.Bus Spec.BusLaws Oracle.C04o Proofs.BusProofs Proofs.C04OracleModel.

Theorem C04_oracle_phys :
  forall (low high : bus) (d : busdesc) (a : Z) (impl : obs (option Z)),
  bus_agree_b low lorom = true ->
  bus_agree_b high hirom = true ->
  builtin_desc d = true ->
  fst (check low high (CPhys d a impl)) = true -> snd (check low high (CPhys d a impl)) = true.
Proof. exact @cphys_builtin_ok. Qed.

Theorem C04_oracle_phys_model_passes :
  forall (low high : bus) (d : busdesc) (a : Z),
  bus_agree_b low lorom = true ->
  bus_agree_b high hirom = true ->
  builtin_desc d = true ->
  check low high (CPhys d a (obs_of (do b <- model_bus low high d; addr_physical b a))) =
  (true, true).
Proof. exact @cphys_builtin_model_passes. Qed.

Theorem C04_oracle_sweep_model_passes :
  forall (low high : bus) (h : bool) (bank : Z) (fn : sweepfn) (impl : Z),
  bus_agree_b low lorom = true ->
  bus_agree_b high hirom = true ->
  snd
  (check_sweep low high
  (Sweep h bank fn impl
  (sweep (masked_model_code h (if h then high else low)) (bank * 65536)))) = true.
Proof. exact @sweep_model_passes. Qed.

Theorem C04_oracle_sweep_needs_input :
  check_sweep lorom hirom (Sweep false 1 SwPhys impl_bank1 0) = (true, false).
Proof. exact @sweep_needs_side_condition. Qed.

Print Assumptions C04_oracle_phys.
Print Assumptions C04_oracle_phys_model_passes.
Print Assumptions C04_oracle_sweep_model_passes.
Print Assumptions C04_oracle_sweep_needs_input.
