(** C05 — Relative branches encode the true displacement or are rejected. *)
From Coq Require Import ZArith List.
From A816 Require Import Model.Nodes Spec.BusLaws Proofs.BusProofs Proofs.BranchProofs Proofs.NodeProofs.
Open Scope Z_scope.

Theorem C05_encode : forall w r op t bus m,
  get_bus w r = Ok bus -> a_bus (r_reloc r) = bus ->
  let p := a_val (r_reloc r) in
  bus_mapping_for_bank bus (bank_of p) = Ok m -> mask_ok m -> m_writable m = false ->
  in_window m p -> in_window m t -> bank_of t = bank_of p ->
  r_pc r = spec_offset m p -> byte_ok op = true ->
  rel_emit w r op (Some (Ok t)) = branch_bytes op (t - (p + 2)).
Proof. exact rel_branch_encode. Qed.

Theorem C05_reject_range : forall w r op t bus m,
  get_bus w r = Ok bus -> a_bus (r_reloc r) = bus ->
  let p := a_val (r_reloc r) in
  bus_mapping_for_bank bus (bank_of p) = Ok m -> mask_ok m -> m_writable m = false ->
  in_window m p -> in_window m t -> bank_of t = bank_of p ->
  r_pc r = spec_offset m p -> byte_ok op = true ->
  (t - (p + 2) < -128 \/ 127 < t - (p + 2)) ->
  rel_emit w r op (Some (Ok t)) = Err EStruct.
Proof. exact rel_branch_range. Qed.

Theorem C05_reject_target_ram : forall w r op t bus m,
  get_bus w r = Ok bus -> bus_mapping_for_bank bus (bank_of t) = Ok m -> m_writable m = true ->
  rel_emit w r op (Some (Ok t)) = Err ERuntime.
Proof. exact rel_branch_target_ram. Qed.

Theorem C05_reject_source_ram : forall w r op t bus mt m,
  get_bus w r = Ok bus -> bus_mapping_for_bank bus (bank_of t) = Ok mt ->
  bus_mapping_for_bank (a_bus (r_reloc r)) (bank_of (a_val (r_reloc r))) = Ok m -> m_writable m = true ->
  is_err (rel_emit w r op (Some (Ok t))) = true.
Proof. exact rel_branch_source_ram. Qed.

Theorem C05_reject_unmapped : forall w r op t bus,
  get_bus w r = Ok bus -> bus_mapping_for_bank bus (bank_of t) = Err EKey ->
  rel_emit w r op (Some (Ok t)) = Err EKey.
Proof. exact rel_branch_target_unmapped. Qed.

Theorem C05_length : forall w r b ev bs, rel_emit w r b ev = Ok bs -> length bs = 2%nat.
Proof. exact rel_emit_length. Qed.

(** Non-vacuity: a concrete LoROM branch meeting every hypothesis of C05_encode. *)
Example C05_nonvacuous :
  branch_bytes 128 (32768 - (32773 + 2)) = Ok [128; 249] /\ branch_bytes 128 128 = Err EStruct /\
  branch_bytes 208 (-128) = Ok [208; 128].
Proof. repeat split; reflexivity. Qed.

(** The "file offset in step with the run address" hypothesis of C05_encode is exactly the emission
    invariant of C03 ([synced], re-established by every [*=] and kept by every other node): in any
    in-step emission state a branch to an in-window target of the same bank is encoded with its true
    displacement, or rejected when it is out of range. *)
From A816 Require Import Model.Program Proofs.ProgramProofs.
Theorem C05_in_step : forall w m st op t,
  synced m st -> get_bus w (e_r st) = Ok (a_bus (r_reloc (e_r st))) ->
  let p := a_val (r_reloc (e_r st)) in
  in_window m t -> bank_of t = bank_of p -> byte_ok op = true ->
  rel_emit w (e_r st) op (Some (Ok t)) = branch_bytes op (t - (p + 2)).
Proof. exact branch_in_step. Qed.
