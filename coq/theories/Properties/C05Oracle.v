(** C05 — the run-time oracle clause [spec_ok (SBranch ...)] of Oracle/Coreo.v against the MODEL: wherever the clause asks for
    the two bytes the model's [rel_emit] returns them, wherever it asks for a rejection [rel_emit] is an error (built-in
    specification buses; resolver condition as in C05_encode).  Statements only; proofs in Proofs/BranchOracle.v. *)
From Coq Require Import ZArith List Bool Arith.
From A816 Require Import Model.Program Spec.BusLaws Oracle.Coreo Proofs.BusProofs Proofs.BranchOracle.

Theorem C05_oracle_accept :
  forall (w : world) (r : rstate) (high : bool) (p t op op' ot : Z),
  get_bus w r = Ok (builtin high) ->
  a_bus (r_reloc r) = builtin high ->
  a_val (r_reloc r) = p ->
  rom_offset high p = Some op' ->
  rom_offset high t = Some ot ->
  p / 65536 = t / 65536 ->
  -128 <= t - (p + 2) <= 127 ->
  r_pc r = op' ->
  byte_ok op = true -> rel_emit w r op (Some (Ok t)) = Ok [op; (t - (p + 2)) mod 256].
Proof. exact @branch_oracle_accept. Qed.

Theorem C05_oracle_reject_range :
  forall (w : world) (r : rstate) (high : bool) (p t op op' ot : Z),
  get_bus w r = Ok (builtin high) ->
  a_bus (r_reloc r) = builtin high ->
  a_val (r_reloc r) = p ->
  rom_offset high p = Some op' ->
  rom_offset high t = Some ot ->
  p / 65536 = t / 65536 ->
  t - (p + 2) < -128 \/ 127 < t - (p + 2) ->
  r_pc r = op' -> byte_ok op = true -> rel_emit w r op (Some (Ok t)) = Err EStruct.
Proof. exact @branch_oracle_reject_range. Qed.

Theorem C05_oracle_reject_ram :
  forall (w : world) (r : rstate) (high : bool) (p t op : Z),
  get_bus w r = Ok (builtin high) ->
  a_bus (r_reloc r) = builtin high ->
  a_val (r_reloc r) = p ->
  is_ram high p = true \/ is_ram high t = true ->
  is_err (rel_emit w r op (Some (Ok t))) = true.
Proof. exact @branch_oracle_reject_ram. Qed.

Theorem C05_oracle_reject_far :
  forall (w : world) (r : rstate) (high : bool) (p t op op' ot : Z),
  get_bus w r = Ok (builtin high) ->
  a_bus (r_reloc r) = builtin high ->
  a_val (r_reloc r) = p ->
  rom_offset high p = Some op' ->
  rom_offset high t = Some ot ->
  ot - (op' + 2) < -128 \/ 127 < ot - (op' + 2) ->
  r_pc r = op' -> byte_ok op = true -> rel_emit w r op (Some (Ok t)) = Err EStruct.
Proof. exact @branch_oracle_reject_far. Qed.

Theorem C05_oracle_clause :
  forall (w : world) (r : rstate) (high : bool) (p t op : Z),
  get_bus w r = Ok (builtin high) ->
  a_bus (r_reloc r) = builtin high ->
  a_val (r_reloc r) = p ->
  (forall op' : Z, rom_offset high p = Some op' -> r_pc r = op') ->
  byte_ok op = true ->
  let d := t - (p + 2) in
  if oracle_rom_ok high p t && (p / 65536 =? t / 65536)
  then
  if (-128 <=? d) && (d <=? 127)
  then rel_emit w r op (Some (Ok t)) = Ok [op; d mod 256]
  else is_err (rel_emit w r op (Some (Ok t))) = true
  else
  if is_ram high p || is_ram high t
  then is_err (rel_emit w r op (Some (Ok t))) = true
  else
  match rom_offset high p with
  | Some op' =>
  match rom_offset high t with
  | Some ot =>
  if (-128 <=? ot - (op' + 2)) && (ot - (op' + 2) <=? 127)
  then True
  else is_err (rel_emit w r op (Some (Ok t))) = true
  | None => True
  end
  | None => True
  end.
Proof. exact @branch_oracle_clause. Qed.

Print Assumptions C05_oracle_accept.
Print Assumptions C05_oracle_reject_range.
Print Assumptions C05_oracle_reject_ram.
Print Assumptions C05_oracle_reject_far.
Print Assumptions C05_oracle_clause.
