(** C05, source-text level — statements only (each closed by [exact]; lemmas in Proofs/LabelText*.v).

    "Relative branches encode the true displacement or are rejected", on SOURCE TEXT, through the
    whole model pipeline, for EVERY relative-branch row of the live table ([bra_tbl]: the row of the
    lower-cased mnemonic under M_direct is [EmRel op]) and ANY number k of operand-less instruction
    lines between the label and the branch ([nop_tbl]: each is an [EmNoOperand] row):

        *=<org>                      *=<org>
        name:                        <branch>  name
        <k operand-less lines>       <k operand-less lines>
        <branch>  name               name:

    ([back_prog] / [fwd_prog], Proofs/LabelText.v; mnemonics in any letter case, arbitrary trailing
    spaces on every line, [os] = the spacing of the branch line.)
    Backward: the displacement is -(k+2); accepted iff k+2 <= 128: the block is the k opcode bytes
    followed by [op; (-(k+2)) mod 256].  Forward: the displacement is k; accepted iff k <= 127: the
    block is [op; k mod 256] followed by the k opcode bytes, the label is org+2+k.  Otherwise the
    assembly fails with struct.error ([AExc EStruct]).  Composition with C05_encode /
    C05_reject_range ([rel_branch_encode], [rel_branch_range]) -- the encoding is not re-derived.
    Side conditions: the whole program stays in the bank of the origin ([org mod 65536 + k + 2 <
    65536]: a branch never leaves its bank) and in the ROM range. *)
From Coq Require Import ZArith NArith List Bool.
From A816 Require Import Spec.ExprSem Spec.BusLaws Model.Assemble Proofs.ParserShapeTokens
  Proofs.BusProofs Proofs.NodeProofs Proofs.BranchProofs Proofs.ExprProofs Proofs.ExprLex
  Proofs.DataTextScan Proofs.DataTextGen Proofs.DataText Proofs.InsnTextScan Proofs.InsnTextParse Proofs.InsnText
  Proofs.LabelTextScan Proofs.LabelTextParse Proofs.LabelTextGen Proofs.LabelText.
Import ListNotations.
Open Scope Z_scope.

Theorem C05_text_backward : forall (t : live) (fs : srcfiles) (c : config) (fname : str) (sp0 : spacing)
    (eorg : sexpr) (org : Z) (name : str) (kl : nat) (nl : list (str * nat)) (bmn : str) (os : ospacing)
    (bs : list Z) (op : Z),
  tables_ok t c -> org_ok eorg org ->
  Forall (stmt_ok (lv_lex t)) (back_prog sp0 eorg name kl nl bmn os) ->
  Forall2 (nop_tbl t) nl bs -> bra_tbl t bmn op ->
  let k := Z.of_nat (length nl) in
  org mod 65536 + k + 2 < 65536 ->
  lorom_offset org + k + 2 < (if bank_of org <? 128 then 112 else 80) * 32768 ->
  k + 2 <= 128 ->
  exists o fin,
    assemble_source t fs c fname (src_of (back_prog sp0 eorg name kl nl bmn os)) = AOk o fin /\
    o_blocks o = [(bs ++ [op; (- (k + 2)) mod 256], lorom_offset org)] /\ o_labels o = [(name, org)].
Proof. exact branch_backward. Qed.

Theorem C05_text_backward_rejected : forall (t : live) (fs : srcfiles) (c : config) (fname : str) (sp0 : spacing)
    (eorg : sexpr) (org : Z) (name : str) (kl : nat) (nl : list (str * nat)) (bmn : str) (os : ospacing)
    (bs : list Z) (op : Z),
  tables_ok t c -> org_ok eorg org ->
  Forall (stmt_ok (lv_lex t)) (back_prog sp0 eorg name kl nl bmn os) ->
  Forall2 (nop_tbl t) nl bs -> bra_tbl t bmn op ->
  let k := Z.of_nat (length nl) in
  org mod 65536 + k + 2 < 65536 ->
  lorom_offset org + k + 2 < (if bank_of org <? 128 then 112 else 80) * 32768 ->
  128 < k + 2 ->
  exists site,
    assemble_source t fs c fname (src_of (back_prog sp0 eorg name kl nl bmn os)) = AExc EStruct site.
Proof. exact branch_backward_rejected. Qed.

Theorem C05_text_forward : forall (t : live) (fs : srcfiles) (c : config) (fname : str) (sp0 : spacing)
    (eorg : sexpr) (org : Z) (name : str) (kl : nat) (nl : list (str * nat)) (bmn : str) (os : ospacing)
    (bs : list Z) (op : Z),
  tables_ok t c -> org_ok eorg org ->
  Forall (stmt_ok (lv_lex t)) (fwd_prog sp0 eorg name kl nl bmn os) ->
  Forall2 (nop_tbl t) nl bs -> bra_tbl t bmn op ->
  let k := Z.of_nat (length nl) in
  org mod 65536 + k + 2 < 65536 ->
  lorom_offset org + k + 2 < (if bank_of org <? 128 then 112 else 80) * 32768 ->
  k <= 127 ->
  exists o fin,
    assemble_source t fs c fname (src_of (fwd_prog sp0 eorg name kl nl bmn os)) = AOk o fin /\
    o_blocks o = [([op; k mod 256] ++ bs, lorom_offset org)] /\ o_labels o = [(name, org + 2 + k)].
Proof. exact branch_forward. Qed.

Theorem C05_text_forward_rejected : forall (t : live) (fs : srcfiles) (c : config) (fname : str) (sp0 : spacing)
    (eorg : sexpr) (org : Z) (name : str) (kl : nat) (nl : list (str * nat)) (bmn : str) (os : ospacing)
    (bs : list Z) (op : Z),
  tables_ok t c -> org_ok eorg org ->
  Forall (stmt_ok (lv_lex t)) (fwd_prog sp0 eorg name kl nl bmn os) ->
  Forall2 (nop_tbl t) nl bs -> bra_tbl t bmn op ->
  let k := Z.of_nat (length nl) in
  org mod 65536 + k + 2 < 65536 ->
  lorom_offset org + k + 2 < (if bank_of org <? 128 then 112 else 80) * 32768 ->
  127 < k ->
  exists site,
    assemble_source t fs c fname (src_of (fwd_prog sp0 eorg name kl nl bmn os)) = AExc EStruct site.
Proof. exact branch_forward_rejected. Qed.

(** the failing run at node level (one item cannot be emitted) *)
Theorem C05_engine_fail : forall (w : world) (low : bus) (m : mapping),
  covers low m -> mask_ok m -> m_writable m = false ->
  forall (name : str) (L : Z) (ri : rstate) (s0 : scope),
  Good w low ri -> r_reloc ri = at_ low 0 -> r_scopes ri = [s0] ->
  s_parent s0 = None /\ s_code s0 = [] /\ s_labels s0 = [] /\ s_kind s0 = SPlain ->
  forall (xo : expr) (fi : token) (org : Z),
  in_window m org -> m_first m <= bank_of org <= m_last m ->
  (forall r, eval_raw w r xo = Ok org) ->
  forall X1 X2 : list item,
  L = A m (spec_offset m org + total X1) ->
  Forall (item_sz w) X1 -> Forall (item_sz w) X2 ->
  spec_offset m org + total X1 + total X2 < rsize m ->
  forall (G : list item) (bad : item) (R : list item) (k : errk),
  items_ok w low m name L X1 (spec_offset m org) -> X2 = G ++ bad :: R ->
  items_ok w low m name L G (spec_offset m org + total X1) ->
  (forall r, Good w low r -> root_has name r L ->
             r_reloc r = at_ low (A m (spec_offset m org + total X1 + total G)) ->
             r_pc r = spec_offset m org + total X1 + total G -> node_emit w r (it_n bad) = Err k) ->
  assemble_nodes w ri (NCodePos xo fi :: map it_n X1 ++ NLabel name :: map it_n X2) = Err k.
Proof. exact engine_fail2. Qed.

(** Non-vacuity: "*=0x8000 / loop: / nop / NOP / BrA  loop" -> EA EA 80 FC, from the theorem; the real
    assembler gives the same block, and raises struct.error at k = 127 (backward) / 128 (forward). *)
Example C05_text_nonvacuous : exists o fin,
  assemble_source demo_live3 no_srcfiles demo_cfg [109] (src_of p_back) = AOk o fin /\
  o_blocks o = [([234; 234; 128; 252], 0)] /\ o_labels o = [(n_loop, 32768)].
Proof. exact demo_t2_proved. Qed.

Print Assumptions C05_text_backward.
Print Assumptions C05_text_backward_rejected.
Print Assumptions C05_text_forward.
Print Assumptions C05_text_forward_rejected.
Print Assumptions C05_engine_fail.
Print Assumptions C05_text_nonvacuous.
