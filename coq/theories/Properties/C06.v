(** C06 — Expressions evaluate to their conventional integer value.
    Statements only; each is closed by [exact] of a lemma from Proofs/ExprProofs.v.

    Reading guide.  [sexpr], [eval], [wf], [flat], [postfix], [render] are the independent
    specification (Spec/ExprSem.v): [eval] is the value of a tree over unbounded integers, [wf]
    says that a tree is the conventional reading of its own token list [flat e] (prefix operators
    tightest, then [*], then [+ -], then [<< >>], then [&], then [|], left to right, parentheses
    overriding).  [shunting_yard], [eval_rpn], [eval_expression], [eval_number] are the model of
    a816/parse/ast/expression.py (Model/Expr.v).  All statements quantify over every tree, every
    symbol table and every natural number: induction, not enumeration. *)
From Coq Require Import ZArith NArith List.
From A816 Require Import Spec.ExprSem Model.Expr Proofs.ExprProofs Proofs.ExprUnique.
Import ListNotations.
Open Scope Z_scope.

(** Infix -> postfix conversion is correct for every conventionally-read tree, for ANY precedence
    table that satisfies the decidable condition [prec_compatible] (instantiated on the live
    OPERATOR_PRECEDENCE on every run). *)
Theorem C06_sy : forall (prec : prectab) (e : sexpr),
  prec_compatible prec = true -> wf e -> shunting_yard prec (flat e) = Ok (postfix e).
Proof. exact shunting_yard_correct. Qed.

(** Postfix evaluation computes the tree's value; when the tree has no value, the same (first, in
    left-to-right order) error. *)
Theorem C06_rpn : forall (ev : env) (e : sexpr), eval_rpn ev (postfix e) [] = eval ev e.
Proof. exact eval_rpn_postfix. Qed.

(** The evaluator, on the token list of any expression, returns the conventional value. *)
Theorem C06_value : forall (prec : prectab) (ev : env) (e : sexpr),
  prec_compatible prec = true -> wf e -> eval_expression prec ev (flat e) = eval ev e.
Proof. exact eval_expression_correct. Qed.

(** Literals: decimal, [0x] with digits in either letter case (any mixture, leading zeros), [0b]. *)
Theorem C06_number : forall (f : numfmt) (n : N), eval_number (render f n) = Ok (Z.of_N n).
Proof. exact eval_number_render. Qed.
Theorem C06_number_Z : forall (f : numfmt) (z : Z), 0 <= z -> eval_number (render f (Z.to_N z)) = Ok z.
Proof. exact eval_number_render_Z. Qed.

(** Every token list of the (ambiguous) infix grammar - [flat t] for an arbitrary tree [t], which is
    what the recursive descent of the parser produces - has a conventional reading ... *)
Theorem C06_reading_exists : forall t : sexpr, exists e : sexpr, wf e /\ flat e = flat t.
Proof. exact reading_exists. Qed.
(** ... and only one ([skel] forgets only how a literal's characters were described), so the
    conventional value of a token list is well defined. *)
Theorem C06_unique_reading : forall e1 e2 : sexpr, wf e1 -> wf e2 -> flat e1 = flat e2 -> skel e1 = skel e2.
Proof. exact flat_inj. Qed.
Theorem C06_unique_value : forall (ev : env) (e1 e2 : sexpr),
  wf e1 -> wf e2 -> flat e1 = flat e2 -> eval ev e1 = eval ev e2.
Proof. exact unique_value. Qed.

(** The boolean used by the run-time oracle decides [wf]. *)
Theorem C06_wfb : forall e : sexpr, wfb e = true <-> wf e.
Proof. exact wfb_wf. Qed.

(** Non-vacuity: the table condition is satisfiable (by the table of the pinned commit), and the
    hypotheses hold on concrete trees with every operator, nested prefix operators and a literal in
    each base. *)
Theorem C06_compat_reference : prec_compatible reference_prec = true.
Proof. exact reference_prec_compatible. Qed.

Example C06_nonvacuous :
  let ev : env := fun s => if str_eqb s [97] then Ok (-3) else Err ESymbol in
  (* 1 | 2 & ~-a << 0x9 - 0b1 * 7 + (8 >> 1)   with a = -3 *)
  let e := Bin OOr (Num FDec 1)
             (Bin OAnd (Num FDec 2)
                (Bin OShl (Un ONot (Un ONeg (Id [97])))
                   (Bin OAdd (Bin OSub (Num (FHex 0 []) 9) (Bin OMul (Num (FBin 0) 1) (Num FDec 7)))
                             (Par (Bin OShr (Num FDec 8) (Num FDec 1)))))) in
  wf e /\ eval ev e = Ok 1 /\ eval_expression reference_prec ev (flat e) = Ok 1 /\
  eval ev (Bin OSub (Bin OSub (Num FDec 10) (Num FDec 4)) (Num FDec 3)) = Ok 3 /\
  eval ev (Un ONot (Num (FHex 0 [true]) 255)) = Ok 0.
Proof. cbv zeta. split; [apply wfb_wf; reflexivity|]. repeat split; vm_compute; reflexivity. Qed.
