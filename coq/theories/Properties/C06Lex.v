(** C06, text level — statements only (each closed by [exact <lemma>]; lemmas in Proofs/ExprLex.v, ExprLexParse.v).

    "Literals are decimal, 0x hexadecimal in either letter case and 0b binary, identifiers denote
    their symbol's value, and spacing does not change the result": an expression tree written out
    as text with ARBITRARY spacing ([text_of sp e], Proofs/ExprLex.v) is lexed by
    Scanner(lex_expression) into its token sequence, parsed by _parse_expression into its flat node
    list, and evaluated to the value of the tree.

    Class of trees: [lexable e] = every identifier of [e] is [ident_ok] (a letter or '_', then
    letters/digits/'_', optionally ONE '.' followed by letters/digits/'_'); every literal
    [render f n] (decimal; 0x + any zero padding + hex digits in any mix of cases; 0b + any zero
    padding + binary digits); unary - ~; binary + - * & | << >>; parentheses; any tree shape.
    [sp i] = number of ' ' before the i-th token, [sp (size e)] = number of trailing spaces. *)
From Coq Require Import ZArith NArith List Bool.
From A816 Require Import Spec.ExprSem Model.Expr Model.Assemble Proofs.ExprProofs
  Proofs.ExprLex Proofs.ExprLexParse.
Import ListNotations.
Open Scope Z_scope.

(** 2. the scanner returns the tokens of [e] (type and value), then EOF -- independently of [sp] *)
Theorem C06_lex_tokens : forall (file : str) (sp : spacing) (e : sexpr), lexable e ->
  exists (toks : list token) (eof : token) (lines : list str),
    scan_expression file (text_of sp e) = ScanOk (toks ++ [eof]) lines /\
    map tv toks = toks_of e /\ tv eof = (T_EOF, []).
Proof. exact lex_tokens. Qed.

(** 2'. the same at the level of token sequences: any sequence of well-formed tokens in which no
    NUMBER/IDENTIFIER directly follows a NUMBER/IDENTIFIER (grammatical or not) *)
Theorem C06_lex_join : forall (file : str) (sp : spacing) (l : list tk), seq_ok false l -> l <> [] ->
  exists (toks : list token) (eof : token) (lines : list str),
    scan_expression file (join sp 0 l) = ScanOk (toks ++ [eof]) lines /\
    map tv toks = l /\ tv eof = (T_EOF, []).
Proof. exact lex_join. Qed.

Theorem C06_text_of_join : forall (sp : spacing) (e : sexpr), text_of sp e = join sp 0 (toks_of e).
Proof. exact text_of_join. Qed.

(** 3. the parser turns those tokens (whatever their positions) into [flat e]: node i wraps token i,
    and the list is [flat e] once the positions are dropped ([flat] builds position-less tokens) *)
Theorem C06_lex_parse : forall (e : sexpr) (toks : list token) (eof : token),
  map tv toks = toks_of e -> t_type eof = T_EOF ->
  exists r : expr,
    parse_expression_ep (parse_fuel (length toks + 1)) (toks ++ [eof]) = POk r /\
    map en_tok r = toks /\ map en_strip r = flat e.
Proof. exact lex_parse. Qed.

(** eval_expression does not look at token positions *)
Theorem C06_eval_strip : forall (prec : prectab) (ev : env) (l : expr),
  eval_expression prec ev (map en_strip l) = eval_expression prec ev l.
Proof. exact eval_expression_strip. Qed.

(** 4. the value computed from the text is the value of the tree *)
Theorem C06_lex_value : forall (prec : prectab) (ev : env) (sp : spacing) (e : sexpr),
  prec_compatible prec = true -> wf e -> lexable e ->
  eval_expression_str prec ev (text_of sp e) = eval ev e.
Proof. exact lex_value. Qed.

(** 4'. any tree shape: the text of [t] has the value of the conventional reading of its tokens *)
Theorem C06_lex_value_reading : forall (prec : prectab) (ev : env) (sp : spacing) (t e : sexpr),
  prec_compatible prec = true -> lexable t -> wf e -> flat e = flat t ->
  eval_expression_str prec ev (text_of sp t) = eval ev e.
Proof. exact lex_value_reading. Qed.

(** spacing does not change the result *)
Theorem C06_lex_spacing : forall (prec : prectab) (ev : env) (sp1 sp2 : spacing) (e : sexpr),
  prec_compatible prec = true -> wf e -> lexable e ->
  eval_expression_str prec ev (text_of sp1 e) = eval_expression_str prec ev (text_of sp2 e).
Proof. exact lex_value_spacing. Qed.

(** nor do base, zero padding and letter case of the literals ([unfmt] forgets them) *)
Theorem C06_lex_numfmt : forall (prec : prectab) (ev : env) (sp1 sp2 : spacing) (e1 e2 : sexpr),
  prec_compatible prec = true -> wf e1 -> lexable e1 -> wf e2 -> lexable e2 -> unfmt e1 = unfmt e2 ->
  eval_expression_str prec ev (text_of sp1 e1) = eval_expression_str prec ev (text_of sp2 e2).
Proof. exact lex_value_numfmt. Qed.

(** Non-vacuity: a tree inside the class, its text under two spacings, the value computed by the
    model pipeline (vm_compute) and by the theorem. *)
Definition ev0 : env := fun s => if str_eqb s [97;46;98;49] then Ok 3 else if str_eqb s [95;120] then Ok 5 else Err ESymbol.

Example ex1_lexable : lexable ex1.
Proof.
  cbn [ex1 lexable]. repeat split.
  - apply (ident_dot 97 [] [98;49]); [reflexivity|constructor|repeat constructor].
  - apply (ident_plain 95 [120]); [reflexivity|repeat constructor].
Qed.
Example ex1_wf : wf ex1.
Proof. apply wfb_wf. vm_compute. reflexivity. Qed.
Example ex1_value_computed :
  eval_expression_str reference_prec ev0 (text_of (fun i => (i * 7 mod 4)%nat) ex1) = Ok 10 /\
  eval_expression_str reference_prec ev0 (text_of (fun _ => 0%nat) ex1) = Ok 10 /\
  eval ev0 ex1 = Ok 10.
Proof. vm_compute. repeat split. Qed.
Example ex1_value_proved : forall sp, eval_expression_str reference_prec ev0 (text_of sp ex1) = Ok 10.
Proof.
  intros sp. rewrite (C06_lex_value reference_prec ev0 sp ex1 reference_prec_compatible ex1_wf ex1_lexable).
  vm_compute. reflexivity.
Qed.

(** The side conditions are needed (computed on the model; [None] = ScannerException):
    a tab is not skipped; "1 2" and "05" are two NUMBERs; "0b2" splits after "0b"; "0o17" is ONE
    NUMBER token that eval_number rejects; "a:" is a LABEL; "a.b.c" stops after the second part and
    ".c" is invalid input; "1/2" lexes ('/' is an OPERATOR character) although '/' has no meaning. *)
Example side_conditions :
  scan_tv [49;9;43;50] = None /\
  scan_tv [49;32;50] = Some [(T_NUMBER,[49]); (T_NUMBER,[50]); (T_EOF,[])] /\
  scan_tv [48;53] = Some [(T_NUMBER,[48]); (T_NUMBER,[53]); (T_EOF,[])] /\
  scan_tv [48;98;50] = Some [(T_NUMBER,[48;98]); (T_NUMBER,[50]); (T_EOF,[])] /\
  scan_tv [48;111;49;55] = Some [(T_NUMBER,[48;111;49;55]); (T_EOF,[])] /\
  eval_number [48;111;49;55] = Err EValue /\
  scan_tv [97;58] = Some [(T_LABEL,[97]); (T_EOF,[])] /\
  scan_tv [97;46;98;46;99] = None /\
  scan_tv [49;47;50] = Some [(T_NUMBER,[49]); (T_OPERATOR,[47]); (T_NUMBER,[50]); (T_EOF,[])] /\
  eval_expression_str reference_prec ev0 [49;47;50] = Err EKey.
Proof. vm_compute. repeat split. Qed.

Print Assumptions C06_lex_tokens.
Print Assumptions C06_lex_join.
Print Assumptions C06_lex_parse.
Print Assumptions C06_eval_strip.
Print Assumptions C06_lex_value.
Print Assumptions C06_lex_value_reading.
Print Assumptions C06_lex_spacing.
Print Assumptions C06_lex_numfmt.
Print Assumptions ex1_value_proved.
