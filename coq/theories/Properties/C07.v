(** C07 — Data directives emit the exact little-endian bytes of their values. *)
From Coq Require Import ZArith List.
From A816 Require Import Model.Program Proofs.NodeProofs Proofs.ProgramProofs.
Open Scope Z_scope.

(** .db/.dw/.dl/.pointer: the value truncated to 1, 2, 3, 3 bytes, least significant byte first,
    for every integer (negative values come out in two's complement because [mod] is floored). *)
Theorem C07_data_bytes : forall k v,
  data_bytes k v = le_bytes (dkind_nat k) (v mod 256 ^ Z.of_nat (dkind_nat k)) /\
  Z.of_nat (length (data_bytes k v)) = dkind_len k.
Proof. exact data_bytes_spec. Qed.

Theorem C07_data_decode : forall k v, le_decode (data_bytes k v) = v mod 256 ^ Z.of_nat (dkind_nat k).
Proof. exact data_bytes_decode. Qed.

Theorem C07_le_length : forall n v, length (le_bytes n v) = n.
Proof. exact le_bytes_length. Qed.

(** Each directive occupies exactly the emitted number of bytes in the address layout (every node
    kind, evaluated in one resolver state; across the passes the phase check of C02 takes over). *)
Theorem C07_data_layout : forall w r n a r1 a1 r2 bs,
  is_position n = false ->
  pc_after w r n a = Ok (r1, a1) -> node_emit w r n = Ok (r2, bs) ->
  match bs with
  | [] => a1 = a \/ addr_plus a 0 = Ok a1
  | _ => addr_plus a (Z.of_nat (length bs)) = Ok a1
  end.
Proof. exact node_size_agree. Qed.

(** .ascii: the characters below 128, in order. *)
Theorem C07_ascii : forall w r text,
  node_emit w r (NAscii text) = Ok (r, filter (fun c => c <? 128) text).
Proof. intros; reflexivity. Qed.

(** .incbin: the file's bytes verbatim; the start symbol is the address of the first byte and the
    size symbol the length. *)
Theorem C07_incbin : forall w r path content a r1 a1 s,
  nth_error (r_scopes r) (r_cur r) = Some s ->
  pc_after w r (NBinary path content) a = Ok (r1, a1) ->
  node_emit w r (NBinary path content) = Ok (r, content) /\
  addr_plus a (Z.of_nat (length content)) = Ok a1 /\
  exists s1, nth_error (r_scopes r1) (r_cur r) = Some s1 /\
    dict_get (s_labels s1) (symbol_base path) = Some (a_val a) /\
    dict_get (s_symbols s1) (symbol_base path ++ size_suffix) = Some (Z.of_nat (length content)).
Proof. intros w r path content a r1 a1 s Hn Hp. split; [reflexivity|]. exact (incbin_binding w r path content a r1 a1 s Hn Hp). Qed.

Example C07_nonvacuous :
  data_bytes D_dl (-2) = [254; 255; 255] /\ data_bytes D_dw 74565 = [69; 35] /\ data_bytes D_db 511 = [255].
Proof. repeat split; reflexivity. Qed.
