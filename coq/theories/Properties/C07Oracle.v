(** C07 — the run-time oracle clause [spec_ok (SData ...)] of Oracle/Coreo.v against the MODEL: the bytes the oracle expects
    for a list of data items are the bytes the model emits for the corresponding nodes, their number is what the model's layout
    pass advances by, and the end address lies where the clause looks for the end label (built-in buses, run inside the bank).
    Statements only; proofs in Proofs/DataOracle.v.  Not covered: the tail values (they are [C07_oracle_value_bytes D_dl]) and
    the link between [lookup_label] and the model's label map. *)
From Coq Require Import ZArith List Bool Arith.
From A816 Require Import Model.Program Spec.BusLaws Oracle.Coreo Proofs.BusProofs Proofs.DataOracle.

Theorem C07_oracle_value_bytes :
  forall (k : dkind) (v : Z),
  le_spec (kbytes k) (v mod 256 ^ Z.of_nat (kbytes k)) = data_bytes k v.
Proof. exact @data_oracle_value_bytes. Qed.

Theorem C07_oracle_item_bytes :
  forall i : item, item_bytes i = model_item_bytes i.
Proof. exact @data_oracle_item_bytes. Qed.

Theorem C07_oracle_items_bytes :
  forall (w : world) (r : rstate) (lit : Z -> expr) (fi : token) (path : str)
  (items : list item),
  (forall v : Z, get_value w r (lit v) = Ok v) ->
  let ns := flat_map (nodes_of_item lit fi path) items in
  emit_all w r ns = Ok (r, flat_map item_bytes items) /\
  (forall (r0 : rstate) (a : addr),
  (do x <- layout w r0 ns a; Ok (snd x)) = plus_all a (map node_len ns)) /\
  fold_right Z.add 0 (map node_len ns) = Z.of_nat (length (flat_map item_bytes items)).
Proof. exact @data_oracle_items_bytes. Qed.

Theorem C07_oracle_end_label :
  forall (high : bool) (org off len : Z),
  rom_offset high org = Some off ->
  0 <= len ->
  org mod 65536 + len < 65536 ->
  rom_offset high (org + len) = Some (off + len) /\ same_range high org (org + len) = true.
Proof. exact @data_oracle_end_label. Qed.

Theorem C07_oracle_end_label_items :
  forall (high : bool) (org off : Z) (items : list item),
  rom_offset high org = Some off ->
  let len := Z.of_nat (length (flat_map item_bytes items)) in
  org mod 65536 + len < 65536 ->
  match rom_offset high (org + len) with
  | Some p => (p =? off + len) && same_range high org (org + len)
  | None => false
  end = true.
Proof. exact @data_oracle_end_label_items. Qed.

Print Assumptions C07_oracle_value_bytes.
Print Assumptions C07_oracle_item_bytes.
Print Assumptions C07_oracle_items_bytes.
Print Assumptions C07_oracle_end_label.
Print Assumptions C07_oracle_end_label_items.
