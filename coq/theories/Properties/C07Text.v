(** C07, source-text level — statements only (each closed by [exact]; lemmas in Proofs/DataText*.v).


    "Data directives emit exactly the little-endian truncation of their values at the right file
    offset", for the SOURCE TEXT

        *=<origin>
        .<db|dw|dl|pointer><item>,<item>,...,<item>

    = [data_src sp0 eorg kw it1 rest]: "*=" ++ text_of sp0 eorg ++ "\n" ++ "." ++ kw ++
      text_of sp1 e1 ++ "," ++ text_of sp2 e2 ++ ... ++ "\n", every expression written with arbitrary
      spacing ([text_of], Properties/C06Lex.v) and literals in any base / letter case,
    through the whole model pipeline [assemble_source] (Scanner(lex_initial).scan, parse_initial,
    code generation, label pass, symbol pass, emission).

    Expression class ([dlex]): what the statement scanner lexes -- literals, unary '-', binary
    + - * & << >>, parentheses.  NOT '|', '~', '/' (lex_initial raises "Invalid Input" on them: the
    real assembler rejects ".dl 1|2") and no identifiers (closed expressions; no hypothesis on the
    mnemonic table is needed).  [wf] = written with conventional precedence.
    Values: any integers ([eval] may be negative or wider than the field: truncation). *)
From Coq Require Import ZArith NArith List Bool.
From A816 Require Import Spec.ExprSem Spec.BusLaws Model.Assemble Proofs.BusProofs Proofs.NodeProofs
  Proofs.ExprProofs Proofs.ExprLex Proofs.ExprLexParse
  Proofs.DataTextScan Proofs.DataTextParse Proofs.DataTextGen Proofs.DataText.
Import ListNotations.
Open Scope Z_scope.

(** S1 -- scanner: STAR_EQ, origin tokens, KEYWORD, item tokens separated by COMMA, EOF *)
Theorem C07_text_scan : forall (lx : lexicon) (file : str) (sp0 : spacing) (eorg : sexpr) (kw : str)
    (it1 : item) (rest : list item),
  dlex eorg -> dlex (snd it1) -> Forall (fun se => dlex (snd se)) rest ->
  all_in kw_chars kw -> mem_str kw (lx_keywords lx) = true ->
  exists (toks : list token) (eof : token) (lines : list str),
    scan lx file (data_src sp0 eorg kw it1 rest) = ScanOk (toks ++ [eof]) lines /\
    map tv toks = data_toks eorg kw it1 rest /\ tv eof = (T_EOF, []).
Proof. exact scan_data_src. Qed.

(** S2 -- parser: [*= origin] and the data directive with its items, as flat node lists *)
Theorem C07_text_parse : forall (eorg : sexpr) (kw : str) (dk : dkind) (it1 : item) (rest : list item)
    (toks : list token) (eof : token) (incd : nat) (inc : str -> res (list token)),
  map tv toks = data_toks eorg kw it1 rest -> t_type eof = T_EOF -> dkind_of kw = Some dk ->
  exists (rorg r1 : expr) (rrest : list expr) (fi kwt : token),
    parse_program (parse_fuel (length (toks ++ [eof]))) incd inc (toks ++ [eof])
      = POk [AStarEq rorg fi; AData dk (r1 :: rrest) kwt] /\
    map en_strip rorg = flat eorg /\ map en_strip r1 = flat (snd it1) /\
    Forall2 (fun r se => map en_strip r = flat (snd se)) rrest rest.
Proof. exact parse_data_toks. Qed.

(** S3 -- code generation and the passes: one block, at the offset of the origin, no labels.
    [ri] is the resolver the assembly starts from; the origin lies in the window of a ROM range
    [m] of the bus the resolver consults, and the address after the block is still in the range. *)
Theorem C07_text_passes : forall (w : world) (c : config) (low : bus) (m : mapping) (ri : rstate)
    (xo : expr) (fi : token) (org : Z) (k : dkind) (x1 : expr) (xs' : list expr) (fi' : token) (vs : list Z),
  covers low m -> mask_ok m -> m_writable m = false ->
  in_window m org -> m_first m <= bank_of org <= m_last m ->
  initial_resolver w c = Ok ri -> start_ok w low ri ->
  eval_raw w ri xo = Ok org ->
  Forall2 (fun x v => eval_raw w ri x = Ok v) (x1 :: xs') vs ->
  spec_offset m org + dkind_len k * Z.of_nat (length (x1 :: xs')) < rsize m ->
  exists o, assemble_program w c [AStarEq xo fi; AData k (x1 :: xs') fi'] = AOk o (o_final o) /\
            o_blocks o = [(flat_map (data_bytes k) vs, spec_offset m org)] /\
            o_labels o = [].
Proof. exact assemble_program_data. Qed.

Theorem C07_text_initial_resolver : forall (w : world) (c : config) (low : bus) (p : option Z),
  w_builtin w LowRom = Ok low -> addr_physical low 0 = Ok p ->
  match cf_rom c with Some rt => w_builtin w rt = Ok low | None => True end ->
  exists ri, initial_resolver w c = Ok ri /\ start_ok w low ri.
Proof. exact initial_resolver_ok. Qed.

(** S4 -- the whole pipeline, generic ROM range *)
Theorem C07_text : forall (t : live) (fs : srcfiles) (c : config) (fname : str) (low : bus) (m : mapping)
    (p : option Z) (sp0 : spacing) (eorg : sexpr) (org : Z) (kw : str) (dk : dkind)
    (it1 : item) (rest : list item) (vs : list Z),
  live_builtin t LowRom = Ok low -> addr_physical low 0 = Ok p ->
  match cf_rom c with Some rt => live_builtin t rt = Ok low | None => True end ->
  prec_compatible (lv_prec t) = true ->
  all_in kw_chars kw -> mem_str kw (lx_keywords (lv_lex t)) = true -> dkind_of kw = Some dk ->
  covers low m -> mask_ok m -> m_writable m = false ->
  in_window m org -> m_first m <= bank_of org <= m_last m ->
  dlex eorg -> wf eorg -> eval noenv eorg = Ok org ->
  Forall item_ok (it1 :: rest) ->
  Forall2 (fun se v => eval noenv (snd se) = Ok v) (it1 :: rest) vs ->
  spec_offset m org + dkind_len dk * Z.of_nat (length (it1 :: rest)) < rsize m ->
  exists o fin,
    assemble_source t fs c fname (data_src sp0 eorg kw it1 rest) = AOk o fin /\
    o_blocks o = [(flat_map (data_bytes dk) vs, spec_offset m org)] /\
    o_labels o = [].
Proof. exact data_text. Qed.

(** S4 -- on the built-in LoROM bus (primary banks 0x00-0x6F and their mirrors 0x80-0xCF) *)
Theorem C07_text_lorom : forall (t : live) (fs : srcfiles) (c : config) (fname : str)
    (sp0 : spacing) (eorg : sexpr) (org : Z) (kw : str) (dk : dkind) (it1 : item) (rest : list item) (vs : list Z),
  bus_agree_b (lv_low t) lorom = true -> low_rom_config t c ->
  prec_compatible (lv_prec t) = true ->
  all_in kw_chars kw -> mem_str kw (lx_keywords (lv_lex t)) = true -> dkind_of kw = Some dk ->
  (0 <= bank_of org <= 111 \/ 128 <= bank_of org <= 207) -> 32768 <= org mod 65536 ->
  dlex eorg -> wf eorg -> eval noenv eorg = Ok org ->
  Forall item_ok (it1 :: rest) ->
  Forall2 (fun se v => eval noenv (snd se) = Ok v) (it1 :: rest) vs ->
  lorom_offset org + dkind_len dk * Z.of_nat (length (it1 :: rest))
    < (if bank_of org <? 128 then 112 else 80) * 32768 ->
  exists o fin,
    assemble_source t fs c fname (data_src sp0 eorg kw it1 rest) = AOk o fin /\
    o_blocks o = [(flat_map (data_bytes dk) vs, lorom_offset org)] /\
    o_labels o = [].
Proof. exact data_text_lorom. Qed.

(** the bytes are the little-endian truncations (composition with the node-level C07 lemma) *)
Theorem C07_text_bytes : forall (dk : dkind) (vs : list Z),
  flat_map (data_bytes dk) vs
  = flat_map (fun v => le_bytes (dkind_nat dk) (v mod 256 ^ Z.of_nat (dkind_nat dk))) vs.
Proof.
  intros dk vs. induction vs as [|v vs IH]; cbn [flat_map]; [reflexivity|].
  rewrite IH. f_equal. exact (proj1 (data_bytes_spec dk v)).
Qed.

(** spacing and the base / padding / letter case of the literals do not change the output *)
Theorem C07_text_layout : forall (t : live) (fs : srcfiles) (c : config) (fname kw : str) (dk : dkind)
    (org : Z) (vs : list Z) (sp0 : spacing) (eorg : sexpr) (it1 : item) (rest : list item)
    (sp0' : spacing) (eorg' : sexpr) (it1' : item) (rest' : list item),
  bus_agree_b (lv_low t) lorom = true -> low_rom_config t c ->
  prec_compatible (lv_prec t) = true ->
  all_in kw_chars kw -> mem_str kw (lx_keywords (lv_lex t)) = true -> dkind_of kw = Some dk ->
  (0 <= bank_of org <= 111 \/ 128 <= bank_of org <= 207) -> 32768 <= org mod 65536 ->
  dlex eorg -> wf eorg -> eval noenv eorg = Ok org ->
  Forall item_ok (it1 :: rest) ->
  Forall2 (fun se v => eval noenv (snd se) = Ok v) (it1 :: rest) vs ->
  lorom_offset org + dkind_len dk * Z.of_nat (length (it1 :: rest))
    < (if bank_of org <? 128 then 112 else 80) * 32768 ->
  dlex eorg' -> wf eorg' -> unfmt eorg = unfmt eorg' ->
  Forall item_ok (it1' :: rest') -> same_items (it1 :: rest) (it1' :: rest') ->
  exists o fin o' fin',
    assemble_source t fs c fname (data_src sp0 eorg kw it1 rest) = AOk o fin /\
    assemble_source t fs c fname (data_src sp0' eorg' kw it1' rest') = AOk o' fin' /\
    o_blocks o' = o_blocks o /\ o_labels o' = o_labels o /\
    o_blocks o = [(flat_map (data_bytes dk) vs, lorom_offset org)].
Proof. exact data_text_lorom_layout. Qed.

(** Non-vacuity (Proofs/DataText.v): "*= 0x018000\n.dw0x12Ab , -2,( 69999+0b01)<<1 \n" on a concrete
    table record; computed by the model and obtained from the theorem; the real assembler writes the
    same block. *)
Example C07_text_nonvacuous : exists o fin,
  assemble_source demo_live no_srcfiles demo_cfg [109] demo_src = AOk o fin /\
  o_blocks o = [([171; 18; 254; 255; 224; 34], 32768)] /\ o_labels o = [].
Proof. exact demo_proved. Qed.

Print Assumptions C07_text_scan.
Print Assumptions C07_text_parse.
Print Assumptions C07_text_passes.
Print Assumptions C07_text_initial_resolver.
Print Assumptions C07_text.
Print Assumptions C07_text_lorom.
Print Assumptions C07_text_bytes.
Print Assumptions C07_text_layout.
Print Assumptions C07_text_nonvacuous.
