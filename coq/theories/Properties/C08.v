(** C08 — Names resolve lexically; scopes isolate and named scopes export. *)
From Coq Require Import ZArith List.
From A816 Require Import Spec.EnvSem Proofs.ResolverProofs.
Open Scope Z_scope.

(** Lookup = the binding of the innermost enclosing scope that defines the name, falling back
    outward to the top level; the walk always terminates (fuel = index + 1 suffices). *)
Theorem C08_lookup : forall r name,
  wf_scopes (r_scopes r) -> (r_cur r < length (r_scopes r))%nat ->
  Resolves (r_scopes r) (r_cur r) name (value_for r name) /\ value_for r name <> OutOfFuel.
Proof. exact value_for_total. Qed.
Theorem C08_lookup_unique : forall scopes i name v1 v2,
  Resolves scopes i name v1 -> Resolves scopes i name v2 -> v1 = v2.
Proof. exact Resolves_fun. Qed.

(** Names defined inside a scope are invisible from every scope it does not enclose (enclosing
    scopes, siblings, their descendants): a definition changes no lookup made from there. *)
Theorem C08_isolated_symbol : forall r name v i q,
  ~ encloses (r_scopes r) (r_cur r) i ->
  value_for (set_cur (add_symbol r name v) i) q = value_for (set_cur r i) q.
Proof. exact add_symbol_isolated. Qed.
Theorem C08_isolated_label : forall r name v i q,
  ~ encloses (r_scopes r) (r_cur r) i ->
  value_for (set_cur (add_label r name v) i) q = value_for (set_cur r i) q.
Proof. exact add_label_isolated. Qed.
Theorem C08_isolated_outer : forall scopes j f fuel i name,
  wf_scopes scopes -> (forall s, s_parent (f s) = s_parent s) -> (i < j)%nat ->
  value_for_fuel (list_update scopes j f) fuel i name = value_for_fuel scopes fuel i name.
Proof. exact update_invisible_outer. Qed.
Theorem C08_visible_here : forall r name v s,
  nth_error (r_scopes r) (r_cur r) = Some s -> dict_get (s_code s) name = None ->
  value_for (add_symbol r name v) name = Ok (VInt v).
Proof. exact add_symbol_visible. Qed.

(** Leaving a named scope in a pass makes each of its symbols (labels included) available to the
    enclosing scope as scopename.name with the same value. *)
Theorem C08_export : forall r r' s p name k v,
  nth_error (r_scopes r) (r_cur r) = Some s -> s_parent s = Some p -> s_kind s = SNamed name ->
  (p < r_cur r)%nat -> dict_wf (s_symbols s) -> In (k, v) (s_symbols s) ->
  restore_scope r true = Ok r' ->
  r_cur r' = p /\
  exists ps, nth_error (r_scopes r') p = Some ps /\ dict_get (s_symbols ps) (name ++ dot ++ k) = Some v.
Proof. exact restore_scope_exports. Qed.

(** The scope tree stays well formed under everything the model does to it. *)
Theorem C08_wf_update : forall scopes j f,
  (forall s, s_parent (f s) = s_parent s) -> wf_scopes scopes -> wf_scopes (list_update scopes j f).
Proof. exact wf_update. Qed.
Theorem C08_wf_append : forall scopes cur k,
  (cur < length scopes)%nat -> wf_scopes scopes -> wf_scopes (scopes ++ [new_scope (Some cur) k]).
Proof. exact wf_append. Qed.
Theorem C08_dict_wf : forall (d : dict Z) k v, dict_wf d -> dict_wf (dict_set d k v).
Proof. exact (@dict_set_wf Z). Qed.

(** Positional replay.  Code generation (any program, any nesting of blocks, named scopes, macro
    applications, loops, conditionals, code splices) returns to the scope it started in, keeps
    the scope tree well formed, and produces a node list whose ScopeNode / PopScopeNode moves —
    replayed from the same starting scope using nothing but parent pointers, which is all a pass
    uses — enter each created scope in creation order and come back to the scope that was current
    when it was created: every generated statement is visited, in every pass, in the scope of the
    block that textually encloses it. *)
From A816 Require Import Model.Codegen Proofs.ReplayProofs.
Theorem C08_replay : forall w fuel s b s' ns,
  cg_ok (cg_r s) -> code_gen_fuel w fuel s b = Ok (s', ns) ->
  cg_ok (cg_r s') /\ r_cur (cg_r s') = r_cur (cg_r s) /\
  ext (r_scopes (cg_r s)) (r_scopes (cg_r s')) /\
  forall sc, ext (r_scopes (cg_r s')) sc ->
    replay sc ns (r_cur (cg_r s)) (r_last (cg_r s)) = Some (r_cur (cg_r s), r_last (cg_r s')).
Proof. exact code_gen_replay. Qed.
Theorem C08_replay_initial : forall w r, resolver_init w = Ok r -> cg_ok r.
Proof. exact resolver_init_ok. Qed.
Theorem C08_pass_moves : forall w r n a r' a',
  pc_after w r n a = Ok (r', a') ->
  replay (r_scopes r) [n] (r_cur r) (r_last r) = Some (r_cur r', r_last r') /\ ext (r_scopes r) (r_scopes r').
Proof. exact pass_scope_moves. Qed.

(** Non-interference (the "unrelated insertion" clause).  Insert, anywhere in the node list of a
    program, a definition (a label, or a constant) of a name [z] that no expression of the program
    mentions, directly or through a qualified name [scope.z]: both assemblies fail with the same
    kind of error, or both succeed with the same writer blocks and the same labels up to the
    names derived from [z].  When also no definition of the program is z-derived, the labels
    without the insertion are exactly the labels with it minus what the insertion contributed. *)
From A816 Require Import Model.Program Proofs.NonInterference.
Theorem C08_noninterference : forall w r z d pre post,
  (d = NLabel z \/ exists k, d = NSymConst z k) ->
  exprs_fresh z (pre ++ post) = true ->
  match assemble_nodes w r (pre ++ d :: post), assemble_nodes w r (pre ++ post) with
  | Ok o1, Ok o2 => o_blocks o1 = o_blocks o2 /\ without z (o_labels o1) = without z (o_labels o2)
  | Err j, Err k => j = k
  | OutOfFuel, OutOfFuel => True
  | _, _ => False
  end.
Proof. exact noninterference. Qed.
Theorem C08_noninterference_labels : forall w r z d pre post,
  (d = NLabel z \/ exists k, d = NSymConst z k) ->
  fresh_for z (pre ++ post) = true -> labels_clean z r ->
  match assemble_nodes w r (pre ++ d :: post), assemble_nodes w r (pre ++ post) with
  | Ok o1, Ok o2 => o_blocks o1 = o_blocks o2 /\ o_labels o2 = without z (o_labels o1)
  | Err j, Err k => j = k
  | OutOfFuel, OutOfFuel => True
  | _, _ => False
  end.
Proof. exact noninterference_labels. Qed.
(** [zderived z n] means n = z or n = p.z; the hypotheses are satisfiable and needed
    (Proofs/NonInterference.v, NIExamples: fresh1 / with_y / without_y, not_fresh2 / with_def2). *)
Theorem C08_zderived : forall z n, zderived z n = true <-> n = z \/ exists p, n = p ++ dot ++ z.
Proof. exact zderived_spec. Qed.

(** Consistent renaming.  Rename the name [z] to a fresh name [z'] throughout a node list (every
    definition [z:], [z = e], every identifier [z] or [scope.z] of every expression): the assembly
    fails with the same kind of error or succeeds with the same writer blocks, and the labels are
    the original ones with renamed keys.  [z], [z'] contain no '.'; no name of the list and no key of
    the start state is z'-derived (otherwise the renaming captures: RenExamples in
    Proofs/Renaming.v), and the start state and .incbin names (not renamed) are not z-derived. *)
From A816 Require Import Proofs.RenamingExpr Proofs.Renaming.
Theorem C08_renaming : forall w r z z' ns,
  nodot z = true -> nodot z' = true ->
  ren_fresh z z' ns = true -> state_untouched z z' r = true ->
  match assemble_nodes w r ns, assemble_nodes w r (rename_nodes (ren z z') ns) with
  | Ok o1, Ok o2 => o_blocks o2 = o_blocks o1 /\ o_labels o2 = map_keys (ren z z') (o_labels o1)
  | Err j, Err k => j = k
  | OutOfFuel, OutOfFuel => True
  | _, _ => False
  end.
Proof. exact renaming. Qed.

(** The two relational clauses at PROGRAM level ([assemble_ast] = code generation of the whole
    statement tree + all passes), lifting the node-level theorems through code generation (where
    [.if] conditions, [:=], [.for] bounds and macro arguments are evaluated against the resolver).

    Unrelated insertion: [lins w z prog1 prog2] — prog1 is prog2 with definitions of [z] ([z:],
    [z = literal], [z := literal]) inserted at any positions of the statement tree (top level,
    blocks, named scopes, if/else branches, loop bodies, macro bodies; any depth; any number), and
    no identifier token or spliced name of prog2 is z-derived.  (An insertion inside a code-block
    ARGUMENT of a macro application is the one position not covered.) *)
From A816 Require Import Proofs.NonInterferenceMulti Proofs.NonInterferenceAst.
Theorem C08_noninterference_program : forall w r z prog1 prog2,
  lins w z prog1 prog2 -> prog_fresh z prog2 = true -> code_fresh z r ->
  match assemble_ast w r prog1, assemble_ast w r prog2 with
  | Ok o1, Ok o2 => o_blocks o1 = o_blocks o2 /\ without z (o_labels o1) = without z (o_labels o2)
  | Err j, Err k => j = k
  | OutOfFuel, OutOfFuel => True
  | _, _ => False
  end.
Proof. exact noninterference_ast. Qed.
(** Consistent renaming of [z] to a fresh [z'] throughout the program (definitions, identifiers,
    qualified uses, macro parameters, loop variables, spliced names; macro and scope names are not
    dictionary keys and stay).  Code-block arguments must not mention [z] (partial in that
    respect: a renamed code block is a different stored value; everything else is covered). *)
From A816 Require Import Proofs.RenamingAst.
Theorem C08_renaming_program_partial : forall w r z z' prog,
  nodot z = true -> nodot z' = true ->
  prog_ok (ren z z') (inD z') prog ->
  state_untouched z z' r = true -> code_inv (ren z z') (inD z') r ->
  match assemble_ast w r prog, assemble_ast w r (rename_prog (ren z z') prog) with
  | Ok o1, Ok o2 => o_blocks o2 = o_blocks o1 /\ o_labels o2 = map_keys (ren z z') (o_labels o1)
  | Err j, Err k => j = k
  | OutOfFuel, OutOfFuel => True
  | _, _ => False
  end.
Proof. exact renaming_ast. Qed.

(** The passes never look inside a stored code block (they only test which names are bound to
    one), so the code-block restrictions above can be dropped: insertions may also sit inside
    code-block arguments of macro applications, and a renamed name may occur inside them.  What
    remains about code blocks concerns only blocks ALREADY bound in the start state (none after
    [resolver_init]). *)
From A816 Require Import Proofs.CodeValues Proofs.CodeValuesNI Proofs.CodeValuesRen.
Theorem C08_passes_code_blind : forall w ns r1 r2, code_blind r1 r2 ->
  match assemble_nodes w r1 ns, assemble_nodes w r2 ns with
  | Ok o1, Ok o2 => o_blocks o1 = o_blocks o2 /\ o_labels o1 = o_labels o2 /\ code_blind (o_final o1) (o_final o2)
  | Err j, Err k => j = k
  | OutOfFuel, OutOfFuel => True
  | _, _ => False
  end.
Proof. exact assemble_nodes_code_blind. Qed.
Theorem C08_noninterference_program_full : forall w r z prog1 prog2,
  glins w z prog1 prog2 -> prog_fresh z prog2 = true -> code_fresh z r ->
  match assemble_ast w r prog1, assemble_ast w r prog2 with
  | Ok o1, Ok o2 => o_blocks o1 = o_blocks o2 /\ without z (o_labels o1) = without z (o_labels o2)
  | Err j, Err k => j = k
  | OutOfFuel, OutOfFuel => True
  | _, _ => False
  end.
Proof. exact noninterference_ast_gen. Qed.
Theorem C08_renaming_program : forall w r z z' prog,
  nodot z = true -> nodot z' = true ->
  prog_okg (ren z z') (inD z') prog ->
  state_untouched z z' r = true -> start_code_ok (ren z z') (inD z') r ->
  match assemble_ast w r prog, assemble_ast w r (rename_prog (ren z z') prog) with
  | Ok o1, Ok o2 => o_blocks o2 = o_blocks o1 /\ o_labels o2 = map_keys (ren z z') (o_labels o1)
  | Err j, Err k => j = k
  | OutOfFuel, OutOfFuel => True
  | _, _ => False
  end.
Proof. exact renaming_ast_gen. Qed.

(** "... available to the enclosing scope as scopename.name with the same value, WHETHER IT IS
    REFERENCED BEFORE OR AFTER the scope": end to end on [assemble_nodes], for the node list code
    generation produces for a named scope.  After label resolution — hence throughout emission, which
    never changes a symbol — the enclosing scope holds [s.x] = the run address of the label [x], so
    a data directive or operand naming [s.x] evaluates to it wherever it stands, before or after
    the scope.  ([qsym]: x is not redefined in the scope, s.x not redefined in the parent;
    decidable on the node list.)  The exact extent of "before" for the other kinds of reference is
    pinned by the examples of Proofs/ForwardExport.v: a symbol definition [y = s.x] before the scope
    works for labels and [:=] symbols of the scope, not for its [=] symbols; [y := s.x] before the
    scope never works (evaluated at code generation). *)
From A816 Require Import Proofs.ProgramProofs Proofs.ReplayProofs Proofs.ForwardExport.
Theorem C08_export_before_and_after : forall w r pre b1 b2 post x s c p l l1 l2 scp out,
  let sc := r_scopes r in
  let ns := pre ++ NScope :: b1 ++ NLabel x :: b2 ++ NPop :: post in
  let q := s ++ dot ++ x in
  syms_wf r -> r_cur r = 0%nat ->
  replay sc pre (r_cur r) 0 = Some (p, l) -> c = S l ->
  nth_error sc c = Some scp -> s_parent scp = Some p -> s_kind scp = SNamed s -> (p < c)%nat ->
  replay sc b1 c c = Some (c, l1) -> replay sc b2 c l1 = Some (c, l2) ->
  qsym run_label sc x c b2 c l1 -> qsym run_label sc x c post p l2 ->
  qsym run_symbol sc x c (pre ++ NScope :: b1 ++ NLabel x :: b2) 0 0 ->
  qsym run_symbol sc q p post p l2 ->
  assemble_nodes w r ns = Ok out ->
  exists rB aB lB r' addrs,
    label_run w (set_cur_last r (r_cur r) 0) (pre ++ NScope :: b1) (r_reloc r) = Ok (rB, aB, lB) /\
    resolve_labels w r ns = Ok (r', addrs) /\
    sym_at r' p q = Some (Some (a_val aB)) /\ sym_at (o_final out) p q = Some (Some (a_val aB)).
Proof. exact label_exported_at_emission. Qed.
Theorem C08_emission_keeps_symbols : forall w ns st addrs st', emit_loop w st ns addrs = Ok st' ->
  forall i q, sym_at (e_r st') i q = sym_at (e_r st) i q.
Proof. exact emit_keeps_symbols. Qed.
