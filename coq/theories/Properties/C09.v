(** C09 — Macro application equals the body inlined with parameters bound. *)
From Coq Require Import ZArith List.
From A816 Require Import Model.Codegen Proofs.CodegenProofs.
Open Scope Z_scope.

(** An application whose arguments evaluate at the call site produces exactly what the fresh
    block [{ p1 := v1 ... pn := vn  body }] produces there: same nodes, same resolver state (the
    block gets its own scope, so labels of the body are local to this application). *)
Theorem C09_inline : forall w f s name args fi fi' fi'' md bound pvs lits,
  dict_get (cg_macros s) name = Some md ->
  eval_macro_args w (cg_r s) (md_params md) args = Ok bound ->
  int_values bound = Some pvs ->
  closed_literals w pvs lits ->
  gen_one w (code_gen_fuel w (S f)) s (AMacroApply name args fi) =
  gen_one w (code_gen_fuel w (S f)) s (ACompound (assigns pvs lits fi'' ++ md_body md) fi').
Proof. exact macro_application_inlined. Qed.

Theorem C09_undefined_macro : forall w gen s name args fi,
  dict_get (cg_macros s) name = None -> gen_one w gen s (AMacroApply name args fi) = Err EKey.
Proof. exact macro_undefined. Qed.

Theorem C09_too_few_arguments : forall w gen s name args fi md,
  dict_get (cg_macros s) name = Some md -> (length args < length (md_params md))%nat ->
  is_ok (gen_one w gen s (AMacroApply name args fi)) = false.
Proof. exact macro_too_few_arguments. Qed.

(** An argument that cannot be evaluated at expansion time (it mentions a label) is bound when the
    passes run, to its value in the CALLER's scope (the application scope's parent), so arguments
    may refer to labels defined later and are never captured by the macro's own names. *)
From A816 Require Import Model.Nodes.
Theorem C09_deferred_argument : forall w r p e a s parent,
  nth_error (r_scopes r) (r_cur r) = Some s -> s_parent s = Some parent ->
  pc_after w r (NSymbol p e true) a = (do v <- eval_raw w (set_cur r parent) e; Ok (add_symbol r p v, a)).
Proof. intros w r p e a s parent Hn Hp. cbn [pc_after]. rewrite Hn, Hp. reflexivity. Qed.

(** A code-block argument: where the parameter is spliced ({{p}}), the statements of the argument
    block are generated in place (no scope of their own), exactly as if they were written there;
    splicing a name that is not bound to a code block fails. *)
Theorem C09_code_splice : forall w gen s name fi body bfi fi',
  value_for (cg_r s) name = Ok (VCode body bfi) ->
  gen_one w gen s (ACodeLookup name fi) = gen_one w gen s (ABlock body fi').
Proof. intros w gen s name fi body bfi fi' H. cbn [gen_one]. rewrite H. reflexivity. Qed.
Theorem C09_code_splice_not_code : forall w gen s name fi v,
  value_for (cg_r s) name = Ok (VInt v) -> gen_one w gen s (ACodeLookup name fi) = Err ENode.
Proof. intros w gen s name fi v H. cbn [gen_one]. rewrite H. reflexivity. Qed.

(** Deferred arguments against the inlined block.  With evaluated ([PInt]) and deferred ([PDef])
    arguments in any mix, the application generates exactly the nodes of the hand-written block
    [{ p_i := v_i / p_j = e_j ...  body }], except that the deferred parameters' SymbolNodes look
    their expression up from the caller's scope ([in_parent = true]) — never captured — where the
    block's look it up from the block's own scope. *)
From A816 Require Import Model.Program Spec.EnvSem Proofs.DeferredArgs.
Theorem C09_inline_deferred : forall w f s name args fi fi' fi'' md pbs,
  dict_get (cg_macros s) name = Some md ->
  eval_macro_args w (cg_r s) (md_params md) args = Ok (bound_of pbs) ->
  lits_closed w pbs ->
  match gen_one w (code_gen_fuel w (S f)) s (ACompound (stmts_of pbs fi'' ++ md_body md) fi') with
  | Ok x => exists body_ns,
      snd x = NScope :: def_nodes false pbs ++ body_ns ++ [NPop] /\
      gen_one w (code_gen_fuel w (S f)) s (AMacroApply name args fi) =
      Ok (fst x, NScope :: def_nodes true pbs ++ body_ns ++ [NPop])
  | Err k => gen_one w (code_gen_fuel w (S f)) s (AMacroApply name args fi) = Err k
  | OutOfFuel => gen_one w (code_gen_fuel w (S f)) s (AMacroApply name args fi) = OutOfFuel
  end.
Proof. exact macro_application_inlined_deferred. Qed.
(** The two lookups agree whenever no identifier of the expression is bound in the block scope
    itself (then the walk to the parent finds the same binding)... *)
Theorem C09_deferred_flag : forall w r p e a,
  wf_scopes (r_scopes r) -> own_free r e ->
  pc_after w r (NSymbol p e true) a = pc_after w r (NSymbol p e false) a.
Proof. exact deferred_flag_irrelevant. Qed.
(** ... so the whole assemblies of the two node lists are EQUAL when, in the state in which the
    symbol pass enters the scope, no deferred expression mentions a name the scope itself binds
    (evaluated parameters — later ones included —, [:=] constants and labels of the body's own
    level) or an earlier deferred parameter.  Where that fails the application is the one that is
    right (the argument means what it means at the call site) and the naive inlining is captured:
    DeferredExamples in Proofs/DeferredArgs.v. *)
Theorem C09_deferred_assembly : forall w r pre pbs rest,
  wf_scopes (r_scopes r) ->
  (forall r1 a1 l r2 a2 r3,
     label_pass w (set_cur_last r (r_cur r) 0) (pre ++ NScope :: def_nodes true pbs ++ rest) (r_reloc r) [] = Ok (r1, a1, l) ->
     symbol_pass w (resolver_reset r1) pre (r_reloc r1) = Ok (r2, a2) ->
     use_next_scope r2 = Ok r3 ->
     def_cond (own_of r3) [] pbs) ->
  assemble_nodes w r (pre ++ NScope :: def_nodes true pbs ++ rest) =
  assemble_nodes w r (pre ++ NScope :: def_nodes false pbs ++ rest).
Proof. exact assemble_nodes_deferred_inlined. Qed.

(** END TO END.  A program with a macro application assembles to exactly what the program with the
    body written at the call site in a fresh block assembles to — same blocks, labels, final
    resolver state, or the same failure ([assemble_ast] = code generation of everything + all
    passes).  Eager arguments: no side condition beyond "the arguments evaluate at the call site". *)
From A816 Require Import Proofs.ReplayProofs Proofs.MacroInline.
Theorem C09_inline_assembly : forall w r before after name args fi fi' fi'' md bound pvs lits,
  (forall s' ns', code_gen_fuel w cg_depth {| cg_r := r; cg_macros := [] |} before = Ok (s', ns') ->
     dict_get (cg_macros s') name = Some md /\ eval_macro_args w (cg_r s') (md_params md) args = Ok bound) ->
  int_values bound = Some pvs -> closed_literals w pvs lits ->
  assemble_ast w r (before ++ [AMacroApply name args fi] ++ after) =
  assemble_ast w r (before ++ [ACompound (assigns pvs lits fi'' ++ md_body md) fi'] ++ after).
Proof. exact macro_inline_eager_assembly. Qed.
(** With deferred arguments, under the capture condition of C09_deferred_assembly taken at the
    state in which the symbol pass enters the application scope ([no_capture]). *)
Theorem C09_inline_assembly_deferred : forall w r before after name args fi fi' fi'' md pbs,
  cg_ok r ->
  (forall s' ns', code_gen_fuel w cg_depth {| cg_r := r; cg_macros := [] |} before = Ok (s', ns') ->
     dict_get (cg_macros s') name = Some md /\ eval_macro_args w (cg_r s') (md_params md) args = Ok (bound_of pbs)) ->
  lits_closed w pbs ->
  no_capture w cg_depth {| cg_r := r; cg_macros := [] |} before (AMacroApply name args fi) after pbs ->
  assemble_ast w r (before ++ [AMacroApply name args fi] ++ after) =
  assemble_ast w r (before ++ [ACompound (stmts_of pbs fi'' ++ md_body md) fi'] ++ after).
Proof. exact macro_inline_assembly. Qed.

(** Code-block arguments, end to end.  An application with evaluated and code-block arguments
    against the block in which every splice [{{q}}] of a code parameter — at the body's own level
    or inside nested [{ }] blocks — is replaced by the argument's statements ([arel]): both
    assemblies fail alike or give the same blocks and labels.  The other statements of the body and
    the argument blocks are [plain] (no nested application or splice that could reach the extra
    code binding dynamically: the one-level substitution), and no expression of the generated
    program uses a code-parameter name as an identifier ([nodes_kfree]; needed: MacroCodeExamples
    name_used_application / name_used_twin). *)
From A816 Require Import Proofs.NonInterference Proofs.MacroCode.
Theorem C09_code_argument_assembly : forall w r before after name args fi fi' fi'' md cbs body2,
  cg_ok r ->
  (forall s' ns', code_gen_fuel w cg_depth {| cg_r := r; cg_macros := [] |} before = Ok (s', ns') ->
     dict_get (cg_macros s') name = Some md /\
     eval_macro_args w (cg_r s') (md_params md) args = Ok (cbound cbs)) ->
  clits_closed w cbs ->
  Forall2 (arel (code_names cbs) (code_of cbs)) (md_body md) body2 ->
  (forall sF ns, code_gen_fuel w cg_depth {| cg_r := r; cg_macros := [] |}
                   (before ++ [AMacroApply name args fi] ++ after) = Ok (sF, ns) ->
     nodes_kfree (code_names cbs) ns = true) ->
  match assemble_ast w r (before ++ [AMacroApply name args fi] ++ after),
        assemble_ast w r (before ++ [ACompound (cstmts cbs fi'' ++ body2) fi'] ++ after) with
  | Ok o1, Ok o2 => o_blocks o1 = o_blocks o2 /\ o_labels o1 = o_labels o2
  | Err j, Err k => j = k
  | OutOfFuel, OutOfFuel => True
  | _, _ => False
  end.
Proof. exact macro_code_assembly. Qed.

(** Nested splices and nested applications: the application against the body in which every
    splice of one of ITS code parameters is replaced by the argument's statements, recursively
    (the substituted text may itself contain splices of outer parameters and nested macro
    applications; argument blocks handed on to nested applications are substituted too) — [subl].
    Side condition [tinv]: no macro applied while the application scope is open has a parameter
    named like one of these code parameters (then a splice always resolves to this application;
    shown necessary: the rebinding examples of NestedExamples), and the twin body is [kclean]. *)
From A816 Require Import Proofs.NestedSplice.
Theorem C09_nested_splices_assembly : forall w T r before after name args fi fi' fi'' md cbs body2,
  let K := MacroCode.code_names cbs in
  let C := MacroCode.code_of cbs in
  cg_ok r ->
  (forall s' ns', code_gen_fuel w cg_depth {| cg_r := r; cg_macros := [] |} before = Ok (s', ns') ->
     dict_get (cg_macros s') name = Some md /\
     eval_macro_args w (cg_r s') (md_params md) args = Ok (MacroCode.cbound cbs) /\
     codes_clean K T (cg_r s') /\ tinv K T (cg_macros s')) ->
  MacroCode.clits_closed w cbs ->
  subl C (md_body md) body2 -> kcleanl K T body2 = true ->
  (forall sF ns, code_gen_fuel w cg_depth {| cg_r := r; cg_macros := [] |}
                   (before ++ [AMacroApply name args fi] ++ after) = Ok (sF, ns) ->
     MacroCode.nodes_kfree K ns = true) ->
  match assemble_ast w r (before ++ [AMacroApply name args fi] ++ after),
        assemble_ast w r (before ++ [ACompound (MacroCode.cstmts cbs fi'' ++ body2) fi'] ++ after) with
  | Ok o1, Ok o2 => o_blocks o1 = o_blocks o2 /\ o_labels o1 = o_labels o2
  | Err j, Err k => j = k
  | OutOfFuel, OutOfFuel => True
  | _, _ => False
  end.
Proof. exact macro_code_nested_assembly. Qed.

(** All three kinds of arguments in one application (evaluated, deferred, code blocks): the union
    of the side conditions of the deferred and of the code-block theorems; examples both ways in
    Proofs/MacroMixed.v (a deferred argument that names a parameter is excluded by [def_cond]:
    the application evaluates it in the caller's scope, the naive twin sees the parameter). *)
From A816 Require Import Proofs.MacroMixed.
Theorem C09_mixed_arguments_assembly : forall w T r before after name args fi fi' fi'' md mbs body2,
  let K := MacroCode.code_names (cb_of mbs) in
  let C := MacroCode.code_of (cb_of mbs) in
  cg_ok r ->
  (forall s' ns', code_gen_fuel w cg_depth {| cg_r := r; cg_macros := [] |} before = Ok (s', ns') ->
     dict_get (cg_macros s') name = Some md /\
     eval_macro_args w (cg_r s') (md_params md) args = Ok (mbound mbs) /\
     codes_clean K T (cg_r s') /\ tinv K T (cg_macros s')) ->
  mlits_closed w mbs ->
  subl C (md_body md) body2 -> kcleanl K T body2 = true ->
  (forall sF ns, code_gen_fuel w cg_depth {| cg_r := r; cg_macros := [] |}
                   (before ++ [ACompound (mstmts mbs fi'' ++ body2) fi'] ++ after) = Ok (sF, ns) ->
     MacroCode.nodes_kfree K ns = true) ->
  no_capture w cg_depth {| cg_r := r; cg_macros := [] |} before (AMacroApply name args fi) after (pb_of mbs) ->
  match assemble_ast w r (before ++ [AMacroApply name args fi] ++ after),
        assemble_ast w r (before ++ [ACompound (mstmts mbs fi'' ++ body2) fi'] ++ after) with
  | Ok o1, Ok o2 => o_blocks o1 = o_blocks o2 /\ o_labels o1 = o_labels o2
  | Err j, Err k => j = k
  | OutOfFuel, OutOfFuel => True
  | _, _ => False
  end.
Proof. exact macro_mixed_assembly. Qed.
