(** C10 — Conditional and loop directives equal the hand-expanded program. *)
From Coq Require Import ZArith List.
From A816 Require Import Model.Codegen Proofs.CodegenProofs.
Open Scope Z_scope.

(** .if generates exactly its first block (as if its statements stood there) when the condition
    is non-zero, exactly its else block or nothing otherwise. *)
Theorem C10_if_true : forall w gen s c th thfi el fi fi',
  if_condition w (cg_r s) c = Ok true ->
  gen_one w gen s (AIf c th thfi el fi) = gen_one w gen s (ABlock th fi').
Proof. exact if_true. Qed.
Theorem C10_if_false_else : forall w gen s c th thfi eb ebfi fi fi',
  if_condition w (cg_r s) c = Ok false ->
  gen_one w gen s (AIf c th thfi (Some (eb, ebfi)) fi) = gen_one w gen s (ABlock eb fi').
Proof. exact if_false_else. Qed.
Theorem C10_if_false_nothing : forall w gen s c th thfi fi,
  if_condition w (cg_r s) c = Ok false ->
  gen_one w gen s (AIf c th thfi None fi) = Ok (s, []).
Proof. exact if_false_nothing. Qed.
(** non-zero (negative included) is true; zero, an undefined name is false; every other failure of
    the evaluation (an operator the evaluator does not know, ...) is a failure of the assembly *)
Theorem C10_condition : forall w r c,
  if_condition w r c =
  match eval_raw w r c with
  | Ok v => Ok (negb (v =? 0))
  | Err ESymbol => Ok false
  | Err k => Err k
  | OutOfFuel => OutOfFuel
  end.
Proof. exact if_condition_spec. Qed.

(** .for v := a, b generates its body once per v = a, a+1, ..., b-1 in that order, each
    iteration in its own scope with v bound; nothing when b <= a. *)
Theorem C10_for : forall w gen s v lo hi b bfi fi from to,
  eval_raw w (cg_r s) lo = Ok from -> eval_raw w (cg_r s) hi = Ok to ->
  gen_one w gen s (AFor v lo hi b bfi fi) = iterations gen s v (zrange from (Z.to_nat (to - from))) b.
Proof. exact for_unrolled. Qed.
Theorem C10_for_range : forall from n k, In k (zrange from n) <-> from <= k < from + Z.of_nat n.
Proof. exact zrange_bounds. Qed.
Theorem C10_for_empty : forall w gen s v lo hi b bfi fi from to,
  eval_raw w (cg_r s) lo = Ok from -> eval_raw w (cg_r s) hi = Ok to -> to <= from ->
  gen_one w gen s (AFor v lo hi b bfi fi) = Ok (s, []).
Proof. exact for_empty. Qed.

(** A statement list is generated statement by statement, in order (so the equalities above
    compose with what precedes and follows, and with macro expansion). *)
Theorem C10_sequence : forall w gen a s b,
  gen_list w gen s (a ++ b) =
  (do x <- gen_list w gen s a; do y <- gen_list w gen (fst x) b; Ok (fst y, snd x ++ snd y)).
Proof. exact gen_list_app. Qed.

(** The loop against the hand-unrolled program, through the whole assembly (code generation of
    everything before, the loop, everything after; the three passes; the writer blocks).  [lits]
    are the literals written by hand in the blocks [{ v = lit  body }], one per iteration.  Both
    assemblies fail with the same kind of error or both succeed with the same blocks; the label
    listing of the loop program is the twin's minus the labels of the loop's own (internal) scopes
    (a sublist; equal when those scopes define no label — labels defined directly in a .for body are
    not listed by get_all_labels, which is the one observable difference: Proofs/Unroll.v,
    UnrollExamples.loop_labels / flat_labels). *)
From A816 Require Import Proofs.NonInterference Proofs.UnrollSim Proofs.Unroll.
Theorem C10_for_unrolled_assembly : forall w r v lo hi b bfi fi0 fi fi' from to lits pre post,
  (forall s' ns', code_gen_fuel w cg_depth {| cg_r := r; cg_macros := [] |} pre = Ok (s', ns') ->
                  eval_raw w (cg_r s') lo = Ok from /\ eval_raw w (cg_r s') hi = Ok to) ->
  length lits = Z.to_nat (to - from) -> literals_for w from lits ->
  match assemble_ast w r (pre ++ AFor v lo hi b bfi fi0 :: post),
        assemble_ast w r (pre ++ unrolled v lits b fi fi' ++ post) with
  | Ok o1, Ok o2 => o_blocks o1 = o_blocks o2 /\ sublist (o_labels o1) (o_labels o2)
  | Err j, Err k => j = k
  | OutOfFuel, OutOfFuel => True
  | _, _ => False
  end.
Proof. exact for_equals_unrolled_blocks. Qed.
Theorem C10_for_unrolled_labels : forall w r v lo hi b bfi fi0 fi fi' from to lits pre post o1 o2,
  (forall s' ns', code_gen_fuel w cg_depth {| cg_r := r; cg_macros := [] |} pre = Ok (s', ns') ->
                  eval_raw w (cg_r s') lo = Ok from /\ eval_raw w (cg_r s') hi = Ok to) ->
  length lits = Z.to_nat (to - from) -> literals_for w from lits ->
  assemble_ast w r (pre ++ AFor v lo hi b bfi fi0 :: post) = Ok o1 ->
  assemble_ast w r (pre ++ unrolled v lits b fi fi' ++ post) = Ok o2 ->
  hidden_emptyb (r_scopes (o_final o1)) (r_scopes (o_final o2)) = true ->
  o_blocks o1 = o_blocks o2 /\ o_labels o1 = o_labels o2.
Proof. exact for_equals_unrolled_labels. Qed.
(** Scope kinds are invisible to everything but the label listing: any two assemblies from states
    that differ only in internal-vs-plain kinds, over node lists that differ only in how a loop
    variable is bound, give the same blocks. *)
Theorem C10_kind_invisible : forall w ns1 ns2 r1 r2,
  Forall2 (nrel w) ns1 ns2 -> ksim r1 r2 -> res_rel ok (assemble_nodes w r1 ns1) (assemble_nodes w r2 ns2).
Proof. exact assemble_nodes_k. Qed.

(** [.if] end to end: the whole assembly of a program with an [.if] equals the whole assembly of
    the program with the selected branch's statements written in its place (plain equality of the
    result: blocks, labels, final state, or the same failure).  The branch of an [.if] is generated
    one nesting level deeper than statements written in place, so the equality carries the side
    condition that one of the two programs stays inside the nesting limit (RecursionError); it is
    needed (Proofs/IfInline.v, limit_if / limit_flat) and absent when nothing is selected. *)
From A816 Require Import Proofs.IfInline.
Theorem C10_if_assembly : forall w r pre post c th thfi el fi b,
  (forall x, code_gen_fuel w cg_depth (cg0 r) pre = Ok x -> if_condition w (cg_r (fst x)) c = Ok b) ->
  code_gen_fuel w cg_depth (cg0 r) (pre ++ AIf c th thfi el fi :: post) <> Err ERecursion \/
  code_gen_fuel w (pred cg_depth) (cg0 r) (pre ++ selected b th el ++ post) <> Err ERecursion ->
  assemble_ast w r (pre ++ AIf c th thfi el fi :: post) = assemble_ast w r (pre ++ selected b th el ++ post).
Proof. exact if_equals_selected. Qed.
Theorem C10_if_true_assembly : forall w r pre post c th thfi el fi v,
  (forall x, code_gen_fuel w cg_depth (cg0 r) pre = Ok x -> eval_raw w (cg_r (fst x)) c = Ok v) -> v <> 0 ->
  code_gen_fuel w cg_depth (cg0 r) (pre ++ AIf c th thfi el fi :: post) <> Err ERecursion ->
  assemble_ast w r (pre ++ AIf c th thfi el fi :: post) = assemble_ast w r (pre ++ th ++ post).
Proof. exact if_true_equals_then. Qed.
Theorem C10_if_undefined_assembly : forall w r pre post c th thfi eb ebfi fi,
  (forall x, code_gen_fuel w cg_depth (cg0 r) pre = Ok x -> eval_raw w (cg_r (fst x)) c = Err ESymbol) ->
  code_gen_fuel w cg_depth (cg0 r) (pre ++ AIf c th thfi (Some (eb, ebfi)) fi :: post) <> Err ERecursion ->
  assemble_ast w r (pre ++ AIf c th thfi (Some (eb, ebfi)) fi :: post) = assemble_ast w r (pre ++ eb ++ post).
Proof. exact if_undefined_equals_else. Qed.
Theorem C10_if_false_assembly : forall w r pre post c th thfi fi,
  (forall x, code_gen_fuel w cg_depth (cg0 r) pre = Ok x -> if_condition w (cg_r (fst x)) c = Ok false) ->
  assemble_ast w r (pre ++ AIf c th thfi None fi :: post) = assemble_ast w r (pre ++ post).
Proof. exact if_false_equals_nothing. Qed.
(** More nesting budget changes nothing but RecursionError itself (failures included). *)
Theorem C10_nesting_stable : forall w f, stable (code_gen_fuel w f) (code_gen_fuel w (S f)).
Proof. exact code_gen_stable. Qed.
