(** C11 — IPS output is well formed and patches exactly the written blocks.
    Statements only; each is closed by [exact] of a lemma from Proofs/IpsProofs.v.

    Vocabulary (Spec/IpsFormat.v unless noted):
      [ips_write copier blocks]   Model/Ips.v: begin(); write_block(d, a) for every (a, d); end() -> the file
      [ips_session]               the same, as (file contents, outcome) - also when a call raised
      [ips_file rs]               "PATCH" ++ encodings of the records [rs] ++ "EOF"
      [wf_record]                 offset in 0..2^24-1 and not 0x454F46, 1..65535 data bytes
      [tiles a d rs]              the plain records [rs] laid end to end are exactly [d] at offset [a]
      [tiles_seq ws rs]           [rs] tiles every write of [ws], in order
      [apply_ips f img]           the independent sequential patcher
      [write_at], [apply_writes]  one write / a list of writes on an image
      [shift], [shift_blocks]     Proofs/IpsProofs.v: +0x200 with the copier header, else +0
      [all_starts_ok a' len]      every record start a' + k*65535 (k*65535 < len) is representable
      [bad_start a' len]          some such start is < 0, >= 2^24 or 0x454F46 *)
From Coq Require Import ZArith List Lia.
From A816 Require Import Spec.IpsFormat Model.Ips Proofs.IpsProofs.
Import ListNotations.
Open Scope Z_scope.

(** The file is "PATCH", valid plain records, "EOF", and the records tile the blocks. *)
Theorem C11_wellformed : forall copier blocks f,
  ips_write copier blocks = Ok f ->
  exists rs, f = ips_file rs /\ Forall wf_record rs /\ Forall is_plain rs /\
             tiles_seq (shift_blocks copier blocks) rs.
Proof. exact ips_write_wellformed. Qed.

(** One write_block call: the records written cover the block exactly once, in order
    (whatever its length: 0, 1, around every multiple of 65535, ...). *)
Theorem C11_tiling : forall copier d a,
  all_starts_ok (a + shift copier) (blen d) ->
  exists rs, ips_write_block_call copier d a = (encode rs, Ok tt) /\
             tiles (a + shift copier) d rs /\ Forall wf_record rs.
Proof. exact write_block_accept. Qed.

(** The fuel given to the split loop ([length block + 1]) always suffices. *)
Theorem C11_fuel : forall copier,
  (forall d a, snd (ips_write_block_call copier d a) <> OutOfFuel) /\
  (forall blocks, ips_write copier blocks <> OutOfFuel).
Proof. intros c. split; [exact (write_block_fuel c) | exact (ips_write_fuel c)]. Qed.

(** A standard patcher applied to the file writes each block at its address (+0x200 with the
    copier header), in write order, and nothing else - on every image. *)
Theorem C11_apply : forall copier blocks f img,
  ips_write copier blocks = Ok f ->
  apply_ips f img = Ok (apply_writes (shift_blocks copier blocks) img).
Proof. exact ips_write_apply. Qed.

(** An empty block changes nothing: it writes no record, at any address, anywhere in the sequence. *)
Theorem C11_empty_block : forall copier pre a post,
  ips_write copier (pre ++ (a, []) :: post) = ips_write copier (pre ++ post).
Proof. exact ips_write_empty_block. Qed.

(** Refusal: a record start that IPS cannot represent is rejected, never wrapped. *)
Theorem C11_refuse_block : forall copier d a,
  bad_start (a + shift copier) (blen d) ->
  exists out e, ips_write_block_call copier d a = (out, Err e).
Proof. exact write_block_refuse. Qed.

Theorem C11_refuse : forall copier blocks,
  Exists (block_bad copier) blocks -> exists e, ips_write copier blocks = Err e.
Proof. exact ips_write_refuse. Qed.

Theorem C11_refuse_first : forall copier blocks a d,
  In (a, d) blocks -> d <> [] ->
  (a + shift copier < 0 \/ 16777216 <= a + shift copier \/ a + shift copier = sentinel) ->
  exists e, ips_write copier blocks = Err e.
Proof. exact ips_write_refuse_first. Qed.

(** ... and nothing else is refused. *)
Theorem C11_accept : forall copier blocks,
  Forall (block_ok copier) blocks -> exists rs, ips_write copier blocks = Ok (ips_file rs).
Proof. exact ips_write_accept. Qed.

(** After a refusal the file holds the header and the whole records written before the refused
    record start (no part of that record, no marker). *)
Theorem C11_partial_file : forall copier blocks f e,
  ips_session copier blocks = (f, Err e) ->
  exists rs pre a d1 d2 post,
    f = magic ++ encode rs /\ blocks = pre ++ (a, d1 ++ d2) :: post /\ d2 <> [] /\
    tiles_seq (shift_blocks copier (pre ++ [(a, d1)])) rs /\ Forall wf_record rs /\
    ~ off_ok (a + shift copier + blen d1).
Proof. exact ips_session_refused. Qed.

(** Non-vacuity and pins on the specification. *)
Example C11_nonvacuous_write :
  ips_write true [(16, [1; 2; 3]); (0, []); (19, [4])]
  = Ok [80; 65; 84; 67; 72;  0; 2; 16; 0; 3; 1; 2; 3;  0; 2; 19; 0; 1; 4;  69; 79; 70].
Proof. reflexivity. Qed.

Example C11_nonvacuous_starts : all_starts_ok (16 + shift true) (blen [1; 2; 3]) /\ bad_start 4542278 1.
Proof.
  split.
  - intros k Hk Hk'. unfold off_ok, sentinel, shift, blen in *. cbn [length] in *. lia.
  - exists 0. unfold off_ok, sentinel. lia.
Qed.

(** A hand-written patch with a run-length record, applied by the spec patcher. *)
Example C11_spec_patcher :
  apply_ips [80; 65; 84; 67; 72;  0; 0; 2; 0; 2; 170; 187;  0; 0; 6; 0; 0; 0; 3; 7;  69; 79; 70] [1; 1; 1]
  = Ok [1; 1; 170; 187; 0; 0; 7; 7; 7].
Proof. reflexivity. Qed.

Example C11_sentinel_refused :
  ips_session true [(1, [9]); (4542278 - 512, [1; 2])] = ([80; 65; 84; 67; 72; 0; 2; 1; 0; 1; 9], Err EValue).
Proof. reflexivity. Qed.
