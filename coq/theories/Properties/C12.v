(** C12 — File and command-line front ends agree with the in-memory assembler. *)
From Coq Require Import ZArith List.
From A816 Require Import Model.Assemble Spec.IpsFormat Proofs.IpsProofs Proofs.AssembleProofs.
Open Scope Z_scope.

(** Every front end is the in-memory assembly (same pipeline, -D names pre-bound as constants,
    the chosen mapping) followed by the writer selected by the output format. *)
Theorem C12_config : forall f o fin,
  file_api f (AOk o fin) =
  match output_file f o with
  | Ok bs => (SReturn 0 true, Some bs)
  | Err ERuntime => (SReturn (-1) false, None)
  | Err k => (SRaise k, None)
  | OutOfFuel => (SRaise EOther, None)
  end.
Proof. exact front_is_memory_assembly. Qed.

(** The SFC image equals the IPS patch applied to an empty image (any block sequence). *)
Theorem C12_sfc_is_ips : forall blocks f im,
  ips_write false blocks = Ok f -> sfc_image blocks = Ok im -> apply_ips f empty_image = Ok im.
Proof. exact sfc_is_ips. Qed.
Theorem C12_sfc_defined : forall blocks,
  Forall (fun b => 0 <= fst b) blocks -> sfc_image blocks = Ok (apply_writes blocks empty_image).
Proof. exact sfc_image_defined. Qed.

(** The copier header shifts every IPS offset by exactly 0x200. *)
Theorem C12_copier : forall blocks, ips_write true blocks = ips_write false (shift_blocks true blocks).
Proof. exact copier_shift. Qed.

(** The symbol file lists each label of a non-internal scope with the bank and offset of its value. *)
Theorem C12_symfile : forall r name v,
  In (name, v) (get_all_labels r) -> In ((v / 65536) mod 256, v mod 65536, name) (symbol_lines r).
Proof. exact symbol_line_fields. Qed.
