(** C12 — File and command-line front ends agree with the in-memory assembler. *)
From Coq Require Import ZArith List.
From A816 Require Import Model.Assemble Spec.IpsFormat Proofs.IpsProofs Proofs.AssembleProofs.
Open Scope Z_scope.

(** Every front end is the in-memory assembly (same pipeline, -D names pre-bound as constants,
    the chosen mapping) followed by the writer selected by the output format. *)
Theorem C12_config : forall f o fin,
  file_api f (AOk o fin) =
  match output_file f o with
  | Ok bs => (SReturn 0 true, Some bs)
  | Err ERuntime => (SReturn (-1) false, None)
  | Err k => (SRaise k, None)
  | OutOfFuel => (SRaise EOther, None)
  end.
Proof. exact front_is_memory_assembly. Qed.

(** The SFC image equals the IPS patch applied to an empty image (any block sequence). *)
Theorem C12_sfc_is_ips : forall blocks f im,
  ips_write false blocks = Ok f -> sfc_image blocks = Ok im -> apply_ips f empty_image = Ok im.
Proof. exact sfc_is_ips. Qed.
Theorem C12_sfc_defined : forall blocks,
  Forall (fun b => 0 <= fst b) blocks -> sfc_image blocks = Ok (apply_writes blocks empty_image).
Proof. exact sfc_image_defined. Qed.

(** The copier header shifts every IPS offset by exactly 0x200. *)
Theorem C12_copier : forall blocks, ips_write true blocks = ips_write false (shift_blocks true blocks).
Proof. exact copier_shift. Qed.

(** The symbol file lists each label of a non-internal scope with the bank and offset of its value. *)
Theorem C12_symfile : forall r name v,
  In (name, v) (get_all_labels r) -> In ((v / 65536) mod 256, v mod 65536, name) (symbol_lines r).
Proof. exact symbol_line_fields. Qed.

(** The run-time oracle of this property (Oracle/E2Eo.v, [c12_ok]: the output file of every front
    end, decoded by the independent patcher / image reader, holds exactly the in-memory blocks —
    shifted by 0x200 with the copier header —, and the symbol file lists the observed label
    definitions) holds of the model's own results for every source, and cannot raise a false alarm
    on observations that agree with the model. *)
From A816 Require Import Oracle.E2Eo Proofs.FrontOracle.
Theorem C12_oracle_sound : forall t c,
  corr t c = true -> cli_consistent t c -> writer_ok t c -> labeldefs_model t c -> c12_ok c = true.
Proof. exact c12_no_false_alarm. Qed.
Theorem C12_file_matches : forall f o bs,
  output_file f o = Ok bs -> file_matches (fc_format f) (fc_copier f) (o_blocks o, o_labels o) bs = true.
Proof. exact output_file_matches. Qed.
Theorem C12_model_satisfies_oracles : forall t fs cfg name src fmt copier o fin bs,
  assemble_source t fs cfg name src = AOk o fin ->
  output_file {| fc_format := fmt; fc_copier := copier; fc_config := cfg |} o = Ok bs ->
  let c := model_case t fs cfg name src fmt copier in
  c14_ok false c = true /\ c12_ok c = true.
Proof. exact model_case_oracles. Qed.

(** "-D NAME=VALUE acts as a constant definition visible to the whole program": assembling a program
    with the defines pre-bound (what cli.py does with its evaluated -D values) IS assembling the
    statements NAME := VALUE (one per define, in order) followed by the program with no defines: the
    whole result is equal — blocks, labels, final symbol table, error class and error site — for every
    program, every list of names (repeated names included: the later one wins in both) and every
    integer value.  And the command line's evaluation of its -D texts is the fold of the expression
    evaluator over the list with the root scope growing by each earlier define. *)
From A816 Require Import Proofs.DefineConst.
Theorem C12_defines_are_constants : forall w rom ds fi prog,
  assemble_program w {| cf_rom := rom; cf_defines := ds |} prog =
  assemble_program w {| cf_rom := rom; cf_defines := [] |} (define_stmts ds fi ++ prog).
Proof. exact defines_are_constants. Qed.
Theorem C12_define_literal : forall w v r, eval_raw w r (lit_of_Z v) = Ok v.
Proof. intros w v r. apply lit_of_Z_closed. Qed.
Theorem C12_cli_defines : forall w prec defs r, resolver_init w = Ok r ->
  eval_defines prec defs [] = eval_defines_r prec r defs [].
Proof. exact eval_defines_cli. Qed.

Print Assumptions C12_defines_are_constants.
Print Assumptions C12_define_literal.
Print Assumptions C12_cli_defines.
