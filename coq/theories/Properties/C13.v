(** C13 — including an IPS patch reproduces that patch's effect, shifted by delta (reader part).
    Statements only; each is closed by [exact] of a lemma from Proofs/IpsProofs.v.

      [read_ips delta file]     Model/Ips.v: IncludeIpsNode(file, resolver, delta).blocks
      [ips_file rs]             Spec/IpsFormat.v: "PATCH" ++ encodings of [rs] ++ "EOF"
      [wf_record]               plain record with 1..65535 bytes or run-length record with run 1..65535;
                                offset in 0..2^24-1 and not 0x454F46 (those three bytes are the marker)
      [records_blocks delta rs] [(offset r + delta, bytes r) | r <- rs]
    That the node emits nothing and leaves the surrounding addresses alone (C13_transparent) is a
    statement about the node model (pc_after = identity, emit = b""), not about the reader. *)
From Coq Require Import ZArith List.
From A816 Require Import Spec.IpsFormat Model.Ips Proofs.IpsProofs.
Import ListNotations.
Open Scope Z_scope.

(** Every list of valid records (plain, run-length, maximum length, adjacent, overlapping), every
    signed delta: the blocks are each record's bytes at its offset + delta, in order. *)
Theorem C13_roundtrip : forall delta rs,
  Forall wf_record rs -> read_ips delta (ips_file rs) = Ok (records_blocks delta rs).
Proof. exact read_ips_roundtrip. Qed.

(** Bytes after the marker are ignored. *)
Theorem C13_roundtrip_trailing : forall delta rs tl,
  Forall wf_record rs -> read_ips delta (ips_file rs ++ tl) = Ok (records_blocks delta rs).
Proof. exact read_ips_roundtrip_trailing. Qed.

(** No "PATCH" header: rejected. *)
Theorem C13_reject_header : forall delta file,
  firstn 5 file <> ips_magic -> read_ips delta file = Err ERuntime.
Proof. exact read_ips_reject_header. Qed.

(** Every strict prefix of a well-formed file (cut inside the header, inside a record, between
    records, inside the marker) is rejected. *)
Theorem C13_reject_truncated : forall delta rs q t,
  Forall wf_record rs -> q ++ t = ips_file rs -> t <> [] -> read_ips delta q = Err ERuntime.
Proof. exact read_ips_reject_truncated. Qed.

(** The reader loop's fuel ([length file + 1]) always suffices, on every input. *)
Theorem C13_fuel : forall delta file, read_ips delta file <> OutOfFuel.
Proof. exact read_ips_fuel. Qed.

(** Reading what the IPS writer wrote returns the written blocks, cut into their records. *)
Theorem C13_writer_reader : forall copier blocks f delta,
  ips_write copier blocks = Ok f ->
  exists rs, tiles_seq (shift_blocks copier blocks) rs /\ read_ips delta f = Ok (records_blocks delta rs).
Proof. exact read_ips_of_write. Qed.

(** Non-vacuity: a plain and a run-length record, negative delta. *)
Example C13_nonvacuous :
  let rs := [Plain 74565 [69; 79; 70]; Rle 16 4 9] in
  Forall wf_record rs /\
  read_ips (-16) (ips_file rs) = Ok [(74549, [69; 79; 70]); (0, [9; 9; 9; 9])] /\
  read_ips 0 (firstn 12 (ips_file rs)) = Err ERuntime /\
  read_ips 0 (skipn 1 (ips_file rs)) = Err ERuntime.
Proof.
  cbv zeta. split; [|repeat split; reflexivity].
  repeat constructor; cbn; unfold sentinel; try discriminate; intros H; discriminate H.
Qed.

(** Inside a program: the directive takes no room in the address layout, emits no bytes of its own,
    leaves the resolver untouched, and hands its blocks (already shifted by delta when the node was
    built) to the writer verbatim, in record order, while the current block keeps growing. *)
From A816 Require Import Model.Program Model.Codegen.
Theorem C13_transparent : forall w r blocks a,
  pc_after w r (NIps blocks) a = Ok (r, a) /\ node_emit w r (NIps blocks) = Ok (r, []).
Proof. intros. split; reflexivity. Qed.
Theorem C13_reemitted : forall w st blocks x,
  a_val (r_reloc (e_r st)) = x ->
  emit_step w st (NIps blocks) x =
  Ok {| e_r := e_r st; e_block := e_block st; e_baddr := e_baddr st;
        e_out := e_out st ++ map (fun ab => (snd ab, fst ab)) blocks |}.
Proof.
  intros w st blocks x H. unfold emit_step. rewrite H, Z.eqb_refl. cbn. rewrite app_nil_r. destruct st; reflexivity.
Qed.
(** The node is built from the file with the delta evaluated where the directive stands. *)
Theorem C13_codegen : forall w gen s path e fi,
  gen_one w gen s (AIncludeIps path e fi) =
  (do delta <- eval_raw w (cg_r s) e; do blocks <- w_ips w path delta; Ok (s, [NIps blocks])).
Proof. reflexivity. Qed.
