(** C13 — the run-time oracle of Oracle/C13o.v against the MODEL: on every file made of bytes the oracle's independent record
    parser and the model's reader agree (same records at offset + delta, or both reject), so the model's own result passes the
    clause and so does any implementation value that agrees with it.  [C13_oracle_non_byte] shows why the byte condition is in the
    statement (the harness only ships bytes).  Statements only; proofs in Proofs/C13OracleModel.v. *)
From Coq Require Import ZArith List Bool Arith.
From A816 Require Import Model.Program Oracle.C13o Proofs.C13OracleModel.

Theorem C13_oracle_parse_read_agree :
  forall (file : bytes) (delta : Z),
  byte_file file ->
  match parse_ips file with
  | Ok (rs, _) => read_ips delta file = Ok (records_blocks delta rs)
  | Err _ => exists e : errk, read_ips delta file = Err e
  | OutOfFuel => False
  end.
Proof. exact @parse_read_agree. Qed.

Theorem C13_oracle_model_passes :
  forall (file : bytes) (delta : Z),
  byte_file file -> spec_ok file delta (obs_of_res (read_ips delta file)) = true.
Proof. exact @c13_model_passes. Qed.

Theorem C13_oracle_corr_implies_spec_file :
  forall (file : bytes) (delta : Z) (impl : obs (list (Z * bytes))),
  byte_file file ->
  agree_strict blocks_eqb (read_ips delta file) impl = true -> spec_ok file delta impl = true.
Proof. exact @c13_corr_implies_spec_file. Qed.

Theorem C13_oracle_corr_implies_spec :
  forall (t : Asmo.tables) (rfile : runs) (delta : Z) (rimpl : obs (list (Z * runs))),
  byte_file (expand_runs rfile) ->
  fst (check t (CR rfile delta rimpl)) = true -> snd (check t (CR rfile delta rimpl)) = true.
Proof. exact @c13_corr_implies_spec. Qed.

Theorem C13_oracle_non_byte :
  let f := [80; 65; 84; 67; 72; 1; 0; 65536; 0; 1; 7; 69; 79; 70] in
  ~ byte_file f /\
  parse_ips f = Ok ([Plain 131072 [7]], []) /\
  read_ips 0 f = Ok [(65536, [7])] /\ spec_ok f 0 (obs_of_res (read_ips 0 f)) = false.
Proof. exact @c13_non_byte_counterexample. Qed.

Print Assumptions C13_oracle_parse_read_agree.
Print Assumptions C13_oracle_model_passes.
Print Assumptions C13_oracle_corr_implies_spec_file.
Print Assumptions C13_oracle_corr_implies_spec.
Print Assumptions C13_oracle_non_byte.
