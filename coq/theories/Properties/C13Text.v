(** C13 on source text: the line [.include_ips 'path', delta] through the whole pipeline model.

    - the directive inserted anywhere in a node list leaves every label, the final resolver state
      and every other writer call as they were, and adds exactly the patch's blocks at the point of
      the call sequence where it stands ([C13_node_insert]: "without disturbing the program around it");
    - the same on ASTs for programs of state-independent statements, with the delta an expression
      and the file read by the reader model; a rejected file rejects the assembly;
    - on source text: a program  *=org / .kw1 name / <the line> / name: / .kw2 name  (any spacing,
      any path without quote, backslash, newline, any closed delta expression, any records) writes the
      records' blocks at offset + delta (run-length records expanded), then the program's own block
      unchanged, and the label keeps its value; any program of simple lines followed by the line with
      a file the reader rejects (missing header, truncated record, missing file) fails with that error. *)
From Coq Require Import ZArith NArith List Bool Lia Arith.

From A816 Require Import Spec.ExprSem Spec.BusLaws Spec.IpsFormat Model.Ips Model.Assemble Proofs.ParserProofs
  Proofs.ParserShapeProofs Proofs.ParserShapeTokens
  Proofs.BusProofs Proofs.NodeProofs Proofs.ExprProofs Proofs.IpsProofs
  Proofs.ExprLex Proofs.ExprLexParse Proofs.DataTextScan Proofs.DataTextParse Proofs.DataTextGen Proofs.DataText
  Proofs.InsnTextScan Proofs.InsnTextParse Proofs.InsnTextGen Proofs.InsnText
  Proofs.LabelTextScan Proofs.LabelTextParse Proofs.LabelTextGen Proofs.LabelText
  Proofs.IpsTextScan Proofs.IpsTextParse Proofs.IpsTextGen Proofs.IpsText.

Theorem C13_node_insert : forall w r ns1 ns2 bl o,
  assemble_nodes w r (ns1 ++ ns2) = Ok o ->
  exists o' A B,
    assemble_nodes w r (ns1 ++ NIps bl :: ns2) = Ok o' /\
    o_labels o' = o_labels o /\ o_final o' = o_final o /\
    o_blocks o = A ++ B /\ o_blocks o' = A ++ ips_calls bl ++ B /\
    calls_before w r ns1 ns2 A.
Proof. exact nips_insert. Qed.

Theorem C13_program_insert : forall w c ri asts1 nss1 asts2 nss2 path e fi delta bl o,
  initial_resolver w c = Ok ri ->
  Forall2 (simple w) asts1 nss1 -> Forall2 (simple w) asts2 nss2 ->
  (forall r, eval_raw w r e = Ok delta) -> w_ips w path delta = Ok bl ->
  assemble_nodes w ri (concat nss1 ++ concat nss2) = Ok o ->
  exists o' A B,
    assemble_program w c (asts1 ++ AIncludeIps path e fi :: asts2) = AOk o' (o_final o') /\
    assemble_program w c (asts1 ++ asts2) = AOk o (o_final o) /\
    o_labels o' = o_labels o /\ o_final o' = o_final o /\
    o_blocks o = A ++ B /\ o_blocks o' = A ++ ips_calls bl ++ B /\
    calls_before w ri (concat nss1) (concat nss2) A.
Proof. exact ips_program_insert. Qed.

Theorem C13_program_rejected : forall w c ri asts1 nss1 asts2 path e fi delta k,
  initial_resolver w c = Ok ri -> Forall2 (simple w) asts1 nss1 ->
  (forall r, eval_raw w r e = Ok delta) -> w_ips w path delta = Err k ->
  assemble_program w c (asts1 ++ AIncludeIps path e fi :: asts2) = AExc k None.
Proof. exact ips_program_rejected. Qed.

Theorem C13_text_front : forall t fs c fname xs,
  Forall (xstmt_ok (lv_lex t)) xs ->
  exists asts, assemble_source t fs c fname (xsrc xs) = assemble_program (world_of t fs) c asts /\
               Forall2 xast_ok xs asts.
Proof. exact xprog_front. Qed.

Theorem C13_text : forall t fs c fname sp0 eorg org kw1 dk1 j1 name j2 k1 path k2 sp e delta k kw2 dk2 j3 j4 file bl,
  tables_ok t c -> org_ok eorg org ->
  Forall (xstmt_ok (lv_lex t)) (around sp0 eorg kw1 j1 name j2 [XIps k1 path k2 sp e] k kw2 j3 j4) ->
  Parser.dkind_of kw1 = Some dk1 -> Parser.dkind_of kw2 = Some dk2 ->
  wf e -> eval noenv e = Ok delta ->
  assoc_str (sf_bin fs) path = Some file -> read_ips delta file = Ok bl ->
  org mod 65536 + dkind_len dk1 < 65536 ->
  lorom_offset org + dkind_len dk1 + dkind_len dk2 < lorom_room org ->
  let L := org + dkind_len dk1 in
  exists o' fin' o fin,
    assemble_source t fs c fname (xsrc (around sp0 eorg kw1 j1 name j2 [XIps k1 path k2 sp e] k kw2 j3 j4)) = AOk o' fin' /\
    assemble_source t fs c fname (xsrc (around sp0 eorg kw1 j1 name j2 [] k kw2 j3 j4)) = AOk o fin /\
    o_blocks o = [(data_bytes dk1 L ++ data_bytes dk2 L, lorom_offset org)] /\ o_labels o = [(name, L)] /\
    o_blocks o' = ips_calls bl ++ o_blocks o /\ o_labels o' = o_labels o.
Proof. exact ips_text. Qed.

Theorem C13_text_records : forall t fs c fname sp0 eorg org kw1 dk1 j1 name j2 k1 path k2 sp e delta k kw2 dk2 j3 j4 rs tl,
  tables_ok t c -> org_ok eorg org ->
  Forall (xstmt_ok (lv_lex t)) (around sp0 eorg kw1 j1 name j2 [XIps k1 path k2 sp e] k kw2 j3 j4) ->
  Parser.dkind_of kw1 = Some dk1 -> Parser.dkind_of kw2 = Some dk2 ->
  wf e -> eval noenv e = Ok delta ->
  Forall wf_record rs -> assoc_str (sf_bin fs) path = Some (ips_file rs ++ tl) ->
  org mod 65536 + dkind_len dk1 < 65536 ->
  lorom_offset org + dkind_len dk1 + dkind_len dk2 < lorom_room org ->
  let L := org + dkind_len dk1 in
  exists o' fin',
    assemble_source t fs c fname (xsrc (around sp0 eorg kw1 j1 name j2 [XIps k1 path k2 sp e] k kw2 j3 j4)) = AOk o' fin' /\
    o_blocks o' = record_calls delta rs ++ [(data_bytes dk1 L ++ data_bytes dk2 L, lorom_offset org)] /\
    o_labels o' = [(name, L)].
Proof. exact ips_text_records. Qed.

Theorem C13_text_rejected : forall t fs c fname pre k1 path k2 sp e delta post kerr,
  tables_ok t c -> Forall (xstmt_ok (lv_lex t)) (pre ++ XIps k1 path k2 sp e :: post) ->
  Forall flat_stmt pre -> wf e -> eval noenv e = Ok delta ->
  match assoc_str (sf_bin fs) path with Some file => read_ips delta file | None => Err EFile end = Err kerr ->
  assemble_source t fs c fname (xsrc (pre ++ XIps k1 path k2 sp e :: post)) = AExc kerr None.
Proof. exact ips_text_rejected. Qed.

Print Assumptions C13_node_insert.
Print Assumptions C13_program_insert.
Print Assumptions C13_program_rejected.
Print Assumptions C13_text_front.
Print Assumptions C13_text.
Print Assumptions C13_text_records.
Print Assumptions C13_text_rejected.

(** The patch of a program, included back, rebuilds the program's image (C11 + C12 + C13 composed).
    For every block list the IPS writer accepts, the file it writes reads back (with delta = minus
    the copier-header shift) as records that, applied in order, give the same image as the blocks —
    blocks above 0xFFFF bytes come back in pieces, empty blocks not at all; the one-line program
    [.include_ips 'p', delta] hands the writer exactly those records and nothing of its own; so
    assembling a program as a patch and including that patch (AST level, and on source text through
    the whole pipeline) yields the program's SFC image. *)
From A816 Require Import Proofs.PatchRoundTrip.

Theorem C13_patch_blocks_read_back : forall copier blocks file delta,
  ips_write copier blocks = Ok file ->
  Forall (fun b => snd b <> [] -> 0 <= fst b + shift copier + delta) blocks ->
  exists rs recs,
    tiles_seq (shift_blocks copier blocks) rs /\ Forall wf_record rs /\ file = ips_file rs /\
    read_ips delta file = Ok recs /\ recs = records_blocks delta rs /\
    forall img, apply_writes recs img = apply_writes (moved (shift copier + delta) blocks) img.
Proof. exact patch_blocks_read_back. Qed.

Theorem C13_patch_blocks_roundtrip : forall copier blocks file,
  ips_write copier blocks = Ok file ->
  Forall (fun b => snd b <> [] -> 0 <= fst b) blocks ->
  exists recs, read_ips (- shift copier) file = Ok recs /\
    forall img, apply_writes recs img = apply_writes blocks img.
Proof. exact patch_blocks_roundtrip. Qed.

Theorem C13_patch_blocks_sfc : forall copier blocks file im,
  ips_write copier blocks = Ok file -> sfc_image blocks = Ok im ->
  exists recs, read_ips (- shift copier) file = Ok recs /\ sfc_image recs = Ok im.
Proof. exact patch_blocks_sfc. Qed.

Theorem C13_include_only_program : forall w c ri path e fi delta bl,
  initial_resolver w c = Ok ri ->
  (forall r, eval_raw w r e = Ok delta) -> w_ips w path delta = Ok bl ->
  exists oP o0,
    assemble_program w c [AIncludeIps path e fi] = AOk oP (o_final oP) /\ writer_blocks oP = bl /\
    assemble_program w c [] = AOk o0 (o_final o0) /\ o_blocks o0 = [] /\
    o_labels oP = o_labels o0 /\ o_final oP = o_final o0.
Proof. exact include_only_program. Qed.

Theorem C13_patch_program_roundtrip : forall w c ri path e fi copier blocks file im,
  initial_resolver w c = Ok ri ->
  (forall r, eval_raw w r e = Ok (- shift copier)) ->
  (forall d, w_ips w path d = read_ips d file) ->
  ips_write copier blocks = Ok file -> sfc_image blocks = Ok im ->
  exists oP, assemble_program w c [AIncludeIps path e fi] = AOk oP (o_final oP) /\
    read_ips (- shift copier) file = Ok (writer_blocks oP) /\
    sfc_image (writer_blocks oP) = Ok im.
Proof. exact patch_program_roundtrip. Qed.

Theorem C13_patch_text_roundtrip : forall t fs c fname k1 path k2 sp e copier cQ b b' oQ file im,
  tables_ok t c -> xstmt_ok (lv_lex t) (XIps k1 path k2 sp e) -> wf e -> eval noenv e = Ok (- shift copier) ->
  assoc_str (sf_bin fs) path = Some file ->
  output_file {| fc_format := FIps; fc_copier := copier; fc_config := cQ |} oQ = Ok file ->
  output_file {| fc_format := FSfc; fc_copier := b; fc_config := cQ |} oQ = Ok im ->
  exists oP finP,
    assemble_source t fs c fname (xsrc [XIps k1 path k2 sp e]) = AOk oP finP /\
    read_ips (- shift copier) file = Ok (writer_blocks oP) /\
    output_file {| fc_format := FSfc; fc_copier := b'; fc_config := c |} oP = Ok im.
Proof. exact patch_text_roundtrip. Qed.

Print Assumptions C13_patch_blocks_read_back.
Print Assumptions C13_patch_blocks_roundtrip.
Print Assumptions C13_patch_blocks_sfc.
Print Assumptions C13_include_only_program.
Print Assumptions C13_patch_program_roundtrip.
Print Assumptions C13_patch_text_roundtrip.
