(** C14 — A failed assembly is never reported as success. *)
From Coq Require Import ZArith List.
From A816 Require Import Model.Assemble Proofs.AssembleProofs.
Open Scope Z_scope.

(** The file APIs return status 0 exactly when every statement was assembled and the writer
    accepted every block; they log "Success !" exactly with status 0. *)
Theorem C14_status : forall f r,
  ((exists ann file, file_api f r = (SReturn 0 ann, file)) <->
   (exists o fin bs, r = AOk o fin /\ output_file f o = Ok bs)) /\
  (forall code ann file, file_api f r = (SReturn code ann, file) ->
     (ann = true <-> code = 0) /\ (file <> None -> code = 0) /\ (code = 0 \/ code = -1)).
Proof.
  intros f r. split; [exact (file_api_zero_iff f r)|].
  intros code ann file H. destruct (file_api_announces f r code ann file H) as [A B].
  split; [exact A|]. split; [exact B|]. exact (file_api_codes f r code ann file H).
Qed.

(** The in-memory API returns None exactly on success (an error string or an exception otherwise). *)
Theorem C14_string_api : forall r, string_api r = RNone <-> exists o f, r = AOk o f.
Proof. exact string_api_none_iff. Qed.

(** The command line exits with status 0 exactly when the assembly succeeded and was written. *)
Theorem C14_cli : forall f r,
  cli_exit (fst (file_api f r)) = 0 <-> exists o fin bs, r = AOk o fin /\ output_file f o = Ok bs.
Proof. exact cli_exit_zero_success. Qed.

(** Success means written: status 0 comes with the output file built from every emitted block. *)
Theorem C14_success_writes : forall f o fin,
  file_api f (AOk o fin) =
  match output_file f o with
  | Ok bs => (SReturn 0 true, Some bs)
  | Err ERuntime => (SReturn (-1) false, None)
  | Err k => (SRaise k, None)
  | OutOfFuel => (SRaise EOther, None)
  end.
Proof. exact front_is_memory_assembly. Qed.

(** Every way of failing (scan error, parse error, NodeError, RuntimeError, any other exception)
    gives status -1 without a success message, or lets the exception through. *)
Theorem C14_failure_classes : forall f r,
  (forall o fin, r <> AOk o fin) ->
  match fst (file_api f r) with
  | SReturn c ann => c = -1 /\ ann = false
  | SRaise _ => True
  end /\ snd (file_api f r) = None /\ string_api r <> RNone.
Proof. exact failure_classes. Qed.
