(** C14 — A failed assembly is never reported as success. *)
From Coq Require Import ZArith List.
From A816 Require Import Model.Assemble Proofs.AssembleProofs.
Open Scope Z_scope.

(** The file APIs return status 0 exactly when every statement was assembled and the writer
    accepted every block; they log "Success !" exactly with status 0. *)
Theorem C14_status : forall f r,
  ((exists ann file, file_api f r = (SReturn 0 ann, file)) <->
   (exists o fin bs, r = AOk o fin /\ output_file f o = Ok bs)) /\
  (forall code ann file, file_api f r = (SReturn code ann, file) ->
     (ann = true <-> code = 0) /\ (file <> None -> code = 0) /\ (code = 0 \/ code = -1)).
Proof.
  intros f r. split; [exact (file_api_zero_iff f r)|].
  intros code ann file H. destruct (file_api_announces f r code ann file H) as [A B].
  split; [exact A|]. split; [exact B|]. exact (file_api_codes f r code ann file H).
Qed.

(** The in-memory API returns None exactly on success (an error string or an exception otherwise). *)
Theorem C14_string_api : forall r, string_api r = RNone <-> exists o f, r = AOk o f.
Proof. exact string_api_none_iff. Qed.

(** The command line exits with status 0 exactly when the assembly succeeded and was written. *)
Theorem C14_cli : forall f r,
  cli_exit (fst (file_api f r)) = 0 <-> exists o fin bs, r = AOk o fin /\ output_file f o = Ok bs.
Proof. exact cli_exit_zero_success. Qed.

(** Success means written: status 0 comes with the output file built from every emitted block. *)
Theorem C14_success_writes : forall f o fin,
  file_api f (AOk o fin) =
  match output_file f o with
  | Ok bs => (SReturn 0 true, Some bs)
  | Err ERuntime => (SReturn (-1) false, None)
  | Err k => (SRaise k, None)
  | OutOfFuel => (SRaise EOther, None)
  end.
Proof. exact front_is_memory_assembly. Qed.

(** Every way of failing (scan error, parse error, NodeError, RuntimeError, any other exception)
    gives status -1 without a success message, or lets the exception through. *)
Theorem C14_failure_classes : forall f r,
  (forall o fin, r <> AOk o fin) ->
  match fst (file_api f r) with
  | SReturn c ann => c = -1 /\ ann = false
  | SRaise _ => True
  end /\ snd (file_api f r) = None /\ string_api r <> RNone.
Proof. exact failure_classes. Qed.

(** The run-time oracle of this property (Oracle/E2Eo.v, [c14_ok]: a planted error reaches every
    caller, and all entry points tell the same story) cannot raise a false alarm on observations
    that agree with the model ([corr]) — whenever the output writer accepts the blocks.  When the
    in-memory assembly succeeds but the IPS/SFC writer refuses a block (an offset the format cannot
    hold), the string API (which has no file writer) and the file APIs legitimately differ and the
    oracle objects: such programs are outside what the checks generate (second theorem). *)
From A816 Require Import Oracle.E2Eo Proofs.FrontOracle.
Theorem C14_oracle_sound : forall t c must_fail,
  corr t c = true -> cli_consistent t c -> writer_ok t c ->
  (must_fail = false \/ forall o fin, model_result t c <> AOk o fin) ->
  c14_ok must_fail c = true.
Proof. exact c14_no_false_alarm. Qed.
Theorem C14_oracle_domain : forall t c must_fail o fin,
  corr t c = true -> cli_consistent t c ->
  model_result t c = AOk o fin -> (forall bs, output_file (fcfg c) o <> Ok bs) ->
  ec_api c <> FNone ->
  c14_ok must_fail c = false /\ c12_ok c = false.
Proof. exact c14_alarm_when_writer_refuses. Qed.
