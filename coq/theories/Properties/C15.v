(** C15 — Every input terminates.  Coq functions are total, so the content is fuel sufficiency:
    every loop of the implementation is modelled with explicit fuel (faithful about non-progress),
    and the out-of-fuel result is proved unreachable with fuel that is a simple function of the
    input's size. *)
From Coq Require Import ZArith List Arith.
From A816 Require Import Model.Assemble Spec.EnvSem Proofs.ScannerProofs Proofs.ParserProofs Proofs.ParserFuelProofs
     Proofs.ResolverProofs Proofs.IpsProofs Spec.TableSpec Proofs.TableEncode Proofs.TableDecode Proofs.TerminationProofs.
Open Scope nat_scope.

(** Scanning: |input| + 2 driver iterations suffice, for any text (unterminated strings and
    comments, byte soup, NULs included), for both entry points. *)
Theorem C15_scan : forall tabs file s, scan_with_fuel (length s + 2) tabs file s <> ScanOutOfFuel.
Proof. exact scan_fuel_sufficient. Qed.
Theorem C15_scan_expression : forall file s, scan_expression_with_fuel (length s + 2) file s <> ScanOutOfFuel.
Proof. exact scan_expression_fuel_sufficient. Qed.

(** Parsing: 2|tokens| + 4 suffices for any token list; included files consume include depth. *)
Theorem C15_parse : forall inc ts incfuel, (forall n, inc n <> OutOfFuel) ->
  parse_program (parse_fuel (length ts)) incfuel inc ts <> PFuel.
Proof. exact parse_fuel_sufficient. Qed.

(** Name lookup walks the scope chain at most (index + 1) steps. *)
Theorem C15_lookup : forall r name,
  wf_scopes (r_scopes r) -> (r_cur r < length (r_scopes r))%nat -> value_for r name <> OutOfFuel.
Proof. intros r name H1 H2. exact (proj2 (value_for_total r name H1 H2)). Qed.

(** The IPS split loop and the patch reader. *)
Theorem C15_ips_writer : forall c blocks, ips_write c blocks <> OutOfFuel.
Proof. exact ips_write_fuel. Qed.
Theorem C15_ips_reader : forall d f, read_ips d f <> OutOfFuel.
Proof. exact read_ips_fuel. Qed.

(** Table codec. *)
Theorem C15_to_bytes : forall t s,
  (exists bs, to_bytes t s = Ok bs) \/
  (to_bytes t s = Err EValue /\ exists pre suf v rest, s = pre ++ suf /\ joker_at suf v rest /\ (255 < v)%Z).
Proof. exact to_bytes_total. Qed.
Theorem C15_to_text : forall t bs, to_text t bs <> OutOfFuel.
Proof. exact to_text_total. Qed.


(** The whole pipeline: from any source text, with any files and options, the model never runs
    out of fuel — scanning, parsing (includes too), code generation, both label passes, emission:
    it ends with an output or a reported error.  Macro recursion and nesting are bounded by the
    depth fuel, whose exhaustion is the reported RecursionError (an error value, not OutOfFuel);
    [.for] iterates Z.to_nat (b - a) times; every other traversal is structural. *)
Theorem C15_assemble : forall t fs c fname src, assemble_source t fs c fname src <> AFuel.
Proof. exact assemble_source_terminates. Qed.
Theorem C15_codegen : forall w, world_nf w -> forall fuel s b, sinv (cg_r s) ->
  code_gen_fuel w fuel s b <> OutOfFuel /\
  forall s' ns, code_gen_fuel w fuel s b = Ok (s', ns) -> sinv (cg_r s') /\ Forall node_nf ns.
Proof. exact code_gen_total. Qed.
Theorem C15_passes : forall w r ns, world_nf w -> sinv r -> Forall node_nf ns -> assemble_nodes w r ns <> OutOfFuel.
Proof. exact assemble_nodes_total. Qed.
