(** C16 — Output does not depend on how the source text is laid out.
    (Partial: see the harness note — scanner spacing/comment insensitivity is checked by
    metamorphic correspondence; what is proved is everything after the token stream.) *)
From Coq Require Import ZArith List.
From A816 Require Import Model.Codegen Model.Parser Proofs.CodegenProofs Proofs.IncludeProofs
     Proofs.ParserProofs Proofs.ParserCaseProofs.
Open Scope Z_scope.

(** A file brought in with .include becomes a block that code generation flattens, in the
    current scope ... *)
Theorem C16_include_flattens : forall w gen s run fi, gen_one w gen s (ABlock run fi) = gen s run.
Proof. exact include_flattens. Qed.
(** ... so moving a run of statements into an included file leaves the generated nodes (hence the
    emitted bytes, their offsets) and the resolver state (hence all symbol values) unchanged. *)
Theorem C16_include_moved : forall w f s before run after fi r,
  code_gen_fuel w (S f) s (before ++ run ++ after) = Ok r ->
  code_gen_fuel w (S (S f)) s (before ++ [ABlock run fi] ++ after) = Ok r.
Proof. exact include_moved. Qed.
Theorem C16_fuel_monotone : forall w f, gen_le (code_gen_fuel w f) (code_gen_fuel w (S f)).
Proof. exact code_gen_fuel_mono. Qed.

(** Comments (full-line, end-of-line, /* */ between statements) reach the parser as COMMENT tokens
    and are dropped at every statement boundary, at top level and inside blocks. *)
Theorem C16_comment_skipped : forall ts sub f pos acc,
  t_type (cur ts pos) = T_COMMENT ->
  pinitial ts sub (S (S f)) pos acc = pinitial ts sub (S f) (S pos) acc.
Proof. exact parse_initial_comment_skip. Qed.
Theorem C16_comment_skipped_in_block : forall ts sub f pos acc,
  t_type (cur ts pos) = T_COMMENT ->
  pblock ts sub (S (S f)) pos acc = pblock ts sub (S f) (S pos) acc.
Proof. exact parse_block_comment_skip. Qed.

(** Letter case of size suffixes and index registers: token lists equal up to the case of those
    values give the same instruction node (same error otherwise). *)
Theorem C16_case_insensitive : forall ts ts' sub f pos,
  Forall2 tci ts ts' ->
  t_type (cur ts pos) = T_OPCODE \/ t_type (cur ts pos) = T_OPCODE_NAKED ->
  rci (pdecl ts sub (S f) pos) (pdecl ts' sub (S f) pos).
Proof. exact parse_case_insensitive_partial. Qed.
(** Letter case of mnemonics: the opcode table is consulted with the lower-cased mnemonic. *)
Theorem C16_opcode_lowered : forall w gen s mode o1 o2 size operand index fi,
  lower_ascii o1 = lower_ascii o2 ->
  gen_one w gen s (AOpcode mode o1 size operand index fi) = gen_one w gen s (AOpcode mode o2 size operand index fi).
Proof. exact opcode_case_folded. Qed.

(** Scanner level.  Scanning is compositional at line ends: if [s1] ends with a newline and scans
    by itself, then scanning [s1 ++ s2] is scanning [s2] with the tokens of [s1] in front and every
    later line number shifted by the newlines of [s1] — for success and for a reported error alike. *)
From A816 Require Import Model.Scanner Proofs.ScannerSpec Proofs.ScannerPos Proofs.ScannerShift Proofs.ScannerLayout.
Theorem C16_scan_compositional : forall lx file s1 s2 toks1 eof1 lines1,
  lexicon_ok lx = true -> (exists a, s1 = a ++ [10%Z]) ->
  scan lx file s1 = ScanOk (toks1 ++ [eof1]) lines1 ->
  scan lx file (s1 ++ s2) = shift_result (count_nl s1) toks1 (removelast lines1) (scan lx file s2).
Proof. exact scan_line_compositional. Qed.

(** Hence any block of whole lines that scans to nothing significant (blank lines, lines of spaces
    and tabs, full-line [;] comments, one- or multi-line [/* */] comments) can be inserted between two
    lines — or removed — without changing the significant token stream (types and values of the
    non-comment tokens; for a failing scan: the message, column and tokens before it). *)
Theorem C16_invisible_block : forall lx file a blk b ta ea la tb eb lb,
  lexicon_ok lx = true ->
  ends_nl a -> scan lx file a = ScanOk (ta ++ [ea]) la ->
  ends_nl blk -> scan lx file blk = ScanOk (tb ++ [eb]) lb -> sig tb = [] ->
  view_of (scan lx file (a ++ blk ++ b)) = view_of (scan lx file (a ++ b)) /\
  scan lx file (a ++ blk ++ b) =
    shift_result (count_nl a) ta (removelast la) (shift_result (count_nl blk) tb (removelast lb) (scan lx file b)) /\
  scan lx file (a ++ b) = shift_result (count_nl a) ta (removelast la) (scan lx file b).
Proof. exact invisible_block_between. Qed.
Theorem C16_blank_lines : forall lx file a w b ta ea la, lexicon_ok lx = true ->
  ends_nl a -> scan lx file a = ScanOk (ta ++ [ea]) la -> all_blank w -> ends_nl w ->
  view_of (scan lx file (a ++ w ++ b)) = view_of (scan lx file (a ++ b)).
Proof. exact blank_lines_insertion. Qed.
Theorem C16_blank_lines_at_top : forall lx file w b, lexicon_ok lx = true -> all_blank w -> ends_nl w ->
  view_of (scan lx file (w ++ b)) = view_of (scan lx file b).
Proof. exact blank_lines_at_top. Qed.

(** Comment lines in closed form: the hypotheses are purely about the inserted text.  A full-line
    [;] comment (after any blank lines / indentation [w], any text [c] without a newline — NUL and
    the characters other conventions read as line ends included) and a [/* */] comment ([c] any
    text without the closing pair: newlines, [;], quotes, slashes and stars included; followed by
    blanks up to a line end) are invisible between two lines and at the top of a file. *)
From A816 Require Import Proofs.ScannerComments Proofs.ScannerColumns.
Theorem C16_line_comment : forall lx file a w c b ta ea la,
  lexicon_ok lx = true -> ends_nl a -> scan lx file a = ScanOk (ta ++ [ea]) la ->
  all_blank w -> ~ In 10%Z c ->
  view_of (scan lx file (a ++ (w ++ 59%Z :: c ++ [10%Z]) ++ b)) = view_of (scan lx file (a ++ b)).
Proof. exact line_comment_block_invisible. Qed.
Theorem C16_line_comment_at_top : forall lx file w c b,
  lexicon_ok lx = true -> all_blank w -> ~ In 10%Z c ->
  view_of (scan lx file ((w ++ 59%Z :: c ++ [10%Z]) ++ b)) = view_of (scan lx file b).
Proof. exact line_comment_block_invisible_at_top. Qed.
Theorem C16_block_comment : forall lx file a w c w2 b ta ea la,
  lexicon_ok lx = true -> ends_nl a -> scan lx file a = ScanOk (ta ++ [ea]) la ->
  all_blank w -> all_blank w2 -> ends_nl w2 -> no_close c ->
  view_of (scan lx file (a ++ (w ++ 47%Z :: 42%Z :: c ++ 42%Z :: 47%Z :: w2) ++ b)) = view_of (scan lx file (a ++ b)).
Proof. exact block_comment_invisible. Qed.
Theorem C16_block_comment_at_top : forall lx file w c w2 b,
  lexicon_ok lx = true -> all_blank w -> all_blank w2 -> ends_nl w2 -> no_close c ->
  view_of (scan lx file ((w ++ 47%Z :: 42%Z :: c ++ 42%Z :: 47%Z :: w2) ++ b)) = view_of (scan lx file b).
Proof. exact block_comment_invisible_at_top. Qed.

(** Indentation: spaces and tabs put in front of a line change nothing but the columns on that
    line — an exact equation for tokens, errors, quoted line and the recorded lines, at the top of
    a text and (with the compositionality theorem) at any line start. *)
Theorem C16_indentation_at_top : forall lx file w s, blank_nonl w ->
  scan lx file (w ++ s) = cshift_result w (scan lx file s).
Proof. exact indentation_at_top. Qed.
Theorem C16_indentation : forall lx file a w s ta ea la,
  lexicon_ok lx = true ->
  ends_nl a -> scan lx file a = ScanOk (ta ++ [ea]) la -> blank_nonl w ->
  view_nocol (scan lx file (a ++ w ++ s)) = view_nocol (scan lx file (a ++ s)) /\
  scan lx file (a ++ w ++ s) =
    shift_result (count_nl a) ta (removelast la) (cshift_result w (scan lx file s)).
Proof. exact indentation_insertion. Qed.

(** Any change inside lines is reduced to a decidable fact about the changed lines alone: two
    blocks of whole lines that scan by themselves to the same significant tokens are
    interchangeable anywhere. *)
Theorem C16_line_replacement : forall lx file a l1 l2 b ta ea la t1 e1 ls1 t2 e2 ls2,
  lexicon_ok lx = true ->
  ends_nl a -> scan lx file a = ScanOk (ta ++ [ea]) la ->
  ends_nl l1 -> scan lx file l1 = ScanOk (t1 ++ [e1]) ls1 ->
  ends_nl l2 -> scan lx file l2 = ScanOk (t2 ++ [e2]) ls2 ->
  sig t1 = sig t2 ->
  view_of (scan lx file (a ++ l1 ++ b)) = view_of (scan lx file (a ++ l2 ++ b)).
Proof. exact line_replacement. Qed.

(** Trailing blanks and end-of-line comments, for EVERY kind of line [x] (no restriction on what
    the line contains beyond scanning by itself): spaces/tabs [w] after it, and a [;] comment with
    any text [c] after those, change nothing significant — between any two lines of a text.  Side
    condition for the comment: at least one blank before the [;] (the property's own wording), or
    the line does not end in a bare mnemonic (`nop;c` scans `nop` as an identifier because the
    mnemonic recogniser wants a blank, newline or '.' after the three letters; pinned by
    Proofs/ScannerTrailing2.v, semi_after_mnemonic_differs).  [lexicon_tok]: no mnemonic of the
    live table contains a blank, newline or ';' (discharged per run by computation). *)
From A816 Require Import Proofs.ScannerTrailing1 Proofs.ScannerTrailing2.
Theorem C16_trailing_blanks : forall lx file a x w b ta ea la t1 e1 l1,
  lexicon_ok lx = true -> lexicon_tok lx = true ->
  ends_nl a -> scan lx file a = ScanOk (ta ++ [ea]) la ->
  ~ In 10%Z x -> blank_nonl w ->
  scan lx file (x ++ [10%Z]) = ScanOk (t1 ++ [e1]) l1 ->
  view_of (scan lx file (a ++ (x ++ w ++ [10%Z]) ++ b)) = view_of (scan lx file (a ++ (x ++ [10%Z]) ++ b)).
Proof. exact trailing_blanks_invisible. Qed.
Theorem C16_eol_comment : forall lx file a x w c b ta ea la t1 e1 l1,
  lexicon_ok lx = true -> lexicon_tok lx = true ->
  ends_nl a -> scan lx file a = ScanOk (ta ++ [ea]) la ->
  ~ In 10%Z x -> blank_nonl w -> ~ In 10%Z c ->
  (w <> [] \/ mem_str (map lower (slice x (length x - 3) (length x))) (lx_mnemonics lx) = false) ->
  scan lx file (x ++ [10%Z]) = ScanOk (t1 ++ [e1]) l1 ->
  view_of (scan lx file (a ++ (x ++ w ++ 59%Z :: c ++ [10%Z]) ++ b)) =
  view_of (scan lx file (a ++ (x ++ [10%Z]) ++ b)).
Proof. exact eol_comment_invisible. Qed.
Theorem C16_line_tail_at_top : forall lx file x w tl b t1 e1 l1,
  lexicon_ok lx = true -> lexicon_tok lx = true ->
  ~ In 10%Z x -> blank_nonl w -> tail_ok tl -> semi_ok lx x w tl ->
  scan lx file (x ++ [10%Z]) = ScanOk (t1 ++ [e1]) l1 ->
  view_of (scan lx file ((x ++ w ++ tl) ++ b)) = view_of (scan lx file ((x ++ [10%Z]) ++ b)).
Proof. exact line_tail_invisible_at_top. Qed.

(** Letter case at TEXT level.  The scanner is blind to ASCII letter case everywhere except in two
    places (pinned by examples in Proofs/ScannerCase2.v): directive keywords ([.DB] is not a
    keyword) and the base marker of a numeral ([0X1F] is the number 0 followed by an identifier).
    For two texts equal up to letter case whose differences avoid those two places ([case_safe]),
    scanning one succeeds iff … the other yields the same token types at the same positions with
    values equal up to case; when only mnemonics, size suffixes, index registers, numerals (hex
    digits) and comments were re-cased, every other token is identical ([tci']).  A re-cased
    hexadecimal numeral has the same value. *)
From A816 Require Import Proofs.ScannerCase1 Proofs.ScannerCase2 Proofs.ScannerCase3.
Theorem C16_case_scan : forall lx file s s' toks lines,
  kw_ok lx = true -> ci_text s s' -> case_safe s s' ->
  scan lx file s = ScanOk toks lines ->
  exists toks' lines', scan lx file s' = ScanOk toks' lines' /\ Forall2 lci lines lines' /\
    Forall2 tlow toks toks' /\ (only_zones_recased toks toks' -> Forall2 tci' toks toks').
Proof. exact scan_case_zones. Qed.
Theorem C16_case_number : forall v v', lci v v' -> nth 1 v' 0%Z = nth 1 v 0%Z ->
  eval_number v' = eval_number v.
Proof. exact eval_number_ci. Qed.
(** ... and the parser's instruction statement maps [tci']-related token lists to the same node up
    to the case of the mnemonic (which code generation folds: C16_opcode_lowered) and of numerals
    (same value).  Partial: the instruction statement only; the lifting through the statement
    loops to [parse_program] is not proved (metamorphic twins + SCAN/PARSE ties cover it). *)
Theorem C16_case_parse_partial : forall ts ts' f pos,
  Forall2 tci' ts ts' -> relp Qa (popcode ts f pos) (popcode ts' f pos).
Proof. exact parse_opcode_case_blind_partial. Qed.

(** Letter case, END TO END on source text ([assemble_source]): two texts equal up to ASCII letter
    case, differing only inside mnemonics, size suffixes, index registers, numerals (not their base
    marker) and comments, assemble to the same blocks and labels, fail with the same parse error,
    or raise the same kind of exception at the same position.  (Generic simulation of parser, code
    generation and passes over a token relation that may change values where a type test has shown
    them case-proof; [.map] numbers through [py_int_literal_ci].)  Hypotheses on the two token
    lists: only zone tokens were re-cased, base markers kept, no mnemonic spelled "else"; no
    included file. *)
From A816 Require Import Model.Assemble Proofs.CaseTextParse Proofs.CaseText.
Theorem C16_case_source : forall t fs c f s s' toks lines,
  kw_ok (lv_lex t) = true -> ci_text s s' -> case_safe s s' ->
  sf_text fs = [] ->
  scan (lv_lex t) f s = ScanOk toks lines ->
  (forall toks' lines', scan (lv_lex t) f s' = ScanOk toks' lines' ->
     only_zones_recased toks toks' /\ same_base_markers toks toks') ->
  no_else_mnemonic toks ->
  result_same (assemble_source t fs c f s) (assemble_source t fs c f s').
Proof. exact case_insensitive_source. Qed.

(** Blanks INSIDE a line: inserting spaces at a gap between two tokens — after or before
    [, ( ) [ ] # + - * & | ~ << >> =], after a label, after a mnemonic before its operand, at the
    start of a line — changes no token's type or value; tokens before the gap keep their position,
    tokens after it move right by the number of spaces.  [gap_ok] is a decidable, conservative
    description of such gaps (not inside numbers, identifiers, two-character operators, strings or
    comments, not between a mnemonic and its suffix; necessity examples gap_neg_* in
    Proofs/ScannerBlank2.v).  Spaces only: a tab inside an operand is rejected by the scanner
    (`lda 1,<TAB>x` raises: tab_in_operand). *)
From A816 Require Import Proofs.ScannerBlank1 Proofs.ScannerBlank2.
Theorem C16_blank_insertion : forall lx file a u w v b ta ea la t1 e1 l1,
  lexicon_ok lx = true -> lexicon_alpha lx = true ->
  ends_nl a -> scan lx file a = ScanOk (ta ++ [ea]) la ->
  ~ In 10%Z u -> ~ In 10%Z v -> Forall (fun c => c = 32%Z) w ->
  gap_ok lx u v = true ->
  scan lx file (u ++ v ++ [10%Z]) = ScanOk (t1 ++ [e1]) l1 ->
  view_of (scan lx file (a ++ (u ++ w ++ v ++ [10%Z]) ++ b)) =
  view_of (scan lx file (a ++ (u ++ v ++ [10%Z]) ++ b)).
Proof. exact blank_insertion_invisible. Qed.
Theorem C16_blank_insertion_columns : forall lx file u w v T L,
  lexicon_alpha lx = true -> ~ In 10%Z u -> ~ In 10%Z v -> Forall (fun c => c = 32%Z) w -> w <> [] ->
  gap_ok lx u v = true ->
  scan lx file (u ++ v ++ [10%Z]) = ScanOk T L ->
  exists O N Ls,
    T = O ++ map (colshift_tok (length u)) N /\ L = first_fwd u Ls /\
    scan lx file (u ++ w ++ v ++ [10%Z]) =
      ScanOk (O ++ map (colshift_tok (length u + length w)) N) (first_fwd (u ++ w) Ls).
Proof. exact blank_insertion_results. Qed.

(** THE LINK from token streams to output.  Two texts whose scans yield the same tokens — types and
    values of ALL tokens, comment tokens included, at any positions — assemble alike: same blocks,
    labels and every symbol value of the final resolver state, the same scan/parse error, the same
    exception kind (parser, code generation and passes never read positions; included files
    allowed).  This carries blank lines, indentation, trailing blanks, blanks inside lines and line
    breaks between tokens through to the output.  For layouts that add or remove COMMENT tokens the
    parser matters: it drops them only at statement boundaries and there is no end-of-line token,
    so a comment line between `lda #1` and a next line `+2` (which CONTINUES the statement: the two
    lines assemble as `lda #1+2`) is not "between statements" and changes the parse
    (Proofs/LayoutLink.v, comment_line_is_not_invisible).  Comment blocks in front of a text are
    invisible unconditionally; between lines under the explicit hypothesis that the two token lists
    parse alike (partial: no static sufficient condition is proved). *)
From A816 Require Import Proofs.LocationTextSim Proofs.LayoutLink.
Theorem C16_layout_link : forall t fs c f s1 s2 toks1 l1 toks2 l2,
  scan (lv_lex t) f s1 = ScanOk toks1 l1 -> scan (lv_lex t) f s2 = ScanOk toks2 l2 -> tvs toks1 = tvs toks2 ->
  result_same_up_to_positions (assemble_source t fs c f s1) (assemble_source t fs c f s2).
Proof. exact layout_link. Qed.
Theorem C16_blank_lines_assemble : forall t fs c f a w b ta ea la,
  lexicon_ok (lv_lex t) = true -> ends_nl a -> scan (lv_lex t) f a = ScanOk (ta ++ [ea]) la ->
  all_blank w -> ends_nl w ->
  result_same_up_to_positions (assemble_source t fs c f (a ++ w ++ b)) (assemble_source t fs c f (a ++ b)).
Proof. exact blank_lines_assemble. Qed.
Theorem C16_symbols_equal : forall r r', rrel sameTV r r' ->
  map s_symbols (r_scopes r) = map s_symbols (r_scopes r') /\ map s_labels (r_scopes r) = map s_labels (r_scopes r') /\
  map s_parent (r_scopes r) = map s_parent (r_scopes r') /\ r_pc r = r_pc r' /\ r_reloc r = r_reloc r'.
Proof. exact srel_symbols. Qed.
Theorem C16_line_replacement_assemble : forall t fs c f a l1 l2 b ta ea la t1 e1 ls1 t2 e2 ls2,
  lexicon_ok (lv_lex t) = true ->
  ends_nl a -> scan (lv_lex t) f a = ScanOk (ta ++ [ea]) la ->
  ends_nl l1 -> scan (lv_lex t) f l1 = ScanOk (t1 ++ [e1]) ls1 ->
  ends_nl l2 -> scan (lv_lex t) f l2 = ScanOk (t2 ++ [e2]) ls2 ->
  Forall (fun x => t_type x <> T_COMMENT) t1 -> Forall (fun x => t_type x <> T_COMMENT) t2 ->
  sig t1 = sig t2 ->
  result_same_up_to_positions (assemble_source t fs c f (a ++ l1 ++ b)) (assemble_source t fs c f (a ++ l2 ++ b)).
Proof. exact line_replacement_assemble. Qed.
Theorem C16_comment_block_at_top_assemble : forall t fs c f blk b tb eb lb,
  lexicon_ok (lv_lex t) = true ->
  ends_nl blk -> scan (lv_lex t) f blk = ScanOk (tb ++ [eb]) lb ->
  Forall (fun x => t_type x = T_COMMENT) tb ->
  result_same_up_to_positions (assemble_source t fs c f b) (assemble_source t fs c f (blk ++ b)).
Proof. exact comment_block_at_top_assemble. Qed.

(** ... and with a STATIC condition: a block of comment lines ([;] lines or a [/* */] comment)
    inserted between two lines leaves the output unchanged whenever the first token after it starts
    a statement in a way no unfinished statement can take as its continuation — an instruction, a
    directive keyword, a label, [*=], [@=], [{{], [}] or the end of the text ([s_ok]; an operator or
    an operand there would continue the previous line: shown necessary above).  No included file;
    one contiguous comment block (several: compose, the relation is transitive). *)
From A816 Require Import Proofs.LayoutLinkStatic.
Theorem C16_comment_block_between_assemble : forall t fs c f a blk b ta ea la tcs eb lb,
  lexicon_ok (lv_lex t) = true -> sf_text fs = [] ->
  ends_nl a -> scan (lv_lex t) f a = ScanOk (ta ++ [ea]) la ->
  ends_nl blk -> scan (lv_lex t) f blk = ScanOk (tcs ++ [eb]) lb ->
  tcs <> [] -> Forall comment_tok tcs ->
  (forall toks lines, scan (lv_lex t) f b = ScanOk toks lines -> s_ok (nth 0 toks eof_token)) ->
  result_same_output (assemble_source t fs c f (a ++ b)) (assemble_source t fs c f (a ++ blk ++ b)).
Proof. exact comment_block_between_assemble. Qed.
Theorem C16_comments_inserted_parse : forall inc incfuel ta cs tb,
  (forall name, exists k, inc name = Err k) ->
  cs <> [] -> Forall comment_tok cs -> s_ok (nth 0 tb eof_token) ->
  prelD (parse_program (parse_fuel (length (ta ++ tb))) incfuel inc (ta ++ tb))
        (parse_program (parse_fuel (length (ta ++ cs ++ tb))) incfuel inc (ta ++ cs ++ tb)).
Proof. exact parse_comments_inserted. Qed.

(** Moving a run of statements into an included file, ON SOURCE TEXT through the whole pipeline:
    [a], [run], [b] texts of complete lines, [L] the line [.include 'p'] and the file [p] holding
    [run].  When the text with the include line assembles, the text with the run in place assembles
    to the same blocks, the same labels and the same symbol tables.  [a] and [run] are runs of
    complete top-level statements ([parses_alone]); since the grammar has no end-of-statement token,
    the first token of [run ++ b] and of [b] must not be one a preceding statement would continue
    with ([inert]: no operator, comma, index, size, parenthesis, closing brace, nor the word "else" —
    each excluded case is an actual counterexample on the model, Proofs/IncludeMove4.v MoveExamples),
    nor an identifier right after a [.map].  Only this direction holds in general: the included
    form spends one more level of nesting and of include depth than the in-place form. *)
From A816 Require Import Proofs.IncludeMove1 Proofs.IncludeMove2 Proofs.IncludeMove4.
Theorem C16_include_moved_source : forall t fs c fname a run b L p Ta ea la Tr ep lr Tb eb lb pa pr o fin,
  lexicon_ok (lv_lex t) = true ->
  ends_nl a -> ends_nl run ->
  scan (lv_lex t) fname a = ScanOk (Ta ++ [ea]) la ->
  scan (lv_lex t) p run = ScanOk (Tr ++ [ep]) lr ->
  scan (lv_lex t) fname b = ScanOk (Tb ++ [eb]) lb ->
  include_line (lv_lex t) fname L p ->
  assoc_str (sf_text fs) p = Some run ->
  parses_alone t fs include_depth (Ta ++ [ea]) pa ->
  parses_alone t fs (pred include_depth) (Tr ++ [ep]) pr ->
  inert (cur (Tr ++ Tb ++ [eb]) 0) -> inert (cur (Tb ++ [eb]) 0) ->
  (last_is_map pa = true -> is_ty (cur (Tr ++ Tb ++ [eb]) 0) T_IDENTIFIER = false) ->
  (last_is_map pr = true -> is_ty (cur (Tb ++ [eb]) 0) T_IDENTIFIER = false) ->
  assemble_source t fs c fname (a ++ L ++ b) = AOk o fin ->
  exists o' fin',
    assemble_source t fs c fname (a ++ run ++ b) = AOk o' fin' /\
    o_blocks o' = o_blocks o /\ o_labels o' = o_labels o /\ same_symbols fin fin'.
Proof. exact include_moved_source. Qed.

Print Assumptions C16_include_moved_source.

(** The same with the include line NESTED: [a] ends inside one or more open constructs ({ } blocks,
    named scopes, macro bodies, .if / else branches, .for bodies, mixed to any depth;
    [opens_constructs] says: top-level statements, then a header, the statements before the next
    header, ..., finally the statements of the innermost body up to the end of [a]). *)
From A816 Require Import Proofs.IncludeNest2 Proofs.IncludeNest3.
Theorem C16_include_nested_source :
  forall (t : live) (fs : srcfiles) (c : config) (fname a run b L p : str)
  (Ta : list token) (ea : token) (la : list str) (Tr : list token)
  (ep : token) (lr : list str) (Tb : list token) (eb : token) (lb : list str)
  (acc0 : list ast) (fr : frame) (rest : list (list ast * frame))
  (acc1 pr : list ast) (o : output) (fin : rstate),
  ScannerPos.lexicon_ok (lv_lex t) = true ->
  ScannerLayout.ends_nl a ->
  ScannerLayout.ends_nl run ->
  scan (lv_lex t) fname a = ScanOk (Ta ++ [ea]) la ->
  scan (lv_lex t) p run = ScanOk (Tr ++ [ep]) lr ->
  scan (lv_lex t) fname b = ScanOk (Tb ++ [eb]) lb ->
  include_line (lv_lex t) fname L p ->
  assoc_str (sf_text fs) p = Some run ->
  opens_constructs t fs (Ta ++ [ea]) acc0 fr rest acc1 ->
  parses_alone t fs (Init.Nat.pred include_depth) (Tr ++ [ep]) pr ->
  inert (cur (Tr ++ Tb ++ [eb]) 0) ->
  inert (cur (Tb ++ [eb]) 0) ->
  (last_is_map acc1 = true -> is_ty (cur (Tr ++ Tb ++ [eb]) 0) T_IDENTIFIER = false) ->
  (last_is_map pr = true -> is_ty (cur (Tb ++ [eb]) 0) T_IDENTIFIER = false) ->
  assemble_source t fs c fname (a ++ L ++ b) = AOk o fin ->
  exists (o' : output) (fin' : rstate),
  assemble_source t fs c fname (a ++ run ++ b) = AOk o' fin' /\
  o_blocks o' = o_blocks o /\ o_labels o' = o_labels o /\ same_symbols fin fin'.
Proof. exact @include_nested_source. Qed.


Print Assumptions C16_include_nested_source.
