(** C16 — Output does not depend on how the source text is laid out.
    (Partial: see the harness note — scanner spacing/comment insensitivity is checked by
    metamorphic correspondence; what is proved is everything after the token stream.) *)
From Coq Require Import ZArith List.
From A816 Require Import Model.Codegen Model.Parser Proofs.CodegenProofs Proofs.IncludeProofs
     Proofs.ParserProofs Proofs.ParserCaseProofs.
Open Scope Z_scope.

(** A file brought in with .include becomes a block that code generation flattens, in the
    current scope ... *)
Theorem C16_include_flattens : forall w gen s run fi, gen_one w gen s (ABlock run fi) = gen s run.
Proof. exact include_flattens. Qed.
(** ... so moving a run of statements into an included file leaves the generated nodes (hence the
    emitted bytes, their offsets) and the resolver state (hence all symbol values) unchanged. *)
Theorem C16_include_moved : forall w f s before run after fi r,
  code_gen_fuel w (S f) s (before ++ run ++ after) = Ok r ->
  code_gen_fuel w (S (S f)) s (before ++ [ABlock run fi] ++ after) = Ok r.
Proof. exact include_moved. Qed.
Theorem C16_fuel_monotone : forall w f, gen_le (code_gen_fuel w f) (code_gen_fuel w (S f)).
Proof. exact code_gen_fuel_mono. Qed.

(** Comments (full-line, end-of-line, /* */ between statements) reach the parser as COMMENT tokens
    and are dropped at every statement boundary, at top level and inside blocks. *)
Theorem C16_comment_skipped : forall ts sub f pos acc,
  t_type (cur ts pos) = T_COMMENT ->
  pinitial ts sub (S (S f)) pos acc = pinitial ts sub (S f) (S pos) acc.
Proof. exact parse_initial_comment_skip. Qed.
Theorem C16_comment_skipped_in_block : forall ts sub f pos acc,
  t_type (cur ts pos) = T_COMMENT ->
  pblock ts sub (S (S f)) pos acc = pblock ts sub (S f) (S pos) acc.
Proof. exact parse_block_comment_skip. Qed.

(** Letter case of size suffixes and index registers: token lists equal up to the case of those
    values give the same instruction node (same error otherwise). *)
Theorem C16_case_insensitive : forall ts ts' sub f pos,
  Forall2 tci ts ts' ->
  t_type (cur ts pos) = T_OPCODE \/ t_type (cur ts pos) = T_OPCODE_NAKED ->
  rci (pdecl ts sub (S f) pos) (pdecl ts' sub (S f) pos).
Proof. exact parse_case_insensitive_partial. Qed.
(** Letter case of mnemonics: the opcode table is consulted with the lower-cased mnemonic. *)
Theorem C16_opcode_lowered : forall w gen s mode o1 o2 size operand index fi,
  lower_ascii o1 = lower_ascii o2 ->
  gen_one w gen s (AOpcode mode o1 size operand index fi) = gen_one w gen s (AOpcode mode o2 size operand index fi).
Proof. exact opcode_case_folded. Qed.

(** Scanner level.  Scanning is compositional at line ends: if [s1] ends with a newline and scans
    by itself, then scanning [s1 ++ s2] is scanning [s2] with the tokens of [s1] in front and every
    later line number shifted by the newlines of [s1] — for success and for a reported error alike. *)
From A816 Require Import Model.Scanner Proofs.ScannerSpec Proofs.ScannerPos Proofs.ScannerShift Proofs.ScannerLayout.
Theorem C16_scan_compositional : forall lx file s1 s2 toks1 eof1 lines1,
  lexicon_ok lx = true -> (exists a, s1 = a ++ [10%Z]) ->
  scan lx file s1 = ScanOk (toks1 ++ [eof1]) lines1 ->
  scan lx file (s1 ++ s2) = shift_result (count_nl s1) toks1 (removelast lines1) (scan lx file s2).
Proof. exact scan_line_compositional. Qed.

(** Hence any block of whole lines that scans to nothing significant (blank lines, lines of spaces
    and tabs, full-line [;] comments, one- or multi-line [/* */] comments) can be inserted between two
    lines — or removed — without changing the significant token stream (types and values of the
    non-comment tokens; for a failing scan: the message, column and tokens before it). *)
Theorem C16_invisible_block : forall lx file a blk b ta ea la tb eb lb,
  lexicon_ok lx = true ->
  ends_nl a -> scan lx file a = ScanOk (ta ++ [ea]) la ->
  ends_nl blk -> scan lx file blk = ScanOk (tb ++ [eb]) lb -> sig tb = [] ->
  view_of (scan lx file (a ++ blk ++ b)) = view_of (scan lx file (a ++ b)) /\
  scan lx file (a ++ blk ++ b) =
    shift_result (count_nl a) ta (removelast la) (shift_result (count_nl blk) tb (removelast lb) (scan lx file b)) /\
  scan lx file (a ++ b) = shift_result (count_nl a) ta (removelast la) (scan lx file b).
Proof. exact invisible_block_between. Qed.
Theorem C16_blank_lines : forall lx file a w b ta ea la, lexicon_ok lx = true ->
  ends_nl a -> scan lx file a = ScanOk (ta ++ [ea]) la -> all_blank w -> ends_nl w ->
  view_of (scan lx file (a ++ w ++ b)) = view_of (scan lx file (a ++ b)).
Proof. exact blank_lines_insertion. Qed.
Theorem C16_blank_lines_at_top : forall lx file w b, lexicon_ok lx = true -> all_blank w -> ends_nl w ->
  view_of (scan lx file (w ++ b)) = view_of (scan lx file b).
Proof. exact blank_lines_at_top. Qed.
