(** C17 — Errors point at the statement that caused them. *)
From Coq Require Import ZArith List Arith.
From A816 Require Import Model.Assemble Proofs.ScannerSpec Proofs.ScannerProofs Proofs.LocationProofs.
Open Scope nat_scope.

(** The scanner's line tracking is an invariant of every primitive. *)
Theorem C17_inv :
  (forall file s, Inv (init_sc file s)) /\
  (forall s, Inv s -> Inv (snd (next s))) /\
  (forall s c n, Inv s -> Inv (snd (accept s c n))) /\
  (forall c n F s s', Inv s -> accept_run F s c n = LOk s' -> Inv s') /\
  (forall s, Inv s -> Inv (ignore s)) /\
  (forall s ty, Inv s -> Inv (emit s ty)) /\
  (forall s p, Inv s -> p <= length (inp s) ->
               no_nl (inp s) (Nat.min p (pos s)) (Nat.max p (pos s)) -> Inv (set_pos s p)) /\
  (forall s, Inv s -> loff s <= pos s /\ no_nl (inp s) (loff s) (pos s)).
Proof. exact scan_inv. Qed.

(** Every non-comment token carries the line and column of the offset it starts at (closed forms
    over the raw text), and lines[line] is that line's text: this is what a NodeError prints
    through the file_info token of its statement. *)
Theorem C17_token_pos : forall tabs file s toks lines,
  lexicon_ok tabs = true -> scan tabs file s = ScanOk toks lines ->
  Forall (fun t => t_type t = T_COMMENT \/
                   exists off, tok_at s file off t /\
                               nth_error lines (line_of s off) = Some (line_text s (line_of s off))) toks.
Proof. exact token_pos_correct. Qed.
Theorem C17_lines : forall tabs file s toks lines,
  lexicon_ok tabs = true -> scan tabs file s = ScanOk toks lines -> lines = split_nl s.
Proof. exact scan_lines_correct. Qed.

(** Lexical errors (invalid character, unterminated string / comment, bad size suffix, bad index
    register, unknown keyword) are reported at the line and column of the offending token's start,
    and the quoted line is that line. *)
Theorem C17_lex_error : forall tabs file s e,
  lexicon_ok tabs = true -> scan tabs file s = ScanErr e ->
  Forall (tok_ok s file) (se_toks e) /\
  exists off, off <= length s /\ se_line e = Z.of_nat (line_of s off) /\ se_col e = col_of s off /\
              site s (se_msg e) off /\ quoted_ok s off (se_quoted e).
Proof. exact lex_error_pos_correct. Qed.

(** A NodeError raised in a pass points at the file_info token of the node that failed. *)
Theorem C17_node_error_label_pass : forall w ns r a k site,
  label_site w r ns a = Some (k, site) -> exists n, In n ns /\ site = node_fi n.
Proof. exact label_site_is_node. Qed.
Theorem C17_node_error_emit : forall w ns st addrs k site,
  emit_site w st ns addrs = Some (k, site) -> site = None \/ exists n, In n ns /\ site = node_fi n.
Proof. exact emit_site_is_node. Qed.

(** The location does not depend on what precedes the statement, only on how many lines do:
    for any prefix made of whole lines (comments, blank lines, blocks, macro definitions,
    multi-line comments, anything) the line number is shifted by the prefix's newline count and
    the column and the quoted line are unchanged. *)
Theorem C17_prefix_line : forall pre s off, line_of (pre ++ s) (length pre + off) = count_nl pre + line_of s off.
Proof. exact line_of_prefix. Qed.
Theorem C17_prefix_col : forall pre s off, ends_line pre -> col_of (pre ++ s) (length pre + off) = col_of s off.
Proof. exact col_of_prefix. Qed.
Theorem C17_prefix_text : forall pre s k, ends_line pre -> line_text (pre ++ s) (count_nl pre + k) = line_text s k.
Proof. exact line_text_prefix. Qed.

(** Which token a statement's node carries as its file_info (the token error messages point at): a
    token of the statement itself, at a fixed offset from the statement's first token — 0 for
    instructions, labels, data directives, macro applications, assignments, blocks; 1 for [*=]/[@=]
    (first token of the expression), [.scope]/[.macro]/[.for]/[.struct] (the name), [.if], [.map],
    [.include_ips], [{{name}}]; for [.incbin]/[.table] the token AFTER the statement (they raise no
    located error).  Never a token of a preceding statement. *)
From A816 Require Import Model.Parser Proofs.ParserFileInfo.
Theorem C17_file_info : forall ts sub f pos a pos',
  pdecl ts sub (S f) pos = POk (Some a, pos') ->
  fi_of a = cur ts (pos + fi_offset ts pos) /\
  pos + fi_offset ts pos <= pos' /\ (fi_after ts pos = false -> pos + fi_offset ts pos < pos').
Proof. exact pdecl_file_info. Qed.
Theorem C17_file_info_not_before : forall ts sub f pos a pos',
  pdecl ts sub (S f) pos = POk (Some a, pos') -> exists i, pos <= i <= pos' /\ fi_of a = cur ts i.
Proof. exact pdecl_file_info_not_before. Qed.

(** COMPOSED, on source text through the whole pipeline ([assemble_source]).  "The reported
    location does not depend on what precedes the statement, only on how many lines do":
    (1) comment / blank lines [pad] put in front of ANY source shift every report (scanner error,
    parser error token, NodeError site) by exactly [count_nl pad] lines — same file, message,
    column, quoted text — and change nothing else (same blocks and labels on success);
    (2) two layouts [pre1], [pre2] of the same prefix statements (same token stream, any
    distribution over lines) followed by the same [rest]: a NodeError raised for a statement of
    [rest] is reported with the same token, column and file, its line moved by the difference of
    the prefixes' line counts.  Both rest on: the scanner is compositional at line ends, the parser
    never reads positions, code generation and the passes never read positions
    ([parse_program_related], [assemble_program_rel]).  Restriction: no included file
    ([sf_text fs = []]; an included file's own tokens are not shifted). *)
From A816 Require Import Model.Assemble Proofs.ScannerShift Proofs.ScannerLayout Proofs.LocationText.
Theorem C17_leading_lines : forall t fs c fname pad cp eofp lp,
  lexicon_ok (lv_lex t) = true -> ends_nl pad ->
  scan (lv_lex t) fname pad = ScanOk (cp ++ [eofp]) lp ->
  Forall (fun x => t_type x = T_COMMENT) cp -> sf_text fs = [] ->
  forall src,
  result_shifted (count_nl pad) (assemble_source t fs c fname src) (assemble_source t fs c fname (pad ++ src)).
Proof. exact leading_lines_shift. Qed.
Theorem C17_prefix_only_counts : forall t fs c fname pre1 pre2 tp1 tp2 e1 e2 l1 l2,
  lexicon_ok (lv_lex t) = true -> ends_nl pre1 -> ends_nl pre2 ->
  scan (lv_lex t) fname pre1 = ScanOk (tp1 ++ [e1]) l1 ->
  scan (lv_lex t) fname pre2 = ScanOk (tp2 ++ [e2]) l2 ->
  Forall2 (fun x y => t_type y = t_type x /\ t_value y = t_value x) tp1 tp2 ->
  Forall (fun x => forall p, t_pos x = Some p -> tp_line p < Z.of_nat (count_nl pre1)) tp1 ->
  sf_text fs = [] ->
  forall rest kd s p,
  assemble_source t fs c fname (pre1 ++ rest) = AExc kd (Some s) -> t_pos s = Some p ->
  Z.of_nat (count_nl pre1) <= tp_line p ->
  exists s', assemble_source t fs c fname (pre2 ++ rest) = AExc kd (Some s') /\
             t_type s' = t_type s /\ t_value s' = t_value s /\
             t_pos s' = Some {| tp_line := tp_line p + (Z.of_nat (count_nl pre2) - Z.of_nat (count_nl pre1));
                                tp_col := tp_col p; tp_file := tp_file p |}.
Proof. exact prefix_only_counts_site. Qed.
(** Every token of the part behind a prefix of whole lines has the position of the same token
    scanned alone, its line increased by the prefix's line count, and quotes the same source line. *)
Theorem C17_rest_tokens : forall lx file pre rest tp eofp lp toks lines t,
  lexicon_ok lx = true -> ends_nl pre ->
  scan lx file pre = ScanOk (tp ++ [eofp]) lp ->
  scan lx file rest = ScanOk toks lines ->
  In t toks -> t_type t <> T_COMMENT ->
  exists off lines',
    scan lx file (pre ++ rest) = ScanOk (tp ++ map (shift_tok (count_nl pre)) toks) lines' /\
    tok_at rest file off t /\
    t_pos (shift_tok (count_nl pre) t) =
      Some {| tp_line := Z.of_nat (count_nl pre + line_of rest off); tp_col := col_of rest off; tp_file := file |} /\
    nth_error lines' (count_nl pre + line_of rest off) = Some (line_text rest (line_of rest off)).
Proof. exact rest_token_location. Qed.

(** The same two statements WITH included files (no included path is the main file's name): tokens
    of the main file move, tokens of included files stay; an error inside an included file is
    reported at the same place with or without the lines in front of the main file. *)
From A816 Require Import Proofs.IncludeLoc.
Theorem C17_leading_lines_includes : forall t fs c fname pad cp eofp lp,
  lexicon_ok (lv_lex t) = true -> ends_nl pad ->
  scan (lv_lex t) fname pad = ScanOk (cp ++ [eofp]) lp ->
  Forall (fun x => t_type x = T_COMMENT) cp ->
  Forall (fun pt => str_eqb (fst pt) fname = false) (sf_text fs) ->
  forall src,
  result_shifted_inc fname (count_nl pad) (assemble_source t fs c fname src) (assemble_source t fs c fname (pad ++ src)).
Proof. exact leading_lines_shift_inc. Qed.

(** The end-of-file token of every successful scan: it is the last token and the only EOF, carries
    the last line (= the number of line ends of the text) and the length of that last line as its
    column, and the line Token.trace() quotes for it through its special case (file.lines[-1]) is the
    line file.lines[line] the general rule would quote: a "reached the end" parse error names the
    last line of the file that ended. *)
From A816 Require Import Proofs.EofToken.
Theorem C17_eof_token : forall lx file s toks lines,
  lexicon_ok lx = true -> scan lx file s = ScanOk toks lines -> eof_spec file s toks lines.
Proof. exact scan_eof_token. Qed.

Theorem C17_eof_token_expression : forall file s toks lines,
  scan_expression file s = ScanOk toks lines -> eof_spec file s toks lines.
Proof. exact scan_expression_eof_token. Qed.

Theorem C17_eof_trace : forall lx file s toks lines,
  lexicon_ok lx = true -> scan lx file s = ScanOk toks lines ->
  Forall (fun t => Messages.token_trace lines t = token_trace_plain lines t) toks.
Proof. exact eof_trace_special_case_redundant. Qed.

(** Where a ParserSyntaxError points: at a token of an included file's own parse, or at the token at
    an index i of the token list (past the end: the position-less EOF) such that every token list
    with the same first i + 1 tokens fails at that same token — the statements behind the reported
    token have no say in the report.  The one exception is spelled out: "( e , x )" followed by an
    operator is reported at the index register, and then the next two tokens matter. *)
From A816 Require Import Proofs.ParseFail.
Theorem C17_parse_error_locus : forall fuel incfuel inc ts t,
  parse_program fuel incfuel inc ts = PErr EParse (Some t) ->
  (exists name toks j, incfuel = S j /\ inc name = Ok toks /\
                       parse_file j inc (parse_fuel (length toks)) toks = PErr EParse (Some t)) \/
  exists i, t = nth i ts eof_token /\
    ((forall ts', agree (S i) ts ts' -> parse_program fuel incfuel inc ts' = PErr EParse (Some t)) \/
     (quirk ts i /\
      forall ts', agree (i + 3) ts ts' -> parse_program fuel incfuel inc ts' = PErr EParse (Some t))).
Proof. exact parse_error_locus. Qed.

Theorem C17_parse_error_token : forall fuel incfuel inc ts t,
  parse_program fuel incfuel inc ts = PErr EParse (Some t) ->
  (exists name toks j, incfuel = S j /\ inc name = Ok toks /\
                       parse_file j inc (parse_fuel (length toks)) toks = PErr EParse (Some t)) \/
  In t ts \/ t = eof_token.
Proof. exact parse_error_token. Qed.

Print Assumptions C17_eof_token.
Print Assumptions C17_eof_token_expression.
Print Assumptions C17_eof_trace.
Print Assumptions C17_parse_error_locus.
Print Assumptions C17_parse_error_token.
