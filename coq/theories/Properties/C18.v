(** C18 — table-encoded text follows the table and round-trips.
    Statements only; each is closed by [exact] of a lemma from Proofs/Table*.v.
    [es] is a table file as its lines in order (text, code, ignore count); [t] the object
    [Table(path)] builds from it; [to_bytes] runs with fuel = length of the string + 1. *)
From Coq Require Import ZArith List Lia.
From A816 Require Import Spec.TableSpec Proofs.TableProofs Proofs.TableEncode Proofs.TableDecode
     Proofs.TableOracle Proofs.TableScope.
Open Scope Z_scope.

(** A table file with at least one line loads (an empty one is ValueError). *)
Theorem C18_loads : forall es, es <> [] -> exists t, table_of_entries es = Ok t.
Proof. exact table_of_entries_ok. Qed.

(** [to_bytes] = greedy tokenisation: "[0xNN]" -> raw byte; else the longest entry text that is a
    prefix -> the code on the last line with that text; else skip one character.  No hypothesis on
    the table or the string is needed. *)
Theorem C18_to_bytes : forall es t, table_of_entries es = Ok t ->
  forall s bs, to_bytes t s = Ok bs <-> Tok es s bs.
Proof. exact to_bytes_spec. Qed.

(** Fuel sufficiency and the only error: [to_bytes] never runs out of fuel; it either succeeds or
    raises ValueError, and then some position of the string carries an escape above 0xFF. *)
Theorem C18_to_bytes_total : forall t s,
  (exists bs, to_bytes t s = Ok bs) \/
  (to_bytes t s = Err EValue /\ exists pre suf v rest, s = pre ++ suf /\ joker_at suf v rest /\ 255 < v).
Proof. exact to_bytes_total. Qed.

(** The [min(len(text), max_text_length)] bound (length of the whole text, not of the remainder)
    does not matter: every bound that covers the remainder gives the same result. *)
Theorem C18_bound_quirk_harmless : forall es t s total, table_of_entries es = Ok t -> (length s <= total)%nat ->
  to_bytes_loop (S (length s)) t total s [] = to_bytes t s.
Proof. exact to_bytes_bound_irrelevant. Qed.

(** The two forms of the specification agree, and the specification is a function. *)
Theorem C18_tok_items : forall es s bs, Tok es s bs <-> exists its, Toks es s its /\ bs = bytes_of its.
Proof. exact Tok_Toks. Qed.
Theorem C18_tok_functional : forall es s bs bs', Tok es s bs -> Tok es s bs' -> bs = bs'.
Proof. exact Tok_functional. Qed.

(** Round trip: codes unique, non-empty and prefix-free, no ignore entries, no escape in [s]
    => decoding the emitted bytes returns the texts of the matched entries, in order. *)
Theorem C18_roundtrip : forall es t s, table_of_entries es = Ok t -> rt_table es -> joker_free s ->
  exists its, Toks es s its /\ to_bytes t s = Ok (bytes_of its) /\ to_text t (bytes_of its) = Ok (texts_of its).
Proof. exact roundtrip. Qed.
(** ... also for strings with escapes elsewhere, as long as the tokenisation took none. *)
Theorem C18_roundtrip_items : forall es t, table_of_entries es = Ok t -> rt_table es ->
  forall s its, Toks es s its -> Forall not_joker its ->
  to_bytes t s = Ok (bytes_of its) /\ to_text t (bytes_of its) = Ok (texts_of its).
Proof. exact roundtrip_items. Qed.

(** Single-character tables: a string over the table alphabet round-trips exactly. *)
Theorem C18_single : forall es t s, table_of_entries es = Ok t -> rt_table es ->
  single_char_texts es -> over_alphabet es s -> joker_free s ->
  exists bs, to_bytes t s = Ok bs /\ to_text t bs = Ok s.
Proof. exact roundtrip_single. Qed.
Theorem C18_no_bracket_joker_free : forall s, ~ In 91 s -> joker_free s.
Proof. exact no_bracket_joker_free. Qed.

(** [to_text] never runs out of fuel either. *)
Theorem C18_to_text_total : forall t bs, to_text t bs <> OutOfFuel.
Proof. exact to_text_total. Qed.

(** Layout: the address advance of pc_after is by the length of exactly the bytes emit returns. *)
Theorem C18_length : forall b tbl s pc,
  text_pc_after b tbl s pc = (do bs <- text_emit tbl s; addr_add b pc (Z.of_nat (length bs))).
Proof. exact text_length_agrees. Qed.

(** Scoping: the table a [.text] node captured (parent walk of Scope.get_table at construction) is
    the one loaded last before it in the innermost enclosing block that loaded one before it ... *)
Theorem C18_scope : forall prog r, gen_body prog [None] = Ok r -> Forall2 node_rel (snd r) (spec_texts prog).
Proof. exact scope_nodes. Qed.
(** ... so the program's text bytes are the tokenisations under the lexically visible tables. *)
Theorem C18_program : forall prog r, gen_body prog [None] = Ok r ->
  forall bs, assemble_texts prog = Ok bs <-> EmitSpec (spec_texts prog) bs.
Proof. exact scope_program. Qed.

(** The oracle's executable specification is the inductive one. *)
Theorem C18_oracle_tokenise : forall es s its, tokenise es s = Some its <-> Toks es s its.
Proof. exact tokenise_iff. Qed.
Theorem C18_oracle_rt_table : forall es, rt_table_b es = true <-> rt_table es.
Proof. exact rt_table_b_iff. Qed.

(** Non-vacuity: the overlapping table a, b, ab, abc (with a duplicate text) loads, satisfies the
    round-trip hypotheses, and longest match + escape + skip are all exercised. *)
Definition ex_table : list entry :=
  [([97], [65], None); ([98], [66], None); ([97; 98], [67; 68], None); ([97; 98; 99], [69; 70; 71], None);
   ([98], [72], None)].
Example C18_nonvacuous_encode :
  exists t, table_of_entries ex_table = Ok t /\
    (* "abcab[0x41]zb" -> abc, ab, escape, skip z, b (last line wins) *)
    to_bytes t [97; 98; 99; 97; 98; 91; 48; 120; 52; 49; 93; 122; 98] = Ok [69; 70; 71; 67; 68; 65; 72] /\
    Tok ex_table [97; 98; 99; 97; 98; 91; 48; 120; 52; 49; 93; 122; 98] [69; 70; 71; 67; 68; 65; 72] /\
    to_bytes t [91; 48; 120; 49; 50; 51; 93] = Err EValue.
Proof.
  destruct (table_of_entries ex_table) as [t| |] eqn:E; try discriminate. exists t.
  assert (H : to_bytes t [97; 98; 99; 97; 98; 91; 48; 120; 52; 49; 93; 122; 98] = Ok [69; 70; 71; 67; 68; 65; 72])
    by (vm_compute in E; injection E as <-; reflexivity).
  split; [reflexivity|]. split; [exact H|]. split; [exact (proj1 (to_bytes_spec _ _ E _ _) H)|].
  vm_compute in E. injection E as <-. reflexivity.
Qed.
Example C18_nonvacuous_roundtrip :
  rt_table ex_table /\ joker_free [97; 98; 99; 97; 98; 122; 98] /\
  exists t, table_of_entries ex_table = Ok t /\
    to_text t [69; 70; 71; 67; 68; 72] = Ok [97; 98; 99; 97; 98; 98].
Proof.
  split; [apply rt_table_b_iff; reflexivity|]. split.
  - apply no_bracket_joker_free. cbn [In]. intros H. repeat destruct H as [H|H]; try discriminate H. exact H.
  - destruct (table_of_entries ex_table) as [t| |] eqn:E; try discriminate. exists t.
    split; [reflexivity|]. vm_compute in E. injection E as <-. reflexivity.
Qed.
Example C18_nonvacuous_single :
  let es := [([97], [1], None); ([98], [2], None)] in
  rt_table es /\ single_char_texts es /\ over_alphabet es [98; 97; 98].
Proof.
  cbv zeta. split; [apply rt_table_b_iff; reflexivity|]. split.
  - intros e [<-|[<-|[]]]; reflexivity.
  - intros ch [<-|[<-|[<-|[]]]].
    + exists ([98], [2], None). split; [right; left; reflexivity|reflexivity].
    + exists ([97], [1], None). split; [left; reflexivity|reflexivity].
    + exists ([98], [2], None). split; [right; left; reflexivity|reflexivity].
Qed.

(** Note (not a violation of C18): [max_bytes_length] is taken over the codes still in [lookup],
    so a longer code whose text was re-assigned by a later line is never tried by [to_text]:
    with "414243=a" then "44=a", b"ABC" decodes to "[0x41][0x42][0x43]", not to "a". *)
Example C18_note_max_bytes_quirk :
  exists t, table_of_entries [([97], [65; 66; 67], None); ([97], [68], None)] = Ok t /\
    to_text t [65; 66; 67] = Ok [91; 48; 120; 52; 49; 93; 91; 48; 120; 52; 50; 93; 91; 48; 120; 52; 51; 93] /\
    to_text t [68] = Ok [97].
Proof. eexists. split; [reflexivity|]. split; reflexivity. Qed.
