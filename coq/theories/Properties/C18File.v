(** C18, the table file as TEXT — closes the "[.tbl] line regex is modelled by its parsed result" gap.
    Statements only; each is closed by [exact] of a lemma from Proofs/TableFileProofs.v.

    [table_of_file raw]  = Table(path) on a file whose decoded characters are [raw]
    [table_of_text s]    = the same on a text whose line ends are already "\n"
    [match_table_line l] = table_line_regex.match(l): Some (byte, ignore, text) groups
    [parse_table_line_text t l] = Table.parse_table_line(l) on the object [t]
    [render_line w]      = a line as written by the author of a table file: hex of the code bytes
                           (case per digit [w_upper]), optional ':' + decimal digits, blanks, '=',
                           the text with newlines written as backslash-n. *)
From Coq Require Import ZArith List Bool Lia.
From A816 Require Import Model.TableFile Proofs.TableFileProofs.
From A816 Require Spec.TableSpec.
Open Scope Z_scope.

(** ** The regular expression is deterministic *)

(** A backtracking matcher (greedy, first alternative first; [bt] in Proofs/TableFileProofs.v) run
    on the expression computes exactly [match_table_line] on every string. *)
Theorem C18F_match_deterministic : forall line,
  groups_of (re_match table_line_rx line) = match_table_line line.
Proof. exact match_deterministic. Qed.

(** The search is sound and complete for declarative matching [rm] (any expression). *)
Theorem C18F_search_sound : forall r s e', re_match r s = Some e' -> exists s', rm r s [] s' e'.
Proof. exact re_match_some. Qed.
Theorem C18F_search_complete : forall r s, re_match r s = None -> forall s' e', ~ rm r s [] s' e'.
Proof. exact re_match_none. Qed.

(** EVERY declarative match of the line expression has the [byte] and [ignore] groups of
    [match_table_line] and a non-empty prefix of its [text]: the order in which a regex engine
    explores the alternatives cannot change the outcome. *)
Theorem C18F_match_unique_groups : forall line s' e', rm table_line_rx line [] s' e' ->
  exists b ig t, match_table_line line = Some (b, ig, t) /\
    group e' 0 = Some b /\ group e' 1 = ig /\
    exists t' u, group e' 2 = Some t' /\ t' <> [] /\ t = t' ++ u.
Proof. exact match_unique_groups. Qed.
Theorem C18F_match_exists_iff : forall line,
  (exists s' e', rm table_line_rx line [] s' e') <-> match_table_line line <> None.
Proof. exact match_exists_iff. Qed.

(** Every string of the shape  hex+ [':' hex+] blanks '=' text  matches with exactly these groups
    ([tail] is empty or begins with the line end). *)
Theorem C18F_match_shape : forall h ig bl txt tail,
  h <> [] -> forallb is_hex_digit h = true -> ignore_shape ig ->
  forallb is_space bl = true -> txt <> [] -> forallb not_nl txt = true -> head_fails not_nl tail ->
  match_table_line (h ++ ignore_chars ig ++ bl ++ 61 :: txt ++ tail) = Some (h, ig, txt).
Proof. exact match_shape. Qed.

(** ** 1. One line round-trips *)

Theorem C18F_line_match : forall w tail, wf_line w = true -> head_fails not_nl tail ->
  match_table_line (render_line w ++ tail) =
  Some (render_hex (w_upper w) (w_code w), w_ignore w, escape (w_text w)).
Proof. exact render_line_match. Qed.

Theorem C18F_line_roundtrip : forall t w, wf_line w = true ->
  parse_table_line_text t (render_line w ++ [10]) = Ok (parse_table_line t (entry_of w)).
Proof. exact render_line_roundtrip. Qed.
Theorem C18F_line_roundtrip_no_newline : forall t w, wf_line w = true ->
  parse_table_line_text t (render_line w) = Ok (parse_table_line t (entry_of w)).
Proof. exact render_line_roundtrip_no_newline. Qed.

(** the exact condition on the text: no two-character sequence backslash,'n' *)
Theorem C18F_unescape_escape : forall t, unescape (escape t) = t <-> no_bs_n t = true.
Proof. exact unescape_escape_iff. Qed.

(** ** 2. Whole files round-trip: the gap of C18 *)

Theorem C18F_file_roundtrip : forall ws, forallb wf_file_line ws = true ->
  table_of_text (render_file ws) = table_of_entries (map entry_of ws).
Proof. exact file_roundtrip. Qed.
Theorem C18F_file_roundtrip_no_final_newline : forall ws w,
  forallb wf_file_line ws = true -> wf_file_line w = true ->
  table_of_text (render_file ws ++ render_line w) = table_of_entries (map entry_of (ws ++ [w])).
Proof. exact file_roundtrip_no_final_newline. Qed.
(** the characters on disk (universal newlines) *)
Theorem C18F_disk_roundtrip : forall ws, forallb wf_disk_line ws = true ->
  table_of_file (render_file ws) = table_of_entries (map entry_of ws).
Proof. exact disk_roundtrip. Qed.
(** every list of well-formed entries is the content of a file: its canonical rendering *)
Theorem C18F_entries_roundtrip : forall es, forallb wf_entry es = true ->
  table_of_file (render_file (map canonical_line es)) = table_of_entries es.
Proof. exact entries_roundtrip. Qed.
Theorem C18F_dec_digits : forall k, 0 <= k ->
  int10 (dec_digits k) = k /\ forallb is_dec_digit (dec_digits k) = true /\ dec_digits k <> [].
Proof. exact dec_digits_spec. Qed.

(** loading any text factors through its entries and Model/Table.v's [include] *)
Theorem C18F_include_factors : forall t s, include_text t s = do es <- entries_of_text s; include t es.
Proof. exact include_text_factors. Qed.
Theorem C18F_split_lines_concat : forall ls rest, Forall (fun l => forallb not_nl l = true) ls ->
  split_lines (concat (map (fun l => l ++ [10]) ls) ++ rest) = map (fun l => l ++ [10]) ls ++ split_lines rest.
Proof. exact split_lines_concat. Qed.

(** C18_to_bytes / C18_roundtrip read on files *)
Theorem C18F_file_to_bytes : forall es t, forallb wf_entry es = true ->
  table_of_file (render_file (map canonical_line es)) = Ok t ->
  forall s bs, to_bytes t s = Ok bs <-> TableSpec.Tok es s bs.
Proof. exact file_to_bytes_spec. Qed.
Theorem C18F_file_lines_to_bytes : forall ws t, forallb wf_disk_line ws = true ->
  table_of_file (render_file ws) = Ok t ->
  forall s bs, to_bytes t s = Ok bs <-> TableSpec.Tok (map entry_of ws) s bs.
Proof. exact file_lines_to_bytes_spec. Qed.
Theorem C18F_file_roundtrip_codec : forall ws t s, forallb wf_disk_line ws = true ->
  table_of_file (render_file ws) = Ok t -> TableSpec.rt_table (map entry_of ws) -> TableSpec.joker_free s ->
  exists its, TableSpec.Toks (map entry_of ws) s its /\ to_bytes t s = Ok (TableSpec.bytes_of its) /\
              to_text t (TableSpec.bytes_of its) = Ok (TableSpec.texts_of its).
Proof. exact file_roundtrip_codec. Qed.

(** ** 3. Rejections *)

(** a line that does not begin with a hex digit never changes the table *)
Theorem C18F_reject_not_hex : forall t line, head_fails is_hex_digit line ->
  match_table_line line = None /\ parse_table_line_text t line = Ok t.
Proof. exact reject_not_hex. Qed.
Theorem C18F_reject_blank : forall t c r, is_space c = true -> parse_table_line_text t (c :: r) = Ok t.
Proof. exact reject_blank. Qed.

(** an odd number of hex digits: ValueError (strict zip) — the line is NOT skipped *)
Theorem C18F_odd_hex : forall t line b ig txt, match_table_line line = Some (b, ig, txt) ->
  Nat.odd (length b) = true -> parse_table_line_text t line = Err EValue.
Proof. exact odd_hex_rejected. Qed.
Theorem C18F_odd_hex_line : forall t h bl txt, forallb is_hex_digit h = true -> Nat.odd (length h) = true ->
  forallb is_space bl = true -> txt <> [] -> forallb not_nl txt = true ->
  parse_table_line_text t (h ++ bl ++ 61 :: txt ++ [10]) = Err EValue.
Proof. exact odd_hex_line. Qed.
Theorem C18F_hex_pairs_parity : forall b,
  (Nat.odd (length b) = true -> hex_pairs b = Err EValue) /\
  (Nat.odd (length b) = false -> exists code, hex_pairs b = Ok code /\ (2 * length code = length b)%nat).
Proof. exact hex_pairs_parity. Qed.

(** the ignore field is matched as hex but converted in base 10 *)
Theorem C18F_ignore_letter : forall t line b g txt, match_table_line line = Some (b, Some g, txt) ->
  forallb is_dec_digit g = false -> parse_table_line_text t line = Err EValue.
Proof. exact ignore_letter_rejected. Qed.
Theorem C18F_ignore_too_long : forall t line b g txt, match_table_line line = Some (b, Some g, txt) ->
  (int_max_str_digits < length g)%nat -> parse_table_line_text t line = Err EValue.
Proof. exact ignore_too_long_rejected. Qed.

(** one failing line anywhere makes the load fail *)
Theorem C18F_bad_line_rejects_file : forall t s l k, In l (split_lines s) -> parse_line l = Err k ->
  include_text t s = Err EValue.
Proof. exact bad_line_rejects_file. Qed.

Theorem C18F_empty_file : table_of_text [] = Err EValue /\ table_of_file [] = Err EValue.
Proof. exact empty_file_rejected. Qed.
Theorem C18F_no_entries : forall s, entries_of_text s = Ok [] -> table_of_text s = Err EValue.
Proof. exact no_entries_rejected. Qed.

(** ** 4. No fuel *)
Theorem C18F_no_fuel : forall t s,
  include_text t s <> OutOfFuel /\ forall k, include_text t s = Err k -> k = EValue.
Proof. exact include_text_no_fuel. Qed.

(** ** Non-vacuity *)
Theorem C18F_nonvacuous_line :
  let w := {| w_code := [65]; w_upper := []; w_ignore := Some [48; 51]; w_blanks := [32]; w_text := [97; 10; 98] |} in
  wf_disk_line w = true /\ render_line w = [52; 49; 58; 48; 51; 32; 61; 97; 92; 110; 98] /\
  entry_of w = ([97; 10; 98], [65], Some 3).
Proof. exact line_example. Qed.
Theorem C18F_nonvacuous_file :
  table_of_file [52;65;61;120;10; 52;98;52;67;58;50;61;121;122;13;10; 52;97;61;119] =
  table_of_entries [([120], [74], None); ([121; 122], [75; 76], Some 2); ([119], [74], None)].
Proof. exact file_example. Qed.
Theorem C18F_nonvacuous_backtrack :
  re_match table_line_rx [48; 97; 58; 49; 102] = None /\ match_table_line [48; 97; 58; 49; 102] = None /\
  groups_of (re_match table_line_rx [48; 49; 58; 50; 32; 61; 120]) = Some ([48; 49], Some [50], [120]).
Proof. exact backtrack_example. Qed.

Print Assumptions C18F_match_deterministic.
Print Assumptions C18F_search_sound.
Print Assumptions C18F_search_complete.
Print Assumptions C18F_match_unique_groups.
Print Assumptions C18F_match_exists_iff.
Print Assumptions C18F_match_shape.
Print Assumptions C18F_line_match.
Print Assumptions C18F_line_roundtrip.
Print Assumptions C18F_line_roundtrip_no_newline.
Print Assumptions C18F_unescape_escape.
Print Assumptions C18F_file_roundtrip.
Print Assumptions C18F_file_roundtrip_no_final_newline.
Print Assumptions C18F_disk_roundtrip.
Print Assumptions C18F_entries_roundtrip.
Print Assumptions C18F_dec_digits.
Print Assumptions C18F_include_factors.
Print Assumptions C18F_split_lines_concat.
Print Assumptions C18F_file_to_bytes.
Print Assumptions C18F_file_lines_to_bytes.
Print Assumptions C18F_file_roundtrip_codec.
Print Assumptions C18F_reject_not_hex.
Print Assumptions C18F_reject_blank.
Print Assumptions C18F_odd_hex.
Print Assumptions C18F_odd_hex_line.
Print Assumptions C18F_hex_pairs_parity.
Print Assumptions C18F_ignore_letter.
Print Assumptions C18F_ignore_too_long.
Print Assumptions C18F_bad_line_rejects_file.
Print Assumptions C18F_empty_file.
Print Assumptions C18F_no_entries.
Print Assumptions C18F_no_fuel.
Print Assumptions C18F_nonvacuous_line.
Print Assumptions C18F_nonvacuous_file.
Print Assumptions C18F_nonvacuous_backtrack.
