(** TBLFILE tie — the run-time oracle of Oracle/TblFileo.v against the MODEL (PARTIAL): for files the model rejects, a value
    agreeing with the model passes the clause unless the generator's intent promised entries; for files the model loads, the
    verdict on any agreeing value is the verdict on the model's own table (the remaining step — that the model's table
    satisfies the structural clause and equals the intended dictionary — is checked on examples only).  Statements only;
    proofs in Proofs/TblFileOracleModel.v. *)
From Coq Require Import ZArith List Bool Arith.
From A816 Require Import Model.TableFile Oracle.TblFileo Proofs.TblFileOracleModel.

Theorem C18F_oracle_rejected :
  forall (raw : str) (it : intent) (impl : obs tbl_obs) (probes : list (str * obs bytes))
  (k : errk),
  table_of_file raw = Err k ->
  intent_allows_error it ->
  corr (CFile raw it impl probes) = true -> spec_ok (CFile raw it impl probes) = true.
Proof. exact @rejected_corr_implies_spec. Qed.

Theorem C18F_oracle_loaded_is_model :
  forall (raw : str) (it : intent) (impl : obs tbl_obs) (probes : list (str * obs bytes))
  (t : table),
  table_of_file raw = Ok t -> corr (CFile raw it impl probes) = true -> impl = OOk (obs_of t).
Proof. exact @corr_loaded_is_model. Qed.

Theorem C18F_oracle_loaded_verdict :
  forall (raw : str) (it : intent) (impl : obs tbl_obs) (probes : list (str * obs bytes))
  (t : table),
  table_of_file raw = Ok t ->
  corr (CFile raw it impl probes) = true ->
  spec_ok (CFile raw it impl probes) = spec_ok (CFile raw it (OOk (obs_of t)) probes).
Proof. exact @loaded_verdict_is_models. Qed.

Theorem C18F_oracle_self_corr :
  forall (raw : str) (it : intent), corr (CFile raw it (self_obs raw) []) = true.
Proof. exact @self_corr. Qed.

Print Assumptions C18F_oracle_rejected.
Print Assumptions C18F_oracle_loaded_is_model.
Print Assumptions C18F_oracle_loaded_verdict.
Print Assumptions C18F_oracle_self_corr.
