(** C18 — the run-time oracle of Oracle/C18o.v against the MODEL: an implementation value that agrees with the model passes the
    independent clause, for every table / string / observation (duplicate texts, overlaps, ignore entries, escapes above 0xFF
    included); for assembled programs under the size condition that the text bytes stay below 2^24 - 0x8000 (the label read
    back from three bytes would wrap otherwise: [C18_oracle_label_wraps]).  Statements only; proofs in Proofs/C18OracleModel.v. *)
From Coq Require Import ZArith List Bool Arith.
From A816 Require Import Model.Table Oracle.C18o Proofs.C18OracleModel.

Theorem C18_oracle_codec :
  forall (es : list entry) (s : str) (ib : obs bytes) (it : obs str),
  corr (CCodec es s ib it) = true -> spec_ok (CCodec es s ib it) = true.
Proof. exact @codec_corr_implies_spec. Qed.

Theorem C18_oracle_asm :
  forall (prog : list stmt) (impl : obs (list (Z * bytes))),
  (forall bs : bytes,
  spec_bytes (spec_texts prog) = Some bs -> Z.of_nat (length bs) < label_room) ->
  corr (CAsm prog impl) = true -> spec_ok (CAsm prog impl) = true.
Proof. exact @asm_corr_implies_spec. Qed.

Theorem C18_oracle_label_wraps :
  forall bs : bytes,
  label_room <= Z.of_nat (length bs) ->
  (le_decode (skipn (length bs) (bs ++ le_bytes 3 (start_address + Z.of_nat (length bs)))) =?
  start_address + Z.of_nat (length bs)) = false.
Proof. exact @label_wraps. Qed.

Theorem C18_oracle_corr_implies_spec :
  forall c : case, size_ok c -> corr c = true -> spec_ok c = true.
Proof. exact @c18_corr_implies_spec. Qed.

Theorem C18_oracle_check_consistent :
  forall c : case, size_ok c -> fst (check c) = true -> snd (check c) = true.
Proof. exact @c18_check_consistent. Qed.

Print Assumptions C18_oracle_codec.
Print Assumptions C18_oracle_asm.
Print Assumptions C18_oracle_label_wraps.
Print Assumptions C18_oracle_corr_implies_spec.
Print Assumptions C18_oracle_check_consistent.
