(** C18, the SCOPING clause on the real model — statements only (each closed by [exact]; lemmas in
    Proofs/TableScopeRule.v, TableScopeLink.v, TableScopeEmit.v, TableScopeProgram.v,
    TableScopeLayout.v).

    "[.text] uses the table of the innermost enclosing scope that loaded one before it."

    Part R (rule): [Resolver.get_table] = the first [table] field along the parent chain of the
      current scope; [.table] changes the CURRENT scope only; [.text] captures the table when it is
      generated; which constructs open a scope, and that whatever they load is invisible afterwards.
    Part L (link): the mini-language of Model/Table.v ([stmt], [gen_body], [assemble_texts] — the
      subject of C18_scope / C18_program) embedded in the real AST is generated, resolved and emitted
      by the real model exactly as [gen_body] / [assemble_texts] say.
    Part Y (layout): a TextNode advances the address by the length of exactly the bytes it emits;
      [*= org / .table / .text / end:] end to end.

    [visible r] = [first_some (chain_of r)], [chain_of r] = the [s_table] fields from the current
    scope of [r] up to the root.  [cg_ok r] (ReplayProofs) = the invariant every resolver reached by
    code generation satisfies: all created scopes entered, current scope valid, parents have
    smaller indices. *)
From Coq Require Import ZArith List Bool.
From A816 Require Import Model.Table Proofs.TableScope Spec.ExprSem Spec.BusLaws Model.Assemble Proofs.BusProofs
  Spec.EnvSem Proofs.ResolverProofs Proofs.ReplayProofs Proofs.DataTextGen Proofs.DataText Proofs.InsnText
  Proofs.LabelTextGen Proofs.LabelText
  Proofs.TableScopeRule Proofs.TableScopeLink Proofs.TableScopeEmit Proofs.TableScopeProgram Proofs.TableScopeLayout.
Import ListNotations.
Open Scope Z_scope.

(* ------------------------------------------------------------------------------------------ *)
(** * R. The rule *)

(** Scope.get_table never fails on a reachable resolver and returns the first table on the chain ... *)
Theorem C18s_get_table_rule : forall r, cg_ok r -> Resolver.get_table r = Ok (visible r).
Proof. exact get_table_rule. Qed.
(** ... i.e. the table of the NEAREST enclosing scope that has one ([TableOf]: here, else up). *)
Theorem C18s_nearest : forall r, cg_ok r -> TableOf (r_scopes r) (r_cur r) (visible r).
Proof. exact visible_nearest. Qed.
Theorem C18s_nearest_encloses : forall scopes i t, TableOf scopes i (Some t) ->
  exists j s, encloses scopes j i /\ nth_error scopes j = Some s /\ s_table s = Some t.
Proof. exact TableOf_encloses. Qed.

(** [.table path]: loads the file (its failure aborts code generation), emits a TableNode, and sets
    the table of the CURRENT scope: afterwards the current chain starts with the new table, its tail
    is unchanged, and every scope the current one does not enclose keeps its whole chain. *)
Theorem C18s_table_current_scope : forall w gen s path fi s' ns, cg_ok (cg_r s) ->
  gen_one w gen s (ATable path fi) = Ok (s', ns) ->
  exists t, w_table w path = Ok t /\ ns = [NTable] /\ r_cur (cg_r s') = r_cur (cg_r s) /\
            chain_of (cg_r s') = Some t :: tl (chain_of (cg_r s)) /\ visible (cg_r s') = Some t /\
            (forall i f, ~ encloses (r_scopes (cg_r s)) (r_cur (cg_r s)) i ->
                         chain_tables (r_scopes (cg_r s')) f i = chain_tables (r_scopes (cg_r s)) f i).
Proof. exact gen_table_visible. Qed.

(** [.text]: the node carries the encoding under the table visible NOW (no table: the node raises
    when it is first asked for its bytes); the generator state is unchanged. *)
Theorem C18s_text_captures : forall w gen s text fi, cg_ok (cg_r s) ->
  gen_one w gen s (AText text fi)
  = Ok (s, [NText (match visible (cg_r s) with Some f => f text | None => Err ENode end) fi]).
Proof. exact gen_text. Qed.
(** A table loaded later (same scope) does not reach the earlier text. *)
Theorem C18s_text_then_table : forall w gen s text fi path fi', cg_ok (cg_r s) ->
  gen_list w gen s [AText text fi; ATable path fi'] =
  (do t <- w_table w path;
   Ok (cg_set_r s (upd_scope (cg_r s) (r_cur (cg_r s)) (scope_set_table t)),
       [NText (match visible (cg_r s) with Some f => f text | None => Err ENode end) fi; NTable])).
Proof. exact text_then_table. Qed.

(** Constructs that OPEN a scope: braces, [.scope name], a macro application (parent = the scope of
    the CALL SITE, not of the definition), every [.for] iteration ... *)
Theorem C18s_compound_opens : forall w gen s b fi,
  gen_one w gen s (ACompound b fi) = scoped gen SPlain s (fun r => (r, [])) b.
Proof. exact compound_opens. Qed.
Theorem C18s_scope_opens : forall w gen s name b fi fi',
  gen_one w gen s (AScope name b fi fi') = scoped gen (SNamed name) s (fun r => (r, [])) b.
Proof. exact scope_opens. Qed.
Theorem C18s_macro_opens : forall w gen s name args fi md, dict_get (cg_macros s) name = Some md ->
  gen_one w gen s (AMacroApply name args fi)
  = (do bound <- eval_macro_args w (cg_r s) (md_params md) args;
     scoped gen SPlain s (fun r => bind_macro_args r bound) (md_body md)).
Proof. exact macro_opens. Qed.
Theorem C18s_for_opens : forall gen n k v b s,
  for_loop gen (S n) k v b s
  = (do x <- scoped gen SInternal s (fun r => (r, [NSymConst v k])) b;
     do y <- for_loop gen n (k + 1) v b (fst x); Ok (fst y, snd x ++ snd y)).
Proof. exact for_opens. Qed.
(** ... their body starts in a fresh scope (no table) whose parent is the current scope: it sees the
    table visible at the construct ... *)
Theorem C18s_scoped_body : forall gen k s pre b, cg_ok (cg_r s) ->
  exists r1, enter_scope (cg_r s) k = Ok r1 /\
             chain_of r1 = None :: chain_of (cg_r s) /\ visible r1 = visible (cg_r s) /\
             scoped gen k s pre b
             = (let '(r2, prens) := pre r1 in
                do x <- gen (cg_set_r s r2) b;
                do r3 <- restore_scope (cg_r (fst x)) false;
                Ok (cg_set_r (fst x) r3, NScope :: prens ++ snd x ++ [NPop])).
Proof. exact scoped_body. Qed.
Theorem C18s_macro_body_visible : forall w gen s name args fi md bound, cg_ok (cg_r s) ->
  dict_get (cg_macros s) name = Some md ->
  eval_macro_args w (cg_r s) (md_params md) args = Ok bound ->
  exists r2 prens,
    visible r2 = visible (cg_r s) /\
    gen_one w gen s (AMacroApply name args fi)
    = (do x <- gen (cg_set_r s r2) (md_body md);
       do r3 <- restore_scope (cg_r (fst x)) false;
       Ok (cg_set_r (fst x) r3, NScope :: prens ++ snd x ++ [NPop])).
Proof. exact macro_body_visible. Qed.
(** ... and whatever the body loads is invisible afterwards (real generator, any fuel). *)
Theorem C18s_block_invisible : forall w fuel s b fi s' ns, cg_ok (cg_r s) ->
  gen_one w (code_gen_fuel w fuel) s (ACompound b fi) = Ok (s', ns) -> visible (cg_r s') = visible (cg_r s).
Proof. exact block_table_invisible. Qed.
Theorem C18s_scope_invisible : forall w fuel s name b fi fi' s' ns, cg_ok (cg_r s) ->
  gen_one w (code_gen_fuel w fuel) s (AScope name b fi fi') = Ok (s', ns) -> visible (cg_r s') = visible (cg_r s).
Proof. intros w fuel. exact (scope_invisible w _ (code_gen_replay w fuel) (code_gen_ts w fuel)). Qed.
Theorem C18s_macro_invisible : forall w fuel s name args fi s' ns, cg_ok (cg_r s) ->
  gen_one w (code_gen_fuel w fuel) s (AMacroApply name args fi) = Ok (s', ns) -> visible (cg_r s') = visible (cg_r s).
Proof. intros w fuel. exact (macro_invisible w _ (code_gen_replay w fuel) (code_gen_ts w fuel)). Qed.
Theorem C18s_for_invisible : forall w fuel s v lo hi b fi fi' s' ns, cg_ok (cg_r s) ->
  gen_one w (code_gen_fuel w fuel) s (AFor v lo hi b fi fi') = Ok (s', ns) -> visible (cg_r s') = visible (cg_r s).
Proof. intros w fuel. exact (for_invisible w _ (code_gen_replay w fuel) (code_gen_ts w fuel)). Qed.

(** Constructs WITHOUT a scope of their own: an [.if] branch, an included file, a code-block argument
    spliced in a macro body — their statements run in the very state of the construct, so a table
    they load stays, and a spliced block sees the table visible where it is spliced. *)
Theorem C18s_if_no_scope : forall w gen s c th fi el fi',
  gen_one w gen s (AIf c th fi el fi')
  = (do cond <- if_condition w (cg_r s) c;
     if cond then gen s th else match el with Some (eb, _) => gen s eb | None => Ok (s, []) end).
Proof. exact if_no_scope. Qed.
Theorem C18s_include_no_scope : forall w gen s b fi, gen_one w gen s (ABlock b fi) = gen s b.
Proof. exact include_no_scope. Qed.
Theorem C18s_code_splice_no_scope : forall w gen s name fi b fi', value_for (cg_r s) name = Ok (VCode b fi') ->
  gen_one w gen s (ACodeLookup name fi) = gen s b.
Proof. exact code_splice_no_scope. Qed.

(** Code generation never changes the table of an existing scope other than the current one. *)
Theorem C18s_tables_kept : forall w fuel, ts_ok (code_gen_fuel w fuel).
Proof. exact code_gen_ts. Qed.

(* ------------------------------------------------------------------------------------------ *)
(** * L. The mini-language is the real model *)

(** [embed pth fi]: STable es -> ATable (pth es), SText s -> AText s, SBlock b -> ACompound (embed b).
    [world_tables w pth tabs]: for every table file [es] of the program,
    [w_table w (pth es) = Table(es).to_bytes] (what [world_of] does with [sf_tbl]).
    [link_res]: when [gen_body] returns (chain', tn), the generator returns nodes among
    Text/Table/Scope/PopScope whose TextNode encodings are, in order, [text_emit tbl s] for the
    (tbl, s) of [tn], and the real scope chain is [chain'] (through to_bytes); when [gen_body]
    raises, the generator raises the same. *)
Theorem C18s_link_codegen : forall w pth fi fuel body, (ldepth body < fuel)%nat ->
  forall s chain, cg_ok (cg_r s) -> chain_rel (cg_r s) chain -> world_tables w pth (prog_tables body) ->
    link_res s (gen_body body chain) (code_gen_fuel w fuel s (embed pth fi body)).
Proof. exact link_codegen. Qed.

(** Whole assembly from the start resolver ([start_root]: what [initial_resolver] returns), origin
    [org] inside a ROM mapping [m] covered by the bus: ONE block = [assemble_texts prog] at the
    offset of the origin (no block when there are no bytes) ... *)
Theorem C18s_embed_assemble : forall w low m, covers low m -> mask_ok m -> m_writable m = false ->
  forall ri, start_root w low ri ->
  forall xo fi0 org, in_window m org -> m_first m <= bank_of org <= m_last m ->
  (forall r, eval_raw w r xo = Ok org) ->
  forall pth fi prog, (ldepth prog < cg_depth)%nat -> world_tables w pth (prog_tables prog) ->
  forall bs, assemble_texts prog = Ok bs -> spec_offset m org + Z.of_nat (length bs) < rsize m ->
  exists o, assemble_ast w ri (AStarEq xo fi0 :: embed pth fi prog) = Ok o /\
            o_blocks o = match bs with [] => [] | _ => [(bs, spec_offset m org)] end.
Proof. exact embed_assemble. Qed.
(** ... and the exception of [assemble_texts prog] otherwise. *)
Theorem C18s_embed_assemble_err : forall w low m, covers low m -> mask_ok m -> m_writable m = false ->
  forall ri, start_root w low ri ->
  forall xo fi0 org, in_window m org -> m_first m <= bank_of org <= m_last m ->
  (forall r, eval_raw w r xo = Ok org) ->
  forall pth fi prog, (ldepth prog < cg_depth)%nat -> world_tables w pth (prog_tables prog) ->
  forall k, assemble_texts prog = Err k ->
  (forall ch tn, gen_body prog [None] = Ok (ch, tn) -> spec_offset m org + prefix_len (map enc_of tn) < rsize m) ->
  assemble_ast w ri (AStarEq xo fi0 :: embed pth fi prog) = Err k.
Proof. exact embed_assemble_err. Qed.
Theorem C18s_initial_resolver_start : forall w c low p,
  w_builtin w LowRom = Ok low -> addr_physical low 0 = Ok p ->
  match cf_rom c with Some rt => w_builtin w rt = Ok low | None => True end ->
  exists ri, initial_resolver w c = Ok ri /\ start_root w low ri.
Proof. exact initial_resolver_start. Qed.

(** On the built-in LoROM bus with the table files of a file system. *)
Theorem C18s_embed_assemble_lorom : forall t fs c xo fi0 org pth fi prog bs,
  bus_agree_b (lv_low t) lorom = true -> low_rom_config t c ->
  (0 <= bank_of org <= 111 \/ 128 <= bank_of org <= 207) -> 32768 <= org mod 65536 ->
  (forall r, eval_raw (world_of t fs) r xo = Ok org) ->
  (ldepth prog < cg_depth)%nat ->
  Forall (fun es => assoc_str (sf_tbl fs) (pth es) = Some es) (prog_tables prog) ->
  assemble_texts prog = Ok bs ->
  lorom_offset org + Z.of_nat (length bs) < (if bank_of org <? 128 then 112 else 80) * 32768 ->
  exists ri o, initial_resolver (world_of t fs) c = Ok ri /\
    assemble_ast (world_of t fs) ri (AStarEq xo fi0 :: embed pth fi prog) = Ok o /\
    o_blocks o = match bs with [] => [] | _ => [(bs, lorom_offset org)] end.
Proof. exact embed_assemble_lorom. Qed.
Theorem C18s_embed_assemble_err_lorom : forall t fs c xo fi0 org pth fi prog k,
  bus_agree_b (lv_low t) lorom = true -> low_rom_config t c ->
  (0 <= bank_of org <= 111 \/ 128 <= bank_of org <= 207) -> 32768 <= org mod 65536 ->
  (forall r, eval_raw (world_of t fs) r xo = Ok org) ->
  (ldepth prog < cg_depth)%nat ->
  Forall (fun es => assoc_str (sf_tbl fs) (pth es) = Some es) (prog_tables prog) ->
  assemble_texts prog = Err k ->
  (forall ch tn, gen_body prog [None] = Ok (ch, tn) ->
     lorom_offset org + prefix_len (map enc_of tn) < (if bank_of org <? 128 then 112 else 80) * 32768) ->
  exists ri, initial_resolver (world_of t fs) c = Ok ri /\
    assemble_ast (world_of t fs) ri (AStarEq xo fi0 :: embed pth fi prog) = Err k.
Proof. exact embed_assemble_err_lorom. Qed.

(** The passes on any node list of Text/Table/Scope/PopScope nodes behind one CodePositionNode whose
    scope nodes replay on the scope list (what code generation guarantees, [code_gen_replay]). *)
Theorem C18s_passes : forall w low m, covers low m -> mask_ok m -> m_writable m = false ->
  forall rf, r_bus rf = empty_bus -> w_builtin w (r_rom rf) = Ok low -> r_cur rf = 0%nat ->
  r_reloc rf = at_ low 0 ->
  forall xo fi org, in_window m org -> m_first m <= bank_of org <= m_last m ->
  (forall r, eval_raw w r xo = Ok org) ->
  forall ns, Forall tnode ns ->
  forall l', (forall sc, ext (r_scopes rf) sc -> replay sc ns 0 0 = Some (0%nat, l')) ->
  forall bs, run_encs (text_encs ns) = Ok bs -> spec_offset m org + Z.of_nat (length bs) < rsize m ->
  exists o, assemble_nodes w rf (NCodePos xo fi :: ns) = Ok o /\
            o_blocks o = match bs with [] => [] | _ => [(bs, spec_offset m org)] end.
Proof. exact tn_run. Qed.

(* ------------------------------------------------------------------------------------------ *)
(** * Y. Layout *)

(** pc_after = the address advanced by the length of exactly the bytes emit returns. *)
Theorem C18s_text_node_layout : forall w r enc fi a,
  pc_after w r (NText enc fi) a
  = (do rb <- node_emit w r (NText enc fi);
     do a' <- addr_plus a (Z.of_nat (length (snd rb))); Ok (r, a')).
Proof. exact text_node_layout. Qed.
(** The node of a mini-language text: Table.v's [text_pc_after] (the subject of C18_length). *)
Theorem C18s_text_node_layout_mini : forall w r tbl s fi a,
  pc_after w r (NText (text_emit tbl s) fi) a
  = (do v <- text_pc_after (a_bus a) tbl s (a_val a); Ok (r, {| a_bus := a_bus a; a_val := v |})).
Proof. exact text_node_layout_mini. Qed.
(** On a covered ROM mapping the next node lies [length bs] further in the FILE. *)
Theorem C18s_text_node_advance : forall w low m r fi bs q, covers low m -> mask_ok m -> m_writable m = false ->
  0 <= q -> q + Z.of_nat (length bs) < rsize m ->
  pc_after w r (NText (Ok bs) fi) (at_ low (A m q)) = Ok (r, at_ low (A m (q + Z.of_nat (length bs)))) /\
  node_emit w r (NText (Ok bs) fi) = Ok (r, bs).
Proof. exact text_node_advance. Qed.

(** [*= org / .table path / .text text / name:] *)
Theorem C18s_layout_program : forall w low m, covers low m -> mask_ok m -> m_writable m = false ->
  forall ri, start_root w low ri ->
  forall xo f0 f1 f2 ft org, in_window m org -> m_first m <= bank_of org <= m_last m ->
  (forall r, eval_raw w r xo = Ok org) ->
  forall path tf, w_table w path = Ok tf ->
  forall text bs, tf text = Ok bs ->
  forall name, spec_offset m org + Z.of_nat (length bs) < rsize m ->
  exists o, assemble_ast w ri [AStarEq xo f0; ATable path f1; AText text f2; ALabel name ft] = Ok o /\
            o_blocks o = match bs with [] => [] | _ => [(bs, spec_offset m org)] end /\
            o_labels o = [(name, A m (spec_offset m org + Z.of_nat (length bs)))].
Proof. exact layout_program. Qed.
Theorem C18s_layout_lorom : forall t fs c xo f0 f1 f2 ft org path es tb text bs name,
  bus_agree_b (lv_low t) lorom = true -> low_rom_config t c ->
  (0 <= bank_of org <= 111 \/ 128 <= bank_of org <= 207) -> 32768 <= org mod 65536 ->
  (forall r, eval_raw (world_of t fs) r xo = Ok org) ->
  assoc_str (sf_tbl fs) path = Some es -> table_of_entries es = Ok tb -> to_bytes tb text = Ok bs ->
  org mod 65536 + Z.of_nat (length bs) < 65536 ->
  exists ri o, initial_resolver (world_of t fs) c = Ok ri /\
    assemble_ast (world_of t fs) ri [AStarEq xo f0; ATable path f1; AText text f2; ALabel name ft] = Ok o /\
    o_blocks o = match bs with [] => [] | _ => [(bs, lorom_offset org)] end /\
    o_labels o = [(name, org + Z.of_nat (length bs))].
Proof. exact layout_lorom. Qed.

(* ------------------------------------------------------------------------------------------ *)
(** * Non-vacuity (t1.tbl: "41=a"; t2.tbl: "42=a", "43=b"; the real assembler writes the same)

    *=0x8000 / .table t1 / .text 'a' / { .text 'a' / .table t2 / .text 'ab' / { .text 'b' } } / .text 'a' *)
Example C18s_nonvacuous_scope : exists ri o,
  initial_resolver (world_of demo_live3 demo_fs) demo_cfg = Ok ri /\
  assemble_ast (world_of demo_live3 demo_fs) ri (AStarEq demo_xo demo_tok :: embed demo_pth demo_tok demo_prog) = Ok o /\
  o_blocks o = [([65; 65; 66; 67; 67; 65], 0)].
Proof. exact demo_scope_proved. Qed.
Example C18s_nonvacuous_no_table : exists ri,
  initial_resolver (world_of demo_live3 demo_fs) demo_cfg = Ok ri /\
  assemble_ast (world_of demo_live3 demo_fs) ri
    (AStarEq demo_xo demo_tok :: embed demo_pth demo_tok [SBlock [STable demo_t1]; SText [97]]) = Err ENode.
Proof. exact demo_no_table. Qed.
Example C18s_nonvacuous_layout : exists ri o,
  initial_resolver (world_of demo_live3 demo_fs) demo_cfg = Ok ri /\
  assemble_ast (world_of demo_live3 demo_fs) ri
    [AStarEq demo_xo demo_tok; ATable (demo_pth demo_t2) demo_tok; AText [97; 98] demo_tok; ALabel [101; 110; 100] demo_tok] = Ok o /\
  o_blocks o = [([66; 67], 0)] /\ o_labels o = [([101; 110; 100], 32770)].
Proof. exact demo_layout. Qed.

Print Assumptions C18s_get_table_rule.
Print Assumptions C18s_nearest.
Print Assumptions C18s_table_current_scope.
Print Assumptions C18s_text_captures.
Print Assumptions C18s_macro_body_visible.
Print Assumptions C18s_block_invisible.
Print Assumptions C18s_scope_invisible.
Print Assumptions C18s_macro_invisible.
Print Assumptions C18s_for_invisible.
Print Assumptions C18s_tables_kept.
Print Assumptions C18s_link_codegen.
Print Assumptions C18s_embed_assemble.
Print Assumptions C18s_embed_assemble_err.
Print Assumptions C18s_embed_assemble_lorom.
Print Assumptions C18s_embed_assemble_err_lorom.
Print Assumptions C18s_passes.
Print Assumptions C18s_text_node_layout_mini.
Print Assumptions C18s_layout_program.
Print Assumptions C18s_layout_lorom.
Print Assumptions C18s_nonvacuous_scope.
Print Assumptions C18s_nonvacuous_no_table.
Print Assumptions C18s_nonvacuous_layout.
