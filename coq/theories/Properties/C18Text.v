(** C18 on SOURCE TEXT through the whole pipeline model (printed layout: one statement per line).
    A program of [.table 'path'], [.text 'string'] and nested [{ }] blocks behind [*= org]:
    its block is the texts encoded by the table in force at each [.text] (the innermost enclosing
    block's table loaded before it: [assemble_texts], the semantics C18_scope / C18_program
    characterise); [.text] with no table in scope, or after a block that loaded one, fails with the
    NodeError class; nested blocks inherit, an inner table shadows.  The five-line program
    *= org / .table 'p' / .text 's' / name: / .dl name  with the table given as the TEXT of its file
    emits the greedy longest-match tokenisation of s ([Tok], Spec/TableSpec.v: [0xNN] escapes, unknown
    characters skipped) followed by the label value org + length. *)
From Coq Require Import ZArith List Bool Arith.
From A816 Require Import Model.Assemble Spec.TableSpec Proofs.TableTextGen Proofs.TableTextPrint Proofs.TableText.

Theorem C18_text_printable :
  forall (lx : lexicon) (pth : list entry -> str) (fi : token),
  RoundTripParse.kw_in lx k_table = true ->
  RoundTripParse.kw_in lx k_text = true ->
  forall (xo : expr) (f0 : token) (prog : list stmt),
  RoundTripExpr.printable_expr lx false xo = true ->
  forallb (stmt_okb pth) prog = true ->
  RoundTripProgram.printable lx
  (TextLiftFi.canon_prog (AStarEq xo f0 :: TableScopeLink.embed pth fi prog)) = true.
Proof. exact @mini_printable. Qed.

Theorem C18_text_blocks :
  forall (t : live) (fs : srcfiles) (c : config) (fname : str) (pth : list entry -> str)
  (f0 fi : token),
  RoundTripProgram.lexicon_rt (lv_lex t) = true ->
  RoundTripParse.kw_in (lv_lex t) k_table = true ->
  RoundTripParse.kw_in (lv_lex t) k_text = true ->
  BusLaws.bus_agree_b (lv_low t) BusProofs.lorom = true ->
  DataText.low_rom_config t c ->
  forall (xo : expr) (org : Z),
  RoundTripExpr.printable_expr (lv_lex t) false xo = true ->
  (forall r : rstate, eval_raw (world_of t fs) r xo = Ok org) ->
  0 <= BusLaws.bank_of org <= 111 \/ 128 <= BusLaws.bank_of org <= 207 ->
  32768 <= org mod 65536 ->
  forall (prog : list stmt) (bs : bytes),
  forallb (stmt_okb pth) prog = true ->
  (TableScopeLink.ldepth prog < cg_depth)%nat ->
  files_ok fs pth prog ->
  assemble_texts prog = Ok bs ->
  DataText.lorom_offset org + Z.of_nat (length bs) < lorom_room org ->
  exists (o : output) (fin : rstate),
  assemble_source t fs c fname (mini_src pth f0 fi xo prog) = AOk o fin /\
  o_blocks o = match bs with
  | [] => []
  | _ :: _ => [(bs, DataText.lorom_offset org)]
  end.
Proof. exact @mini_text. Qed.

Theorem C18_text_error :
  forall (t : live) (fs : srcfiles) (c : config) (fname : str) (pth : list entry -> str)
  (f0 fi : token),
  RoundTripProgram.lexicon_rt (lv_lex t) = true ->
  RoundTripParse.kw_in (lv_lex t) k_table = true ->
  RoundTripParse.kw_in (lv_lex t) k_text = true ->
  BusLaws.bus_agree_b (lv_low t) BusProofs.lorom = true ->
  DataText.low_rom_config t c ->
  forall (xo : expr) (org : Z),
  RoundTripExpr.printable_expr (lv_lex t) false xo = true ->
  (forall r : rstate, eval_raw (world_of t fs) r xo = Ok org) ->
  0 <= BusLaws.bank_of org <= 111 \/ 128 <= BusLaws.bank_of org <= 207 ->
  32768 <= org mod 65536 ->
  forall (prog : list stmt) (k : errk),
  forallb (stmt_okb pth) prog = true ->
  (TableScopeLink.ldepth prog < cg_depth)%nat ->
  files_ok fs pth prog ->
  assemble_texts prog = Err k ->
  (forall (ch : list (option table)) (tn : list text_node),
  gen_body prog [None] = Ok (ch, tn) ->
  DataText.lorom_offset org + TableScopeEmit.prefix_len (map TableScopeLink.enc_of tn) <
  lorom_room org) ->
  exists site : option token,
  assemble_source t fs c fname (mini_src pth f0 fi xo prog) = AExc k site.
Proof. exact @mini_text_err. Qed.

Theorem C18_text_without_table :
  forall (t : live) (fs : srcfiles) (c : config) (fname : str) (pth : list entry -> str)
  (f0 fi : token),
  RoundTripProgram.lexicon_rt (lv_lex t) = true ->
  RoundTripParse.kw_in (lv_lex t) k_table = true ->
  RoundTripParse.kw_in (lv_lex t) k_text = true ->
  BusLaws.bus_agree_b (lv_low t) BusProofs.lorom = true ->
  DataText.low_rom_config t c ->
  forall (xo : expr) (org : Z),
  RoundTripExpr.printable_expr (lv_lex t) false xo = true ->
  (forall r : rstate, eval_raw (world_of t fs) r xo = Ok org) ->
  0 <= BusLaws.bank_of org <= 111 \/ 128 <= BusLaws.bank_of org <= 207 ->
  32768 <= org mod 65536 ->
  forall s : str,
  RoundTripParse.qstr_b s = true ->
  exists site : option token,
  assemble_source t fs c fname (mini_src pth f0 fi xo [SText s]) = AExc ENode site.
Proof. exact @text_without_table. Qed.

Theorem C18_text_table_in_block_invisible :
  forall (t : live) (fs : srcfiles) (c : config) (fname : str) (pth : list entry -> str)
  (f0 fi : token),
  RoundTripProgram.lexicon_rt (lv_lex t) = true ->
  RoundTripParse.kw_in (lv_lex t) k_table = true ->
  RoundTripParse.kw_in (lv_lex t) k_text = true ->
  BusLaws.bus_agree_b (lv_low t) BusProofs.lorom = true ->
  DataText.low_rom_config t c ->
  forall (xo : expr) (org : Z),
  RoundTripExpr.printable_expr (lv_lex t) false xo = true ->
  (forall r : rstate, eval_raw (world_of t fs) r xo = Ok org) ->
  0 <= BusLaws.bank_of org <= 111 \/ 128 <= BusLaws.bank_of org <= 207 ->
  32768 <= org mod 65536 ->
  forall (es : list entry) (tb : table) (s : str),
  RoundTripParse.qstr_b (pth es) = true ->
  RoundTripParse.qstr_b s = true ->
  assoc_str (sf_tbl fs) (pth es) = Some es ->
  table_of_entries es = Ok tb ->
  exists site : option token,
  assemble_source t fs c fname (mini_src pth f0 fi xo [SBlock [STable es]; SText s]) =
  AExc ENode site.
Proof. exact @table_in_block_invisible. Qed.

Theorem C18_text_nested_blocks_inherit :
  forall (t : live) (fs : srcfiles) (c : config) (fname : str) (pth : list entry -> str)
  (f0 fi : token),
  RoundTripProgram.lexicon_rt (lv_lex t) = true ->
  RoundTripParse.kw_in (lv_lex t) k_table = true ->
  RoundTripParse.kw_in (lv_lex t) k_text = true ->
  BusLaws.bus_agree_b (lv_low t) BusProofs.lorom = true ->
  DataText.low_rom_config t c ->
  forall (xo : expr) (org : Z),
  RoundTripExpr.printable_expr (lv_lex t) false xo = true ->
  (forall r : rstate, eval_raw (world_of t fs) r xo = Ok org) ->
  0 <= BusLaws.bank_of org <= 111 \/ 128 <= BusLaws.bank_of org <= 207 ->
  32768 <= org mod 65536 ->
  forall (es : list entry) (tb : table) (s : str) (bs : bytes),
  RoundTripParse.qstr_b (pth es) = true ->
  RoundTripParse.qstr_b s = true ->
  assoc_str (sf_tbl fs) (pth es) = Some es ->
  table_of_entries es = Ok tb ->
  to_bytes tb s = Ok bs ->
  DataText.lorom_offset org + Z.of_nat (length bs) < lorom_room org ->
  exists (o : output) (fin : rstate),
  assemble_source t fs c fname
  (mini_src pth f0 fi xo [STable es; SBlock [SBlock [SText s]]]) =
  AOk o fin /\
  o_blocks o = match bs with
  | [] => []
  | _ :: _ => [(bs, DataText.lorom_offset org)]
  end.
Proof. exact @nested_blocks_inherit. Qed.

Theorem C18_text_inner_table_shadows :
  forall (t : live) (fs : srcfiles) (c : config) (fname : str) (pth : list entry -> str)
  (f0 fi : token),
  RoundTripProgram.lexicon_rt (lv_lex t) = true ->
  RoundTripParse.kw_in (lv_lex t) k_table = true ->
  RoundTripParse.kw_in (lv_lex t) k_text = true ->
  BusLaws.bus_agree_b (lv_low t) BusProofs.lorom = true ->
  DataText.low_rom_config t c ->
  forall (xo : expr) (org : Z),
  RoundTripExpr.printable_expr (lv_lex t) false xo = true ->
  (forall r : rstate, eval_raw (world_of t fs) r xo = Ok org) ->
  0 <= BusLaws.bank_of org <= 111 \/ 128 <= BusLaws.bank_of org <= 207 ->
  32768 <= org mod 65536 ->
  forall (es1 : list entry) (tb1 : table) (es2 : list entry) (tb2 : table)
  (s : str) (b2 b1 : bytes),
  RoundTripParse.qstr_b (pth es1) = true ->
  RoundTripParse.qstr_b (pth es2) = true ->
  RoundTripParse.qstr_b s = true ->
  assoc_str (sf_tbl fs) (pth es1) = Some es1 ->
  assoc_str (sf_tbl fs) (pth es2) = Some es2 ->
  table_of_entries es1 = Ok tb1 ->
  table_of_entries es2 = Ok tb2 ->
  to_bytes tb2 s = Ok b2 ->
  to_bytes tb1 s = Ok b1 ->
  DataText.lorom_offset org + Z.of_nat (length (b2 ++ b1)) < lorom_room org ->
  exists (o : output) (fin : rstate),
  assemble_source t fs c fname
  (mini_src pth f0 fi xo [STable es1; SBlock [STable es2; SText s]; SText s]) =
  AOk o fin /\
  o_blocks o =
  match b2 ++ b1 with
  | [] => []
  | _ :: _ => [(b2 ++ b1, DataText.lorom_offset org)]
  end.
Proof. exact @inner_table_shadows. Qed.

Theorem C18_text_program :
  forall (t : live) (fs : srcfiles) (c : config) (fname : str) (xo : expr)
  (f0 : token) (org : Z) (path : str) (f1 : token) (es : list entry)
  (text : str) (f2 : token) (name : str) (ft it fk : token) (bs : bytes),
  RoundTripProgram.lexicon_rt (lv_lex t) = true ->
  RoundTripParse.kw_in (lv_lex t) k_table = true ->
  RoundTripParse.kw_in (lv_lex t) k_text = true ->
  RoundTripParse.kw_in (lv_lex t) k_dl = true ->
  BusLaws.bus_agree_b (lv_low t) BusProofs.lorom = true ->
  DataText.low_rom_config t c ->
  RoundTripExpr.printable_expr (lv_lex t) false xo = true ->
  (forall r : rstate, eval_raw (world_of t fs) r xo = Ok org) ->
  0 <= BusLaws.bank_of org <= 111 \/ 128 <= BusLaws.bank_of org <= 207 ->
  32768 <= org mod 65536 ->
  RoundTripParse.qstr_b path = true ->
  RoundTripParse.qstr_b text = true ->
  RoundTripExpr.pident_b (lv_lex t) name = true ->
  ExprLex.tv it = (T_IDENTIFIER, name) ->
  assoc_str (sf_tbl fs) path = Some es ->
  es <> [] ->
  Tok es text bs ->
  bs <> [] ->
  org mod 65536 + Z.of_nat (length bs) < 65536 ->
  DataText.lorom_offset org + Z.of_nat (length bs) + 3 < lorom_room org ->
  let L := org + Z.of_nat (length bs) in
  exists (o : output) (fin : rstate),
  assemble_source t fs c fname
  (RoundTripProgram.print_program (text5 xo f0 path f1 text f2 name ft it fk)) =
  AOk o fin /\
  o_blocks o = [(bs ++ data_bytes D_dl L, DataText.lorom_offset org)] /\
  o_labels o = [(name, L)].
Proof. exact @text5_text. Qed.

Theorem C18_text_program_file :
  forall (t : live) (fs : srcfiles) (c : config) (fname : str) (xo : expr)
  (f0 : token) (org : Z) (path : str) (f1 : token) (raw : str) (es : list entry)
  (tb : table) (text : str) (f2 : token) (name : str) (ft it fk : token)
  (bs : bytes),
  RoundTripProgram.lexicon_rt (lv_lex t) = true ->
  RoundTripParse.kw_in (lv_lex t) k_table = true ->
  RoundTripParse.kw_in (lv_lex t) k_text = true ->
  RoundTripParse.kw_in (lv_lex t) k_dl = true ->
  BusLaws.bus_agree_b (lv_low t) BusProofs.lorom = true ->
  DataText.low_rom_config t c ->
  RoundTripExpr.printable_expr (lv_lex t) false xo = true ->
  (forall r : rstate, eval_raw (world_of t fs) r xo = Ok org) ->
  0 <= BusLaws.bank_of org <= 111 \/ 128 <= BusLaws.bank_of org <= 207 ->
  32768 <= org mod 65536 ->
  RoundTripParse.qstr_b path = true ->
  RoundTripParse.qstr_b text = true ->
  RoundTripExpr.pident_b (lv_lex t) name = true ->
  ExprLex.tv it = (T_IDENTIFIER, name) ->
  TableFile.entries_of_text (TableFile.universal_newlines raw) = Ok es ->
  assoc_str (sf_tbl fs) path = Some es ->
  TableFile.table_of_file raw = Ok tb ->
  to_bytes tb text = Ok bs ->
  bs <> [] ->
  org mod 65536 + Z.of_nat (length bs) < 65536 ->
  DataText.lorom_offset org + Z.of_nat (length bs) + 3 < lorom_room org ->
  let L := org + Z.of_nat (length bs) in
  exists (o : output) (fin : rstate),
  assemble_source t fs c fname
  (RoundTripProgram.print_program (text5 xo f0 path f1 text f2 name ft it fk)) =
  AOk o fin /\
  o_blocks o = [(bs ++ data_bytes D_dl L, DataText.lorom_offset org)] /\
  o_labels o = [(name, L)] /\ Tok es text bs.
Proof. exact @text5_text_file. Qed.

Theorem C18_table_node_transparent :
  forall (w : world) (r : rstate) (ns1 ns2 : list node) (o : output),
  assemble_nodes w r (ns1 ++ ns2) = Ok o -> assemble_nodes w r (ns1 ++ NTable :: ns2) = Ok o.
Proof. exact @ntable_insert. Qed.

Print Assumptions C18_text_printable.
Print Assumptions C18_text_blocks.
Print Assumptions C18_text_error.
Print Assumptions C18_text_without_table.
Print Assumptions C18_text_table_in_block_invisible.
Print Assumptions C18_text_nested_blocks_inherit.
Print Assumptions C18_text_inner_table_shadows.
Print Assumptions C18_text_program.
Print Assumptions C18_text_program_file.
Print Assumptions C18_table_node_transparent.
