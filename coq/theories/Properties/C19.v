(** C19 — Assemblies are independent of each other and repeatable. *)
From Coq Require Import ZArith List.
From A816 Require Import Model.Assemble Proofs.AssembleProofs.
Open Scope Z_scope.

(** Serving a request leaves the shared objects as they were ... *)
Theorem C19_frozen : forall g q, fst (serve g q) = g.
Proof. exact serve_keeps_globals. Qed.
(** ... so the result of a request is the same after any history of requests, *)
Theorem C19_history : forall g history probe,
  snd (serve (serve_all g history) probe) = snd (serve g probe).
Proof. exact history_independent. Qed.
(** ... and repeating an assembly gives the identical result. *)
Theorem C19_repeat : forall g probe, snd (serve (fst (serve g probe)) probe) = snd (serve g probe).
Proof. exact repeatable. Qed.

(** Why nothing can write the shared default mappings: they are frozen, and a program's own
    [.map] lines go to its own, initially empty bus. *)
Theorem C19_bus_map_refused : forall b id banks mask w mir,
  b_editable b = false -> bus_map b id banks mask w mir = Err ERuntime.
Proof. exact frozen_bus_map. Qed.
Theorem C19_bus_unmap_refused : forall b id, b_editable b = false -> bus_unmap b id = Err ERuntime.
Proof. exact frozen_bus_unmap. Qed.
Theorem C19_own_bus : forall w r, resolver_init w = Ok r -> r_bus r = empty_bus.
Proof. exact own_bus_is_fresh. Qed.
