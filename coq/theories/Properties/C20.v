(** C20 — Legacy address conversions agree with the assembler's mapping. *)
From Coq Require Import ZArith List.
From A816 Require Import Model.Legacy Spec.BusLaws Proofs.BusProofs Proofs.LegacyProofs.
Open Scope Z_scope.

Theorem C20_low : forall o, 0 <= o < 3670016 ->
  let a := rom_to_snes o LowRom in
  addr_physical lorom a = Ok (Some o) /\ bank_of a = o / 32768 /\ 32768 <= a mod 65536 /\
  snes_to_rom a = o.
Proof. exact legacy_low. Qed.

Theorem C20_low2 : forall o, 0 <= o < 2621440 ->
  let a := rom_to_snes o LowRom2 in
  addr_physical lorom a = Ok (Some o) /\ bank_of a = 128 + o / 32768 /\ 32768 <= a mod 65536 /\
  (o < 2097152 -> snes_to_rom a = o).
Proof. exact legacy_low2. Qed.

Theorem C20_high : forall o, 0 <= o < 4194304 ->
  let a := rom_to_snes o HighRom in
  addr_physical hirom a = Ok (Some o) /\ bank_of a = 192 + o / 65536 /\ snes_to_rom a = o.
Proof. exact legacy_high. Qed.

Theorem C20_long_pointer : forall base p, 0 <= base + p < 8388608 ->
  long_low_rom_pointer base p = Ok (le_bytes 3 (rom_to_snes (p + base) LowRom)).
Proof. exact legacy_long_pointer. Qed.

Theorem C20_base_relative : forall base b0 b1 rest,
  base_relative_16bits_pointer base (b0 :: b1 :: rest) = Ok (b0 + 256 * b1 + base).
Proof. exact legacy_base_relative. Qed.

(** Transfer to the live buses (instantiated per run on Gen/Buses). *)
Theorem C20_live : forall bl bh, bus_agree_b bl lorom = true -> bus_agree_b bh hirom = true ->
  (forall o, 0 <= o < 3670016 -> addr_physical bl (rom_to_snes o LowRom) = Ok (Some o)) /\
  (forall o, 0 <= o < 2621440 -> addr_physical bl (rom_to_snes o LowRom2) = Ok (Some o)) /\
  (forall o, 0 <= o < 4194304 -> addr_physical bh (rom_to_snes o HighRom) = Ok (Some o)).
Proof.
  intros bl bh Hl Hh. repeat split; intros o Ho.
  - rewrite (bus_agree_physical _ _ Hl). apply (legacy_low o Ho).
  - rewrite (bus_agree_physical _ _ Hl). apply (legacy_low2 o Ho).
  - rewrite (bus_agree_physical _ _ Hh). apply (legacy_high o Ho).
Qed.
