(** C20 — the run-time oracle of Oracle/C20o.v against the MODEL: an implementation value that agrees with the model passes the
    textbook clause (for the live-bus case [CBus], whose correspondence bit is constant, under the agreement [bus_corr] with the
    specification bus — [C20_oracle_cbus_needed] shows the condition is needed), and the model's own value always passes.
    Statements only; proofs in Proofs/C20OracleModel.v. *)
From Coq Require Import ZArith List Bool Arith.
From A816 Require Import Model.Legacy Spec.BusLaws Oracle.C20o Proofs.BusProofs Proofs.C20OracleModel.

Theorem C20_oracle_corr_implies_spec :
  forall c : case, corr c = true -> bus_corr c = true -> spec_ok c = true.
Proof. exact @c20_corr_implies_spec. Qed.

Theorem C20_oracle_corr_implies_spec_nobus :
  forall c : case, is_cbus c = false -> corr c = true -> spec_ok c = true.
Proof. exact @c20_corr_implies_spec_nobus. Qed.

Theorem C20_oracle_model_passes :
  forall c : case, spec_ok (model_case c) = true.
Proof. exact @c20_model_passes_oracle. Qed.

Theorem C20_oracle_cbus_live :
  forall (b : bus) (o : Z) (mode : romtype) (impl : obs (option Z)),
  bus_agree_b b (model_bus mode) = true ->
  agree opt_z_eqb (addr_physical b (rom_to_snes o mode)) impl = true ->
  spec_ok (CBus o mode impl) = true.
Proof. exact @cbus_live_ok. Qed.

Theorem C20_oracle_cbus_needed :
  corr (CBus 74565 LowRom (OOk None)) = true /\
  spec_ok (CBus 74565 LowRom (OOk None)) = false /\
  bus_corr (CBus 74565 LowRom (OOk None)) = false.
Proof. exact @cbus_needs_side_condition. Qed.

Print Assumptions C20_oracle_corr_implies_spec.
Print Assumptions C20_oracle_corr_implies_spec_nobus.
Print Assumptions C20_oracle_model_passes.
Print Assumptions C20_oracle_cbus_live.
Print Assumptions C20_oracle_cbus_needed.
