(** script/pointers.py (the pointer-table helpers built on the address formulas of C20 and the table
    codec of C18), as modelled in Model/Pointers.v and tied to the code by the PTRS correspondence.

    - read_pointers_content: the values read for two or more pointers are the consecutive slices of
      the ROM between their sorted addresses, the last one up to the end address, and concatenate to
      rom[first address, end); with a single pointer the last read starts wherever the file position
      happens to be (the code does not seek before it);
    - the value file is the values in id order; the address table written with long_low_rom_pointer
      base holds, for the k-th pointer, the little-endian LoROM address of base + (total length of the
      values before it): it points at the k-th value of the value file placed at offset base; reading
      the table back (with the inverse formula / the 16-bit base-relative reader) and dumping the
      contents returns the values;
    - append_pointers shifts the ids of the second table by the largest id of the first;
    - recode_pointer_values is the table codec mapped over the values, and recoding there and back is
      the identity under the round-trip conditions of C18. *)
From Coq Require Import ZArith List Sorted.
From A816 Require Import Model.Pointers Proofs.LegacyProofs Proofs.PackLemmas Spec.TableSpec Proofs.TableDecode Proofs.PointersProofs.
Import ListNotations.
Local Open Scope Z_scope.


Theorem C20_pointers_partition : forall rom pos ps e,
  Forall addr_ok ps -> (2 <= length ps)%nat -> Forall (fun p => addr_key p <= e) ps ->
  let qs := sort_by addr_key ps in
  let addrs := map addr_key qs in
  exists out f', read_pointers_content (mkfile rom pos) ps e = Ok (out, f') /\ f_content f' = rom /\
    map p_id out = map p_id qs /\ map p_addr out = map p_addr qs /\
    map p_value out = map Some (slices rom addrs e) /\
    StronglySorted Z.le addrs /\
    concat (slices rom addrs e) = slice rom (hd 0 addrs) e.
Proof. exact read_pointers_content_partition. Qed.

Theorem C20_pointers_single : forall rom pos p a e,
  p_addr p = Some a ->
  read_pointers_content (mkfile rom pos) [p] e =
  Ok ([set_value p (readat rom pos (e - a))], snd (fread (mkfile rom pos) (e - a))).
Proof. exact read_pointers_content_single. Qed.

Theorem C20_pointers_values : forall ps,
  Forall has_value ps ->
  write_pointers_value_as_binary ps = Ok (concat (map value_of (sort_by p_id ps))).
Proof. exact write_values_spec. Qed.

Theorem C20_pointers_addresses : forall ps base,
  Forall has_value ps -> 0 <= base ->
  base + len (concat (map value_of ps)) < 8388608 ->
  let vs := map value_of (sort_by p_id ps) in
  write_pointers_addresses_as_binary ps (long_low_rom_pointer base) =
    Ok (concat (map (fun o => le_bytes 3 (rom_to_snes (base + o) LowRom)) (offsets vs 0))) /\
  write_pointers_value_as_binary ps = Ok (concat vs) /\
  forall k, (k < length vs)%nat -> nth k (offsets vs 0) 0 = len (concat (firstn k vs)).
Proof. exact write_addresses_lorom. Qed.

Theorem C20_pointers_addresses_roundtrip : forall ps base pos,
  Forall has_value ps -> 0 <= base ->
  base + len (concat (map value_of ps)) < 3670016 ->
  let offs := offsets (map value_of (sort_by p_id ps)) 0 in
  exists table, write_pointers_addresses_as_binary ps (long_low_rom_pointer base) = Ok table /\
    result (read_pointers (mkfile table pos) 0 (Z.of_nat (length ps)) 3 long_low_rom_pointer_inverse)
    = Ok (numbered 0 (map (fun o => base + o) offs)).
Proof. exact addresses_roundtrip_lorom. Qed.

Theorem C20_pointers_base_relative_roundtrip : forall ps base pos,
  Forall has_value ps -> len (concat (map value_of ps)) < 65536 ->
  let offs := offsets (map value_of (sort_by p_id ps)) 0 in
  exists table, write_pointers_addresses_as_binary ps (fun p => Ok (le_bytes 2 p)) = Ok table /\
    result (read_pointers (mkfile table pos) 0 (Z.of_nat (length ps)) 2 (base_relative_16bits_pointer base))
    = Ok (numbered 0 (map (fun o => o + base) offs)).
Proof. exact addresses_roundtrip_base_relative. Qed.

Theorem C20_pointers_dump_roundtrip : forall ps pre suf pos pos',
  Forall has_value ps -> (2 <= length ps)%nat ->
  len pre + len (concat (map value_of ps)) < 3670016 ->
  let base := len pre in
  let vs := map value_of (sort_by p_id ps) in
  exists table values ptrs out f',
    write_pointers_addresses_as_binary ps (long_low_rom_pointer base) = Ok table /\
    write_pointers_value_as_binary ps = Ok values /\
    result (read_pointers (mkfile table pos) 0 (Z.of_nat (length ps)) 3 long_low_rom_pointer_inverse) = Ok ptrs /\
    read_pointers_content (mkfile (pre ++ values ++ suf) pos') ptrs (base + len values) = Ok (out, f') /\
    map p_value out = map Some vs /\
    map p_id out = map Z.of_nat (seq 0 (length ps)).
Proof. exact dump_roundtrip. Qed.

Theorem C20_pointers_append : forall t1 t2,
  t1 <> [] ->
  exists m, In m (map p_id t1) /\ Forall (fun i => i <= m) (map p_id t1) /\
    append_pointers t1 t2 = Ok (sort_by p_id t1 ++ map (shift_id m) (sort_by p_id t2)) /\
    (Forall (fun i => 0 <= i) (map p_id t2) ->
     StronglySorted Z.le (map p_id (sort_by p_id t1 ++ map (shift_id m) (sort_by p_id t2)))).
Proof. exact append_pointers_spec. Qed.

Theorem C20_pointers_recode : forall ps from_t to_t,
  recode_pointer_values ps from_t to_t = map_res (recode_one from_t to_t) ps.
Proof. exact recode_is_map. Qed.

Theorem C20_pointers_recode_roundtrip : forall es1 es2 t1 t2 ps,
  table_of_entries es1 = Ok t1 -> rt_table es1 -> single_char_texts es1 ->
  table_of_entries es2 = Ok t2 -> rt_table es2 -> single_char_texts es2 ->
  Forall (fun p => exists s, over_alphabet es1 s /\ over_alphabet es2 s /\ joker_free s /\
                             (do b <- to_bytes t1 s; Ok (Some b)) = Ok (p_value p)) ps ->
  exists mid, recode_pointer_values ps t1 t2 = Ok mid /\ recode_pointer_values mid t2 t1 = Ok ps.
Proof. exact recode_there_and_back. Qed.

Print Assumptions C20_pointers_partition.
Print Assumptions C20_pointers_single.
Print Assumptions C20_pointers_values.
Print Assumptions C20_pointers_addresses.
Print Assumptions C20_pointers_addresses_roundtrip.
Print Assumptions C20_pointers_base_relative_roundtrip.
Print Assumptions C20_pointers_dump_roundtrip.
Print Assumptions C20_pointers_append.
Print Assumptions C20_pointers_recode.
Print Assumptions C20_pointers_recode_roundtrip.
