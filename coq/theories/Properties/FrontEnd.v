(** The front end as a whole: printing an AST and reading the text back.

    [print_program] writes a program of the printable class (labels, instructions in every operand
    shape the parser produces, data directives, strings, assignments, [*=] / [@=], blocks, scopes,
    macros and their applications, [.if] / [else], [.for], nested without bound) as source text, one
    statement per line.  Scanning and parsing that text gives the same AST back, up to token
    positions; hence assembling the printed text through the whole pipeline gives the blocks, label
    values and symbol tables of the AST-level assembly.  Every theorem of this development that is
    stated on ASTs (scoping C08, macros C09, [.if]/[.for] C10, labels C02, data C07 ...) therefore
    holds of the source text [print_program prog] of every printable [prog]. *)
From Coq Require Import ZArith List.
From A816 Require Import Model.Assemble Proofs.LayoutLink Proofs.LocationTextParse Proofs.RoundTripParse
  Proofs.RoundTripProgram Proofs.RoundTripAsm.

Theorem Front_roundtrip : forall lx file inc incfuel prog,
  lexicon_rt lx = true -> (forall name, inc name <> OutOfFuel) -> printable lx prog = true ->
  exists toks lines prog',
    scan lx file (print_program prog) = ScanOk toks lines /\
    parse_program (parse_fuel (length toks)) incfuel inc toks = POk prog' /\
    asrel sameTV prog prog'.
Proof. exact roundtrip. Qed.

Theorem Front_assemble_printed : forall t fs c fname prog,
  lexicon_rt (lv_lex t) = true -> printable (lv_lex t) prog = true ->
  result_same_up_to_positions (assemble_program (world_of t fs) c prog)
                              (assemble_source t fs c fname (print_program prog)).
Proof. exact assemble_printed. Qed.

Theorem Front_assemble_ast_printed : forall t fs c fname prog ri o,
  lexicon_rt (lv_lex t) = true -> printable (lv_lex t) prog = true ->
  initial_resolver (world_of t fs) c = Ok ri -> assemble_ast (world_of t fs) ri prog = Ok o ->
  exists o' fin', assemble_source t fs c fname (print_program prog) = AOk o' fin' /\
                  o_blocks o' = o_blocks o /\ o_labels o' = o_labels o.
Proof. exact assemble_ast_printed. Qed.

Print Assumptions Front_roundtrip.
Print Assumptions Front_assemble_printed.
Print Assumptions Front_assemble_ast_printed.
