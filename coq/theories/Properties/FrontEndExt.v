(** The front-end round trip on the EXTENDED printable class (Proofs/RoundTripExt*.v): beyond
    Properties/FrontEnd.v it covers dotted names [scope.name] in expressions, [.include 'path']
    (relative to what the included path parses to), [.include_ips 'path', e], code lookups
    [{{name}}] and code-block macro arguments [m({ ... })], and [.map] with its attribute list.
    [pth] gives the path under which an included body is written, [incd] which bodies are included
    files.  Also: renaming with no computed hypothesis ([pident_b] of the new name suffices), and the
    closed form of the [.include] line.  What cannot round-trip is shown by counterexamples in
    Proofs/RoundTripExtDemo.v ([/ | ~] and [>= <=] in statement context, BOOLEAN / TYPE tokens that
    the scanner never produces - so [.struct] fields never parse -, a label named [else] after an
    [.if] without else). *)
From Coq Require Import ZArith List Bool Arith.
From A816 Require Import Model.Assemble Proofs.TextLiftRen Proofs.RoundTripExtProgram Proofs.RoundTripExtAsm Proofs.IncludeNest1.

Theorem FrontExt_roundtrip :
  forall (pth : list ast -> str) (incd : list ast -> bool) (lx : lexicon)
  (file : str) (inc : str -> res (list token)) (incfuel : nat) (prog : list ast),
  lexicon_rt lx = true ->
  (forall name : str, inc name <> OutOfFuel) ->
  (forall b : list ast,
  incd b = true ->
  exists b' : list ast,
  RoundTripExtParse.inc_sub incfuel inc (pth b) = POk b' /\
  LocationTextParse.asrel LayoutLink.sameTV b b') ->
  printable pth incd lx prog = true ->
  exists (toks : list token) (lines : list str) (prog' : list ast),
  scan lx file (print_program pth prog) = ScanOk toks lines /\
  parse_program (parse_fuel (length toks)) incfuel inc toks = POk prog' /\
  LocationTextParse.asrel LayoutLink.sameTV prog prog'.
Proof. exact @roundtrip_ext. Qed.

Theorem FrontExt_assemble_printed :
  forall (pth : list ast -> str) (incd : list ast -> bool) (t : live)
  (fs : srcfiles) (c : config) (fname : str) (prog : list ast),
  lexicon_rt (lv_lex t) = true ->
  (forall b : list ast,
  incd b = true ->
  exists b' : list ast,
  RoundTripExtParse.inc_sub include_depth (include_tokens t fs) (pth b) = POk b' /\
  LocationTextParse.asrel LayoutLink.sameTV b b') ->
  printable pth incd (lv_lex t) prog = true ->
  LayoutLink.result_same_up_to_positions (assemble_program (world_of t fs) c prog)
  (assemble_source t fs c fname (print_program pth prog)).
Proof. exact @assemble_printed_ext. Qed.

Theorem TextLift_renaming_ident :
  forall (t : live) (fs : srcfiles) (c : config) (f1 f2 z z' : str) (prog : list ast),
  RoundTripProgram.lexicon_rt (lv_lex t) = true ->
  RoundTripProgram.printable (lv_lex t) (TextLiftFi.canon_prog prog) = true ->
  RoundTripExpr.pident_b (lv_lex t) z' = true ->
  Renaming.nodot z = true ->
  Renaming.nodot z' = true ->
  CodeValuesRen.prog_okg (Renaming.ren z z') (Renaming.inD z') prog ->
  (forall ri : rstate,
  initial_resolver (world_of t fs) c = Ok ri ->
  Renaming.state_untouched z z' ri = true /\
  CodeValuesRen.start_code_ok (Renaming.ren z z') (Renaming.inD z') ri) ->
  TextLiftCommon.text_rel (TextLiftC08.renamed_bl z z')
  (assemble_source t fs c f1 (RoundTripProgram.print_program prog))
  (assemble_source t fs c f2
  (RoundTripProgram.print_program (RenamingAst.rename_prog (Renaming.ren z z') prog))).
Proof. exact @renaming_text_ident. Qed.

Theorem FrontExt_include_line :
  forall (lx : lexicon) (fname : str) (k1 : nat) (path : str),
  mem_str k_include (lx_keywords lx) = true ->
  IpsTextScan.path_ok path -> IncludeMove4.include_line lx fname (include_text k1 path) path.
Proof. exact @include_line_closed. Qed.

Print Assumptions FrontExt_roundtrip.
Print Assumptions FrontExt_assemble_printed.
Print Assumptions TextLift_renaming_ident.
Print Assumptions FrontExt_include_line.
