(** The AST-level end-to-end statements of C08, C09, C10 and C12, carried to SOURCE TEXT by the
    front-end round trip (Properties/FrontEnd.v).  Each theorem compares the whole-pipeline
    assembly ([assemble_source]: scanner, parser, code generation, both passes, emission) of two
    printed programs: [text_rel Q r1 r2] says both succeed and their blocks and label lists are
    related by [Q], or both fail with the same error class.

    - C10: a program with [.for] and the program with the loop unrolled by hand; a program with
      [.if] and the program with the selected branch written in place;
    - C09: a program with a macro application and the program with the literal-bound body block
      written at the call site;
    - C08: a program and the program with a scope-local name consistently renamed;
    - C12: a program assembled with -D values and the program with the lines NAME := VALUE in front;
    All hypotheses of printability are stated on the canonical form [canon_prog] (every [file_info]
    replaced by the token the parser stores there; [print_program (canon_prog p) = print_program p]),
    so that they are satisfiable whatever tokens the AST-level statement carries and whatever
    construct ends the statements in front (four constructs store the FOLLOWING token).
    - the blocks, labels and error class of an assembly do not depend on any [file_info] token
      ([TextLift_fi_independent]), which is what lets statements universally quantified over those
      tokens be printed at all ([TextLift_pair_canon] is the general lift). *)
From Coq Require Import ZArith List.
From A816 Require Import Model.Assemble Proofs.RoundTripProgram Proofs.TextLiftCommon Proofs.TextLiftC10
  Proofs.TextLiftDefine Proofs.TextLiftFi Proofs.TextLiftC08 Proofs.TextLiftCanon.
Import ListNotations.

Theorem TextLift_for_unrolled : forall t fs c f1 f2, lexicon_rt (lv_lex t) = true ->
  forall v lo hi b bfi fi0 fi fi' from to lits pre post,
  printable (lv_lex t) (canon_prog (pre ++ Ast.AFor v lo hi b bfi fi0 :: post)) = true ->
  printable (lv_lex t) (canon_prog (pre ++ Unroll.unrolled v lits b fi fi' ++ post)) = true ->
  (forall ri s' ns', initial_resolver (world_of t fs) c = Ok ri ->
     Codegen.code_gen_fuel (world_of t fs) Codegen.cg_depth {| Codegen.cg_r := ri; Codegen.cg_macros := [] |} pre = Ok (s', ns') ->
     Resolver.eval_raw (world_of t fs) (Codegen.cg_r s') lo = Ok from /\
     Resolver.eval_raw (world_of t fs) (Codegen.cg_r s') hi = Ok to) ->
  length lits = Z.to_nat (to - from) -> Unroll.literals_for (world_of t fs) from lits ->
  text_rel (fun b1 l1 b2 l2 => b1 = b2 /\ UnrollSim.sublist l1 l2)
    (assemble_source t fs c f1 (print_program (pre ++ Ast.AFor v lo hi b bfi fi0 :: post)))
    (assemble_source t fs c f2 (print_program (pre ++ Unroll.unrolled v lits b fi fi' ++ post))).
Proof. exact for_unrolled_text_canon. Qed.

Theorem TextLift_if_selected : forall t fs c f1 f2, lexicon_rt (lv_lex t) = true ->
  forall pre post cnd th thfi el fi b,
  printable (lv_lex t) (canon_prog (pre ++ Ast.AIf cnd th thfi el fi :: post)) = true ->
  printable (lv_lex t) (canon_prog (pre ++ IfInline.selected b th el ++ post)) = true ->
  (forall ri x, initial_resolver (world_of t fs) c = Ok ri ->
     Codegen.code_gen_fuel (world_of t fs) Codegen.cg_depth (IfInline.cg0 ri) pre = Ok x ->
     Codegen.if_condition (world_of t fs) (Codegen.cg_r (fst x)) cnd = Ok b) ->
  (forall ri, initial_resolver (world_of t fs) c = Ok ri ->
     Codegen.code_gen_fuel (world_of t fs) Codegen.cg_depth (IfInline.cg0 ri) (pre ++ Ast.AIf cnd th thfi el fi :: post) <> Err ERecursion \/
     Codegen.code_gen_fuel (world_of t fs) (Nat.pred Codegen.cg_depth) (IfInline.cg0 ri) (pre ++ IfInline.selected b th el ++ post) <> Err ERecursion) ->
  text_rel same_bl
    (assemble_source t fs c f1 (print_program (pre ++ Ast.AIf cnd th thfi el fi :: post)))
    (assemble_source t fs c f2 (print_program (pre ++ IfInline.selected b th el ++ post))).
Proof. exact if_selected_text_canon. Qed.

Theorem TextLift_macro_inline : forall t fs c f1 f2, lexicon_rt (lv_lex t) = true ->
  forall before after name args fi fi' fi'' md bound pvs lits,
  printable (lv_lex t) (canon_prog (before ++ [Ast.AMacroApply name args fi] ++ after)) = true ->
  printable (lv_lex t)
    (canon_prog (before ++ [Ast.ACompound (CodegenProofs.assigns pvs lits fi'' ++ Codegen.md_body md) fi'] ++ after)) = true ->
  (forall ri s' ns', initial_resolver (world_of t fs) c = Ok ri ->
     Codegen.code_gen_fuel (world_of t fs) Codegen.cg_depth {| Codegen.cg_r := ri; Codegen.cg_macros := [] |} before = Ok (s', ns') ->
     dict_get (Codegen.cg_macros s') name = Some md /\
     Codegen.eval_macro_args (world_of t fs) (Codegen.cg_r s') (Codegen.md_params md) args = Ok bound) ->
  CodegenProofs.int_values bound = Some pvs -> CodegenProofs.closed_literals (world_of t fs) pvs lits ->
  text_rel same_bl
    (assemble_source t fs c f1 (print_program (before ++ [Ast.AMacroApply name args fi] ++ after)))
    (assemble_source t fs c f2
       (print_program (before ++ [Ast.ACompound (CodegenProofs.assigns pvs lits fi'' ++ Codegen.md_body md) fi'] ++ after))).
Proof. exact macro_inline_text_canon. Qed.

Theorem TextLift_renaming : forall t fs c f1 f2 z z' prog,
  lexicon_rt (lv_lex t) = true ->
  printable (lv_lex t) (canon_prog prog) = true ->
  printable (lv_lex t) (canon_prog (RenamingAst.rename_prog (Renaming.ren z z') prog)) = true ->
  Renaming.nodot z = true -> Renaming.nodot z' = true ->
  CodeValuesRen.prog_okg (Renaming.ren z z') (Renaming.inD z') prog ->
  (forall ri, initial_resolver (world_of t fs) c = Ok ri ->
     Renaming.state_untouched z z' ri = true /\ CodeValuesRen.start_code_ok (Renaming.ren z z') (Renaming.inD z') ri) ->
  text_rel (renamed_bl z z')
    (assemble_source t fs c f1 (print_program prog))
    (assemble_source t fs c f2 (print_program (RenamingAst.rename_prog (Renaming.ren z z') prog))).
Proof. exact renaming_text. Qed.

Theorem TextLift_defines : forall t fs rom ds f1 f2 prog,
  lexicon_rt (lv_lex t) = true ->
  printable (lv_lex t) prog = true -> printable (lv_lex t) (define_lines ds ++ prog) = true ->
  text_rel same_bl
    (assemble_source t fs {| cf_rom := rom; cf_defines := ds |} f1 (print_program prog))
    (assemble_source t fs {| cf_rom := rom; cf_defines := [] |} f2 (print_program (define_lines ds ++ prog))).
Proof. exact defines_text. Qed.

Theorem TextLift_fi_independent : forall w c p p', same_shape p p' ->
  text_rel same_bl (assemble_program w c p) (assemble_program w c p').
Proof. exact fi_independent. Qed.

Theorem TextLift_print_canon : forall prog, print_program (canon_prog prog) = print_program prog.
Proof. exact print_canon. Qed.

Theorem TextLift_pair_canon : forall t fs c f1 f2 Q p1 p2,
  lexicon_rt (lv_lex t) = true ->
  printable (lv_lex t) (canon_prog p1) = true -> printable (lv_lex t) (canon_prog p2) = true ->
  (forall ri, initial_resolver (world_of t fs) c = Ok ri ->
     ast_rel Q (Codegen.assemble_ast (world_of t fs) ri p1) (Codegen.assemble_ast (world_of t fs) ri p2)) ->
  text_rel Q (assemble_source t fs c f1 (print_program p1)) (assemble_source t fs c f2 (print_program p2)).
Proof. exact lift_pair_canon. Qed.

Print Assumptions TextLift_for_unrolled.
Print Assumptions TextLift_if_selected.
Print Assumptions TextLift_macro_inline.
Print Assumptions TextLift_renaming.
Print Assumptions TextLift_defines.
Print Assumptions TextLift_fi_independent.
Print Assumptions TextLift_print_canon.
Print Assumptions TextLift_pair_canon.
