(** Specification side of C04/C20: the textbook bus formulas, written independently of the
    implementation's bit operations. *)
From A816 Require Export Model.Bus.

(** A bank window of [mask] bytes sits at the top of the 64K bank: 0x8000.. for 32K, 0.. for 64K. *)
Definition window_start (mask : Z) : Z := 65536 - mask.
Definition in_window (m : mapping) (a : Z) : Prop := window_start (m_mask m) <= a mod 65536.
Definition in_window_b (m : mapping) (a : Z) : bool := window_start (m_mask m) <=? a mod 65536.
Definition mask_ok (m : mapping) : Prop := m_mask m = 32768 \/ m_mask m = 65536.
Definition mask_ok_b (m : mapping) : bool := (m_mask m =? 32768) || (m_mask m =? 65536).
Definition bank_of (a : Z) : Z := a / 65536.

(** (bank - first bank of its range) x bank size + position inside the bank window *)
Definition spec_offset (m : mapping) (a : Z) : Z :=
  (bank_of a - m_first m) * m_mask m + (a mod 65536 - window_start (m_mask m)).

(** The address with file offset [p] in the range of [m]. *)
Definition spec_address (m : mapping) (p : Z) : Z :=
  (p / m_mask m + m_first m) * 65536 + window_start (m_mask m) + p mod m_mask m.

(** Built-in LoROM / HiROM, as closed forms over all of Z. *)
Definition lorom_spec (a : Z) : res (option Z) :=
  let bank := bank_of a in
  if (0 <=? bank) && (bank <=? 111) then Ok (Some (bank * 32768 + a mod 32768))
  else if (128 <=? bank) && (bank <=? 207) then Ok (Some ((bank - 128) * 32768 + a mod 32768))
  else if (126 <=? bank) && (bank <=? 127) then Ok None
  else Err EKey.
Definition hirom_spec (a : Z) : res (option Z) :=
  let bank := bank_of a in
  if (126 <=? bank) && (bank <=? 127) then Ok None
  else if (64 <=? bank) && (bank <=? 125) then Ok (Some ((bank - 64) * 65536 + a mod 65536))
  else if (192 <=? bank) && (bank <=? 255) then Ok (Some ((bank - 192) * 65536 + a mod 65536))
  else Err EKey.

(** Boolean agreement of two buses on every bank, decidable when all ranges lie in 0..255. *)
Definition ranges_small (b : bus) : bool :=
  forallb (fun r => let '(lo, hi, _) := r in (0 <=? lo) && (hi <=? 255)) (b_ranges b).
Definition mapping_eqb (a b : mapping) : bool :=
  (m_first a =? m_first b) && (m_last a =? m_last b) && (m_mask a =? m_mask b)
  && Bool.eqb (m_writable a) (m_writable b).
Definition res_mapping_eqb (a b : res mapping) : bool :=
  match a, b with
  | Ok x, Ok y => mapping_eqb x y
  | Err j, Err k => errk_eqb j k
  | _, _ => false
  end.
Definition bus_agree_b (b1 b2 : bus) : bool :=
  ranges_small b1 && ranges_small b2 &&
  forallb (fun n => res_mapping_eqb (bus_mapping_for_bank b1 (Z.of_nat n)) (bus_mapping_for_bank b2 (Z.of_nat n)))
          (seq 0 256).
