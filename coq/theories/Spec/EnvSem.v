(** Specification side of C08: the abstract reading of lexical scoping over a tree of scopes. *)
From A816 Require Export Model.Resolver.

(** A scope defines a name when it binds it as a symbol/label or as a code block. *)
Definition defines (s : scope) (name : str) : bool :=
  dict_mem (s_symbols s) name || dict_mem (s_code s) name.

(** Scopes form a tree: a parent was created before its child. *)
Definition wf_scopes (scopes : list scope) : Prop :=
  forall i s p, nth_error scopes i = Some s -> s_parent s = Some p -> (p < i)%nat.

(** [Resolves scopes i name v]: looked up from scope [i], [name] denotes [v] — the binding of
    the innermost enclosing scope that defines it; the top level answers for everything else
    (with "not defined" when it has no binding). *)
Inductive Resolves (scopes : list scope) : nat -> str -> res sval -> Prop :=
| R_here i s name :
    nth_error scopes i = Some s -> s_parent s <> None -> defines s name = true ->
    Resolves scopes i name (scope_getitem s name)
| R_up i s p name v :
    nth_error scopes i = Some s -> s_parent s = Some p -> defines s name = false ->
    Resolves scopes p name v -> Resolves scopes i name v
| R_root i s name :
    nth_error scopes i = Some s -> s_parent s = None ->
    Resolves scopes i name (scope_getitem s name).

(** [encloses scopes j i]: scope [j] is [i] itself or one of its ancestors. *)
Inductive encloses (scopes : list scope) : nat -> nat -> Prop :=
| E_self i : encloses scopes i i
| E_parent j i s p : nth_error scopes i = Some s -> s_parent s = Some p -> encloses scopes j p ->
                     encloses scopes j i.
