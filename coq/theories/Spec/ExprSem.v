(** C06 — independent specification of expressions.

    Tree syntax, a value semantics over unbounded [Z] written with the textbook meaning of each
    operator (a shift is a multiplication / floor division by a power of two, [~v] is the
    complement of [v] inside a k-bit word), and the *conventional reading* of an infix text as
    a stratification predicate [wf] on trees.  Nothing here refers to the algorithm of the
    implementation (no stack, no precedence table): this file imports only the token/AST
    vocabulary ([Model/Ast.v]) so that [flat] can say which token list a tree is written as.

    Which trees does [wf] admit?  Exactly the trees of the unambiguous grammar

        E5 ::= E5 "|" E4 | E4            E4 ::= E4 "&" E3 | E3
        E3 ::= E3 ("<<" | ">>") E2 | E2  E2 ::= E2 ("+" | "-") E1 | E1
        E1 ::= E1 "*" E0 | E0            E0 ::= number | identifier | ("-" | "~") E0 | "(" E5 ")"

    ([level e <= i] and [wf e]  <->  e is derivable from Ei; see [wf] below: the left operand of
    an operator of level i is an Ei, the right operand an E(i-1), the operand of a prefix
    operator an E0, anything between parentheses).  The grammar is the usual operator-precedence
    grammar with six left-associative levels.  Every expression text has exactly one such reading,
    and this is proved (Proofs/ExprUnique.v, exported as C06_reading_exists / C06_unique_reading /
    C06_unique_value):
      - existence: the token lists the parser can build are those of the ambiguous grammar
        E ::= atom | u E | E o E | ( E ), i.e. [flat t] for an arbitrary tree [t]; for every [t]
        there is a [wf] tree [e] with [flat e = flat t] (re-association [norm]);
      - uniqueness: two [wf] trees with the same token list are the same tree up to the way equal
        literal texts are described ([skel]; [render] is not injective in its format argument:
        the letter case chosen for a digit 0-9 is invisible), and therefore have the same value.
    Hence "the value of the expression text under conventional precedence" is [eval env e] for
    the unique [wf] tree [e] whose token list is the text's. *)
From Coq Require Import ZArith NArith List Bool.
From A816 Require Export Model.Ast.
Open Scope Z_scope.

(** ** Syntax *)
Inductive bop := OMul | OAdd | OSub | OShl | OShr | OAnd | OOr.
Inductive uop := ONeg | ONot.

(** How a literal is written: decimal; [0x] + [pad] leading zeros + hexadecimal digits, the i-th
    digit (most significant first) in upper case iff the i-th element of [upper] is [true]
    (missing elements = lower case); [0b] + [pad] leading zeros + binary digits. *)
Inductive numfmt := FDec | FHex (pad : nat) (upper : list bool) | FBin (pad : nat).

Inductive sexpr :=
| Num (f : numfmt) (n : N)        (* a literal denotes a natural number *)
| Id (s : str)
| Un (o : uop) (e : sexpr)
| Bin (o : bop) (a b : sexpr)
| Par (e : sexpr).

(** ** Values *)
Definition senv := str -> res Z.   (* the symbol table: undefined names are an [Err] *)

(** The smallest of 8, 16, 32 bits that holds |v|. *)
Definition not_width (v : Z) : option Z :=
  if Z.abs v <? 2 ^ 8 then Some 8
  else if Z.abs v <? 2 ^ 16 then Some 16
  else if Z.abs v <? 2 ^ 32 then Some 32
  else None.

Definition un_sem (o : uop) (v : Z) : res Z :=
  match o with
  | ONeg => Ok (- v)
  | ONot => match not_width v with
            | Some k => Ok (Z.land (Z.lnot v) (Z.ones k))     (* complement inside a k-bit word *)
            | None => Err ERuntime
            end
  end.

Definition bin_sem (o : bop) (x y : Z) : res Z :=
  match o with
  | OMul => Ok (x * y)
  | OAdd => Ok (x + y)
  | OSub => Ok (x - y)
  | OShl => if y <? 0 then Err EValue else Ok (x * 2 ^ y)
  | OShr => if y <? 0 then Err EValue else Ok (x / 2 ^ y)       (* floor division *)
  | OAnd => Ok (Z.land x y)                                      (* two's complement, unbounded *)
  | OOr => Ok (Z.lor x y)
  end.

(** Left operand first, then the right one, then the operator: the first error wins. *)
Fixpoint eval (ev : senv) (e : sexpr) : res Z :=
  match e with
  | Num _ n => Ok (Z.of_N n)
  | Id s => ev s
  | Un o a => do v <- eval ev a; un_sem o v
  | Bin o a b => do x <- eval ev a; do y <- eval ev b; bin_sem o x y
  | Par a => eval ev a
  end.

(** ** The conventional reading *)
Definition blevel (o : bop) : Z :=
  match o with OMul => 1 | OAdd | OSub => 2 | OShl | OShr => 3 | OAnd => 4 | OOr => 5 end.
(** 0 = atomic, prefixed or parenthesised; otherwise the level of the root operator. *)
Definition level (e : sexpr) : Z := match e with Bin o _ _ => blevel o | _ => 0 end.

Fixpoint wf (e : sexpr) : Prop :=
  match e with
  | Num _ _ | Id _ => True
  | Un _ a => level a = 0 /\ wf a
  | Bin o a b => level a <= blevel o /\ level b < blevel o /\ wf a /\ wf b
  | Par a => wf a
  end.

Fixpoint wfb (e : sexpr) : bool :=
  match e with
  | Num _ _ | Id _ => true
  | Un _ a => (level a =? 0) && wfb a
  | Bin o a b => (level a <=? blevel o) && (level b <? blevel o) && wfb a && wfb b
  | Par a => wfb a
  end.

(** ** Numerals *)
Definition dchar (upper : bool) (d : Z) : Z :=
  if d <? 10 then 48 + d else if upper then 55 + d else 87 + d.

(** Most significant digit first.  The fuel only bounds the recursion: [digits] gives enough. *)
Fixpoint digits_fuel (base : Z) (fuel : nat) (n : Z) (acc : list Z) : list Z :=
  match fuel with
  | O => n :: acc
  | S f => if n <? base then n :: acc else digits_fuel base f (n / base) (n mod base :: acc)
  end.
Definition digits (base n : Z) : list Z := digits_fuel base (Z.to_nat (Z.log2 n)) n [].

Fixpoint dchars (upper : list bool) (ds : list Z) : str :=
  match ds with
  | [] => []
  | d :: r => dchar (hd false upper) d :: dchars (tl upper) r
  end.

Definition render (f : numfmt) (n : N) : str :=
  match f with
  | FDec => dchars [] (digits 10 (Z.of_N n))
  | FHex pad upper => 48 :: 120 :: repeat_z 48 pad ++ dchars upper (digits 16 (Z.of_N n))
  | FBin pad => 48 :: 98 :: repeat_z 48 pad ++ dchars [] (digits 2 (Z.of_N n))
  end.

(** ** The token list a tree is written as (what the parser hands to the evaluator) *)
Definition bop_text (o : bop) : str :=
  match o with
  | OMul => [42] | OAdd => [43] | OSub => [45] | OShl => [60; 60] | OShr => [62; 62]
  | OAnd => [38] | OOr => [124]
  end.
Definition uop_text (o : uop) : str := match o with ONeg => [45] | ONot => [126] end.

Definition mk_en (k : ekind) (ty : ttype) (v : str) : enode := {| en_kind := k; en_tok := mk_token ty v |}.
Definition n_num (f : numfmt) (n : N) : enode := mk_en EK_term T_NUMBER (render f n).
Definition n_id (s : str) : enode := mk_en EK_term T_IDENTIFIER s.
Definition n_un (o : uop) : enode := mk_en EK_un T_OPERATOR (uop_text o).
Definition n_bin (o : bop) : enode := mk_en EK_bin T_OPERATOR (bop_text o).
Definition n_lp : enode := mk_en EK_par T_LPAREN [40].
Definition n_rp : enode := mk_en EK_par T_RPAREN [41].

Fixpoint flat (e : sexpr) : expr :=
  match e with
  | Num f n => [n_num f n]
  | Id s => [n_id s]
  | Un o a => n_un o :: flat a
  | Bin o a b => flat a ++ n_bin o :: flat b
  | Par a => n_lp :: flat a ++ [n_rp]
  end.

(** Postfix form: operands in order, each operator after its operands, no parentheses. *)
Fixpoint postfix (e : sexpr) : list enode :=
  match e with
  | Num f n => [n_num f n]
  | Id s => [n_id s]
  | Un o a => postfix a ++ [n_un o]
  | Bin o a b => postfix a ++ postfix b ++ [n_bin o]
  | Par a => postfix a
  end.

(** Sanity: the reading of a few texts (computed). *)
Example level_examples :
  wfb (Bin OAdd (Num FDec 1) (Bin OMul (Num FDec 2) (Num FDec 3))) = true /\        (* 1+2*3 *)
  wfb (Bin OMul (Bin OAdd (Num FDec 1) (Num FDec 2)) (Num FDec 3)) = false /\       (* needs ( ) *)
  wfb (Bin OSub (Bin OSub (Id [97]) (Id [98])) (Id [99])) = true /\                 (* a-b-c *)
  wfb (Bin OSub (Id [97]) (Bin OSub (Id [98]) (Id [99]))) = false /\                (* a-(b-c) *)
  wfb (Bin OMul (Un ONeg (Id [97])) (Id [98])) = true /\                            (* -a*b *)
  wfb (Un ONeg (Bin OMul (Id [97]) (Id [98]))) = false /\
  wfb (Un ONot (Un ONeg (Par (Bin OOr (Id [97]) (Id [98]))))) = true.               (* ~-(a|b) *)
Proof. repeat split. Qed.
Example eval_examples :
  let ev := fun _ : str => Err ESymbol in
  eval ev (Un ONot (Num FDec 1)) = Ok 254 /\
  eval ev (Un ONot (Num FDec 256)) = Ok 65279 /\
  eval ev (Un ONot (Un ONeg (Num FDec 1))) = Ok 0 /\
  eval ev (Un ONot (Num FDec 4294967296)) = Err ERuntime /\
  eval ev (Bin OShr (Un ONeg (Num FDec 5)) (Num FDec 1)) = Ok (-3) /\
  eval ev (Bin OShl (Num FDec 1) (Un ONeg (Num FDec 1))) = Err EValue /\
  eval ev (Bin OAnd (Un ONeg (Num FDec 2)) (Num FDec 255)) = Ok 254 /\
  render (FHex 1 [true; false]) 2748 = [48; 120; 48; 65; 98; 99] /\                 (* 0x0Abc *)
  render FDec 0 = [48] /\ render (FBin 0) 5 = [48; 98; 49; 48; 49].
Proof. repeat split. Qed.
