(** Independent specification of the IPS patch format (C11, C12, C13).

    Written from the format description, not from a816: a patch is the magic "PATCH", a
    sequence of records and the marker "EOF".  A record is a 3-byte big-endian offset, a 2-byte
    big-endian size and [size] data bytes, or - when the size field is 0 - a run-length record
    (2-byte big-endian run length, 1 value byte).  A patcher applies the records in file order;
    writing past the end of the image extends it, the gap reads as zeros.  An offset whose three
    bytes are "EOF" (0x454F46) cannot start a record: a patcher stops there.

    Definitions only (plus decidable versions); lemmas are in Proofs/IpsProofs.v. *)
From A816 Require Export Base.Prelude.
Open Scope Z_scope.

Definition image := list Z.
Definition empty_image : image := [].

Definition sentinel : Z := 4542278.                     (* 0x454F46 = "EOF" *)
Definition magic : bytes := [80; 65; 84; 67; 72].       (* "PATCH" *)
Definition eof_marker : bytes := [69; 79; 70].          (* "EOF" *)

Inductive record :=
| Plain (off : Z) (data : bytes)
| Rle (off : Z) (run : Z) (value : Z).

Definition rec_off (r : record) : Z := match r with Plain o _ => o | Rle o _ _ => o end.
(** The bytes a record stands for. *)
Definition rec_data (r : record) : bytes :=
  match r with Plain _ d => d | Rle _ n v => repeat v (Z.to_nat n) end.

(** Big-endian fields. *)
Definition be2 (v : Z) : bytes := [v / 256; v mod 256].
Definition be3 (v : Z) : bytes := [v / 65536; (v / 256) mod 256; v mod 256].

Definition enc_record (r : record) : bytes :=
  match r with
  | Plain o d => be3 o ++ be2 (Z.of_nat (length d)) ++ d
  | Rle o n v => be3 o ++ [0; 0] ++ be2 n ++ [v]
  end.
Definition encode (rs : list record) : bytes := flat_map enc_record rs.
Definition ips_file (rs : list record) : bytes := magic ++ encode rs ++ eof_marker.

(** Record grammar: representable offset that is not the marker, 1..65535 data bytes (a size
    field of 0 would read as a run-length record), run length 1..65535, value one byte. *)
Definition off_ok (o : Z) : Prop := 0 <= o < 16777216 /\ o <> sentinel.
Definition wf_record (r : record) : Prop :=
  match r with
  | Plain o d => off_ok o /\ 1 <= Z.of_nat (length d) <= 65535
  | Rle o n v => off_ok o /\ 1 <= n <= 65535 /\ 0 <= v < 256
  end.
Definition is_plain (r : record) : Prop := match r with Plain _ _ => True | Rle _ _ _ => False end.

Definition off_ok_b (o : Z) : bool := (0 <=? o) && (o <? 16777216) && negb (o =? sentinel).
Definition wf_record_b (r : record) : bool :=
  match r with
  | Plain o d => off_ok_b o && (1 <=? Z.of_nat (length d)) && (Z.of_nat (length d) <=? 65535)
  | Rle o n v => off_ok_b o && (1 <=? n) && (n <=? 65535) && (0 <=? v) && (v <? 256)
  end.

(** Writing [data] at [off] (a patcher's seek + write): overwrites, extends, zero-fills a gap.
    Writing nothing changes nothing (in particular it does not extend the image). *)
Definition write_at (img : image) (off : Z) (data : bytes) : image :=
  match data with
  | [] => img
  | _ =>
      let o := Z.to_nat off in
      firstn o img ++ repeat 0 (o - length img) ++ data ++ skipn (o + length data) img
  end.

Definition apply_record (img : image) (r : record) : image := write_at img (rec_off r) (rec_data r).
Definition apply_records (rs : list record) (img : image) : image := fold_left apply_record rs img.

(** A list of writes [(offset, bytes)] applied in order. *)
Definition apply_writes (ws : list (Z * bytes)) (img : image) : image :=
  fold_left (fun im w => write_at im (fst w) (snd w)) ws img.

(** Record parser: the records up to the first "EOF" at a record boundary, and whatever
    follows the marker.  Fuel: one unit per record ([S (length body)] always suffices). *)
Fixpoint parse_records (fuel : nat) (bs : bytes) : res (list record * bytes) :=
  match fuel with
  | O => OutOfFuel
  | S f =>
      match bs with
      | o2 :: o1 :: o0 :: after =>
          if (o2 =? 69) && (o1 =? 79) && (o0 =? 70) then Ok ([], after)      (* "EOF" *)
          else
            match after with
            | s1 :: s0 :: body =>
                let off := o2 * 65536 + o1 * 256 + o0 in
                let size := s1 * 256 + s0 in
                if size =? 0 then
                  match body with
                  | n1 :: n0 :: v :: rest =>
                      do (rs, tl) <- parse_records f rest; Ok (Rle off (n1 * 256 + n0) v :: rs, tl)
                  | _ => Err EValue
                  end
                else if Z.of_nat (length body) <? size then Err EValue
                else
                  do (rs, tl) <- parse_records f (skipn (Z.to_nat size) body);
                  Ok (Plain off (firstn (Z.to_nat size) body) :: rs, tl)
            | _ => Err EValue
            end
      | _ => Err EValue
      end
  end.

Definition parse_ips (f : bytes) : res (list record * bytes) :=
  match f with
  | 80 :: 65 :: 84 :: 67 :: 72 :: body => parse_records (S (length body)) body
  | _ => Err EValue
  end.

(** The stand-alone sequential patcher.  Bytes after the marker are ignored. *)
Definition apply_ips (f : bytes) (img : image) : res image :=
  do (rs, _) <- parse_ips f; Ok (apply_records rs img).

(** [tiles a d rs]: the records [rs] are plain, non-empty, and laid end to end they are
    exactly the bytes [d] starting at offset [a] - each byte of [d] once, in order. *)
Inductive tiles : Z -> bytes -> list record -> Prop :=
| tiles_nil a : tiles a [] []
| tiles_cons a d1 d2 rs :
    d1 <> [] -> tiles (a + Z.of_nat (length d1)) d2 rs -> tiles a (d1 ++ d2) (Plain a d1 :: rs).

(** [tiles_seq ws rs]: [rs] is, write by write and in order, a tiling of each write of [ws]
    (an empty write has no record). *)
Inductive tiles_seq : list (Z * bytes) -> list record -> Prop :=
| tiles_seq_nil : tiles_seq [] []
| tiles_seq_cons a d ws r1 r2 :
    tiles a d r1 -> tiles_seq ws r2 -> tiles_seq ((a, d) :: ws) (r1 ++ r2).

(** The blocks handed to a reader's client: every record's bytes at its offset + delta. *)
Definition records_blocks (delta : Z) (rs : list record) : list (Z * bytes) :=
  map (fun r => (rec_off r + delta, rec_data r)) rs.
